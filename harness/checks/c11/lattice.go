package c11

import (
	"encoding/json"
	"fmt"
	"sort"
	"strings"

	"verif/harness/proxyref"
)

// ---------------------------------------------------------------------------------------------------
// Lie lattice: a fixed, complete enumeration (independent of seed and tier) of
//   trap × key kind × target property state × target extensible? × trap behaviour × issuer × handler kind
// Each element is one case.  The expected verdict comes from proxyref (ES §10.5 invariants) applied to the facts
// the trap left behind on the (ordinary) target, and the trap result as specified by the case.
// ---------------------------------------------------------------------------------------------------

type dspec struct {
	Value        *string `json:"value,omitempty"`
	Writable     *bool   `json:"writable,omitempty"`
	Get          *string `json:"get,omitempty"`
	Set          *string `json:"set,omitempty"`
	Enumerable   *bool   `json:"enumerable,omitempty"`
	Configurable *bool   `json:"configurable,omitempty"`
}

func sp(s string) *string { return &s }
func bp(b bool) *bool     { return &b }

func (d dspec) clone() dspec {
	c := dspec{}
	if d.Value != nil {
		c.Value = sp(*d.Value)
	}
	if d.Writable != nil {
		c.Writable = bp(*d.Writable)
	}
	if d.Get != nil {
		c.Get = sp(*d.Get)
	}
	if d.Set != nil {
		c.Set = sp(*d.Set)
	}
	if d.Enumerable != nil {
		c.Enumerable = bp(*d.Enumerable)
	}
	if d.Configurable != nil {
		c.Configurable = bp(*d.Configurable)
	}
	return c
}

func (d dspec) empty() bool {
	return d.Value == nil && d.Writable == nil && d.Get == nil && d.Set == nil && d.Enumerable == nil && d.Configurable == nil
}

// canonical short text of a descriptor spec (used in signatures)
func (d dspec) String() string {
	var p []string
	if d.Value != nil {
		p = append(p, "value:"+*d.Value)
	}
	if d.Writable != nil {
		p = append(p, fmt.Sprintf("writable:%v", *d.Writable))
	}
	if d.Get != nil {
		p = append(p, "get:"+*d.Get)
	}
	if d.Set != nil {
		p = append(p, "set:"+*d.Set)
	}
	if d.Enumerable != nil {
		p = append(p, fmt.Sprintf("enumerable:%v", *d.Enumerable))
	}
	if d.Configurable != nil {
		p = append(p, fmt.Sprintf("configurable:%v", *d.Configurable))
	}
	return "{" + strings.Join(p, ",") + "}"
}

// rend maps the value names of the lattice world (prelude.js latWorld) to their canonical rendering.
var rend = map[string]string{
	"v1": "n:1", "v2": "n:2", "und": "und", "null": "null", "nan": "n:NaN", "pz": "n:0", "nz": "n:-0",
	"str": `s:"s"`, "estr": `s:""`, "t": "b:true", "f": "b:false", "gv": `s:"gv"`,
	"o1": "o1", "o2": "o2", "g1": "g1", "g2": "g2", "s1": "s1", "s2": "s2", "protoA": "protoA", "protoB": "protoB",
	"sym1": "sym1", "sym2": "sym2", "symX": "symX", "NT": "NT", "CA": "CA",
}

func rendKey(k string) string {
	if strings.HasPrefix(k, "@") {
		return rend[k[1:]]
	}
	b, _ := json.Marshal(k)
	return "s:" + string(b)
}

func (d dspec) desc() proxyref.Desc {
	var r proxyref.Desc
	if d.Value != nil {
		r.HasValue, r.Value = true, proxyref.Val(rend[*d.Value])
	}
	if d.Writable != nil {
		r.HasWritable, r.Writable = true, *d.Writable
	}
	if d.Get != nil {
		r.HasGet, r.Get = true, proxyref.Val(rend[*d.Get])
	}
	if d.Set != nil {
		r.HasSet, r.Set = true, proxyref.Val(rend[*d.Set])
	}
	if d.Enumerable != nil {
		r.HasEnumerable, r.Enumerable = true, *d.Enumerable
	}
	if d.Configurable != nil {
		r.HasConfigurable, r.Configurable = true, *d.Configurable
	}
	return r
}

// factDesc is the descriptor of the target's property as observed (renderings).
type factDesc struct {
	Value        *string `json:"value"`
	Writable     *bool   `json:"writable"`
	Get          *string `json:"get"`
	Set          *string `json:"set"`
	Enumerable   bool    `json:"enumerable"`
	Configurable bool    `json:"configurable"`
}

func (f *factDesc) desc() *proxyref.Desc {
	if f == nil {
		return nil
	}
	if f.Get != nil || f.Set != nil {
		return proxyref.Accessor(proxyref.Val(*f.Get), proxyref.Val(*f.Set), f.Enumerable, f.Configurable)
	}
	w := false
	if f.Writable != nil {
		w = *f.Writable
	}
	return proxyref.Data(proxyref.Val(*f.Value), w, f.Enumerable, f.Configurable)
}

// rDescObj renders a complete descriptor the way prelude.js R() renders the object FromPropertyDescriptor creates.
func rDescObj(d proxyref.Desc) string {
	var p []string
	b := func(x bool) string { return fmt.Sprintf("b:%v", x) }
	if d.HasValue {
		p = append(p, `s:"value":`+string(d.Value))
	}
	if d.HasWritable {
		p = append(p, `s:"writable":`+b(d.Writable))
	}
	if d.HasGet {
		p = append(p, `s:"get":`+string(d.Get))
	}
	if d.HasSet {
		p = append(p, `s:"set":`+string(d.Set))
	}
	if d.HasEnumerable {
		p = append(p, `s:"enumerable":`+b(d.Enumerable))
	}
	if d.HasConfigurable {
		p = append(p, `s:"configurable":`+b(d.Configurable))
	}
	return "{" + strings.Join(p, ",") + "}"
}

type keyElem struct {
	T string `json:"t"` // "key" (string or "@sym") | "val" (a value name: not a valid key type unless it is a string value)
	V string `json:"v"`
}

type resSpec struct {
	T         string    `json:"t"` // actual | val | desc | keys
	V         string    `json:"v,omitempty"`
	D         *dspec    `json:"d,omitempty"`
	L         []keyElem `json:"l"`
	Arraylike bool      `json:"arraylike,omitempty"`
}

func (r resSpec) String() string {
	switch r.T {
	case "actual":
		return "actual"
	case "val":
		return r.V
	case "desc":
		return r.D.String()
	case "keys":
		var p []string
		for _, e := range r.L {
			p = append(p, e.T+":"+e.V)
		}
		s := "[" + strings.Join(p, ",") + "]"
		if r.Arraylike {
			s = "arraylike" + s
		}
		return s
	}
	return "?"
}

type otherProp struct {
	Key string `json:"key"`
	C   bool   `json:"c"`
	E   bool   `json:"e"`
}

type opSpec struct {
	Iss   string `json:"iss"`
	Desc  *dspec `json:"desc,omitempty"`
	Val   string `json:"val,omitempty"`
	Proto string `json:"proto,omitempty"`
}

type latSpec struct {
	Trap    string      `json:"trap"`
	Key     *string     `json:"key,omitempty"`
	Keyed   bool        `json:"keyed,omitempty"`
	TKind   string      `json:"tkind"`
	Proto   string      `json:"proto"`
	State   *dspec      `json:"state,omitempty"`
	Others  []otherProp `json:"others,omitempty"`
	Ext     bool        `json:"ext"`
	Effect  string      `json:"effect"`
	Result  resSpec     `json:"result"`
	TrapVal *string     `json:"trapval,omitempty"`
	Op      opSpec      `json:"op"`
	Go      bool        `json:"go,omitempty"`
	GoTraps string      `json:"gotraps,omitempty"` // "all" (str+idx+sym variants) | "stronly"
}

type latCase struct {
	Spec     latSpec `json:"spec"`
	Lie      string  `json:"lie"`
	Honest   bool    `json:"honest,omitempty"`
	OneField bool    `json:"one_field,omitempty"`
	StateN   string  `json:"state_name,omitempty"`
}

// signature: canonical text of the triple
func (c *latCase) sig() string {
	s := &c.Spec
	key := "-"
	if s.Key != nil {
		key = *s.Key
	}
	st := "absent"
	if s.State != nil {
		st = s.State.String()
	}
	if !s.Keyed {
		st = "-"
	}
	h := "js"
	if s.Go {
		h = "go/" + s.GoTraps
	}
	var oth []string
	for _, o := range s.Others {
		oth = append(oth, fmt.Sprintf("%s:c=%v:e=%v", o.Key, o.C, o.E))
	}
	op := s.Op.Iss
	if s.Op.Desc != nil {
		op += s.Op.Desc.String()
	}
	if s.Op.Val != "" {
		op += "(" + s.Op.Val + ")"
	}
	if s.Op.Proto != "" {
		op += "(" + s.Op.Proto + ")"
	}
	tv := ""
	if s.TrapVal != nil {
		tv = " trapval=" + *s.TrapVal
	}
	return fmt.Sprintf("lattice trap=%s key=%s target=%s/%s state=%s others=[%s] ext=%v behaviour=%s(effect=%s,result=%s)%s op=%s handler=%s",
		s.Trap, key, s.TKind, s.Proto, st, strings.Join(oth, ","), s.Ext, c.Lie, s.Effect, s.Result.String(), tv, op, h)
}

type pstate struct {
	name string
	d    *dspec
}

func propStates() []pstate {
	out := []pstate{{"absent", nil}}
	for _, c := range []bool{true, false} {
		for _, w := range []bool{true, false} {
			for _, e := range []bool{true, false} {
				out = append(out, pstate{fmt.Sprintf("data(c=%v,w=%v,e=%v)", c, w, e), &dspec{Value: sp("v1"), Writable: bp(w), Enumerable: bp(e), Configurable: bp(c)}})
			}
		}
	}
	for _, c := range []bool{true, false} {
		for _, e := range []bool{true, false} {
			for _, gs := range [][2]string{{"g1", "s1"}, {"g1", "und"}, {"und", "s1"}, {"und", "und"}} {
				out = append(out, pstate{fmt.Sprintf("accessor(c=%v,e=%v,get=%s,set=%s)", c, e, gs[0], gs[1]), &dspec{Get: sp(gs[0]), Set: sp(gs[1]), Enumerable: bp(e), Configurable: bp(c)}})
			}
		}
	}
	// SameValue corner cases: NaN equals NaN, +0 differs from -0
	out = append(out, pstate{"data(frozen,NaN)", &dspec{Value: sp("nan"), Writable: bp(false), Enumerable: bp(true), Configurable: bp(false)}})
	out = append(out, pstate{"data(frozen,-0)", &dspec{Value: sp("nz"), Writable: bp(false), Enumerable: bp(true), Configurable: bp(false)}})
	return out
}

var keyKinds = []string{"p", "3", "@sym1"}

type behaviour struct {
	name     string
	effect   string
	result   resSpec
	honest   bool
	oneField bool
	goOK     bool
}

func rv(name string) resSpec    { return resSpec{T: "val", V: name} }
func rd(d dspec) resSpec        { return resSpec{T: "desc", D: &d} }
func ractual() resSpec          { return resSpec{T: "actual"} }
func rkeys(l []keyElem) resSpec { return resSpec{T: "keys", L: l} }

func otherValue(cur string) []string {
	switch cur {
	case "nz":
		return []string{"pz", "v2"}
	case "nan":
		return []string{"nan", "v2"} // "nan" is NOT a lie (SameValue(NaN,NaN)): kept to prove NaN is accepted
	}
	return []string{"v2"}
}

func gopdBehaviours(st pstate) []behaviour {
	out := []behaviour{{name: "honest", effect: "forward", result: ractual(), honest: true, goOK: true}}
	prims := []string{"v1", "str", "t", "null"}
	if st.d == nil {
		full := dspec{Value: sp("v1"), Writable: bp(true), Enumerable: bp(true), Configurable: bp(true)}
		out = append(out, behaviour{name: "invent:data", effect: "none", result: rd(full), oneField: true, goOK: true})
		nc := full.clone()
		nc.Configurable = bp(false)
		out = append(out, behaviour{name: "invent:data-nonconfigurable", effect: "none", result: rd(nc), goOK: true})
		out = append(out, behaviour{name: "invent:accessor", effect: "none", result: rd(dspec{Get: sp("g1"), Set: sp("und"), Enumerable: bp(true), Configurable: bp(true)}), goOK: true})
		out = append(out, behaviour{name: "invent:empty", effect: "none", result: rd(dspec{})})
		out = append(out, behaviour{name: "invent:only-configurable-true", effect: "none", result: rd(dspec{Configurable: bp(true)}), goOK: true})
	} else {
		d := *st.d
		flip := func(name string, mod func(x *dspec)) {
			x := d.clone()
			mod(&x)
			out = append(out, behaviour{name: name, effect: "none", result: rd(x), oneField: true, goOK: true})
		}
		flip("flip:configurable", func(x *dspec) { x.Configurable = bp(!*x.Configurable) })
		flip("flip:enumerable", func(x *dspec) { x.Enumerable = bp(!*x.Enumerable) })
		flip("drop:configurable", func(x *dspec) { x.Configurable = nil })
		flip("drop:enumerable", func(x *dspec) { x.Enumerable = nil })
		if d.Value != nil {
			flip("flip:writable", func(x *dspec) { x.Writable = bp(!*x.Writable) })
			flip("drop:writable", func(x *dspec) { x.Writable = nil })
			flip("drop:value", func(x *dspec) { x.Value = nil })
			for _, ov := range otherValue(*d.Value) {
				ov := ov
				flip("value:"+ov, func(x *dspec) { x.Value = sp(ov) })
			}
			out = append(out, behaviour{name: "kind:accessor", effect: "none", result: rd(dspec{Get: sp("g1"), Set: sp("und"), Enumerable: d.Enumerable, Configurable: d.Configurable}), goOK: true})
		} else {
			og := "g2"
			if *d.Get == "und" {
				og = "g1"
			}
			os := "s2"
			if *d.Set == "und" {
				os = "s1"
			}
			flip("get:"+og, func(x *dspec) { x.Get = sp(og) })
			flip("set:"+os, func(x *dspec) { x.Set = sp(os) })
			if *d.Get != "und" {
				flip("get:und", func(x *dspec) { x.Get = sp("und") })
			}
			if *d.Set != "und" {
				flip("set:und", func(x *dspec) { x.Set = sp("und") })
			}
			flip("drop:get", func(x *dspec) { x.Get = nil })
			flip("drop:set", func(x *dspec) { x.Set = nil })
			out = append(out, behaviour{name: "kind:data", effect: "none", result: rd(dspec{Value: sp("v1"), Writable: bp(false), Enumerable: d.Enumerable, Configurable: d.Configurable}), goOK: true})
		}
		out = append(out, behaviour{name: "absent", effect: "none", result: rv("und"), goOK: true})
		out = append(out, behaviour{name: "empty-descriptor", effect: "none", result: rd(dspec{})})
		both := d.clone()
		if both.Value != nil {
			both.Get = sp("g1")
		} else {
			both.Value = sp("v1")
		}
		out = append(out, behaviour{name: "invalid:accessor+data", effect: "none", result: rd(both), goOK: true})
	}
	for _, p := range prims {
		out = append(out, behaviour{name: "nonobject:" + p, effect: "none", result: rv(p)})
	}
	return out
}

func defineDescs() []dspec {
	return []dspec{
		{},
		{Configurable: bp(true)},
		{Configurable: bp(false)},
		{Enumerable: bp(true)},
		{Enumerable: bp(false)},
		{Value: sp("v1")},
		{Value: sp("v2")},
		{Writable: bp(true)},
		{Writable: bp(false)},
		{Value: sp("v1"), Writable: bp(true), Enumerable: bp(true), Configurable: bp(true)},
		{Value: sp("v1"), Writable: bp(true), Enumerable: bp(true), Configurable: bp(false)},
		{Value: sp("v2"), Writable: bp(false)},
		{Get: sp("g1")},
		{Get: sp("g2")},
		{Set: sp("s1")},
		{Set: sp("s2")},
		{Get: sp("und")},
		{Get: sp("g1"), Set: sp("s1"), Enumerable: bp(true), Configurable: bp(false)},
		{Value: sp("nan")},
		{Value: sp("pz")},
	}
}

func boolBehaviours(withDone bool) []behaviour {
	out := []behaviour{
		{name: "honest", effect: "forward", result: ractual(), honest: true, goOK: true},
		{name: "true-without-doing", effect: "none", result: rv("t"), oneField: true, goOK: true},
		{name: "false-without-doing", effect: "none", result: rv("f"), oneField: true, goOK: true},
	}
	if withDone {
		out = append(out,
			behaviour{name: "false-after-doing", effect: "forward", result: rv("f"), oneField: true, goOK: true},
			behaviour{name: "true-after-trying", effect: "forward", result: rv("t"), oneField: true, goOK: true},
			behaviour{name: "undefined-after-doing", effect: "forward", result: rv("und")},
			behaviour{name: "truthy-number-without-doing", effect: "none", result: rv("v1")},
		)
	}
	return out
}

func buildLattice() []latCase {
	out := make([]latCase, 0, 140000)
	states := propStates()
	add := func(s latSpec, b behaviour, stName string, handlers bool) {
		s.Effect, s.Result = b.effect, b.result
		out = append(out, latCase{Spec: s, Lie: b.name, Honest: b.honest, OneField: b.oneField, StateN: stName})
		if handlers && b.goOK {
			g := s
			g.Go, g.GoTraps = true, "all"
			out = append(out, latCase{Spec: g, Lie: b.name, Honest: b.honest, OneField: b.oneField, StateN: stName})
			if s.Key != nil && *s.Key == "3" {
				g2 := s
				g2.Go, g2.GoTraps = true, "stronly"
				out = append(out, latCase{Spec: g2, Lie: b.name, Honest: b.honest, OneField: b.oneField, StateN: stName})
			}
		}
	}
	keyed := func(trap string, f func(base latSpec, st pstate)) {
		for _, kk := range keyKinds {
			for _, st := range states {
				for _, ext := range []bool{true, false} {
					k := kk
					f(latSpec{Trap: trap, Key: &k, Keyed: true, TKind: "obj", Proto: "protoA", State: st.d, Ext: ext}, st)
				}
			}
		}
	}

	// [[GetOwnProperty]]
	keyed("getOwnPropertyDescriptor", func(base latSpec, st pstate) {
		for _, b := range gopdBehaviours(st) {
			for _, iss := range []string{"R.gopd", "O.gopd", "hasOwn"} {
				s := base
				s.Op = opSpec{Iss: iss}
				add(s, b, st.name, true)
			}
		}
	})
	// [[DefineOwnProperty]]
	keyed("defineProperty", func(base latSpec, st pstate) {
		behs := []behaviour{
			{name: "honest", effect: "forward", result: ractual(), honest: true, goOK: true},
			{name: "true-without-defining", effect: "none", result: rv("t"), oneField: true, goOK: true},
			{name: "false-after-defining", effect: "forward", result: rv("f"), oneField: true, goOK: true},
			{name: "true-after-trying", effect: "forward", result: rv("t"), oneField: true, goOK: true},
			{name: "true-after-defining-configurable", effect: "fwdCfgTrue", result: rv("t"), goOK: true},
			{name: "undefined-after-defining", effect: "forward", result: rv("und")},
		}
		for _, d := range defineDescs() {
			d := d
			for _, b := range behs {
				for _, iss := range []string{"R.define", "O.define"} {
					s := base
					s.Op = opSpec{Iss: iss, Desc: &d}
					add(s, b, st.name, true)
				}
			}
		}
	})
	// [[HasProperty]]
	keyed("has", func(base latSpec, st pstate) {
		behs := []behaviour{
			{name: "honest", effect: "forward", result: ractual(), honest: true, goOK: true},
			{name: "true", effect: "none", result: rv("t"), oneField: true, goOK: true},
			{name: "false", effect: "none", result: rv("f"), oneField: true, goOK: true},
			{name: "truthy:1", effect: "none", result: rv("v1")},
			{name: "truthy:object", effect: "none", result: rv("o1")},
			{name: "falsy:0", effect: "none", result: rv("pz")},
			{name: "falsy:undefined", effect: "none", result: rv("und")},
			{name: "falsy:empty-string", effect: "none", result: rv("estr")},
			{name: "falsy:NaN", effect: "none", result: rv("nan")},
		}
		for _, b := range behs {
			for _, iss := range []string{"R.has", "in"} {
				s := base
				s.Op = opSpec{Iss: iss}
				add(s, b, st.name, true)
			}
		}
	})
	// [[Get]]
	keyed("get", func(base latSpec, st pstate) {
		behs := []behaviour{{name: "honest", effect: "forward", result: ractual(), honest: true, goOK: true}}
		for _, v := range []string{"v1", "v2", "und", "nan", "pz", "nz", "gv", "o1"} {
			behs = append(behs, behaviour{name: "value:" + v, effect: "none", result: rv(v), oneField: true, goOK: true})
		}
		for _, b := range behs {
			for _, iss := range []string{"R.get", "get"} {
				s := base
				s.Op = opSpec{Iss: iss}
				add(s, b, st.name, true)
			}
		}
	})
	// [[Set]]
	keyed("set", func(base latSpec, st pstate) {
		vals := []string{"v1", "v2"}
		if st.d != nil && st.d.Value != nil && (*st.d.Value == "nan" || *st.d.Value == "nz") {
			vals = []string{"nan", "nz", "pz"}
		}
		for _, v := range vals {
			for _, b := range boolBehaviours(true) {
				for _, iss := range []string{"R.set", "set.sloppy", "set.strict"} {
					s := base
					s.Op = opSpec{Iss: iss, Val: v}
					add(s, b, st.name, true)
				}
			}
		}
	})
	// [[Delete]]
	keyed("deleteProperty", func(base latSpec, st pstate) {
		for _, b := range boolBehaviours(true) {
			for _, iss := range []string{"R.delete", "delete.sloppy", "delete.strict"} {
				s := base
				s.Op = opSpec{Iss: iss}
				add(s, b, st.name, true)
			}
		}
	})
	// [[OwnPropertyKeys]]
	keysets := [][]otherProp{
		{},
		{{Key: "a", C: true, E: true}},
		{{Key: "b", C: false, E: false}},
		{{Key: "a", C: true, E: true}, {Key: "b", C: false, E: false}, {Key: "1", C: true, E: true}, {Key: "@sym1", C: false, E: true}, {Key: "@sym2", C: true, E: true}},
	}
	for ksi, ks := range keysets {
		// the honest list in spec order: integer indices ascending, strings in creation order, symbols in creation order
		var honest []keyElem
		for _, o := range ks {
			if o.Key == "1" {
				honest = append(honest, keyElem{"key", o.Key})
			}
		}
		for _, o := range ks {
			if o.Key != "1" && !strings.HasPrefix(o.Key, "@") {
				honest = append(honest, keyElem{"key", o.Key})
			}
		}
		for _, o := range ks {
			if strings.HasPrefix(o.Key, "@") {
				honest = append(honest, keyElem{"key", o.Key})
			}
		}
		cp := func() []keyElem { return append([]keyElem(nil), honest...) }
		behs := []behaviour{
			{name: "honest", effect: "forward", result: ractual(), honest: true, goOK: true},
			{name: "honest-literal", effect: "none", result: rkeys(cp()), honest: true, goOK: true},
		}
		al := rkeys(cp())
		al.Arraylike = true
		behs = append(behs, behaviour{name: "honest-arraylike", effect: "none", result: al, honest: true, goOK: true})
		if len(honest) > 1 {
			rev := cp()
			for i, j := 0, len(rev)-1; i < j; i, j = i+1, j-1 {
				rev[i], rev[j] = rev[j], rev[i]
			}
			behs = append(behs, behaviour{name: "reordered", effect: "none", result: rkeys(rev), oneField: true, goOK: true})
		}
		for i := range honest {
			l := cp()
			l = append(l[:i], l[i+1:]...)
			behs = append(behs, behaviour{name: "missing:" + honest[i].V, effect: "none", result: rkeys(l), oneField: true, goOK: true})
			l2 := append(cp(), honest[i])
			behs = append(behs, behaviour{name: "duplicate:" + honest[i].V, effect: "none", result: rkeys(l2), oneField: true, goOK: true})
		}
		for _, ex := range []string{"zz", "7", "@symX"} {
			behs = append(behs, behaviour{name: "extra:" + ex, effect: "none", result: rkeys(append(cp(), keyElem{"key", ex})), oneField: true, goOK: true})
		}
		for _, bad := range []string{"v1", "null", "und", "o1", "t"} {
			behs = append(behs, behaviour{name: "badkeytype:" + bad, effect: "none", result: rkeys(append(cp(), keyElem{"val", bad})), oneField: true, goOK: true})
		}
		for _, p := range []string{"str", "v1", "und", "null", "t"} {
			behs = append(behs, behaviour{name: "nonobject:" + p, effect: "none", result: rv(p)})
		}
		for _, ext := range []bool{true, false} {
			for _, b := range behs {
				for _, iss := range []string{"R.ownKeys", "O.names", "O.symbols", "O.keys"} {
					s := latSpec{Trap: "ownKeys", TKind: "obj", Proto: "protoA", Others: ks, Ext: ext, Op: opSpec{Iss: iss}}
					add(s, b, fmt.Sprintf("keyset%d", ksi), true)
				}
			}
		}
	}
	// [[GetPrototypeOf]]
	for _, tp := range []string{"protoA", "null"} {
		for _, ext := range []bool{true, false} {
			behs := []behaviour{{name: "honest", effect: "forward", result: ractual(), honest: true, goOK: true}}
			for _, v := range []string{"protoA", "protoB", "null"} {
				behs = append(behs, behaviour{name: "proto:" + v, effect: "none", result: rv(v), oneField: true, goOK: true, honest: v == tp})
			}
			for _, v := range []string{"v1", "str", "und", "t"} {
				behs = append(behs, behaviour{name: "nonobject:" + v, effect: "none", result: rv(v)})
			}
			isss := []string{"R.getProto", "O.getProto", "instanceof", "isPrototypeOf"}
			if tp != "null" {
				isss = append(isss, "__proto__.get")
			}
			for _, b := range behs {
				for _, iss := range isss {
					s := latSpec{Trap: "getPrototypeOf", TKind: "obj", Proto: tp, Ext: ext, Op: opSpec{Iss: iss}}
					add(s, b, "proto="+tp, true)
				}
			}
		}
	}
	// [[SetPrototypeOf]]
	for _, tp := range []string{"protoA", "null"} {
		for _, ext := range []bool{true, false} {
			for _, v := range []string{"protoA", "protoB", "null"} {
				for _, b := range boolBehaviours(true) {
					for _, iss := range []string{"R.setProto", "O.setProto", "__proto__.set"} {
						s := latSpec{Trap: "setPrototypeOf", TKind: "obj", Proto: tp, Ext: ext, Op: opSpec{Iss: iss, Proto: v}}
						add(s, b, "proto="+tp, true)
					}
				}
			}
		}
	}
	// [[IsExtensible]]
	for _, ext := range []bool{true, false} {
		behs := []behaviour{{name: "honest", effect: "forward", result: ractual(), honest: true, goOK: true},
			{name: "true", effect: "none", result: rv("t"), oneField: true, goOK: true},
			{name: "false", effect: "none", result: rv("f"), oneField: true, goOK: true}}
		for _, v := range []string{"v1", "pz", "estr", "str", "und", "null", "nan", "o1"} {
			behs = append(behs, behaviour{name: "nonboolean:" + v, effect: "none", result: rv(v)})
		}
		for _, b := range behs {
			for _, iss := range []string{"R.isExt", "O.isExt"} {
				s := latSpec{Trap: "isExtensible", TKind: "obj", Proto: "protoA", Ext: ext, Op: opSpec{Iss: iss}}
				add(s, b, "", true)
			}
		}
	}
	// [[PreventExtensions]]
	for _, ext := range []bool{true, false} {
		for _, b := range boolBehaviours(true) {
			for _, iss := range []string{"R.pe", "O.pe", "O.seal", "O.freeze"} {
				s := latSpec{Trap: "preventExtensions", TKind: "obj", Proto: "protoA", Ext: ext, Others: []otherProp{{Key: "a", C: true, E: true}}, Op: opSpec{Iss: iss}}
				add(s, b, "", true)
			}
		}
	}
	// [[Call]]
	for _, tk := range []string{"fn", "method", "obj"} {
		behs := []behaviour{{name: "honest", effect: "forward", result: ractual(), honest: true, goOK: true}}
		for _, v := range []string{"v2", "und", "o1"} {
			behs = append(behs, behaviour{name: "value:" + v, effect: "none", result: rv(v), oneField: true, goOK: true})
		}
		for _, b := range behs {
			for _, iss := range []string{"call", "R.apply", "F.call", "typeof"} {
				s := latSpec{Trap: "apply", TKind: tk, Proto: "keep", Ext: true, Op: opSpec{Iss: iss}}
				add(s, b, "target="+tk, true)
			}
		}
	}
	// [[Construct]]
	for _, tk := range []string{"fn", "method", "obj"} {
		behs := []behaviour{{name: "honest", effect: "forward", result: ractual(), honest: true, goOK: true},
			{name: "object:o1", effect: "none", result: rv("o1"), oneField: true, goOK: true}}
		for _, v := range []string{"v1", "str", "und", "null", "t"} {
			behs = append(behs, behaviour{name: "nonobject:" + v, effect: "none", result: rv(v), oneField: true})
		}
		for _, b := range behs {
			for _, iss := range []string{"new", "R.construct", "R.construct.nt"} {
				s := latSpec{Trap: "construct", TKind: tk, Proto: "keep", Ext: true, Op: opSpec{Iss: iss}}
				add(s, b, "target="+tk, true)
			}
		}
	}
	// trap value sub-sweep: undefined/null => as if absent; anything else not callable => TypeError (GetMethod)
	type tv struct {
		trap, iss string
		keyed     bool
		tk        string
	}
	tvs := []tv{
		{"getPrototypeOf", "R.getProto", false, "obj"}, {"setPrototypeOf", "R.setProto", false, "obj"}, {"isExtensible", "R.isExt", false, "obj"},
		{"preventExtensions", "R.pe", false, "obj"}, {"getOwnPropertyDescriptor", "R.gopd", true, "obj"}, {"defineProperty", "R.define", true, "obj"},
		{"has", "R.has", true, "obj"}, {"get", "R.get", true, "obj"}, {"set", "R.set", true, "obj"}, {"deleteProperty", "R.delete", true, "obj"},
		{"ownKeys", "R.ownKeys", false, "obj"}, {"apply", "R.apply", false, "fn"}, {"construct", "R.construct", false, "fn"},
	}
	for _, t := range tvs {
		for _, v := range []string{"und", "null", "v1", "o1", "str", "t"} {
			v := v
			s := latSpec{Trap: t.trap, TKind: t.tk, Proto: "protoA", Ext: true, TrapVal: &v, Effect: "none", Result: rv("und"),
				Op: opSpec{Iss: t.iss, Val: "v2", Proto: "protoB", Desc: &dspec{Value: sp("v2")}}}
			if t.tk == "fn" {
				s.Proto = "keep"
			}
			if t.keyed {
				k := "p"
				s.Key, s.Keyed = &k, true
				s.State = &dspec{Value: sp("v1"), Writable: bp(true), Enumerable: bp(true), Configurable: bp(true)}
			}
			out = append(out, latCase{Spec: s, Lie: "trapvalue:" + v, StateN: "trapvalue"})
		}
	}
	return out
}

// ---------------------------------------------------------------------------------------------------
// expectation
// ---------------------------------------------------------------------------------------------------

type keyFact struct {
	K   string `json:"k"`
	C   bool   `json:"c"`
	E   bool   `json:"e"`
	Str bool   `json:"str"`
}

type latFacts struct {
	Desc  *factDesc `json:"desc"`
	Ext   bool      `json:"ext"`
	Proto string    `json:"proto"`
	Keys  []keyFact `json:"keys"`
}

type latRec struct {
	Calls  int       `json:"calls"`
	Facts  *latFacts `json:"facts"`
	After  *latFacts `json:"after"`
	Tret   *string   `json:"tret"`
	ArgBad string    `json:"argbad"`
	DArg   string    `json:"darg"`
	Same   bool      `json:"same"`
	Out    string    `json:"out"`
}

func kindOfRender(s string) proxyref.ResultKind {
	switch {
	case s == "und":
		return proxyref.KUndefined
	case s == "null":
		return proxyref.KNull
	case strings.HasPrefix(s, "n:"), strings.HasPrefix(s, "s:"), strings.HasPrefix(s, "b:"), strings.HasPrefix(s, "g:"), strings.HasPrefix(s, "sym"):
		return proxyref.KOther
	}
	return proxyref.KObject
}

func toBoolean(s string) bool {
	switch s {
	case "b:false", "und", "null", "n:0", "n:-0", "n:NaN", `s:""`, "g:0":
		return false
	}
	return true
}

const teOut = "throw:TypeError"

func rb(b bool) string { return fmt.Sprintf("ok:b:%v", b) }

// expectation of one lattice case.  wantSame: the op result must be the very value the trap returned.
// needTrap=false: the trap must not have been consulted at all (e.g. call on a non-callable target).
type latExpect struct {
	out      string
	wantSame bool
	noTrap   bool
	why      string
	accepted bool // the invariants accept the trap result (statistics)
}

func keyElems(spec *latSpec, facts *latFacts) []proxyref.Key {
	var ks []proxyref.Key
	if spec.Result.T == "keys" {
		for _, e := range spec.Result.L {
			if e.T == "key" {
				if strings.HasPrefix(e.V, "@") {
					ks = append(ks, proxyref.Key{Type: proxyref.KeySymbol, ID: rendKey(e.V)})
				} else {
					ks = append(ks, proxyref.Key{Type: proxyref.KeyString, ID: rendKey(e.V)})
				}
			} else {
				r := rend[e.V]
				if strings.HasPrefix(r, "s:") {
					ks = append(ks, proxyref.Key{Type: proxyref.KeyString, ID: r})
				} else {
					ks = append(ks, proxyref.Key{Type: proxyref.KeyOther, ID: r})
				}
			}
		}
		return ks
	}
	for _, k := range facts.Keys { // "actual": what Reflect.ownKeys(target) gave
		t := proxyref.KeySymbol
		if k.Str {
			t = proxyref.KeyString
		}
		ks = append(ks, proxyref.Key{Type: t, ID: k.K})
	}
	return ks
}

func expectLat(cs *latCase, rec *latRec) latExpect {
	s := &cs.Spec
	// targets that lack the internal method: the proxy lacks it too and no trap is consulted
	if s.Trap == "apply" && s.TKind == "obj" && s.Op.Iss != "typeof" {
		return latExpect{out: teOut, noTrap: true, why: "proxy of a non-callable target has no [[Call]]"}
	}
	if s.Trap == "apply" && s.Op.Iss == "typeof" {
		if s.TKind == "obj" {
			return latExpect{out: `ok:s:"object"`, noTrap: true}
		}
		return latExpect{out: `ok:s:"function"`, noTrap: true}
	}
	if s.Trap == "construct" && s.TKind != "fn" {
		return latExpect{out: teOut, noTrap: true, why: "proxy of a non-constructor target has no [[Construct]]"}
	}
	if rec.Facts == nil || rec.Tret == nil {
		return latExpect{out: "?", why: "trap was not invoked"}
	}
	f := rec.Facts
	tret := *rec.Tret
	kind := kindOfRender(tret)
	tb := toBoolean(tret)
	done := func(o proxyref.Outcome, out string, same bool) latExpect {
		if o.TypeError {
			return latExpect{out: teOut, why: o.Why}
		}
		return latExpect{out: out, wantSame: same, accepted: true}
	}
	failFalse := func(o proxyref.Outcome, okOut string) latExpect { // issuers that turn `false` into a TypeError
		if o.TypeError {
			return latExpect{out: teOut, why: o.Why}
		}
		if !tb {
			return latExpect{out: teOut, why: "issuer throws on false", accepted: true}
		}
		return latExpect{out: okOut, accepted: true}
	}
	switch s.Trap {
	case "getOwnPropertyDescriptor":
		var res proxyref.Desc
		if s.Result.T == "desc" {
			res = s.Result.D.desc()
		} else if f.Desc != nil {
			res = *f.Desc.desc()
		}
		o := proxyref.GetOwnProperty(kind, res, f.Desc.desc(), f.Ext)
		switch s.Op.Iss {
		case "hasOwn":
			return done(o, rb(kind == proxyref.KObject), false)
		}
		if kind == proxyref.KUndefined {
			return done(o, "ok:und", false)
		}
		return done(o, "ok:"+rDescObj(res.Complete()), false)
	case "defineProperty":
		o := proxyref.DefineOwnProperty(s.Op.Desc.desc(), tb, f.Desc.desc(), f.Ext)
		if s.Op.Iss == "O.define" {
			return failFalse(o, "ok:P")
		}
		return done(o, rb(tb), false)
	case "has":
		return done(proxyref.HasProperty(tb, f.Desc.desc(), f.Ext), rb(tb), false)
	case "get":
		return done(proxyref.Get(proxyref.Val(tret), f.Desc.desc()), "ok:"+tret, true)
	case "set":
		o := proxyref.Set(proxyref.Val(rend[s.Op.Val]), tb, f.Desc.desc())
		switch s.Op.Iss {
		case "set.sloppy":
			return done(o, "ok:"+rend[s.Op.Val], false)
		case "set.strict":
			return failFalse(o, "ok:"+rend[s.Op.Val])
		}
		return done(o, rb(tb), false)
	case "deleteProperty":
		o := proxyref.Delete(tb, f.Desc.desc(), f.Ext)
		if s.Op.Iss == "delete.strict" {
			return failFalse(o, rb(true))
		}
		return done(o, rb(tb), false)
	case "ownKeys":
		elems := keyElems(s, f)
		var tks []proxyref.TargetKey
		for _, k := range f.Keys {
			t := proxyref.KeySymbol
			if k.Str {
				t = proxyref.KeyString
			}
			tks = append(tks, proxyref.TargetKey{Key: proxyref.Key{Type: t, ID: k.K}, Configurable: k.C})
		}
		o := proxyref.OwnPropertyKeys(kind == proxyref.KObject, elems, tks, f.Ext)
		var l []string
		for _, e := range elems {
			switch s.Op.Iss {
			case "R.ownKeys":
				l = append(l, e.ID)
			case "O.names":
				if e.Type == proxyref.KeyString {
					l = append(l, e.ID)
				}
			case "O.symbols":
				if e.Type == proxyref.KeySymbol {
					l = append(l, e.ID)
				}
			case "O.keys":
				if e.Type == proxyref.KeyString {
					for _, k := range f.Keys {
						if k.K == e.ID && k.Str && k.E {
							l = append(l, e.ID)
						}
					}
				}
			}
		}
		return done(o, "ok:["+strings.Join(l, ",")+"]", false)
	case "getPrototypeOf":
		o := proxyref.GetPrototypeOf(kind, proxyref.Val(tret), f.Ext, proxyref.Val(f.Proto))
		switch s.Op.Iss {
		case "instanceof", "isPrototypeOf":
			return done(o, rb(tret == "protoA"), false)
		}
		return done(o, "ok:"+tret, true)
	case "setPrototypeOf":
		o := proxyref.SetPrototypeOf(proxyref.Val(rend[s.Op.Proto]), tb, f.Ext, proxyref.Val(f.Proto))
		switch s.Op.Iss {
		case "O.setProto":
			return failFalse(o, "ok:P")
		case "__proto__.set":
			return failFalse(o, "ok:und")
		}
		return done(o, rb(tb), false)
	case "isExtensible":
		return done(proxyref.IsExtensible(tb, f.Ext), rb(tb), false)
	case "preventExtensions":
		o := proxyref.PreventExtensions(tb, f.Ext)
		if s.Op.Iss == "R.pe" {
			return done(o, rb(tb), false)
		}
		return failFalse(o, "ok:P")
	case "apply":
		return latExpect{out: "ok:" + tret, wantSame: true, accepted: true}
	case "construct":
		return done(proxyref.Construct(kind == proxyref.KObject), "ok:"+tret, true)
	}
	return latExpect{out: "?", why: "unknown trap"}
}

// neighbours of a failing lattice case that are "simpler" (towards a canonical witness): used to give every
// manifestation of one defect the same minimised signature.  Order is fixed.
func latSimplifications(c latCase) []latCase {
	var out []latCase
	push := func(mod func(x *latCase) bool) {
		b, _ := json.Marshal(c)
		var x latCase
		json.Unmarshal(b, &x)
		if mod(&x) {
			out = append(out, x)
		}
	}
	s := c.Spec
	push(func(x *latCase) bool { // JS handler
		if !s.Go {
			return false
		}
		x.Spec.Go, x.Spec.GoTraps = false, ""
		return true
	})
	push(func(x *latCase) bool { // string key
		if s.Key == nil || *s.Key == "p" {
			return false
		}
		x.Spec.Key = sp("p")
		return true
	})
	push(func(x *latCase) bool { // extensible target
		if s.Ext {
			return false
		}
		x.Spec.Ext = true
		return true
	})
	first := map[string]string{"getOwnPropertyDescriptor": "R.gopd", "defineProperty": "R.define", "has": "R.has", "get": "R.get", "set": "R.set",
		"deleteProperty": "R.delete", "ownKeys": "R.ownKeys", "getPrototypeOf": "R.getProto", "setPrototypeOf": "R.setProto", "isExtensible": "R.isExt",
		"preventExtensions": "R.pe", "apply": "R.apply", "construct": "R.construct"}
	push(func(x *latCase) bool { // Reflect issuer
		if s.Op.Iss == first[s.Trap] {
			return false
		}
		x.Spec.Op.Iss = first[s.Trap]
		return true
	})
	if s.State != nil {
		push(func(x *latCase) bool { // enumerable target property
			if s.State.Enumerable == nil || *s.State.Enumerable {
				return false
			}
			x.Spec.State.Enumerable = bp(true)
			if x.Spec.Result.T == "desc" && x.Spec.Result.D.Enumerable != nil {
				x.Spec.Result.D.Enumerable = bp(!*x.Spec.Result.D.Enumerable)
			}
			return true
		})
		push(func(x *latCase) bool { // no setter
			if s.State.Set == nil || *s.State.Set == "und" {
				return false
			}
			if s.Result.T == "desc" && s.Result.D.Set != nil && *s.Result.D.Set != *s.State.Set {
				return false
			}
			x.Spec.State.Set = sp("und")
			if x.Spec.Result.T == "desc" && x.Spec.Result.D.Set != nil {
				x.Spec.Result.D.Set = sp("und")
			}
			return true
		})
		push(func(x *latCase) bool { // writable
			if s.State.Writable == nil || *s.State.Writable {
				return false
			}
			x.Spec.State.Writable = bp(true)
			if x.Spec.Result.T == "desc" && x.Spec.Result.D.Writable != nil {
				x.Spec.Result.D.Writable = bp(!*x.Spec.Result.D.Writable)
			}
			return true
		})
	}
	if s.Op.Desc != nil {
		// drop descriptor fields of the operation one at a time
		for _, f := range []string{"enumerable", "configurable", "writable", "set", "get", "value"} {
			f := f
			push(func(x *latCase) bool {
				d := x.Spec.Op.Desc
				switch f {
				case "enumerable":
					if d.Enumerable == nil {
						return false
					}
					d.Enumerable = nil
				case "configurable":
					if d.Configurable == nil {
						return false
					}
					d.Configurable = nil
				case "writable":
					if d.Writable == nil {
						return false
					}
					d.Writable = nil
				case "set":
					if d.Set == nil {
						return false
					}
					d.Set = nil
				case "get":
					if d.Get == nil {
						return false
					}
					d.Get = nil
				case "value":
					if d.Value == nil {
						return false
					}
					d.Value = nil
				}
				return true
			})
		}
	}
	return out
}

func sortedKeys(m map[string]int) []string {
	var l []string
	for k := range m {
		l = append(l, k)
	}
	sort.Strings(l)
	return l
}
