// C11 prelude: runs inside the goja runtime under test.  It only *drives* operations and *renders* what came
// out of them into canonical strings; every verdict is taken on the Go side (lock-step string equality, proxyref).
// Sloppy-mode script on purpose: the sloppy issuers live at this level, strict ones carry their own directive.
var __c11 = (function () {
  var hasOwnP = Object.prototype.hasOwnProperty, propIsEnum = Object.prototype.propertyIsEnumerable;
  var protoGet = Object.getOwnPropertyDescriptor(Object.prototype, '__proto__').get;
  var protoSet = Object.getOwnPropertyDescriptor(Object.prototype, '__proto__').set;

  function ctorName(e) {
    try {
      if (e !== null && (typeof e === 'object' || typeof e === 'function')) {
        var c = e.constructor;
        if (typeof c === 'function' && typeof c.name === 'string') return c.name;
      }
    } catch (_) { }
    return 'nonerror:' + (e === null ? 'null' : typeof e);
  }

  function mkNames() {
    var W = { m: new Map() };
    W.name = function (o, n) { W.m.set(o, n); return o; };
    W.name(Object.prototype, '%Object.prototype%');
    W.name(Function.prototype, '%Function.prototype%');
    W.name(Array.prototype, '%Array.prototype%');
    W.name(String.prototype, '%String.prototype%');
    W.name(Object, '%Object%'); W.name(Array, '%Array%'); W.name(Function, '%Function%');
    if (typeof Uint8Array === 'function') { W.name(Uint8Array.prototype, '%Uint8Array.prototype%'); W.name(Object.getPrototypeOf(Uint8Array.prototype), '%TypedArray.prototype%'); }
    W.name(Symbol.iterator, '@@iterator'); W.name(Symbol.toStringTag, '@@toStringTag');
    W.name(Symbol.isConcatSpreadable, '@@isConcatSpreadable'); W.name(Symbol.hasInstance, '@@hasInstance');
    W.name(Symbol.toPrimitive, '@@toPrimitive'); W.name(Symbol.species, '@@species'); W.name(Symbol.unscopables, '@@unscopables');
    return W;
  }

  // canonical rendering; named objects/symbols by name (identity), anything else structurally (bounded)
  function R(W, v, d) {
    d = d | 0;
    switch (typeof v) {
      case 'undefined': return 'und';
      case 'boolean': return 'b:' + v;
      case 'number': return 'n:' + (v === 0 && 1 / v < 0 ? '-0' : String(v));
      case 'string': return 's:' + JSON.stringify(v);
      case 'symbol': { var sn = W.m.get(v); return sn === undefined ? 'sym?' : sn; }
      case 'bigint': return 'g:' + String(v);
    }
    if (v === null) return 'null';
    var n = W.m.get(v);
    if (n !== undefined) return n;
    if (d > 3) return '...';
    try {
      if (Array.isArray(v)) {
        var a = [], len = v.length;
        if (len > 64) return '[len=' + len + ']';
        for (var i = 0; i < len; i++) a.push(hasOwnP.call(v, i) ? R(W, v[i], d + 1) : 'hole');
        return '[' + a.join(',') + ']';
      }
      if (typeof v === 'function') return 'fn?';
      var ks = Reflect.ownKeys(v), parts = [];
      if (ks.length > 64) return '{keys=' + ks.length + '}';
      for (var j = 0; j < ks.length; j++) {
        var de = Reflect.getOwnPropertyDescriptor(v, ks[j]);
        parts.push(R(W, ks[j], d + 1) + ':' + (de === undefined ? 'gone' : ('value' in de ? R(W, de.value, d + 1) : 'acc(' + R(W, de.get, d + 1) + ',' + R(W, de.set, d + 1) + ')')));
      }
      var pr = Reflect.getPrototypeOf(v);
      return '{' + parts.join(',') + '}' + (pr === Object.prototype ? '' : '^' + R(W, pr, d + 1));
    } catch (e) { return 'unrenderable:' + ctorName(e); }
  }

  // descriptor object (as produced by the engine for an ordinary object) -> JSON-able facts
  function descFacts(W, d) {
    if (d === undefined) return null;
    var o = {};
    if ('value' in d) { o.value = R(W, d.value); o.writable = d.writable; } else { o.get = R(W, d.get); o.set = R(W, d.set); }
    o.enumerable = d.enumerable; o.configurable = d.configurable;
    return o;
  }

  // ------------------------------------------------------------------------------------------------
  // Lie lattice
  // ------------------------------------------------------------------------------------------------
  function latWorld() {
    var W = mkNames();
    var V = W.vals = Object.create(null);
    V.v1 = 1; V.v2 = 2; V.und = undefined; V['null'] = null; V.nan = NaN; V.pz = 0; V.nz = -0; V.str = 's'; V.estr = '';
    V.t = true; V.f = false; V.gv = 'gv';
    V.o1 = W.name({}, 'o1'); V.o2 = W.name({}, 'o2');
    V.g1 = W.name(function g1() { return 'gv'; }, 'g1'); V.g2 = W.name(function g2() { return 'gv2'; }, 'g2');
    V.s1 = W.name(function s1(v) { }, 's1'); V.s2 = W.name(function s2(v) { }, 's2');
    V.protoA = W.name({ inA: 1 }, 'protoA'); V.protoB = W.name({ inB: 1 }, 'protoB');
    V.sym1 = W.name(Symbol('sym1'), 'sym1'); V.sym2 = W.name(Symbol('sym2'), 'sym2'); V.symX = W.name(Symbol('symX'), 'symX');
    V.NT = W.name(function NT() { }, 'NT'); W.name(V.NT.prototype, 'NTproto');
    V.CA = W.name(function CA() { }, 'CA'); V.CA.prototype = V.protoA;
    return W;
  }
  function val(W, n) { if (!(n in W.vals)) throw new Error('c11 prelude: unknown value name ' + n); return W.vals[n]; }
  function keyOf(W, k) { return k.charAt(0) === '@' ? val(W, k.slice(1)) : k; }   // "@sym1" -> symbol, else string key
  function mkDesc(W, d) {
    var o = {};
    for (var f in d) { o[f] = (f === 'value' || f === 'get' || f === 'set') ? val(W, d[f]) : d[f]; }
    return o;
  }
  function mkKeys(W, rs) {
    var arr = rs.arraylike ? {} : [];
    var l = rs.l || [];
    for (var i = 0; i < l.length; i++) {
      var e = l[i];
      arr[i] = e.t === 'key' ? keyOf(W, e.v) : val(W, e.v);
    }
    if (rs.arraylike) arr.length = l.length;
    return arr;
  }
  function mkResult(W, rs) {
    switch (rs.t) {
      case 'val': return val(W, rs.v);
      case 'desc': return mkDesc(W, rs.d);
      case 'keys': return mkKeys(W, rs);
    }
    throw new Error('c11 prelude: bad result spec ' + rs.t);
  }
  function latFacts(W, T, key) {
    var ks = Reflect.ownKeys(T), kl = [];
    for (var i = 0; i < ks.length; i++) { var d = Reflect.getOwnPropertyDescriptor(T, ks[i]); kl.push({ k: R(W, ks[i]), c: d.configurable, e: d.enumerable, str: typeof ks[i] === 'string' }); }
    return { desc: key === undefined ? null : descFacts(W, Reflect.getOwnPropertyDescriptor(T, key)), ext: Reflect.isExtensible(T), proto: R(W, Reflect.getPrototypeOf(T)), keys: kl };
  }
  function setSloppy(o, k, v) { return o[k] = v; }
  function setStrict(o, k, v) { 'use strict'; return o[k] = v; }
  function delSloppy(o, k) { return delete o[k]; }
  function delStrict(o, k) { 'use strict'; return delete o[k]; }

  var LISS = {
    'R.gopd': function (P, k) { return Reflect.getOwnPropertyDescriptor(P, k); },
    'O.gopd': function (P, k) { return Object.getOwnPropertyDescriptor(P, k); },
    'hasOwn': function (P, k) { return hasOwnP.call(P, k); },
    'R.define': function (P, k, o, W) { return Reflect.defineProperty(P, k, mkDesc(W, o.desc)); },
    'O.define': function (P, k, o, W) { return Object.defineProperty(P, k, mkDesc(W, o.desc)); },
    'R.has': function (P, k) { return Reflect.has(P, k); },
    'in': function (P, k) { return k in P; },
    'R.get': function (P, k) { return Reflect.get(P, k); },
    'get': function (P, k) { return P[k]; },
    'R.set': function (P, k, o, W) { return Reflect.set(P, k, val(W, o.val)); },
    'set.sloppy': function (P, k, o, W) { return setSloppy(P, k, val(W, o.val)); },
    'set.strict': function (P, k, o, W) { return setStrict(P, k, val(W, o.val)); },
    'R.delete': function (P, k) { return Reflect.deleteProperty(P, k); },
    'delete.sloppy': function (P, k) { return delSloppy(P, k); },
    'delete.strict': function (P, k) { return delStrict(P, k); },
    'R.ownKeys': function (P) { return Reflect.ownKeys(P); },
    'O.names': function (P) { return Object.getOwnPropertyNames(P); },
    'O.symbols': function (P) { return Object.getOwnPropertySymbols(P); },
    'O.keys': function (P) { return Object.keys(P); },
    'R.getProto': function (P) { return Reflect.getPrototypeOf(P); },
    'O.getProto': function (P) { return Object.getPrototypeOf(P); },
    '__proto__.get': function (P) { return protoGet.call(P); },
    'instanceof': function (P, k, o, W) { return P instanceof W.vals.CA; },
    'isPrototypeOf': function (P, k, o, W) { return W.vals.protoA.isPrototypeOf(P); },
    'R.setProto': function (P, k, o, W) { return Reflect.setPrototypeOf(P, val(W, o.proto)); },
    'O.setProto': function (P, k, o, W) { return Object.setPrototypeOf(P, val(W, o.proto)); },
    '__proto__.set': function (P, k, o, W) { return protoSet.call(P, val(W, o.proto)); },
    'R.isExt': function (P) { return Reflect.isExtensible(P); },
    'O.isExt': function (P) { return Object.isExtensible(P); },
    'R.pe': function (P) { return Reflect.preventExtensions(P); },
    'O.pe': function (P) { return Object.preventExtensions(P); },
    'O.seal': function (P) { return Object.seal(P); },
    'O.freeze': function (P) { return Object.freeze(P); },
    'call': function (P, k, o, W) { return P(1); },
    'R.apply': function (P, k, o, W) { return Reflect.apply(P, W.vals.o1, [1]); },
    'F.call': function (P, k, o, W) { return Function.prototype.call.call(P, W.vals.o1, 1); },
    'new': function (P) { return new P(1); },
    'R.construct': function (P) { return Reflect.construct(P, [1]); },
    'R.construct.nt': function (P, k, o, W) { return Reflect.construct(P, [1], W.vals.NT); },
    'typeof': function (P) { return typeof P; }
  };

  // S: see lattice.go (type latSpec).  mkProxy(T, H, trapName) builds the proxy (JS `new Proxy` or the Go adapter).
  function lat(specJSON, mkProxy) {
    var S = JSON.parse(specJSON);
    var W = latWorld();
    var key = S.key === undefined ? undefined : keyOf(W, S.key);
    var T;
    switch (S.tkind) {
      case 'fn': T = function T(a) { if (new.target) this.made = a; return 'ret'; }; W.name(T.prototype, 'Tproto'); break;
      case 'method': T = ({ m(a) { return 'ret'; } }).m; break;             // callable, no [[Construct]]
      default: T = {};
    }
    W.name(T, 'T');
    if (S.proto !== 'keep') Reflect.setPrototypeOf(T, val(W, S.proto));
    if (S.state) Object.defineProperty(T, key, mkDesc(W, S.state));
    var oth = S.others || [];
    for (var i = 0; i < oth.length; i++) Object.defineProperty(T, keyOf(W, oth[i].key), { value: 1, writable: true, enumerable: oth[i].e, configurable: oth[i].c });
    if (!S.ext) Object.preventExtensions(T);

    var rec = { calls: 0, facts: null, tret: null, argbad: '' };
    var tretRaw, haveTret = false;
    var H = {};
    if (S.trapval !== undefined) {
      H[S.trap] = val(W, S.trapval);
    } else {
      H[S.trap] = function () {
        rec.calls++;
        if (arguments[0] !== T) rec.argbad += 'target;';
        if (this !== H && !S.go) rec.argbad += 'this;';
        if (S.keyed) {
          var ak = arguments[1];
          if (ak !== key || typeof ak !== typeof key) rec.argbad += 'key(' + R(W, ak) + ');';
        }
        var actual;
        if (S.effect === 'forward') actual = Reflect[S.trap].apply(undefined, arguments);
        else if (S.effect === 'fwdCfgTrue') {
          var d2 = {}; for (var f in arguments[2]) d2[f] = arguments[2][f]; d2.configurable = true;
          try { Reflect.defineProperty(arguments[0], arguments[1], d2); } catch (_) { }
        }
        if (S.trap === 'defineProperty') rec.darg = R(W, arguments[2]);
        var ret = S.result.t === 'actual' ? actual : mkResult(W, S.result);
        rec.facts = latFacts(W, T, key);
        tretRaw = ret; haveTret = true;
        rec.tret = R(W, ret);
        return ret;
      };
    }
    var P = mkProxy(T, H, S.trap);
    W.name(P, 'P');
    var out, res;
    try {
      res = LISS[S.op.iss](P, key, S.op, W);
      out = 'ok:' + R(W, res);
      rec.same = haveTret && (res === tretRaw || (res !== res && tretRaw !== tretRaw));
    } catch (e) { out = 'throw:' + ctorName(e); }
    rec.out = out;
    rec.after = latFacts(W, T, key);
    return JSON.stringify(rec);
  }

  // the same operation on a plain (proxy-less) twin target: reference for the "trap undefined/null" sub-sweep
  function latPlain(specJSON) {
    return lat(specJSON, function (T, H, trap) { return T; });
  }


  // ------------------------------------------------------------------------------------------------
  // Revoked proxies
  // ------------------------------------------------------------------------------------------------
  function withHas(P) { with (P) { return typeof zzz; } }
  function forIn(P) { var l = []; for (var k in P) l.push(k); return l; }
  var REVOPS = {
    'R.getProto': function (P) { return Reflect.getPrototypeOf(P); },
    'O.getProto': function (P) { return Object.getPrototypeOf(P); },
    '__proto__.get': function (P) { return protoGet.call(P); },
    'P.__proto__': function (P) { return P.__proto__; },
    'isPrototypeOf': function (P) { return Object.prototype.isPrototypeOf.call(Array.prototype, P); },
    'R.setProto': function (P) { return Reflect.setPrototypeOf(P, null); },
    'O.setProto': function (P) { return Object.setPrototypeOf(P, null); },
    '__proto__.set': function (P) { return protoSet.call(P, null); },
    'R.isExt': function (P) { return Reflect.isExtensible(P); },
    'O.isExt': function (P) { return Object.isExtensible(P); },
    'O.isFrozen': function (P) { return Object.isFrozen(P); },
    'O.isSealed': function (P) { return Object.isSealed(P); },
    'R.pe': function (P) { return Reflect.preventExtensions(P); },
    'O.pe': function (P) { return Object.preventExtensions(P); },
    'O.freeze': function (P) { return Object.freeze(P); },
    'O.seal': function (P) { return Object.seal(P); },
    'R.gopd': function (P) { return Reflect.getOwnPropertyDescriptor(P, 'x'); },
    'O.gopd': function (P) { return Object.getOwnPropertyDescriptor(P, 'x'); },
    'O.gopd.idx': function (P) { return Object.getOwnPropertyDescriptor(P, 0); },
    'O.gopd.sym': function (P) { return Object.getOwnPropertyDescriptor(P, Symbol.iterator); },
    'O.gopds': function (P) { return Object.getOwnPropertyDescriptors(P); },
    'hasOwnProperty': function (P) { return hasOwnP.call(P, 'x'); },
    'O.hasOwn': function (P) { return Object.hasOwn(P, 'x'); },
    'propertyIsEnumerable': function (P) { return propIsEnum.call(P, 'x'); },
    'R.define': function (P) { return Reflect.defineProperty(P, 'x', { value: 1 }); },
    'O.define': function (P) { return Object.defineProperty(P, 'x', { value: 1 }); },
    'O.define.idx': function (P) { return Object.defineProperty(P, 0, { value: 1 }); },
    'O.define.sym': function (P) { return Object.defineProperty(P, Symbol.iterator, { value: 1 }); },
    'O.defineProperties': function (P) { return Object.defineProperties(P, { x: { value: 1 } }); },
    'R.has': function (P) { return Reflect.has(P, 'x'); },
    'in': function (P) { return 'x' in P; },
    'in.idx': function (P) { return 0 in P; },
    'in.sym': function (P) { return Symbol.iterator in P; },
    'with': function (P) { return withHas(P); },
    'R.get': function (P) { return Reflect.get(P, 'x'); },
    'get': function (P) { return P.x; },
    'get.idx': function (P) { return P[0]; },
    'get.sym': function (P) { return P[Symbol.iterator]; },
    'get.via.child': function (P) { return Object.create(P).x; },
    'R.set': function (P) { return Reflect.set(P, 'x', 1); },
    'set.sloppy': function (P) { return setSloppy(P, 'x', 1); },
    'set.strict': function (P) { return setStrict(P, 'x', 1); },
    'set.idx': function (P) { return setSloppy(P, 0, 1); },
    'set.sym': function (P) { return setSloppy(P, Symbol.iterator, 1); },
    'set.via.child': function (P) { return setSloppy(Object.create(P), 'x', 1); },
    'R.delete': function (P) { return Reflect.deleteProperty(P, 'x'); },
    'delete.sloppy': function (P) { return delSloppy(P, 'x'); },
    'delete.strict': function (P) { return delStrict(P, 'x'); },
    'delete.idx': function (P) { return delSloppy(P, 0); },
    'delete.sym': function (P) { return delSloppy(P, Symbol.iterator); },
    'R.ownKeys': function (P) { return Reflect.ownKeys(P); },
    'O.keys': function (P) { return Object.keys(P); },
    'O.values': function (P) { return Object.values(P); },
    'O.entries': function (P) { return Object.entries(P); },
    'O.names': function (P) { return Object.getOwnPropertyNames(P); },
    'O.symbols': function (P) { return Object.getOwnPropertySymbols(P); },
    'for-in': function (P) { return forIn(P); },
    'spread.object': function (P) { return { ...P }; },
    'spread.array': function (P) { return [...P]; },
    'O.assign.from': function (P) { return Object.assign({}, P); },
    'O.assign.to': function (P) { return Object.assign(P, { x: 1 }); },
    'JSON.stringify': function (P) { return JSON.stringify(P); },
    'JSON.stringify.nested': function (P) { return JSON.stringify({ a: P }); },
    'call': function (P) { return P(); },
    'F.call': function (P) { return Function.prototype.call.call(P); },
    'R.apply': function (P) { return Reflect.apply(P, undefined, []); },
    'new': function (P) { return new P(); },
    'R.construct': function (P) { return Reflect.construct(P, []); },
    'R.construct.as.newTarget': function (P) { return Reflect.construct(function () { }, [], P); },
    'Array.isArray': function (P) { return Array.isArray(P); },
    'instanceof.lhs': function (P) { return P instanceof Object; },
    'instanceof.rhs': function (P) { return ({}) instanceof P; },
    'O.p.toString': function (P) { return Object.prototype.toString.call(P); },
    'String': function (P) { return String(P); },
    'concat': function (P) { return [].concat(P); },
    'Array.from': function (P) { return Array.from(P); },
    'A.p.slice': function (P) { return Array.prototype.slice.call(P); },
    'typeof': function (P) { return typeof P; }
  };
  function rev(specJSON, mkGoRevoked) {
    var S = JSON.parse(specJSON);
    var W = mkNames();
    var T;
    switch (S.tkind) {
      case 'fn': T = function () { }; break;
      case 'class': T = class { }; break;
      case 'array': T = [1, 2]; break;
      default: T = { x: 1 };
    }
    var P;
    if (S.creator === 'go') P = mkGoRevoked(T);
    else {
      var H = {};
      if (S.handler === 'full') {
        ['getPrototypeOf', 'setPrototypeOf', 'isExtensible', 'preventExtensions', 'getOwnPropertyDescriptor', 'defineProperty', 'has', 'get', 'set', 'deleteProperty', 'ownKeys', 'apply', 'construct'].forEach(function (t) {
          H[t] = function () { return Reflect[t].apply(undefined, arguments); };
        });
      }
      var rv = Proxy.revocable(T, H);
      P = rv.proxy;
      if (S.usedBefore) { try { REVOPS[S.op](P); } catch (_) { } }
      rv.revoke(); rv.revoke();
    }
    try { return 'ok:' + R(W, REVOPS[S.op](P)); } catch (e) { return 'throw:' + ctorName(e); }
  }
  function revOps() { return JSON.stringify(Object.keys(REVOPS)); }

  return { rev: rev, revOps: revOps, lat: lat, latPlain: latPlain, R: R, mkNames: mkNames, ctorName: ctorName, descFacts: descFacts };
})();
