// C11 prelude: runs inside the goja runtime under test.  It only *drives* operations and *renders* what came
// out of them into canonical strings; every verdict is taken on the Go side (lock-step string equality, proxyref).
// Sloppy-mode script on purpose: the sloppy issuers live at this level, strict ones carry their own directive.
var __c11 = (function () {
  var hasOwnP = Object.prototype.hasOwnProperty, propIsEnum = Object.prototype.propertyIsEnumerable;
  var protoGet = Object.getOwnPropertyDescriptor(Object.prototype, '__proto__').get;
  var protoSet = Object.getOwnPropertyDescriptor(Object.prototype, '__proto__').set;

  function ctorName(e) {
    try {
      if (e !== null && (typeof e === 'object' || typeof e === 'function')) {
        var c = e.constructor;
        if (typeof c === 'function' && typeof c.name === 'string') return c.name;
      }
    } catch (_) { }
    return 'nonerror:' + (e === null ? 'null' : typeof e);
  }

  function mkNames() {
    var W = { m: new Map() };
    W.name = function (o, n) { W.m.set(o, n); return o; };
    W.name(Object.prototype, '%Object.prototype%');
    W.name(Function.prototype, '%Function.prototype%');
    W.name(Array.prototype, '%Array.prototype%');
    W.name(String.prototype, '%String.prototype%');
    W.name(Object, '%Object%'); W.name(Array, '%Array%'); W.name(Function, '%Function%');
    if (typeof Uint8Array === 'function') { W.name(Uint8Array.prototype, '%Uint8Array.prototype%'); W.name(Object.getPrototypeOf(Uint8Array.prototype), '%TypedArray.prototype%'); }
    W.name(Symbol.iterator, '@@iterator'); W.name(Symbol.toStringTag, '@@toStringTag');
    W.name(Symbol.isConcatSpreadable, '@@isConcatSpreadable'); W.name(Symbol.hasInstance, '@@hasInstance');
    W.name(Symbol.toPrimitive, '@@toPrimitive'); W.name(Symbol.species, '@@species'); W.name(Symbol.unscopables, '@@unscopables');
    return W;
  }

  // canonical rendering; named objects/symbols by name (identity), anything else structurally (bounded)
  function R(W, v, d) {
    d = d | 0;
    switch (typeof v) {
      case 'undefined': return 'und';
      case 'boolean': return 'b:' + v;
      case 'number': return 'n:' + (v === 0 && 1 / v < 0 ? '-0' : String(v));
      case 'string': return 's:' + JSON.stringify(v);
      case 'symbol': { var sn = W.m.get(v); return sn === undefined ? 'sym?' : sn; }
      case 'bigint': return 'g:' + String(v);
    }
    if (v === null) return 'null';
    var n = W.m.get(v);
    if (n !== undefined) return n;
    if (d > 3) return '...';
    try {
      if (Array.isArray(v)) {
        var a = [], len = v.length;
        if (len > 64) return '[len=' + len + ']';
        for (var i = 0; i < len; i++) a.push(hasOwnP.call(v, i) ? R(W, v[i], d + 1) : 'hole');
        return '[' + a.join(',') + ']';
      }
      if (typeof v === 'function') return 'fn?';
      var ks = Reflect.ownKeys(v), parts = [];
      if (ks.length > 64) return '{keys=' + ks.length + '}';
      for (var j = 0; j < ks.length; j++) {
        var de = Reflect.getOwnPropertyDescriptor(v, ks[j]);
        parts.push(R(W, ks[j], d + 1) + ':' + (de === undefined ? 'gone' : ('value' in de ? R(W, de.value, d + 1) : 'acc(' + R(W, de.get, d + 1) + ',' + R(W, de.set, d + 1) + ')')));
      }
      var pr = Reflect.getPrototypeOf(v);
      return '{' + parts.join(',') + '}' + (pr === Object.prototype ? '' : '^' + R(W, pr, d + 1));
    } catch (e) { return 'unrenderable:' + ctorName(e); }
  }

  // descriptor object (as produced by the engine for an ordinary object) -> JSON-able facts
  function descFacts(W, d) {
    if (d === undefined) return null;
    var o = {};
    if ('value' in d) { o.value = R(W, d.value); o.writable = d.writable; } else { o.get = R(W, d.get); o.set = R(W, d.set); }
    o.enumerable = d.enumerable; o.configurable = d.configurable;
    return o;
  }

  // ------------------------------------------------------------------------------------------------
  // Lie lattice
  // ------------------------------------------------------------------------------------------------
  function latWorld() {
    var W = mkNames();
    var V = W.vals = Object.create(null);
    V.v1 = 1; V.v2 = 2; V.und = undefined; V['null'] = null; V.nan = NaN; V.pz = 0; V.nz = -0; V.str = 's'; V.estr = '';
    V.t = true; V.f = false; V.gv = 'gv';
    V.o1 = W.name({}, 'o1'); V.o2 = W.name({}, 'o2');
    V.g1 = W.name(function g1() { return 'gv'; }, 'g1'); V.g2 = W.name(function g2() { return 'gv2'; }, 'g2');
    V.s1 = W.name(function s1(v) { }, 's1'); V.s2 = W.name(function s2(v) { }, 's2');
    V.protoA = W.name({ inA: 1 }, 'protoA'); V.protoB = W.name({ inB: 1 }, 'protoB');
    V.sym1 = W.name(Symbol('sym1'), 'sym1'); V.sym2 = W.name(Symbol('sym2'), 'sym2'); V.symX = W.name(Symbol('symX'), 'symX');
    V.NT = W.name(function NT() { }, 'NT'); W.name(V.NT.prototype, 'NTproto');
    V.CA = W.name(function CA() { }, 'CA'); V.CA.prototype = V.protoA;
    return W;
  }
  function val(W, n) { if (!(n in W.vals)) throw new Error('c11 prelude: unknown value name ' + n); return W.vals[n]; }
  function keyOf(W, k) { return k.charAt(0) === '@' ? val(W, k.slice(1)) : k; }   // "@sym1" -> symbol, else string key
  function mkDesc(W, d) {
    var o = {};
    for (var f in d) { o[f] = (f === 'value' || f === 'get' || f === 'set') ? val(W, d[f]) : d[f]; }
    return o;
  }
  function mkKeys(W, rs) {
    var arr = rs.arraylike ? {} : [];
    var l = rs.l || [];
    for (var i = 0; i < l.length; i++) {
      var e = l[i];
      arr[i] = e.t === 'key' ? keyOf(W, e.v) : val(W, e.v);
    }
    if (rs.arraylike) arr.length = l.length;
    return arr;
  }
  function mkResult(W, rs) {
    switch (rs.t) {
      case 'val': return val(W, rs.v);
      case 'desc': return mkDesc(W, rs.d);
      case 'keys': return mkKeys(W, rs);
    }
    throw new Error('c11 prelude: bad result spec ' + rs.t);
  }
  function latFacts(W, T, key) {
    var ks = Reflect.ownKeys(T), kl = [];
    for (var i = 0; i < ks.length; i++) { var d = Reflect.getOwnPropertyDescriptor(T, ks[i]); kl.push({ k: R(W, ks[i]), c: d.configurable, e: d.enumerable, str: typeof ks[i] === 'string' }); }
    return { desc: key === undefined ? null : descFacts(W, Reflect.getOwnPropertyDescriptor(T, key)), ext: Reflect.isExtensible(T), proto: R(W, Reflect.getPrototypeOf(T)), keys: kl };
  }
  function setSloppy(o, k, v) { return o[k] = v; }
  function setStrict(o, k, v) { 'use strict'; return o[k] = v; }
  function delSloppy(o, k) { return delete o[k]; }
  function delStrict(o, k) { 'use strict'; return delete o[k]; }

  var LISS = {
    'R.gopd': function (P, k) { return Reflect.getOwnPropertyDescriptor(P, k); },
    'O.gopd': function (P, k) { return Object.getOwnPropertyDescriptor(P, k); },
    'hasOwn': function (P, k) { return hasOwnP.call(P, k); },
    'R.define': function (P, k, o, W) { return Reflect.defineProperty(P, k, mkDesc(W, o.desc)); },
    'O.define': function (P, k, o, W) { return Object.defineProperty(P, k, mkDesc(W, o.desc)); },
    'R.has': function (P, k) { return Reflect.has(P, k); },
    'in': function (P, k) { return k in P; },
    'R.get': function (P, k) { return Reflect.get(P, k); },
    'get': function (P, k) { return P[k]; },
    'R.set': function (P, k, o, W) { return Reflect.set(P, k, val(W, o.val)); },
    'set.sloppy': function (P, k, o, W) { return setSloppy(P, k, val(W, o.val)); },
    'set.strict': function (P, k, o, W) { return setStrict(P, k, val(W, o.val)); },
    'R.delete': function (P, k) { return Reflect.deleteProperty(P, k); },
    'delete.sloppy': function (P, k) { return delSloppy(P, k); },
    'delete.strict': function (P, k) { return delStrict(P, k); },
    'R.ownKeys': function (P) { return Reflect.ownKeys(P); },
    'O.names': function (P) { return Object.getOwnPropertyNames(P); },
    'O.symbols': function (P) { return Object.getOwnPropertySymbols(P); },
    'O.keys': function (P) { return Object.keys(P); },
    'R.getProto': function (P) { return Reflect.getPrototypeOf(P); },
    'O.getProto': function (P) { return Object.getPrototypeOf(P); },
    '__proto__.get': function (P) { return protoGet.call(P); },
    'instanceof': function (P, k, o, W) { return P instanceof W.vals.CA; },
    'isPrototypeOf': function (P, k, o, W) { return W.vals.protoA.isPrototypeOf(P); },
    'R.setProto': function (P, k, o, W) { return Reflect.setPrototypeOf(P, val(W, o.proto)); },
    'O.setProto': function (P, k, o, W) { return Object.setPrototypeOf(P, val(W, o.proto)); },
    '__proto__.set': function (P, k, o, W) { return protoSet.call(P, val(W, o.proto)); },
    'R.isExt': function (P) { return Reflect.isExtensible(P); },
    'O.isExt': function (P) { return Object.isExtensible(P); },
    'R.pe': function (P) { return Reflect.preventExtensions(P); },
    'O.pe': function (P) { return Object.preventExtensions(P); },
    'O.seal': function (P) { return Object.seal(P); },
    'O.freeze': function (P) { return Object.freeze(P); },
    'call': function (P, k, o, W) { return P(1); },
    'R.apply': function (P, k, o, W) { return Reflect.apply(P, W.vals.o1, [1]); },
    'F.call': function (P, k, o, W) { return Function.prototype.call.call(P, W.vals.o1, 1); },
    'new': function (P) { return new P(1); },
    'R.construct': function (P) { return Reflect.construct(P, [1]); },
    'R.construct.nt': function (P, k, o, W) { return Reflect.construct(P, [1], W.vals.NT); },
    'typeof': function (P) { return typeof P; }
  };

  // S: see lattice.go (type latSpec).  mkProxy(T, H, trapName) builds the proxy (JS `new Proxy` or the Go adapter).
  function lat(specJSON, mkProxy) {
    var S = JSON.parse(specJSON);
    var W = latWorld();
    var key = S.key === undefined ? undefined : keyOf(W, S.key);
    var T;
    switch (S.tkind) {
      case 'fn': T = function T(a) { if (new.target) this.made = a; return 'ret'; }; W.name(T.prototype, 'Tproto'); break;
      case 'method': T = ({ m(a) { return 'ret'; } }).m; break;             // callable, no [[Construct]]
      default: T = {};
    }
    W.name(T, 'T');
    if (S.proto !== 'keep') Reflect.setPrototypeOf(T, val(W, S.proto));
    if (S.state) Object.defineProperty(T, key, mkDesc(W, S.state));
    var oth = S.others || [];
    for (var i = 0; i < oth.length; i++) Object.defineProperty(T, keyOf(W, oth[i].key), { value: 1, writable: true, enumerable: oth[i].e, configurable: oth[i].c });
    if (!S.ext) Object.preventExtensions(T);

    var rec = { calls: 0, facts: null, tret: null, argbad: '' };
    var tretRaw, haveTret = false;
    var H = {};
    if (S.trapval !== undefined) {
      H[S.trap] = val(W, S.trapval);
    } else {
      H[S.trap] = function () {
        rec.calls++;
        if (arguments[0] !== T) rec.argbad += 'target;';
        if (this !== H && !S.go) rec.argbad += 'this;';
        if (S.keyed) {
          var ak = arguments[1];
          if (ak !== key || typeof ak !== typeof key) rec.argbad += 'key(' + R(W, ak) + ');';
        }
        var actual;
        if (S.effect === 'forward') actual = Reflect[S.trap].apply(undefined, arguments);
        else if (S.effect === 'fwdCfgTrue') {
          var d2 = {}; for (var f in arguments[2]) d2[f] = arguments[2][f]; d2.configurable = true;
          try { Reflect.defineProperty(arguments[0], arguments[1], d2); } catch (_) { }
        }
        if (S.trap === 'defineProperty') rec.darg = R(W, arguments[2]);
        var ret = S.result.t === 'actual' ? actual : mkResult(W, S.result);
        rec.facts = latFacts(W, T, key);
        tretRaw = ret; haveTret = true;
        rec.tret = R(W, ret);
        return ret;
      };
    }
    var P = mkProxy(T, H, S.trap);
    W.name(P, 'P');
    var out, res;
    try {
      res = LISS[S.op.iss](P, key, S.op, W);
      out = 'ok:' + R(W, res);
      rec.same = haveTret && (res === tretRaw || (res !== res && tretRaw !== tretRaw));
    } catch (e) { out = 'throw:' + ctorName(e); }
    rec.out = out;
    rec.after = latFacts(W, T, key);
    return JSON.stringify(rec);
  }

  // the same operation on a plain (proxy-less) twin target: reference for the "trap undefined/null" sub-sweep
  function latPlain(specJSON) {
    return lat(specJSON, function (T, H, trap) { return T; });
  }


  // ------------------------------------------------------------------------------------------------
  // Revoked proxies
  // ------------------------------------------------------------------------------------------------
  function withHas(P) { with (P) { return typeof zzz; } }
  function forIn(P) { var l = []; for (var k in P) l.push(k); return l; }
  var REVOPS = {
    'R.getProto': function (P) { return Reflect.getPrototypeOf(P); },
    'O.getProto': function (P) { return Object.getPrototypeOf(P); },
    '__proto__.get': function (P) { return protoGet.call(P); },
    'P.__proto__': function (P) { return P.__proto__; },
    'isPrototypeOf': function (P) { return Object.prototype.isPrototypeOf.call(Array.prototype, P); },
    'R.setProto': function (P) { return Reflect.setPrototypeOf(P, null); },
    'O.setProto': function (P) { return Object.setPrototypeOf(P, null); },
    '__proto__.set': function (P) { return protoSet.call(P, null); },
    'R.isExt': function (P) { return Reflect.isExtensible(P); },
    'O.isExt': function (P) { return Object.isExtensible(P); },
    'O.isFrozen': function (P) { return Object.isFrozen(P); },
    'O.isSealed': function (P) { return Object.isSealed(P); },
    'R.pe': function (P) { return Reflect.preventExtensions(P); },
    'O.pe': function (P) { return Object.preventExtensions(P); },
    'O.freeze': function (P) { return Object.freeze(P); },
    'O.seal': function (P) { return Object.seal(P); },
    'R.gopd': function (P) { return Reflect.getOwnPropertyDescriptor(P, 'x'); },
    'O.gopd': function (P) { return Object.getOwnPropertyDescriptor(P, 'x'); },
    'O.gopd.idx': function (P) { return Object.getOwnPropertyDescriptor(P, 0); },
    'O.gopd.sym': function (P) { return Object.getOwnPropertyDescriptor(P, Symbol.iterator); },
    'O.gopds': function (P) { return Object.getOwnPropertyDescriptors(P); },
    'hasOwnProperty': function (P) { return hasOwnP.call(P, 'x'); },
    'O.hasOwn': function (P) { return Object.hasOwn(P, 'x'); },
    'propertyIsEnumerable': function (P) { return propIsEnum.call(P, 'x'); },
    'R.define': function (P) { return Reflect.defineProperty(P, 'x', { value: 1 }); },
    'O.define': function (P) { return Object.defineProperty(P, 'x', { value: 1 }); },
    'O.define.idx': function (P) { return Object.defineProperty(P, 0, { value: 1 }); },
    'O.define.sym': function (P) { return Object.defineProperty(P, Symbol.iterator, { value: 1 }); },
    'O.defineProperties': function (P) { return Object.defineProperties(P, { x: { value: 1 } }); },
    'R.has': function (P) { return Reflect.has(P, 'x'); },
    'in': function (P) { return 'x' in P; },
    'in.idx': function (P) { return 0 in P; },
    'in.sym': function (P) { return Symbol.iterator in P; },
    'with': function (P) { return withHas(P); },
    'R.get': function (P) { return Reflect.get(P, 'x'); },
    'get': function (P) { return P.x; },
    'get.idx': function (P) { return P[0]; },
    'get.sym': function (P) { return P[Symbol.iterator]; },
    'get.via.child': function (P) { return Object.create(P).x; },
    'R.set': function (P) { return Reflect.set(P, 'x', 1); },
    'set.sloppy': function (P) { return setSloppy(P, 'x', 1); },
    'set.strict': function (P) { return setStrict(P, 'x', 1); },
    'set.idx': function (P) { return setSloppy(P, 0, 1); },
    'set.sym': function (P) { return setSloppy(P, Symbol.iterator, 1); },
    'set.via.child': function (P) { return setSloppy(Object.create(P), 'x', 1); },
    'R.delete': function (P) { return Reflect.deleteProperty(P, 'x'); },
    'delete.sloppy': function (P) { return delSloppy(P, 'x'); },
    'delete.strict': function (P) { return delStrict(P, 'x'); },
    'delete.idx': function (P) { return delSloppy(P, 0); },
    'delete.sym': function (P) { return delSloppy(P, Symbol.iterator); },
    'R.ownKeys': function (P) { return Reflect.ownKeys(P); },
    'O.keys': function (P) { return Object.keys(P); },
    'O.values': function (P) { return Object.values(P); },
    'O.entries': function (P) { return Object.entries(P); },
    'O.names': function (P) { return Object.getOwnPropertyNames(P); },
    'O.symbols': function (P) { return Object.getOwnPropertySymbols(P); },
    'for-in': function (P) { return forIn(P); },
    'spread.object': function (P) { return { ...P }; },
    'spread.array': function (P) { return [...P]; },
    'O.assign.from': function (P) { return Object.assign({}, P); },
    'O.assign.to': function (P) { return Object.assign(P, { x: 1 }); },
    'JSON.stringify': function (P) { return JSON.stringify(P); },
    'JSON.stringify.nested': function (P) { return JSON.stringify({ a: P }); },
    'call': function (P) { return P(); },
    'F.call': function (P) { return Function.prototype.call.call(P); },
    'R.apply': function (P) { return Reflect.apply(P, undefined, []); },
    'new': function (P) { return new P(); },
    'R.construct': function (P) { return Reflect.construct(P, []); },
    'R.construct.as.newTarget': function (P) { return Reflect.construct(function () { }, [], P); },
    'Array.isArray': function (P) { return Array.isArray(P); },
    'instanceof.lhs': function (P) { return P instanceof Object; },
    'instanceof.rhs': function (P) { return ({}) instanceof P; },
    'O.p.toString': function (P) { return Object.prototype.toString.call(P); },
    'String': function (P) { return String(P); },
    'concat': function (P) { return [].concat(P); },
    'Array.from': function (P) { return Array.from(P); },
    'A.p.slice': function (P) { return Array.prototype.slice.call(P); },
    'typeof': function (P) { return typeof P; }
  };
  function rev(specJSON, mkGoRevoked) {
    var S = JSON.parse(specJSON);
    var W = mkNames();
    var T;
    switch (S.tkind) {
      case 'fn': T = function () { }; break;
      case 'class': T = class { }; break;
      case 'array': T = [1, 2]; break;
      default: T = { x: 1 };
    }
    var P;
    if (S.creator === 'go') P = mkGoRevoked(T);
    else {
      var H = {};
      if (S.handler === 'full') {
        ['getPrototypeOf', 'setPrototypeOf', 'isExtensible', 'preventExtensions', 'getOwnPropertyDescriptor', 'defineProperty', 'has', 'get', 'set', 'deleteProperty', 'ownKeys', 'apply', 'construct'].forEach(function (t) {
          H[t] = function () { return Reflect[t].apply(undefined, arguments); };
        });
      }
      var rv = Proxy.revocable(T, H);
      P = rv.proxy;
      if (S.usedBefore) { try { REVOPS[S.op](P); } catch (_) { } }
      rv.revoke(); rv.revoke();
    }
    try { return 'ok:' + R(W, REVOPS[S.op](P)); } catch (e) { return 'throw:' + ctorName(e); }
  }
  function revOps() { return JSON.stringify(Object.keys(REVOPS)); }


  // ------------------------------------------------------------------------------------------------
  // Lock-step: the same op sequence on T (world A) and on a forwarding proxy stack over the twin T' (world B)
  // ------------------------------------------------------------------------------------------------
  var TRAPS = ['getPrototypeOf', 'setPrototypeOf', 'isExtensible', 'preventExtensions', 'getOwnPropertyDescriptor', 'defineProperty', 'has', 'get', 'set', 'deleteProperty', 'ownKeys', 'apply', 'construct'];
  var KEYED = { getOwnPropertyDescriptor: 1, defineProperty: 1, has: 1, get: 1, set: 1, deleteProperty: 1 };
  var SYM_A = Symbol('symA'), SYM_B = Symbol('symB');   // symbols are primitives: shared by both worlds
  var LKEYS = ['a', 'b', 'c', 'length', 'prototype', 'name', '0', '1', '2', '3', '5', 'acc', 'nca', 'ro', 'fz', 'ncw', SYM_A, SYM_B,
    Symbol.toStringTag, Symbol.iterator, 'constructor', '4294967294', '4294967295', '-0', '1.5', '5000', 'A', 'B', 'caller', 'callee',
    Symbol.isConcatSpreadable, 'toJSON', 'M', 'px', '-1', '01'];
  var AP = Array.prototype;
  var UNORDERED = { gomap: 1, goreflectmap: 1 };

  function lockWorld(kind, host) {
    var W = mkNames();
    W.kind = kind; W.log = []; W.tlog = []; W.tlogOn = true; W.tcount = {}; W.bad = [];
    W.unordered = !!UNORDERED[kind];
    W.name(SYM_A, 'symA'); W.name(SYM_B, 'symB');
    W.name(globalThis, '%global%');
    var lg = W.name(function lg() { W.log.push('lg(this=' + R(W, this) + ')'); return 'LG'; }, 'lg');
    var ls = W.name(function ls(v) { W.log.push('ls(this=' + R(W, this) + ',v=' + R(W, v) + ')'); }, 'ls');
    var fv = W.name(function fv() { return 'FV'; }, 'fv');
    var ov1 = W.name({ tag: 'ov1' }, 'ov1');
    W.vals = [1, 2, 'x', undefined, null, -0, NaN, true, ov1, fv, 4, '7', 0, 1.5, -1, 4294967296];
    W.fns = { lg: lg, ls: ls, fv: fv, und: undefined };
    var protoX = W.name({ px: 1 }, 'protoX');
    Object.defineProperty(protoX, 'acc', { get: lg, set: ls, enumerable: true, configurable: true });
    Object.defineProperty(protoX, 'ro', { value: 'RO', writable: false, enumerable: true, configurable: true });
    var protoY = W.name(Object.create(protoX), 'protoY'); protoY.py = 2;
    W.protoX = protoX; W.protoY = protoY;
    W.recvA = W.name({ ra: 1 }, 'recvA');
    W.ctorF = W.name(function ctorF() { }, 'ctorF'); W.name(W.ctorF.prototype, 'ctorF.prototype');
    W.NT = W.name(function NT() { }, 'NT'); W.name(W.NT.prototype, 'NT.prototype');
    var T;
    switch (kind) {
      case 'plain': T = { a: 1, b: 'x' }; break;
      case 'nullproto': T = Object.create(null); T.a = 1; T.b = 'x'; break;
      case 'inherits': T = Object.create(protoY); T.a = 1; break;
      case 'function': T = function T(a, b) { W.log.push('T(this=' + R(W, this) + ',nt=' + R(W, new.target) + ',a=' + R(W, a) + ',b=' + R(W, b) + ')'); if (new.target) { this.made = a; } else return a; }; break;
      case 'strictfn': T = function T(a, b) { 'use strict'; W.log.push('T(this=' + R(W, this) + ',nt=' + R(W, new.target) + ',a=' + R(W, a) + ')'); if (new.target) { this.made = a; } else return b; }; break;
      case 'arrow': T = (a) => { W.log.push('arrow(a=' + R(W, a) + ')'); return a; }; break;
      case 'class': T = class T { constructor(a) { W.log.push('ctor(nt=' + R(W, new.target) + ',a=' + R(W, a) + ')'); this.made = a; } m() { return 'm'; } static sm() { return 'sm'; } }; break;
      case 'dense': T = [1, 2, 3]; break;
      case 'sparse': T = [1, 2, 3]; T[5000] = 4; break;
      case 'args': T = (function (p, q) { return arguments; })(1, 2); break;
      case 'strictargs': T = (function (p, q) { 'use strict'; return arguments; })(1, 2); break;
      case 'string': T = new String('ab'); break;
      case 'typed': T = new Uint8Array([1, 2, 3, 4]); break;
      case 'frozen': T = Object.freeze({ a: 1, b: 'x' }); break;
      case 'sealed': T = Object.seal({ a: 1, b: 'x' }); break;
      case 'nonext': T = Object.preventExtensions({ a: 1, b: 'x' }); break;
      case 'frozenarray': T = Object.freeze([1, 2, 3]); break;
      case 'accessors':
        T = { a: 1 };
        Object.defineProperty(T, 'acc', { get: lg, set: ls, enumerable: true, configurable: true });
        Object.defineProperty(T, 'nca', { get: lg, set: undefined, enumerable: false, configurable: false });
        Object.defineProperty(T, 'ro', { value: 'ro', writable: false, enumerable: true, configurable: true });
        Object.defineProperty(T, 'fz', { value: 'fz', writable: false, enumerable: true, configurable: false });
        Object.defineProperty(T, 'ncw', { value: 'ncw', writable: true, enumerable: false, configurable: false });
        Object.defineProperty(T, SYM_A, { value: 'sa', writable: true, enumerable: true, configurable: false });
        Object.defineProperty(T, '1', { get: undefined, set: undefined, enumerable: true, configurable: false });
        break;
      default: T = host(kind);
    }
    if (typeof T === 'function' && hasOwnP.call(T, 'prototype')) W.name(T.prototype, 'T.prototype');
    W.T = W.name(T, 'T');
    W.S = T;
    return W;
  }

  // structural dump of an ordinary (non-proxy) object
  function dump(W, o) {
    var ks = Reflect.ownKeys(o), parts = [];
    for (var i = 0; i < ks.length; i++) {
      var d = Reflect.getOwnPropertyDescriptor(o, ks[i]), t;
      if (d === undefined) t = 'gone';
      else if ('value' in d) t = 'D(' + R(W, d.value) + (d.writable ? ',W' : ',w') + (d.enumerable ? 'E' : 'e') + (d.configurable ? 'C' : 'c') + ')';
      else t = 'A(' + R(W, d.get) + ',' + R(W, d.set) + (d.enumerable ? ',E' : ',e') + (d.configurable ? 'C' : 'c') + ')';
      parts.push(R(W, ks[i]) + '=' + t);
    }
    if (W.unordered) parts.sort();
    return 'ext=' + Reflect.isExtensible(o) + ';proto=' + R(W, Reflect.getPrototypeOf(o)) + ';[' + parts.join(';') + ']';
  }
  function fullDump(W) {
    return 'T{' + dump(W, W.T) + '} child{' + dump(W, W.child) + '} recvA{' + dump(W, W.recvA) + '} protoX{' + dump(W, W.protoX) + '} protoY{' + dump(W, W.protoY) + '}';
  }
  // facts about the raw target the trap-sequence model needs
  function keyFacts(W, key) {
    var T = W.T, f = { ext: Reflect.isExtensible(T), proto: R(W, Reflect.getPrototypeOf(T)), own: false, chain: 'none', desc: null };
    if (key === undefined) return f;
    var od = Reflect.getOwnPropertyDescriptor(T, key);
    f.own = od !== undefined;
    f.desc = descFacts(W, od);
    for (var o = T, n = 0; o !== null && n < 20; o = Reflect.getPrototypeOf(o), n++) {
      var d = Reflect.getOwnPropertyDescriptor(o, key);
      if (d !== undefined) { f.chain = 'value' in d ? (d.writable ? 'dataW' : 'dataRO') : (d.set !== undefined ? 'accSet' : 'accNoSet'); break; }
    }
    return f;
  }
  // model-free essential-invariant monitor on the *direct* target (world A): a target that breaks these cannot be
  // mirrored by any spec-conforming proxy, so such a case is outside C11's domain (it is C04's business)
  function snap(W, o) {
    var ks = Reflect.ownKeys(o), m = new Map();
    for (var i = 0; i < ks.length; i++) m.set(ks[i], Reflect.getOwnPropertyDescriptor(o, ks[i]));
    return { ext: Reflect.isExtensible(o), proto: Reflect.getPrototypeOf(o), props: m };
  }
  function sane(W, pre, post) {
    var bad = [];
    post.props.forEach(function (d, k) {
      if (d === undefined) bad.push('key ' + R(W, k) + ' is listed by [[OwnPropertyKeys]] but has no descriptor');
      else if (!('value' in d) && !('get' in d)) bad.push('descriptor of ' + R(W, k) + ' has neither value nor get/set');
    });
    if (!pre.ext) {
      if (post.ext) bad.push('non-extensible object became extensible');
      if (post.proto !== pre.proto) bad.push('prototype of a non-extensible object changed');
      post.props.forEach(function (d, k) { if (!pre.props.has(k)) bad.push('non-extensible object gained key ' + R(W, k)); });
    }
    pre.props.forEach(function (d, k) {
      if (d === undefined || d.configurable) return;
      var e = post.props.get(k);
      if (e === undefined) { bad.push('non-configurable ' + R(W, k) + ' disappeared'); return; }
      if (e.configurable) bad.push('non-configurable ' + R(W, k) + ' became configurable');
      if (e.enumerable !== d.enumerable) bad.push('non-configurable ' + R(W, k) + ' changed enumerability');
      if (('value' in d) !== ('value' in e)) bad.push('non-configurable ' + R(W, k) + ' changed kind');
      if ('value' in d && 'value' in e && !d.writable) {
        if (e.writable) bad.push('non-configurable non-writable ' + R(W, k) + ' became writable');
        if (!Object.is(d.value, e.value)) bad.push('non-configurable non-writable ' + R(W, k) + ' changed value');
      }
      if ('get' in d && 'get' in e && (d.get !== e.get || d.set !== e.set)) bad.push('non-configurable accessor ' + R(W, k) + ' changed get/set');
    });
    return bad.join('; ');
  }
  // post-mortem audit of a raw target, run only after a divergence was seen: does the target agree with itself?
  // (descriptor vs Get vs HasProperty vs key listing, integer vs string spelling of a key).  A target that does not
  // cannot be mirrored by a conforming proxy; such a divergence is attributed to the target (C04/C07/C13), not to Proxy.
  function sameDesc(a, b) {
    if (a === undefined || b === undefined) return a === b;
    return ('value' in a) === ('value' in b) && Object.is(a.value, b.value) && a.writable === b.writable && a.get === b.get && a.set === b.set &&
      a.enumerable === b.enumerable && a.configurable === b.configurable;
  }
  function audit(W, T) {
    var bad = [];
    try {
      var ks = Reflect.ownKeys(T), en = [];
      for (var i = 0; i < ks.length && i < 200; i++) {
        var k = ks[i], d = Reflect.getOwnPropertyDescriptor(T, k);
        if (d === undefined) { bad.push('key ' + R(W, k) + ' listed without descriptor'); continue; }
        if (!('value' in d) && !('get' in d)) { bad.push('descriptor of ' + R(W, k) + ' has neither value nor get/set'); continue; }
        if (!Reflect.has(T, k)) bad.push('HasProperty false for own key ' + R(W, k));
        if ('value' in d) {
          var gv = Reflect.get(T, k);
          if (!Object.is(gv, d.value)) bad.push('Get(' + R(W, k) + ') = ' + R(W, gv) + ' but the data descriptor says ' + R(W, d.value));
        } else if (d.get === undefined && Reflect.get(T, k) !== undefined) bad.push('Get(' + R(W, k) + ') is not undefined although the accessor has no getter');
        if (typeof k === 'string') {
          if (d.enumerable) en.push(k);
          var nk = Number(k);
          if (String(nk) === k && nk >= 0 && nk === Math.floor(nk) && nk < 4294967295 && !sameDesc(d, Reflect.getOwnPropertyDescriptor(T, nk))) bad.push('descriptor of ' + R(W, k) + ' differs between the integer and the string spelling of the key');
        }
      }
      if (Array.isArray(T)) {
        var L = Reflect.getOwnPropertyDescriptor(T, 'length');
        for (var j = 0; j < ks.length && j < 200; j++) {
          var ik = ks[j], inum = typeof ik === 'string' ? Number(ik) : NaN;
          if (String(inum) === ik && inum >= 0 && inum === Math.floor(inum) && inum < 4294967295 && L !== undefined && !(inum < L.value)) bad.push('array has own index ' + ik + ' >= length ' + R(W, L.value));
        }
      }
      if (!W.unordered && ks.length <= 200) {
        var ok = Object.keys(T);
        if (ok.join('\u0000') !== en.join('\u0000')) bad.push('Object.keys [' + ok.join(',') + '] disagrees with the enumerable string keys of the descriptors [' + en.join(',') + ']');
      }
    } catch (e) { bad.push('audit threw ' + ctorName(e)); }
    return bad.join('; ');
  }
  function lockDesc(W, d) {
    var o = {};
    if (d.v !== undefined) o.value = W.vals[d.v];
    if (d.w !== undefined) o.writable = d.w;
    if (d.g !== undefined) o.get = W.fns[d.g];
    if (d.s !== undefined) o.set = W.fns[d.s];
    if (d.e !== undefined) o.enumerable = d.e;
    if (d.c !== undefined) o.configurable = d.c;
    return o;
  }
  function recv(W, r) {
    switch (r) {
      case 'self': return W.S; case 'child': return W.child; case 'recvA': return W.recvA; case 'protoX': return W.protoX;
      case 'prim': return 1; case 'null': return null;
    }
    return W.S;
  }
  function protoCand(W, p) {
    switch (p) {
      case 'protoX': return W.protoX; case 'protoY': return W.protoY; case 'null': return null; case 'recvA': return W.recvA;
      case 'arrayProto': return Array.prototype; case 'fnProto': return Function.prototype; case 'objProto': return Object.prototype; case 'prim': return 1;
    }
    return null;
  }
  function instC(W, c) { switch (c) { case 'Array': return Array; case 'Function': return Function; case 'ctorF': return W.ctorF; } return Object; }
  function cb(W, f) {
    switch (f) {
      case 1: return function (x) { return typeof x === 'number' ? x * 2 : x; };
      case 2: return function (x, i) { return i % 2 === 0; };
      case 3: return function (x, i) { W.log.push('cb(' + R(W, x) + ',' + i + ')'); return x; };
      case 4: return function (x, i, arr) { if (i === 0) delete arr[1]; return x; };
      case 5: return function (x, i, arr) { if (i === 0) arr[2] = 'w'; return !!x; };
    }
    return function (x) { return x; };
  }
  function cmp(f) {
    if (f % 2 === 0) return undefined;
    return function (a, b) { var sa = String(a), sb = String(b); return sa < sb ? -1 : sa > sb ? 1 : 0; };
  }
  function getProtoDunder(S) { return S.__proto__; }
  function setProtoDunder(S, p) { return S.__proto__ = p; }
  function forInKeys(S) { var l = []; for (var k in S) l.push(k); return l; }
  function v(W, op, i) { return W.vals[(op.a && op.a[i] !== undefined) ? op.a[i] : 0]; }
  function n(op, i) { return (op.n && op.n[i] !== undefined) ? op.n[i] : 0; }

  var LOPS = {
    'define/O': function (W, S, k, op) { return Object.defineProperty(S, k, lockDesc(W, op.d)); },
    'define/R': function (W, S, k, op) { return Reflect.defineProperty(S, k, lockDesc(W, op.d)); },
    'define/Os': function (W, S, k, op) { var ps = {}; Object.defineProperty(ps, k, { value: lockDesc(W, op.d), enumerable: true }); return Object.defineProperties(S, ps); },
    'get/S': function (W, S, k) { return S[k]; },
    'get/R': function (W, S, k) { return Reflect.get(S, k); },
    'get/Rr': function (W, S, k, op) { return Reflect.get(S, k, recv(W, op.r)); },
    'get/child': function (W, S, k) { return W.child[k]; },
    'set/sloppy': function (W, S, k, op) { return setSloppy(S, k, v(W, op, 0)); },
    'set/strict': function (W, S, k, op) { return setStrict(S, k, v(W, op, 0)); },
    'set/R': function (W, S, k, op) { return Reflect.set(S, k, v(W, op, 0)); },
    'set/Rr': function (W, S, k, op) { return Reflect.set(S, k, v(W, op, 0), recv(W, op.r)); },
    'set/child': function (W, S, k, op) { return setSloppy(W.child, k, v(W, op, 0)); },
    'delete/sloppy': function (W, S, k) { return delSloppy(S, k); },
    'delete/strict': function (W, S, k) { return delStrict(S, k); },
    'delete/R': function (W, S, k) { return Reflect.deleteProperty(S, k); },
    'has/in': function (W, S, k) { return k in S; },
    'has/R': function (W, S, k) { return Reflect.has(S, k); },
    'has/child': function (W, S, k) { return k in W.child; },
    'hasOwn/p': function (W, S, k) { return hasOwnP.call(S, k); },
    'hasOwn/O': function (W, S, k) { return Object.hasOwn(S, k); },
    'hasOwn/pie': function (W, S, k) { return propIsEnum.call(S, k); },
    'gopd/O': function (W, S, k) { return Object.getOwnPropertyDescriptor(S, k); },
    'gopd/R': function (W, S, k) { return Reflect.getOwnPropertyDescriptor(S, k); },
    'gopds/O': function (W, S) { return Object.getOwnPropertyDescriptors(S); },
    'keys/R': function (W, S) { return Reflect.ownKeys(S); },
    'keys/names': function (W, S) { return Object.getOwnPropertyNames(S); },
    'keys/symbols': function (W, S) { return Object.getOwnPropertySymbols(S); },
    'keys/O': function (W, S) { return Object.keys(S); },
    'keys/values': function (W, S) { return Object.values(S); },
    'keys/entries': function (W, S) { return Object.entries(S); },
    'keys/forin': function (W, S) { return forInKeys(S); },
    'keys/spread': function (W, S) { return { ...S }; },
    'keys/assignFrom': function (W, S) { return Object.assign({}, S); },
    'keys/assignTo': function (W, S, k, op) { var src = {}; src[k] = v(W, op, 0); src.c = v(W, op, 1); return Object.assign(S, src); },
    'keys/json': function (W, S) { return JSON.stringify(S); },
    'pe/O': function (W, S) { return Object.preventExtensions(S); },
    'pe/R': function (W, S) { return Reflect.preventExtensions(S); },
    'seal/O': function (W, S) { return Object.seal(S); },
    'freeze/O': function (W, S) { return Object.freeze(S); },
    'isExt/O': function (W, S) { return Object.isExtensible(S); },
    'isExt/R': function (W, S) { return Reflect.isExtensible(S); },
    'isSealed/O': function (W, S) { return Object.isSealed(S); },
    'isFrozen/O': function (W, S) { return Object.isFrozen(S); },
    'getProto/O': function (W, S) { return Object.getPrototypeOf(S); },
    'getProto/R': function (W, S) { return Reflect.getPrototypeOf(S); },
    'getProto/dunder': function (W, S) { return getProtoDunder(S); },
    'getProto/isProtoOf': function (W, S, k, op) { var c = protoCand(W, op.p); return c === null || typeof c !== 'object' ? 'n/a' : Object.prototype.isPrototypeOf.call(c, S); },
    'setProto/O': function (W, S, k, op) { return Object.setPrototypeOf(S, protoCand(W, op.p)); },
    'setProto/R': function (W, S, k, op) { return Reflect.setPrototypeOf(S, protoCand(W, op.p)); },
    'setProto/dunder': function (W, S, k, op) { return setProtoDunder(S, protoCand(W, op.p)); },
    'call/S': function (W, S, k, op) { return S(v(W, op, 0), v(W, op, 1)); },
    'call/call': function (W, S, k, op) { return S.call(W.recvA, v(W, op, 0)); },
    'call/R': function (W, S, k, op) { return Reflect.apply(S, W.recvA, [v(W, op, 0), v(W, op, 1)]); },
    'new/S': function (W, S, k, op) { return new S(v(W, op, 0)); },
    'new/R': function (W, S, k, op) { return Reflect.construct(S, [v(W, op, 0)]); },
    'new/Rnt': function (W, S, k, op) { return Reflect.construct(S, [v(W, op, 0)], W.NT); },
    'new/asNT': function (W, S, k, op) { return Reflect.construct(W.ctorF, [], S); },
    'isArray': function (W, S) { return Array.isArray(S); },
    'typeof': function (W, S) { return typeof S; },
    'instanceof/lhs': function (W, S, k, op) { return S instanceof instC(W, op.c); },
    'instanceof/rhs': function (W, S) { return W.recvA instanceof S; },
    'am/push': function (W, S, k, op) { return AP.push.call(S, v(W, op, 0), v(W, op, 1)); },
    'am/pop': function (W, S) { return AP.pop.call(S); },
    'am/shift': function (W, S) { return AP.shift.call(S); },
    'am/unshift': function (W, S, k, op) { return AP.unshift.call(S, v(W, op, 0)); },
    'am/splice': function (W, S, k, op) { return AP.splice.call(S, n(op, 0), n(op, 1), v(W, op, 0)); },
    'am/slice': function (W, S, k, op) { return AP.slice.call(S, n(op, 0), n(op, 1)); },
    'am/concat': function (W, S, k, op) { return AP.concat.call(S, [v(W, op, 0)], v(W, op, 1)); },
    'am/indexOf': function (W, S, k, op) { return AP.indexOf.call(S, v(W, op, 0)); },
    'am/lastIndexOf': function (W, S, k, op) { return AP.lastIndexOf.call(S, v(W, op, 0)); },
    'am/includes': function (W, S, k, op) { return AP.includes.call(S, v(W, op, 0)); },
    'am/join': function (W, S) { return AP.join.call(S, '-'); },
    'am/reverse': function (W, S) { return AP.reverse.call(S); },
    'am/sort': function (W, S, k, op) { return AP.sort.call(S, cmp(op.f | 0)); },
    'am/fill': function (W, S, k, op) { return AP.fill.call(S, v(W, op, 0), n(op, 0), n(op, 1) + 3); },
    'am/map': function (W, S, k, op) { return AP.map.call(S, cb(W, op.f)); },
    'am/filter': function (W, S, k, op) { return AP.filter.call(S, cb(W, op.f)); },
    'am/forEach': function (W, S, k, op) { return AP.forEach.call(S, cb(W, op.f)); },
    'am/reduce': function (W, S) { return AP.reduce.call(S, function (acc, x) { return acc + '|' + String(x); }, ''); },
    'am/find': function (W, S, k, op) { return AP.find.call(S, cb(W, op.f)); },
    'am/findIndex': function (W, S, k, op) { return AP.findIndex.call(S, cb(W, op.f)); },
    'am/every': function (W, S, k, op) { return AP.every.call(S, cb(W, op.f)); },
    'am/some': function (W, S, k, op) { return AP.some.call(S, cb(W, op.f)); },
    'am/flat': function (W, S) { return AP.flat.call(S); },
    'am/copyWithin': function (W, S, k, op) { return AP.copyWithin.call(S, n(op, 0), n(op, 1)); },
    'am/at': function (W, S, k, op) { return AP.at.call(S, n(op, 0)); },
    'am/keysIter': function (W, S) { return [...AP.keys.call(S)]; },
    'am/entriesIter': function (W, S) { return [...AP.entries.call(S)]; },
    'am/spreadArr': function (W, S) { return [...S]; },
    'am/from': function (W, S) { return Array.from(S); }
  };
  // ops whose trap log is recorded exactly (single internal method, or ownKeys prefix); everything else only counts traps
  function tlogWanted(opname) {
    var p = opname.split('/')[0];
    return p === 'define' || p === 'get' || p === 'set' || p === 'delete' || p === 'has' || p === 'hasOwn' || p === 'gopd' || p === 'pe' || p === 'isExt' ||
      p === 'getProto' || p === 'setProto' || opname === 'keys/R' || opname === 'keys/names' || opname === 'keys/symbols';
  }
  // logical cost bound: operations that walk 0..length-1 are skipped while the target's length is huge
  function lockGuard(W, op) {
    var name = op.op;
    if (name.slice(0, 3) !== 'am/' && name !== 'keys/json') return '';
    // the "length" the method will see: first holder on the raw target's chain (the catalogue's accessors return
    // non-numeric strings, i.e. length 0, and need no guard)
    var d;
    for (var o = W.T, hops = 0; o !== null && hops < 20 && d === undefined; o = Reflect.getPrototypeOf(o), hops++) d = Reflect.getOwnPropertyDescriptor(o, 'length');
    if (d !== undefined && 'value' in d && typeof d.value === 'number' && d.value > 6000) return 'length>6000';
    // goja's generic Array.prototype methods test presence by Get (no HasProperty): through a proxy every hole looks
    // present and the has trap is never consulted (reported in the inbox; known finding).  Until that is repaired the
    // length-walking methods are only issued while 0..length-1 has no hole.
    if (name.slice(0, 3) === 'am/' && !op.force && d !== undefined && 'value' in d && (d.value === null || typeof d.value !== 'object' && typeof d.value !== 'function' && typeof d.value !== 'symbol')) {
      var len = Math.min(Number(d.value), 6001);   // ToLength of a primitive (NaN => no iteration)
      for (var i = 0; i < len; i++) if (!(i in W.T)) return 'hole';
    }
    return '';
  }
  function mkJSLayer(W, target, i) {
    var H = {};
    TRAPS.forEach(function (t) {
      var keyed = KEYED[t] === 1;
      H[t] = function () {
        W.tcount[t] = (W.tcount[t] | 0) + 1;
        if (arguments[0] !== target) W.bad.push('layer ' + i + ' trap ' + t + ': first argument is not the layer target');
        if (this !== H) W.bad.push('layer ' + i + ' trap ' + t + ': this is not the handler');
        if (W.tlogOn) W.tlog.push(i + ':' + t + (keyed ? ':' + R(W, arguments[1]) : ''));
        return Reflect[t].apply(undefined, arguments);
      };
    });
    return new Proxy(target, H);
  }
  function lockStep(W, op, isB) {
    W.log.length = 0; W.tlog.length = 0;
    W.tlogOn = tlogWanted(op.op);
    var key = op.k === undefined ? undefined : LKEYS[op.k];
    var rec = {};
    rec.pre = keyFacts(W, key);
    var s0 = isB ? null : snap(W, W.T);
    var out, res, threw = false;
    try { res = LOPS[op.op](W, W.S, key, op); } catch (e) { threw = true; out = 'throw:' + ctorName(e); }
    if (isB) rec.tlog = W.tlog.join(',');
    W.tlogOn = false;
    if (!threw) out = 'ok:' + (W.unordered ? RU(W, res) : R(W, res));
    rec.out = out;
    rec.log = W.log.join('|');
    rec.dump = fullDump(W);
    rec.post = keyFacts(W, key);
    if (isB) rec.bad = W.bad.join('; ');
    else rec.insane = sane(W, s0, snap(W, W.T));
    return rec;
  }
  // rendering for targets whose key order is documented as unordered (Go maps): arrays and object parts sorted
  function RU(W, x) {
    if (Array.isArray(x) && !W.m.has(x)) { var a = []; for (var i = 0; i < x.length && i < 64; i++) a.push(R(W, x[i])); a.sort(); return '[' + a.join(',') + ']~'; }
    if (x !== null && typeof x === 'object' && !W.m.has(x)) {
      var ks = Reflect.ownKeys(x), parts = [];
      for (var j = 0; j < ks.length && j < 64; j++) parts.push(R(W, ks[j]) + ':' + R(W, x[ks[j]]));
      parts.sort(); return '{' + parts.join(',') + '}~';
    }
    return R(W, x);
  }
  // C: {kind, handlers:[...'js'|'go' per layer, outermost first], ops:[...]}; host(kind) -> Go wrapper;
  // goLayer(target, layerIndex, logFn, badFn) -> Go-handler proxy
  function lockRun(caseJSON, host, goLayer) {
    var C = JSON.parse(caseJSON);
    var A = lockWorld(C.kind, host), B = lockWorld(C.kind, host);
    var P = B.T;
    for (var i = C.handlers.length - 1; i >= 0; i--) {
      if (C.handlers[i] === 'go') {
        P = (function (i) {
          return goLayer(P, i, function (trap, key, hasKey) {
            B.tcount[trap] = (B.tcount[trap] | 0) + 1;
            if (B.tlogOn) B.tlog.push(i + ':' + trap + (hasKey ? ':' + R(B, key) : ''));
          }, function (msg) { B.bad.push(msg); });
        })(i);
      } else P = mkJSLayer(B, P, i);
      B.name(P, 'T');
    }
    B.S = P;
    A.child = A.name(Object.create(A.S), 'child'); A.child.own = 1;
    B.child = B.name(Object.create(B.S), 'child'); B.child.own = 1;
    var recs = [{ i: -1, a: { out: '', log: '', dump: fullDump(A) }, b: { out: '', log: '', dump: fullDump(B), tlog: '', bad: '' } }];
    for (var j = 0; j < C.ops.length; j++) {
      var op = C.ops[j];
      var g = lockGuard(A, op) || lockGuard(B, op);
      if (g) { recs.push({ i: j, skip: g }); continue; }
      var ra = lockStep(A, op, false), rb = lockStep(B, op, true);
      recs.push({ i: j, a: ra, b: rb });
      if (ra.out !== rb.out || ra.log !== rb.log || ra.dump !== rb.dump || rb.bad || ra.insane) break;
    }
    B.tlogOn = false;
    return JSON.stringify({ recs: recs, tcount: B.tcount, auditA: audit(A, A.T), auditB: audit(B, B.T) });
  }

  return { lockRun: lockRun, lockKeys: function () { return LKEYS.length; }, rev: rev, revOps: revOps, lat: lat, latPlain: latPlain, R: R, mkNames: mkNames, ctorName: ctorName, descFacts: descFacts };
})();
