package c11

import (
	"encoding/json"
	"fmt"

	"github.com/dop251/goja"

	"verif/harness/core"
	"verif/harness/gj"
)

// Revoked proxies: every operation throws TypeError; typeof does not throw.
type revCase struct {
	TKind      string `json:"tkind"`   // obj | fn | class | array
	Creator    string `json:"creator"` // js (Proxy.revocable) | go (Runtime.NewProxy + Proxy.Revoke)
	Handler    string `json:"handler"` // empty | full
	UsedBefore bool   `json:"usedBefore,omitempty"`
	Op         string `json:"op"`
}

func (c revCase) sig() string {
	return fmt.Sprintf("revoked target=%s creator=%s handler=%s usedBefore=%v op=%s", c.TKind, c.Creator, c.Handler, c.UsedBefore, c.Op)
}

func buildRevoked() []revCase {
	r, api := newRT()
	fn, _ := goja.AssertFunction(api.Get("revOps"))
	v, err := fn(goja.Undefined())
	if err != nil {
		panic(err)
	}
	_ = r
	var ops []string
	json.Unmarshal([]byte(v.String()), &ops)
	var out []revCase
	for _, tk := range []string{"obj", "fn", "class", "array"} {
		for _, cr := range []struct {
			creator, handler string
			used             bool
		}{{"js", "empty", false}, {"js", "full", false}, {"js", "full", true}, {"go", "empty", false}} {
			for _, op := range ops {
				out = append(out, revCase{TKind: tk, Creator: cr.creator, Handler: cr.handler, UsedBefore: cr.used, Op: op})
			}
		}
	}
	return out
}

func runRevoked(c *core.Ctx, rc revCase) core.Result {
	st := c.Stats
	st.Inc("revoked:cases")
	st.SetAdd("revoked_ops", rc.Op)
	st.SetAdd("revoked_targets_x_creators", rc.TKind+"/"+rc.Creator+"/"+rc.Handler)
	r, api := newRT()
	fn, _ := goja.AssertFunction(api.Get("rev"))
	b, _ := json.Marshal(rc)
	mk := func(call goja.FunctionCall) goja.Value {
		p := r.NewProxy(call.Argument(0).ToObject(r), &goja.ProxyTrapConfig{})
		v := r.ToValue(p)
		p.Revoke()
		p.Revoke()
		return v
	}
	o := gj.Call(func() (goja.Value, error) { return fn(goja.Undefined(), r.ToValue(string(b)), r.ToValue(mk)) })
	res := core.Result{Verdict: core.Held, NonTrivial: true, Key: rc.sig()}
	fail := func(mon, class, detail string) core.Result {
		return core.Result{Verdict: core.Violated, NonTrivial: true, Key: rc.sig(), Monitor: mon, Detail: rc.sig() + "\n" + detail,
			Signature: mon + " | " + rc.sig() + " | " + class, Case: caseRec{Part: "revoked", Revoked: &rc}}
	}
	switch {
	case o.Panic != nil:
		return fail("go-panic-escaped", "panic", fmt.Sprintf("Go panic escaped: %v\n%s", o.Panic, core.Trunc(o.PanicStack, 2000)))
	case o.Assertion != nil:
		return fail("verif-assertion", o.Assertion.Hook, o.Assertion.Error())
	case o.Fuel:
		return core.Result{Verdict: core.Inconclusive, Monitor: "fuel"}
	case o.Err != nil:
		return fail("harness-error", "prelude", "revoked driver threw: "+o.Err.Error())
	}
	got := o.Val.String()
	want := teOut
	if rc.Op == "typeof" {
		want = `ok:s:"object"`
		if rc.TKind == "fn" || rc.TKind == "class" {
			want = `ok:s:"function"`
		}
	}
	st.Inc("revoked:outcome:" + got)
	if got != want {
		return fail("revoked-proxy", "exp="+want+" got="+got, fmt.Sprintf("expected %s, observed %s", want, got))
	}
	if why := gj.IdleProblem(r, false); why != "" {
		return fail("vm-not-idle", "idle:"+why, "VM registers not idle: "+why)
	}
	return res
}
