package c11

import (
	"encoding/json"
	"os"
	"fmt"
	"sort"
	"testing"

	"verif/harness/core"
)

func TestDevLattice(t *testing.T) {
	setup()
	fmt.Println("lattice size", len(lattice), "revoked", len(revoked))
	groups := map[string]int{}
	example := map[string]string{}
	st := core.NewStats()
	type res struct {
		i   int
		v   *latViolation
		inc string
	}
	ch := make(chan res, 100)
	const W = 6
	for w := 0; w < W; w++ {
		go func(w int) {
			rh := &rtHolder{}
			for i := w; i < len(lattice); i += W {
				cs := lattice[i]
				v, inc, _ := execLat(&cs, nil, rh)
				ch <- res{i, v, inc}
			}
		}(w)
	}
	for n := 0; n < len(lattice); n++ {
		rr := <-ch
		cs, v, inc := lattice[rr.i], rr.v, rr.inc
		if inc != "" {
			groups["INC "+inc]++
			continue
		}
		if v != nil {
			h := "js"
			if cs.Spec.Go {
				h = "go"
			}
			k := fmt.Sprintf("%s trap=%s lie=%s h=%s %s", v.monitor, cs.Spec.Trap, cs.Lie, h, v.class)
			groups[k]++
			if _, ok := example[k]; !ok {
				example[k] = cs.sig() + "\n      " + v.detail
			}
		}
	}
	var ks []string
	for k := range groups {
		ks = append(ks, k)
	}
	sort.Strings(ks)
	for _, k := range ks {
		fmt.Printf("%5d %s\n      e.g. %s\n", groups[k], k, example[k])
	}
	fmt.Println(st.Counters)
}

func TestDevLock(t *testing.T) {
	setup()
	groups := map[string]int{}
	example := map[string]string{}
	N := 2500
	type res struct {
		i  int
		r  core.Result
		st *core.Stats
	}
	ch := make(chan res, 100)
	const W = 6
	seed := uint64(1)
	if s := os.Getenv("C11_SEED"); s != "" {
		fmt.Sscan(s, &seed)
	}
	for w := 0; w < W; w++ {
		go func(w int) {
			for i := w; i < N; i += W {
				idx := len(lattice) + len(revoked) + i
				c := &core.Ctx{Property: "C11", Tier: "quick", Seed: seed, Index: idx, Rng: core.CaseRng(seed, "C11", idx), Stats: core.NewStats()}
				ch <- res{i, run(c), c.Stats}
			}
		}(w)
	}
	incWhy := map[string]int{}
	nt := 0
	for n := 0; n < N; n++ {
		rr := <-ch
		if rr.r.NonTrivial {
			nt++
		}
		for k := range rr.st.Sets["lock_target_inconsistencies"] {
			incWhy[k]++
		}
		if rr.r.Verdict == core.Inconclusive {
			groups["INC "+rr.r.Monitor]++
		}
		if rr.r.Verdict == core.Violated {
			k := rr.r.Signature
			groups[k]++
			if _, ok := example[k]; !ok {
				example[k] = fmt.Sprintf("idx %d: %s", rr.i, rr.r.Detail)
			}
		}
	}
	var ks []string
	for k := range groups {
		ks = append(ks, k)
	}
	sort.Slice(ks, func(i, j int) bool { return groups[ks[i]] > groups[ks[j]] })
	for _, k := range ks {
		fmt.Printf("%5d %s\n      e.g. %s\n", groups[k], k, example[k])
	}
	fmt.Println("nontrivial", nt, "distinct sigs", len(groups))
	var ws []string
	for k := range incWhy {
		ws = append(ws, k)
	}
	sort.Strings(ws)
	for _, k := range ws {
		fmt.Printf("INCWHY %d %s\n", incWhy[k], k)
	}
}

func TestDevCase(t *testing.T) {
	setup()
	var lc lockCase
	if err := json.Unmarshal([]byte(os.Getenv("C11_CASE")), &lc); err != nil {
		t.Skip("no case")
	}
	res := execLock(&lc, nil)
	if res.out != nil {
		for _, r := range res.out.Recs {
			b, _ := json.MarshalIndent(r, "", " ")
			fmt.Println(string(b))
		}
	}
	if res.viol != nil {
		fmt.Println("VIOL", res.viol.monitor, res.viol.class, res.viol.detail)
	}
}
