package c11

import (
	"fmt"
	"sort"
	"testing"

	"verif/harness/core"
)

func TestDevLattice(t *testing.T) {
	setup()
	fmt.Println("lattice size", len(lattice), "revoked", len(revoked))
	groups := map[string]int{}
	example := map[string]string{}
	st := core.NewStats()
	type res struct {
		i   int
		v   *latViolation
		inc string
	}
	ch := make(chan res, 100)
	const W = 6
	for w := 0; w < W; w++ {
		go func(w int) {
			rh := &rtHolder{}
			for i := w; i < len(lattice); i += W {
				cs := lattice[i]
				v, inc, _ := execLat(&cs, nil, rh)
				ch <- res{i, v, inc}
			}
		}(w)
	}
	for n := 0; n < len(lattice); n++ {
		rr := <-ch
		cs, v, inc := lattice[rr.i], rr.v, rr.inc
		if inc != "" {
			groups["INC "+inc]++
			continue
		}
		if v != nil {
			h := "js"
			if cs.Spec.Go {
				h = "go"
			}
			k := fmt.Sprintf("%s trap=%s lie=%s h=%s %s", v.monitor, cs.Spec.Trap, cs.Lie, h, v.class)
			groups[k]++
			if _, ok := example[k]; !ok {
				example[k] = cs.sig() + "\n      " + v.detail
			}
		}
	}
	var ks []string
	for k := range groups {
		ks = append(ks, k)
	}
	sort.Strings(ks)
	for _, k := range ks {
		fmt.Printf("%5d %s\n      e.g. %s\n", groups[k], k, example[k])
	}
	fmt.Println(st.Counters)
}
