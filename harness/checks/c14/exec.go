package c14

import (
	"errors"
	"fmt"
	"runtime"
	"strings"

	"github.com/dop251/goja"

	"verif/harness/c14ref"
	"verif/harness/gj"
)

const fuelPerChain = 400000

// ---- host-side error types used as payloads ----

type customErr struct{ code int }

func (e *customErr) Error() string {
	if e == nil {
		return "customErr(nil)"
	}
	return fmt.Sprintf("customErr %d", e.code)
}

type customValErr struct{ code int }

func (e customValErr) Error() string { return fmt.Sprintf("customValErr %d", e.code) }

// customWrap is a host error type with an Unwrap method.
type customWrap struct {
	frame int
	inner error
}

func (e *customWrap) Error() string { return fmt.Sprintf("customWrap %d", e.frame) }
func (e *customWrap) Unwrap() error { return e.inner }

type foreignStruct struct{ n int }

type hostObj struct {
	f func() (interface{}, error)
}

func (h *hostObj) Call() (interface{}, error) { return h.f() }

type dynObj struct{ get func(string) goja.Value }

func (d *dynObj) Get(key string) goja.Value         { return d.get(key) }
func (d *dynObj) Set(key string, v goja.Value) bool { return false }
func (d *dynObj) Has(key string) bool               { return true }
func (d *dynObj) Delete(key string) bool            { return false }
func (d *dynObj) Keys() []string                    { return nil }

// ---- script source with known line numbers ----

type source struct{ lines []string }

func (s *source) add(l string) int { s.lines = append(s.lines, l); return len(s.lines) }

func jsExpr(kind string, id int) string {
	switch kind {
	case "num":
		return fmt.Sprint(7000 + id)
	case "negzero":
		return "-0"
	case "nan":
		return "NaN"
	case "float":
		return fmt.Sprintf("%d.5", id)
	case "str":
		return fmt.Sprintf(`"s%d"`, id)
	case "emptystr":
		return `""`
	case "sym":
		return fmt.Sprintf(`Symbol("y%d")`, id)
	case "null":
		return "null"
	case "undef":
		return "void 0"
	case "bool":
		return "false"
	case "bigint":
		return fmt.Sprintf("%dn", 90+id)
	case "obj":
		return fmt.Sprintf("{k: %d}", id)
	case "arr":
		return fmt.Sprintf("[%d]", id)
	case "fn":
		return "function() {}"
	case "error":
		return `new Error("e")`
	case "typeerror":
		return `new TypeError("t")`
	case "rangeerror":
		return `new RangeError("r")`
	case "suberror":
		return `new MyErr("m")`
	case "subtype":
		return `new MyTypeErr("m")`
	case "fakeerror":
		return "Object.create(Error.prototype)"
	case "proxyobj":
		return "new Proxy({}, {})"
	case "hosterr":
		return "hostErr"
	case "valobj":
		return "{value: hostErr}"
	}
	panic("c14: unknown payload kind " + kind)
}

// buildSource renders the chain's script frames. Every statement that can be the top of an exception stack is on its own line.
func buildSource(c *c14ref.Chain) (string, *c14ref.Lines, int) {
	n := len(c.Frames)
	ln := &c14ref.Lines{Call: make([]int, n), CatchThrow: make([]int, n), FinThrow: make([]int, n), Leaf: make([]int, n)}
	s := &source{}
	s.add(`class MyErr extends Error {}`)
	s.add(`class MyTypeErr extends TypeError {}`)
	s.add(`function rec() { rec(); }`)
	s.add(`function mkIter(i, f) { return {[Symbol.iterator]: function() { var n = 0; return {next: function() { if (n++ > 0) { return {done: true}; } return {value: f ? f() : 0, done: false}; }, return: function() { log("ir", i); return {}; }}; }}; }`)
	s.add(`function mkIterR(i, f, val) { return {[Symbol.iterator]: function() { return {next: function() { return {value: val, done: false}; }, return: function() { log("ir", i); f(); return {}; }}; }}; }`)
	s.add(`function* gen1(f) { yield f(); }`)
	s.add(`function* gen0(f) { f(); }`)
	s.add(`function mkIterY(f) { var it = {next: function() { f(); return {done: true, value: 0}; }}; it[Symbol.iterator] = function() { return this; }; return it; }`)
	s.add(`function mkIterTR(f) { var it = {next: function() { return {done: false, value: 0}; }, throw: function(x) { f(); return {done: true, value: 0}; }, return: function(x) { f(); return {done: true, value: 0}; }}; it[Symbol.iterator] = function() { return this; }; return it; }`)
	s.add(`function* nestg(d, it) { if (d > 0) { yield* nestg(d - 1, it); } else { yield* it; } }`)
	s.add(`function fu() {`)
	follow := s.add(`  throw 77;`)
	s.add(`}`)
	for i := range c.Frames {
		f := &c.Frames[i]
		if !f.JS {
			continue
		}
		yv := f.Leaf == nil && c.Frames[i+1].JS && c14ref.IsYieldVia(f.Via)
		if yv {
			s.add(fmt.Sprintf("function* f%dg() {", i)) // the frame's body is the delegating generator
		} else {
			s.add(fmt.Sprintf("function f%d() {", i))
		}
		ind := "  "
		if f.H != "" {
			s.add("  try {")
			ind = "    "
		}
		if l := f.Leaf; l != nil {
			switch l.Kind {
			case "throw":
				ln.Leaf[i] = s.add(ind + fmt.Sprintf("throw reg(0, %s);", jsExpr(l.Expr, 0)))
			case "engine":
				stmt := map[string]string{"nullprop": "null.x;", "undefvar": "undefinedVariable_q;", "notfn": "(void 0)();"}[l.Expr]
				ln.Leaf[i] = s.add(ind + stmt)
			case "interrupt":
				ln.Leaf[i] = s.add(ind + "intr();")
				s.add(ind + fmt.Sprintf(`log("x", %d);`, i))
			case "overflow":
				ln.Leaf[i] = s.add(ind + "rec();")
			}
		} else {
			nx := i + 1
			var stmt string
			if g := &c.Frames[nx]; !g.JS {
				switch g.E {
				case "method":
					stmt = fmt.Sprintf("h%d.Call();", nx)
				case "ctor", "ctorr":
					stmt = fmt.Sprintf("new n%d();", nx)
				case "pxget":
					stmt = fmt.Sprintf("px%d.p;", nx)
				case "dynget":
					stmt = fmt.Sprintf("dy%d.p;", nx)
				case "getter":
					stmt = fmt.Sprintf("ga%d.p;", nx)
				default:
					stmt = fmt.Sprintf("n%d();", nx)
				}
			} else {
				switch f.Via {
				case "call":
					stmt = fmt.Sprintf("f%d();", nx)
				case "new":
					stmt = fmt.Sprintf("new f%d();", nx)
				case "apply":
					stmt = fmt.Sprintf("Reflect.apply(f%d, undefined, []);", nx)
				case "bind":
					stmt = fmt.Sprintf("f%d.bind(null)();", nx)
				case "map":
					stmt = fmt.Sprintf("[0].map(f%d);", nx)
				case "getter":
					stmt = fmt.Sprintf("({get p() { return f%d(); }}).p;", nx)
				case "jsproxy":
					stmt = fmt.Sprintf("new Proxy({}, {get: function() { return f%d(); }}).p;", nx)
				case "forofnext":
					stmt = fmt.Sprintf("for (var v of mkIter(%d, f%d)) { v; }", i, nx)
				case "forofbody":
					stmt = fmt.Sprintf("for (var v of mkIter(%d, null)) { f%d(); }", i, nx)
				case "destruct":
					stmt = fmt.Sprintf("var [d] = mkIter(%d, f%d);", i, nx)
				case "spread":
					stmt = fmt.Sprintf("[...mkIter(%d, f%d)];", i, nx)
				case "ygen":
					stmt = fmt.Sprintf("yield* gen0(f%d);", nx)
				case "ynext":
					stmt = fmt.Sprintf("yield* mkIterY(f%d);", nx)
				case "ynest":
					if (i+n)%2 == 0 {
						stmt = fmt.Sprintf("yield* nestg(%d, mkIterY(f%d));", 1+i%2, nx)
					} else {
						stmt = fmt.Sprintf("yield* nestg(%d, gen0(f%d));", 1+i%2, nx)
					}
				case "ythrow", "yreturn":
					stmt = fmt.Sprintf("yield* mkIterTR(f%d);", nx)
				case "frommap":
					stmt = fmt.Sprintf("Array.from(mkIter(%d, null), f%d);", i, nx)
				case "closeforof":
					stmt = fmt.Sprintf("for (var v of mkIterR(%d, f%d, 0)) { throw reg(%d, %d); }", i, nx, 100+i, 7100+i)
				case "closemap":
					stmt = fmt.Sprintf("new Map(mkIterR(%d, f%d, 0));", i, nx)
				case "closefrom":
					stmt = fmt.Sprintf("Array.from(mkIterR(%d, f%d, 0), function() { throw reg(%d, %d); });", i, nx, 100+i, 7100+i)
				case "closedestruct":
					stmt = fmt.Sprintf("var [{dx}] = mkIterR(%d, f%d, null);", i, nx)
				case "gen":
					stmt = fmt.Sprintf("gen1(f%d).next();", nx)
				case "eval":
					stmt = fmt.Sprintf(`eval("f%d()");`, nx)
				case "promise":
					stmt = fmt.Sprintf(`Promise.resolve(0).then(function() { return f%d(); }).then(function(v) { log("ful", %d); }, function(e) { log("rej", %d, e); });`, nx, i, i)
				}
			}
			ln.Call[i] = s.add(ind + stmt)
			s.add(ind + fmt.Sprintf(`log("a", %d);`, i))
		}
		if c14ref.HasCatch(f.H) {
			s.add("  } catch (e) {")
			s.add(fmt.Sprintf(`    log("c", %d, e);`, i))
			switch {
			case strings.HasPrefix(f.H, "rethrow"):
				ln.CatchThrow[i] = s.add("    throw e;")
			case strings.HasPrefix(f.H, "swallow"):
				s.add(fmt.Sprintf("    return %d;", 1000+i))
			default:
				ln.CatchThrow[i] = s.add(fmt.Sprintf("    throw reg(%d, %s);", i+1, jsExpr(f.Rep, i+1)))
			}
		}
		if c14ref.HasFinally(f.H) {
			s.add("  } finally {")
			s.add(fmt.Sprintf(`    log("f", %d);`, i))
			switch f.H {
			case "finret":
				s.add(fmt.Sprintf("    return %d;", 2000+i))
			case "finreplace":
				ln.FinThrow[i] = s.add(fmt.Sprintf("    throw reg(%d, %s);", i+1, jsExpr(f.Rep, i+1)))
			}
		}
		if f.H != "" {
			s.add("  }")
		}
		s.add(fmt.Sprintf("  return %d;", 3000+i))
		s.add("}")
		if yv {
			s.add(fmt.Sprintf("function f%d() {", i))
			switch {
			case f.Via == "ythrow":
				s.add(fmt.Sprintf("  var g = f%dg(); g.next(); g.throw(0);", i))
			case f.Via == "yreturn":
				s.add(fmt.Sprintf("  var g = f%dg(); g.next(); g.return(0);", i))
			default:
				s.add([]string{
					fmt.Sprintf("  f%dg().next();", i),
					fmt.Sprintf("  for (var v of f%dg()) { v; }", i),
					fmt.Sprintf("  [...f%dg()];", i),
					fmt.Sprintf("  Array.from(f%dg());", i),
				}[(i+n)%4])
			}
			s.add(fmt.Sprintf("  return %d;", 3000+i))
			s.add("}")
		}
	}
	// objects through which natives (and the host) reach script frames
	need := func(j int, x string) {
		switch x {
		case "get", "tryget":
			s.add(fmt.Sprintf(`var acc%d = Object.defineProperty({}, "p", {get: f%d, configurable: true});`, j, j))
		case "forofnext", "tryforofnext":
			s.add(fmt.Sprintf("var itN%d = mkIter(%d, f%d);", j, j-1, j))
		case "forofstep", "tryforofstep":
			s.add(fmt.Sprintf("var itS%d = mkIter(%d, null);", j, j-1))
		}
	}
	need(0, c.Driver)
	for i := range c.Frames {
		if f := &c.Frames[i]; !f.JS && f.X != "" {
			need(i+1, f.X)
		}
	}
	return strings.Join(s.lines, "\n") + "\n", ln, follow
}

// ---- execution ----

type obs struct {
	K   string
	F   int
	V   goja.Value
	Err error
}

type exec struct {
	c       *c14ref.Chain
	r       *goja.Runtime
	events  []obs
	vals    map[int]goja.Value
	errs    map[string]error
	custom  *customErr
	token   *foreignStruct // interrupt value
	foreign any
	bug     string // harness-internal inconsistency (never a verdict about goja)
}

func (x *exec) reg(id int, v goja.Value) goja.Value {
	x.vals[id] = v
	return v
}

func (x *exec) goValue(kind string, id int, errKey string) goja.Value {
	r := x.r
	switch kind {
	case "num":
		return r.ToValue(8000 + id)
	case "str":
		return r.ToValue(fmt.Sprintf("g%d", id))
	case "sym":
		return goja.NewSymbol(fmt.Sprintf("gy%d", id))
	case "null":
		return goja.Null()
	case "undef":
		return goja.Undefined()
	case "bool":
		return r.ToValue(true)
	case "obj":
		return r.NewObject()
	case "typeerror":
		return r.NewTypeError("t%d", id)
	case "goerror":
		e := fmt.Errorf("goerr %s", errKey)
		x.errs[errKey] = e
		return r.NewGoError(e)
	}
	panic("c14: unknown Go payload kind " + kind)
}

func isUncatchable(err error) (intr, ovf bool) {
	var ie *goja.InterruptedError
	var se *goja.StackOverflowError
	return errors.As(err, &ie), errors.As(err, &se)
}

func (x *exec) fn(j int) goja.Value { return x.r.Get(fmt.Sprintf("f%d", j)) }

// callNext calls script frame j through convention conv. Exceptions come back as an error where the convention
// returns them and pass as Go panics where it does not.
func (x *exec) callNext(j int, conv string) error {
	r := x.r
	switch conv {
	case "run":
		_, err := r.RunString(fmt.Sprintf("f%d()", j))
		return err
	case "callable":
		fn, ok := goja.AssertFunction(x.fn(j))
		if !ok {
			x.bug = "AssertFunction failed"
			return nil
		}
		_, err := fn(goja.Undefined())
		return err
	case "construct":
		ct, ok := goja.AssertConstructor(x.fn(j))
		if !ok {
			x.bug = "AssertConstructor failed"
			return nil
		}
		_, err := ct(nil)
		return err
	case "rtnew":
		_, err := r.New(x.fn(j))
		return err
	case "expfn", "tryexpfn":
		var g func() interface{}
		if err := r.ExportTo(x.fn(j), &g); err != nil {
			x.bug = "ExportTo: " + err.Error()
			return nil
		}
		if conv == "expfn" {
			g()
			return nil
		}
		if ex := r.Try(func() { g() }); ex != nil {
			return ex
		}
		return nil
	case "expfnerr":
		var g func() (interface{}, error)
		if err := r.ExportTo(x.fn(j), &g); err != nil {
			x.bug = "ExportTo: " + err.Error()
			return nil
		}
		_, err := g()
		return err
	case "get", "tryget":
		o := r.Get(fmt.Sprintf("acc%d", j)).ToObject(r)
		if conv == "get" {
			o.Get("p")
			return nil
		}
		if ex := r.Try(func() { o.Get("p") }); ex != nil {
			return ex
		}
		return nil
	case "forofnext", "tryforofnext":
		it := r.Get(fmt.Sprintf("itN%d", j))
		step := func(goja.Value) bool { return true }
		if conv == "forofnext" {
			r.ForOf(it, step)
			return nil
		}
		if ex := r.Try(func() { r.ForOf(it, step) }); ex != nil {
			return ex
		}
		return nil
	case "forofstep", "tryforofstep":
		it := r.Get(fmt.Sprintf("itS%d", j))
		fn, _ := goja.AssertFunction(x.fn(j))
		step := func(goja.Value) bool {
			if _, err := fn(goja.Undefined()); err != nil {
				panic(err) // the step function is a native: it propagates what the Callable returned
			}
			return true
		}
		if conv == "forofstep" {
			r.ForOf(it, step)
			return nil
		}
		if ex := r.Try(func() { r.ForOf(it, step) }); ex != nil {
			return ex
		}
		return nil
	}
	x.bug = "unknown convention " + conv
	return nil
}

var marker = 4000

// goBody is the body of native frame i, independent of the entry convention.
func (x *exec) goBody(i int) (goja.Value, error) {
	f := &x.c.Frames[i]
	r := x.r
	ok := r.ToValue(marker + i)
	retErr := c14ref.CanReturnErr(f.E)
	if f.Leaf != nil {
		return x.goLeaf(i)
	}
	err := x.callNext(i+1, f.X)
	if err == nil {
		return ok, nil
	}
	if intr, ovf := isUncatchable(err); intr || ovf {
		if ovf && f.B == "swallowall" {
			x.events = append(x.events, obs{K: "g", F: i, Err: err})
			return ok, nil
		}
		if ovf && (f.B == "replaceval" || f.B == "replaceerr") {
			x.events = append(x.events, obs{K: "g", F: i, Err: err})
			if f.B == "replaceval" {
				panic(x.reg(i+1, x.goValue(f.Rep, i+1, fmt.Sprintf("r%d", i))))
			}
			e := fmt.Errorf("replacement %d", i)
			x.errs[fmt.Sprintf("r%d", i)] = e
			return nil, e
		}
		if retErr && c14ref.IsWrap(f.B) {
			return nil, x.wrap(i, f.B, err) // still uncatchable: the whole Unwrap chain counts
		}
		if retErr && c14ref.ReturnsAnError(f.B) {
			return nil, err // "uncatchable errors ... should be propagated upwards"
		}
		panic(err)
	}
	x.events = append(x.events, obs{K: "g", F: i, Err: err})
	ex, isEx := err.(*goja.Exception)
	if isEx {
		x.errs[fmt.Sprintf("ex%d", i)] = ex
	}
	switch f.B {
	case "swallow", "swallowall":
		return ok, nil
	case "rethrow", "rethrowval":
		if !isEx {
			panic(x.reg(i+1, r.NewGoError(err)))
		}
		if f.B == "rethrowval" {
			panic(ex.Value())
		}
		panic(ex)
	case "reterr":
		return nil, err
	case "wraperr", "joinerr", "customwrap":
		return nil, x.wrap(i, f.B, err)
	case "newgoerr":
		panic(x.reg(i+1, r.NewGoError(err)))
	case "replaceval":
		panic(x.reg(i+1, x.goValue(f.Rep, i+1, fmt.Sprintf("r%d", i))))
	case "replaceerr":
		e := fmt.Errorf("replacement %d", i)
		x.errs[fmt.Sprintf("r%d", i)] = e
		return nil, e
	}
	x.bug = "unknown behaviour " + f.B
	return ok, nil
}

// wrap returns err inside another error, the way hosts add context, and records the wrapper under the model's key.
func (x *exec) wrap(i int, how string, err error) error {
	switch how {
	case "wraperr":
		w := fmt.Errorf("w%d: %w", i, err)
		x.errs[fmt.Sprintf("w%d", i)] = w
		return w
	case "joinerr":
		extra := fmt.Errorf("joined %d", i)
		j := errors.Join(err, extra)
		x.errs[fmt.Sprintf("jx%d", i)], x.errs[fmt.Sprintf("j%d", i)] = extra, j
		return j
	}
	c := &customWrap{frame: i, inner: err}
	x.errs[fmt.Sprintf("cw%d", i)] = c
	return c
}

func (x *exec) goLeaf(i int) (goja.Value, error) {
	f := &x.c.Frames[i]
	r := x.r
	l := f.Leaf
	switch l.Kind {
	case "reterr":
		var e error
		switch l.Expr {
		case "new":
			e = errors.New("leaf error")
		case "wrap":
			s1 := errors.New("sentinel 1")
			x.errs["s1"] = s1
			e = fmt.Errorf("ctx: %w", s1)
		case "join":
			s1, s2 := errors.New("sentinel 1"), errors.New("sentinel 2")
			x.errs["s1"], x.errs["s2"] = s1, s2
			e = errors.Join(s1, s2)
		case "custom":
			x.custom = &customErr{code: 7}
			e = x.custom
		case "customval":
			e = customValErr{code: 9}
		case "typednil":
			var p *customErr
			e = p
		case "exception":
			ex := r.Try(func() { panic(x.reg(0, r.ToValue("exc"))) })
			if ex == nil {
				x.bug = "Try returned nil for panic(Value)"
				return nil, nil
			}
			return nil, ex
		}
		x.errs["leaf"] = e
		return nil, e
	case "panic":
		if l.Expr == "exception" {
			ex := r.Try(func() { panic(x.reg(0, r.ToValue("exc"))) })
			if ex == nil {
				x.bug = "Try returned nil for panic(Value)"
				return nil, nil
			}
			panic(ex)
		}
		panic(x.reg(0, x.goValue(l.Expr, 0, "leaf")))
	case "interrupt":
		r.Interrupt(x.token)
		return r.ToValue(marker + i), nil
	case "overflow":
		fn, _ := goja.AssertFunction(r.Get("rec"))
		_, err := fn(goja.Undefined())
		if err == nil {
			x.bug = "rec() returned normally"
			return nil, nil
		}
		if _, ovf := isUncatchable(err); !ovf {
			panic(err) // whatever it is, pass it on; the outcome monitor will see it
		}
		switch f.B {
		case "swallowall":
			x.events = append(x.events, obs{K: "g", F: i, Err: err})
			return r.ToValue(marker + i), nil
		case "reterr":
			return nil, err
		case "wraperr", "joinerr", "customwrap":
			return nil, x.wrap(i, f.B, err)
		}
		panic(err)
	case "foreign":
		switch l.Expr {
		case "err":
			x.foreign = fmt.Errorf("foreign error")
		case "int":
			x.foreign = 42
		case "str":
			x.foreign = "foreign string"
		case "struct":
			x.foreign = &foreignStruct{n: 1}
		case "runtime":
			x.foreign = "runtime"
			var m map[string]int
			m["x"] = 1 // runtime.Error
		}
		panic(x.foreign)
	}
	x.bug = "unknown leaf " + l.Kind
	return nil, nil
}

// goRun is goBody for entry conventions without an error result.
func (x *exec) goRun(i int) goja.Value {
	v, err := x.goBody(i)
	if err != nil {
		x.bug = "native without error result was asked to return an error"
		panic(err)
	}
	return v
}

func (x *exec) install() {
	r := x.r
	r.Set("log", func(call goja.FunctionCall) goja.Value {
		o := obs{K: call.Argument(0).String(), F: int(call.Argument(1).ToInteger())}
		if len(call.Arguments) > 2 {
			o.V = call.Arguments[2]
		}
		x.events = append(x.events, o)
		return goja.Undefined()
	})
	r.Set("reg", func(call goja.FunctionCall) goja.Value {
		return x.reg(int(call.Argument(0).ToInteger()), call.Argument(1))
	})
	r.Set("intr", func(call goja.FunctionCall) goja.Value {
		r.Interrupt(x.token)
		return goja.Undefined()
	})
	r.Set("hostErr", errors.New("host error value"))
	for i := range x.c.Frames {
		f := &x.c.Frames[i]
		if f.JS {
			continue
		}
		i := i
		name := fmt.Sprintf("n%d", i)
		switch f.E {
		case "fc":
			r.Set(name, func(goja.FunctionCall) goja.Value { return x.goRun(i) })
		case "fcr":
			r.Set(name, func(_ goja.FunctionCall, rt *goja.Runtime) goja.Value {
				if rt != r {
					x.bug = "fcr: wrong runtime"
				}
				return x.goRun(i)
			})
		case "refl":
			r.Set(name, func() interface{} { return x.goRun(i) })
		case "reflerr":
			r.Set(name, func() (interface{}, error) { v, err := x.goBody(i); return v, err })
		case "reflerr1":
			r.Set(name, func() error { _, err := x.goBody(i); return err })
		case "method":
			r.Set(fmt.Sprintf("h%d", i), &hostObj{f: func() (interface{}, error) { v, err := x.goBody(i); return v, err }})
		case "ctor":
			r.Set(name, func(goja.ConstructorCall) *goja.Object { x.goRun(i); return nil })
		case "ctorr":
			r.Set(name, func(_ goja.ConstructorCall, rt *goja.Runtime) *goja.Object { x.goRun(i); return nil })
		case "pxget":
			px := r.NewProxy(r.NewObject(), &goja.ProxyTrapConfig{Get: func(*goja.Object, string, goja.Value) goja.Value { return x.goRun(i) }})
			r.Set(fmt.Sprintf("px%d", i), px)
		case "dynget":
			r.Set(fmt.Sprintf("dy%d", i), r.NewDynamicObject(&dynObj{get: func(string) goja.Value { return x.goRun(i) }}))
		case "getter":
			o := r.NewObject()
			o.DefineAccessorProperty("p", r.ToValue(func(goja.FunctionCall) goja.Value { return x.goRun(i) }), nil, goja.FLAG_TRUE, goja.FLAG_TRUE)
			r.Set(fmt.Sprintf("ga%d", i), o)
		}
	}
}

// result of executing one chain
type verdict struct {
	monitor string // "" = all laws held
	detail  string
	fuel    bool
	bug     string
	laws    int
	outKind string
	events  int
	steps   int64
}

func same(ids *gj.Ids, a, b goja.Value) bool {
	if a == nil || b == nil {
		return a == nil && b == nil
	}
	ao, aok := a.(*goja.Object)
	bo, bok := b.(*goja.Object)
	if aok || bok {
		return aok && bok && ao == bo
	}
	as, aok := a.(*goja.Symbol)
	bs, bok := b.(*goja.Symbol)
	if aok || bok {
		return aok && bok && as == bs
	}
	return ids.Render(a) == ids.Render(b)
}

func describe(ids *gj.Ids, v goja.Value) string {
	if v == nil {
		return "<none>"
	}
	return ids.Render(v)
}

// runChain builds, executes and judges one chain on a fresh runtime.
func runChain(c *c14ref.Chain, verbose bool) (vd verdict) {
	src, ln, followLine := buildSource(c)
	pred := c14ref.Predict(c, ln)
	r := gj.NewRuntime()
	r.SetMaxCallStackSize(120)
	goja.VerifSetFuel(r, fuelPerChain)
	x := &exec{c: c, r: r, vals: map[int]goja.Value{}, errs: map[string]error{}, token: &foreignStruct{n: 99}}
	ids := gj.NewIds()
	fail := func(mon, format string, a ...any) verdict {
		vd.monitor, vd.detail = mon, fmt.Sprintf(format, a...)
		return vd
	}
	x.install()
	if verbose {
		fmt.Printf("--- chain ---\n%s\n--- script ---\n", c)
		for i, l := range strings.Split(src, "\n") {
			fmt.Printf("%3d  %s\n", i+1, l)
		}
	}
	setup := gj.Call(func() (goja.Value, error) { return r.RunString(src) })
	if setup.Err != nil || setup.Panic != nil || setup.Fuel || setup.Assertion != nil {
		vd.bug = fmt.Sprintf("setup script failed: err=%v panic=%v", setup.Err, setup.Panic)
		return
	}
	o := gj.Call(func() (goja.Value, error) { return nil, x.callNext(0, c.Driver) })
	vd.steps = goja.VerifSteps(r)
	vd.events = len(x.events)
	if verbose {
		fmt.Printf("--- observed ---\nerr=%T %v\npanic=%T %v\n", o.Err, o.Err, o.Panic, o.Panic)
		for _, e := range x.events {
			fmt.Printf("  %s %d val=%s err=%T\n", e.K, e.F, describe(ids, e.V), e.Err)
		}
		fmt.Printf("--- predicted ---\n%+v\n", pred.Out)
		for _, e := range pred.Events {
			fmt.Printf("  %+v\n", e)
		}
	}
	if x.bug != "" {
		vd.bug = x.bug
		return
	}
	if o.Fuel {
		vd.fuel = true
		return
	}
	if o.Assertion != nil {
		return fail("verif-assertion", "%v", o.Assertion)
	}
	out := pred.Out
	vd.outKind = out.Kind
	if out.Panic {
		vd.outKind += "-panic"
	}

	// payload matching (identity); lazy payloads are bound at their first observation
	match := func(id int, v goja.Value) string {
		p := pred.Payloads[id]
		if p == nil {
			return fmt.Sprintf("model has no payload %d", id)
		}
		if act, ok := x.vals[id]; ok {
			if !same(ids, act, v) {
				return fmt.Sprintf("expected payload #%d (%s) = %s, observed %s", id, p.Kind, describe(ids, act), describe(ids, v))
			}
			return ""
		}
		if !p.Lazy {
			return fmt.Sprintf("payload #%d (%s) was never created, observed %s", id, p.Kind, describe(ids, v))
		}
		obj, ok := v.(*goja.Object)
		if !ok {
			return fmt.Sprintf("expected a %s object for payload #%d, observed %s", p.Ctor, id, describe(ids, v))
		}
		if name := gj.ErrorCtorName(r, obj); name != p.Ctor {
			return fmt.Sprintf("expected payload #%d to be a %s, observed constructor %q", id, p.Ctor, name)
		}
		x.vals[id] = v
		return ""
	}
	// the Go-error laws on an *Exception carrying payload p
	goLaws := func(p *c14ref.Payload, ex *goja.Exception) string {
		vd.laws++
		un := errors.Unwrap(ex)
		if !p.GoErr {
			if un != nil {
				return fmt.Sprintf("errors.Unwrap on an exception that carries no GoError gave %T", un)
			}
			return ""
		}
		if p.TypedNil {
			if un != nil && un != error((*customErr)(nil)) {
				return fmt.Sprintf("errors.Unwrap for a typed-nil error gave %T", un)
			}
			return ""
		}
		want := x.errs[p.ErrKey]
		if want == nil {
			return "harness: no Go error recorded under " + p.ErrKey
		}
		if un != want {
			return fmt.Sprintf("errors.Unwrap(exception) = %T(%p-ish %v), want the original error %s (%T)", un, un, un != nil, p.ErrKey, want)
		}
		for _, k := range p.IsKeys {
			vd.laws++
			t := x.errs[k]
			if t == nil {
				return "harness: no Go error recorded under " + k
			}
			if !errors.Is(ex, t) {
				return fmt.Sprintf("errors.Is(exception, %s) = false", k)
			}
		}
		if p.AsCustom {
			vd.laws++
			var ce *customErr
			if !errors.As(ex, &ce) || ce != x.custom {
				return "errors.As(exception, *customErr) did not recover the original error"
			}
		}
		return ""
	}

	// 1. the event log
	uncatch := out.Kind == "intr" || out.Kind == "ovf" || out.Kind == "foreign"
	evMon := "catch-log"
	if out.Kind == "foreign" {
		evMon = "foreign-panic-observed"
	} else if uncatch {
		evMon = "uncatchable-observed"
	}
	renderObs := func() string {
		var b strings.Builder
		for _, e := range x.events {
			fmt.Fprintf(&b, " %s%d", e.K, e.F)
			if e.V != nil {
				b.WriteString("(" + describe(ids, e.V) + ")")
			}
			if e.Err != nil {
				fmt.Fprintf(&b, "(%T)", e.Err)
			}
		}
		return b.String()
	}
	renderExp := func() string {
		var b strings.Builder
		for _, e := range pred.Events {
			fmt.Fprintf(&b, " %s%d", e.K, e.F)
			if e.P >= 0 {
				fmt.Fprintf(&b, "(#%d)", e.P)
			}
		}
		return b.String()
	}
	for k := 0; k < len(pred.Events) || k < len(x.events); k++ {
		if k >= len(pred.Events) {
			return fail(evMon, "unexpected extra event %s%d; expected log:%s; observed log:%s", x.events[k].K, x.events[k].F, renderExp(), renderObs())
		}
		if k >= len(x.events) {
			mon := "catch-log"
			return fail(mon, "missing event %s%d; expected log:%s; observed log:%s", pred.Events[k].K, pred.Events[k].F, renderExp(), renderObs())
		}
		pe, oe := pred.Events[k], x.events[k]
		if pe.K != oe.K || pe.F != oe.F {
			return fail(evMon, "event %d: expected %s%d, observed %s%d; expected log:%s; observed log:%s", k, pe.K, pe.F, oe.K, oe.F, renderExp(), renderObs())
		}
		vd.laws++
		switch pe.K {
		case "c", "rej":
			if why := match(pe.P, oe.V); why != "" {
				return fail("value-identity", "%s%d received the wrong value: %s", pe.K, pe.F, why)
			}
		case "g":
			p := pred.Payloads[pe.P]
			switch {
			case pe.Ovf:
				if _, ovf := isUncatchable(oe.Err); !ovf {
					return fail("outcome-kind", "native frame %d expected *StackOverflowError from its callee, got %T", pe.F, oe.Err)
				}
			case pe.Raw:
				if want := x.errs[p.ErrKey]; oe.Err != want {
					return fail("go-error-recovery", "native frame %d: func gateway should return the original Go error %s (%T), got %T", pe.F, p.ErrKey, want, oe.Err)
				}
			default:
				ex, ok := oe.Err.(*goja.Exception)
				if !ok {
					return fail("outcome-kind", "native frame %d expected *goja.Exception from its callee, got %T", pe.F, oe.Err)
				}
				if pe.Ex != "" && error(ex) != x.errs[pe.Ex] {
					return fail("go-error-recovery", "native frame %d: the func gateway should return the *Exception (%s) that the GoError was made from", pe.F, pe.Ex)
				}
				if why := match(pe.P, ex.Value()); why != "" {
					return fail("value-identity", "native frame %d: Exception.Value(): %s", pe.F, why)
				}
				if why := goLaws(p, ex); why != "" {
					return fail("go-error-recovery", "native frame %d: %s", pe.F, why)
				}
			}
		}
	}

	// 2. what the host got
	asErr := func() error {
		if out.Panic {
			e, _ := o.Panic.(error)
			return e
		}
		return o.Err
	}
	got := func() string {
		return fmt.Sprintf("returned error %T (%v), Go panic %T (%v)", o.Err, o.Err != nil, o.Panic, o.Panic != nil)
	}
	if o.Panic != nil && !out.Panic {
		mon := "go-panic-escaped"
		if uncatch {
			mon = "outcome-kind"
		}
		return fail(mon, "expected outcome %s as a returned error, but a Go panic reached the host: %T %v\n%s", out.Kind, o.Panic, o.Panic, trunc(o.PanicStack, 1500))
	}
	if out.Panic && o.Panic == nil {
		mon := "outcome-kind"
		if out.Kind == "foreign" {
			mon = "foreign-panic"
		}
		return fail(mon, "expected outcome %s delivered as a Go panic to the host, got %s", out.Kind, got())
	}
	vd.laws++
	switch out.Kind {
	case "ok":
		if o.Err != nil {
			return fail("outcome-kind", "expected normal completion, got %s", got())
		}
	case "foreign":
		okp := false
		switch want := x.foreign.(type) {
		case string:
			if want == "runtime" {
				_, okp = o.Panic.(runtime.Error)
			} else {
				okp = o.Panic == any(want)
			}
		default:
			okp = o.Panic == x.foreign
		}
		if !okp {
			return fail("foreign-panic", "a native panicked with %T (%v); the host recovered %T (%v) instead of that same value", x.foreign, x.foreign, o.Panic, o.Panic)
		}
	case "intr":
		var ie *goja.InterruptedError
		if e := asErr(); e == nil || !errors.As(e, &ie) {
			return fail("outcome-kind", "expected *InterruptedError, got %s", got())
		}
		if ie.Value() != any(x.token) {
			return fail("value-identity", "InterruptedError.Value() is not the value passed to Interrupt: %v", ie.Value())
		}
	case "ovf":
		var se *goja.StackOverflowError
		if e := asErr(); e == nil || !errors.As(e, &se) {
			return fail("outcome-kind", "expected *StackOverflowError, got %s", got())
		}
	case "throw":
		p := pred.Payloads[out.P]
		if out.Raw {
			if want := x.errs[p.ErrKey]; o.Err != want {
				return fail("go-error-recovery", "func gateway with error result should return the original Go error %s (%T) for a GoError, got %T", p.ErrKey, want, o.Err)
			}
			break
		}
		ex, ok := asErr().(*goja.Exception)
		if !ok || ex == nil {
			return fail("outcome-kind", "expected *goja.Exception carrying payload #%d (%s), got %s", out.P, p.Kind, got())
		}
		if out.Ex != "" && error(ex) != x.errs[out.Ex] {
			return fail("go-error-recovery", "the func gateway should return the *Exception (%s) that the GoError was made from", out.Ex)
		}
		if why := match(out.P, ex.Value()); why != "" {
			return fail("value-identity", "Exception.Value() seen by the host: %s", why)
		}
		if why := goLaws(p, ex); why != "" {
			return fail("go-error-recovery", "%s", why)
		}
		if out.Line > 0 {
			vd.laws++
			line := 0
			for _, fr := range ex.Stack() {
				if l := fr.Position().Line; l > 0 {
					line = l
					break
				}
			}
			if line != out.Line {
				return fail("stack-top-line", "first script frame of Exception.Stack() is at line %d, the throw/creation site is line %d", line, out.Line)
			}
		}
	}

	// 3. the runtime afterwards
	if out.Kind == "foreign" {
		return // the runtime is discarded after a foreign panic
	}
	if out.Panic && out.Kind == "intr" {
		r.ClearInterrupt() // the interrupt left the runtime through Try/Get/ForOf/New: nobody could clear the flag (see ClearInterrupt doc)
	}
	if why := gj.IdleProblem(r, false); why != "" {
		return fail("vm-not-idle", "after outcome %s: %s (%+v)", vd.outKind, why, goja.VerifState(r))
	}
	goja.VerifSetFuel(r, goja.VerifSteps(r)+10000)
	o2 := gj.Call(func() (goja.Value, error) { return r.RunString("1+1") })
	vd.laws++
	if o2.Err != nil || o2.Panic != nil || o2.Fuel || o2.Val == nil || o2.Val.ToInteger() != 2 {
		return fail("followup-run", "after outcome %s a follow-up `1+1` gave val=%v err=%v panic=%v", vd.outKind, o2.Val, o2.Err, o2.Panic)
	}
	o3 := gj.Call(func() (goja.Value, error) {
		fn, _ := goja.AssertFunction(r.Get("fu"))
		return fn(goja.Undefined())
	})
	vd.laws++
	ex3, _ := o3.Err.(*goja.Exception)
	if ex3 == nil || o3.Panic != nil || ex3.Value().ToInteger() != 77 {
		return fail("followup-run", "after outcome %s a follow-up throwing Callable gave err=%T %v panic=%v", vd.outKind, o3.Err, o3.Err, o3.Panic)
	}
	if st := ex3.Stack(); len(st) != 1 || st[0].Position().Line != followLine {
		return fail("followup-stack", "after outcome %s the stack of a follow-up exception thrown by a Callable from an idle runtime has %d frames (want 1, at line %d): %s", vd.outKind, len(st), followLine, ex3.String())
	}
	if why := gj.IdleProblem(r, false); why != "" {
		return fail("vm-not-idle", "after follow-up: %s", why)
	}
	return
}

func trunc(s string, n int) string {
	if len(s) <= n {
		return s
	}
	return s[:n] + "…"
}
