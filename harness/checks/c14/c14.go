// Package c14: "Errors cross the Go/JS boundary in both directions with identity preserved".
// Workload: generated call chains (depth <= 8) of script frames and native frames of every calling convention, the
// innermost frame throwing / returning / panicking with every kind of payload, try/catch/finally handlers on any subset
// of script frames, Go intermediaries that rethrow / return / wrap / swallow / replace what they get.
// Oracle: harness/c14ref (a propagation model over the chain description written from the documented API contract).
// Monitors: catch-log, uncatchable-observed, foreign-panic(-observed), outcome-kind, value-identity, go-error-recovery,
// stack-top-line, vm-not-idle, followup-run, followup-stack, verif-assertion, go-panic-escaped.
package c14

import (
	"encoding/json"
	"fmt"
	"runtime"
	"runtime/debug"
	"strings"
	"sync"

	"verif/harness/c14ref"
	"verif/harness/core"
)

type caseRec struct {
	Chain  *c14ref.Chain `json:"chain"`
	Canon  string        `json:"canon"`
	Source string        `json:"source,omitempty"`
	Orig   string        `json:"original,omitempty"`
}

// pinned witnesses: witnesses of the two goja defects this check found (both fixed in /repo, see known-findings.d/C14.json
// "fixed") first, then regression chains (shapes that exercised a corrected oracle
// rule or a delicate path during development). They run in every tier.
var pinned = []string{
	// fixed ae15f7a: func gateway unwrapped any object with an error-typed 'value' (inbox/applied/C14-gateway-unwraps-non-goerror.md)
	`{"driver":"expfnerr","frames":[{"js":true,"leaf":{"kind":"throw","expr":"valobj"}}]}`,
	`{"driver":"run","frames":[{"js":true},{"js":false,"e":"fc","x":"expfnerr","b":"rethrow"},{"js":true,"leaf":{"kind":"throw","expr":"valobj"}}]}`,
	// fixed be5f664: for-of / destructuring re-threw next()'s exception by value, losing the throw-site stack (inbox/applied/C14-forof-next-restack.md)
	`{"driver":"run","frames":[{"js":true,"via":"forofnext"},{"js":true,"leaf":{"kind":"throw","expr":"num"}}]}`,
	`{"driver":"run","frames":[{"js":true,"via":"destruct"},{"js":true,"leaf":{"kind":"throw","expr":"num"}}]}`,
	// regression: a GoError made with NewGoError(exception) is unwrapped by the func gateway to that very *Exception (oracle correction)
	`{"driver":"run","frames":[{"js":true,"h":"replace","rep":"obj"},{"js":false,"e":"reflerr1","x":"expfnerr","b":"reterr"},{"js":true},{"js":false,"e":"pxget","x":"tryget","b":"newgoerr"},{"js":true,"h":"rethrow","leaf":{"kind":"engine","expr":"undefvar"}}]}`,
	`{"driver":"expfnerr","frames":[{"js":true},{"js":false,"e":"fc","x":"callable","b":"newgoerr"},{"js":true,"leaf":{"kind":"throw","expr":"sym"}}]}`,
	// regression: interrupt leaving through Try / from inside a promise job; overflow swallowed by a native; foreign panic through for-of and finally
	`{"driver":"tryget","frames":[{"js":true,"h":"rethrow+fin"},{"js":false,"e":"fc","leaf":{"kind":"interrupt"}}]}`,
	`{"driver":"run","frames":[{"js":true,"h":"fin","via":"promise"},{"js":true,"h":"rethrow+fin"},{"js":false,"e":"reflerr","leaf":{"kind":"interrupt"}}]}`,
	`{"driver":"run","frames":[{"js":true,"h":"finret"},{"js":false,"e":"ctor","x":"construct","b":"swallowall"},{"js":true,"h":"rethrow+fin","leaf":{"kind":"overflow"}}]}`,
	`{"driver":"run","frames":[{"js":true,"h":"rethrow+fin","via":"forofbody"},{"js":true,"h":"fin"},{"js":false,"e":"dynget","leaf":{"kind":"foreign","expr":"int"}}]}`,
	// seeded mutation C14-wrapped-uncatchable (wrapReflectFunc looked only at the outermost returned error): an uncatchable error
	// returned wrapped by a native with an error result must stay uncatchable
	`{"driver":"run","frames":[{"js":true,"h":"rethrow+fin"},{"js":false,"e":"reflerr","x":"callable","b":"wraperr"},{"js":true,"leaf":{"kind":"overflow"}}]}`,
	`{"driver":"callable","frames":[{"js":true,"h":"swallow"},{"js":false,"e":"method","x":"expfnerr","b":"wraperr"},{"js":true,"h":"fin"},{"js":false,"e":"reflerr1","leaf":{"kind":"overflow"},"b":"customwrap"}]}`,
	`{"driver":"run","frames":[{"js":true,"h":"swallow+fin"},{"js":false,"e":"reflerr1","x":"run","b":"customwrap"},{"js":true,"h":"fin","leaf":{"kind":"interrupt"}}]}`,
	// fixed dd0188c: errors.Join around an uncatchable error was not recognised (inbox/applied/C14-joined-uncatchable.md)
	`{"driver":"run","frames":[{"js":true,"h":"fin"},{"js":false,"e":"reflerr","x":"callable","b":"joinerr"},{"js":true,"leaf":{"kind":"overflow"}}]}`,
	`{"driver":"rtnew","frames":[{"js":true},{"js":false,"e":"reflerr","x":"callable","b":"joinerr"},{"js":true},{"js":false,"e":"fc","leaf":{"kind":"interrupt"}}]}`,
	// seeded mutation C14-finally-rethrow-loses-throw-site: a non-Error value passing a try/finally keeps its throw-site stack
	`{"driver":"run","frames":[{"js":true,"h":"fin","via":"call"},{"js":true,"leaf":{"kind":"throw","expr":"num"}}]}`,
	// seeded mutation C14-iterclose-swallows-overflow: an uncatchable raised inside return() while an ordinary exception closes the iterator
	`{"driver":"run","frames":[{"js":true,"h":"rethrow+fin","via":"closemap"},{"js":true,"leaf":{"kind":"overflow"}}]}`,
	`{"driver":"callable","frames":[{"js":true,"h":"swallow","via":"closefrom"},{"js":true,"h":"fin"},{"js":false,"e":"fc","leaf":{"kind":"interrupt"}}]}`,
	`{"driver":"run","frames":[{"js":true,"h":"swallow+fin","via":"closeforof"},{"js":true,"leaf":{"kind":"overflow"}}]}`,
	`{"driver":"run","frames":[{"js":true,"h":"fin","via":"closedestruct"},{"js":true,"h":"rethrow","leaf":{"kind":"overflow"}}]}`,
	// fixed (inbox/applied/C14-iterate-foreign-panic.md): built-ins consuming an iterable swallowed a foreign Go panic raised
	// inside return(), and ran return() while a foreign panic from the step unwound
	`{"driver":"run","frames":[{"js":true,"via":"closemap"},{"js":true},{"js":false,"e":"fc","leaf":{"kind":"foreign","expr":"str"}}]}`,
	`{"driver":"run","frames":[{"js":true,"via":"frommap"},{"js":true},{"js":false,"e":"fc","leaf":{"kind":"foreign","expr":"int"}}]}`,
	// seeded mutation C14-yieldstar-stack: a non-Error value thrown through yield* keeps its throw-site stack
	`{"driver":"run","frames":[{"js":true,"via":"ynext"},{"js":true,"leaf":{"kind":"throw","expr":"obj"}}]}`,
	`{"driver":"run","frames":[{"js":true,"h":"fin","via":"ynest"},{"js":true},{"js":false,"e":"fc","leaf":{"kind":"panic","expr":"obj"}}]}`,
	// regression: wrapped and joined Go errors through a wrapping intermediary; typed-nil error
	`{"driver":"callable","frames":[{"js":true,"h":"swallow+fin"},{"js":false,"e":"method","x":"callable","b":"wraperr"},{"js":true,"h":"rethrow"},{"js":false,"e":"reflerr","leaf":{"kind":"reterr","expr":"join"}}]}`,
	`{"driver":"callable","frames":[{"js":true,"h":"rethrow"},{"js":false,"e":"reflerr1","leaf":{"kind":"reterr","expr":"typednil"}}]}`,
}

func parseChain(js string) *c14ref.Chain {
	ch := &c14ref.Chain{}
	if err := json.Unmarshal([]byte(js), ch); err != nil {
		panic("c14: bad pinned chain: " + err.Error())
	}
	if err := ch.Valid(); err != nil {
		panic("c14: invalid pinned chain: " + err.Error() + ": " + js)
	}
	return ch
}

func Check() *core.Check {
	return &core.Check{
		ID:    "C14",
		Level: "exploration",
		Rule: "case = one call chain: host driver convention x up to 8 frames alternating script frames (handler none/rethrow/swallow/replace/finally-only/+finally/finally-return/finally-throw; " +
			"script->script links call/new/apply/bind/map/getter/Proxy trap/for-of next/for-of body/generator/eval/promise job) and native frames " +
			"(entry FunctionCall, FunctionCall+Runtime, reflect func with/without error, method, ConstructorCall(+Runtime), ProxyTrapConfig.Get, DynamicObject.Get, native getter; " +
			"exit Callable, Constructor, ExportTo func with/without error, Object.Get, ForOf next/step, Try around those, nested RunString, Runtime.New; behaviour rethrow/rethrow value/return/wrap with %w/errors.Join/custom Unwrap type/NewGoError/swallow/replace by value or error — applied to exceptions and, for natives with an error result, to interrupts and stack overflows coming back from the nested script call), " +
			"innermost frame throws a primitive/object/Error/subclass, returns errors.New/%w/Join/custom/typed-nil/*Exception, panics with Value/TypeError/GoError/*Exception, interrupts, overflows the call stack or panics with a foreign Go value; " +
			"non-trivial = >= 2 Go<->script crossings and (non-primitive payload or a try handler on the path); distinct = distinct canonical chain descriptions",
		Assumptions: []string{
			"expected observations come from harness/c14ref, a model of the documented contract (doc comments of ToValue/ExportTo/AssertFunction/AssertConstructor/Try/ForOf/New/Interrupt/SetMaxCallStackSize/NewGoError), not of goja's code",
			"error messages are never compared: identities (object/symbol pointers, canonical primitive renderings, Go error identity via ==, errors.Is/As/Unwrap), constructor names and line numbers only",
			"at most one promise link per chain and none under drivers that are not a run of the runtime (Try/Get/ForOf/New do not drain jobs); natives never swallow or replace an interrupt (the flag is documented to stay set until the outermost return); they do return interrupts and stack overflows as is or wrapped (%w, errors.Join, custom Unwrap type) and may swallow or replace a stack overflow: wrapped uncatchables stay uncatchable and the host finds them with errors.As",
			"a GoError around a typed-nil error: Unwrap may be nil or the typed nil; such chains never pass the error-returning func gateway",
			"stack law: first script frame of Exception.Stack() is the line where the value was last thrown (non-Error values) resp. where the Error object was created (subclasses use implicit constructors); natives count as their call site",
			"fuel exhaustion (400k VM instructions per chain) is inconclusive",
		},
		Cases: func(tier string) int {
			if tier == "thorough" {
				return 2000000
			}
			return 60000
		},
		MinConclusive: func(tier string) int { return 1000 },
		NumPinned:     len(pinned),
		CaseTimeoutS:  30,
		Run:           run,
	}
}

func pickS(r *core.Rng, xs []string) string { return xs[r.Intn(len(xs))] }

func pickWS(r *core.Rng, xs []string, w []int) string { return xs[r.PickW(w)] }

var handlerW = []int{34, 10, 8, 8, 8, 7, 6, 6, 6, 7}

// excluded is the syntactic neighbourhood of listed known findings, kept out of random generation. Nothing is listed at
// present (known-findings.d/C14.json has no open finding), so nothing is excluded.
func excluded(c *c14ref.Chain) bool { return false }

func genOnce(r *core.Rng) *c14ref.Chain {
	n := 1 + r.PickW([]int{3, 9, 16, 18, 16, 14, 13, 11})
	c := &c14ref.Chain{Frames: make([]c14ref.Frame, n)}
	c.Driver = pickWS(r, c14ref.Drivers, []int{24, 20, 6, 6, 11, 8, 5, 6, 5, 5})
	// frame kinds
	c.Frames[0].JS = true
	for i := 1; i < n; i++ {
		c.Frames[i].JS = !c.Frames[i-1].JS || r.Chance(2, 5)
	}
	promise := !c14ref.DriverDrainsJobs(c.Driver)
	canErr := []string{"reflerr", "reflerr1", "method"}
	for i := range c.Frames {
		f := &c.Frames[i]
		last := i == n-1
		if f.JS {
			f.H = pickWS(r, c14ref.Handlers, handlerW)
			if strings.HasPrefix(f.H, "replace") || f.H == "finreplace" {
				f.Rep = pickS(r, c14ref.JSKinds)
			}
			if !last && c.Frames[i+1].JS {
				f.Via = pickWS(r, c14ref.Vias, []int{14, 6, 7, 6, 8, 8, 9, 8, 9, 7, 6, 12, 7, 6, 7, 6, 6, 6, 5, 7, 8, 8, 6, 6})
				if f.Via == "promise" {
					if promise {
						f.Via = "call"
					}
					promise = true
				}
			}
			if last {
				switch r.PickW([]int{68, 8, 13, 11}) {
				case 0:
					f.Leaf = &c14ref.Leaf{Kind: "throw", Expr: pickS(r, c14ref.JSKinds)}
				case 1:
					f.Leaf = &c14ref.Leaf{Kind: "engine", Expr: pickS(r, c14ref.EngineKinds)}
				case 2:
					f.Leaf = &c14ref.Leaf{Kind: "interrupt"}
				default:
					f.Leaf = &c14ref.Leaf{Kind: "overflow"}
				}
			}
			continue
		}
		f.E = pickS(r, c14ref.Entries)
		if last {
			switch r.PickW([]int{32, 30, 10, 9, 15}) {
			case 0:
				f.E = pickS(r, canErr)
				f.Leaf = &c14ref.Leaf{Kind: "reterr", Expr: pickS(r, c14ref.RetErrKinds)}
			case 1:
				k := append([]string{"exception"}, c14ref.GoKinds...)
				f.Leaf = &c14ref.Leaf{Kind: "panic", Expr: pickS(r, k)}
			case 2:
				f.Leaf = &c14ref.Leaf{Kind: "interrupt"}
			case 3:
				f.Leaf = &c14ref.Leaf{Kind: "overflow"}
				bs := []string{"rethrow", "rethrow", "swallowall"}
				if c14ref.CanReturnErr(f.E) {
					bs = append(bs, "reterr", "reterr", "wraperr", "joinerr", "customwrap")
				}
				f.B = pickS(r, bs)
			default:
				f.Leaf = &c14ref.Leaf{Kind: "foreign", Expr: pickS(r, c14ref.ForeignKinds)}
			}
			continue
		}
		f.X = pickWS(r, c14ref.Exits, []int{18, 7, 8, 12, 7, 8, 5, 7, 5, 6, 8, 6})
		if c14ref.ExitReturnsErr(f.X) {
			bs := []string{"rethrow", "rethrow", "rethrowval", "swallow", "swallowall", "replaceval", "newgoerr"}
			if c14ref.CanReturnErr(f.E) {
				bs = append(bs, "reterr", "reterr", "reterr", "wraperr", "wraperr", "joinerr", "customwrap", "replaceerr")
			}
			f.B = pickS(r, bs)
			if f.B == "replaceval" {
				f.Rep = pickS(r, c14ref.GoKinds)
			}
		}
	}
	// Half of the chains that end in a stack overflow or an interrupt get a native with an error result that receives the
	// uncatchable error from its nested script call and returns it as is / wrapped (%w, errors.Join, custom Unwrap type),
	// below a script frame with a handler: "uncatchable" must hold for the whole Unwrap chain.
	if lk := c.Frames[n-1].Leaf.Kind; (lk == "overflow" || lk == "interrupt") && r.Bool() {
		var gos []int
		for i := 1; i < n-1; i++ {
			if !c.Frames[i].JS {
				gos = append(gos, i)
			}
		}
		if len(gos) > 0 {
			g := gos[r.Intn(len(gos))]
			f := &c.Frames[g]
			f.E = pickS(r, canErr)
			f.X = pickS(r, []string{"callable", "callable", "construct", "expfnerr", "run"})
			f.B = pickS(r, []string{"wraperr", "wraperr", "joinerr", "customwrap", "reterr"})
			f.Rep = ""
			if above := &c.Frames[r.Intn(g)]; above.JS && above.H == "" {
				above.H = pickS(r, []string{"rethrow", "swallow", "fin", "rethrow+fin", "swallow+fin", "finret"})
			}
		}
	}
	return c
}

func genChain(r *core.Rng) *c14ref.Chain {
	for attempt := 0; attempt < 50; attempt++ {
		c := genOnce(r)
		if c.Valid() == nil && !excluded(c) {
			return c
		}
	}
	return &c14ref.Chain{Driver: "run", Frames: []c14ref.Frame{{JS: true, Leaf: &c14ref.Leaf{Kind: "throw", Expr: "num"}}}}
}

func primitiveLeaf(l *c14ref.Leaf) bool {
	if l.Kind != "throw" && l.Kind != "panic" {
		return false
	}
	switch l.Expr {
	case "num", "negzero", "nan", "float", "str", "emptystr", "sym", "null", "undef", "bool", "bigint":
		return true
	}
	return false
}

func nonTrivial(c *c14ref.Chain) bool {
	if c.Crossings() < 2 {
		return false
	}
	if !primitiveLeaf(c.Frames[len(c.Frames)-1].Leaf) {
		return true
	}
	for i := range c.Frames {
		if c.Frames[i].JS && c.Frames[i].H != "" {
			return true
		}
	}
	return false
}

func convName(f *c14ref.Frame, entry bool) string {
	if f.JS {
		return "js"
	}
	if entry {
		return f.E
	}
	if f.X == "" {
		return "leaf"
	}
	return f.X
}

func record(st *core.Stats, c *c14ref.Chain, vd *verdict) {
	n := len(c.Frames)
	st.Inc(fmt.Sprintf("depth:%d", n))
	st.Inc("driver:" + c.Driver)
	st.SetAdd("pairs", c.Driver+">js")
	var place strings.Builder
	for i := range c.Frames {
		f := &c.Frames[i]
		if i+1 < n {
			g := &c.Frames[i+1]
			a, b := convName(f, false), convName(g, true)
			if f.JS && g.JS {
				b = "js:" + f.Via
			}
			st.SetAdd("pairs", a+">"+b)
			if !f.JS {
				st.SetAdd("native_frames", f.E+"/"+f.X+"/"+f.B)
			}
		}
		if f.JS {
			h := f.H
			if h == "" {
				h = "none"
			}
			st.Inc("handler:" + h)
			place.WriteString(map[string]string{"": "-", "rethrow": "r", "swallow": "s", "replace": "p", "fin": "f", "rethrow+fin": "R", "swallow+fin": "S", "replace+fin": "P", "finret": "t", "finreplace": "T"}[f.H])
		} else {
			place.WriteString("g")
			if f.B != "" {
				st.Inc("behaviour:" + f.B)
			}
		}
	}
	st.SetAdd("handler_placements", place.String())
	l := c.Frames[n-1].Leaf
	side := "go"
	if c.Frames[n-1].JS {
		side = "js"
	}
	st.Inc("leaf:" + side + ":" + l.Kind + ":" + l.Expr)
	st.Count("boundary_crossings", int64(c.Crossings()))
	if vd != nil {
		st.Inc("outcome:" + vd.outKind)
		st.Count("laws_checked", int64(vd.laws))
		st.Count("events_observed", int64(vd.events))
		st.Max("max_events_in_chain", int64(vd.events))
		st.Count("vm_steps", vd.steps)
	}
}

// candidates returns simpler variants of c (fewer frames, fewer handlers, plainer conventions), most aggressive first.
func candidates(c *c14ref.Chain) []*c14ref.Chain {
	var out []*c14ref.Chain
	add := func(d *c14ref.Chain) {
		// repair links after structural edits
		for i := range d.Frames {
			f := &d.Frames[i]
			if !f.JS {
				continue
			}
			if i+1 < len(d.Frames) && d.Frames[i+1].JS {
				if f.Via == "" {
					f.Via = "call"
				}
			} else {
				f.Via = ""
			}
		}
		if d.Valid() == nil && d.String() != c.String() {
			out = append(out, d)
		}
	}
	n := len(c.Frames)
	for width := 4; width >= 1; width-- {
		for a := 0; a+width <= n-1; a++ { // never remove the leaf
			d := c.Clone()
			d.Frames = append(d.Frames[:a], d.Frames[a+width:]...)
			add(d)
		}
	}
	if c.Driver != "run" { // every proposal moves strictly towards the plainest form, so minimisation cannot cycle
		d := c.Clone()
		d.Driver = "run"
		add(d)
		if c.Driver != "callable" {
			d = c.Clone()
			d.Driver = "callable"
			add(d)
		}
	}
	for i := range c.Frames {
		f := &c.Frames[i]
		if f.JS {
			if f.H != "" {
				d := c.Clone()
				d.Frames[i].H, d.Frames[i].Rep = "", ""
				add(d)
				if c14ref.HasFinally(f.H) && c14ref.HasCatch(f.H) {
					d = c.Clone()
					d.Frames[i].H = strings.TrimSuffix(f.H, "+fin")
					add(d)
				}
			}
			if f.Via != "" && f.Via != "call" {
				d := c.Clone()
				d.Frames[i].Via = "call"
				add(d)
			}
			if f.Rep != "" && f.Rep != "num" {
				d := c.Clone()
				d.Frames[i].Rep = "num"
				add(d)
			}
			continue
		}
		if f.X != "" && f.X != "callable" {
			d := c.Clone()
			d.Frames[i].X = "callable"
			if d.Frames[i].B == "" {
				d.Frames[i].B = "rethrow"
			}
			add(d)
		}
		if f.B != "" && f.B != "rethrow" {
			d := c.Clone()
			d.Frames[i].B, d.Frames[i].Rep = "rethrow", ""
			add(d)
		}
		if f.E != "fc" {
			d := c.Clone()
			d.Frames[i].E = "fc"
			add(d)
			if f.E != "reflerr" {
				d = c.Clone()
				d.Frames[i].E = "reflerr"
				add(d)
			}
		}
		if f.Rep != "" && f.Rep != "num" {
			d := c.Clone()
			d.Frames[i].Rep = "num"
			add(d)
		}
	}
	if l := c.Frames[n-1].Leaf; (l.Kind == "throw" || l.Kind == "panic") && l.Expr != "num" {
		d := c.Clone()
		d.Frames[n-1].Leaf.Expr = "num"
		add(d)
	}
	return out
}

func minimise(c *c14ref.Chain, monitor string) *c14ref.Chain {
	budget := 200
	for changed := true; changed && budget > 0; {
		changed = false
		for _, d := range candidates(c) {
			if budget <= 0 {
				break
			}
			budget--
			if vd := runChain(d, false); vd.monitor == monitor && vd.bug == "" && !vd.fuel {
				c, changed = d, true
				break
			}
		}
	}
	return c
}

var tune sync.Once

func run(c *core.Ctx) core.Result {
	// single-threaded workload of thousands of short-lived Runtimes per second: one P and a lazier GC halve the CPU cost
	tune.Do(func() { runtime.GOMAXPROCS(1); debug.SetGCPercent(400) })
	var ch *c14ref.Chain
	if c.Index < 0 {
		ch = parseChain(pinned[-c.Index-1])
	} else {
		ch = genChain(c.Rng)
	}
	canon := ch.String()
	vd := runChain(ch, c.Replay)
	record(c.Stats, ch, &vd)
	res := core.Result{Verdict: core.Held, Key: canon, NonTrivial: nonTrivial(ch)}
	if c.Stats.WantSample() && c.Index >= 0 && c.Index%97 == 0 {
		src, _, _ := buildSource(ch)
		c.Stats.Sample(caseRec{Chain: ch, Canon: canon, Source: src})
	}
	if c.Index >= 0 && c.Index%100 == 0 && vd.bug == "" && !vd.fuel {
		// standing determinism self-check: the same chain on a second fresh runtime must give the same observations
		c.Stats.Inc("determinism_rechecks")
		if vd2 := runChain(ch, false); vd2.monitor != vd.monitor || vd2.detail != vd.detail || vd2.events != vd.events || vd2.laws != vd.laws || vd2.steps != vd.steps {
			return core.Result{Verdict: core.Violated, NonTrivial: true, Key: canon, Monitor: "nondeterministic",
				Detail:    fmt.Sprintf("two executions of the same chain on fresh runtimes differ: %+v vs %+v", vd, vd2),
				Signature: canon + " | nondeterministic", Case: caseRec{Chain: ch, Canon: canon}}
		}
	}
	switch {
	case vd.bug != "":
		// an inconsistency of the harness itself must never pass silently nor count as a verdict about goja
		return core.Result{Verdict: core.Violated, Monitor: "harness-internal", Detail: vd.bug, Signature: "harness:" + vd.bug, Key: canon, Case: caseRec{Chain: ch, Canon: canon}}
	case vd.fuel:
		res.Verdict, res.Monitor = core.Inconclusive, "fuel"
		return res
	case vd.monitor == "":
		return res
	}
	c.Stats.Inc("violations_raw:" + vd.monitor)
	min := ch
	if c.Index >= 0 {
		min = minimise(ch, vd.monitor)
	}
	mvd := vd
	if min != ch {
		mvd = runChain(min, false)
		if mvd.monitor != vd.monitor {
			min, mvd = ch, vd
		}
	}
	src, _, _ := buildSource(min)
	detail := mvd.detail
	if min != ch {
		detail += "\n(original chain: " + canon + ")"
	}
	return core.Result{Verdict: core.Violated, NonTrivial: true, Key: canon, Monitor: mvd.monitor, Detail: detail,
		Signature: min.String() + " | " + mvd.monitor, Case: caseRec{Chain: min, Canon: min.String(), Source: src, Orig: canon}}
}
