// Package c10: "Promise jobs run exactly once, in spec FIFO order, before control returns to Go; the rejection tracker
// is told reject/handle as HostPromiseRejectionTracker prescribes; an interrupt discards queued jobs."
// Workload: random programs of an op language (promref) printed to JS; every interleaving of the program's runs with its
// Go-side resolver steps; four outermost-entry variants; an interrupt at every probe position.
// Monitors: (a) model-free job-trace specification over hook-c events, (b) handler log == promref, (c) tracker events ==
// promref, (d) Promise.State()/Result() == promref, (e) interrupts drop the queue and leave the runtime reusable,
// (f) handler log identical across entry variants.
package c10

import (
	"encoding/json"
	"fmt"
	"runtime"
	"runtime/debug"
	"sync"

	"verif/harness/core"
	"verif/harness/promref"
)

// caseRec is the materialised case written into replay files.
type caseRec struct {
	Program  *promref.Program `json:"program"`
	Schedule []promref.Step   `json:"schedule,omitempty"`
	Cfg      runCfg           `json:"cfg"`
	JS       []string         `json:"js,omitempty"`
}

const nestedDrainID = "C10-nested-drain"

// awaitUnwindID: inbox/C10-await-abrupt-interrupt-unwind.md. While listed, generated programs contain no THROWING
// "constructor" getter (they are turned into logging getters); pinned witness 4 keeps exercising it.
const awaitUnwindID = "C10-await-abrupt-interrupt-unwind"

var (
	exclOnce   sync.Once
	exclNested bool
	exclThrow  bool
)

// excludeNested reports whether the nested-drain finding is listed: while it is, random generation stays out of its
// neighbourhood (handlers that are Go natives calling a Callable, and the trigger-reaction entry variant); the pinned
// witnesses keep exercising it. Removing the entry from known-findings.d/C10.json restores the full domain.
func excludeNested() bool {
	exclOnce.Do(func() {
		f := core.LoadFindings()
		for _, k := range f.Findings {
			if k.Property == "C10" && k.ID == nestedDrainID {
				exclNested = true
			}
			if k.Property == "C10" && k.ID == awaitUnwindID {
				exclThrow = true
			}
		}
	})
	return exclNested
}

func Check() *core.Check {
	return &core.Check{
		ID:    "C10",
		Level: "exploration",
		Rule: "case = one random op-language program (3..12 promise operations, <= 5 promise variables, 1..3 runs, 0..3 Go-side resolver steps) printed to JS; " +
			"executed under every interleaving of runs and Go steps (RunString entry), under RunProgram / Callable / Go-native-reaction-trigger entries for two interleavings, " +
			"and once per probe position with an Interrupt at that probe; non-trivial = the reference scheduler ran >= 3 reaction jobs from >= 2 chains that interleaved; distinct = distinct programs",
		Assumptions: []string{
			"the op language is the quantifier: thenables come from a fixed catalogue, handler bodies from a fixed catalogue, iterables are array literals",
			"hook c reports only the jobs still in Runtime.jobQueue when an interrupt lands inside the drain loop; the rest of the batch is counted as dropped by the monitor (it must never run)",
			"while known finding " + nestedDrainID + " is listed, generated programs contain no Go-native handler that calls a Callable and the trigger-reaction entry is not generated (pinned witnesses cover it)",
		},
		Cases: func(tier string) int {
			if tier == "thorough" {
				return 600000
			}
			return 20000
		},
		MinConclusive: func(tier string) int { return 2000 },
		NumPinned:     len(pinned),
		CaseTimeoutS:  60,
		Run:           run,
	}
}

func (cr *caseRec) fill() {
	if cr.Program == nil {
		return
	}
	opts := promref.PrintOpts{NoNative: cr.Cfg.NoNative, Guard: cr.Program.HasThrowingCtor()}
	cr.JS = nil
	for i := range cr.Program.Segs {
		cr.JS = append(cr.JS, promref.PrintSegment(cr.Program, i, opts))
	}
}

func progKey(p *promref.Program) string {
	b, _ := json.Marshal(p)
	return string(b)
}

// found is a violation located at (schedule, cfg).
type found struct {
	v     *violation
	sched []promref.Step
	cfg   runCfg
}

// examine runs all monitors for one program; st may be nil (minimisation). It returns the first violation.
func examine(c *core.Ctx, p *promref.Program, st *core.Stats, full bool) (*found, bool) {
	noNative := !full
	pc := progCache{}
	scheds := p.Interleavings()
	nontrivial := false
	rec := func(o *obs, tt traceTotals) {
		if st == nil {
			return
		}
		st.Count("jobs_enqueued", int64(tt.Enq))
		st.Count("jobs_run", int64(tt.Run))
		st.Count("jobs_dropped", int64(tt.Dropped))
		st.Count("jobs_dropped_reported_by_hook", int64(tt.HookDropped))
		st.Max("max_queue_length", int64(tt.MaxQueue))
		st.Inc("executions")
	}
	// one execution under (sched, cfg) with monitors a-d; returns the observation
	runOne := func(sched []promref.Step, cfg runCfg, t *promref.Trace) (*obs, *found) {
		o := execute(p, sched, cfg, pc)
		if o.Broken != "" {
			return o, &found{&violation{o.BrokenMon, o.Broken}, sched, cfg}
		}
		v, tt := checkTrace(o)
		rec(o, tt)
		if v != nil {
			return o, &found{v, sched, cfg}
		}
		if v := checkAgainstModel(o, t); v != nil {
			return o, &found{v, sched, cfg}
		}
		if st != nil {
			st.Inc("entry:" + entryNames[cfg.Entry])
			st.SetAdd("entry_variants", entryNames[cfg.Entry])
			for i := range o.Steps {
				st.Count("tracker_events", int64(len(o.Steps[i].Tracker)))
				st.Count("handler_log_entries", int64(len(stripProbes(o.Steps[i].Log))))
			}
		}
		return o, nil
	}
	// the baseline execution of every interleaving: RunString for the first and one more, RunProgram (compiled once) for the rest
	altBase := c.Rng.Intn(len(scheds))
	baseEntries := make([]int, len(scheds))
	traces := make([]*promref.Trace, len(scheds))
	bases := make([]*obs, len(scheds))
	for i, sched := range scheds {
		t := promref.Run(p, sched)
		traces[i] = t
		if t.M.Interleaved() {
			nontrivial = true
		}
		if st != nil {
			st.Inc("interleavings_explored")
			st.Count("model_reaction_jobs", int64(t.M.ReactionJobs))
			st.Count("model_thenable_jobs", int64(t.M.ThenableJobs))
			st.Count("model_tracker_reject", int64(t.M.TrackerRejects))
			st.Count("model_tracker_handle", int64(t.M.TrackerHandles))
			if t.M.Interleaved() {
				st.Inc("interleaved_executions")
			}
		}
		baseEntry := EntryRunProgram
		if i == 0 || i == altBase {
			baseEntry = EntryRunString
		}
		o, f := runOne(sched, runCfg{Entry: baseEntry, NoNative: noNative}, t)
		if f != nil {
			return f, nontrivial
		}
		bases[i] = o
		baseEntries[i] = baseEntry
	}
	// (f) entry variants for the first interleaving and one more
	pick := []int{0}
	if len(scheds) > 1 {
		pick = append(pick, 1+c.Rng.Intn(len(scheds)-1))
	}
	for _, i := range pick {
		for e := EntryRunString; e < NEntries; e++ {
			if e == baseEntries[i] || (e == EntryTrigger && !full) {
				continue
			}
			cfg := runCfg{Entry: e, NoNative: noNative}
			o, f := runOne(scheds[i], cfg, traces[i])
			if f != nil {
				return f, nontrivial
			}
			// redundant with (b) when both agree with the model, kept as the direct statement of monitor (f)
			a, b := stripProbes(flatLog(bases[i])), stripProbes(flatLog(o))
			for k := range a {
				a[k] = bases[i].h.name(a[k])
			}
			for k := range b {
				b[k] = o.h.name(b[k])
			}
			if !eqLists(a, b) {
				return &found{&violation{"entry-variant", diffLists("handler log under "+entryNames[e]+" vs "+entryNames[baseEntries[i]], a, b)}, scheds[i], cfg}, nontrivial
			}
		}
	}
	// (e) an interrupt at every probe position of one interleaving, entry alternating
	i := c.Rng.Intn(len(scheds))
	entries := []int{EntryRunProgram, EntryCallable, EntryRunProgram, EntryRunString}
	if full {
		entries = append(entries, EntryTrigger)
	}
	entry := entries[c.Rng.Intn(len(entries))]
	base := bases[i]
	if entry != baseEntries[i] {
		var f *found
		base, f = runOne(scheds[i], runCfg{Entry: entry, NoNative: noNative}, traces[i])
		if f != nil {
			return f, nontrivial
		}
	}
	nProbes := base.h.probeN
	if nProbes > 60 {
		nProbes = 60
	}
	for at := 1; at <= nProbes; at++ {
		cfg := runCfg{Entry: entry, ProbeAt: at, NoNative: noNative}
		o := execute(p, scheds[i], cfg, pc)
		if o.Broken != "" {
			return &found{&violation{o.BrokenMon, o.Broken}, scheds[i], cfg}, nontrivial
		}
		v, tt := checkTrace(o)
		rec(o, tt)
		if v == nil {
			v = checkInterrupted(o, base, at)
		}
		if v != nil {
			return &found{v, scheds[i], cfg}, nontrivial
		}
		if st != nil {
			st.Inc("interrupts_injected")
			st.SetAdd("interrupt_entry_variants", entryNames[entry])
			if tt.Dropped > 0 {
				st.Inc("interrupts_that_dropped_jobs")
			}
			if tt.Dropped > tt.HookDropped {
				st.Inc("interrupts_inside_drain_with_unreported_batch_rest")
			}
		}
	}
	return nil, nontrivial
}

func countOps(p *promref.Program, st *core.Stats) {
	var opw func(op *promref.Op)
	opw = func(op *promref.Op) {
		name := promref.OpKindNames[op.K]
		if op.K == promref.OpStatic {
			name += ":" + promref.StaticNames[op.St]
		}
		st.Inc("op:" + name)
		st.SetAdd("op_kinds", name)
		if op.Cls != promref.ClsPromise {
			st.Inc("op_on_subclass:" + promref.ClsNames[op.Cls])
		}
		if op.Ctor != nil {
			kind := "data:"
			if op.Ctor.Getter {
				kind = "getter:"
			}
			if op.Ctor.Throws {
				kind = "throwing-getter:"
			}
			st.Inc("own_constructor:" + kind + promref.CtorValNames[op.Ctor.Val])
		}
		for _, h := range []*promref.Handler{op.F, op.R} {
			if h != nil && h.Do != nil {
				opw(h.Do)
			}
		}
	}
	for _, s := range p.Segs {
		for i := range s {
			opw(&s[i])
		}
	}
	p.WalkVals(func(v *promref.Val) {
		switch v.K {
		case promref.VThen:
			st.Inc("thenable:" + promref.ThenKindNames[v.T])
			st.SetAdd("thenable_kinds", promref.ThenKindNames[v.T])
		case promref.VAsync:
			st.Inc("inline_async_call")
		case promref.VProm:
			st.Inc("value_is_promise")
		}
	})
	p.WalkHandlers(func(h *promref.Handler) {
		st.Inc(fmt.Sprintf("handler_kind:%d", h.K))
		if h.Native {
			st.Inc("handler_go_native")
		}
	})
	st.Count("go_steps", int64(len(p.GoSteps)))
	st.Count("runs", int64(len(p.Segs)))
}

func signature(f *found, p *promref.Program) string {
	cr := caseRec{Program: p, Cfg: f.cfg}
	cr.fill()
	b, _ := json.Marshal(struct {
		JS  []string
		Go  []promref.GoStep
		S   []promref.Step
		Cfg runCfg
	}{cr.JS, p.GoSteps, f.sched, f.cfg})
	return f.v.Monitor + ":" + string(b)
}

func result(f *found, p *promref.Program, sig string) core.Result {
	cr := caseRec{Program: p, Schedule: f.sched, Cfg: f.cfg}
	cr.fill()
	return core.Result{Verdict: core.Violated, NonTrivial: true, Key: progKey(p), Monitor: f.v.Monitor,
		Detail: fmt.Sprintf("entry=%s probeAt=%d schedule=%v\n%s", entryNames[f.cfg.Entry], f.cfg.ProbeAt, f.sched, f.v.Detail), Signature: sig, Case: cr}
}

var gcOnce sync.Once

func run(c *core.Ctx) core.Result {
	// thousands of short-lived runtimes per second: collect less often (the live heap of a worker stays a few MB)
	// and the workload is single-threaded: with one worker process per core, 16 Ps per process only add GC futex traffic
	gcOnce.Do(func() { debug.SetGCPercent(1000); runtime.GOMAXPROCS(2) })
	if c.Index < 0 {
		return runPinned(c)
	}
	p := promref.Generate(c.Rng)
	full := !excludeNested()
	if !full {
		p.WalkHandlers(func(h *promref.Handler) { h.Native = false })
	}
	if exclThrow {
		for _, seg := range p.Segs {
			for i := range seg {
				if seg[i].Ctor != nil {
					seg[i].Ctor.Throws = false
				}
			}
		}
	}
	if !p.Valid() {
		return core.Result{Verdict: core.Inconclusive, Monitor: "generator-produced-invalid-program", Case: caseRec{Program: p}}
	}
	if c.Replay {
		cr := caseRec{Program: p}
		cr.fill()
		for i, s := range cr.JS {
			fmt.Printf("--- segment %d ---\n%s", i, s)
		}
		fmt.Printf("--- go steps: %+v govars: %v\n", p.GoSteps, p.GoVars)
	}
	countOps(p, c.Stats)
	rng0 := *c.Rng
	f, nontrivial := examine(c, p, c.Stats, full)
	if f == nil {
		if c.Stats.WantSample() && nontrivial && c.Index%97 == 0 {
			cr := caseRec{Program: p}
			cr.fill()
			c.Stats.Sample(cr)
		}
		return core.Result{Verdict: core.Held, NonTrivial: nontrivial, Key: progKey(p)}
	}
	// minimise: keep the same monitor firing
	mon := f.v.Monitor
	budget := 200
	min := minimize(p, func(q *promref.Program) bool {
		if budget <= 0 {
			return false
		}
		budget--
		rng := rng0
		cc := *c
		cc.Rng = &rng
		g, _ := examine(&cc, q, nil, full)
		return g != nil && g.v.Monitor == mon
	})
	if min != nil {
		rng := rng0
		cc := *c
		cc.Rng = &rng
		if g, _ := examine(&cc, min, nil, full); g != nil && g.v.Monitor == mon {
			res := result(g, min, signature(g, min))
			res.Key = progKey(p)
			res.Detail += "\n(minimised from a program of " + fmt.Sprint(p.NumOps()) + " operations)"
			return res
		}
	}
	return result(f, p, signature(f, p))
}
