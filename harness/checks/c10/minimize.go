package c10

import (
	"encoding/json"

	"verif/harness/promref"
)

func clone(p *promref.Program) *promref.Program {
	b, _ := json.Marshal(p)
	q := &promref.Program{}
	json.Unmarshal(b, q)
	return q
}

// mutations returns the number of single-step reductions applicable to p and applies the n-th to a copy.
func reductions(p *promref.Program) []*promref.Program {
	var out []*promref.Program
	add := func(f func(q *promref.Program) bool) {
		q := clone(p)
		if f(q) && q.Valid() {
			out = append(out, q)
		}
	}
	for i := range p.Segs {
		for j := range p.Segs[i] {
			add(func(q *promref.Program) bool {
				q.Segs[i] = append(q.Segs[i][:j:j], q.Segs[i][j+1:]...)
				if len(q.Segs[i]) == 0 {
					q.Segs = append(q.Segs[:i:i], q.Segs[i+1:]...)
				}
				return len(q.Segs) > 0
			})
		}
	}
	for i := 0; i+1 < len(p.Segs); i++ {
		add(func(q *promref.Program) bool {
			q.Segs[i] = append(q.Segs[i], q.Segs[i+1]...)
			q.Segs = append(q.Segs[:i+1:i+1], q.Segs[i+2:]...)
			return true
		})
	}
	for i := range p.GoSteps {
		add(func(q *promref.Program) bool {
			q.GoSteps = append(q.GoSteps[:i:i], q.GoSteps[i+1:]...)
			return true
		})
	}
	// inner simplifications, addressed by a running counter over the walk
	type edit func() bool
	count := func(q *promref.Program) []edit {
		var eds []edit
		var opw func(op *promref.Op)
		var valw func(v *promref.Val)
		var bodyw func(b *[]promref.AStep)
		hw := func(hp **promref.Handler) {
			h := *hp
			if h == nil {
				return
			}
			eds = append(eds, func() bool { *hp = nil; return true })
			if h.Native {
				eds = append(eds, func() bool { h.Native = false; return true })
			}
			if h.Do != nil {
				eds = append(eds, func() bool { h.Do = nil; return true })
				opw(h.Do)
			}
			valw(&h.V)
		}
		valw = func(v *promref.Val) {
			if v.K == promref.VThen || v.K == promref.VAsync || v.K == promref.VProm {
				eds = append(eds, func() bool { *v = promref.Val{K: promref.VNum, N: v.N, P: -1}; return true })
			}
			if v.K == promref.VAsync {
				bodyw(&v.Body)
			}
		}
		bodyw = func(b *[]promref.AStep) {
			for i := range *b {
				i := i
				eds = append(eds, func() bool { *b = append((*b)[:i:i], (*b)[i+1:]...); return true })
				valw(&(*b)[i].V)
			}
		}
		opw = func(op *promref.Op) {
			hw(&op.F)
			hw(&op.R)
			valw(&op.V)
			for i := range op.Items {
				i := i
				eds = append(eds, func() bool { op.Items = append(op.Items[:i:i], op.Items[i+1:]...); return true })
				valw(&op.Items[i])
			}
			for i := range op.Acts {
				i := i
				eds = append(eds, func() bool { op.Acts = append(op.Acts[:i:i], op.Acts[i+1:]...); return true })
				valw(&op.Acts[i].V)
			}
			if op.Cls != promref.ClsPromise {
				eds = append(eds, func() bool { op.Cls = promref.ClsPromise; return true })
			}
			bodyw(&op.Body)
		}
		for i := range q.Segs {
			for j := range q.Segs[i] {
				opw(&q.Segs[i][j])
			}
		}
		return eds
	}
	n := len(count(clone(p)))
	for k := 0; k < n; k++ {
		q := clone(p)
		eds := count(q)
		if k < len(eds) && eds[k]() && q.Valid() {
			out = append(out, q)
		}
	}
	return out
}

// minimize greedily applies reductions while still(p) holds; returns nil when nothing was reduced.
func minimize(p *promref.Program, still func(q *promref.Program) bool) *promref.Program {
	cur := p
	progress := true
	changed := false
	for progress {
		progress = false
		for _, q := range reductions(cur) {
			if still(q) {
				cur, progress, changed = q, true, true
				break
			}
		}
	}
	if !changed {
		return nil
	}
	return cur
}
