package c10

import (
	"fmt"
	"reflect"
	"strings"

	"github.com/dop251/goja"

	"verif/harness/gj"
	"verif/harness/promref"
)

const fuel = 400000

// entry variants of an outermost run
const (
	EntryRunString = iota
	EntryRunProgram
	EntryCallable // the segment is a JS function called from Go through AssertFunction
	EntryTrigger  // the segment is cut in two JS functions, each called (Callable) by a Go native reaction handler of a NewPromise() promise resolved from Go
	NEntries
)

var entryNames = [...]string{"RunString", "RunProgram", "Callable", "TriggerReaction"}

var typePromise = reflect.TypeOf((*goja.Promise)(nil))

var preludePrgs [4]*goja.Program

func init() {
	for i := range preludePrgs {
		src := promref.PreludeVars
		if i&1 != 0 {
			src += promref.PreludeClasses
		}
		if i&2 != 0 {
			src += promref.PreludeThenables
		}
		preludePrgs[i] = goja.MustCompile("prelude.js", src, false)
	}
}

// progCache holds the compiled form of the sources of one case (a goja.Program is immutable and reusable across runtimes).
type progCache map[string]*goja.Program

func (pc progCache) get(name, src string) (*goja.Program, error) {
	if p, ok := pc[src]; ok {
		return p, nil
	}
	p, err := goja.Compile(name, src, false)
	if err != nil {
		return nil, err
	}
	pc[src] = p
	return p, nil
}

// host is one goja runtime with the natives of the op language and the observation buffers.
type host struct {
	r        *goja.Runtime
	log      []string
	tracker  []string
	proms    []*goja.Promise
	probeN   int
	probeAt  int
	fired    bool
	goRes    [promref.MaxVars]func(interface{}) error
	goRej    [promref.MaxVars]func(interface{}) error
	hostFail string // a native saw something it cannot handle
}

func (h *host) promIndex(p *goja.Promise) int {
	for i, q := range h.proms {
		if q == p {
			return i
		}
	}
	h.proms = append(h.proms, p)
	return len(h.proms) - 1
}

// render mirrors promref.Render on engine values.
func (h *host) render(v goja.Value, depth int) string {
	if v == nil || goja.IsUndefined(v) {
		return "u"
	}
	if goja.IsNull(v) {
		return "null"
	}
	if goja.IsNumber(v) {
		f := v.ToFloat()
		if f == float64(int(f)) {
			return fmt.Sprintf("n:%d", int(f))
		}
		return fmt.Sprintf("n:%v", f)
	}
	o, ok := v.(*goja.Object)
	if !ok {
		return "?" + v.String()
	}
	if depth > 64 { // values are acyclic and nest at most once per operation; the reference renderer has no cap
		return "…"
	}
	if o.ExportType() == typePromise {
		if p, ok := o.Export().(*goja.Promise); ok {
			return fmt.Sprintf("P@%d;", h.promIndex(p))
		}
	}
	if _, ok := goja.AssertFunction(o); ok {
		return "f"
	}
	if t := o.Get("__t"); t != nil {
		return fmt.Sprintf("T%d", t.ToInteger())
	}
	if o.ClassName() == "Array" {
		n := int(o.Get("length").ToInteger())
		parts := make([]string, n)
		for i := 0; i < n; i++ {
			parts[i] = h.render(o.Get(fmt.Sprint(i)), depth+1)
		}
		return "[" + strings.Join(parts, ",") + "]"
	}
	if s := o.Get("status"); s != nil {
		key := "value"
		if s.String() == "rejected" {
			key = "reason"
		}
		return "{" + s.String() + ":" + h.render(o.Get(key), depth+1) + "}"
	}
	name := gj.ErrorCtorName(h.r, o)
	if strings.HasSuffix(name, "Error") {
		if name == "AggregateError" {
			return "E:" + name + h.render(o.Get("errors"), depth+1)
		}
		return "E:" + name
	}
	return "o:" + name
}

func newHost(p *promref.Program, probeAt int) (*host, string) {
	h := &host{r: gj.NewRuntime(), probeAt: probeAt}
	r := h.r
	goja.VerifSetFuel(r, fuel)
	goja.VerifTraceJobs(r, true)
	r.Set("log", func(call goja.FunctionCall) goja.Value {
		s := call.Argument(0).String()
		if len(call.Arguments) > 1 {
			s += " " + h.render(call.Arguments[1], 0)
		}
		h.log = append(h.log, s)
		return goja.Undefined()
	})
	r.Set("probe", func(call goja.FunctionCall) goja.Value {
		h.probeN++
		h.log = append(h.log, fmt.Sprintf("#%d", h.probeN))
		if h.probeN == h.probeAt {
			h.fired = true
			r.Interrupt("c10-probe")
		}
		return goja.Undefined()
	})
	r.Set("gonative", func(call goja.FunctionCall) goja.Value {
		f, ok := goja.AssertFunction(call.Argument(0))
		if !ok {
			h.hostFail = "gonative: not a function"
			return goja.Undefined()
		}
		return r.ToValue(func(c goja.FunctionCall) goja.Value {
			v, err := f(goja.Undefined(), c.Arguments...)
			if err != nil {
				panic(err)
			}
			return v
		})
	})
	resolver := func(reject bool) func(call goja.FunctionCall) goja.Value {
		return func(call goja.FunctionCall) goja.Value {
			k := int(call.Argument(0).ToInteger())
			f := h.goRes[k]
			if reject {
				f = h.goRej[k]
			}
			if f == nil {
				h.hostFail = "gores: no such Go promise"
				return goja.Undefined()
			}
			if err := f(call.Argument(1)); err != nil {
				panic(err)
			}
			return goja.Undefined()
		}
	}
	r.Set("gores", resolver(false))
	r.Set("gorej", resolver(true))
	r.SetPromiseRejectionTracker(func(pr *goja.Promise, op goja.PromiseRejectionOperation) {
		name := "reject"
		if op == goja.PromiseRejectionHandle {
			name = "handle"
		} else if op != goja.PromiseRejectionReject {
			name = fmt.Sprintf("op%d", op)
		}
		h.tracker = append(h.tracker, fmt.Sprintf("%s P@%d;", name, h.promIndex(pr)))
	})
	which := 0
	if cl, th := p.Uses(); cl || th {
		if cl {
			which |= 1
		}
		if th {
			which |= 2
		}
	}
	o := gj.Call(func() (goja.Value, error) { return r.RunProgram(preludePrgs[which]) })
	if o.Err != nil || o.Panic != nil || o.Fuel || o.Assertion != nil {
		return nil, fmt.Sprintf("prelude failed: %+v", o)
	}
	for _, g := range p.GoVars {
		pr, res, rej := r.NewPromise()
		h.goRes[g], h.goRej[g] = res, rej
		r.Set(fmt.Sprintf("p%d", g), pr)
	}
	if ev := goja.VerifJobEvents(r); len(ev) != 1 || ev[0].Kind != 'i' || ev[0].ID != 0 || len(h.log) != 0 {
		return nil, fmt.Sprintf("prelude queued jobs or logged: %v %v", ev, h.log)
	}
	return h, ""
}

// varPromise returns the promise held by variable p<k> (nil if it holds none).
func (h *host) varPromise(k int) *goja.Promise {
	v := h.r.Get(fmt.Sprintf("p%d", k))
	if o, ok := v.(*goja.Object); ok && o.ExportType() == typePromise {
		if p, ok := o.Export().(*goja.Promise); ok {
			return p
		}
	}
	return nil
}

func (h *host) snapshot() (st [promref.MaxVars]string) {
	for k := 0; k < promref.MaxVars; k++ {
		p := h.varPromise(k)
		if p == nil {
			st[k] = "-"
			continue
		}
		switch p.State() {
		case goja.PromiseStatePending:
			st[k] = "pending"
		case goja.PromiseStateFulfilled:
			st[k] = "fulfilled " + h.render(p.Result(), 0)
		case goja.PromiseStateRejected:
			st[k] = "rejected " + h.render(p.Result(), 0)
		default:
			st[k] = fmt.Sprintf("state%d", p.State())
		}
	}
	return
}

// name resolves the P@<idx>; placeholders with the final variable assignment (the highest variable holding that promise), like promref.M.Name.
func (h *host) name(line string) string {
	if !strings.Contains(line, "P@") {
		return line
	}
	var b strings.Builder
	for {
		i := strings.Index(line, "P@")
		if i < 0 {
			b.WriteString(line)
			break
		}
		j := strings.IndexByte(line[i:], ';')
		var idx int
		fmt.Sscanf(line[i+2:i+j], "%d", &idx)
		b.WriteString(line[:i])
		name := "P?"
		for k := 0; k < promref.MaxVars; k++ {
			if p := h.varPromise(k); p != nil && idx < len(h.proms) && p == h.proms[idx] {
				name = fmt.Sprintf("P%d", k)
			}
		}
		b.WriteString(name)
		line = line[i+j+1:]
	}
	return b.String()
}
