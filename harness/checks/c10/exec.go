package c10

import (
	"fmt"

	"github.com/dop251/goja"

	"verif/harness/gj"
	"verif/harness/promref"
)

type runCfg struct {
	Entry    int  `json:"entry"`
	ProbeAt  int  `json:"probe_at"` // interrupt at the n-th probe() call (0 = never)
	NoNative bool `json:"no_native,omitempty"`
}

// stepObs is what was observed for one step of the schedule (one outermost call, or a few for the trigger variant).
type stepObs struct {
	Log         []string
	Tracker     []string
	States      [promref.MaxVars]string
	Events      []goja.VerifJobEvent
	ErrKind     string // "" | "interrupted" | other error kinds (unexpected)
	Err         string
	Idle        string // gj.IdleProblem after the call
	Jobs        int    // VerifState.Jobs after the call
	Interrupted bool   // interrupt flag still set after the call
}

type obs struct {
	Steps     []stepObs
	Broken    string // harness-level failure (panic, fuel, assertion, host)
	BrokenMon string
	Stopped   int // index of the step that ended in an interrupt (-1: none)
	After     *stepObs
	h         *host
}

func evString(ev []goja.VerifJobEvent) string {
	s := ""
	for i, e := range ev {
		if i > 0 {
			s += " "
		}
		s += fmt.Sprintf("%c%d", e.Kind, e.ID)
	}
	return s
}

// call performs one outermost API call and appends what it produced to so.
func (o *obs) call(so *stepObs, f func() (goja.Value, error)) bool {
	h := o.h
	out := gj.Call(f)
	so.Events = append(so.Events, goja.VerifJobEvents(h.r)...)
	switch {
	case out.Panic != nil:
		o.Broken, o.BrokenMon = fmt.Sprintf("Go panic escaped: %v\n%s", out.Panic, out.PanicStack), "go-panic-escaped"
		return false
	case out.Assertion != nil:
		o.Broken, o.BrokenMon = out.Assertion.Error(), "verif-assertion"
		return false
	case out.Fuel:
		o.Broken, o.BrokenMon = "fuel exhausted although the reference scheduler terminates", "fuel"
		return false
	}
	if out.Err != nil {
		so.ErrKind = gj.ErrKind(out.Err)
		so.Err = out.Err.Error()
	}
	return true
}

func (o *obs) finish(so *stepObs, l0, t0 int) {
	h := o.h
	so.Log = append([]string(nil), h.log[l0:]...)
	so.Tracker = append([]string(nil), h.tracker[t0:]...)
	so.States = h.snapshot()
	so.Idle = gj.IdleProblem(h.r, true)
	st := goja.VerifState(h.r)
	so.Jobs = st.Jobs
	so.Interrupted = st.Interrupted
}

// cutOf is where the trigger variant cuts segment i in two.
func cutOf(p *promref.Program, i int) int { return (len(p.Segs[i]) + 1) / 2 }

// execute runs the program under a schedule and an entry variant on a fresh runtime.
func execute(p *promref.Program, sched []promref.Step, cfg runCfg, pc progCache) *obs {
	o := &obs{Stopped: -1}
	h, why := newHost(p, cfg.ProbeAt)
	if h == nil {
		o.Broken, o.BrokenMon = why, "harness"
		return o
	}
	o.h = h
	r := h.r
	opts := promref.PrintOpts{NoNative: cfg.NoNative, Guard: p.HasThrowingCtor()}
	// definitions for the function-entry variants (no job is queued by them)
	if cfg.Entry == EntryCallable || cfg.Entry == EntryTrigger {
		src := ""
		for i := range p.Segs {
			if cfg.Entry == EntryCallable {
				src += fmt.Sprintf("function seg%d() {\n%s}\n", i, promref.PrintSegment(p, i, opts))
			} else {
				c := cutOf(p, i)
				src += fmt.Sprintf("function seg%da() {\n%s}\nfunction seg%db() {\n%s}\n", i, promref.PrintOps(p.Segs[i][:c], opts), i, promref.PrintOps(p.Segs[i][c:], opts))
			}
		}
		var so stepObs
		defs, err := pc.get("defs.js", src)
		if err != nil {
			o.Broken, o.BrokenMon = "compile: "+err.Error(), "harness"
			return o
		}
		if !o.call(&so, func() (goja.Value, error) { return r.RunProgram(defs) }) {
			return o
		}
		if so.Err != "" || evString(so.Events) != "i0" {
			o.Broken, o.BrokenMon = "definitions failed: "+so.Err+" "+evString(so.Events), "harness"
			return o
		}
	}
	for si, s := range sched {
		var so stepObs
		l0, t0 := len(h.log), len(h.tracker)
		ok := true
		switch {
		case s.Run < 0:
			gs := p.GoSteps[s.Go]
			f := h.goRes[gs.G]
			if gs.Reject {
				f = h.goRej[gs.G]
			}
			var v interface{}
			switch gs.V.K {
			case promref.VNum:
				v = gs.V.N
			case promref.VProm:
				v = r.Get(fmt.Sprintf("p%d", gs.V.P))
				if v == nil {
					v = goja.Undefined()
				}
			default:
				v = goja.Undefined()
			}
			ok = o.call(&so, func() (goja.Value, error) { return nil, f(v) })
		case cfg.Entry == EntryRunString:
			src := promref.PrintSegment(p, s.Run, opts)
			ok = o.call(&so, func() (goja.Value, error) { return r.RunString(src) })
		case cfg.Entry == EntryRunProgram:
			src := promref.PrintSegment(p, s.Run, opts)
			prg, err := pc.get(fmt.Sprintf("seg%d.js", s.Run), src)
			if err != nil {
				o.Broken, o.BrokenMon = "compile: "+err.Error(), "harness"
				return o
			}
			ok = o.call(&so, func() (goja.Value, error) { return r.RunProgram(prg) })
		case cfg.Entry == EntryCallable:
			f, isF := goja.AssertFunction(r.Get(fmt.Sprintf("seg%d", s.Run)))
			if !isF {
				o.Broken, o.BrokenMon = "segment function missing", "harness"
				return o
			}
			ok = o.call(&so, func() (goja.Value, error) { return f(goja.Undefined()) })
		default: // EntryTrigger
			tp, tres, _ := r.NewPromise()
			r.Set("tp", tp)
			for _, half := range []string{"a", "b"} {
				f, isF := goja.AssertFunction(r.Get(fmt.Sprintf("seg%d%s", s.Run, half)))
				if !isF {
					o.Broken, o.BrokenMon = "segment function missing", "harness"
					return o
				}
				r.Set("trig"+half, func(goja.FunctionCall) goja.Value {
					if _, err := f(goja.Undefined()); err != nil {
						panic(err)
					}
					return goja.Undefined()
				})
			}
			var setup stepObs
			if !o.call(&setup, func() (goja.Value, error) { return r.RunString("tp.then(triga); tp.then(trigb);") }) {
				return o
			}
			if setup.Err != "" || evString(setup.Events) != "i0" {
				o.Broken, o.BrokenMon = "trigger setup failed: "+setup.Err+" "+evString(setup.Events), "harness"
				return o
			}
			ok = o.call(&so, func() (goja.Value, error) { return nil, tres(0) })
		}
		if !ok {
			o.Steps = append(o.Steps, so)
			return o
		}
		o.finish(&so, l0, t0)
		o.Steps = append(o.Steps, so)
		if h.hostFail != "" {
			o.Broken, o.BrokenMon = h.hostFail, "harness"
			return o
		}
		if so.ErrKind != "" {
			o.Stopped = si
			break
		}
	}
	if o.Stopped >= 0 {
		// reuse: a later run must work and must not see any of the dropped jobs
		var so stepObs
		l0, t0 := len(h.log), len(h.tracker)
		h.probeAt = 0
		if !o.call(&so, func() (goja.Value, error) {
			return r.RunString(`Promise.resolve(7).then(function(v) { log("after", v); });`)
		}) {
			return o
		}
		o.finish(&so, l0, t0)
		o.After = &so
	}
	return o
}
