package c10

import (
	"fmt"
	"strings"

	"verif/harness/core"
	"verif/harness/promref"
)

type violation struct {
	Monitor string
	Detail  string
}

// traceTotals is the evidence drawn from the hook-c events of one execution.
type traceTotals struct {
	Enq, Run, Dropped, HookDropped int
	MaxQueue                       int
}

// checkTrace is monitor (a): the model-free specification of the job trace over all steps of one execution.
func checkTrace(o *obs) (*violation, traceTotals) {
	var tt traceTotals
	var pending []int64
	var lastEnq, lastRun int64
	ran := map[int64]bool{}
	dropped := map[int64]bool{}
	steps := o.Steps
	if o.After != nil {
		steps = append(append([]stepObs(nil), steps...), *o.After)
	}
	for si := range steps {
		so := &steps[si]
		bad := func(format string, a ...any) (*violation, traceTotals) {
			return &violation{"job-trace", fmt.Sprintf("step %d: ", si) + fmt.Sprintf(format, a...) + "\n  events: " + evString(so.Events)}, tt
		}
		if len(pending) != 0 {
			return bad("%d jobs still pending when the call started", len(pending))
		}
		sawIdle, sawDrop, ranHere := false, false, 0
		for _, e := range so.Events {
			if sawIdle {
				return bad("event %c%d after the queue was reported idle (re-entrant drain inside a running job)", e.Kind, e.ID)
			}
			switch e.Kind {
			case 'e':
				if e.ID <= lastEnq {
					return bad("enqueue ids not increasing: %d after %d", e.ID, lastEnq)
				}
				lastEnq = e.ID
				pending = append(pending, e.ID)
				tt.Enq++
				if len(pending) > tt.MaxQueue {
					tt.MaxQueue = len(pending)
				}
			case 'r':
				if sawDrop {
					return bad("job %d ran after the queue was dropped by an interrupt", e.ID)
				}
				if ran[e.ID] {
					return bad("job %d ran twice", e.ID)
				}
				if dropped[e.ID] {
					return bad("job %d ran although it was dropped by an earlier interrupt", e.ID)
				}
				if e.ID <= lastRun {
					return bad("FIFO: job %d ran after job %d", e.ID, lastRun)
				}
				if len(pending) == 0 || pending[0] != e.ID {
					return bad("FIFO: job %d ran while the oldest pending job is %v", e.ID, pending)
				}
				pending = pending[1:]
				ran[e.ID] = true
				lastRun = e.ID
				tt.Run++
				ranHere++
			case 'd':
				if sawDrop {
					// a second drop event may only report an empty queue
					if e.ID != 0 {
						return bad("second drop event with %d jobs", e.ID)
					}
					continue
				}
				sawDrop = true
				if int(e.ID) > len(pending) {
					return bad("drop of %d jobs with only %d pending", e.ID, len(pending))
				}
				if ranHere == 0 && int(e.ID) != len(pending) {
					return bad("interrupt in the main body dropped %d of %d pending jobs", e.ID, len(pending))
				}
				tt.HookDropped += int(e.ID)
				tt.Dropped += len(pending)
				for _, id := range pending {
					dropped[id] = true
				}
				pending = nil
			case 'i':
				if e.ID != 0 {
					return bad("idle event with %d jobs left in the queue", e.ID)
				}
				if len(pending) != 0 {
					return bad("idle event while jobs %v never ran", pending)
				}
				sawIdle = true
			default:
				return bad("unknown event kind %c", e.Kind)
			}
		}
		if so.Jobs != 0 {
			return bad("job queue length %d after the outermost return", so.Jobs)
		}
		if so.ErrKind == "" {
			if !sawIdle || sawDrop {
				return bad("normal outermost return without exactly one final idle event")
			}
			if so.Idle != "" {
				return bad("VM not idle after a normal outermost return: %s", so.Idle)
			}
			if so.Interrupted {
				return bad("interrupt flag set after a normal return")
			}
		} else if so.ErrKind == "interrupted" {
			if !sawDrop || sawIdle {
				return bad("interrupted call without a drop event (or with an idle event)")
			}
			if so.Interrupted {
				return bad("interrupt flag still set after the interrupted call returned")
			}
		}
	}
	if tt.Enq != tt.Run+tt.Dropped {
		return &violation{"job-trace", fmt.Sprintf("conservation: enqueued %d != run %d + dropped %d", tt.Enq, tt.Run, tt.Dropped)}, tt
	}
	return nil, tt
}

func stripProbes(log []string) []string {
	out := make([]string, 0, len(log))
	for _, l := range log {
		if !strings.HasPrefix(l, "#") {
			out = append(out, l)
		}
	}
	return out
}

func diffLists(what string, exp, got []string) string {
	n := len(exp)
	if len(got) < n {
		n = len(got)
	}
	at := n
	for i := 0; i < n; i++ {
		if exp[i] != got[i] {
			at = i
			break
		}
	}
	return fmt.Sprintf("%s differs at entry %d:\n  expected: %s\n  observed: %s", what, at, strings.Join(exp, " | "), strings.Join(got, " | "))
}

func eqLists(a, b []string) bool {
	if len(a) != len(b) {
		return false
	}
	for i := range a {
		if a[i] != b[i] {
			return false
		}
	}
	return true
}

// checkAgainstModel is monitors (b) handler log, (c) tracker events, (d) State()/Result() — per step, against promref.
func checkAgainstModel(o *obs, t *promref.Trace) *violation {
	if len(o.Steps) != len(t.Steps) {
		return &violation{"harness", fmt.Sprintf("executed %d steps, model %d", len(o.Steps), len(t.Steps))}
	}
	for si := range o.Steps {
		so, ms := &o.Steps[si], &t.Steps[si]
		if so.ErrKind != "" {
			return &violation{"unexpected-error", fmt.Sprintf("step %d returned %s: %s (the reference completes normally)", si, so.ErrKind, core.Trunc(so.Err, 300))}
		}
		exp, got := make([]string, len(ms.Log)), stripProbes(so.Log)
		for i, l := range ms.Log {
			exp[i] = t.M.Name(l)
		}
		for i, l := range got {
			got[i] = o.h.name(l)
		}
		if !eqLists(exp, got) {
			return &violation{"handler-log", fmt.Sprintf("step %d: ", si) + diffLists("handler log", exp, got)}
		}
		expT, gotT := make([]string, len(ms.Tracker)), make([]string, len(so.Tracker))
		for i, l := range ms.Tracker {
			expT[i] = t.M.Name(l)
		}
		for i, l := range so.Tracker {
			gotT[i] = o.h.name(l)
		}
		if !eqLists(expT, gotT) {
			return &violation{"rejection-tracker", fmt.Sprintf("step %d: ", si) + diffLists("tracker events", expT, gotT)}
		}
		for k := 0; k < promref.MaxVars; k++ {
			e, g := t.M.Name(ms.States[k]), o.h.name(so.States[k])
			if e != g {
				return &violation{"promise-state", fmt.Sprintf("step %d: p%d State()/Result(): expected %q observed %q", si, k, e, g)}
			}
		}
	}
	return nil
}

func flatLog(o *obs) []string {
	var l []string
	for i := range o.Steps {
		l = append(l, o.Steps[i].Log...)
	}
	return l
}

// checkInterrupted is monitor (e): base is the uninterrupted execution of the same program/schedule/entry,
// o the one interrupted at probe number at.
func checkInterrupted(o, base *obs, at int) *violation {
	if o.Stopped < 0 {
		return &violation{"interrupt", fmt.Sprintf("Interrupt() at probe %d did not end any call with an InterruptedError (fired=%v)", at, o.h.fired)}
	}
	so := &o.Steps[o.Stopped]
	if so.ErrKind != "interrupted" {
		return &violation{"interrupt", fmt.Sprintf("call ended with %s (%s) instead of InterruptedError", so.ErrKind, core.Trunc(so.Err, 200))}
	}
	// everything logged must be the uninterrupted log cut right after the probe marker
	full := flatLog(base)
	got := flatLog(o)
	marker := fmt.Sprintf("#%d", at)
	cut := -1
	for i, l := range full {
		if l == marker {
			cut = i + 1
			break
		}
	}
	if cut < 0 {
		return &violation{"harness", "probe marker not in the base log"}
	}
	if !eqLists(full[:cut], got) {
		return &violation{"interrupt-job-ran", diffLists(fmt.Sprintf("log of the run interrupted at probe %d vs the prefix of the uninterrupted run", at), full[:cut], got)}
	}
	if o.After == nil {
		return &violation{"harness", "no reuse run"}
	}
	a := o.After
	if a.ErrKind != "" {
		return &violation{"interrupt-reuse", "run after the interrupted one failed: " + a.ErrKind + " " + core.Trunc(a.Err, 200)}
	}
	if !eqLists(a.Log, []string{"after n:7"}) {
		return &violation{"interrupt-job-ran", diffLists("log of the run following the interrupted one", []string{"after n:7"}, a.Log)}
	}
	return nil
}
