package c10

import (
	"fmt"

	"verif/harness/core"
	"verif/harness/promref"
)

func num(n int) promref.Val { return promref.Val{K: promref.VNum, N: n, P: -1} }

func leaf(id int) *promref.Handler { return &promref.Handler{ID: id, K: promref.HReturn, V: num(id)} }

// pinned regression witnesses (3: a corrected false alarm of the harness; 4: await with an abrupt PromiseResolve). 0..2: the nested-drain defect (inbox/C10-nested-drain.md): a reaction whose handler is a
// Go native calling a Callable drains the job queue re-entrantly when the outermost entry was a Callable / a Go-held resolver.
var pinned = []*promref.Program{
	// p0 = Promise.resolve(1); p0.then(gonative(h1 { p0.then(h2) })); p0.then(h3)      expected h1 h3 h2
	{Segs: [][]promref.Op{{
		{K: promref.OpStatic, St: promref.StResolve, Dst: 0, V: num(1)},
		{K: promref.OpThen, Dst: -1, Src: 0, F: &promref.Handler{ID: 1, K: promref.HReturn, V: num(1), Native: true,
			Do: &promref.Op{K: promref.OpThen, Dst: -1, Src: 0, F: leaf(2)}}},
		{K: promref.OpThen, Dst: -1, Src: 0, F: leaf(3)},
	}}},
	// the same with p0 created by Runtime.NewPromise() and resolved from Go after the run
	{GoVars: []int{0}, GoSteps: []promref.GoStep{{G: 0, V: num(1)}}, Segs: [][]promref.Op{{
		{K: promref.OpThen, Dst: -1, Src: 0, F: &promref.Handler{ID: 1, K: promref.HReturn, V: num(1), Native: true,
			Do: &promref.Op{K: promref.OpThen, Dst: -1, Src: 0, F: leaf(2)}}},
		{K: promref.OpThen, Dst: -1, Src: 0, F: leaf(3)},
	}}},
	// no native handler in the program: the trigger-reaction entry alone shows it (first half's jobs run before the second half's body)
	{Segs: [][]promref.Op{{
		{K: promref.OpStatic, St: promref.StResolve, Dst: 0, V: num(1)},
		{K: promref.OpThen, Dst: -1, Src: 0, F: leaf(1)},
		{K: promref.OpLog, Dst: -1, ID: 2},
		{K: promref.OpLog, Dst: -1, ID: 3},
	}}},
	// harness regression (false alarm of the thorough tier, seed 1 index 346831): a result value nested 5 levels deep
	// ([{fulfilled:[{rejected:AggregateError[]}]}]) was cut by a depth cap in the engine-side renderer only
	{Segs: [][]promref.Op{{
		{K: promref.OpStatic, St: promref.StAny, Dst: 0},
		{K: promref.OpStatic, St: promref.StAllSettled, Dst: 1, Items: []promref.Val{{K: promref.VProm, P: 0}}},
		{K: promref.OpCatch, Dst: 2, Src: 0, R: &promref.Handler{ID: 2, K: promref.HReturn, V: promref.Val{K: promref.VProm, P: 1}}},
		{K: promref.OpStatic, St: promref.StAllSettled, Dst: 4, Items: []promref.Val{{K: promref.VProm, P: 2}}},
	}}},
	// inbox/C10-await-promiseresolve-abrupt.md (fixed in /repo 8a319ed): await of a promise whose "constructor" getter throws -
	// the exception must be thrown at the await (catchable inside the async function), also when the await is reached from a job
	{Segs: [][]promref.Op{{
		{K: promref.OpStatic, St: promref.StResolve, Dst: 0, V: num(1)},
		{K: promref.OpSetCtor, Dst: -1, Src: 0, Ctor: &promref.CtorSpec{Getter: true, Throws: true, N: 42, ID: 9}},
		{K: promref.OpAsync, Dst: 1, ID: 3, Body: []promref.AStep{{K: promref.AAwait, V: promref.Val{K: promref.VProm, P: 0}, Catch: true}}},
		{K: promref.OpThen, Dst: -1, Src: 1, F: leaf(4), R: leaf(5)},
		{K: promref.OpAsync, Dst: 2, ID: 6, Body: []promref.AStep{{K: promref.AAwait, V: num(0)}, {K: promref.AAwait, V: promref.Val{K: promref.VProm, P: 0}}}},
		{K: promref.OpThen, Dst: -1, Src: 2, F: leaf(7), R: leaf(8)},
		{K: promref.OpLog, Dst: -1, ID: 10},
		{K: promref.OpStatic, St: promref.StAll, Dst: 3, Items: []promref.Val{num(2), {K: promref.VProm, P: 0}}},
		{K: promref.OpStatic, St: promref.StResolve, Dst: 4, V: promref.Val{K: promref.VProm, P: 0}},
	}}},
}

func pinnedSignature(k int, f *found) string {
	return fmt.Sprintf("pinned%d:%s", k, f.v.Monitor) // the entry variant of the interrupt sweep depends on the seed
}

func runPinned(c *core.Ctx) core.Result {
	k := -c.Index - 1
	p := pinned[k]
	if !p.Valid() {
		return core.Result{Verdict: core.Inconclusive, Monitor: "pinned-program-invalid"}
	}
	if c.Replay {
		cr := caseRec{Program: p}
		cr.fill()
		for i, s := range cr.JS {
			fmt.Printf("--- segment %d ---\n%s", i, s)
		}
	}
	countOps(p, c.Stats)
	f, nontrivial := examine(c, p, c.Stats, true)
	if f == nil {
		return core.Result{Verdict: core.Held, NonTrivial: nontrivial, Key: progKey(p)}
	}
	return result(f, p, pinnedSignature(k, f))
}
