package c10

import (
	"fmt"
	"os"
	"testing"

	"verif/harness/core"
	"verif/harness/promref"
)

func BenchmarkCase(b *testing.B) {
	st := core.NewStats()
	for i := 0; i < b.N; i++ {
		c := &core.Ctx{Property: "C10", Tier: "quick", Seed: 1, Index: i, Rng: core.CaseRng(1, "C10", i), Stats: st}
		r := run(c)
		if r.Verdict != core.Held {
			b.Fatalf("case %d: %s %s", i, r.Monitor, r.Detail)
		}
	}
	b.ReportMetric(float64(st.Counters["executions"])/float64(b.N), "exec/case")
}

// TestSweep is a development aid: C10_N cases (default 300) without minimisation, summary of which monitors fired.
// Used for mutation trials: go test -modfile=.alt/<tag>.mod -tags verif -run TestSweep ./checks/c10/
func TestSweep(t *testing.T) {
	n := 300
	fmt.Sscan(os.Getenv("C10_N"), &n)
	st := core.NewStats()
	fired := map[string]int{}
	first := map[string]string{}
	viol := 0
	for i := -len(pinned); i < n; i++ {
		c := &core.Ctx{Property: "C10", Tier: "quick", Seed: 1, Index: i, Rng: core.CaseRng(1, "C10", i), Stats: st}
		var p *promref.Program
		if i < 0 {
			p = pinned[-i-1]
		} else {
			p = promref.Generate(c.Rng)
		}
		f, _ := examine(c, p, st, true)
		if f != nil {
			viol++
			fired[f.v.Monitor]++
			if first[f.v.Monitor] == "" {
				cr := caseRec{Program: p, Cfg: f.cfg}
				cr.fill()
				first[f.v.Monitor] = fmt.Sprintf("case %d entry=%s probeAt=%d sched=%v\n%s\n%v", i, entryNames[f.cfg.Entry], f.cfg.ProbeAt, f.sched, core.Trunc(f.v.Detail, 1500), cr.JS)
			}
		}
	}
	fmt.Printf("SWEEP cases=%d violations=%d monitors=%v\n", n+len(pinned), viol, fired)
	for m, d := range first {
		fmt.Printf("--- first %s: %s\n", m, d)
	}
	if viol > 0 && os.Getenv("C10_EXPECT_FIRE") == "" {
		t.Fail()
	}
}
