package c07

import (
	"fmt"
	"reflect"
	"sort"
	"strconv"
	"strings"

	"github.com/dop251/goja"

	m "verif/harness/arrmodel"
	"verif/harness/core"
	"verif/harness/gj"
)

const (
	fuelPerOp   = 4000000
	maxPropLen  = 20000 // length-proportional operations are only issued at or below this length
	burstSize   = 1100
	sparseDelta = 5000
	spareCap    = 6 // spare capacity (filled with sentinels) of the Go slices handed to the wrappers
)

var preludeProg = goja.MustCompile("c07-prelude.js", m.Prelude, false)

type engine struct {
	r *goja.Runtime
	a *goja.Object
}

type execError struct {
	monitor string
	detail  string
	fuel    bool
}

func goVal(lit string, intOnly bool) interface{} {
	switch lit {
	case "null", "undefined", "":
		if intOnly {
			return 0
		}
		return nil
	case "true":
		return true
	case "false":
		return false
	}
	if strings.HasPrefix(lit, "'") {
		return lit[1 : len(lit)-1]
	}
	f, err := strconv.ParseFloat(lit, 64)
	if err != nil {
		panic("c07: bad Go literal " + lit)
	}
	if f == float64(int64(f)) && !(f == 0 && 1/f < 0) {
		if intOnly {
			return int(f)
		}
		return int64(f)
	}
	return f
}

func newEngine(cs *Case) (*engine, *execError) {
	e := &engine{r: gj.NewRuntime()}
	goja.VerifSetFuel(e.r, fuelPerOp)
	o := gj.Call(func() (goja.Value, error) { return e.r.RunProgram(preludeProg) })
	if o.Err != nil || o.Panic != nil {
		return nil, &execError{monitor: "harness-prelude", detail: fmt.Sprint(o.Err, o.Panic)}
	}
	switch cs.Recv.Kind {
	case "dense", "arraylike":
		o = gj.Call(func() (goja.Value, error) { return e.r.RunString(cs.recvJS()) })
	case "goslice", "gosliceptr":
		// the host slice is a sub-slice with spare capacity whose backing array holds sentinels past len():
		// growing from script must expose empty (null) slots, never resurrect what the backing array held
		n := len(cs.Recv.Elems)
		backing := make([]interface{}, n+spareCap)
		for i, l := range cs.Recv.Elems {
			backing[i] = goVal(l, false)
		}
		for i := n; i < len(backing); i++ {
			backing[i] = "STALE" + strconv.Itoa(i-n)
		}
		s := backing[:n]
		o = gj.Call(func() (goja.Value, error) {
			if cs.Recv.Kind == "gosliceptr" {
				return nil, e.r.Set("a", &s)
			}
			return nil, e.r.Set("a", s)
		})
	case "reflect":
		n := len(cs.Recv.Elems)
		backing := make([]int, n+spareCap)
		for i, l := range cs.Recv.Elems {
			backing[i] = goVal(l, true).(int)
		}
		for i := n; i < len(backing); i++ {
			backing[i] = 990000 + i - n // sentinels in the spare capacity
		}
		s := backing[:n]
		o = gj.Call(func() (goja.Value, error) { return nil, e.r.Set("a", &s) })
	default:
		return nil, &execError{monitor: "harness-recv", detail: "unknown receiver kind " + cs.Recv.Kind}
	}
	if o.Err != nil || o.Panic != nil {
		return nil, &execError{monitor: "harness-recv", detail: fmt.Sprint(o.Err, o.Panic)}
	}
	a, ok := e.r.Get("a").(*goja.Object)
	if !ok {
		return nil, &execError{monitor: "harness-recv", detail: "receiver is not an object"}
	}
	e.a = a
	return e, nil
}

func newModel(cs *Case) *m.Realm {
	r := m.NewRealm()
	switch cs.Recv.Kind {
	case "dense":
		a := r.ArrayCreate(0)
		for i, l := range cs.Recv.Elems {
			if l != "" {
				r.CreateDataPropertyOrThrow(a, m.IdxKey(float64(i)), r.Lit(l))
			}
		}
		r.Set(a, "length", float64(len(cs.Recv.Elems)), a)
		r.Recv = a
	case "arraylike":
		a := r.NewArrayLike(r.Lit(cs.Recv.Len))
		for i, l := range cs.Recv.Elems {
			if l != "" {
				r.CreateDataPropertyOrThrow(a, m.IdxKey(float64(i)), r.Lit(l))
			}
		}
		r.Recv = a
	case "goslice", "gosliceptr", "reflect":
		vals := make([]m.Value, len(cs.Recv.Elems))
		for i, l := range cs.Recv.Elems {
			if l == "" || l == "undefined" {
				l = "null"
			}
			vals[i] = r.Lit(l)
			if cs.Recv.Kind == "reflect" && m.IsNull(vals[i]) {
				vals[i] = 0.0
			}
		}
		r.Recv = r.NewGoSlice(vals, cs.Recv.Kind == "reflect")
	}
	return r
}

// run executes src on the engine under a fresh fuel allowance.
func (e *engine) run(src string) (string, *execError) {
	goja.VerifSetFuel(e.r, goja.VerifSteps(e.r)+fuelPerOp)
	o := gj.Call(func() (goja.Value, error) { return e.r.RunString(src) })
	switch {
	case o.Fuel:
		return "", &execError{monitor: "fuel", fuel: true}
	case o.Panic != nil:
		return "", &execError{monitor: "go-panic-escaped", detail: fmt.Sprintf("Go panic escaped RunString: %v\n%s", o.Panic, core.Trunc(o.PanicStack, 2500))}
	case o.Assertion != nil:
		return "", &execError{monitor: "verif-assertion", detail: o.Assertion.Error()}
	case o.Err != nil:
		return "", &execError{monitor: "engine-error", detail: "unexpected error outside T(): " + o.Err.Error()}
	}
	if o.Val == nil {
		return "", nil
	}
	return o.Val.String(), nil
}

// op runs one op and returns (result string, dump string).
func (e *engine) op(o *Op) (string, string, *execError) {
	out, err := e.run("T(function(){" + o.js() + "})+'\\n'+D(a,0)")
	if err != nil {
		return "", "", err
	}
	res, dump, _ := strings.Cut(out, "\n")
	return res, dump, nil
}

func (e *engine) dump() (string, *execError) { return e.run("D(a,0)") }

// excursionJS is the text of a semantically neutral storage excursion for an extensible array of length L with
// writable length and no interfering prototype index.
func excursionJS(kind string, L float64) string {
	l := m.NumToString(L)
	x := m.NumToString(L + sparseDelta)
	hi := m.NumToString(L + burstSize)
	switch kind {
	case "toSparse":
		return "a[" + x + "]=0; delete a[" + x + "]; a.length=" + l + ";"
	case "toSparseDef":
		return "Object.defineProperty(a," + x + ",{value:0,writable:true,enumerable:false,configurable:true}); delete a[" + x + "]; a.length=" + l + ";"
	case "toDense":
		return "for(var i_=" + l + ";i_<" + hi + ";i_++)a[i_]=0; a.length=" + l + ";"
	case "toDenseDel":
		return "for(var i_=" + l + ";i_<" + hi + ";i_++)a[i_]=0; for(i_=" + hi + "-1;i_>=" + l + ";i_--)delete a[i_]; a.length=" + l + ";"
	case "toDenseDef":
		return "for(var i_=" + l + ";i_<" + hi + ";i_++)Object.defineProperty(a,i_,{value:0,writable:true,enumerable:false,configurable:true}); a.length=" + l + ";"
	}
	panic("c07: bad excursion " + kind)
}

// excursionOK decides from the model whether the excursion is neutral in the current state.
func excursionOK(r *m.Realm, kind string) (bool, float64) {
	a := r.Recv
	if a.Class != "Array" || !a.Ext {
		return false, 0
	}
	ld := r.GetOwnProperty(a, "length")
	if ld == nil || !ld.W {
		return false, 0
	}
	L := ld.Value.(float64)
	protoHas := func(lo, hi float64) bool {
		for _, p := range []*m.Obj{r.ArrayProto, r.ObjectProto} {
			for _, k := range p.OwnIndexKeys() {
				if float64(k) >= lo && float64(k) < hi {
					return true
				}
			}
		}
		return false
	}
	if strings.HasPrefix(kind, "toSparse") {
		x := L + sparseDelta
		if x > 4294967294 || protoHas(x, x+1) {
			return false, 0
		}
		return true, L
	}
	if L+burstSize > 4294967294 || protoHas(L, L+burstSize) {
		return false, 0
	}
	return true, L
}

func structProblem(in goja.VerifArrayInfo) string {
	switch {
	case in.Kind == "":
		return ""
	case !in.SortedUnique:
		return "items-not-sorted-unique"
	case int64(in.Length) < in.MaxIdx+1:
		return "length<maxIdx+1"
	case in.PropValueCount < in.ActualProps:
		return "propValueCount<actual"
	case in.GateStd && (in.ActualNonHoles != int(in.Length) || in.ActualProps != 0):
		return "gate-true-but-holes-or-props"
	}
	return ""
}

// confirm runs the scripted behavioural confirmation for a failed structural assertion on the object bound to
// the JS global X. It returns the observable difference, or "" when none was found within the probe set.
func (e *engine) confirm(obj *goja.Object, problem string, exportOK bool) (string, *execError) {
	e.r.Set("X", obj)
	var diffs []string
	add := func(s string) {
		if s != "" {
			diffs = append(diffs, s)
		}
	}
	if problem == "gate-true-but-holes-or-props" || problem == "items-not-sorted-unique" || problem == "length<maxIdx+1" {
		out, err := e.run(`(function(x){
  var n = x.length, h = -1, out = [];
  for (var i = 0; i < n && i < 70000; i++) if (!HOP(x,i)) { h = i; break }
  var ks = Object.keys(x).filter(isIdx).map(Number);
  for (i = 1; i < ks.length; i++) if (!(ks[i-1] < ks[i])) PUSH(out,'Object.keys not ascending/unique at ' + ks[i]);
  if (ks.length && !(n > ks[ks.length-1])) PUSH(out,'length ' + n + ' <= max own index ' + ks[ks.length-1]);
  if (h < 0) return 'h=-1|' + out.join('; ');
  var old = GOPD(AP,h);
  Object.defineProperty(AP,h,{value:'PROBE',writable:true,enumerable:true,configurable:true});
  try {
    var exp = -1, expLast = -1;
    for (i = 0; i < n; i++) if ((i in x) && x[i] === 'PROBE') { if (exp < 0) exp = i; expLast = i }
    var r1 = AP.indexOf.call(x,'PROBE'); if (r1 !== exp) PUSH(out,'indexOf("PROBE")=' + r1 + ', a read loop finds it at ' + exp);
    var r2 = AP.includes.call(x,'PROBE'); if (r2 !== (exp >= 0)) PUSH(out,'includes("PROBE")=' + r2 + ' expected ' + (exp >= 0));
    var r3 = AP.lastIndexOf.call(x,'PROBE'); if (r3 !== expLast) PUSH(out,'lastIndexOf("PROBE")=' + r3 + ' expected ' + expLast);
    if (n <= 20000) {
      var s = AP.slice.call(x); if (!HOP(s,h) || s[h] !== 'PROBE') PUSH(out,'slice()[' + h + '] is ' + (HOP(s,h) ? R(s[h],1) : 'a hole') + ', expected own "PROBE" (hole read through Array.prototype)');
      var j = AP.join.call(x,'|').split('|'); if (j[h] !== 'PROBE') PUSH(out,'join: slot ' + h + ' is ' + R(j[h],1));
    }
  } finally { if (old) Object.defineProperty(AP,h,old); else delete AP[h] }
  return 'h=' + h + '|' + out.join('; ');
})(X)`)
		if err != nil {
			return "", err
		}
		hs, rest, _ := strings.Cut(out, "|")
		add(rest)
		h, _ := strconv.Atoi(strings.TrimPrefix(hs, "h="))
		if h >= 0 && exportOK {
			// Go-side Export with an indexed property on Array.prototype under the hole
			if _, err := e.run(`X_old = GOPD(AP,` + strconv.Itoa(h) + `); Object.defineProperty(AP,` + strconv.Itoa(h) + `,{value:'PROBE',writable:true,enumerable:true,configurable:true}); 0`); err != nil {
				return "", err
			}
			var exp interface{}
			o := gj.Call(func() (goja.Value, error) { exp = obj.Export(); return nil, nil })
			if _, err := e.run(`if (X_old) Object.defineProperty(AP,` + strconv.Itoa(h) + `,X_old); else delete AP[` + strconv.Itoa(h) + `]; 0`); err != nil {
				return "", err
			}
			if o.Panic == nil && o.Err == nil {
				if sl, ok := exp.([]interface{}); ok && h < len(sl) && sl[h] != "PROBE" {
					add(fmt.Sprintf("Export()[%d]=%v, expected \"PROBE\" (hole read through Array.prototype)", h, sl[h]))
				}
			}
		}
	}
	if problem == "propValueCount<actual" || problem == "gate-true-but-holes-or-props" {
		out, err := e.run(`(function(x){
  var ks = Object.keys(Object.getOwnPropertyDescriptors(x)).filter(isIdx).map(Number), nc = -1;
  for (var i = ks.length-1; i >= 0; i--) if (!GOPD(x,ks[i]).configurable) { nc = ks[i]; break }
  if (nc < 0 || !GOPD(x,'length').writable) return '';
  x.length = 0;
  if (x.length !== nc+1 || !HOP(x,nc)) return 'length=0 over the non-configurable element ' + nc + ': length is now ' + x.length + ', element ' + (HOP(x,nc) ? 'kept' : 'DELETED') + ' (expected length ' + (nc+1) + ', element kept)';
  return '';
})(X)`)
		if err != nil {
			return "", err
		}
		add(out)
	}
	return strings.Join(diffs, "; "), nil
}

// ---- Export monitor ----

func renderExport(v interface{}, depth int) string {
	if v == nil {
		return "nil"
	}
	switch x := v.(type) {
	case int64:
		return "d" + m.NumToString(float64(x))
	case int:
		return "d" + m.NumToString(float64(x))
	case float64:
		return "d" + m.NumToString(x)
	case string:
		return "s" + x
	case bool:
		if x {
			return "T"
		}
		return "F"
	case []interface{}:
		if depth >= 3 {
			return "[..]"
		}
		parts := make([]string, len(x))
		for i, e := range x {
			parts[i] = renderExport(e, depth+1)
		}
		return "[" + strings.Join(parts, ",") + "]"
	case map[string]interface{}:
		return "map"
	}
	rv := reflect.ValueOf(v)
	switch rv.Kind() {
	case reflect.Ptr:
		if rv.IsNil() {
			return "nil"
		}
		return renderExport(rv.Elem().Interface(), depth)
	case reflect.Slice:
		if depth >= 3 {
			return "[..]"
		}
		parts := make([]string, rv.Len())
		for i := range parts {
			parts[i] = renderExport(rv.Index(i).Interface(), depth+1)
		}
		return "[" + strings.Join(parts, ",") + "]"
	case reflect.Func:
		return "fn"
	}
	return fmt.Sprintf("?%T", v)
}

// modelExport is the expected Export(): the element list with prototype fall-through for holes.
func modelExport(r *m.Realm, v m.Value, depth int) string {
	switch x := v.(type) {
	case nil, m.Undef, m.NullT:
		return "nil"
	case float64:
		return "d" + m.NumToString(x)
	case string:
		return "s" + x
	case bool:
		if x {
			return "T"
		}
		return "F"
	case *m.Obj:
		if x.Call != nil {
			return "fn"
		}
		if x.Class == "GoSlice" || x.Class == "Array" {
			if depth >= 3 {
				return "[..]"
			}
			n := int(r.LengthOfArrayLike(x))
			parts := make([]string, n)
			for i := 0; i < n; i++ {
				parts[i] = modelExport(r, r.GetV(x, m.IdxKey(float64(i))), depth+1)
			}
			return "[" + strings.Join(parts, ",") + "]"
		}
		return "map"
	}
	return "?"
}

func sortedCopy(s []string) []string {
	c := append([]string(nil), s...)
	sort.Strings(c)
	return c
}
