// Package c07: "Arrays behave as spec arrays regardless of dense, sparse or Go-backed storage".
// Workload: model-directed op sequences (<= 30 ops) over the index universe {0..20} U {4095..4100, 65535, 65536, 2^31-1,
// 2^32-2, 2^32-1}: indexed get/set/define/delete, length assignment/definition aimed at non-configurable elements,
// freeze/seal/preventExtensions, accessor and non-configurable elements, indexed properties on Array.prototype /
// Object.prototype, every Array.prototype method and Array.from/of/isArray with the callback catalogue of arrmodel,
// on receivers {dense array, sparse array, frozen/sealed/non-extensible/read-only-length array, array-like object,
// []interface{} wrapper, *[]int reflect wrapper}.
// Monitors: (a) MODEL: op result / exception constructor / checkpoint dump == arrmodel; (b) TWIN: the same history on a twin
// array with neutral storage excursions inserted must give identical results and dumps (VerifArrayTransitions proves the
// switch happened); (c) STRUCT: VerifArray invariants at every checkpoint (receiver and array results), a failed assertion
// only triggers a scripted behavioural confirmation; (d) EXPORT: Go-side Export() == model element list with prototype
// fall-through; (e) SORT: permutation always, exact stable order for consistent comparators.
package c07

import (
	"fmt"
	"runtime/debug"
	"sort"
	"strings"

	"github.com/dop251/goja"

	m "verif/harness/arrmodel"
	"verif/harness/core"
	"verif/harness/gj"
)

func Check() *core.Check {
	debug.SetGCPercent(400) // allocation-heavy workload (a map per JS object); the worker's address-space limit still applies
	return &core.Check{
		ID:    "C07",
		Level: "exploration",
		Rule: "case = receiver {dense, sparse, frozen/sealed/non-extensible/read-only length, array-like object, []interface{} wrapper, *[]int wrapper} + model-directed sequence of <= 30 ops " +
			"(indexed get/set/define/delete, length set/define aimed at non-configurable elements, integrity ops, prototype index ops, all Array.prototype methods and Array.from/of with the callback catalogue) " +
			"over indices {0..20} U {4095..4100, 65535, 65536, 2^31-1, 2^32-2, 2^32-1}; length-proportional methods only while length <= 20000; " +
			"non-trivial = the twin changed storage kind at least once (VerifArrayTransitions) or the receiver is not a dense array; distinct = distinct case texts",
		Assumptions: []string{
			"constructor / @@species / @@iterator of the receiver are never overridden (ArraySpeciesCreate always yields a plain Array)",
			"Go slice wrappers are driven only with primitive element values and without defineProperty/freeze (documented host semantics: no holes, delete = zero value)",
			"comparator call counts and order are never compared; an inconsistent comparator ends the case and is checked for permutation only",
			"fuel exhaustion (4M VM instructions per op) and operations on lengths above 20000 that are length-proportional are outside the workload",
		},
		Cases: func(tier string) int {
			if tier == "thorough" {
				return 600000
			}
			return 40000
		},
		MinConclusive: func(tier string) int { return 2000 },
		NumPinned:     len(pinned),
		CaseTimeoutS:  240,
		Run:           run,
	}
}

type viol struct {
	monitor string
	detail  string
	opIndex int
}

type outcome struct {
	v          *viol
	inconcl    string
	nonTrivial bool
}

func idxClass(i float64) string {
	switch {
	case i <= 20:
		return "0..20"
	case i <= 4100:
		return "4095..4100"
	case i <= 65536:
		return "2^16"
	case i == 2147483647:
		return "2^31-1"
	case i == 4294967294:
		return "2^32-2"
	}
	return "2^32-1"
}

func isSortOp(o *Op) (*m.CB, bool) {
	if o.K != "call" || (o.M != "sort" && o.M != "toSorted") {
		return nil, false
	}
	if len(o.Args) > 0 && o.Args[0].CB != nil {
		return o.Args[0].CB, true
	}
	return nil, true
}

type obs struct{ res, dump string }

// execCase runs original + model in lockstep, then the twin. st receives the evidence (a scratch Stats while minimising).
func execCase(cs *Case, st *core.Stats) outcome {
	var out outcome
	M := newModel(cs)
	E, err := newEngine(cs)
	if err != nil {
		out.v = &viol{monitor: err.monitor, detail: err.detail, opIndex: -1}
		return out
	}
	fail := func(i int, monitor, detail string) outcome {
		out.v = &viol{monitor: monitor, detail: detail, opIndex: i}
		return out
	}
	engErr := func(i int, e *execError, who string) outcome {
		if e.fuel {
			out.inconcl = "fuel"
			return out
		}
		return fail(i, e.monitor, who+": "+e.detail)
	}
	class := cs.Recv.Class
	isArrayRecv := cs.Recv.Kind == "dense"
	if !isArrayRecv {
		out.nonTrivial = true
	}

	// structural monitor (c) + export monitor (d) at a checkpoint
	checkpoint := func(e *engine, i int, who string, withModel bool) *outcome {
		objs := []*goja.Object{e.a}
		labels := []string{"receiver"}
		if ro, ok := e.r.Get("res").(*goja.Object); ok && ro != e.a {
			objs = append(objs, ro)
			labels = append(labels, "result")
		}
		for k, obj := range objs {
			info := goja.VerifArray(obj)
			if info.Kind == "" {
				continue
			}
			st.Inc("struct_walks")
			st.Inc("storage_seen:" + info.Kind)
			if k == 0 && info.Kind == "sparse" {
				out.nonTrivial = true
			}
			if info.GateStd {
				st.Inc("gate_true_observations")
			}
			if p := structProblem(info); p != "" {
				st.Inc("struct_trigger:" + p)
				diff, cerr := e.confirm(obj, p, info.Length <= maxPropLen)
				if cerr != nil {
					o := engErr(i, cerr, who+" confirmation")
					return &o
				}
				if diff == "" {
					out.inconcl = "struct-unconfirmed:" + p
					return &out
				}
				o := fail(i, "struct-"+p, fmt.Sprintf("%s %s: VerifArray %+v violates %q; behavioural confirmation: %s", who, labels[k], info, p, diff))
				return &o
			}
		}
		if withModel && cs.Recv.Kind != "arraylike" && M.LengthOfArrayLike(M.Recv) <= 2000 && !hasThrowingGetter(M) {
			var exp interface{}
			o := gj.Call(func() (goja.Value, error) { exp = e.a.Export(); return nil, nil })
			if o.Panic != nil || o.Err != nil || o.Fuel || o.Assertion != nil {
				oo := fail(i, "export-panic", fmt.Sprintf("Export() failed: %v %v", o.Panic, o.Err))
				return &oo
			}
			got := renderExport(exp, 0)
			want := exportExpected(M)
			st.Inc("export_comparisons")
			if got != want {
				oo := fail(i, "export", fmt.Sprintf("Go-side Export() of the receiver\n  got:      %s\n  expected: %s", core.Trunc(got, 600), core.Trunc(want, 600)))
				return &oo
			}
		}
		return nil
	}

	// ---- original + model ----
	orig := make([]obs, len(cs.Ops))
	type excInfo struct {
		ok bool
		L  float64
	}
	exc := make([]excInfo, len(cs.Ops))
	st.Inc("recv_class:" + class)
	for i := range cs.Ops {
		op := &cs.Ops[i]
		if op.K == "exc" || op.K == "force" {
			ok, L := excursionOK(M, op.M)
			exc[i] = excInfo{ok, L}
			if op.K == "exc" || !ok {
				continue
			}
			t0s, t0d := goja.VerifArrayTransitions(E.r)
			if _, e := E.run(excursionJS(op.M, L)); e != nil {
				return engErr(i, e, "original (storage forcing)")
			}
			t1s, t1d := goja.VerifArrayTransitions(E.r)
			st.Count("forced_transitions_toSparse", t1s-t0s)
			st.Count("forced_transitions_toDense", t1d-t0d)
			d, e := E.dump()
			if e != nil {
				return engErr(i, e, "original")
			}
			orig[i] = obs{"", d}
			if md := M.Dump(M.Recv, 0); d != md {
				return fail(i, "model-dump", fmt.Sprintf("after the storage-forcing excursion %q (must be neutral)\n  engine: %s\n  model:  %s", excursionJS(op.M, L), d, md))
			}
			if o := checkpoint(E, i, "original", true); o != nil {
				return *o
			}
			continue
		}
		// evidence
		switch op.K {
		case "call":
			st.Inc("method_calls")
			st.SetAdd("method_x_receiver", op.M+"/"+class)
			for _, a := range op.Args {
				if a.CB != nil {
					st.SetAdd("callback_kinds", a.CB.Kind())
					st.Inc("callbacks:" + a.CB.Kind())
				}
			}
		case "get", "set", "def", "del", "has":
			st.SetAdd("index_classes", op.K+"@"+idxClass(op.I)+"/"+op.target())
		}
		st.Inc("op:" + op.K)

		res, dump, e := E.op(op)
		if e != nil {
			return engErr(i, e, "original")
		}
		orig[i] = obs{res, dump}
		cmpCB, sortOp := isSortOp(op)
		inconsistent := sortOp && cmpCB != nil && !cmpCB.Consistent()
		if inconsistent && strings.HasPrefix(res, "ok:") {
			target := "a"
			if op.M == "toSorted" {
				target = "res"
			}
			sv, e := E.run("SV(" + target + ",Math.min(Math.max(Math.trunc(+" + target + ".length)||0,0),70000))")
			if e != nil {
				return engErr(i, e, "original")
			}
			M.SortHint = []string{}
			if sv != "" {
				M.SortHint = strings.Split(sv, "\x01")
			}
		}
		mres := M.Try(op.run(M))
		mdump := M.Dump(M.Recv, 0)
		M.SortHint = nil
		if M.SortHintBad {
			M.SortHintBad = false
			return fail(i, "sort-permutation", fmt.Sprintf("after %s with an inconsistent comparator the array is not a permutation of its former elements\n  engine: %s\n  model (own order): %s", op.text(), dump, mdump))
		}
		if res != mres {
			mon := "model-result"
			if sortOp {
				mon = "sort-order"
			}
			return fail(i, mon, fmt.Sprintf("op %d %s\n  engine: %s\n  model:  %s", i, op.text(), core.Trunc(res, 700), core.Trunc(mres, 700)))
		}
		if dump != mdump {
			mon := "model-dump"
			if sortOp {
				mon = "sort-order"
			}
			return fail(i, mon, fmt.Sprintf("state after op %d %s (result %s)\n  engine: %s\n  model:  %s", i, op.text(), core.Trunc(res, 200), core.Trunc(dump, 900), core.Trunc(mdump, 900)))
		}
		st.Inc("model_comparisons")
		if sortOp {
			if cmpCB == nil || cmpCB.Consistent() {
				st.Inc("sort_exact_stable_checks")
			} else {
				st.Inc("sort_permutation_checks")
			}
		}
		if o := checkpoint(E, i, "original", true); o != nil {
			return *o
		}
	}

	// ---- twin ----
	if !isArrayRecv {
		return out
	}
	T, err := newEngine(cs)
	if err != nil {
		return fail(-1, err.monitor, err.detail)
	}
	var lastDump string
	twinTrans := int64(0)
	for i := range cs.Ops {
		op := &cs.Ops[i]
		if op.K == "exc" || op.K == "force" {
			if !exc[i].ok {
				continue
			}
			t0s, t0d := goja.VerifArrayTransitions(T.r)
			if _, e := T.run(excursionJS(op.M, exc[i].L)); e != nil {
				return engErr(i, e, "twin excursion "+op.M)
			}
			t1s, t1d := goja.VerifArrayTransitions(T.r)
			if op.K == "exc" {
				st.Inc("twin_excursions")
				st.Count("twin_transitions_toSparse", t1s-t0s)
				st.Count("twin_transitions_toDense", t1d-t0d)
				twinTrans += (t1s - t0s) + (t1d - t0d)
				if t1s-t0s > 0 {
					st.SetAdd("transitions_seen", "dense->sparse via "+op.M)
				}
				if t1d-t0d > 0 {
					st.SetAdd("transitions_seen", "sparse->dense via "+op.M)
				}
			}
			d, e := T.dump()
			if e != nil {
				return engErr(i, e, "twin")
			}
			want := lastDump
			if op.K == "force" {
				want = orig[i].dump
			}
			if want != "" && d != want {
				return fail(i, "twin", fmt.Sprintf("storage excursion %q changed the observable state\n  before / original: %s\n  after (twin):      %s", excursionJS(op.M, exc[i].L), core.Trunc(want, 900), core.Trunc(d, 900)))
			}
			lastDump = d
			if o := checkpoint(T, i, "twin", false); o != nil {
				return *o
			}
			continue
		}
		res, dump, e := T.op(op)
		if e != nil {
			return engErr(i, e, "twin")
		}
		cmpCB, sortOp := isSortOp(op)
		if sortOp && cmpCB != nil && !cmpCB.Consistent() {
			// implementation-defined order: both must be permutations (the original was checked against the model)
			if strings.HasPrefix(res, "ok:") != strings.HasPrefix(orig[i].res, "ok:") {
				return fail(i, "twin", fmt.Sprintf("op %d %s\n  original: %s\n  twin:     %s", i, op.text(), orig[i].res, res))
			}
			break
		}
		st.Inc("twin_comparisons")
		if res != orig[i].res {
			return fail(i, "twin", fmt.Sprintf("op %d %s gives different results on the original and on the twin (same history + neutral storage excursions)\n  original: %s\n  twin:     %s", i, op.text(), core.Trunc(orig[i].res, 700), core.Trunc(res, 700)))
		}
		if dump != orig[i].dump {
			return fail(i, "twin", fmt.Sprintf("state after op %d %s differs between the original and the twin (same history + neutral storage excursions)\n  original: %s\n  twin:     %s", i, op.text(), core.Trunc(orig[i].dump, 900), core.Trunc(dump, 900)))
		}
		lastDump = dump
		if o := checkpoint(T, i, "twin", false); o != nil {
			return *o
		}
	}
	if twinTrans > 0 {
		out.nonTrivial = true
		st.Inc("cases_with_twin_transition")
	}
	return out
}

func hasThrowingGetter(M *m.Realm) bool {
	gt := M.Pool["GT"].(*m.Obj)
	for _, o := range []*m.Obj{M.Recv, M.ArrayProto, M.ObjectProto} {
		if o.Class == "GoSlice" {
			continue
		}
		for _, k := range o.OwnIndexKeys() {
			if p := M.GetOwnProperty(o, m.IdxKey(float64(k))); p != nil && p.Acc && p.Get == gt {
				return true
			}
		}
	}
	return false
}

func exportExpected(M *m.Realm) string {
	ll, lln := len(M.Log), M.LogN
	s := modelExport(M, M.Recv, 0)
	M.Log, M.LogN = M.Log[:ll], lln
	return s
}

func signature(monitor string, cs *Case) string { return "C07:" + monitor + ":" + cs.Text() }

func toResult(cs *Case, o outcome, idx int) core.Result {
	res := core.Result{Verdict: core.Held, NonTrivial: o.nonTrivial, Key: cs.Text()}
	switch {
	case o.v != nil:
		res.Verdict = core.Violated
		res.NonTrivial = true
		res.Monitor = o.v.monitor
		res.Detail = o.v.detail + "\ncase: " + cs.Text()
		res.Signature = signature(o.v.monitor, cs)
		res.Case = cs
	case o.inconcl != "":
		res.Verdict = core.Inconclusive
		res.Monitor = o.inconcl
	}
	return res
}

// minimise delta-debugs the op list (bounded re-execution), keeping the same monitor.
func minimise(cs *Case, monitor string) *Case {
	cur := &Case{Recv: cs.Recv, Ops: append([]Op(nil), cs.Ops...)}
	budget := 200
	still := func(c *Case) bool {
		if budget <= 0 {
			return false
		}
		budget -= 1 + len(c.Ops)/6 // long histories are dearer to re-execute (deterministic cost model, no clock)
		o := execCase(c, core.NewStats())
		return o.v != nil && o.v.monitor == monitor
	}
	// drop everything after the failing op first
	if o := execCase(cur, core.NewStats()); o.v != nil && o.v.opIndex >= 0 && o.v.opIndex+1 < len(cur.Ops) {
		c := &Case{Recv: cur.Recv, Ops: append([]Op(nil), cur.Ops[:o.v.opIndex+1]...)}
		if still(c) {
			cur = c
		}
	}
	for chunk := len(cur.Ops) / 2; chunk >= 1; chunk /= 2 {
		for i := 0; i+chunk <= len(cur.Ops) && budget > 0; {
			c := &Case{Recv: cur.Recv}
			c.Ops = append(append([]Op(nil), cur.Ops[:i]...), cur.Ops[i+chunk:]...)
			if still(c) {
				cur = c
			} else {
				i += chunk
			}
		}
	}
	// shrink the receiver literal from the end
	for len(cur.Recv.Elems) > 0 && budget > 0 {
		c := &Case{Recv: cur.Recv, Ops: cur.Ops}
		c.Recv.Elems = append([]string(nil), cur.Recv.Elems[:len(cur.Recv.Elems)-1]...)
		if cur.Recv.Kind == "arraylike" {
			break
		}
		if !still(c) {
			break
		}
		cur = c
	}
	return cur
}

func run(c *core.Ctx) core.Result {
	var cs *Case
	if c.Index < 0 {
		p := pinned[-c.Index-1]
		cs = &Case{Recv: p.Recv, Ops: append([]Op(nil), p.Ops...)}
	} else {
		cs = generate(c.Rng)
	}
	if c.Replay {
		fmt.Printf("--- case ---\n%s\n--- end case ---\n", strings.ReplaceAll(cs.Text(), "; ", ";\n"))
	}
	if c.Stats.WantSample() && c.Index >= 0 && c.Index%997 == 0 {
		c.Stats.Sample(map[string]any{"index": c.Index, "class": cs.Recv.Class, "text": core.Trunc(cs.Text(), 700)})
	}
	o := execCase(cs, c.Stats)
	if o.v == nil || c.Index < 0 {
		return toResult(cs, o, c.Index)
	}
	min := minimise(cs, o.v.monitor)
	o2 := execCase(min, core.NewStats())
	if o2.v != nil && o2.v.monitor == o.v.monitor {
		r := toResult(min, o2, c.Index)
		r.Detail += "\n(original case: " + core.Trunc(cs.Text(), 1200) + ")"
		r.Key = cs.Text()
		return r
	}
	return toResult(cs, o, c.Index)
}

var _ = sort.Strings
