package c07

import (
	m "verif/harness/arrmodel"
	"verif/harness/core"
)

// The generator is model-directed: it keeps a model realm in lockstep with the ops it emits so that "aimed" choices
// (length exactly at / one below / one above a non-configurable element, indices around the current length, large-
// length guards) can be made. It uses only c.Rng and the model state, so a case is a pure function of (seed, index).

var (
	elemVals = []string{"0", "1", "2", "3", "5", "7", "10", "11", "20", "-1", "1.5", "2.5", "1.25", "NaN", "-0", "Infinity",
		"'a'", "'b'", "'a1'", "'a2'", "'b1'", "'b2'", "'10'", "'9'", "''", "'P'", "undefined", "null", "true", "false",
		"O1", "O2", "O3", "N1", "N2", "77", "88", "undefined", "1", "2", "'a'"}
	wrapVals = []string{"0", "1", "2", "3", "5", "7", "10", "-1", "1.5", "2.5", "NaN", "'a'", "'b'", "'a1'", "'b1'", "''", "null", "true", "false", "77", "88", "undefined"}
	intVals  = []string{"0", "1", "2", "3", "5", "7", "10", "-1", "77", "88", "20", "11"}
	bigIdx   = []float64{65535, 65536, 2147483647, 4294967294, 4294967295}
	k4Idx    = []float64{4095, 4096, 4097, 4098, 4099, 4100}
)

type gen struct {
	rng     *core.Rng
	r       *m.Realm
	cs      *Case
	class   string
	wrapper bool
	intOnly bool
	hasIter bool
	done    bool
}

func (g *gen) val() string {
	switch {
	case g.intOnly:
		return core.Pick(g.rng, intVals)
	case g.wrapper:
		return core.Pick(g.rng, wrapVals)
	}
	return core.Pick(g.rng, elemVals)
}

func (g *gen) curLen() float64 { return g.r.LengthOfArrayLike(g.r.Recv) }

func (g *gen) idx() float64 {
	L := g.curLen()
	if g.wrapper {
		return float64(g.rng.Intn(int(L) + 3))
	}
	switch g.rng.PickW([]int{84, 9, 7}) {
	case 0:
		if L <= 20 && g.rng.Chance(1, 2) {
			return float64(g.rng.Intn(int(L) + 2))
		}
		return float64(g.rng.Intn(21))
	case 1:
		return core.Pick(g.rng, k4Idx)
	}
	return core.Pick(g.rng, bigIdx)
}

func num(f float64) string { return m.NumToString(f) }

// nonConfigurable returns the own non-configurable index keys of the receiver (ascending).
func (g *gen) nonConfigurable() []float64 {
	var out []float64
	a := g.r.Recv
	if a.Class == "GoSlice" {
		return nil
	}
	for _, k := range a.OwnIndexKeys() {
		if p := g.r.GetOwnProperty(a, m.IdxKey(float64(k))); p != nil && !p.C {
			out = append(out, float64(k))
		}
	}
	return out
}

func (g *gen) muts(large bool) []string {
	switch {
	case g.intOnly:
		return []string{"shrink", "push", "pop", "set"} // (no 'proto': inherited values would not be ints)
	case g.wrapper:
		return []string{"shrink", "push", "pop", "set", "del"}
	case large:
		return []string{"shrink", "push", "pop", "setfar", "set", "del", "freeze", "defacc", "proto"}
	}
	return m.Muts
}

// mut fills the mutation part of a catalogue entry.
func (g *gen) mut(cb *m.CB, large bool) {
	L := g.curLen()
	cb.Mut = core.Pick(g.rng, g.muts(large))
	switch cb.Mut {
	case "splice":
		cb.Arg = float64(g.rng.Intn(int(min(L, 30)) + 1))
	case "shrink":
		if L > 30 {
			cb.Arg = core.Pick(g.rng, []float64{0, 1, L - 1, 3})
		} else {
			cb.Arg = float64(g.rng.Intn(int(L) + 1))
		}
	case "setfar":
		cb.Arg = core.Pick(g.rng, []float64{L + 2, 70000, 4097, 5000, L})
		if cb.Arg > 70000 {
			cb.Arg = 70000
		}
	case "set", "del", "defacc", "proto":
		if L > 30 {
			cb.Arg = float64(g.rng.Intn(8))
		} else {
			cb.Arg = float64(g.rng.Intn(int(L) + 2))
		}
	}
}

func (g *gen) vo(large bool) Arg {
	cb := &m.CB{Fam: "vo", Ret: core.Pick(g.rng, []string{"0", "1", "2", "3", "-1", "-2", "5", "'1'", "1.5", "NaN"})}
	g.mut(cb, large)
	return Arg{CB: cb}
}

// rel produces a relative-index argument for a receiver of length L.
func (g *gen) rel(large bool) Arg {
	L := g.curLen()
	switch g.rng.PickW([]int{62, 14, 12, 12}) {
	case 0:
		if large || L > 40 {
			return Arg{V: num(float64(g.rng.Range(-4, 6)))}
		}
		return Arg{V: num(float64(g.rng.Range(-int(L)-2, int(L)+2)))}
	case 1:
		return Arg{V: core.Pick(g.rng, []string{"NaN", "Infinity", "-Infinity", "1.5", "-0", "'1'", "undefined", "null", "true", "-1.5", "'x'"})}
	case 2:
		if !large {
			return g.vo(large)
		}
	}
	return Arg{V: num(float64(g.rng.Intn(4)))}
}

func (g *gen) vals(lo, hi int) []Arg {
	n := g.rng.Range(lo, hi)
	out := make([]Arg, n)
	for i := range out {
		out[i] = Arg{V: g.val()}
	}
	return out
}

func (g *gen) iterCB(fam string, rets []string, large bool) Arg {
	cb := &m.CB{Fam: fam, Ret: core.Pick(g.rng, rets)}
	if g.rng.Chance(1, 4) {
		g.mut(cb, large)
		cb.At = g.rng.Range(1, 3)
	}
	if g.rng.Chance(1, 12) {
		cb.ThrowAt = g.rng.Range(1, 3)
	}
	return Arg{CB: cb}
}

// plainForSort: every own index property is a writable configurable data property, the array is extensible with
// writable length and no indexed property sits on a prototype - the domain in which an implementation-defined order
// can be adopted from the engine (no partial write-back).
func (g *gen) plainForSort() bool {
	a := g.r.Recv
	if a.Class == "GoSlice" {
		return false
	}
	if !a.Ext || len(g.r.ArrayProto.OwnIndexKeys()) > 0 || len(g.r.ObjectProto.OwnIndexKeys()) > 0 {
		return false
	}
	if ld := g.r.GetOwnProperty(a, "length"); ld == nil || ld.Acc || !ld.W {
		return false
	}
	for _, k := range a.OwnIndexKeys() {
		p := g.r.GetOwnProperty(a, m.IdxKey(float64(k)))
		if p.Acc || !p.W || !p.C {
			return false
		}
	}
	return true
}

func (g *gen) cmp(large bool) (Arg, bool) {
	switch g.rng.PickW([]int{15, 3, 82}) {
	case 0:
		if g.rng.Bool() {
			return Arg{V: "undefined"}, false
		}
		return Arg{}, false // no argument at all
	case 1:
		return Arg{V: core.Pick(g.rng, []string{"1", "O1", "null", "'x'"})}, false
	}
	cb := &m.CB{Fam: "cmp"}
	if g.rng.Chance(3, 10) && g.plainForSort() {
		cb.Ret = core.Pick(g.rng, m.CmpInconsistent)
		return Arg{CB: cb}, true
	}
	cb.Ret = core.Pick(g.rng, m.CmpConsistent)
	if g.rng.Chance(1, 6) && !g.wrapper {
		g.mut(cb, large)
	}
	if g.rng.Chance(1, 20) {
		cb.ThrowAt = 1
	}
	return Arg{CB: cb}, false
}

var (
	boolRets = []string{"T", "F", "tv", "odd", "gt2", "eq77", "U", "v"}
	mapRets  = []string{"v", "i", "dbl", "pair", "U", "T"}
	flatRets = []string{"pair", "nest", "N1", "v", "dbl", "U"}
)

func (g *gen) thisArg(args []Arg) []Arg {
	if g.rng.Chance(1, 3) {
		return append(args, Arg{V: core.Pick(g.rng, []string{"O1", "O2", "undefined"})})
	}
	return args
}

var smallMethods = []string{"at", "concat", "copyWithin", "entries", "every", "fill", "filter", "find", "findIndex", "findLast",
	"findLastIndex", "flat", "flatMap", "forEach", "includes", "indexOf", "join", "keys", "lastIndexOf", "map", "pop", "push",
	"reduce", "reduceRight", "reverse", "shift", "slice", "some", "sort", "sort", "sort", "splice", "splice", "toReversed", "toSorted", "toSorted", "toSpliced",
	"toString", "unshift", "values", "with", "slice", "unshift", "shift", "pop", "push", "indexOf", "includes"}

// methods whose cost does not depend on the length when called with window arguments
var largeMethods = []string{"at", "push", "pop", "slice", "fill", "copyWithin", "indexOf", "includes", "lastIndexOf", "splice", "find", "findIndex", "findLast", "findLastIndex", "with", "toReversed", "map", "toSorted", "toSpliced"}

func (g *gen) call() Op {
	L := g.curLen()
	large := L > maxPropLen
	op := Op{K: "call"}
	if g.cs.Recv.Kind == "arraylike" || g.rng.Chance(1, 8) {
		op.Mode = "call"
	}
	if large {
		return g.largeCall(op, L)
	}
	op.M = core.Pick(g.rng, smallMethods)
	if g.cs.Recv.Kind == "reflect" && op.M == "toString" {
		op.M = "join" // the reflect wrapper documents its own toString
	}
	switch op.M {
	case "at":
		op.Args = []Arg{g.rel(false)}
	case "concat":
		n := g.rng.Range(0, 3)
		for i := 0; i < n; i++ {
			op.Args = append(op.Args, Arg{V: core.Pick(g.rng, []string{"a", "N1", "N2", "S1", "O1", "1", "'a'", "undefined", g.val(), "a"})})
		}
	case "copyWithin":
		op.Args = []Arg{g.rel(false), g.rel(false)}
		if g.rng.Bool() {
			op.Args = append(op.Args, g.rel(false))
		}
	case "fill":
		op.Args = []Arg{{V: g.val()}}
		for i := 0; i < 2 && g.rng.Chance(2, 3); i++ {
			op.Args = append(op.Args, g.rel(false))
		}
	case "every", "some", "filter", "find", "findIndex", "findLast", "findLastIndex":
		op.Args = g.thisArg([]Arg{g.iterCB("cb", boolRets, false)})
	case "forEach":
		op.Args = g.thisArg([]Arg{g.iterCB("cb", []string{"U", "v"}, false)})
	case "map":
		op.Args = g.thisArg([]Arg{g.iterCB("cb", mapRets, false)})
	case "flatMap":
		op.Args = g.thisArg([]Arg{g.iterCB("cb", flatRets, false)})
	case "flat":
		if g.rng.Chance(2, 3) {
			op.Args = []Arg{{V: core.Pick(g.rng, []string{"0", "1", "2", "Infinity", "undefined", "-1", "'1'", "NaN", "1.9"})}}
		}
	case "includes", "indexOf", "lastIndexOf":
		op.Args = []Arg{{V: g.val()}}
		if g.rng.Bool() {
			op.Args = append(op.Args, g.rel(false))
		}
	case "join":
		if g.rng.Chance(2, 3) {
			op.Args = []Arg{{V: core.Pick(g.rng, []string{"'-'", "''", "undefined", "null", "1", "', '", "O1"})}}
		}
	case "push", "unshift":
		op.Args = g.vals(0, 3)
	case "reduce", "reduceRight":
		op.Args = []Arg{g.iterCB("red", m.RedRets, false)}
		if g.rng.Chance(3, 5) {
			op.Args = append(op.Args, Arg{V: core.Pick(g.rng, []string{"0", "undefined", "'s'", "10"})})
		}
	case "slice":
		for i := 0; i < 2 && g.rng.Chance(3, 4); i++ {
			op.Args = append(op.Args, g.rel(false))
		}
	case "sort", "toSorted":
		a, incons := g.cmp(false)
		if a.V != "" || a.CB != nil {
			op.Args = []Arg{a}
		}
		if incons {
			g.done = true // implementation-defined order: the case ends here
		}
	case "splice", "toSpliced":
		switch g.rng.Intn(5) {
		case 0:
		case 1:
			op.Args = []Arg{g.rel(false)}
		default:
			op.Args = []Arg{g.rel(false), g.rel(false)}
			op.Args = append(op.Args, g.vals(0, 3)...)
		}
	case "with":
		op.Args = []Arg{g.rel(false), {V: g.val()}}
	}
	if op.M == "sort" && g.wrapper {
		// in-place sort of a Go slice: comparator mutations are outside the documented common semantics
		for i := range op.Args {
			if op.Args[i].CB != nil {
				op.Args[i].CB.Mut = ""
			}
		}
	}
	return op
}

// largeCall issues only calls whose cost is independent of the (huge) length.
func (g *gen) largeCall(op Op, L float64) Op {
	op.M = core.Pick(g.rng, largeMethods)
	if g.wrapper {
		op.M = "at"
	}
	near := func() float64 { // an absolute index within 4 of the end, or near the start
		if g.rng.Bool() {
			return L - float64(g.rng.Intn(4))
		}
		return float64(g.rng.Intn(4))
	}
	switch op.M {
	case "at":
		op.Args = []Arg{{V: core.Pick(g.rng, []string{"-1", "0", "-2", num(L - 1), num(L), "Infinity", "-Infinity"})}}
	case "push":
		op.Args = g.vals(0, 2)
	case "slice", "fill", "copyWithin":
		s := near()
		e := s + float64(g.rng.Intn(4))
		switch op.M {
		case "slice":
			op.Args = []Arg{{V: num(s)}, {V: num(e)}}
		case "fill":
			op.Args = []Arg{{V: g.val()}, {V: num(s)}, {V: num(e)}}
		default:
			op.Args = []Arg{{V: num(near())}, {V: num(s)}, {V: num(e)}}
		}
	case "indexOf", "includes":
		op.Args = []Arg{{V: g.val()}, {V: core.Pick(g.rng, []string{"-1", "-3", num(L - 2), num(L), "Infinity"})}}
	case "lastIndexOf":
		op.Args = []Arg{{V: g.val()}, {V: core.Pick(g.rng, []string{"0", "2", "3", "-Infinity", num(-L), num(-L + 2)})}}
	case "splice":
		op.Args = []Arg{{V: num(L - float64(g.rng.Intn(3)))}, {V: num(float64(g.rng.Intn(3)))}}
		op.Args = append(op.Args, g.vals(0, 2)...)
	case "find", "findIndex", "findLast", "findLastIndex":
		op.Args = []Arg{{CB: &m.CB{Fam: "cb", Ret: "T"}}}
	case "with", "toReversed", "map", "toSorted", "toSpliced":
		// only where ArrayCreate(len) must throw a RangeError before any element is touched
		if L <= m.MaxUint32 {
			op.M = "at"
			op.Args = []Arg{{V: "-1"}}
			break
		}
		switch op.M {
		case "with":
			op.Args = []Arg{{V: "0"}, {V: "1"}}
		case "map":
			op.Args = []Arg{{CB: &m.CB{Fam: "cb", Ret: "v"}}}
		case "toSpliced":
			op.Args = []Arg{{V: "0"}, {V: "0"}}
		}
	}
	return op
}

func flag3(r *core.Rng) string { return core.Pick(r, []string{"t", "f", "", "t", "f"}) }

func (g *gen) desc() *DescSpec {
	switch g.rng.PickW([]int{40, 12, 18, 30}) {
	case 0:
		return &DescSpec{V: g.val(), W: flag3(g.rng), E: flag3(g.rng), C: flag3(g.rng)}
	case 1:
		return &DescSpec{V: g.val()}
	case 2:
		d := &DescSpec{W: flag3(g.rng), E: flag3(g.rng), C: flag3(g.rng)}
		if g.rng.Chance(1, 3) {
			d.W = ""
		}
		return d
	}
	d := &DescSpec{E: flag3(g.rng), C: flag3(g.rng)}
	if g.rng.Chance(4, 5) {
		d.Get = core.Pick(g.rng, []string{"G1", "G2", "G1", "GT", "undefined"})
	}
	if g.rng.Chance(1, 2) || d.Get == "" {
		d.Set = core.Pick(g.rng, []string{"S1f", "S1f", "undefined"})
	}
	return d
}

// lenVal picks a new length: aimed at the non-configurable elements when there are any.
func (g *gen) lenVal() Arg {
	L := g.curLen()
	nc := g.nonConfigurable()
	if len(nc) > 0 && g.rng.Chance(1, 2) {
		k := core.Pick(g.rng, nc)
		c := []float64{k, k + 1, k + 2, 0}
		if k > 0 {
			c = append(c, k-1)
		}
		return Arg{V: num(core.Pick(g.rng, c))}
	}
	switch g.rng.PickW([]int{60, 8, 12, 10, 10}) {
	case 0:
		c := []float64{0, L, L + 1, L + 3}
		if L > 0 {
			c = append(c, L-1, L-1)
		}
		if L > 1 {
			c = append(c, L-2, float64(g.rng.Intn(int(min(L, 1<<20)))))
		}
		return Arg{V: num(core.Pick(g.rng, c))}
	case 1:
		u := core.Pick(g.rng, m.Universe)
		if g.rng.Bool() && u < m.MaxUint32 {
			u++
		}
		return Arg{V: num(u)}
	case 2:
		return Arg{V: core.Pick(g.rng, []string{"4294967296", "-1", "1.5", "NaN", "'abc'", "undefined", "Infinity", "4294967295.5"})}
	case 3:
		return Arg{V: core.Pick(g.rng, []string{"'3'", "'0'", "null", "true", "false", "' 2 '", "-0"})}
	}
	cb := &m.CB{Fam: "vo", Ret: num(float64(g.rng.Intn(int(min(L, 20)) + 2)))}
	if g.rng.Bool() {
		g.mut(cb, L > maxPropLen)
	}
	return Arg{CB: cb}
}

func (g *gen) mode3() string { return core.Pick(g.rng, []string{"strict", "sloppy", "reflect"}) }

func (g *gen) protoOp() Op {
	op := Op{On: "AP"}
	if g.rng.Chance(3, 10) {
		op.On = "OP"
	}
	switch g.rng.PickW([]int{82, 12, 6}) {
	case 0:
		op.I = float64(g.rng.Intn(int(min(g.curLen(), 20)) + 3))
	case 1:
		op.I = core.Pick(g.rng, k4Idx)
	default:
		op.I = core.Pick(g.rng, bigIdx)
	}
	switch g.rng.PickW([]int{35, 25, 15, 25}) {
	case 0:
		op.K, op.Mode = "set", "sloppy"
		op.V = &Arg{V: core.Pick(g.rng, []string{"'P'", "'PP'", "1", "undefined"})}
	case 1:
		op.K = "def"
		op.D = &DescSpec{Get: core.Pick(g.rng, []string{"G1", "G2"}), C: "t", E: flag3(g.rng)}
		if g.rng.Chance(2, 3) {
			op.D.Set = "S1f"
		}
	case 2:
		op.K = "def"
		op.D = &DescSpec{V: "'RO'", W: "f", C: "t", E: flag3(g.rng)}
	default:
		op.K, op.Mode = "del", "reflect"
	}
	return op
}

func (g *gen) excKind() string {
	return core.Pick(g.rng, []string{"toSparse", "toSparse", "toSparseDef", "toDense", "toDense", "toDenseDel", "toDenseDef"})
}

// next emits one op.
func (g *gen) next() Op {
	array := g.r.Recv.Class == "Array"
	arraylike := g.cs.Recv.Kind == "arraylike"
	w := []int{
		6,  // 0 get
		2,  // 1 has
		12, // 2 set
		10, // 3 def
		8,  // 4 del
		10, // 5 len
		4,  // 6 deflen
		3,  // 7 integ
		6,  // 8 proto
		42, // 9 call
		2,  // 10 from
		1,  // 11 of / isarr
		1,  // 12 iternew
		0,  // 13 iternext
		1,  // 14 spread
		9,  // 15 exc
	}
	if g.hasIter {
		w[13] = 3
	}
	if g.wrapper {
		w[3], w[6], w[7], w[14], w[15] = 0, 0, 0, 0, 0
	}
	if g.intOnly {
		w[8] = 0 // values inherited from a prototype index are not ints: outside the wrapper's common domain
	}
	if !array {
		w[15] = 0
	}
	if arraylike {
		w[5], w[6] = 4, 1
	}
	L := g.curLen()
	switch g.rng.PickW(w) {
	case 0:
		return Op{K: "get", I: g.idx()}
	case 1:
		return Op{K: "has", I: g.idx()}
	case 2:
		return Op{K: "set", I: g.idx(), V: &Arg{V: g.val()}, Mode: g.mode3()}
	case 3:
		op := Op{K: "def", I: g.idx(), D: g.desc()}
		if g.rng.Chance(1, 3) {
			op.Mode = "reflect"
		}
		return op
	case 4:
		return Op{K: "del", I: g.idx(), Mode: g.mode3()}
	case 5:
		if g.wrapper {
			return Op{K: "len", V: &Arg{V: num(float64(g.rng.Intn(int(min(L, 25)) + 3)))}, Mode: g.mode3()}
		}
		if arraylike {
			return Op{K: "len", V: &Arg{V: core.Pick(g.rng, []string{"0", "1", "3", "5", "'2'", "-1", "1.5", "NaN", "undefined", "4294967295", "4294967296", "9007199254740991", "9007199254740993", "Infinity", "20"})}, Mode: g.mode3()}
		}
		v := g.lenVal()
		return Op{K: "len", V: &v, Mode: g.mode3()}
	case 6:
		d := &DescSpec{}
		switch g.rng.PickW([]int{55, 25, 20}) {
		case 0:
			v := g.lenVal()
			if v.CB != nil {
				v = Arg{V: num(L)}
			}
			d.V = v.V
			d.W = flag3(g.rng)
		case 1:
			d.W = core.Pick(g.rng, []string{"f", "f", "t"})
		default:
			d = core.Pick(g.rng, []*DescSpec{{C: "t"}, {E: "t"}, {Get: "G1"}, {C: "f", E: "f"}, {V: num(L), C: "f"}})
		}
		op := Op{K: "deflen", D: d}
		if g.rng.Chance(1, 3) {
			op.Mode = "reflect"
		}
		return op
	case 7:
		return Op{K: "integ", M: core.Pick(g.rng, []string{"freeze", "seal", "seal", "preventExtensions", "preventExtensions", "isFrozen", "isSealed", "isExtensible"})}
	case 8:
		return g.protoOp()
	case 9:
		return g.call()
	case 10:
		if L > maxPropLen {
			return Op{K: "isarr"}
		}
		op := Op{K: "from", Args: []Arg{{V: core.Pick(g.rng, []string{"a", "a", "a", "a", "S1", "N1", "N2"})}}}
		if g.rng.Chance(1, 2) {
			op.Args = g.thisArg(append(op.Args, g.iterCB("map", mapRets, false)))
		}
		return op
	case 11:
		if g.rng.Bool() {
			return Op{K: "isarr"}
		}
		return Op{K: "of", Args: g.vals(0, 3)}
	case 12:
		g.hasIter = true
		return Op{K: "iternew", M: core.Pick(g.rng, []string{"entries", "keys", "values"})}
	case 13:
		return Op{K: "iternext"}
	case 14:
		return Op{K: "spread", V: &Arg{V: core.Pick(g.rng, []string{"true", "false", "undefined", "0", "1"})}}
	}
	return Op{K: "exc", M: g.excKind()}
}

func min(a, b float64) float64 {
	if a < b {
		return a
	}
	return b
}

var traceGen func(o *Op)

// generate materialises the case for c.Index.
func generate(rng *core.Rng) *Case {
	cs := &Case{}
	g := &gen{rng: rng, cs: cs}
	class := []string{"dense", "sparse", "frozen", "arraylike", "goslice", "reflect"}[rng.PickW([]int{30, 22, 12, 18, 12, 6})]
	cs.Recv.Class = class
	n := rng.Range(0, 8)
	if rng.Chance(1, 6) {
		n = rng.Range(9, 40)
	}
	switch class {
	case "dense", "sparse", "frozen":
		cs.Recv.Kind = "dense"
	case "arraylike":
		cs.Recv.Kind = "arraylike"
	case "goslice":
		cs.Recv.Kind = core.Pick(rng, []string{"goslice", "gosliceptr"})
		g.wrapper = true
	case "reflect":
		cs.Recv.Kind = "reflect"
		g.wrapper, g.intOnly = true, true
	}
	for i := 0; i < n; i++ {
		if !g.wrapper && rng.Chance(1, 7) {
			cs.Recv.Elems = append(cs.Recv.Elems, "")
		} else {
			cs.Recv.Elems = append(cs.Recv.Elems, g.val())
		}
	}
	if class == "arraylike" {
		switch rng.PickW([]int{60, 15, 10, 15}) {
		case 0:
			cs.Recv.Len = num(float64(n))
		case 1:
			cs.Recv.Len = num(float64(rng.Intn(n + 3)))
		case 2:
			cs.Recv.Len = core.Pick(rng, []string{"4294967295", "4294967296", "9007199254740991", "9007199254740992", "Infinity", "4294967294", "65536"})
		default:
			cs.Recv.Len = core.Pick(rng, []string{"'" + num(float64(n)) + "'", num(float64(n)) + ".7", "-1", "NaN", "undefined", "null", "true"})
		}
	}
	g.r = newModel(cs)
	emit := func(op Op) {
		cs.Ops = append(cs.Ops, op)
		o := op
		if traceGen != nil {
			traceGen(&o)
		}
		g.r.Exec(o.run(g.r))
	}
	switch class {
	case "sparse":
		switch rng.Intn(3) {
		case 0:
			emit(Op{K: "force", M: core.Pick(rng, []string{"toSparse", "toSparseDef"})})
		case 1:
			emit(Op{K: "set", I: core.Pick(rng, append(append([]float64{}, k4Idx[2:]...), bigIdx[:4]...)), V: &Arg{V: g.val()}, Mode: "sloppy"})
		default:
			emit(Op{K: "force", M: "toSparse"})
			emit(Op{K: "set", I: core.Pick(rng, k4Idx), V: &Arg{V: g.val()}, Mode: "sloppy"})
		}
	case "frozen":
		if rng.Chance(1, 3) {
			emit(Op{K: "def", I: float64(rng.Intn(n + 2)), D: &DescSpec{V: g.val(), W: flag3(rng), E: "t", C: "f"}})
		}
		if rng.Chance(1, 4) {
			emit(Op{K: "force", M: "toSparse"})
		}
		switch rng.PickW([]int{45, 20, 15, 20}) {
		case 0:
			emit(Op{K: "integ", M: "freeze"})
		case 1:
			emit(Op{K: "integ", M: "seal"})
		case 2:
			emit(Op{K: "integ", M: "preventExtensions"})
		default:
			emit(Op{K: "deflen", D: &DescSpec{W: "f"}})
		}
	}
	total := rng.Range(4, 30)
	for len(cs.Ops) < total && !g.done {
		emit(g.next())
	}
	return cs
}
