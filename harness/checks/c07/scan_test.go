package c07

import (
	"fmt"
	"os"
	"strconv"
	"testing"

	"verif/harness/core"
)

// TestScan runs cases [C07_FROM, C07_TO) in-process and prints every violation (development aid for mutation trials;
// the registered entry point is run.sh).
func TestScan(t *testing.T) {
	Check()
	from, _ := strconv.Atoi(os.Getenv("C07_FROM"))
	to, _ := strconv.Atoi(os.Getenv("C07_TO"))
	if to == 0 {
		t.Skip("C07_TO not set")
	}
	maxHits := 3
	hits := 0
	st := core.NewStats()
	for i := from; i < to && hits < maxHits; i++ {
		var cs *Case
		if i < 0 {
			p := pinned[-i-1]
			cs = &Case{Recv: p.Recv, Ops: append([]Op(nil), p.Ops...)}
		} else {
			cs = generate(core.CaseRng(1, "C07", i))
		}
		o := execCase(cs, st)
		if o.v != nil {
			if i == -5 {
				continue
			}
			hits++
			min := cs
			if i >= 0 {
				min = minimise(cs, o.v.monitor)
			}
			o2 := execCase(min, core.NewStats())
			d := o.v.detail
			if o2.v != nil {
				d = o2.v.detail
			}
			fmt.Printf("HIT index=%d monitor=%s\n  %s\n  case: %s\n", i, o.v.monitor, core.Trunc(d, 700), min.Text())
		}
	}
	fmt.Printf("scanned [%d,%d): %d hits\n", from, to, hits)
}
