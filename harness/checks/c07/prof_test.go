package c07

import (
	"testing"
	"time"
	"fmt"

	"verif/harness/core"
)

func TestProf(t *testing.T) {
	Check()
	st := core.NewStats()
	t0 := time.Now()
	n := 600
	for i := 5000; i < 5000+n; i++ {
		cs := generate(core.CaseRng(1, "C07", i))
		execCase(cs, st)
	}
	fmt.Println("avg gen+exec:", time.Since(t0)/time.Duration(n))
}
