package c07

import m "verif/harness/arrmodel"

func lits(s ...string) []string { return s }

// pinned regression witnesses: histories that failed on the pinned tree (see /verif/inbox/C07-*.md and
// /verif/known-findings.d/C07.json). They run first in every tier.
var pinned = []Case{
	// 0: dense->sparse transition inside _defineIdxProperty lost propValueCount++ : length=0 deleted a non-configurable element
	{Recv: RecvSpec{Kind: "dense", Class: "dense"}, Ops: []Op{
		{K: "def", I: 5000, D: &DescSpec{V: "1", C: "f"}},
		{K: "len", V: &Arg{V: "0"}, Mode: "sloppy"}}},
	// 1: sparse _setLengthInt used `item.idx <= l`: truncating to exactly the index of a non-configurable element deleted it
	{Recv: RecvSpec{Kind: "dense", Class: "sparse"}, Ops: []Op{
		{K: "set", I: 65536, V: &Arg{V: "1"}, Mode: "sloppy"},
		{K: "def", I: 5, D: &DescSpec{V: "1", C: "f"}},
		{K: "len", V: &Arg{V: "5"}, Mode: "sloppy"}}},
	// 2: with() coerced the index before reading the length
	{Recv: RecvSpec{Kind: "dense", Class: "dense", Elems: lits("1", "2", "3", "4", "5", "6", "7", "8", "9", "10")}, Ops: []Op{
		{K: "call", M: "with", Args: []Arg{{CB: &m.CB{Fam: "vo", Ret: "1", Mut: "shrink", Arg: 0}}, {V: "9"}}}}},
	// 3: objCount drift after redefining an existing element: fast-path gate true although a[1] is a hole
	{Recv: RecvSpec{Kind: "dense", Class: "dense", Elems: lits("1", "2", "3")}, Ops: []Op{
		{K: "del", I: 1, Mode: "sloppy"},
		{K: "def", I: 0, D: &DescSpec{V: "5", W: "t", E: "t", C: "t"}},
		{K: "set", On: "AP", I: 1, V: &Arg{V: "'P'"}, Mode: "sloppy"},
		{K: "call", M: "indexOf", Args: []Arg{{V: "'P'"}}},
		{K: "call", M: "includes", Args: []Arg{{V: "'P'"}}}}},
	// 4: comparator returning -0 treated as "less" (KNOWN FINDING: enforced by TestSortComparatorReturnValueNegZero)
	{Recv: RecvSpec{Kind: "dense", Class: "dense", Elems: lits("O1", "O2", "O3")}, Ops: []Op{
		{K: "call", M: "sort", Args: []Arg{{CB: &m.CB{Fam: "cmp", Ret: "negzero"}}}}}},
	// 5: sort panicked (index out of range) when the comparator truncated the array
	{Recv: RecvSpec{Kind: "dense", Class: "dense", Elems: lits("3", "2", "1")}, Ops: []Op{
		{K: "call", M: "sort", Args: []Arg{{CB: &m.CB{Fam: "cmp", Ret: "key", Mut: "shrink", Arg: 0}}}}}},
}
