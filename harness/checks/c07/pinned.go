package c07

import m "verif/harness/arrmodel"

func lits(s ...string) []string { return s }

// pinned regression witnesses: histories that failed on the pinned tree (see /verif/inbox/C07-*.md and
// /verif/known-findings.d/C07.json). They run first in every tier.
var pinned = []Case{
	// 0: dense->sparse transition inside _defineIdxProperty lost propValueCount++ : length=0 deleted a non-configurable element
	{Recv: RecvSpec{Kind: "dense", Class: "dense"}, Ops: []Op{
		{K: "def", I: 5000, D: &DescSpec{V: "1", C: "f"}},
		{K: "len", V: &Arg{V: "0"}, Mode: "sloppy"}}},
	// 1: sparse _setLengthInt used `item.idx <= l`: truncating to exactly the index of a non-configurable element deleted it
	{Recv: RecvSpec{Kind: "dense", Class: "sparse"}, Ops: []Op{
		{K: "set", I: 65536, V: &Arg{V: "1"}, Mode: "sloppy"},
		{K: "def", I: 5, D: &DescSpec{V: "1", C: "f"}},
		{K: "len", V: &Arg{V: "5"}, Mode: "sloppy"}}},
	// 2: with() coerced the index before reading the length
	{Recv: RecvSpec{Kind: "dense", Class: "dense", Elems: lits("1", "2", "3", "4", "5", "6", "7", "8", "9", "10")}, Ops: []Op{
		{K: "call", M: "with", Args: []Arg{{CB: &m.CB{Fam: "vo", Ret: "1", Mut: "shrink", Arg: 0}}, {V: "9"}}}}},
	// 3: objCount drift after redefining an existing element: fast-path gate true although a[1] is a hole
	{Recv: RecvSpec{Kind: "dense", Class: "dense", Elems: lits("1", "2", "3")}, Ops: []Op{
		{K: "del", I: 1, Mode: "sloppy"},
		{K: "def", I: 0, D: &DescSpec{V: "5", W: "t", E: "t", C: "t"}},
		{K: "set", On: "AP", I: 1, V: &Arg{V: "'P'"}, Mode: "sloppy"},
		{K: "call", M: "indexOf", Args: []Arg{{V: "'P'"}}},
		{K: "call", M: "includes", Args: []Arg{{V: "'P'"}}}}},
	// 4: comparator returning -0 treated as "less" (KNOWN FINDING: enforced by TestSortComparatorReturnValueNegZero)
	{Recv: RecvSpec{Kind: "dense", Class: "dense", Elems: lits("O1", "O2", "O3")}, Ops: []Op{
		{K: "call", M: "sort", Args: []Arg{{CB: &m.CB{Fam: "cmp", Ret: "negzero"}}}}}},
	// 5: sort panicked (index out of range) when the comparator truncated the array
	{Recv: RecvSpec{Kind: "dense", Class: "dense", Elems: lits("3", "2", "1")}, Ops: []Op{
		{K: "call", M: "sort", Args: []Arg{{CB: &m.CB{Fam: "cmp", Ret: "key", Mut: "shrink", Arg: 0}}}}}},
	// 6: at() coerced the index before reading the length
	{Recv: RecvSpec{Kind: "dense", Class: "dense", Elems: lits("1")}, Ops: []Op{
		{K: "call", M: "at", Args: []Arg{{CB: &m.CB{Fam: "vo", Ret: "1", Mut: "push"}}}}}},
	// 7: pop fast path left objCount unchanged: gate true with a hole
	{Recv: RecvSpec{Kind: "dense", Class: "dense", Elems: lits("1", "2", "3")}, Ops: []Op{
		{K: "call", M: "pop"},
		{K: "set", I: 3, V: &Arg{V: "1"}, Mode: "sloppy"},
		{K: "set", On: "AP", I: 2, V: &Arg{V: "'P'"}, Mode: "sloppy"},
		{K: "call", M: "indexOf", Args: []Arg{{V: "'P'"}}}}},
	// 8: shift fast path left objCount unchanged
	{Recv: RecvSpec{Kind: "dense", Class: "dense", Elems: lits("1", "2", "3")}, Ops: []Op{
		{K: "call", M: "shift"},
		{K: "del", I: 0, Mode: "sloppy"},
		{K: "set", On: "AP", I: 0, V: &Arg{V: "'P'"}, Mode: "sloppy"},
		{K: "call", M: "indexOf", Args: []Arg{{V: "'P'"}}}}},
	// 9: truncating length left objCount unchanged
	{Recv: RecvSpec{Kind: "dense", Class: "dense", Elems: lits("1", "2", "3")}, Ops: []Op{
		{K: "len", V: &Arg{V: "2"}, Mode: "sloppy"},
		{K: "del", I: 0, Mode: "sloppy"},
		{K: "set", On: "AP", I: 0, V: &Arg{V: "'P'"}, Mode: "sloppy"},
		{K: "call", M: "includes", Args: []Arg{{V: "'P'"}}}}},
	// 10: map fast path: result with holes had objCount == length (gate true with holes on the result)
	{Recv: RecvSpec{Kind: "dense", Class: "dense", Elems: lits("'10'", "")}, Ops: []Op{
		{K: "call", M: "map", Args: []Arg{{CB: &m.CB{Fam: "cb", Ret: "i"}}}}}},
	// 11: the error text of a failed element delete called toString() on the array (join: getters run, O(length))
	{Recv: RecvSpec{Kind: "dense", Class: "dense", Elems: lits("1", "2")}, Ops: []Op{
		{K: "def", I: 0, D: &DescSpec{Get: "G1", C: "f", E: "t"}},
		{K: "del", I: 0, Mode: "sloppy"},
		{K: "del", I: 0, Mode: "strict"}}},
	// 12: assignment to a read-only length coerced the value first (valueOf ran, RangeError possible)
	{Recv: RecvSpec{Kind: "dense", Class: "frozen"}, Ops: []Op{
		{K: "deflen", D: &DescSpec{W: "f"}},
		{K: "len", V: &Arg{CB: &m.CB{Fam: "vo", Ret: "1"}}, Mode: "strict"},
		{K: "len", V: &Arg{V: "-1"}, Mode: "sloppy"}}},
	// 13: Export() of a sparse array called inherited getters with the prototype as this
	{Recv: RecvSpec{Kind: "dense", Class: "sparse"}, Ops: []Op{
		{K: "set", I: 4100, V: &Arg{V: "3"}, Mode: "sloppy"},
		{K: "deflen", D: &DescSpec{V: "20"}},
		{K: "def", On: "AP", I: 11, D: &DescSpec{Get: "G2", C: "t"}}}},
	// 14: flat(undefined) used depth 0
	{Recv: RecvSpec{Kind: "dense", Class: "dense", Elems: lits("N1", "1")}, Ops: []Op{
		{K: "call", M: "flat", Args: []Arg{{V: "undefined"}}}}},
	// 15: includes() did not treat -0 elements as equal to 0 (SameValueZero)
	{Recv: RecvSpec{Kind: "dense", Class: "dense", Elems: lits("-0")}, Ops: []Op{
		{K: "call", M: "includes", Args: []Arg{{V: "-0"}}},
		{K: "call", M: "includes", Args: []Arg{{V: "0"}}},
		{K: "del", I: 5, Mode: "sloppy"},
		{K: "set", I: 2, V: &Arg{V: "-0"}, Mode: "sloppy"},
		{K: "call", M: "includes", Args: []Arg{{V: "0"}, {V: "1"}}}}},
	// 16: {set: undefined} is an accessor descriptor: redefining a frozen data element with it must fail
	{Recv: RecvSpec{Kind: "dense", Class: "frozen", Elems: lits("1")}, Ops: []Op{
		{K: "integ", M: "freeze"},
		{K: "def", I: 0, D: &DescSpec{Set: "undefined", E: "t", C: "f"}, Mode: "reflect"},
		{K: "get", I: 0}}},
	// 17: accessor -> data conversion through {writable:false} kept the stale getter (visible through Export)
	{Recv: RecvSpec{Kind: "dense", Class: "dense"}, Ops: []Op{
		{K: "def", I: 2, D: &DescSpec{Get: "G1", Set: "S1f", E: "t", C: "t"}},
		{K: "def", I: 2, D: &DescSpec{W: "f", E: "f", C: "t"}},
		{K: "get", I: 2}}},
	// 18: {writable:true} on a non-configurable accessor was accepted
	{Recv: RecvSpec{Kind: "dense", Class: "dense"}, Ops: []Op{
		{K: "def", I: 2, D: &DescSpec{Set: "S1f"}},
		{K: "def", I: 2, D: &DescSpec{W: "t"}}}},
	// 19: a.length = v was lost when v's valueOf switched the storage strategy (dense -> sparse)
	{Recv: RecvSpec{Kind: "dense", Class: "dense"}, Ops: []Op{
		{K: "len", V: &Arg{CB: &m.CB{Fam: "vo", Ret: "6", Mut: "setfar", Arg: 5000}}, Mode: "reflect"}}},
	// 20: valueOf freezing the array during a.length = v (same value): no TypeError
	{Recv: RecvSpec{Kind: "dense", Class: "dense"}, Ops: []Op{
		{K: "def", I: 1, D: &DescSpec{V: "'b1'", W: "t", E: "t", C: "t"}},
		{K: "len", V: &Arg{CB: &m.CB{Fam: "vo", Ret: "2", Mut: "freeze"}}, Mode: "strict"}}},
	// 21: splice fast path added an element to a non-extensible array
	{Recv: RecvSpec{Kind: "dense", Class: "frozen"}, Ops: []Op{
		{K: "integ", M: "preventExtensions"},
		{K: "call", M: "splice", Args: []Arg{{V: "0"}, {V: "0"}, {V: "'b1'"}}}}},
	// 22: splice fast path added elements although the read-only length rejects index >= length
	{Recv: RecvSpec{Kind: "dense", Class: "frozen"}, Ops: []Op{
		{K: "deflen", D: &DescSpec{W: "f"}},
		{K: "call", M: "splice", Args: []Arg{{V: "1"}, {V: "-3"}, {V: "11"}, {V: "1.5"}, {V: "O1"}}}}},
	// 23: splice fast path bypassed a setter on Array.prototype when moving elements up
	{Recv: RecvSpec{Kind: "dense", Class: "dense", Elems: lits("'a'", "20")}, Ops: []Op{
		{K: "def", On: "AP", I: 3, D: &DescSpec{Get: "G1", Set: "S1f", E: "t", C: "t"}},
		{K: "call", M: "splice", Args: []Arg{{V: "-4"}, {V: "-2"}, {V: "2"}, {V: "2"}}}}},
	// 24: shift fast path decremented a read-only length
	{Recv: RecvSpec{Kind: "dense", Class: "frozen", Elems: lits("1", "2")}, Ops: []Op{
		{K: "deflen", D: &DescSpec{W: "f"}},
		{K: "call", M: "shift"}}},
	// 25: unshift fast path added an element to a non-extensible array
	{Recv: RecvSpec{Kind: "dense", Class: "frozen", Elems: lits("1")}, Ops: []Op{
		{K: "integ", M: "preventExtensions"},
		{K: "call", M: "unshift", Args: []Arg{{V: "0"}}}}},
	// 26: sparse->dense transition inside _defineIdxProperty lost propValueCount++ (twin excursion by defineProperty burst)
	{Recv: RecvSpec{Kind: "dense", Class: "dense"}, Ops: []Op{
		{K: "len", V: &Arg{V: "4098"}, Mode: "reflect"},
		{K: "def", I: 13, D: &DescSpec{V: "true", W: "t", E: "f", C: "f"}},
		{K: "exc", M: "toDenseDef"},
		{K: "len", V: &Arg{V: "0"}, Mode: "sloppy"}}},
	// 27: fast paths used the length read before a valueOf that shrank the array (splice inside valueOf keeps the gate true)
	{Recv: RecvSpec{Kind: "dense", Class: "dense", Elems: lits("1", "2", "3", "4", "5")}, Ops: []Op{
		{K: "call", M: "indexOf", Args: []Arg{{V: "1"}, {CB: &m.CB{Fam: "vo", Ret: "3", Mut: "splice", Arg: 4}}}}}},
	{Recv: RecvSpec{Kind: "dense", Class: "dense", Elems: lits("1", "2", "3", "4", "5")}, Ops: []Op{
		{K: "call", M: "slice", Args: []Arg{{V: "4"}, {CB: &m.CB{Fam: "vo", Ret: "5", Mut: "splice", Arg: 4}}}}}},
	{Recv: RecvSpec{Kind: "dense", Class: "dense", Elems: lits("1", "2", "3", "4", "5")}, Ops: []Op{
		{K: "call", M: "fill", Args: []Arg{{V: "7"}, {V: "0"}, {CB: &m.CB{Fam: "vo", Ret: "5", Mut: "splice", Arg: 4}}}}}},
	// 30: objectGoSlice.grow within spare capacity must clear the newly exposed slots (host slice = sub-slice whose backing
	// array holds sentinels past len(); seeded change C07-goslice-grow-stale-cap)
	{Recv: RecvSpec{Kind: "goslice", Class: "goslice", Elems: lits("'a'", "'b'")}, Ops: []Op{
		{K: "len", V: &Arg{V: "4"}, Mode: "sloppy"},
		{K: "len", V: &Arg{V: "2"}, Mode: "sloppy"},
		{K: "set", I: 4, V: &Arg{V: "'x'"}, Mode: "sloppy"},
		{K: "call", M: "join", Args: []Arg{{V: "'|'"}}}}},
	{Recv: RecvSpec{Kind: "gosliceptr", Class: "goslice", Elems: lits("1")}, Ops: []Op{
		{K: "call", M: "unshift", Args: []Arg{{V: "0"}}},
		{K: "call", M: "push", Args: []Arg{{V: "2"}}},
		{K: "set", I: 5, V: &Arg{V: "7"}, Mode: "strict"}}},
	{Recv: RecvSpec{Kind: "reflect", Class: "reflect", Elems: lits("1", "2")}, Ops: []Op{
		{K: "len", V: &Arg{V: "5"}, Mode: "sloppy"},
		{K: "set", I: 6, V: &Arg{V: "3"}, Mode: "sloppy"}}},
}
