package c07

import (
	"fmt"
	"strings"

	m "verif/harness/arrmodel"
)

// Case is one materialised case: a receiver and an op sequence. Every op has a JS text (js) and a model twin (run).
type Case struct {
	Recv RecvSpec `json:"recv"`
	Ops  []Op     `json:"ops"`
}

// RecvSpec: Kind in dense | arraylike | goslice | gosliceptr | reflect. Storage/integrity variants (sparse, frozen, ...)
// are produced by leading ops (force / set at a far index / integ), Class records the intended receiver class for the evidence.
type RecvSpec struct {
	Kind  string   `json:"kind"`
	Class string   `json:"class"`
	Elems []string `json:"elems"`         // value literals, "" = hole
	Len   string   `json:"len,omitempty"` // arraylike: the length literal
}

type DescSpec struct {
	V   string `json:"v,omitempty"` // value literal ("" = absent)
	W   string `json:"w,omitempty"` // "t" | "f" | ""
	E   string `json:"e,omitempty"`
	C   string `json:"c,omitempty"`
	Get string `json:"get,omitempty"` // pool function name or "undefined"
	Set string `json:"set,omitempty"`
}

type Arg struct {
	V  string `json:"v,omitempty"`
	CB *m.CB  `json:"cb,omitempty"`
}

type Op struct {
	K    string    `json:"k"`
	On   string    `json:"on,omitempty"`   // a (default) | AP | OP
	I    float64   `json:"i,omitempty"`    // index
	V    *Arg      `json:"v,omitempty"`    // value
	Mode string    `json:"mode,omitempty"` // strict | sloppy | reflect | call
	D    *DescSpec `json:"d,omitempty"`
	M    string    `json:"m,omitempty"` // method / integrity function / excursion kind
	Args []Arg     `json:"args,omitempty"`
}

func (a Arg) js() string {
	if a.CB != nil {
		return a.CB.JS()
	}
	return a.V
}

func (a Arg) val(r *m.Realm) m.Value {
	if a.CB != nil {
		return r.Make(*a.CB)
	}
	return r.Lit(a.V)
}

func flagJS(name, f string) string {
	switch f {
	case "t":
		return name + ":true,"
	case "f":
		return name + ":false,"
	}
	return ""
}

func (d *DescSpec) js() string {
	var b strings.Builder
	b.WriteString("{")
	if d.V != "" {
		b.WriteString("value:" + d.V + ",")
	}
	if d.Get != "" {
		b.WriteString("get:" + d.Get + ",")
	}
	if d.Set != "" {
		b.WriteString("set:" + d.Set + ",")
	}
	b.WriteString(flagJS("writable", d.W) + flagJS("enumerable", d.E) + flagJS("configurable", d.C))
	b.WriteString("}")
	return b.String()
}

func fnOrNil(r *m.Realm, name string) *m.Obj {
	if name == "undefined" {
		return nil
	}
	return r.Pool[name].(*m.Obj)
}

func (d *DescSpec) desc(r *m.Realm) m.Desc {
	var out m.Desc
	if d.V != "" {
		out.HasValue, out.Value = true, r.Lit(d.V)
	}
	if d.Get != "" {
		out.HasGet, out.Get = true, fnOrNil(r, d.Get)
	}
	if d.Set != "" {
		out.HasSet, out.Set = true, fnOrNil(r, d.Set)
	}
	if d.W != "" {
		out.HasW, out.W = true, d.W == "t"
	}
	if d.E != "" {
		out.HasE, out.E = true, d.E == "t"
	}
	if d.C != "" {
		out.HasC, out.C = true, d.C == "t"
	}
	return out
}

func (o *Op) target() string {
	if o.On == "" {
		return "a"
	}
	return o.On
}

func (o *Op) targetObj(r *m.Realm) *m.Obj {
	switch o.On {
	case "AP":
		return r.ArrayProto
	case "OP":
		return r.ObjectProto
	}
	return r.Recv
}

func argsJS(args []Arg) string {
	s := make([]string, len(args))
	for i, a := range args {
		s[i] = a.js()
	}
	return strings.Join(s, ",")
}

func idxJS(i float64) string { return m.NumToString(i) }

// js returns the body of the function handed to the prelude's T().
func (o *Op) js() string {
	t := o.target()
	strict := ""
	if o.Mode == "strict" {
		strict = `"use strict";`
	}
	switch o.K {
	case "get":
		return "return " + t + "[" + idxJS(o.I) + "]"
	case "has":
		return "return " + idxJS(o.I) + " in " + t
	case "set":
		if o.Mode == "reflect" {
			return "return Reflect.set(" + t + "," + idxJS(o.I) + "," + o.V.js() + ")"
		}
		return strict + t + "[" + idxJS(o.I) + "]=" + o.V.js() + ";return 0"
	case "len":
		if o.Mode == "reflect" {
			return "return Reflect.set(" + t + ",'length'," + o.V.js() + ")"
		}
		return strict + t + ".length=" + o.V.js() + ";return 0"
	case "def":
		if o.Mode == "reflect" {
			return "return Reflect.defineProperty(" + t + "," + idxJS(o.I) + "," + o.D.js() + ")"
		}
		return "Object.defineProperty(" + t + "," + idxJS(o.I) + "," + o.D.js() + ");return 0"
	case "deflen":
		if o.Mode == "reflect" {
			return "return Reflect.defineProperty(" + t + ",'length'," + o.D.js() + ")"
		}
		return "Object.defineProperty(" + t + ",'length'," + o.D.js() + ");return 0"
	case "del":
		if o.Mode == "reflect" {
			return "return Reflect.deleteProperty(" + t + "," + idxJS(o.I) + ")"
		}
		return strict + "return delete " + t + "[" + idxJS(o.I) + "]"
	case "integ":
		return "return Object." + o.M + "(" + t + ")"
	case "call":
		if o.Mode == "call" {
			sep := ""
			if len(o.Args) > 0 {
				sep = ","
			}
			return "return AP." + o.M + ".call(a" + sep + argsJS(o.Args) + ")"
		}
		return "return a." + o.M + "(" + argsJS(o.Args) + ")"
	case "from":
		return "return Array.from(" + argsJS(o.Args) + ")"
	case "of":
		return "return Array.of(" + argsJS(o.Args) + ")"
	case "isarr":
		return "return Array.isArray(a)"
	case "iternew":
		return "it=AP." + o.M + ".call(a);return 0"
	case "iternext":
		return "var r=it.next();return [r.value,r.done]"
	case "spread":
		return "a[Symbol.isConcatSpreadable]=" + o.V.js() + ";return 0"
	case "force", "exc":
		return "return 0"
	}
	panic("c07: bad op kind " + o.K)
}

// run is the model twin of js(): it returns the function handed to Realm.Try.
func (o *Op) run(r *m.Realm) func() m.Value {
	strictFail := func(ok bool) m.Value {
		switch o.Mode {
		case "reflect":
			return ok
		case "strict":
			if !ok {
				r.ThrowType()
			}
		}
		return 0.0
	}
	return func() m.Value {
		t := o.targetObj(r)
		switch o.K {
		case "get":
			return r.GetV(t, m.IdxKey(o.I))
		case "has":
			return r.HasProperty(t, m.IdxKey(o.I))
		case "set":
			v := o.V.val(r)
			return strictFail(r.Set(t, m.IdxKey(o.I), v, t))
		case "len":
			v := o.V.val(r)
			return strictFail(r.Set(t, "length", v, t))
		case "def", "deflen":
			key := "length"
			if o.K == "def" {
				key = m.IdxKey(o.I)
			}
			ok := r.DefineOwnProperty(t, key, o.D.desc(r))
			if o.Mode == "reflect" {
				return ok
			}
			if !ok {
				r.ThrowType()
			}
			return 0.0
		case "del":
			ok := r.Delete(t, m.IdxKey(o.I))
			if o.Mode == "strict" && !ok {
				r.ThrowType()
			}
			return ok
		case "integ":
			switch o.M {
			case "freeze":
				r.SetIntegrityLevel(t, "frozen")
				return t
			case "seal":
				r.SetIntegrityLevel(t, "sealed")
				return t
			case "preventExtensions":
				r.PreventExtensions(t)
				return t
			case "isFrozen":
				return r.TestIntegrityLevel(t, "frozen")
			case "isSealed":
				return r.TestIntegrityLevel(t, "sealed")
			case "isExtensible":
				return t.Ext
			}
		case "call":
			args := make([]m.Value, len(o.Args))
			for i, a := range o.Args {
				args[i] = a.val(r)
			}
			res := r.Method(o.M, t, args)
			return res
		case "from":
			args := make([]m.Value, len(o.Args))
			for i, a := range o.Args {
				args[i] = a.val(r)
			}
			return r.ArrayFrom(args)
		case "of":
			args := make([]m.Value, len(o.Args))
			for i, a := range o.Args {
				args[i] = a.val(r)
			}
			return r.ArrayOf(args)
		case "isarr":
			return r.IsArray(t)
		case "iternew":
			r.It = r.Method(o.M, t, nil).(*m.Obj)
			return 0.0
		case "iternext":
			v, done := r.IterNext(r.It)
			return r.NewArrayFrom([]m.Value{v, done})
		case "spread":
			r.Set(t, m.SymSpreadable, o.V.val(r), t)
			return 0.0
		case "force", "exc":
			return 0.0
		}
		panic("c07: bad op kind " + o.K)
	}
}

// text is the human-readable / canonical form of an op (used in signatures and replay output).
func (o *Op) text() string {
	switch o.K {
	case "force", "exc":
		return "/*" + o.K + ":" + o.M + "*/"
	}
	s := o.js()
	s = strings.TrimPrefix(s, "return ")
	s = strings.TrimSuffix(s, ";return 0")
	if o.Mode == "sloppy" {
		s = "/*sloppy*/" + s
	}
	return s
}

func (c *Case) recvJS() string {
	switch c.Recv.Kind {
	case "dense":
		parts := make([]string, len(c.Recv.Elems))
		copy(parts, c.Recv.Elems)
		s := strings.Join(parts, ",")
		if n := len(parts); n > 0 && parts[n-1] == "" {
			s += "," // trailing hole needs an extra comma in an array literal
		}
		return "a=[" + s + "]"
	case "arraylike":
		var b strings.Builder
		b.WriteString("a={length:" + c.Recv.Len)
		for i, e := range c.Recv.Elems {
			if e != "" {
				fmt.Fprintf(&b, ",%d:%s", i, e)
			}
		}
		b.WriteString("}")
		return b.String()
	}
	return "a=<" + c.Recv.Kind + " " + strings.Join(c.Recv.Elems, ",") + ">"
}

// Text is the canonical text of a case.
func (c *Case) Text() string {
	parts := []string{c.recvJS()}
	for i := range c.Ops {
		parts = append(parts, c.Ops[i].text())
	}
	return strings.Join(parts, "; ")
}
