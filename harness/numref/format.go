package numref

import (
	"math/big"
	"strconv"
	"strings"
	"sync/atomic"
)

// decExp returns n with 10^(n-1) <= num/den < 10^n (num, den > 0).
func decExp(num, den *big.Int) int {
	// estimate from bit lengths: log10(v) in ((bl-1)*log10(2), (bl+1)*log10(2))
	bl := num.BitLen() - den.BitLen()
	n := bl * 30103 / 100000
	// correct by exact comparison
	cmpPow := func(k int) int { // compare num/den with 10^k
		var a, b big.Int
		if k >= 0 {
			b.Mul(den, pow10(k))
			return num.Cmp(&b)
		}
		a.Mul(num, pow10(-k))
		return a.Cmp(den)
	}
	for cmpPow(n) >= 0 { // v >= 10^n
		n++
	}
	for cmpPow(n-1) < 0 { // v < 10^(n-1)
		n--
	}
	return n
}

// Shortest returns the ECMAScript Number::toString digit selection for a finite f > 0 (ECMA-262 6.1.6.1.20 step 5 with
// the NOTE 2 refinement): the digit string s (no trailing zeros, k = len(s) minimal such that s*10^(n-k) rounds to f)
// closest to f, ties to the even s. Value = 0.s * 10^n.
// unique reports whether the choice of the last digit was forced (only one k-digit candidate lies in the rounding interval).
func Shortest(f float64) (digits string, n int, unique bool) {
	if !(f > 0) || !IsFinite(f) {
		panic("numref: Shortest needs a positive finite double")
	}
	if c := shortestCache.Load(); c != nil && c.f == f {
		return c.digits, c.n, c.unique
	}
	digits, n, unique = shortest(f)
	shortestCache.Store(&shortestEntry{f, digits, n, unique})
	return
}

type shortestEntry struct {
	f      float64
	digits string
	n      int
	unique bool
}

var shortestCache atomic.Pointer[shortestEntry]

func shortest(f float64) (digits string, n int, unique bool) {
	_, m, e := Decompose(f)
	// work in units of 2^(e-2): f = F, upper boundary F+2, lower boundary F-2 (or F-1 at a binade boundary)
	F := new(big.Int).SetUint64(m)
	F.Lsh(F, 2)
	hi := new(big.Int).Add(F, big.NewInt(2))
	lo := new(big.Int)
	if m == 1<<52 && e > -1074 {
		lo.Sub(F, bigOne)
	} else {
		lo.Sub(F, big.NewInt(2))
	}
	inclusive := m&1 == 0
	u := e - 2
	fr := exactFrac(f)
	nf := decExp(fr.num, fr.den)

	var twoUp, twoDown *big.Int
	if u >= 0 {
		twoUp = new(big.Int).Lsh(bigOne, uint(u))
		twoDown = bigOne
	} else {
		twoUp = bigOne
		twoDown = new(big.Int).Lsh(bigOne, uint(-u))
	}
	var mul, den, nF, nLo, nHi, s, t, dist, bestDist big.Int
	inside := func(v *big.Int) bool { // v = candidate * den
		cl, ch := v.Cmp(&nLo), v.Cmp(&nHi)
		return (cl > 0 || (cl == 0 && inclusive)) && (ch < 0 || (ch == 0 && inclusive))
	}
	// try(k): is there a k-digit (or shorter) decimal s*10^(nf-k) inside the rounding interval? If so return the closest
	// one (ties to even s) and whether it is the only one.
	try := func(k int) (best *big.Int, q int, hits int) {
		q = nf - k
		// candidate value s*10^q; compare s*den with X*mul for X in {F, lo, hi}
		if q >= 0 {
			mul.Set(twoUp)
			den.Mul(twoDown, pow10(q))
		} else {
			mul.Mul(twoUp, pow10(-q))
			den.Set(twoDown)
		}
		nF.Mul(F, &mul)
		nLo.Mul(lo, &mul)
		nHi.Mul(hi, &mul)
		s.Quo(&nF, &den)
		for c := 0; c < 2; c++ {
			if c == 1 {
				s.Add(&s, bigOne)
			}
			t.Mul(&s, &den)
			if s.Sign() == 0 || !inside(&t) {
				continue
			}
			hits++
			dist.Sub(&t, &nF)
			dist.Abs(&dist)
			if best == nil {
				best = new(big.Int).Set(&s)
				bestDist.Set(&dist)
			} else if dc := dist.Cmp(&bestDist); dc < 0 || (dc == 0 && s.Bit(0) == 0) {
				best.Set(&s)
			}
		}
		if best != nil && hits == 1 {
			// further k-digit candidates in the interval are never closer, but they make the last digit non-unique
			for _, d := range []int64{-1, 1} {
				t.Add(best, big.NewInt(d))
				if t.Sign() <= 0 {
					continue
				}
				t.Mul(&t, &den)
				if inside(&t) {
					hits++
				}
			}
		}
		return
	}
	// existence is monotone in k (a k-digit member stays a member when a 0 is appended): binary search the minimum
	loK, hiK := 1, 17
	if b, _, _ := try(17); b == nil {
		panic("numref: no 17-digit representation round-trips: " + strconv.FormatUint(m, 10))
	}
	for loK < hiK {
		mid := (loK + hiK) / 2
		if b, _, _ := try(mid); b != nil {
			hiK = mid
		} else {
			loK = mid + 1
		}
	}
	best, q, hits := try(loK)
	ds := best.String()
	n = q + len(ds)
	ds = strings.TrimRight(ds, "0")
	return ds, n, hits == 1
}

// FormatShortest lays out digits/n as Number::toString(radix 10) prescribes (steps 6–11), without sign.
func FormatShortest(s string, n int) string {
	k := len(s)
	var b strings.Builder
	switch {
	case k <= n && n <= 21:
		b.WriteString(s)
		b.WriteString(strings.Repeat("0", n-k))
	case 0 < n && n <= 21:
		b.WriteString(s[:n])
		b.WriteByte('.')
		b.WriteString(s[n:])
	case -6 < n && n <= 0:
		b.WriteString("0.")
		b.WriteString(strings.Repeat("0", -n))
		b.WriteString(s)
	default:
		b.WriteString(s[:1])
		if k > 1 {
			b.WriteByte('.')
			b.WriteString(s[1:])
		}
		writeExp(&b, n-1)
	}
	return b.String()
}

func writeExp(b *strings.Builder, e int) {
	b.WriteByte('e')
	if e < 0 {
		b.WriteByte('-')
		e = -e
	} else {
		b.WriteByte('+')
	}
	b.WriteString(itoa(e))
}

func itoa(v int) string {
	if v == 0 {
		return "0"
	}
	neg := v < 0
	if neg {
		v = -v
	}
	var buf [24]byte
	i := len(buf)
	for v > 0 {
		i--
		buf[i] = byte('0' + v%10)
		v /= 10
	}
	if neg {
		i--
		buf[i] = '-'
	}
	return string(buf[i:])
}

// ToString is Number::toString(x, 10).
func ToString(f float64) string {
	switch {
	case IsNaN(f):
		return "NaN"
	case IsZero(f):
		return "0"
	case IsInf(f):
		if Signbit(f) {
			return "-Infinity"
		}
		return "Infinity"
	}
	if Signbit(f) {
		s, n, _ := Shortest(-f)
		return "-" + FormatShortest(s, n)
	}
	s, n, _ := Shortest(f)
	return FormatShortest(s, n)
}

// roundHalfUpDiv returns floor(num/den + 1/2) (num >= 0, den > 0): the integer nearest to num/den, the larger one on a tie.
func roundHalfUpDiv(num, den *big.Int) (q *big.Int, tie bool) {
	q, r := new(big.Int).QuoRem(num, den, new(big.Int))
	r.Lsh(r, 1)
	c := r.Cmp(den)
	if c >= 0 {
		q.Add(q, bigOne)
	}
	return q, c == 0
}

// ToFixed is Number.prototype.toFixed for a finite or infinite non-NaN... any double x and 0 <= d <= 100 (ECMA-262 21.1.3.3).
// halfway reports that the exact value lay exactly between two candidates (the "pick the larger n" rule decided).
func ToFixed(x float64, d int) (str string, halfway bool) {
	if IsNaN(x) {
		return "NaN", false
	}
	if IsInf(x) {
		return ToString(x), false
	}
	neg := false
	if Signbit(x) && !IsZero(x) {
		neg = true
		x = -x
	}
	if IsZero(x) {
		x = 0
	}
	// x >= 10^21 ?
	fr := exactFrac(x)
	var t big.Int
	t.Mul(fr.den, pow10(21))
	var m string
	if fr.num.Cmp(&t) >= 0 {
		m = ToString(x)
	} else {
		num := new(big.Int).Mul(fr.num, pow10(d))
		n, tie := roundHalfUpDiv(num, fr.den)
		halfway = tie
		if n.Sign() == 0 {
			m = "0"
		} else {
			m = n.String()
		}
		if d != 0 {
			k := len(m)
			if k <= d {
				m = strings.Repeat("0", d+1-k) + m
				k = d + 1
			}
			m = m[:k-d] + "." + m[k-d:]
		}
	}
	if neg {
		return "-" + m, halfway
	}
	return m, halfway
}

// roundSig rounds x > 0 to p significant decimal digits (ties to the larger value): x ≈ n * 10^(e-p+1) with 10^(p-1) <= n < 10^p.
func roundSig(x float64, p int) (n *big.Int, e int, tie bool) {
	fr := exactFrac(x)
	e = decExp(fr.num, fr.den) - 1
	sc := e - p + 1 // divide by 10^sc
	num := new(big.Int).Set(fr.num)
	den := new(big.Int).Set(fr.den)
	if sc >= 0 {
		den.Mul(den, pow10(sc))
	} else {
		num.Mul(num, pow10(-sc))
	}
	n, tie = roundHalfUpDiv(num, den)
	if n.Cmp(pow10(p)) == 0 {
		n = new(big.Int).Set(pow10(p - 1))
		e++
	}
	return
}

// ToExponential is Number.prototype.toExponential(fd) for 0 <= fd <= 100; fd < 0 means "undefined" (as many digits as necessary).
func ToExponential(x float64, fd int) (str string, halfway bool) {
	if IsNaN(x) {
		return "NaN", false
	}
	if IsInf(x) {
		return ToString(x), false
	}
	neg := false
	if Signbit(x) && !IsZero(x) {
		neg = true
		x = -x
	}
	var m string
	e := 0
	if IsZero(x) {
		if fd < 0 {
			fd = 0
		}
		m = strings.Repeat("0", fd+1)
	} else if fd < 0 {
		s, n, _ := Shortest(x)
		m = s
		e = n - 1
		fd = len(s) - 1
	} else {
		var n *big.Int
		n, e, halfway = roundSig(x, fd+1)
		m = n.String()
	}
	var b strings.Builder
	if neg {
		b.WriteByte('-')
	}
	b.WriteString(m[:1])
	if fd != 0 {
		b.WriteByte('.')
		b.WriteString(m[1:])
	}
	writeExp(&b, e)
	return b.String(), halfway
}

// ToPrecision is Number.prototype.toPrecision(p) for 1 <= p <= 100.
func ToPrecision(x float64, p int) (str string, halfway bool) {
	if IsNaN(x) {
		return "NaN", false
	}
	if IsInf(x) {
		return ToString(x), false
	}
	neg := false
	if Signbit(x) && !IsZero(x) {
		neg = true
		x = -x
	}
	var m string
	e := 0
	if IsZero(x) {
		m = strings.Repeat("0", p)
	} else {
		var n *big.Int
		n, e, halfway = roundSig(x, p)
		m = n.String()
	}
	var b strings.Builder
	if neg {
		b.WriteByte('-')
	}
	switch {
	case e < -6 || e >= p:
		b.WriteString(m[:1])
		if p != 1 {
			b.WriteByte('.')
			b.WriteString(m[1:])
		}
		writeExp(&b, e)
	case e == p-1:
		b.WriteString(m)
	case e >= 0:
		b.WriteString(m[:e+1])
		b.WriteByte('.')
		b.WriteString(m[e+1:])
	default:
		b.WriteString("0.")
		b.WriteString(strings.Repeat("0", -(e + 1)))
		b.WriteString(m)
	}
	return b.String(), halfway
}

// ParseRadixString parses the output format of Number.prototype.toString(radix): optional '-', one or more radix digits
// (lower case), optionally '.' and one or more radix digits. It returns the exact value as sign + unreduced fraction.
func ParseRadixString(s string, radix int) (neg bool, num, den *big.Int, ok bool) {
	if strings.HasPrefix(s, "-") {
		neg = true
		s = s[1:]
	}
	ip, fp := s, ""
	if i := strings.IndexByte(s, '.'); i >= 0 {
		ip, fp = s[:i], s[i+1:]
		if fp == "" {
			return false, nil, nil, false
		}
	}
	if ip == "" {
		return false, nil, nil, false
	}
	all := ip + fp
	u := make([]uint16, len(all))
	for i := 0; i < len(all); i++ {
		c := all[i]
		if c >= 'A' && c <= 'Z' {
			return false, nil, nil, false
		}
		if digitVal(uint16(c)) >= radix {
			return false, nil, nil, false
		}
		u[i] = uint16(c)
	}
	if len(ip) > 1 && ip[0] == '0' {
		return false, nil, nil, false // no leading zeros
	}
	num = RadixInt(u, radix)
	den = powInt(radix, len(fp))
	return neg, num, den, true
}

// DecimalStringValue parses any output of String(x)/toFixed/toExponential/toPrecision (decimal, optional exponent) into the
// double nearest to the value written. ok=false if the text is not of that shape.
func DecimalStringValue(s string) (float64, bool) {
	u := Units(s)
	neg := false
	if len(u) > 0 && u[0] == '-' {
		neg = true
		u = u[1:]
	}
	n, digits, exp10 := scanStrDecimal(u)
	if n == 0 || n != len(u) {
		return 0, false
	}
	return DecimalToFloat(neg, digits, exp10), true
}
