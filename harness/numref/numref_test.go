package numref

import (
	"math"
	"strings"
	"testing"
)

func bitsEq(a, b float64) bool { return SameValue(a, b) }

func TestStringToNumber(t *testing.T) {
	nan := math.NaN()
	cases := []struct {
		s string
		v float64
	}{
		{"", 0}, {"   ", 0}, {"\t\n\v\f\r \u00a0\ufeff\u2028\u2029\u1680\u2000\u200a\u202f\u205f\u3000", 0},
		{"0", 0}, {"-0", math.Copysign(0, -1)}, {"-00", math.Copysign(0, -1)}, {"+0", 0}, {"-0.0e5", math.Copysign(0, -1)},
		{"1", 1}, {" 12 ", 12}, {"\u00a012\ufeff", 12}, {"\u20281\u2029", 1}, {"\u00851", nan}, {"\u200b1", nan}, {"\u180e1", nan},
		{"1.", 1}, {".5", 0.5}, {".", nan}, {"1.e1", 10}, {".e1", nan}, {"1e", nan}, {"1e+", nan}, {"e1", nan}, {"1 2", nan},
		{"Infinity", math.Inf(1)}, {"+Infinity", math.Inf(1)}, {"-Infinity", math.Inf(-1)}, {"infinity", nan}, {"Infinityx", nan}, {"Inf", nan},
		{"0x10", 16}, {"0X1f", 31}, {"0b101", 5}, {"0B11", 3}, {"0o17", 15}, {"0O7", 7}, {"0x", nan}, {"-0x10", nan}, {"+0x10", nan}, {"0x-1", nan}, {"0x+1", nan},
		{"0b2", nan}, {"0o8", nan}, {"0x1g", nan}, {"1_0", nan}, {"0x1_0", nan}, {"1n", nan}, {"0.1e-1", 0.01}, {"1e1000", math.Inf(1)}, {"-1e1000", math.Inf(-1)},
		{"1e-1000", 0}, {"-1e-1000", math.Copysign(0, -1)}, {"0x10000000000000000", 18446744073709551616}, {"0x20000000000001", 9007199254740992},
		{"0x20000000000003", 9007199254740996}, {"9007199254740993", 9007199254740992}, {"9007199254740995", 9007199254740996},
		{"9007199254740993.000000000000000000000000000000000001", 9007199254740994},
		{"1e99999999999999999999", math.Inf(1)}, {"1e-99999999999999999999", 0}, {"0e99999999999999999999", 0},
		{"5e-324", 5e-324}, {"2.4703282292062327e-324", 0}, {"2.4703282292062328e-324", 5e-324}, {"1.7976931348623157e308", math.MaxFloat64},
		{"1.7976931348623158e308", math.MaxFloat64}, {"1.7976931348623159e308", math.Inf(1)},
		{"179769313486231580793728971405303415079934132710037826936173778980444968292764750946649017977587207096330286416692887910946555547851940402630657488671505820681908902000708383676273854845817711531764475730270069855571366959622842914819860834936475292719074168444365510704342711559699508093042880177904174497791", math.MaxFloat64},
		{"179769313486231580793728971405303415079934132710037826936173778980444968292764750946649017977587207096330286416692887910946555547851940402630657488671505820681908902000708383676273854845817711531764475730270069855571366959622842914819860834936475292719074168444365510704342711559699508093042880177904174497792", math.Inf(1)},
		{"\u0661", nan}, {"\uff11", nan},
	}
	for _, c := range cases {
		got := StringToNumber(Units(c.s))
		if !bitsEq(got, c.v) {
			t.Errorf("StringToNumber(%q) = %v, want %v", c.s, got, c.v)
		}
	}
}

func TestParseFloat(t *testing.T) {
	nan := math.NaN()
	cases := []struct {
		s string
		v float64
	}{
		{"", nan}, {"  1.5abc", 1.5}, {"1e", 1}, {"1e+", 1}, {"1e+5x", 1e5}, {".5.5", 0.5}, {".", nan}, {"-.5", -0.5}, {"-", nan}, {"+", nan},
		{"-0", math.Copysign(0, -1)}, {"0x10", 0}, {"Infinityx", math.Inf(1)}, {"-Infinity", math.Inf(-1)}, {"infinity", nan}, {"1_000", 1},
		{"\ufeff\u00a0 7", 7}, {"7\u00a0", 7}, {"\u00857", nan}, {"1.e3", 1000}, {"e3", nan}, {"5.", 5}, {"00012", 12}, {"- 1", nan}, {"1e1000", math.Inf(1)},
	}
	for _, c := range cases {
		got := ParseFloat(Units(c.s))
		if !bitsEq(got, c.v) {
			t.Errorf("ParseFloat(%q) = %v, want %v", c.s, got, c.v)
		}
	}
}

func TestParseInt(t *testing.T) {
	nan := math.NaN()
	cases := []struct {
		s string
		r int32
		v float64
	}{
		{"", 0, nan}, {"12", 0, 12}, {"  -12px", 0, -12}, {"0x1F", 0, 31}, {"0x1F", 16, 31}, {"0x1F", 10, 0}, {"0x", 0, nan}, {"-0x10", 0, -16}, {"+0X10", 16, 16},
		{"-0", 0, math.Copysign(0, -1)}, {"-0", 10, math.Copysign(0, -1)}, {"-", 0, nan}, {"z", 36, 35}, {"Z", 36, 35}, {"z", 35, nan}, {"10", 1, nan}, {"10", 37, nan}, {"10", 2, 2},
		{"10", -5, nan}, {"0b11", 0, 0}, {"0o7", 8, 0}, {"1e3", 0, 1}, {"12", 3, 5}, {"129", 3, 5}, {"\u00a0\ufeff9", 10, 9}, {"9\u00a0", 10, 9},
		{"9007199254740993", 10, 9007199254740992}, {"123456789012345678901234567890", 10, 1.2345678901234568e29},
		{"100000000000000000000000000000000000000000000000000000001", 2, 72057594037927936}, // 2^56+1
		{"ffffffffffffffffffffffffffffffff", 16, 3.402823669209385e38},
		{"1_0", 10, 1}, {"1.9", 10, 1},
	}
	for _, c := range cases {
		got := ParseInt(Units(c.s), c.r)
		if !bitsEq(got.Value, c.v) {
			t.Errorf("ParseInt(%q,%d) = %v, want %v", c.s, c.r, got.Value, c.v)
		}
	}
	// the 20-digit option
	r := ParseInt(Units("100000000000000000001999"), 10)
	if !r.Accepts(1.00000000000000000002e23) || !r.Accepts(r.Value) {
		t.Errorf("Accepts: %+v", r)
	}
}

func TestToString(t *testing.T) {
	cases := []struct {
		v float64
		s string
	}{
		{0, "0"}, {math.Copysign(0, -1), "0"}, {math.NaN(), "NaN"}, {math.Inf(1), "Infinity"}, {math.Inf(-1), "-Infinity"},
		{1, "1"}, {-1, "-1"}, {123456789, "123456789"}, {0.5, "0.5"}, {0.1, "0.1"}, {0.000001, "0.000001"}, {0.0000001, "1e-7"}, {1.5e-7, "1.5e-7"},
		{1e21, "1e+21"}, {1e20, "100000000000000000000"}, {999999999999999900000, "999999999999999900000"}, {1.2e21, "1.2e+21"}, {123456789012345680000, "123456789012345680000"},
		{5e-324, "5e-324"}, {math.MaxFloat64, "1.7976931348623157e+308"}, {2.2250738585072014e-308, "2.2250738585072014e-308"},
		{9007199254740992, "9007199254740992"}, {9007199254740994, "9007199254740994"}, {4294967296, "4294967296"}, {0.30000000000000004, "0.30000000000000004"},
		{1e23, "1e+23"}, {8.41e21, "8.41e+21"}, {2e-7, "2e-7"}, {-1.5e-9, "-1.5e-9"}, {100, "100"}, {1e-6, "0.000001"}, {123.456, "123.456"},
		{5e-7, "5e-7"}, {4.35, "4.35"}, {9.5367431640625e-7, "9.5367431640625e-7"}, {2.2204460492503131e-16, "2.220446049250313e-16"},
		{9.007199254740991e15, "9007199254740991"}, {1.7976931348623155e308, "1.7976931348623155e+308"}, {4.9406564584124654e-324, "5e-324"}, {1e-323, "1e-323"},
		{2e22, "2e+22"},
	}
	for _, c := range cases {
		if got := ToString(c.v); got != c.s {
			t.Errorf("ToString(%b) = %q, want %q", c.v, got, c.s)
		}
	}
}

func TestShortestVsStrconv(t *testing.T) {
	x := uint64(0x9e3779b97f4a7c15)
	for i := 0; i < 20000; i++ {
		x ^= x << 13
		x ^= x >> 7
		x ^= x << 17
		f := math.Float64frombits(x &^ (1 << 63))
		if !IsFinite(f) || f == 0 {
			continue
		}
		d, n, _ := Shortest(f)
		d2, n2 := Shortest2(f)
		if d != d2 || n != n2 {
			t.Fatalf("Shortest(%x): %s,%d vs strconv %s,%d", x, d, n, d2, n2)
		}
		v, ok := DecimalStringValue(ToString(f))
		if !ok || !bitsEq(v, f) {
			t.Fatalf("round trip of %x through %q gives %v", x, ToString(f), v)
		}
	}
}

func TestToFixedEtc(t *testing.T) {
	fx := []struct {
		v float64
		d int
		s string
	}{
		{0, 0, "0"}, {0, 2, "0.00"}, {math.Copysign(0, -1), 2, "0.00"}, {0.5, 0, "1"}, {1.5, 0, "2"}, {2.5, 0, "3"}, {-2.5, 0, "-3"}, {-0.5, 0, "-1"}, {-0.4, 0, "-0"},
		{1.005, 2, "1.00"}, {1.45, 1, "1.4"}, {8.345, 2, "8.35"}, {0.000001, 7, "0.0000010"}, {1e21, 2, "1e+21"}, {1e20, 2, "100000000000000000000.00"},
		{123.456, 2, "123.46"}, {0.1, 20, "0.10000000000000000555"}, {-1.5e-10, 2, "-0.00"}, {1.25, 1, "1.3"}, {1.75, 1, "1.8"}, {0.125, 2, "0.13"}, {0.375, 2, "0.38"},
		{5e-324, 100, "0." + strings.Repeat("0", 100)}, {999.9999, 2, "1000.00"}, {0.99, 1, "1.0"}, {math.NaN(), 2, "NaN"}, {math.Inf(-1), 2, "-Infinity"},
		{1000000000000000128, 0, "1000000000000000128"}, {0.5, 1, "0.5"}, {10.235, 2, "10.23"}, {1.255, 2, "1.25"},
	}
	for _, c := range fx {
		if got, _ := ToFixed(c.v, c.d); got != c.s {
			t.Errorf("ToFixed(%v,%d) = %q, want %q", c.v, c.d, got, c.s)
		}
	}
	ex := []struct {
		v float64
		d int
		s string
	}{
		{0, -1, "0e+0"}, {0, 2, "0.00e+0"}, {1, -1, "1e+0"}, {123456, 2, "1.23e+5"}, {123456, -1, "1.23456e+5"}, {0.00015, 0, "1e-4"}, {0.00025, 0, "3e-4"}, {-1.5, 0, "-2e+0"}, {2.5, 0, "3e+0"},
		{9.99, 1, "1.0e+1"}, {9.95, 1, "9.9e+0"}, {1e21, 3, "1.000e+21"}, {5e-324, 2, "4.94e-324"}, {math.MaxFloat64, 0, "2e+308"}, {25, 0, "3e+1"}, {35, 0, "4e+1"},
		{1.25, 1, "1.3e+0"}, {-0.0000001, -1, "-1e-7"}, {math.Copysign(0, -1), 1, "0.0e+0"}, {math.Inf(1), 1, "Infinity"},
	}
	for _, c := range ex {
		if got, _ := ToExponential(c.v, c.d); got != c.s {
			t.Errorf("ToExponential(%v,%d) = %q, want %q", c.v, c.d, got, c.s)
		}
	}
	pr := []struct {
		v float64
		p int
		s string
	}{
		{0, 1, "0"}, {0, 3, "0.00"}, {1, 1, "1"}, {123.456, 4, "123.5"}, {123.456, 2, "1.2e+2"}, {0.000123, 2, "0.00012"}, {0.000000123, 2, "1.2e-7"}, {0.00000123, 2, "0.0000012"},
		{1e21, 3, "1.00e+21"}, {123456, 6, "123456"}, {123456, 7, "123456.0"}, {123456, 5, "1.2346e+5"}, {2.5, 1, "3"}, {-2.5, 1, "-3"}, {25, 1, "3e+1"}, {99.99, 3, "100"}, {99.99, 2, "1.0e+2"},
		{1.25, 2, "1.3"}, {1.35, 2, "1.4"}, {5e-324, 1, "5e-324"}, {math.Copysign(0, -1), 2, "0.0"}, {0.5, 1, "0.5"}, {1e-7, 1, "1e-7"}, {1e-6, 1, "0.000001"}, {15, 1, "2e+1"}, {math.NaN(), 5, "NaN"},
	}
	for _, c := range pr {
		if got, _ := ToPrecision(c.v, c.p); got != c.s {
			t.Errorf("ToPrecision(%v,%d) = %q, want %q", c.v, c.p, got, c.s)
		}
	}
}

func TestFixedVsStrconv(t *testing.T) {
	x := uint64(12345)
	n := 0
	for i := 0; i < 30000; i++ {
		x ^= x << 13
		x ^= x >> 7
		x ^= x << 17
		f := math.Float64frombits(x)
		if !IsFinite(f) {
			continue
		}
		// bias towards moderate magnitudes
		if i%2 == 0 {
			f = math.Float64frombits(x&^(0x7ff<<52) | uint64(1023-30+int(x>>40)%90)<<52)
		}
		d := int(x>>20) % 101
		got, half := ToFixed(f, d)
		if math.Abs(f) < 1e21 && !half {
			if want := Fixed2(f, d); got != want {
				t.Fatalf("ToFixed(%v,%d) = %q strconv %q", f, d, got, want)
			}
			n++
		}
		p := 1 + int(x>>28)%100
		gotp, halfp := ToPrecision(f, p)
		if !halfp && f != 0 {
			ds, e := SigDigits2(f, p)
			ge, _ := ToExponential(f, p-1)
			ge = strings.TrimPrefix(ge, "-")
			mant, exp, _ := strings.Cut(ge, "e")
			if strings.Replace(mant, ".", "", 1) != ds || exp != map[bool]string{true: "+", false: "-"}[e >= 0]+itoa(abs(e)) {
				t.Fatalf("ToExponential(%v,%d) = %q, strconv digits %s e=%d", f, p-1, ge, ds, e)
			}
			_ = gotp
		}
	}
	if n < 5000 {
		t.Fatalf("too few comparisons: %d", n)
	}
}

func abs(i int) int {
	if i < 0 {
		return -i
	}
	return i
}

func TestConversions(t *testing.T) {
	two := func(k int) float64 { return math.Ldexp(1, k) }
	i32 := []struct {
		f float64
		v int32
	}{
		{0, 0}, {math.NaN(), 0}, {math.Inf(1), 0}, {-1, -1}, {2147483647, 2147483647}, {2147483648, -2147483648}, {4294967295, -1}, {4294967296, 0}, {4294967297, 1},
		{-2147483649, 2147483647}, {1e21, -559939584}, {-1e21, 559939584}, {two(53) + 2, 2}, {two(63), 0}, {two(64) + two(12), 4096}, {1.9, 1}, {-1.9, -1}, {-0.5, 0},
		{two(31) + 0.5, -2147483648}, {two(84) + two(32), 0}, {two(83) + two(31), -2147483648}, {math.MaxFloat64, 0}, {5e-324, 0},
	}
	for _, c := range i32 {
		if got := ToInt32(c.f); got != c.v {
			t.Errorf("ToInt32(%v) = %d, want %d", c.f, got, c.v)
		}
	}
	if ToUint32(-1e21) != 559939584 || ToUint32(-1) != 4294967295 || ToUint16(-1) != 65535 || ToInt16(32768) != -32768 || ToInt8(128) != -128 || ToUint8(-1) != 255 || ToInt8(-129) != 127 {
		t.Error("modular conversions")
	}
	cl := []struct {
		f float64
		v uint8
	}{{-1, 0}, {0.5, 0}, {1.5, 2}, {2.5, 2}, {254.5, 254}, {254.50000000000003, 255}, {255.5, 255}, {300, 255}, {math.NaN(), 0}, {math.Inf(1), 255}, {0.49999999999999994, 0}, {0.5000000000000001, 1}}
	for _, c := range cl {
		if got := ToUint8Clamp(c.f); got != c.v {
			t.Errorf("ToUint8Clamp(%v) = %d, want %d", c.f, got, c.v)
		}
	}
	if ToLength(-5) != 0 || ToLength(math.Inf(1)) != 1<<53-1 || ToLength(two(53)) != 1<<53-1 || ToLength(3.9) != 3 || ToLength(math.NaN()) != 0 {
		t.Error("ToLength")
	}
	if _, ok := ToIndex(-1); ok {
		t.Error("ToIndex(-1)")
	}
	if v, ok := ToIndex(-0.9); !ok || v != 0 {
		t.Error("ToIndex(-0.9)")
	}
	if _, ok := ToIndex(two(53)); ok {
		t.Error("ToIndex(2^53)")
	}
	if v, ok := ToIndex(two(53) - 1); !ok || v != 1<<53-1 {
		t.Error("ToIndex(2^53-1)")
	}
	if RoundFloat32(16777217) != 16777216 || RoundFloat32(16777219) != 16777220 || RoundFloat32(1e-46) != 0 || RoundFloat32(1e39) != math.Inf(1) || RoundFloat32(0.1) != float64(float32(0.1)) ||
		RoundFloat32(3.4028235677973366e38) != math.Inf(1) || RoundFloat32(3.4028235677973362e38) != float64(math.MaxFloat32) || RoundFloat32(7.006492321624085e-46) != 0 || RoundFloat32(7.006492321624087e-46) != float64(math.SmallestNonzeroFloat32) {
		t.Error("RoundFloat32")
	}
}

func TestArith(t *testing.T) {
	x := uint64(777)
	next := func() float64 {
		x ^= x << 13
		x ^= x >> 7
		x ^= x << 17
		f := math.Float64frombits(x)
		switch x >> 60 {
		case 0:
			return float64(int64(x>>8) % 1000)
		case 1:
			return math.Float64frombits(x&^(0x7ff<<52) | uint64(1023-5+int(x>>40)%10)<<52)
		case 2:
			return 0
		}
		return f
	}
	eq := func(a, b float64) bool { return SameValue(a, b) }
	for i := 0; i < 40000; i++ {
		a, b := next(), next()
		if !eq(Add(a, b), a+b) || !eq(Sub(a, b), a-b) || !eq(Mul(a, b), a*b) || !eq(Div(a, b), a/b) || !eq(Rem(a, b), math.Mod(a, b)) {
			t.Fatalf("arith mismatch a=%v b=%v: %v %v %v %v %v", a, b, Add(a, b), Sub(a, b), Mul(a, b), Div(a, b), Rem(a, b))
		}
		if !eq(Floor(a), math.Floor(a)) || !eq(Ceil(a), math.Ceil(a)) || !eq(Trunc(a), math.Trunc(a)) || !eq(RoundFloat32(a), float64(float32(a))) {
			t.Fatalf("rounding mismatch a=%v", a)
		}
		if s, ok := Sqrt(a); ok && !eq(s, math.Sqrt(a)) {
			t.Fatalf("sqrt mismatch a=%v: %v", a, s)
		}
	}
	rd := []struct{ a, r float64 }{{0.5, 1}, {-0.5, math.Copysign(0, -1)}, {-0.4, math.Copysign(0, -1)}, {0.4, 0}, {1.5, 2}, {-1.5, -1}, {2.5, 3}, {-2.5, -2}, {0.49999999999999994, 0}, {4503599627370495.5, 4503599627370496}, {-4503599627370495.5, -4503599627370495}, {9007199254740991, 9007199254740991}, {math.Copysign(0, -1), math.Copysign(0, -1)}}
	for _, c := range rd {
		if !eq(Round(c.a), c.r) {
			t.Errorf("Round(%v) = %v want %v", c.a, Round(c.a), c.r)
		}
	}
	pw := []struct {
		a, b, r float64
		ok      bool
	}{
		{2, 53, 9007199254740992, true}, {2, -1, 0.5, true}, {3, 4, 81, true}, {-2, 3, -8, true}, {-2, 0.5, math.NaN(), true}, {2, 0.5, 0, false}, {10, 22, 1e22, true}, {10, 23, 0, false},
		{math.NaN(), 0, 1, true}, {1, math.Inf(1), math.NaN(), true}, {-1, math.Inf(-1), math.NaN(), true}, {0.5, math.Inf(1), 0, true}, {0.5, math.Inf(-1), math.Inf(1), true}, {2, math.Inf(1), math.Inf(1), true},
		{math.Copysign(0, -1), 3, math.Copysign(0, -1), true}, {math.Copysign(0, -1), -3, math.Inf(-1), true}, {math.Copysign(0, -1), -2, math.Inf(1), true}, {0, -1, math.Inf(1), true},
		{math.Inf(-1), 3, math.Inf(-1), true}, {math.Inf(-1), 2, math.Inf(1), true}, {math.Inf(-1), -3, math.Copysign(0, -1), true}, {math.Inf(1), -1, 0, true}, {2, 1024, 0, false}, {2, -1074, 5e-324, true}, {2, -1075, 0, false},
		{1.5, 2, 2.25, true}, {-1, 1e300, 1, true}, {-1, 9007199254740991, -1, true}, {3, -1, 0, false}, {0.5, -3, 8, true}, {5, 1, 5, true}, {1e300, 2, 0, false},
	}
	for _, c := range pw {
		r, ok := Pow(c.a, c.b)
		if ok != c.ok || (ok && !eq(r, c.r)) {
			t.Errorf("Pow(%v,%v) = %v,%v want %v,%v", c.a, c.b, r, ok, c.r, c.ok)
		}
	}
	if h, ok := Hypot(3, 4); !ok || h != 5 {
		t.Error("hypot")
	}
	if _, ok := Hypot(1, 1); ok {
		t.Error("hypot(1,1) is not exact")
	}
	if !eq(Imul(4294967295, 5), -5) || !eq(Imul(2147483647, 2147483647), 1) || !eq(Clz32(0), 32) || !eq(Clz32(-1), 0) || !eq(Clz32(0.5), 32) {
		t.Error("imul/clz32")
	}
	if !eq(Shl(1, 31), -2147483648) || !eq(Shl(1, 32), 1) || !eq(UShr(-1, 0), 4294967295) || !eq(Shr(-8, 1), -4) || !eq(BitNot(4294967295), 0) || !eq(BitOr(1e21, 0), -559939584) {
		t.Error("bit ops")
	}
	if !eq(Max(0, math.Copysign(0, -1)), 0) || !eq(Min(0, math.Copysign(0, -1)), math.Copysign(0, -1)) || !IsNaN(Max(1, math.NaN())) {
		t.Error("max/min")
	}
}

func TestRadixParse(t *testing.T) {
	neg, num, den, ok := ParseRadixString("-ff.8", 16)
	if !ok || !neg || RoundFrac(neg, num, den) != -255.5 {
		t.Error("ff.8")
	}
	if _, _, _, ok := ParseRadixString("12", 2); ok {
		t.Error("digit check")
	}
	if _, _, _, ok := ParseRadixString("1.", 10); ok {
		t.Error("trailing point")
	}
	if v, ok := LiteralValue("0x1_f"); !ok || v != 31 {
		t.Error("literal sep")
	}
	if v, ok := LiteralValue("9007199254740993"); !ok || v != 9007199254740992 {
		t.Error("literal 2^53+1")
	}
	if _, ok := LiteralValue("08"); ok {
		t.Error("legacy")
	}
}
