package numref

// Second, independent opinions built on strconv / native IEEE arithmetic. They never decide: a check judges goja only
// where the big-integer oracle and the second opinion agree (a disagreement is reported as an oracle problem, not as a
// violation of goja).

import (
	"math"
	"strconv"
	"strings"
)

// Shortest2 is strconv's shortest round-trip digit generation in the same (digits, n) convention as Shortest.
func Shortest2(f float64) (digits string, n int) {
	s := strconv.FormatFloat(f, 'e', -1, 64) // d.ddddde±xx
	mant, exp, _ := strings.Cut(s, "e")
	e, _ := strconv.Atoi(exp)
	digits = strings.Replace(mant, ".", "", 1)
	digits = strings.TrimRight(digits, "0")
	if digits == "" {
		digits = "0"
	}
	return digits, e + 1
}

// ParseDecimal2 is strconv.ParseFloat on a plain decimal text (digits, optional point, optional exponent, optional sign).
func ParseDecimal2(s string) (float64, bool) {
	if strings.ContainsAny(s, "_xXpPiInN") {
		return 0, false
	}
	f, err := strconv.ParseFloat(s, 64)
	if err != nil {
		if ne, ok := err.(*strconv.NumError); ok && ne.Err == strconv.ErrRange {
			return f, true
		}
		return 0, false
	}
	return f, true
}

// Fixed2 formats |x| with d fraction digits through strconv (correct rounding of the exact value, ties to even): equal to
// ToFixed whenever the value is not an exact tie and x < 1e21.
func Fixed2(x float64, d int) string {
	neg := math.Signbit(x) && x != 0
	s := strconv.FormatFloat(math.Abs(x), 'f', d, 64)
	if neg {
		return "-" + s
	}
	return s
}

// SigDigits2 returns p significant digits and the decimal exponent e (d.ddd × 10^e) through strconv ('e' format).
func SigDigits2(x float64, p int) (digits string, e int) {
	s := strconv.FormatFloat(math.Abs(x), 'e', p-1, 64)
	mant, exp, _ := strings.Cut(s, "e")
	e, _ = strconv.Atoi(exp)
	return strings.Replace(mant, ".", "", 1), e
}

// Native IEEE operations with explicit conversions (no fused multiply-add).
func Add2(a, b float64) float64 { return float64(a + b) }
func Mul2(a, b float64) float64 { return float64(a * b) }
func Div2(a, b float64) float64 { return float64(a / b) }
func Rem2(a, b float64) float64 { return math.Mod(a, b) }
func Float32_2(a float64) float64 {
	return float64(float32(a))
}
func Sqrt2(a float64) float64 { return math.Sqrt(a) }
