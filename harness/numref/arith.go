package numref

import (
	"math"
	"math/big"
	"math/bits"
)

// signed exact value of a finite double as integer * 2^exp
type dyadic struct {
	z   *big.Int
	exp int
}

func toDyadic(f float64) dyadic {
	neg, m, e := Decompose(f)
	z := new(big.Int).SetUint64(m)
	if neg {
		z.Neg(z)
	}
	return dyadic{z, e}
}

func roundDyadic(z *big.Int, exp int, zeroNeg bool) float64 {
	if z.Sign() == 0 {
		return Zero(zeroNeg)
	}
	neg := z.Sign() < 0
	a := new(big.Int).Abs(z)
	if exp >= 0 {
		a.Lsh(a, uint(exp))
		return RoundFrac(neg, a, bigOne)
	}
	return RoundFrac(neg, a, new(big.Int).Lsh(bigOne, uint(-exp)))
}

// Add is Number::add (IEEE 754 addition, round to nearest even).
func Add(a, b float64) float64 {
	switch {
	case IsNaN(a) || IsNaN(b):
		return NaN()
	case IsInf(a) && IsInf(b):
		if Signbit(a) != Signbit(b) {
			return NaN()
		}
		return a
	case IsInf(a):
		return a
	case IsInf(b):
		return b
	case IsZero(a) && IsZero(b):
		return Zero(Signbit(a) && Signbit(b))
	}
	x, y := toDyadic(a), toDyadic(b)
	e := x.exp
	if y.exp < e {
		e = y.exp
	}
	s := new(big.Int).Lsh(x.z, uint(x.exp-e))
	s.Add(s, new(big.Int).Lsh(y.z, uint(y.exp-e)))
	return roundDyadic(s, e, false) // exact zero sum of opposite-signed operands is +0
}

func Neg(a float64) float64 {
	if IsNaN(a) {
		return a
	}
	if IsInf(a) {
		return Inf(!Signbit(a))
	}
	if IsZero(a) {
		return Zero(!Signbit(a))
	}
	neg, m, e := Decompose(a)
	return assemble64(!neg, m, e)
}

func Sub(a, b float64) float64 { return Add(a, Neg(b)) }

func Mul(a, b float64) float64 {
	neg := Signbit(a) != Signbit(b)
	switch {
	case IsNaN(a) || IsNaN(b):
		return NaN()
	case IsInf(a) || IsInf(b):
		if IsZero(a) || IsZero(b) {
			return NaN()
		}
		return Inf(neg)
	case IsZero(a) || IsZero(b):
		return Zero(neg)
	}
	x, y := toDyadic(a), toDyadic(b)
	p := new(big.Int).Mul(x.z, y.z)
	return roundDyadic(p, x.exp+y.exp, neg)
}

func Div(a, b float64) float64 {
	neg := Signbit(a) != Signbit(b)
	switch {
	case IsNaN(a) || IsNaN(b):
		return NaN()
	case IsInf(a):
		if IsInf(b) {
			return NaN()
		}
		return Inf(neg)
	case IsInf(b):
		return Zero(neg)
	case IsZero(b):
		if IsZero(a) {
			return NaN()
		}
		return Inf(neg)
	case IsZero(a):
		return Zero(neg)
	}
	_, ma, ea := Decompose(a)
	_, mb, eb := Decompose(b)
	num := new(big.Int).SetUint64(ma)
	den := new(big.Int).SetUint64(mb)
	if d := ea - eb; d >= 0 {
		num.Lsh(num, uint(d))
	} else {
		den.Lsh(den, uint(-d))
	}
	return RoundFrac(neg, num, den)
}

// Rem is Number::remainder (truncating; the result is exact and takes the sign of the dividend).
func Rem(a, b float64) float64 {
	switch {
	case IsNaN(a) || IsNaN(b) || IsInf(a) || IsZero(b):
		return NaN()
	case IsInf(b) || IsZero(a):
		return a
	}
	_, ma, ea := Decompose(a)
	_, mb, eb := Decompose(b)
	e := ea
	if eb < e {
		e = eb
	}
	A := new(big.Int).Lsh(new(big.Int).SetUint64(ma), uint(ea-e))
	B := new(big.Int).Lsh(new(big.Int).SetUint64(mb), uint(eb-e))
	R := new(big.Int).Rem(A, B)
	if R.Sign() == 0 {
		return Zero(Signbit(a))
	}
	if Signbit(a) {
		R.Neg(R)
	}
	return roundDyadic(R, e, false)
}

// Pow evaluates Number::exponentiate where ECMA-262 6.1.6.1.3 gives an exact answer: the enumerated special cases, and
// finite base with an integral exponent whose exact mathematical result is representable as a double (then every
// correctly working implementation must deliver it; other results are implementation-approximated and ok=false).
func Pow(base, exp float64) (res float64, ok bool) {
	switch {
	case IsNaN(exp):
		return NaN(), true
	case IsZero(exp):
		return 1, true
	case IsNaN(base):
		return NaN(), true
	}
	expInt := IsInteger(exp)
	expOdd := false
	if expInt {
		_, m, e := Decompose(exp)
		if e <= 0 {
			expOdd = e > -64 && (m>>uint(-e))&1 == 1
		} // e > 0: even
	}
	expNeg := Signbit(exp)
	if IsInf(base) {
		if !Signbit(base) {
			if !expNeg {
				return Inf(false), true
			}
			return 0, true
		}
		if !expNeg {
			if expOdd {
				return Inf(true), true
			}
			return Inf(false), true
		}
		if expOdd {
			return Zero(true), true
		}
		return 0, true
	}
	if IsZero(base) {
		if !Signbit(base) {
			if !expNeg {
				return 0, true
			}
			return Inf(false), true
		}
		if !expNeg {
			if expOdd {
				return Zero(true), true
			}
			return 0, true
		}
		if expOdd {
			return Inf(true), true
		}
		return Inf(false), true
	}
	// base finite, non-zero
	if IsInf(exp) {
		fr := exactFrac(base)
		c := fr.num.Cmp(fr.den) // |base| vs 1
		one, gt := c == 0, c > 0
		switch {
		case one:
			return NaN(), true
		case gt != expNeg: // (|b|>1, +inf) or (|b|<1, -inf)
			return Inf(false), true
		default:
			return 0, true
		}
	}
	if Signbit(base) && !expInt {
		return NaN(), true
	}
	if !expInt {
		return 0, false
	}
	// integral finite exponent, finite non-zero base: exact only when representable
	_, me, ee := Decompose(exp)
	if ee > 0 || me>>uint(-ee) > 1100 {
		// |exponent| too large for an exact non-trivial result unless |base| == 1
		fr := exactFrac(base)
		if fr.num.Cmp(fr.den) == 0 {
			if Signbit(base) && expOdd {
				return -1, true
			}
			return 1, true
		}
		return 0, false
	}
	n := int(me >> uint(-ee))
	d := toDyadic(base)
	// strip trailing zero bits so the power stays small
	tz := d.z.TrailingZeroBits()
	if d.z.Sign() != 0 {
		d.z.Rsh(d.z, tz)
		d.exp += int(tz)
	}
	if d.z.BitLen()*n > 4000 {
		return 0, false
	}
	p := new(big.Int).Exp(d.z, big.NewInt(int64(n)), nil)
	pe := d.exp * n
	neg := p.Sign() < 0
	p.Abs(p)
	var num, den *big.Int
	if !expNeg {
		if p.BitLen() > 53 {
			return 0, false // not exactly representable (odd significand wider than 53 bits)
		}
		if pe >= 0 {
			num, den = new(big.Int).Lsh(p, uint(pe)), bigOne
		} else {
			num, den = p, new(big.Int).Lsh(bigOne, uint(-pe))
		}
	} else {
		// 1 / (p * 2^pe) exact only if p == 1
		if p.Cmp(bigOne) != 0 {
			return 0, false
		}
		if pe >= 0 {
			num, den = bigOne, new(big.Int).Lsh(bigOne, uint(pe))
		} else {
			num, den = new(big.Int).Lsh(bigOne, uint(-pe)), bigOne
		}
	}
	r := RoundFrac(neg, num, den)
	// exactness: the rounded value must equal the rational exactly (no overflow/underflow rounding)
	if !IsFinite(r) || IsZero(r) {
		return 0, false
	}
	fr := exactFrac(r)
	var l, rr big.Int
	l.Mul(fr.num, den)
	rr.Mul(num, fr.den)
	if l.Cmp(&rr) != 0 {
		return 0, false
	}
	return r, true
}

func Abs(a float64) float64 {
	if IsNaN(a) {
		return a
	}
	if Signbit(a) {
		return Neg(a)
	}
	return a
}

// Floor, Ceil, Trunc, Round (Math.round: ties towards +∞, −0 for −0.5 <= x < 0), Sign.
func Trunc(a float64) float64 {
	if !IsFinite(a) || IsZero(a) {
		return a
	}
	z := TruncInt(a)
	if z.Sign() == 0 {
		return Zero(Signbit(a))
	}
	return RoundInt(z) // exact: |trunc(a)| <= |a|, same precision
}

func Floor(a float64) float64 {
	if !IsFinite(a) || IsZero(a) {
		return a
	}
	z := TruncInt(a)
	if Signbit(a) && !IsInteger(a) {
		z.Sub(z, bigOne)
	}
	if z.Sign() == 0 {
		return Zero(Signbit(a))
	}
	return RoundInt(z)
}

func Ceil(a float64) float64 {
	if !IsFinite(a) || IsZero(a) {
		return a
	}
	z := TruncInt(a)
	if !Signbit(a) && !IsInteger(a) {
		z.Add(z, bigOne)
	}
	if z.Sign() == 0 {
		return Zero(Signbit(a))
	}
	return RoundInt(z)
}

func Round(a float64) float64 {
	if !IsFinite(a) || IsZero(a) || IsInteger(a) {
		return a
	}
	// floor(a + 1/2) computed exactly
	r := Exact(a)
	r.Add(r, big.NewRat(1, 2))
	z := new(big.Int).Quo(r.Num(), r.Denom()) // truncates towards zero
	if r.Sign() < 0 && !r.IsInt() {
		z.Sub(z, bigOne)
	}
	if z.Sign() == 0 {
		return Zero(Signbit(a)) // -0.5 <= a < 0 gives -0; 0 < a < 0.5 gives +0
	}
	return RoundInt(z)
}

func Sign(a float64) float64 {
	if IsNaN(a) || IsZero(a) {
		return a
	}
	if Signbit(a) {
		return -1
	}
	return 1
}

// Sqrt returns the square root when it is exactly representable (otherwise Math.sqrt is implementation-approximated: ok=false).
func Sqrt(a float64) (float64, bool) {
	switch {
	case IsNaN(a):
		return a, true
	case IsZero(a):
		return a, true
	case Signbit(a):
		return NaN(), true
	case IsInf(a):
		return a, true
	}
	_, m, e := Decompose(a)
	z := new(big.Int).SetUint64(m)
	if e&1 != 0 {
		z.Lsh(z, 1)
		e--
	}
	s := new(big.Int).Sqrt(z)
	if new(big.Int).Mul(s, s).Cmp(z) != 0 {
		return 0, false
	}
	return roundDyadic(s, e/2, false), true
}

// Hypot of two arguments when the result is exactly representable (or fixed by the special cases of ECMA-262 21.3.2.18).
func Hypot(a, b float64) (float64, bool) {
	switch {
	case IsInf(a) || IsInf(b):
		return Inf(false), true
	case IsNaN(a) || IsNaN(b):
		return NaN(), true
	case IsZero(a) && IsZero(b):
		return 0, true
	}
	x, y := toDyadic(a), toDyadic(b)
	e := x.exp
	if y.exp < e {
		e = y.exp
	}
	if x.exp-e > 2200 || y.exp-e > 2200 {
		return 0, false
	}
	X := new(big.Int).Lsh(x.z, uint(x.exp-e))
	Y := new(big.Int).Lsh(y.z, uint(y.exp-e))
	S := new(big.Int).Mul(X, X)
	S.Add(S, new(big.Int).Mul(Y, Y))
	s := new(big.Int).Sqrt(S)
	if new(big.Int).Mul(s, s).Cmp(S) != 0 {
		return 0, false
	}
	r := roundDyadic(s, e, false)
	// must be exact
	if !IsFinite(r) {
		return 0, false
	}
	d := toDyadic(r)
	l := new(big.Int).Set(d.z)
	rr := new(big.Int).Set(s)
	if d.exp >= e {
		l.Lsh(l, uint(d.exp-e))
	} else {
		rr.Lsh(rr, uint(e-d.exp))
	}
	if l.Cmp(rr) != 0 {
		return 0, false
	}
	return r, true
}

// Max / Min per ECMA-262 21.3.2.24/25 for two operands (NaN wins; +0 > -0).
func Max(a, b float64) float64 {
	if IsNaN(a) || IsNaN(b) {
		return NaN()
	}
	if IsZero(a) && IsZero(b) {
		return Zero(Signbit(a) && Signbit(b))
	}
	if Less(a, b) {
		return b
	}
	return a
}

func Min(a, b float64) float64 {
	if IsNaN(a) || IsNaN(b) {
		return NaN()
	}
	if IsZero(a) && IsZero(b) {
		return Zero(Signbit(a) || Signbit(b))
	}
	if Less(b, a) {
		return b
	}
	return a
}

// Less is the exact a < b on non-NaN doubles (by sign/magnitude bit patterns).
func Less(a, b float64) bool {
	if IsNaN(a) || IsNaN(b) {
		return false
	}
	return orderKey(a) < orderKey(b)
}

func orderKey(f float64) int64 {
	if IsZero(f) {
		return 0
	}
	b := int64(math.Float64bits(f) &^ (1 << 63))
	if Signbit(f) {
		return -b
	}
	return b
}

func Imul(a, b float64) float64 {
	x := int64(ToInt32(a))
	y := int64(ToInt32(b))
	p := uint32(uint64(x * y)) // product modulo 2^32 (two's complement wrap is exact for the low 32 bits)
	return Int64ToFloat(int64(int32(p)))
}

func Clz32(a float64) float64 {
	return Int64ToFloat(int64(bits.LeadingZeros32(ToUint32(a))))
}

// Bitwise / shift operators on Numbers (ECMA-262 6.1.6.1.9 – 6.1.6.1.19).
func BitAnd(a, b float64) float64 { return Int64ToFloat(int64(ToInt32(a) & ToInt32(b))) }
func BitOr(a, b float64) float64  { return Int64ToFloat(int64(ToInt32(a) | ToInt32(b))) }
func BitXor(a, b float64) float64 { return Int64ToFloat(int64(ToInt32(a) ^ ToInt32(b))) }
func BitNot(a float64) float64    { return Int64ToFloat(int64(^ToInt32(a))) }
func Shl(a, b float64) float64 {
	return Int64ToFloat(int64(int32(uint32(ToInt32(a)) << (ToUint32(b) & 31))))
}
func Shr(a, b float64) float64 { return Int64ToFloat(int64(ToInt32(a) >> (ToUint32(b) & 31))) }
func UShr(a, b float64) float64 {
	return Int64ToFloat(int64(ToUint32(a) >> (ToUint32(b) & 31)))
}
