package numref

import (
	"math/big"
)

// IsStrWhiteSpace reports whether the UTF-16 code unit is a StrWhiteSpaceChar (ECMA-262 7.1.4.1):
// WhiteSpace (TAB VT FF ZWNBSP USP) or LineTerminator (LF CR LS PS). USP = any code point of general category Zs.
func IsStrWhiteSpace(c uint16) bool {
	switch c {
	case 0x0009, 0x000B, 0x000C, 0xFEFF, // TAB VT FF ZWNBSP
		0x000A, 0x000D, 0x2028, 0x2029, // LF CR LS PS
		0x0020, 0x00A0, 0x1680, 0x202F, 0x205F, 0x3000: // Zs
		return true
	}
	return c >= 0x2000 && c <= 0x200A // Zs: EN QUAD .. HAIR SPACE
}

// Units converts an ASCII/UTF-8 Go string to UTF-16 code units.
func Units(s string) []uint16 {
	var u []uint16
	for _, r := range s {
		if r >= 0x10000 {
			r -= 0x10000
			u = append(u, uint16(0xD800+(r>>10)), uint16(0xDC00+(r&0x3ff)))
		} else {
			u = append(u, uint16(r))
		}
	}
	return u
}

func trimLeft(u []uint16) []uint16 {
	for len(u) > 0 && IsStrWhiteSpace(u[0]) {
		u = u[1:]
	}
	return u
}

func trimRight(u []uint16) []uint16 {
	for len(u) > 0 && IsStrWhiteSpace(u[len(u)-1]) {
		u = u[:len(u)-1]
	}
	return u
}

func isDigit(c uint16) bool { return c >= '0' && c <= '9' }

func hasPrefix(u []uint16, s string) bool {
	if len(u) < len(s) {
		return false
	}
	for i := 0; i < len(s); i++ {
		if u[i] != uint16(s[i]) {
			return false
		}
	}
	return true
}

// digitVal returns the value of an alphanumeric digit or 99.
func digitVal(c uint16) int {
	switch {
	case c >= '0' && c <= '9':
		return int(c - '0')
	case c >= 'a' && c <= 'z':
		return int(c-'a') + 10
	case c >= 'A' && c <= 'Z':
		return int(c-'A') + 10
	}
	return 99
}

// DecimalToFloat returns the double nearest to (-1)^neg * D * 10^exp10 where D is the non-negative integer written by
// the ASCII decimal digits (ties to even). exp10 may be any int (huge magnitudes saturate correctly).
func DecimalToFloat(neg bool, digits []byte, exp10 int) float64 {
	for len(digits) > 0 && digits[0] == '0' {
		digits = digits[1:]
	}
	// trailing zeros move into the exponent (keeps the big integers small)
	for len(digits) > 0 && digits[len(digits)-1] == '0' && exp10 < 1<<30 {
		digits = digits[:len(digits)-1]
		exp10++
	}
	if len(digits) == 0 {
		return Zero(neg)
	}
	// 10^(n-1) <= value < 10^n
	n := len(digits) + exp10
	if n > 310 {
		return Inf(neg)
	}
	if n < -330 {
		return Zero(neg)
	}
	d, ok := new(big.Int).SetString(string(digits), 10)
	if !ok {
		panic("numref: bad digits")
	}
	if exp10 >= 0 {
		d.Mul(d, pow10(exp10))
		return RoundFrac(neg, d, bigOne)
	}
	return RoundFrac(neg, d, pow10(-exp10))
}

// RadixIntToFloat returns the double nearest to the non-negative integer written by digits in the given radix.
func RadixIntToFloat(neg bool, digits []uint16, radix int) float64 {
	return RoundFrac(neg, RadixInt(digits, radix), bigOne)
}

// RadixInt returns the integer written by digits (all must be valid in radix).
func RadixInt(digits []uint16, radix int) *big.Int {
	z := new(big.Int)
	r := big.NewInt(int64(radix))
	// chunked accumulation: 8 digits at a time
	var chunk, mul int64 = 0, 1
	flush := func() {
		z.Mul(z, big.NewInt(mul))
		z.Add(z, big.NewInt(chunk))
		chunk, mul = 0, 1
	}
	_ = r
	for _, c := range digits {
		v := digitVal(c)
		if v >= radix {
			panic("numref: digit out of radix")
		}
		chunk = chunk*int64(radix) + int64(v)
		mul *= int64(radix)
		if mul > 1<<40 {
			flush()
		}
	}
	flush()
	return z
}

// satAtoi parses an optional sign and decimal digits, saturating at ±2^40. ok=false if there are no digits or junk.
func satAtoi(u []uint16) (v int, ok bool) {
	neg := false
	if len(u) > 0 && (u[0] == '+' || u[0] == '-') {
		neg = u[0] == '-'
		u = u[1:]
	}
	if len(u) == 0 {
		return 0, false
	}
	for _, c := range u {
		if !isDigit(c) {
			return 0, false
		}
		if v < 1<<40 {
			v = v*10 + int(c-'0')
		}
	}
	if neg {
		v = -v
	}
	return v, true
}

// scanStrDecimal finds the longest prefix of u that is a StrUnsignedDecimalLiteral *without* the Infinity alternative
// (DecimalDigits . DecimalDigits? ExponentPart? | . DecimalDigits ExponentPart? | DecimalDigits ExponentPart?).
// It returns the prefix length (0 = none), the digit string with the point removed and the decimal exponent to apply.
func scanStrDecimal(u []uint16) (n int, digits []byte, exp10 int) {
	i := 0
	for i < len(u) && isDigit(u[i]) {
		digits = append(digits, byte(u[i]))
		i++
	}
	intDigits := i
	fracDigits := 0
	if i < len(u) && u[i] == '.' {
		j := i + 1
		for j < len(u) && isDigit(u[j]) {
			digits = append(digits, byte(u[j]))
			j++
			fracDigits++
		}
		if intDigits == 0 && fracDigits == 0 {
			return 0, nil, 0
		}
		i = j
	} else if intDigits == 0 {
		return 0, nil, 0
	}
	exp10 = -fracDigits
	// ExponentPart
	if i < len(u) && (u[i] == 'e' || u[i] == 'E') {
		j := i + 1
		if j < len(u) && (u[j] == '+' || u[j] == '-') {
			j++
		}
		k := j
		for k < len(u) && isDigit(u[k]) {
			k++
		}
		if k > j {
			e, _ := satAtoi(u[i+1 : k])
			exp10 += e
			i = k
		}
	}
	return i, digits, exp10
}

// StringToNumber implements ECMA-262 7.1.4.1.1 StringToNumber on UTF-16 code units.
func StringToNumber(u []uint16) float64 {
	u = trimRight(trimLeft(u))
	if len(u) == 0 {
		return 0
	}
	// NonDecimalIntegerLiteral (no sign, no separators)
	if len(u) >= 2 && u[0] == '0' {
		radix := 0
		switch u[1] {
		case 'x', 'X':
			radix = 16
		case 'o', 'O':
			radix = 8
		case 'b', 'B':
			radix = 2
		}
		if radix != 0 {
			ds := u[2:]
			if len(ds) == 0 {
				return NaN()
			}
			for _, c := range ds {
				if digitVal(c) >= radix {
					return NaN()
				}
			}
			return RadixIntToFloat(false, ds, radix)
		}
	}
	neg := false
	if u[0] == '+' || u[0] == '-' {
		neg = u[0] == '-'
		u = u[1:]
	}
	if hasPrefix(u, "Infinity") {
		if len(u) == 8 {
			return Inf(neg)
		}
		return NaN()
	}
	n, digits, exp10 := scanStrDecimal(u)
	if n == 0 || n != len(u) {
		return NaN()
	}
	return DecimalToFloat(neg, digits, exp10)
}

// ParseFloat implements ECMA-262 19.2.4 parseFloat(string) on the already ToString-ed argument.
func ParseFloat(u []uint16) float64 {
	u = trimLeft(u)
	neg := false
	if len(u) > 0 && (u[0] == '+' || u[0] == '-') {
		neg = u[0] == '-'
		u = u[1:]
	}
	if hasPrefix(u, "Infinity") {
		return Inf(neg)
	}
	n, digits, exp10 := scanStrDecimal(u)
	if n == 0 {
		return NaN()
	}
	return DecimalToFloat(neg, digits, exp10)
}

// ParseIntResult is the oracle's answer for parseInt: the spec allows two results for radix 10 with more than 20
// significant digits and an implementation-approximated result for radices other than 2,4,8,10,16,32.
type ParseIntResult struct {
	Value  float64 // correctly rounded value of the full digit string
	Alt    float64 // radix 10, > 20 significant digits: value with every digit after the 20th replaced by 0 (else == Value)
	Approx bool    // radix not in {2,4,8,10,16,32} and the integer exceeds 2^53: only approximately specified
}

// Accepts reports whether an observed result is one the specification allows.
func (p ParseIntResult) Accepts(f float64) bool {
	if SameValue(f, p.Value) || SameValue(f, p.Alt) {
		return true
	}
	if p.Approx && IsFinite(f) && IsFinite(p.Value) && !IsZero(f) && Signbit(f) == Signbit(p.Value) {
		// implementation-approximated: accept within 2^-40 relative (any sane accumulation is far closer);
		// the exact comparison is recorded as evidence by the caller.
		a, b := Exact(f), Exact(p.Value)
		d := new(big.Rat).Sub(a, b)
		d.Abs(d)
		lim := new(big.Rat).Abs(b)
		lim.Quo(lim, new(big.Rat).SetInt(new(big.Int).Lsh(bigOne, 40)))
		return d.Cmp(lim) <= 0
	}
	return false
}

// ParseIntExact returns the exact signed integer parseInt denotes before rounding (nil if the result is NaN).
func ParseIntExact(u []uint16, radix int32) *big.Int {
	u = trimLeft(u)
	neg := false
	if len(u) > 0 && (u[0] == '+' || u[0] == '-') {
		neg = u[0] == '-'
		u = u[1:]
	}
	R := int(radix)
	strip := true
	if R != 0 {
		if R < 2 || R > 36 {
			return nil
		}
		if R != 16 {
			strip = false
		}
	} else {
		R = 10
	}
	if strip && len(u) >= 2 && u[0] == '0' && (u[1] == 'x' || u[1] == 'X') {
		u = u[2:]
		R = 16
	}
	end := 0
	for end < len(u) && digitVal(u[end]) < R {
		end++
	}
	if end == 0 {
		return nil
	}
	z := RadixInt(u[:end], R)
	if neg {
		z.Neg(z)
	}
	return z
}

// ParseInt implements ECMA-262 19.2.5 parseInt(string, radix) given the ToString-ed string and R = ToInt32(radix).
func ParseInt(u []uint16, radix int32) ParseIntResult {
	nan := ParseIntResult{Value: NaN(), Alt: NaN()}
	u = trimLeft(u)
	neg := false
	if len(u) > 0 && (u[0] == '+' || u[0] == '-') {
		neg = u[0] == '-'
		u = u[1:]
	}
	R := int(radix)
	strip := true
	if R != 0 {
		if R < 2 || R > 36 {
			return nan
		}
		if R != 16 {
			strip = false
		}
	} else {
		R = 10
	}
	if strip && len(u) >= 2 && u[0] == '0' && (u[1] == 'x' || u[1] == 'X') {
		u = u[2:]
		R = 16
	}
	end := 0
	for end < len(u) && digitVal(u[end]) < R {
		end++
	}
	if end == 0 {
		return nan
	}
	z := RadixInt(u[:end], R)
	if z.Sign() == 0 {
		v := Zero(neg)
		return ParseIntResult{Value: v, Alt: v}
	}
	res := ParseIntResult{}
	res.Value = RoundFrac(neg, z, bigOne)
	res.Alt = res.Value
	switch R {
	case 10:
		ds := u[:end]
		for len(ds) > 0 && ds[0] == '0' {
			ds = ds[1:]
		}
		if len(ds) > 20 {
			t := make([]uint16, len(ds))
			copy(t, ds)
			for i := 20; i < len(t); i++ {
				t[i] = '0'
			}
			res.Alt = RoundFrac(neg, RadixInt(t, 10), bigOne)
		}
	case 2, 4, 8, 16, 32:
	default:
		if z.BitLen() > 53 {
			res.Approx = true
		}
	}
	return res
}

// LiteralValue returns the value of an ECMAScript NumericLiteral source text (decimal with optional fraction/exponent,
// 0x/0o/0b forms, numeric separators allowed; no legacy octal, no BigInt suffix). ok=false if the text is not such a literal.
func LiteralValue(src string) (float64, bool) {
	u := make([]uint16, 0, len(src))
	prevSep := true
	for i := 0; i < len(src); i++ {
		c := src[i]
		if c == '_' {
			if prevSep || i == len(src)-1 {
				return 0, false
			}
			prevSep = true
			continue
		}
		prevSep = false
		u = append(u, uint16(c))
	}
	if len(u) == 0 {
		return 0, false
	}
	if len(u) >= 2 && u[0] == '0' {
		radix := 0
		switch u[1] {
		case 'x', 'X':
			radix = 16
		case 'o', 'O':
			radix = 8
		case 'b', 'B':
			radix = 2
		}
		if radix != 0 {
			if len(u) == 2 {
				return 0, false
			}
			for _, c := range u[2:] {
				if digitVal(c) >= radix {
					return 0, false
				}
			}
			return RadixIntToFloat(false, u[2:], radix), true
		}
		if isDigit(u[1]) {
			return 0, false // legacy octal / NonOctalDecimalIntegerLiteral: outside the domain
		}
	}
	n, digits, exp10 := scanStrDecimal(u)
	if n == 0 || n != len(u) {
		return 0, false
	}
	return DecimalToFloat(false, digits, exp10), true
}
