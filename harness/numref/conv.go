package numref

import (
	"math/big"
)

// IntOrInf is the result of ToIntegerOrInfinity.
type IntOrInf struct {
	Inf int      // -1, 0, +1
	Int *big.Int // valid when Inf == 0
}

// ToIntegerOrInfinity (ECMA-262 7.1.5) of a Number.
func ToIntegerOrInfinity(f float64) IntOrInf {
	switch {
	case IsNaN(f) || IsZero(f):
		return IntOrInf{Int: new(big.Int)}
	case IsInf(f):
		if Signbit(f) {
			return IntOrInf{Inf: -1}
		}
		return IntOrInf{Inf: 1}
	}
	return IntOrInf{Int: TruncInt(f)}
}

// modulo returns trunc(f) modulo 2^bits as a non-negative integer (0 for NaN, ±0, ±Infinity).
func modulo(f float64, bits uint) uint64 {
	if !IsFinite(f) {
		return 0
	}
	z := TruncInt(f)
	m := new(big.Int).Lsh(bigOne, bits)
	z.Mod(z, m) // Euclidean modulus: result in [0, 2^bits)
	return z.Uint64()
}

func ToUint32(f float64) uint32 { return uint32(modulo(f, 32)) }
func ToInt32(f float64) int32   { return int32(uint32(modulo(f, 32))) }
func ToUint16(f float64) uint16 { return uint16(modulo(f, 16)) }
func ToInt16(f float64) int16   { return int16(uint16(modulo(f, 16))) }
func ToUint8(f float64) uint8   { return uint8(modulo(f, 8)) }
func ToInt8(f float64) int8     { return int8(uint8(modulo(f, 8))) }

// ToUint8Clamp (ECMA-262 7.1.12): clamp to [0,255], round half to even.
func ToUint8Clamp(f float64) uint8 {
	if IsNaN(f) {
		return 0
	}
	if IsInf(f) {
		if Signbit(f) {
			return 0
		}
		return 255
	}
	if Signbit(f) || IsZero(f) {
		return 0
	}
	fr := exactFrac(f)
	// f >= 255 ?
	var t big.Int
	t.Mul(fr.den, big.NewInt(255))
	if fr.num.Cmp(&t) >= 0 {
		return 255
	}
	q, r := new(big.Int).QuoRem(fr.num, fr.den, new(big.Int))
	r.Lsh(r, 1)
	c := r.Cmp(fr.den)
	if c > 0 || (c == 0 && q.Bit(0) == 1) {
		q.Add(q, bigOne)
	}
	return uint8(q.Uint64())
}

var maxSafe = new(big.Int).Sub(new(big.Int).Lsh(bigOne, 53), bigOne)

// ToLength (ECMA-262 7.1.20) returns an integer in [0, 2^53-1].
func ToLength(f float64) int64 {
	i := ToIntegerOrInfinity(f)
	switch {
	case i.Inf < 0:
		return 0
	case i.Inf > 0:
		return maxSafe.Int64()
	case i.Int.Sign() <= 0:
		return 0
	case i.Int.Cmp(maxSafe) > 0:
		return maxSafe.Int64()
	}
	return i.Int.Int64()
}

// ToIndex (ECMA-262 7.1.22) on an already ToNumber-ed, non-undefined argument; ok=false means RangeError.
func ToIndex(f float64) (idx int64, ok bool) {
	i := ToIntegerOrInfinity(f)
	if i.Inf != 0 || i.Int.Sign() < 0 || i.Int.Cmp(maxSafe) > 0 {
		return 0, false
	}
	return i.Int.Int64(), true
}

// ToBigInt64 / ToBigUint64 of a mathematical integer.
func ToBigUint64(z *big.Int) uint64 {
	m := new(big.Int).Lsh(bigOne, 64)
	t := new(big.Int).Mod(z, m)
	return t.Uint64()
}
func ToBigInt64(z *big.Int) int64 { return int64(ToBigUint64(z)) }

// IntToFloat: 𝔽(z) for a signed 64-bit integer / unsigned 64-bit integer (Number(bigint), Go integers crossing the bridge).
func Int64ToFloat(v int64) float64   { return RoundInt(big.NewInt(v)) }
func Uint64ToFloat(v uint64) float64 { return RoundInt(new(big.Int).SetUint64(v)) }
