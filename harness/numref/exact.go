// Package numref is an exact reference for the ECMAScript number <-> string and numeric conversions
// (ECMA-262 7.1.4 – 7.1.22, 6.1.6.1, 19.2.4/19.2.5, 21.1.3). Everything that decides is built on
// math/big and integer arithmetic; the float64 type is only used as a container of bit patterns
// (math.Float64bits / Float64frombits, comparisons with 0/NaN) — never for arithmetic that could round.
// strconv / native float operations appear only in the *2 "second opinion" helpers.
package numref

import (
	"math"
	"math/big"
)

var (
	bigOne = big.NewInt(1)
	bigTen = big.NewInt(10)
)

// pow10 returns 10^n (n >= 0) as a fresh big.Int (cached for small n).
var pow10cache [400]*big.Int

func pow10(n int) *big.Int {
	if n < 0 {
		panic("numref: pow10 of negative")
	}
	if n < len(pow10cache) {
		if p := pow10cache[n]; p != nil {
			return p
		}
		p := new(big.Int).Exp(bigTen, big.NewInt(int64(n)), nil)
		pow10cache[n] = p
		return p
	}
	return new(big.Int).Exp(bigTen, big.NewInt(int64(n)), nil)
}

func powInt(base, n int) *big.Int {
	return new(big.Int).Exp(big.NewInt(int64(base)), big.NewInt(int64(n)), nil)
}

func IsNaN(f float64) bool    { return f != f }
func IsInf(f float64) bool    { b := math.Float64bits(f) &^ (1 << 63); return b == 0x7ff<<52 }
func IsFinite(f float64) bool { return (math.Float64bits(f)>>52)&0x7ff != 0x7ff }
func Signbit(f float64) bool  { return math.Float64bits(f)>>63 != 0 }
func IsZero(f float64) bool   { return math.Float64bits(f)<<1 == 0 }
func IsNegZero(f float64) bool {
	return math.Float64bits(f) == 1<<63
}

func NaN() float64 { return math.Float64frombits(0x7ff8000000000000) }
func Inf(neg bool) float64 {
	if neg {
		return math.Float64frombits(0xfff0000000000000)
	}
	return math.Float64frombits(0x7ff0000000000000)
}
func Zero(neg bool) float64 {
	if neg {
		return math.Float64frombits(1 << 63)
	}
	return 0
}

// Decompose returns finite f as (-1)^neg * mant * 2^exp with mant < 2^53 (mant == 0 for zeros).
func Decompose(f float64) (neg bool, mant uint64, exp int) {
	b := math.Float64bits(f)
	neg = b>>63 != 0
	e := int(b>>52) & 0x7ff
	m := b & (1<<52 - 1)
	if e == 0x7ff {
		panic("numref: Decompose of non-finite")
	}
	if e == 0 {
		return neg, m, -1074
	}
	return neg, m | 1<<52, e - 1075
}

// Exact returns the exact rational value of a finite double.
func Exact(f float64) *big.Rat {
	neg, m, e := Decompose(f)
	num := new(big.Int).SetUint64(m)
	den := big.NewInt(1)
	if e >= 0 {
		num.Lsh(num, uint(e))
	} else {
		den.Lsh(den, uint(-e))
	}
	if neg {
		num.Neg(num)
	}
	return new(big.Rat).SetFrac(num, den)
}

// fraction is a non-negative value num/den kept unreduced (den > 0).
type fraction struct{ num, den *big.Int }

// exactFrac returns |f| as an unreduced fraction with a power-of-two denominator.
func exactFrac(f float64) fraction {
	_, m, e := Decompose(f)
	num := new(big.Int).SetUint64(m)
	den := big.NewInt(1)
	if e >= 0 {
		num.Lsh(num, uint(e))
	} else {
		den.Lsh(den, uint(-e))
	}
	return fraction{num, den}
}

// binFormat describes an IEEE binary interchange format.
type binFormat struct {
	p    int // precision in bits including the hidden bit
	emin int // exponent of the unit in the last place of subnormals (value = mant * 2^emin)
	emax int // largest exponent of the most significant bit of a finite value
}

var (
	fmt64 = binFormat{53, -1074, 1023}
	fmt32 = binFormat{24, -149, 127}
)

// floorLog2 returns e such that 2^e <= num/den < 2^(e+1) (num, den > 0).
func floorLog2(num, den *big.Int) int {
	e := num.BitLen() - den.BitLen()
	// 2^(e-1) < num/den < 2^(e+1)
	var t big.Int
	if e >= 0 {
		t.Lsh(den, uint(e))
		if num.Cmp(&t) >= 0 {
			return e
		}
		return e - 1
	}
	t.Lsh(num, uint(-e))
	if t.Cmp(den) >= 0 {
		return e
	}
	return e - 1
}

// roundPos rounds the positive rational num/den to the nearest value of the format, ties to even.
// The result is mant * 2^exp with 0 <= mant < 2^p (mant < 2^(p-1) only when exp == emin), or inf.
func roundPos(num, den *big.Int, fm binFormat) (mant uint64, exp int, inf bool) {
	if num.Sign() <= 0 {
		return 0, fm.emin, false
	}
	e := floorLog2(num, den)
	if e > fm.emax {
		return 0, 0, true
	}
	ulp := e - (fm.p - 1)
	if ulp < fm.emin {
		ulp = fm.emin
	}
	// scaled = num / (den * 2^ulp)
	n := new(big.Int).Set(num)
	d := new(big.Int).Set(den)
	if ulp >= 0 {
		d.Lsh(d, uint(ulp))
	} else {
		n.Lsh(n, uint(-ulp))
	}
	q, r := new(big.Int).QuoRem(n, d, new(big.Int))
	r.Lsh(r, 1)
	c := r.Cmp(d)
	if c > 0 || (c == 0 && q.Bit(0) == 1) {
		q.Add(q, bigOne)
	}
	m := q.Uint64()
	if m == 1<<uint(fm.p) {
		m >>= 1
		ulp++
	}
	// overflow after rounding
	if ulp+fm.p-1 > fm.emax && m >= 1<<uint(fm.p-1) {
		return 0, 0, true
	}
	return m, ulp, false
}

// assemble64 builds the double (-1)^neg * mant * 2^exp where (mant, exp) come from roundPos(fmt64)
// or any pair with mant < 2^53 that is exactly representable.
func assemble64(neg bool, mant uint64, exp int) float64 {
	var bits uint64
	if mant != 0 {
		// normalise
		for mant < 1<<52 && exp > -1074 {
			mant <<= 1
			exp--
		}
		for mant >= 1<<53 {
			if mant&1 != 0 {
				panic("numref: assemble64 inexact")
			}
			mant >>= 1
			exp++
		}
		if mant < 1<<52 {
			if exp != -1074 {
				panic("numref: assemble64 bad subnormal")
			}
			bits = mant
		} else {
			be := exp + 1075
			if be >= 0x7ff {
				bits = 0x7ff << 52
			} else if be < 1 {
				panic("numref: assemble64 exponent underflow")
			} else {
				bits = uint64(be)<<52 | (mant &^ (1 << 52))
			}
		}
	}
	if neg {
		bits |= 1 << 63
	}
	return math.Float64frombits(bits)
}

// RoundFrac returns the double nearest to (-1)^neg * num/den (ties to even; overflow gives ±Infinity,
// underflow ±0). num >= 0, den > 0.
func RoundFrac(neg bool, num, den *big.Int) float64 {
	if num.Sign() == 0 {
		return Zero(neg)
	}
	m, e, inf := roundPos(num, den, fmt64)
	if inf {
		return Inf(neg)
	}
	return assemble64(neg, m, e)
}

// RoundRat returns the double nearest to r (ties to even). A zero rational gives +0.
func RoundRat(r *big.Rat) float64 {
	neg := r.Sign() < 0
	return RoundFrac(neg, new(big.Int).Abs(r.Num()), r.Denom())
}

// RoundInt returns the double nearest to the integer z (ties to even); 0 gives +0.
func RoundInt(z *big.Int) float64 {
	return RoundFrac(z.Sign() < 0, new(big.Int).Abs(z), bigOne)
}

// RoundFloat32 returns the float32 value (as a double) nearest to the double f, ties to even (Math.fround,
// Float32Array stores).
func RoundFloat32(f float64) float64 {
	if !IsFinite(f) || IsZero(f) {
		return f
	}
	fr := exactFrac(f)
	m, e, inf := roundPos(fr.num, fr.den, fmt32)
	neg := Signbit(f)
	if inf {
		return Inf(neg)
	}
	if m == 0 {
		return Zero(neg)
	}
	return assemble64(neg, m, e)
}

// IsInteger reports whether the finite double has no fractional part.
func IsInteger(f float64) bool {
	if !IsFinite(f) {
		return false
	}
	_, m, e := Decompose(f)
	if m == 0 || e >= 0 {
		return true
	}
	if e <= -64 {
		return false
	}
	return m&(1<<uint(-e)-1) == 0
}

// TruncInt returns trunc(f) as a big integer (f finite).
func TruncInt(f float64) *big.Int {
	neg, m, e := Decompose(f)
	z := new(big.Int).SetUint64(m)
	if e >= 0 {
		z.Lsh(z, uint(e))
	} else {
		z.Rsh(z, uint(-e))
	}
	if neg {
		z.Neg(z)
	}
	return z
}

// NextUp / NextDown return the neighbouring doubles (by bit pattern arithmetic). Infinities and NaN are returned unchanged
// when there is no neighbour in that direction.
func NextUp(f float64) float64 {
	if IsNaN(f) {
		return f
	}
	b := math.Float64bits(f)
	switch {
	case b == 0x7ff0000000000000:
		return f
	case b == 1<<63 || b == 0:
		return math.Float64frombits(1)
	case b>>63 == 0:
		return math.Float64frombits(b + 1)
	default:
		return math.Float64frombits(b - 1)
	}
}

func NextDown(f float64) float64 {
	if IsNaN(f) {
		return f
	}
	b := math.Float64bits(f)
	switch {
	case b == 0xfff0000000000000:
		return f
	case b == 1<<63 || b == 0:
		return math.Float64frombits(1<<63 | 1)
	case b>>63 == 0:
		return math.Float64frombits(b - 1)
	default:
		return math.Float64frombits(b + 1)
	}
}

// SameValue / SameValueZero / StrictEquals on doubles (ECMA-262 7.2.10 – 7.2.13 for Numbers).
func SameValue(a, b float64) bool {
	if IsNaN(a) || IsNaN(b) {
		return IsNaN(a) && IsNaN(b)
	}
	return math.Float64bits(a) == math.Float64bits(b)
}

func SameValueZero(a, b float64) bool {
	if IsZero(a) && IsZero(b) {
		return true
	}
	return SameValue(a, b)
}

func StrictEquals(a, b float64) bool {
	if IsNaN(a) || IsNaN(b) {
		return false
	}
	if IsZero(a) && IsZero(b) {
		return true
	}
	return math.Float64bits(a) == math.Float64bits(b)
}
