package arrmodel

import (
	"math"
	"strconv"
	"strings"
)

var nan = math.NaN()

// Realm is one model "runtime": the two prototypes that may carry indexed properties, the value pool, the
// receiver `a`, the event log written by catalogue callbacks and the iterator slot `it`.
type Realm struct {
	ObjectProto *Obj
	ArrayProto  *Obj
	Recv        *Obj
	It          *Obj
	Pool        map[string]Value
	Log         []string
	LogN        int
	Thrown      *Obj
	objToString *Obj
	Res         Value // result of the last Try

	SortHint      []string // engine's resulting order (rendered) for an implementation-defined sort; consumed by the next sort
	SortHintBad   bool     // the hint was not a permutation of the collected items
	SortCollected int      // number of items collected by the last SortIndexedProperties
}

func (r *Realm) NewFunc(tag string, f func(r *Realm, this Value, args []Value) Value) *Obj {
	o := newObj("Function", r.ObjectProto)
	o.Call = f
	o.Tag = tag
	return o
}

func (r *Realm) NewPlain(tag string) *Obj {
	o := newObj("Object", r.ObjectProto)
	o.Tag = tag
	if tag != "" {
		o.putRaw("tag", &Prop{Value: tag, W: true, E: true, C: true})
	}
	return o
}

func arg(args []Value, i int) Value {
	if i < len(args) {
		return args[i]
	}
	return Undefined
}

// NewRealm builds the intrinsics the model needs and the value pool (twin of the `var O1=...` part of Prelude).
func NewRealm() *Realm {
	r := &Realm{Pool: map[string]Value{}}
	r.ObjectProto = &Obj{Class: "Object", Ext: true, props: map[string]*Prop{}}
	r.ArrayProto = newObj("Array", r.ObjectProto)
	r.ArrayProto.putRaw("length", &Prop{Value: 0.0, W: true})
	hidden := func(o *Obj, name string, f func(r *Realm, this Value, args []Value) Value) *Obj {
		fn := r.NewFunc(name, f)
		o.putRaw(name, &Prop{Value: fn, W: true, C: true})
		return fn
	}
	hidden(r.ObjectProto, "valueOf", func(r *Realm, this Value, args []Value) Value { return this })
	r.objToString = hidden(r.ObjectProto, "toString", func(r *Realm, this Value, args []Value) Value {
		switch o := this.(type) {
		case *Obj:
			switch {
			case r.IsArray(o):
				return "[object Array]"
			case o.Call != nil:
				return "[object Function]"
			case o.Class == "Error":
				return "[object Error]"
			}
			return "[object Object]"
		case Undef, nil:
			return "[object Undefined]"
		case NullT:
			return "[object Null]"
		}
		return "[object Object]"
	})
	hidden(r.ArrayProto, "join", func(r *Realm, this Value, args []Value) Value {
		return r.Method("join", r.toObject(this), args)
	})
	hidden(r.ArrayProto, "toString", func(r *Realm, this Value, args []Value) Value {
		return r.Method("toString", r.toObject(this), args)
	})
	for _, t := range []string{"O1", "O2", "O3"} {
		r.Pool[t] = r.NewPlain(t)
	}
	n1 := r.NewArrayFrom([]Value{1.0, 2.0})
	n1.Tag = "N1"
	n1.putRaw("tag", &Prop{Value: "N1", W: true, E: true, C: true})
	r.Pool["N1"] = n1
	inner := r.NewArrayFrom([]Value{3.0})
	n2 := r.NewArrayFrom([]Value{inner, 4.0})
	n2.Tag = "N2"
	n2.putRaw("tag", &Prop{Value: "N2", W: true, E: true, C: true})
	r.Pool["N2"] = n2
	s1 := r.NewPlain("S1")
	s1.putRaw("length", &Prop{Value: 2.0, W: true, E: true, C: true})
	s1.putRaw("0", &Prop{Value: "x", W: true, E: true, C: true})
	s1.putRaw("1", &Prop{Value: "y", W: true, E: true, C: true})
	s1.putRaw(SymSpreadable, &Prop{Value: true, W: true, E: true, C: true})
	r.Pool["S1"] = s1
	r.Thrown = r.NewPlain("THROWN")
	r.Pool["THROWN"] = r.Thrown
	r.installAccessorPool()
	return r
}

// SymSpreadable is the model's key for @@isConcatSpreadable (never rendered: dumps list string keys only).
const SymSpreadable = "@@isConcatSpreadable"

func (r *Realm) toObject(v Value) *Obj {
	o, ok := v.(*Obj)
	if !ok {
		r.ThrowType()
	}
	return o
}

// Lit parses a value literal of the case language (which is JS source text at the same time):
// undefined null true false NaN Infinity -Infinity -0 1.5 'str' O1 O2 O3 N1 N2 S1 a G1 ...
func (r *Realm) Lit(s string) Value {
	switch s {
	case "undefined":
		return Undefined
	case "null":
		return Null
	case "true":
		return true
	case "false":
		return false
	case "NaN":
		return nan
	case "Infinity":
		return math.Inf(1)
	case "-Infinity":
		return math.Inf(-1)
	case "a":
		return r.Recv
	}
	if strings.HasPrefix(s, "'") && strings.HasSuffix(s, "'") && len(s) >= 2 {
		return s[1 : len(s)-1]
	}
	if v, ok := r.Pool[s]; ok {
		return v
	}
	f, err := strconv.ParseFloat(s, 64)
	if err != nil {
		panic("arrmodel: bad literal " + s)
	}
	return f
}

// NewArrayLike builds `{length: n}` with Object.prototype.
func (r *Realm) NewArrayLike(length Value) *Obj {
	o := newObj("Object", r.ObjectProto)
	o.putRaw("length", &Prop{Value: length, W: true, E: true, C: true})
	return o
}

// NewGoSlice builds the model of r.ToValue([]interface{}{...}) / r.ToValue(&[]int{...}).
func (r *Realm) NewGoSlice(elems []Value, intElem bool) *Obj {
	o := newObj("GoSlice", r.ArrayProto)
	o.IntElem = intElem
	for _, e := range elems {
		o.Elems = append(o.Elems, r.hostConv(o, e))
	}
	return o
}

func (r *Realm) logf(s string) {
	r.LogN++
	if r.LogN <= 300 {
		r.Log = append(r.Log, s)
	}
}
