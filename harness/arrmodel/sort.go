package arrmodel

// sortIndexedProperties: ECMA-262 23.1.3.30.1. The sequence of comparator calls is implementation-defined; the model
// uses a stable merge sort, which yields THE sorted order whenever the comparator is consistent (a total preorder):
// then the result is unique up to the order of equal elements, and the spec (since ES2019) requires stability.
// For an inconsistent comparator the order is implementation-defined: the caller supplies SortHint (the rendering of
// the engine's resulting order); the model verifies it is a permutation of the collected items and adopts it.
func (r *Realm) sortIndexedProperties(o *Obj, length float64, cmp Value, skipHoles bool) []Value {
	var items []Value
	for k := 0.0; k < length; k++ {
		p := IdxKey(k)
		if skipHoles && !r.HasProperty(o, p) {
			continue
		}
		items = append(items, r.GetV(o, p))
	}
	r.SortCollected = len(items)
	less := func(x, y Value) bool { return r.compareArrayElements(x, y, cmp) < 0 }
	sorted := mergeSort(items, less)
	if r.SortHint != nil {
		hint := r.SortHint
		r.SortHint = nil
		used := make([]bool, len(sorted))
		out := make([]Value, 0, len(sorted))
		ok := len(hint) == len(sorted)
		for _, h := range hint {
			found := false
			for i, v := range sorted {
				if !used[i] && r.Render(v, 1) == h {
					used[i] = true
					out = append(out, v)
					found = true
					break
				}
			}
			if !found {
				ok = false
				break
			}
		}
		if ok {
			return out
		}
		r.SortHintBad = true
	}
	return sorted
}

func (r *Realm) compareArrayElements(x, y Value, cmp Value) float64 {
	xu, yu := IsUndef(x), IsUndef(y)
	switch {
	case xu && yu:
		return 0
	case xu:
		return 1
	case yu:
		return -1
	}
	if !IsUndef(cmp) {
		v := r.ToNumber(r.Call(cmp, Undefined, []Value{x, y}))
		if v != v {
			return 0
		}
		return v
	}
	xs, ys := r.ToString(x), r.ToString(y)
	switch {
	case xs < ys: // ASCII domain: byte order = UTF-16 code unit order
		return -1
	case ys < xs:
		return 1
	}
	return 0
}

func mergeSort(in []Value, less func(x, y Value) bool) []Value {
	if len(in) < 2 {
		return append([]Value(nil), in...)
	}
	mid := len(in) / 2
	l := mergeSort(in[:mid], less)
	rt := mergeSort(in[mid:], less)
	out := make([]Value, 0, len(in))
	i, j := 0, 0
	for i < len(l) && j < len(rt) {
		if less(rt[j], l[i]) { // take from the right only when strictly smaller: stable
			out = append(out, rt[j])
			j++
		} else {
			out = append(out, l[i])
			i++
		}
	}
	out = append(out, l[i:]...)
	return append(out, rt[j:]...)
}
