package arrmodel

// Universe is the index set of the workload and of the hole probes in dumps.
var Universe = []float64{0, 1, 2, 3, 4, 5, 6, 7, 8, 9, 10, 11, 12, 13, 14, 15, 16, 17, 18, 19, 20,
	4095, 4096, 4097, 4098, 4099, 4100, 65535, 65536, 2147483647, 4294967294, 4294967295}

// Prelude is the JS side of the harness: value pool, renderer R / dumper D (Go twins: Render / Dump in render.go),
// the op wrapper T, and the callback catalogue (Go twins in catalogue.go). Sloppy mode on purpose: failed
// assignments inside catalogue mutations are silent, as in the Go twins.
const Prelude = `
var a, it, res, LOG = [], LOGN = 0;
// the event log keeps the first 300 entries and counts the rest (string += is quadratic in this engine)
function LG(s){ LOGN++; if (LOGN <= 300) PUSH(LOG,s) }
function LOGTEXT(){ return LOG.join(',') + (LOGN > 300 ? ',+' + (LOGN-300) : '') }
function PUSH(arr,v){ Object.defineProperty(arr,arr.length,{value:v,writable:true,enumerable:true,configurable:true}) }
var O1 = {tag:'O1'}, O2 = {tag:'O2'}, O3 = {tag:'O3'}, THROWN = {tag:'THROWN'};
var N1 = [1,2]; N1.tag = 'N1';
var N2 = [[3],4]; N2.tag = 'N2';
var S1 = {tag:'S1', length:2, 0:'x', 1:'y'}; S1[Symbol.isConcatSpreadable] = true;
var GOPD = Object.getOwnPropertyDescriptor, HOP = Object.hasOwn;
var UNIVERSE = [0,1,2,3,4,5,6,7,8,9,10,11,12,13,14,15,16,17,18,19,20,4095,4096,4097,4098,4099,4100,65535,65536,2147483647,4294967294,4294967295];
var AP = Array.prototype, OP = Object.prototype;
function isIdx(k){ var n = k>>>0; return String(n) === k && n !== 4294967295 }
function R(v,d){
  switch (typeof v) {
  case 'undefined': return 'u';
  case 'boolean': return v ? 'T' : 'F';
  case 'number': return v !== v ? 'dNaN' : (v === 0 && 1/v < 0) ? 'd-0' : 'd' + String(v);
  case 'string': return 's' + v.length + ':' + v;
  case 'function': return 'f:' + (HOP(v,'tag') ? v.tag : '?');
  case 'symbol': return 'y';
  case 'bigint': return 'g';
  }
  if (v === null) return 'n';
  if (v === a) return 'A';
  var t = GOPD(v,'tag');
  if (t && typeof t.value === 'string') return 'o:' + t.value;
  if (Array.isArray(v)) return (d|0) >= 4 ? '[..]' : D(v,(d|0)+1);
  return 'o:?';
}
function FL(d,acc){ return (acc ? '' : (d.writable?'w':'-')) + (d.enumerable?'e':'-') + (d.configurable?'c':'-') }
function PD(d,depth){
  if ('value' in d) return 'v' + R(d.value,depth) + FL(d,false);
  return 'g' + R(d.get,depth) + 's' + R(d.set,depth) + FL(d,true);
}
function EN(e){ if (e instanceof Error) return e.constructor.name; return 'v' + R(e,1) }
function D(x,d){
  var ll = LOG.length, lln = LOGN;
  var s = Array.isArray(x) ? '[A' : '[O';
  var ld = GOPD(x,'length');
  s += ' L=' + (ld ? (('value' in ld) ? R(ld.value,9) + (ld.writable?'w':'-') : 'acc') : 'none');
  s += Object.isExtensible(x) ? ' X' : ' -';
  var keys = Reflect.ownKeys(x), sk = [], nk = 0, i, k, c = 0;
  for (i = 0; i < keys.length; i++) { k = keys[i]; if (typeof k === 'string' && isIdx(k)) nk++ }
  s += ' K='; // more than 64 own index keys: the first and the last 32 and the count
  for (i = 0; i < keys.length; i++) {
    k = keys[i];
    if (typeof k !== 'string' || k === 'length' || k === 'tag') continue;
    if (!isIdx(k)) { PUSH(sk,k); continue }
    if (nk > 64 && c >= 32 && c < nk - 32) { if (c === 32) s += '..(' + nk + ')..;'; c++; continue }
    c++;
    s += k + ':' + PD(GOPD(x,k),d) + ';';
  }
  s += ' S=';
  if (sk.length) { sk.sort(); for (i = 0; i < sk.length; i++) s += sk[i] + ':' + PD(GOPD(x,sk[i]),d) + ';' }
  if (!d) {
    s += ' H=';
    for (i = 0; i < UNIVERSE.length; i++) {
      var u = UNIVERSE[i];
      if (!(u in x) || HOP(x,u)) continue;
      try { s += u + ':' + R(x[u],1) + ';' } catch (e) { s += u + ':!' + EN(e) + ';' }
    }
  }
  LOG.length = ll; LOGN = lln;
  return s + ']';
}
function T(f){
  LOG = []; LOGN = 0; var r;
  try { res = f(); r = 'ok:' + R(res,0) } catch (e) { res = undefined; r = 'throw:' + EN(e) }
  return r + ' |' + LOGTEXT();
}
// present values of x below its length, rendered (used to read the engine's order after an implementation-defined sort)
function SV(x,n){ var o = '', c = 0; for (var i = 0; i < n; i++) if (i in x) { o += (c++ ? '\u0001' : '') + R(x[i],1) } return o }

// ---- accessor pool ----
function G1(){ LG('G1'); return 'g1' } G1.tag = 'G1';
function G2(){ return this === a ? 'g2a' : 'g2o' } G2.tag = 'G2';
function GT(){ throw THROWN } GT.tag = 'GT';
function S1f(v){ LG('S1:' + R(v,1)) } S1f.tag = 'S1f';

// ---- catalogue: mutations of the receiver performed from inside callbacks / valueOf ----
function MUT(m,arg){
  switch (m) {
  case 'shrink': a.length = arg; break;
  case 'push': AP.push.call(a,77); break;
  case 'pop': AP.pop.call(a); break;
  case 'shift': AP.shift.call(a); break;
  case 'unshift': AP.unshift.call(a,66); break;
  case 'splice': AP.splice.call(a,0,arg); break;
  case 'setfar': a[arg] = 77; break;
  case 'set': a[arg] = 88; break;
  case 'del': delete a[arg]; break;
  case 'freeze': Object.freeze(a); break;
  case 'defacc': Object.defineProperty(a,arg,{get:G1,enumerable:true,configurable:true}); break;
  case 'proto': AP[arg] = 'PP'; break;
  }
}
function RET(k,v,i){
  switch (k) {
  case 'T': return true;
  case 'F': return false;
  case 'U': return undefined;
  case 'v': return v;
  case 'i': return i;
  case 'tv': return !!v;
  case 'odd': return i % 2 === 1;
  case 'gt2': return typeof v === 'number' && v > 2;
  case 'dbl': return typeof v === 'number' ? v * 2 : v;
  case 'pair': return [v,i];
  case 'nest': return [[v]];
  case 'eq77': return v === 77;
  case 'N1': return N1;
  }
}
// iteration callback (v,i,arr): logs every call, mutates at call 'at', throws at call 'throwAt'
function mkcb(ret,m,at,arg,throwAt){
  var n = 0;
  var f = function(v,i,arr){
    n++;
    LG('c' + R(v,1) + '@' + R(i,1) + (arr === a ? '' : '!') + (this === O1 ? 't' : ''));
    if (n === at) MUT(m,arg);
    if (n === throwAt) throw THROWN;
    return RET(ret,v,i);
  };
  f.tag = 'cb'; return f;
}
// reduce callback (acc,v,i,arr)
function mkred(ret,m,at,arg,throwAt){
  var n = 0;
  var f = function(acc,v,i,arr){
    n++;
    LG('r' + R(acc,1) + '/' + R(v,1) + '@' + R(i,1) + (arr === a ? '' : '!'));
    if (n === at) MUT(m,arg);
    if (n === throwAt) throw THROWN;
    switch (ret) {
    case 'acc': return acc;
    case 'v': return v;
    case 'cnt': return typeof acc === 'number' ? acc + 1 : 1;
    case 'sum': return (typeof acc === 'number' && typeof v === 'number') ? acc + v : acc;
    }
  };
  f.tag = 'red'; return f;
}
// Array.from map function (v,k)
function mkmap(ret,m,at,arg,throwAt){
  var n = 0;
  var f = function(v,i){
    n++;
    LG('m' + R(v,1) + '@' + R(i,1) + (arguments.length === 2 ? '' : '#') + (this === O1 ? 't' : ''));
    if (n === at) MUT(m,arg);
    if (n === throwAt) throw THROWN;
    return RET(ret,v,i);
  };
  f.tag = 'map'; return f;
}
// sort key: a total preorder with many ties over the whole value pool
function KEY(x){
  switch (typeof x) {
  case 'number': return x !== x ? 0 : (x === Infinity ? 1000 : x === -Infinity ? -1000 : (Math.floor(x) || 0));
  case 'string': return x.length ? x.charCodeAt(0) : 0;
  case 'boolean': return x ? 1 : 0;
  case 'object': return x === null ? 0 : 50;
  }
  return 0;
}
var TABLE = [1,-1,0,1,-1,1,0];
// comparator (x,y): never logs (call count and order are implementation-defined); mutation / throw only at the first call
function mkcmp(kind,m,arg,throwAt){
  var n = 0;
  var f = function(x,y){
    n++;
    if (n === 1) MUT(m,arg);
    if (n === throwAt) throw THROWN;
    var d = KEY(x) - KEY(y);
    switch (kind) {
    case 'key': return d;
    case 'keydesc': return -d + 0;
    case 'zero': return 0;
    case 'undef': return undefined;
    case 'nan': return NaN;
    case 'strkey': return String(d > 0 ? 1 : d < 0 ? -1 : 0);
    case 'big': return d * 1e300 * 1e300 || 0;
    case 'bool': return d > 0;
    case 'one': return 1;
    case 'neg': return -1;
    case 'table': return TABLE[(((KEY(x) % 7) + 7) % 7 * 3 + ((KEY(y) % 7) + 7) % 7) % 7];
    case 'negzero': return -0;
    }
  };
  f.tag = 'cmp'; return f;
}
// object with a valueOf that mutates the receiver on its first call
function mkvo(ret,m,arg){
  var done = false;
  return {tag:'vo', valueOf:function(){ LG('vo'); if (!done) { done = true; MUT(m,arg) } return ret }};
}
`
