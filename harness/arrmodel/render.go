package arrmodel

import (
	"sort"
	"strconv"
	"strings"
)

// Render is the Go twin of the prelude's R(v,d).
func (r *Realm) Render(v Value, d int) string {
	switch x := v.(type) {
	case nil, Undef:
		return "u"
	case NullT:
		return "n"
	case bool:
		if x {
			return "T"
		}
		return "F"
	case float64:
		if x != x {
			return "dNaN"
		}
		if x == 0 && 1/x < 0 {
			return "d-0"
		}
		return "d" + NumToString(x)
	case string:
		return "s" + strconv.Itoa(len(x)) + ":" + x
	case *Obj:
		if x.Call != nil {
			if x.Tag != "" {
				return "f:" + x.Tag
			}
			return "f:?"
		}
		if x == r.Recv {
			return "A"
		}
		if t := r.GetOwnProperty(x, "tag"); t != nil && !t.Acc {
			if s, ok := t.Value.(string); ok {
				return "o:" + s
			}
		}
		if r.IsArray(x) {
			if d >= 4 {
				return "[..]"
			}
			return r.Dump(x, d+1)
		}
		return "o:?"
	}
	return "?"
}

func flags(p *Prop) string {
	b := []byte{'-', '-', '-'}
	if p.W {
		b[0] = 'w'
	}
	if p.E {
		b[1] = 'e'
	}
	if p.C {
		b[2] = 'c'
	}
	if p.Acc {
		return string(b[1:])
	}
	return string(b)
}

func (r *Realm) renderFn(f *Obj, d int) string {
	if f == nil {
		return "u"
	}
	return r.Render(f, d)
}

func (r *Realm) renderProp(p *Prop, d int) string {
	if !p.Acc {
		return "v" + r.Render(p.Value, d) + flags(p)
	}
	return "g" + r.renderFn(p.Get, d) + "s" + r.renderFn(p.Set, d) + flags(p)
}

// ErrName is the twin of EN(e).
func (r *Realm) ErrName(v Value) string {
	if o, ok := v.(*Obj); ok && o.Class == "Error" {
		return o.ErrName
	}
	return "v" + r.Render(v, 1)
}

// Dump is the Go twin of the prelude's D(x,d): length descriptor, extensibility, own index keys with descriptors (in
// [[OwnPropertyKeys]] order), other own string keys (sorted), and - at depth 0 - every universe index that is not
// own but visible through the prototype chain, with the value a read yields.
func (r *Realm) Dump(o *Obj, d int) string {
	ll, lln := len(r.Log), r.LogN
	var b strings.Builder
	if r.IsArray(o) {
		b.WriteString("[A")
	} else {
		b.WriteString("[O")
	}
	b.WriteString(" L=")
	if ld := r.GetOwnProperty(o, "length"); ld == nil {
		b.WriteString("none")
	} else if ld.Acc {
		b.WriteString("acc")
	} else {
		b.WriteString(r.Render(ld.Value, 9))
		if ld.W {
			b.WriteString("w")
		} else {
			b.WriteString("-")
		}
	}
	if o.Ext {
		b.WriteString(" X")
	} else {
		b.WriteString(" -")
	}
	var ik, sk []string
	for _, k := range r.OwnPropertyKeys(o) {
		if k == "length" || k == "tag" || strings.HasPrefix(k, "@@") {
			continue
		}
		if _, ok := ArrayIndex(k); ok {
			ik = append(ik, k)
		} else {
			sk = append(sk, k)
		}
	}
	sort.Strings(sk)
	b.WriteString(" K=")
	for i, nk := 0, len(ik); i < nk; i++ {
		if nk > 64 && i == 32 {
			b.WriteString("..(" + strconv.Itoa(nk) + ")..;")
			i = nk - 32
		}
		k := ik[i]
		b.WriteString(k + ":" + r.renderProp(r.GetOwnProperty(o, k), d) + ";")
	}
	b.WriteString(" S=")
	for _, k := range sk {
		b.WriteString(k + ":" + r.renderProp(r.GetOwnProperty(o, k), d) + ";")
	}
	if d == 0 {
		b.WriteString(" H=")
		for _, u := range Universe {
			k := IdxKey(u)
			if r.HasOwnProperty(o, k) || !r.HasProperty(o, k) {
				continue
			}
			func() {
				defer func() {
					if x := recover(); x != nil {
						t, ok := x.(*Throw)
						if !ok {
							panic(x)
						}
						b.WriteString(k + ":!" + r.ErrName(t.V) + ";")
					}
				}()
				b.WriteString(k + ":" + r.Render(r.GetV(o, k), 1) + ";")
			}()
		}
	}
	r.Log, r.LogN = r.Log[:ll], lln
	b.WriteString("]")
	return b.String()
}

// Try runs f as the prelude's T(f): "ok:<R(result)> |<log>" or "throw:<EN(e)> |<log>". The result value is kept in Res.
func (r *Realm) Try(f func() Value) (out string) {
	r.Log, r.LogN = r.Log[:0], 0
	r.Res = Undefined
	defer func() {
		if x := recover(); x != nil {
			t, ok := x.(*Throw)
			if !ok {
				panic(x)
			}
			r.Res = Undefined
			out = "throw:" + r.ErrName(t.V) + " |" + r.LogText()
		}
	}()
	v := f()
	if v == nil {
		v = Undefined
	}
	r.Res = v
	return "ok:" + r.Render(v, 0) + " |" + r.LogText()
}

// PresentValues is the twin of SV(x,n).
func (r *Realm) PresentValues(o *Obj, n float64) []string {
	var out []string
	for i := 0.0; i < n; i++ {
		k := IdxKey(i)
		if r.HasProperty(o, k) {
			out = append(out, r.Render(r.GetV(o, k), 1))
		}
	}
	return out
}

// LogText is the twin of LOGTEXT(): the first 300 entries and the count of the rest.
func (r *Realm) LogText() string {
	s := strings.Join(r.Log, ",")
	if r.LogN > 300 {
		s += ",+" + strconv.Itoa(r.LogN-300)
	}
	return s
}

// Exec runs f like Try but renders nothing (used by generators that only need the state change).
func (r *Realm) Exec(f func() Value) {
	r.Log, r.LogN = r.Log[:0], 0
	defer func() {
		if x := recover(); x != nil {
			if _, ok := x.(*Throw); !ok {
				panic(x)
			}
		}
	}()
	f()
}
