package arrmodel

import (
	"fmt"
	"math"
)

// CB describes one catalogue function. Its JS text is JS(); its Go twin is Make(). Families:
//   cb  iteration callback (v,i,arr)      red  reduce callback (acc,v,i,arr)      map  Array.from map function (v,k)
//   cmp comparator (x,y)                  vo   object whose valueOf returns Ret and mutates the receiver once
// Mut/At/Arg: receiver mutation performed at call number At (cmp, vo: at the first call); ThrowAt: call that throws.
type CB struct {
	Fam     string  `json:"fam"`
	Ret     string  `json:"ret"`
	Mut     string  `json:"mut,omitempty"`
	At      int     `json:"at,omitempty"`
	Arg     float64 `json:"arg,omitempty"`
	ThrowAt int     `json:"throwAt,omitempty"`
}

var (
	CBRets  = []string{"T", "F", "U", "v", "i", "tv", "odd", "gt2", "dbl", "pair", "nest", "eq77", "N1"}
	RedRets = []string{"acc", "v", "cnt", "sum"}
	Muts    = []string{"shrink", "push", "pop", "shift", "unshift", "splice", "setfar", "set", "del", "freeze", "defacc", "proto"}
	// CmpConsistent induce a total preorder (stable order is fully determined); CmpInconsistent do not.
	CmpConsistent   = []string{"key", "keydesc", "zero", "undef", "nan", "strkey", "big"}
	CmpInconsistent = []string{"one", "neg", "table", "bool"}
)

func (c CB) Consistent() bool {
	for _, k := range CmpConsistent {
		if c.Ret == k {
			return true
		}
	}
	return c.Ret == "negzero"
}

// Kind classifies the callback for the evidence: pure, stateful-idempotent (logging), mutating, throwing, inconsistent.
func (c CB) Kind() string {
	k := c.Fam + ":"
	switch {
	case c.ThrowAt > 0:
		k += "throwing"
	case c.Mut != "" && c.Mut != "none":
		k += "mutating-" + c.Mut
	case c.Fam == "cmp" && !c.Consistent():
		k += "inconsistent"
	case c.Fam == "cmp":
		k += "pure"
	default:
		k += "stateful-logging"
	}
	return k
}

func q(s string) string { return "'" + s + "'" }

func (c CB) mutName() string {
	if c.Mut == "" {
		return "none"
	}
	return c.Mut
}

// JS returns the JS expression creating the function (uses the prelude's factories).
func (c CB) JS() string {
	switch c.Fam {
	case "cb":
		return fmt.Sprintf("mkcb(%s,%s,%d,%s,%d)", q(c.Ret), q(c.mutName()), c.At, NumToString(c.Arg), c.ThrowAt)
	case "red":
		return fmt.Sprintf("mkred(%s,%s,%d,%s,%d)", q(c.Ret), q(c.mutName()), c.At, NumToString(c.Arg), c.ThrowAt)
	case "map":
		return fmt.Sprintf("mkmap(%s,%s,%d,%s,%d)", q(c.Ret), q(c.mutName()), c.At, NumToString(c.Arg), c.ThrowAt)
	case "cmp":
		return fmt.Sprintf("mkcmp(%s,%s,%s,%d)", q(c.Ret), q(c.mutName()), NumToString(c.Arg), c.ThrowAt)
	case "vo":
		return fmt.Sprintf("mkvo(%s,%s,%s)", c.Ret, q(c.mutName()), NumToString(c.Arg))
	}
	panic("arrmodel: bad catalogue family " + c.Fam)
}

// Mut is the twin of MUT(m,arg).
func (r *Realm) Mut(m string, arg float64) {
	a := r.Recv
	switch m {
	case "shrink":
		r.Set(a, "length", arg, a)
	case "push":
		r.Method("push", a, []Value{77.0})
	case "pop":
		r.Method("pop", a, nil)
	case "shift":
		r.Method("shift", a, nil)
	case "unshift":
		r.Method("unshift", a, []Value{66.0})
	case "splice":
		r.Method("splice", a, []Value{0.0, arg})
	case "setfar":
		r.Set(a, IdxKey(arg), 77.0, a)
	case "set":
		r.Set(a, IdxKey(arg), 88.0, a)
	case "del":
		r.Delete(a, IdxKey(arg))
	case "freeze":
		r.SetIntegrityLevel(a, "frozen")
	case "defacc":
		r.DefinePropertyOrThrow(a, IdxKey(arg), Desc{HasGet: true, Get: r.Pool["G1"].(*Obj), HasE: true, E: true, HasC: true, C: true})
	case "proto":
		r.Set(r.ArrayProto, IdxKey(arg), "PP", r.ArrayProto)
	}
}

// Ret is the twin of RET(k,v,i).
func (r *Realm) Ret(k string, v Value, i Value) Value {
	switch k {
	case "T":
		return true
	case "F":
		return false
	case "U":
		return Undefined
	case "v":
		return v
	case "i":
		return i
	case "tv":
		return ToBoolean(v)
	case "odd":
		f, _ := i.(float64)
		return math.Mod(f, 2) == 1
	case "gt2":
		f, ok := v.(float64)
		return ok && f > 2
	case "dbl":
		if f, ok := v.(float64); ok {
			return f * 2
		}
		return v
	case "pair":
		return r.NewArrayFrom([]Value{v, i})
	case "nest":
		return r.NewArrayFrom([]Value{r.NewArrayFrom([]Value{v})})
	case "eq77":
		return StrictEquals(v, 77.0)
	case "N1":
		return r.Pool["N1"]
	}
	return Undefined
}

// Key is the twin of KEY(x).
func Key(x Value) float64 {
	switch v := x.(type) {
	case float64:
		switch {
		case v != v:
			return 0
		case math.IsInf(v, 1):
			return 1000
		case math.IsInf(v, -1):
			return -1000
		}
		f := math.Floor(v)
		if f == 0 {
			return 0
		}
		return f
	case string:
		if len(v) == 0 {
			return 0
		}
		return float64(v[0])
	case bool:
		if v {
			return 1
		}
		return 0
	case NullT:
		return 0
	case *Obj:
		if v.Call != nil {
			return 0
		}
		return 50
	}
	return 0
}

var cmpTable = []float64{1, -1, 0, 1, -1, 1, 0}

func mod7(f float64) int {
	m := int(math.Mod(f, 7))
	return ((m + 7) % 7)
}

// Make builds the Go twin of the function described by c.
func (r *Realm) Make(c CB) Value {
	n := 0
	o1 := r.Pool["O1"]
	arrFlag := func(v Value) string {
		if o, ok := v.(*Obj); ok && o == r.Recv {
			return ""
		}
		return "!"
	}
	thisFlag := func(this Value) string {
		if o, ok := this.(*Obj); ok && o == o1 {
			return "t"
		}
		return ""
	}
	step := func() {
		if n == c.At {
			r.Mut(c.mutName(), c.Arg)
		}
		if n == c.ThrowAt {
			panic(&Throw{V: r.Thrown})
		}
	}
	switch c.Fam {
	case "cb":
		return r.NewFunc("cb", func(r *Realm, this Value, args []Value) Value {
			n++
			v, i := arg(args, 0), arg(args, 1)
			r.logf("c" + r.Render(v, 1) + "@" + r.Render(i, 1) + arrFlag(arg(args, 2)) + thisFlag(this))
			step()
			return r.Ret(c.Ret, v, i)
		})
	case "map":
		return r.NewFunc("map", func(r *Realm, this Value, args []Value) Value {
			n++
			v, i := arg(args, 0), arg(args, 1)
			cnt := "#"
			if len(args) == 2 {
				cnt = ""
			}
			r.logf("m" + r.Render(v, 1) + "@" + r.Render(i, 1) + cnt + thisFlag(this))
			step()
			return r.Ret(c.Ret, v, i)
		})
	case "red":
		return r.NewFunc("red", func(r *Realm, this Value, args []Value) Value {
			n++
			acc, v, i := arg(args, 0), arg(args, 1), arg(args, 2)
			r.logf("r" + r.Render(acc, 1) + "/" + r.Render(v, 1) + "@" + r.Render(i, 1) + arrFlag(arg(args, 3)))
			step()
			switch c.Ret {
			case "acc":
				return acc
			case "v":
				return v
			case "cnt":
				if f, ok := acc.(float64); ok {
					return f + 1
				}
				return 1.0
			case "sum":
				fa, ok1 := acc.(float64)
				fv, ok2 := v.(float64)
				if ok1 && ok2 {
					return fa + fv
				}
				return acc
			}
			return Undefined
		})
	case "cmp":
		return r.NewFunc("cmp", func(r *Realm, this Value, args []Value) Value {
			n++
			if n == 1 {
				r.Mut(c.mutName(), c.Arg)
			}
			if n == c.ThrowAt {
				panic(&Throw{V: r.Thrown})
			}
			x, y := arg(args, 0), arg(args, 1)
			d := Key(x) - Key(y)
			switch c.Ret {
			case "key":
				return d
			case "keydesc":
				return -d + 0
			case "zero":
				return 0.0
			case "undef":
				return Undefined
			case "nan":
				return nan
			case "strkey":
				switch {
				case d > 0:
					return "1"
				case d < 0:
					return "-1"
				}
				return "0"
			case "big":
				switch {
				case d > 0:
					return math.Inf(1)
				case d < 0:
					return math.Inf(-1)
				}
				return 0.0
			case "bool":
				return d > 0
			case "one":
				return 1.0
			case "neg":
				return -1.0
			case "table":
				return cmpTable[(mod7(Key(x))*3+mod7(Key(y)))%7]
			case "negzero":
				return math.Copysign(0, -1)
			}
			return Undefined
		})
	case "vo":
		o := r.NewPlain("vo")
		done := false
		ret := r.Lit(c.Ret)
		o.putRaw("valueOf", &Prop{Value: r.NewFunc("valueOf", func(r *Realm, this Value, args []Value) Value {
			r.logf("vo")
			if !done {
				done = true
				r.Mut(c.mutName(), c.Arg)
			}
			return ret
		}), W: true, E: true, C: true})
		return o
	}
	panic("arrmodel: bad catalogue family " + c.Fam)
}

func (r *Realm) installAccessorPool() {
	r.Pool["G1"] = r.NewFunc("G1", func(r *Realm, this Value, args []Value) Value { r.logf("G1"); return "g1" })
	r.Pool["G2"] = r.NewFunc("G2", func(r *Realm, this Value, args []Value) Value {
		if o, ok := this.(*Obj); ok && o == r.Recv {
			return "g2a"
		}
		return "g2o"
	})
	r.Pool["GT"] = r.NewFunc("GT", func(r *Realm, this Value, args []Value) Value { panic(&Throw{V: r.Thrown}) })
	r.Pool["S1f"] = r.NewFunc("S1f", func(r *Realm, this Value, args []Value) Value {
		r.logf("S1:" + r.Render(arg(args, 0), 1))
		return Undefined
	})
}
