// Package arrmodel is a reference model of the ECMAScript Array exotic object and of the generic
// Array.prototype / Array.from / Array.of algorithms, written from ECMA-262 (2023) over a small object
// model: own properties keyed by string (with canonical array-index test), data/accessor descriptors,
// prototype chain (Array.prototype / Object.prototype may carry indexed properties), ArraySetLength with
// non-configurable elements and non-writable length, extensibility, freeze/seal.  Nothing here is derived
// from goja's code.  The catalogue of callbacks/comparators (catalogue.go) gives every callback a JS text
// and a Go twin; Prelude is the JS side of the renderer whose Go side is render.go.
package arrmodel

import (
	"math"
	"strconv"
	"strings"
)

// Value is one of: Undef, NullT, bool, float64, string, *Obj.
type Value interface{}

type Undef struct{}
type NullT struct{}

var (
	Undefined Value = Undef{}
	Null      Value = NullT{}
)

func IsUndef(v Value) bool { _, ok := v.(Undef); return ok || v == nil }
func IsNull(v Value) bool  { _, ok := v.(NullT); return ok }

// Throw is the panic payload of an abrupt completion.
type Throw struct{ V Value }

const (
	MaxSafe   = 9007199254740991.0 // 2^53-1
	MaxUint32 = 4294967295.0
)

// NumToString implements Number::toString(x, 10).
func NumToString(f float64) string {
	switch {
	case f != f:
		return "NaN"
	case f == 0:
		return "0"
	case math.IsInf(f, 1):
		return "Infinity"
	case math.IsInf(f, -1):
		return "-Infinity"
	case f < 0:
		return "-" + NumToString(-f)
	}
	s := strconv.FormatFloat(f, 'e', -1, 64) // d.ddde±xx, shortest round-trip digits
	mant, exps, _ := strings.Cut(s, "e")
	e, _ := strconv.Atoi(exps)
	ds := strings.Replace(mant, ".", "", 1)
	k := len(ds)
	n := e + 1
	switch {
	case k <= n && n <= 21:
		return ds + strings.Repeat("0", n-k)
	case 0 < n && n <= 21:
		return ds[:n] + "." + ds[n:]
	case -6 < n && n <= 0:
		return "0." + strings.Repeat("0", -n) + ds
	}
	ee := n - 1
	sign := "+"
	if ee < 0 {
		sign = "-"
		ee = -ee
	}
	if k == 1 {
		return ds + "e" + sign + strconv.Itoa(ee)
	}
	return ds[:1] + "." + ds[1:] + "e" + sign + strconv.Itoa(ee)
}

func isJSSpace(c byte) bool {
	return c == ' ' || c == '\t' || c == '\n' || c == '\r' || c == '\v' || c == '\f'
}

// StringToNumber implements StringToNumber for ASCII strings (the model's domain has no other strings).
func StringToNumber(s string) float64 {
	for len(s) > 0 && isJSSpace(s[0]) {
		s = s[1:]
	}
	for len(s) > 0 && isJSSpace(s[len(s)-1]) {
		s = s[:len(s)-1]
	}
	if s == "" {
		return 0
	}
	switch s {
	case "Infinity", "+Infinity":
		return math.Inf(1)
	case "-Infinity":
		return math.Inf(-1)
	}
	if len(s) > 2 && s[0] == '0' && (s[1] == 'x' || s[1] == 'X' || s[1] == 'o' || s[1] == 'O' || s[1] == 'b' || s[1] == 'B') {
		base := 16
		switch s[1] {
		case 'o', 'O':
			base = 8
		case 'b', 'B':
			base = 2
		}
		v, err := strconv.ParseUint(s[2:], base, 64)
		if err != nil {
			return math.NaN()
		}
		return float64(v)
	}
	// StrDecimalLiteral: [+-] digits [. digits] [e[+-]digits]
	i := 0
	if s[i] == '+' || s[i] == '-' {
		i++
	}
	nd := 0
	for i < len(s) && s[i] >= '0' && s[i] <= '9' {
		i++
		nd++
	}
	if i < len(s) && s[i] == '.' {
		i++
		for i < len(s) && s[i] >= '0' && s[i] <= '9' {
			i++
			nd++
		}
	}
	if nd == 0 {
		return math.NaN()
	}
	if i < len(s) && (s[i] == 'e' || s[i] == 'E') {
		i++
		if i < len(s) && (s[i] == '+' || s[i] == '-') {
			i++
		}
		ne := 0
		for i < len(s) && s[i] >= '0' && s[i] <= '9' {
			i++
			ne++
		}
		if ne == 0 {
			return math.NaN()
		}
	}
	if i != len(s) {
		return math.NaN()
	}
	v, err := strconv.ParseFloat(s, 64)
	if err != nil {
		if ne, ok := err.(*strconv.NumError); ok && ne.Err == strconv.ErrRange {
			return v
		}
		return math.NaN()
	}
	return v
}

func ToBoolean(v Value) bool {
	switch x := v.(type) {
	case nil, Undef, NullT:
		return false
	case bool:
		return x
	case float64:
		return !(x == 0 || x != x)
	case string:
		return x != ""
	}
	return true
}

func TypeOf(v Value) string {
	switch x := v.(type) {
	case nil, Undef:
		return "undefined"
	case NullT:
		return "object"
	case bool:
		return "boolean"
	case float64:
		return "number"
	case string:
		return "string"
	case *Obj:
		if x.Call != nil {
			return "function"
		}
	}
	return "object"
}

// ToIntegerOrInfinity of a number.
func ToIntegerOrInfinityNum(f float64) float64 {
	if f != f {
		return 0
	}
	if math.IsInf(f, 0) {
		return f
	}
	t := math.Trunc(f)
	if t == 0 {
		return 0
	}
	return t
}

func ToUint32Num(f float64) float64 {
	if f != f || math.IsInf(f, 0) {
		return 0
	}
	t := math.Trunc(f)
	m := math.Mod(t, 4294967296)
	if m < 0 {
		m += 4294967296
	}
	if m == 0 {
		return 0
	}
	return m
}

func StrictEquals(a, b Value) bool {
	switch x := a.(type) {
	case nil, Undef:
		return IsUndef(b)
	case NullT:
		return IsNull(b)
	case bool:
		y, ok := b.(bool)
		return ok && x == y
	case float64:
		y, ok := b.(float64)
		return ok && x == y
	case string:
		y, ok := b.(string)
		return ok && x == y
	case *Obj:
		y, ok := b.(*Obj)
		return ok && x.same(y)
	}
	return false
}

func SameValueZero(a, b Value) bool {
	if x, ok := a.(float64); ok {
		if y, ok := b.(float64); ok {
			return x == y || (x != x && y != y)
		}
		return false
	}
	return StrictEquals(a, b)
}

func SameValue(a, b Value) bool {
	if x, ok := a.(float64); ok {
		if y, ok := b.(float64); ok {
			if x != x && y != y {
				return true
			}
			return x == y && math.Signbit(x) == math.Signbit(y)
		}
		return false
	}
	return StrictEquals(a, b)
}

// IdxKey is the canonical property key of a non-negative integer below 2^53.
func IdxKey(i float64) string {
	if i >= 0 && i < idxKeyCacheSize {
		return idxKeyCache[int(i)]
	}
	return strconv.FormatInt(int64(i), 10)
}

const idxKeyCacheSize = 70002

var idxKeyCache = func() []string {
	c := make([]string, idxKeyCacheSize)
	for i := range c {
		c[i] = strconv.Itoa(i)
	}
	return c
}()

// ArrayIndex reports whether key is an array index (canonical numeric string, value <= 2^32-2).
func ArrayIndex(key string) (uint32, bool) {
	l := len(key)
	if l == 0 || l > 10 {
		return 0, false
	}
	if key[0] == '0' {
		return 0, l == 1
	}
	var n uint64
	for i := 0; i < l; i++ {
		c := key[i]
		if c < '0' || c > '9' {
			return 0, false
		}
		n = n*10 + uint64(c-'0')
	}
	if n >= 4294967295 {
		return 0, false
	}
	return uint32(n), true
}
