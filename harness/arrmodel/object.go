package arrmodel

import (
	"sort"
)

// Prop is an own property (data or accessor).
type Prop struct {
	Acc      bool
	Value    Value
	Get, Set *Obj // nil = undefined
	W, E, C  bool
}

// Desc is a (partial) property descriptor.
type Desc struct {
	HasValue, HasW, HasE, HasC, HasGet, HasSet bool
	Value                                      Value
	W, E, C                                    bool
	Get, Set                                   *Obj
}

func (d *Desc) isAccessor() bool { return d.HasGet || d.HasSet }
func (d *Desc) isData() bool     { return d.HasValue || d.HasW }
func (d *Desc) isGeneric() bool  { return !d.isAccessor() && !d.isData() }

func DataDesc(v Value, w, e, c bool) Desc {
	return Desc{HasValue: true, Value: v, HasW: true, W: w, HasE: true, E: e, HasC: true, C: c}
}

// Obj is a model object. Class selects the internal-method suite:
// "Array" (Array exotic), "GoSlice" (host object with goja's documented slice-wrapper semantics),
// anything else is ordinary ("Object", "Function", "Error", "ArrayIterator").
type Obj struct {
	Class string
	Proto *Obj
	Ext   bool
	props map[string]*Prop
	order []string // creation order of own keys that are not array indices

	Call    func(r *Realm, this Value, args []Value) Value
	Tag     string // rendering tag of pool objects / catalogue functions
	ErrName string // Class "Error": constructor name

	// GoSlice
	Elems   []Value
	IntElem bool // elements are Go ints ([]int wrapper): zero value 0 instead of null

	// ArrayIterator
	IterObj  *Obj
	IterIdx  float64
	IterKind string
}

func (o *Obj) same(p *Obj) bool { return o == p }

func newObj(class string, proto *Obj) *Obj {
	return &Obj{Class: class, Proto: proto, Ext: true, props: map[string]*Prop{}}
}

func (o *Obj) putRaw(key string, p *Prop) {
	if _, ok := o.props[key]; !ok {
		if _, isIdx := ArrayIndex(key); !isIdx {
			o.order = append(o.order, key)
		}
	}
	o.props[key] = p
}

func (o *Obj) removeRaw(key string) {
	if _, ok := o.props[key]; !ok {
		return
	}
	delete(o.props, key)
	if _, isIdx := ArrayIndex(key); !isIdx {
		for i, k := range o.order {
			if k == key {
				o.order = append(o.order[:i:i], o.order[i+1:]...)
				break
			}
		}
	}
}

// OwnIndexKeys returns the own array-index keys in ascending order.
func (o *Obj) OwnIndexKeys() []uint32 {
	if o.Class == "GoSlice" {
		ks := make([]uint32, len(o.Elems))
		for i := range ks {
			ks[i] = uint32(i)
		}
		return ks
	}
	ks := make([]uint32, 0, len(o.props))
	for k := range o.props {
		if i, ok := ArrayIndex(k); ok {
			ks = append(ks, i)
		}
	}
	sort.Slice(ks, func(i, j int) bool { return ks[i] < ks[j] })
	return ks
}

// OwnStringKeys returns the own non-index string keys in creation order.
func (o *Obj) OwnStringKeys() []string {
	if o.Class == "GoSlice" {
		return nil
	}
	return append([]string(nil), o.order...)
}

// ---- internal methods ----

func (r *Realm) GetOwnProperty(o *Obj, key string) *Prop {
	if o.Class == "GoSlice" {
		if i, ok := ArrayIndex(key); ok {
			if int(i) < len(o.Elems) {
				return &Prop{Value: o.Elems[i], W: true, E: true, C: false}
			}
			return nil
		}
		if key == "length" {
			return &Prop{Value: float64(len(o.Elems)), W: true}
		}
		return nil
	}
	return o.props[key]
}

func (r *Realm) DefineOwnProperty(o *Obj, key string, d Desc) bool {
	switch o.Class {
	case "Array":
		return r.arrayDefineOwnProperty(o, key, d)
	case "GoSlice":
		return r.hostDefine(o, key, d)
	}
	return r.ordinaryDefineOwnProperty(o, key, d)
}

func (r *Realm) ordinaryDefineOwnProperty(o *Obj, key string, d Desc) bool {
	cur := o.props[key]
	return validateAndApply(o, key, o.Ext, d, cur)
}

func sameFn(a, b *Obj) bool { return a == b }

func validateAndApply(o *Obj, key string, extensible bool, d Desc, cur *Prop) bool {
	if cur == nil {
		if !extensible {
			return false
		}
		p := &Prop{}
		if d.isAccessor() {
			p.Acc = true
			p.Get, p.Set = d.Get, d.Set
		} else {
			p.Value = Undefined
			if d.HasValue {
				p.Value = d.Value
			}
			p.W = d.HasW && d.W
		}
		p.E = d.HasE && d.E
		p.C = d.HasC && d.C
		o.putRaw(key, p)
		return true
	}
	if !d.HasValue && !d.HasW && !d.HasE && !d.HasC && !d.HasGet && !d.HasSet {
		return true
	}
	if !cur.C {
		if d.HasC && d.C {
			return false
		}
		if d.HasE && d.E != cur.E {
			return false
		}
		if !d.isGeneric() && d.isAccessor() != cur.Acc {
			return false
		}
		if cur.Acc {
			if d.HasGet && !sameFn(d.Get, cur.Get) {
				return false
			}
			if d.HasSet && !sameFn(d.Set, cur.Set) {
				return false
			}
		} else if !cur.W {
			if d.HasW && d.W {
				return false
			}
			if d.HasValue && !SameValue(d.Value, cur.Value) {
				return false
			}
		}
	}
	if !cur.Acc && d.isAccessor() {
		np := &Prop{Acc: true, Get: d.Get, Set: d.Set, E: cur.E, C: cur.C}
		if d.HasE {
			np.E = d.E
		}
		if d.HasC {
			np.C = d.C
		}
		o.props[key] = np
	} else if cur.Acc && d.isData() {
		np := &Prop{Value: Undefined, E: cur.E, C: cur.C}
		if d.HasValue {
			np.Value = d.Value
		}
		np.W = d.HasW && d.W
		if d.HasE {
			np.E = d.E
		}
		if d.HasC {
			np.C = d.C
		}
		o.props[key] = np
	} else {
		if d.HasValue {
			cur.Value = d.Value
		}
		if d.HasW {
			cur.W = d.W
		}
		if d.HasGet {
			cur.Get = d.Get
		}
		if d.HasSet {
			cur.Set = d.Set
		}
		if d.HasE {
			cur.E = d.E
		}
		if d.HasC {
			cur.C = d.C
		}
	}
	return true
}

// arrayDefineOwnProperty: ECMA-262 10.4.2.1
func (r *Realm) arrayDefineOwnProperty(a *Obj, key string, d Desc) bool {
	if key == "length" {
		return r.arraySetLength(a, d)
	}
	if index, ok := ArrayIndex(key); ok {
		lengthDesc := a.props["length"]
		length := lengthDesc.Value.(float64)
		if float64(index) >= length && !lengthDesc.W {
			return false
		}
		if !r.ordinaryDefineOwnProperty(a, key, d) {
			return false
		}
		if float64(index) >= length {
			lengthDesc.Value = float64(index) + 1
		}
		return true
	}
	return r.ordinaryDefineOwnProperty(a, key, d)
}

// arraySetLength: ECMA-262 10.4.2.4
func (r *Realm) arraySetLength(a *Obj, d Desc) bool {
	if !d.HasValue {
		return r.ordinaryDefineOwnProperty(a, "length", d)
	}
	newLenDesc := d
	newLen := ToUint32Num(r.ToNumber(d.Value))
	numberLen := r.ToNumber(d.Value)
	if !SameValueZero(newLen, numberLen) {
		r.ThrowError("RangeError")
	}
	newLenDesc.Value = newLen
	oldLenDesc := a.props["length"]
	oldLen := oldLenDesc.Value.(float64)
	if newLen >= oldLen {
		return r.ordinaryDefineOwnProperty(a, "length", newLenDesc)
	}
	if !oldLenDesc.W {
		return false
	}
	newWritable := true
	if newLenDesc.HasW && !newLenDesc.W {
		newWritable = false
		newLenDesc.W = true
	}
	if !r.ordinaryDefineOwnProperty(a, "length", newLenDesc) {
		return false
	}
	keys := a.OwnIndexKeys()
	for i := len(keys) - 1; i >= 0; i-- {
		k := keys[i]
		if float64(k) < newLen {
			break
		}
		if !r.Delete(a, IdxKey(float64(k))) {
			nd := newLenDesc
			nd.Value = float64(k) + 1
			if !newWritable {
				nd.HasW, nd.W = true, false
			}
			r.ordinaryDefineOwnProperty(a, "length", nd)
			return false
		}
	}
	if !newWritable {
		r.ordinaryDefineOwnProperty(a, "length", Desc{HasW: true, W: false})
	}
	return true
}

// host (Go slice wrapper) semantics, from goja's documentation of ToValue for slices: no holes, every index below
// length is an own writable enumerable property, deleting sets the zero value, writing past the end grows the slice.
func (r *Realm) hostConv(o *Obj, v Value) Value {
	if o.IntElem {
		return v
	}
	if IsUndef(v) {
		return Null
	}
	return v
}

func (r *Realm) hostZero(o *Obj) Value {
	if o.IntElem {
		return 0.0
	}
	return Null
}

func (r *Realm) hostPut(o *Obj, i int, v Value) {
	for len(o.Elems) <= i {
		o.Elems = append(o.Elems, r.hostZero(o))
	}
	o.Elems[i] = r.hostConv(o, v)
}

func (r *Realm) hostSetLength(o *Obj, n int) {
	for len(o.Elems) < n {
		o.Elems = append(o.Elems, r.hostZero(o))
	}
	o.Elems = o.Elems[:n]
}

func (r *Realm) hostDefine(o *Obj, key string, d Desc) bool {
	if i, ok := ArrayIndex(key); ok {
		if d.isAccessor() || (d.HasW && !d.W) || (d.HasC && d.C) {
			return false
		}
		v := Value(Undefined)
		if d.HasValue {
			v = d.Value
		}
		r.hostPut(o, int(i), v)
		return true
	}
	return false
}

func (r *Realm) Get(o *Obj, key string, receiver Value) Value {
	for {
		p := r.GetOwnProperty(o, key)
		if p != nil {
			if !p.Acc {
				return p.Value
			}
			if p.Get == nil {
				return Undefined
			}
			return r.Call(p.Get, receiver, nil)
		}
		if o.Proto == nil {
			return Undefined
		}
		o = o.Proto
	}
}

// GetV is Get(O, P) with O as receiver.
func (r *Realm) GetV(o *Obj, key string) Value { return r.Get(o, key, o) }

func (r *Realm) Set(o *Obj, key string, v Value, receiver Value) bool {
	if o.Class == "GoSlice" {
		return r.hostSet(o, key, v, receiver)
	}
	own := r.GetOwnProperty(o, key)
	return r.ordinarySetWithOwnDescriptor(o, key, v, receiver, own)
}

func (r *Realm) ordinarySetWithOwnDescriptor(o *Obj, key string, v Value, receiver Value, own *Prop) bool {
	if own == nil {
		if o.Proto != nil {
			return r.Set(o.Proto, key, v, receiver)
		}
		own = &Prop{Value: Undefined, W: true, E: true, C: true}
	}
	if !own.Acc {
		if !own.W {
			return false
		}
		recv, ok := receiver.(*Obj)
		if !ok {
			return false
		}
		existing := r.GetOwnProperty(recv, key)
		if existing != nil {
			if existing.Acc || !existing.W {
				return false
			}
			return r.DefineOwnProperty(recv, key, Desc{HasValue: true, Value: v})
		}
		return r.DefineOwnProperty(recv, key, DataDesc(v, true, true, true))
	}
	if own.Set == nil {
		return false
	}
	r.Call(own.Set, receiver, []Value{v})
	return true
}

func (r *Realm) hostSet(o *Obj, key string, v Value, receiver Value) bool {
	i, isIdx := ArrayIndex(key)
	if isIdx && int(i) < len(o.Elems) {
		r.hostPut(o, int(i), v)
		return true
	}
	if key == "length" {
		n := ToUint32Num(r.ToNumber(v))
		if !SameValueZero(n, r.ToNumber(v)) {
			r.ThrowError("RangeError")
		}
		r.hostSetLength(o, int(n))
		return true
	}
	// not an own property: the prototype chain may intercept (setter / read-only data property)
	for p := o.Proto; p != nil; p = p.Proto {
		if pp := r.GetOwnProperty(p, key); pp != nil {
			if pp.Acc {
				if pp.Set == nil {
					return false
				}
				r.Call(pp.Set, receiver, []Value{v})
				return true
			}
			if !pp.W {
				return false
			}
			break
		}
	}
	if isIdx {
		r.hostPut(o, int(i), v)
		return true
	}
	return false
}

func (r *Realm) Delete(o *Obj, key string) bool {
	if o.Class == "GoSlice" {
		if i, ok := ArrayIndex(key); ok {
			if int(i) < len(o.Elems) {
				o.Elems[i] = r.hostZero(o)
			}
			return true
		}
		return key != "length"
	}
	p := o.props[key]
	if p == nil {
		return true
	}
	if p.C {
		o.removeRaw(key)
		return true
	}
	return false
}

func (r *Realm) HasProperty(o *Obj, key string) bool {
	for ; o != nil; o = o.Proto {
		if r.GetOwnProperty(o, key) != nil {
			return true
		}
	}
	return false
}

func (r *Realm) HasOwnProperty(o *Obj, key string) bool { return r.GetOwnProperty(o, key) != nil }

// OwnPropertyKeys: array indices ascending, then the other string keys in creation order.
func (r *Realm) OwnPropertyKeys(o *Obj) []string {
	var ks []string
	for _, i := range o.OwnIndexKeys() {
		ks = append(ks, IdxKey(float64(i)))
	}
	if o.Class == "GoSlice" {
		return ks
	}
	return append(ks, o.order...)
}

func (r *Realm) PreventExtensions(o *Obj) bool { o.Ext = false; return true }

// ---- abstract operations ----

func (r *Realm) ThrowError(name string) {
	panic(&Throw{V: &Obj{Class: "Error", ErrName: name, Proto: r.ObjectProto, Ext: true, props: map[string]*Prop{}}})
}

func (r *Realm) ThrowType() { r.ThrowError("TypeError") }

func IsCallable(v Value) bool {
	o, ok := v.(*Obj)
	return ok && o.Call != nil
}

func (r *Realm) Call(f Value, this Value, args []Value) Value {
	fo, ok := f.(*Obj)
	if !ok || fo.Call == nil {
		r.ThrowType()
	}
	v := fo.Call(r, this, args)
	if v == nil {
		return Undefined
	}
	return v
}

func (r *Realm) IsArray(v Value) bool {
	o, ok := v.(*Obj)
	return ok && (o.Class == "Array" || o.Class == "GoSlice")
}

func (r *Realm) ToPrimitive(v Value, hint string) Value {
	o, ok := v.(*Obj)
	if !ok {
		return v
	}
	names := []string{"valueOf", "toString"}
	if hint == "string" {
		names = []string{"toString", "valueOf"}
	}
	for _, n := range names {
		m := r.GetV(o, n)
		if IsCallable(m) {
			res := r.Call(m, o, nil)
			if _, isObj := res.(*Obj); !isObj {
				return res
			}
		}
	}
	r.ThrowType()
	return nil
}

func (r *Realm) ToNumber(v Value) float64 {
	switch x := v.(type) {
	case nil, Undef:
		return nan
	case NullT:
		return 0
	case bool:
		if x {
			return 1
		}
		return 0
	case float64:
		return x
	case string:
		return StringToNumber(x)
	}
	return r.ToNumber(r.ToPrimitive(v, "number"))
}

func (r *Realm) ToString(v Value) string {
	switch x := v.(type) {
	case nil, Undef:
		return "undefined"
	case NullT:
		return "null"
	case bool:
		if x {
			return "true"
		}
		return "false"
	case float64:
		return NumToString(x)
	case string:
		return x
	}
	return r.ToString(r.ToPrimitive(v, "string"))
}

func (r *Realm) ToIntegerOrInfinity(v Value) float64 { return ToIntegerOrInfinityNum(r.ToNumber(v)) }

func (r *Realm) ToLength(v Value) float64 {
	l := r.ToIntegerOrInfinity(v)
	if l <= 0 {
		return 0
	}
	if l > MaxSafe {
		return MaxSafe
	}
	return l
}

func (r *Realm) LengthOfArrayLike(o *Obj) float64 { return r.ToLength(r.GetV(o, "length")) }

func (r *Realm) CreateDataPropertyOrThrow(o *Obj, key string, v Value) {
	if !r.DefineOwnProperty(o, key, DataDesc(v, true, true, true)) {
		r.ThrowType()
	}
}

func (r *Realm) DefinePropertyOrThrow(o *Obj, key string, d Desc) {
	if !r.DefineOwnProperty(o, key, d) {
		r.ThrowType()
	}
}

func (r *Realm) DeletePropertyOrThrow(o *Obj, key string) {
	if !r.Delete(o, key) {
		r.ThrowType()
	}
}

// SetThrow is Set(O, P, V, true).
func (r *Realm) SetThrow(o *Obj, key string, v Value) {
	if !r.Set(o, key, v, o) {
		r.ThrowType()
	}
}

// ArrayCreate(length): RangeError above 2^32-1.
func (r *Realm) ArrayCreate(length float64) *Obj {
	if length > MaxUint32 {
		r.ThrowError("RangeError")
	}
	a := newObj("Array", r.ArrayProto)
	a.putRaw("length", &Prop{Value: length, W: true})
	return a
}

// ArraySpeciesCreate inside the model's domain (constructor / @@species are never overridden): a new Array of the
// given length for arrays (through `new Array(length)`), ArrayCreate(length) otherwise - both RangeError above 2^32-1.
func (r *Realm) ArraySpeciesCreate(original *Obj, length float64) *Obj {
	return r.ArrayCreate(length)
}

func (r *Realm) NewArrayFrom(vals []Value) *Obj {
	a := r.ArrayCreate(0)
	for i, v := range vals {
		r.CreateDataPropertyOrThrow(a, IdxKey(float64(i)), v)
	}
	return a
}

// SetIntegrityLevel: level "sealed" | "frozen".
func (r *Realm) SetIntegrityLevel(o *Obj, level string) bool {
	if !r.PreventExtensions(o) {
		return false
	}
	keys := r.OwnPropertyKeys(o)
	for _, k := range keys {
		if level == "sealed" {
			r.DefinePropertyOrThrow(o, k, Desc{HasC: true, C: false})
			continue
		}
		cur := r.GetOwnProperty(o, k)
		if cur == nil {
			continue
		}
		d := Desc{HasC: true, C: false}
		if !cur.Acc {
			d.HasW, d.W = true, false
		}
		r.DefinePropertyOrThrow(o, k, d)
	}
	return true
}

func (r *Realm) TestIntegrityLevel(o *Obj, level string) bool {
	if o.Ext {
		return false
	}
	for _, k := range r.OwnPropertyKeys(o) {
		cur := r.GetOwnProperty(o, k)
		if cur == nil {
			continue
		}
		if cur.C {
			return false
		}
		if level == "frozen" && !cur.Acc && cur.W {
			return false
		}
	}
	return true
}
