package arrmodel

import (
	"math"
	"strings"
)

// Methods is the list of Array.prototype methods the model implements (ECMA-262 2023, 23.1.3).
var Methods = []string{"at", "concat", "copyWithin", "entries", "every", "fill", "filter", "find", "findIndex", "findLast",
	"findLastIndex", "flat", "flatMap", "forEach", "includes", "indexOf", "join", "keys", "lastIndexOf", "map", "pop", "push",
	"reduce", "reduceRight", "reverse", "shift", "slice", "some", "sort", "splice", "toReversed", "toSorted", "toSpliced",
	"toString", "unshift", "values", "with"}

// relIndex turns a relative index (already ToIntegerOrInfinity'd) into an absolute one clamped to [0,len].
func relIndex(rel, length float64) float64 {
	if rel == math.Inf(-1) {
		return 0
	}
	if rel < 0 {
		return math.Max(length+rel, 0)
	}
	return math.Min(rel, length)
}

func (r *Realm) callable(v Value) *Obj {
	if !IsCallable(v) {
		r.ThrowType()
	}
	return v.(*Obj)
}

// Method runs Array.prototype[name] with this = o.
func (r *Realm) Method(name string, o *Obj, args []Value) Value {
	switch name {
	case "at":
		length := r.LengthOfArrayLike(o)
		rel := r.ToIntegerOrInfinity(arg(args, 0))
		k := rel
		if rel < 0 {
			k = length + rel
		}
		if k < 0 || k >= length {
			return Undefined
		}
		return r.GetV(o, IdxKey(k))

	case "concat":
		a := r.ArraySpeciesCreate(o, 0)
		n := 0.0
		items := append([]Value{o}, args...)
		for _, e := range items {
			if eo, ok := e.(*Obj); ok && r.isConcatSpreadable(eo) {
				length := r.LengthOfArrayLike(eo)
				if n+length > MaxSafe {
					r.ThrowType()
				}
				for k := 0.0; k < length; k++ {
					p := IdxKey(k)
					if r.HasProperty(eo, p) {
						r.CreateDataPropertyOrThrow(a, IdxKey(n), r.GetV(eo, p))
					}
					n++
				}
			} else {
				if n >= MaxSafe {
					r.ThrowType()
				}
				r.CreateDataPropertyOrThrow(a, IdxKey(n), e)
				n++
			}
		}
		r.SetThrow(a, "length", n)
		return a

	case "copyWithin":
		length := r.LengthOfArrayLike(o)
		to := relIndex(r.ToIntegerOrInfinity(arg(args, 0)), length)
		from := relIndex(r.ToIntegerOrInfinity(arg(args, 1)), length)
		relEnd := length
		if !IsUndef(arg(args, 2)) {
			relEnd = r.ToIntegerOrInfinity(arg(args, 2))
		}
		final := relIndex(relEnd, length)
		count := math.Min(final-from, length-to)
		dir := 1.0
		if from < to && to < from+count {
			dir = -1
			from += count - 1
			to += count - 1
		}
		for count > 0 {
			fk, tk := IdxKey(from), IdxKey(to)
			if r.HasProperty(o, fk) {
				r.SetThrow(o, tk, r.GetV(o, fk))
			} else {
				r.DeletePropertyOrThrow(o, tk)
			}
			from += dir
			to += dir
			count--
		}
		return o

	case "entries", "keys", "values":
		it := newObj("ArrayIterator", r.ObjectProto)
		it.IterObj = o
		it.IterKind = name
		return it

	case "every", "some", "forEach":
		length := r.LengthOfArrayLike(o)
		cb := r.callable(arg(args, 0))
		for k := 0.0; k < length; k++ {
			p := IdxKey(k)
			if r.HasProperty(o, p) {
				v := r.GetV(o, p)
				res := ToBoolean(r.Call(cb, arg(args, 1), []Value{v, k, o}))
				if name == "every" && !res {
					return false
				}
				if name == "some" && res {
					return true
				}
			}
		}
		switch name {
		case "every":
			return true
		case "some":
			return false
		}
		return Undefined

	case "fill":
		length := r.LengthOfArrayLike(o)
		k := relIndex(r.ToIntegerOrInfinity(arg(args, 1)), length)
		relEnd := length
		if !IsUndef(arg(args, 2)) {
			relEnd = r.ToIntegerOrInfinity(arg(args, 2))
		}
		final := relIndex(relEnd, length)
		for ; k < final; k++ {
			r.SetThrow(o, IdxKey(k), arg(args, 0))
		}
		return o

	case "filter":
		length := r.LengthOfArrayLike(o)
		cb := r.callable(arg(args, 0))
		a := r.ArraySpeciesCreate(o, 0)
		to := 0.0
		for k := 0.0; k < length; k++ {
			p := IdxKey(k)
			if r.HasProperty(o, p) {
				v := r.GetV(o, p)
				if ToBoolean(r.Call(cb, arg(args, 1), []Value{v, k, o})) {
					r.CreateDataPropertyOrThrow(a, IdxKey(to), v)
					to++
				}
			}
		}
		return a

	case "find", "findIndex":
		length := r.LengthOfArrayLike(o)
		cb := r.callable(arg(args, 0))
		for k := 0.0; k < length; k++ {
			v := r.GetV(o, IdxKey(k))
			if ToBoolean(r.Call(cb, arg(args, 1), []Value{v, k, o})) {
				if name == "find" {
					return v
				}
				return k
			}
		}
		if name == "find" {
			return Undefined
		}
		return -1.0

	case "findLast", "findLastIndex":
		length := r.LengthOfArrayLike(o)
		cb := r.callable(arg(args, 0))
		for k := length - 1; k >= 0; k-- {
			v := r.GetV(o, IdxKey(k))
			if ToBoolean(r.Call(cb, arg(args, 1), []Value{v, k, o})) {
				if name == "findLast" {
					return v
				}
				return k
			}
		}
		if name == "findLast" {
			return Undefined
		}
		return -1.0

	case "flat":
		length := r.LengthOfArrayLike(o)
		depth := 1.0
		if !IsUndef(arg(args, 0)) {
			depth = r.ToIntegerOrInfinity(arg(args, 0))
			if depth < 0 {
				depth = 0
			}
		}
		a := r.ArraySpeciesCreate(o, 0)
		r.flattenIntoArray(a, o, length, 0, depth, nil, nil)
		return a

	case "flatMap":
		length := r.LengthOfArrayLike(o)
		cb := r.callable(arg(args, 0))
		a := r.ArraySpeciesCreate(o, 0)
		r.flattenIntoArray(a, o, length, 0, 1, cb, arg(args, 1))
		return a

	case "includes":
		length := r.LengthOfArrayLike(o)
		if length == 0 {
			return false
		}
		n := r.ToIntegerOrInfinity(arg(args, 1))
		if n == math.Inf(1) {
			return false
		}
		k := relIndex(n, length)
		for ; k < length; k++ {
			if SameValueZero(r.GetV(o, IdxKey(k)), arg(args, 0)) {
				return true
			}
		}
		return false

	case "indexOf":
		length := r.LengthOfArrayLike(o)
		if length == 0 {
			return -1.0
		}
		n := r.ToIntegerOrInfinity(arg(args, 1))
		if n == math.Inf(1) {
			return -1.0
		}
		k := relIndex(n, length)
		for ; k < length; k++ {
			p := IdxKey(k)
			if r.HasProperty(o, p) && StrictEquals(r.GetV(o, p), arg(args, 0)) {
				return k
			}
		}
		return -1.0

	case "join":
		length := r.LengthOfArrayLike(o)
		sep := ","
		if !IsUndef(arg(args, 0)) {
			sep = r.ToString(arg(args, 0))
		}
		var b strings.Builder
		for k := 0.0; k < length; k++ {
			if k > 0 {
				b.WriteString(sep)
			}
			e := r.GetV(o, IdxKey(k))
			if !IsUndef(e) && !IsNull(e) {
				b.WriteString(r.ToString(e))
			}
		}
		return b.String()

	case "lastIndexOf":
		length := r.LengthOfArrayLike(o)
		if length == 0 {
			return -1.0
		}
		n := length - 1
		if len(args) > 1 {
			n = r.ToIntegerOrInfinity(args[1])
		}
		if n == math.Inf(-1) {
			return -1.0
		}
		k := 0.0
		if n >= 0 {
			k = math.Min(n, length-1)
		} else {
			k = length + n
		}
		for ; k >= 0; k-- {
			p := IdxKey(k)
			if r.HasProperty(o, p) && StrictEquals(r.GetV(o, p), arg(args, 0)) {
				return k
			}
		}
		return -1.0

	case "map":
		length := r.LengthOfArrayLike(o)
		cb := r.callable(arg(args, 0))
		a := r.ArraySpeciesCreate(o, length)
		for k := 0.0; k < length; k++ {
			p := IdxKey(k)
			if r.HasProperty(o, p) {
				v := r.GetV(o, p)
				r.CreateDataPropertyOrThrow(a, p, r.Call(cb, arg(args, 1), []Value{v, k, o}))
			}
		}
		return a

	case "pop":
		length := r.LengthOfArrayLike(o)
		if length == 0 {
			r.SetThrow(o, "length", 0.0)
			return Undefined
		}
		p := IdxKey(length - 1)
		e := r.GetV(o, p)
		r.DeletePropertyOrThrow(o, p)
		r.SetThrow(o, "length", length-1)
		return e

	case "push":
		length := r.LengthOfArrayLike(o)
		if length+float64(len(args)) > MaxSafe {
			r.ThrowType()
		}
		for _, e := range args {
			r.SetThrow(o, IdxKey(length), e)
			length++
		}
		r.SetThrow(o, "length", length)
		return length

	case "reduce":
		length := r.LengthOfArrayLike(o)
		cb := r.callable(arg(args, 0))
		if length == 0 && len(args) < 2 {
			r.ThrowType()
		}
		k := 0.0
		var acc Value
		if len(args) >= 2 {
			acc = args[1]
		} else {
			present := false
			for !present && k < length {
				p := IdxKey(k)
				present = r.HasProperty(o, p)
				if present {
					acc = r.GetV(o, p)
				}
				k++
			}
			if !present {
				r.ThrowType()
			}
		}
		for ; k < length; k++ {
			p := IdxKey(k)
			if r.HasProperty(o, p) {
				acc = r.Call(cb, Undefined, []Value{acc, r.GetV(o, p), k, o})
			}
		}
		return acc

	case "reduceRight":
		length := r.LengthOfArrayLike(o)
		cb := r.callable(arg(args, 0))
		if length == 0 && len(args) < 2 {
			r.ThrowType()
		}
		k := length - 1
		var acc Value
		if len(args) >= 2 {
			acc = args[1]
		} else {
			present := false
			for !present && k >= 0 {
				p := IdxKey(k)
				present = r.HasProperty(o, p)
				if present {
					acc = r.GetV(o, p)
				}
				k--
			}
			if !present {
				r.ThrowType()
			}
		}
		for ; k >= 0; k-- {
			p := IdxKey(k)
			if r.HasProperty(o, p) {
				acc = r.Call(cb, Undefined, []Value{acc, r.GetV(o, p), k, o})
			}
		}
		return acc

	case "reverse":
		length := r.LengthOfArrayLike(o)
		middle := math.Floor(length / 2)
		for lower := 0.0; lower != middle; lower++ {
			upper := length - lower - 1
			lp, up := IdxKey(lower), IdxKey(upper)
			var lv, uv Value
			lowerExists := r.HasProperty(o, lp)
			if lowerExists {
				lv = r.GetV(o, lp)
			}
			upperExists := r.HasProperty(o, up)
			if upperExists {
				uv = r.GetV(o, up)
			}
			switch {
			case lowerExists && upperExists:
				r.SetThrow(o, lp, uv)
				r.SetThrow(o, up, lv)
			case !lowerExists && upperExists:
				r.SetThrow(o, lp, uv)
				r.DeletePropertyOrThrow(o, up)
			case lowerExists && !upperExists:
				r.DeletePropertyOrThrow(o, lp)
				r.SetThrow(o, up, lv)
			}
		}
		return o

	case "shift":
		length := r.LengthOfArrayLike(o)
		if length == 0 {
			r.SetThrow(o, "length", 0.0)
			return Undefined
		}
		first := r.GetV(o, "0")
		for k := 1.0; k < length; k++ {
			from, to := IdxKey(k), IdxKey(k-1)
			if r.HasProperty(o, from) {
				r.SetThrow(o, to, r.GetV(o, from))
			} else {
				r.DeletePropertyOrThrow(o, to)
			}
		}
		r.DeletePropertyOrThrow(o, IdxKey(length-1))
		r.SetThrow(o, "length", length-1)
		return first

	case "slice":
		length := r.LengthOfArrayLike(o)
		k := relIndex(r.ToIntegerOrInfinity(arg(args, 0)), length)
		relEnd := length
		if !IsUndef(arg(args, 1)) {
			relEnd = r.ToIntegerOrInfinity(arg(args, 1))
		}
		final := relIndex(relEnd, length)
		count := math.Max(final-k, 0)
		a := r.ArraySpeciesCreate(o, count)
		n := 0.0
		for ; k < final; k++ {
			p := IdxKey(k)
			if r.HasProperty(o, p) {
				r.CreateDataPropertyOrThrow(a, IdxKey(n), r.GetV(o, p))
			}
			n++
		}
		r.SetThrow(a, "length", n)
		return a

	case "sort":
		cmp := arg(args, 0)
		if !IsUndef(cmp) && !IsCallable(cmp) {
			r.ThrowType()
		}
		length := r.LengthOfArrayLike(o)
		sorted := r.sortIndexedProperties(o, length, cmp, true)
		j := 0.0
		for _, v := range sorted {
			r.SetThrow(o, IdxKey(j), v)
			j++
		}
		for ; j < length; j++ {
			r.DeletePropertyOrThrow(o, IdxKey(j))
		}
		return o

	case "splice":
		length := r.LengthOfArrayLike(o)
		start := relIndex(r.ToIntegerOrInfinity(arg(args, 0)), length)
		itemCount := math.Max(float64(len(args)-2), 0)
		var delCount float64
		switch len(args) {
		case 0:
			delCount = 0
		case 1:
			delCount = length - start
		default:
			dc := r.ToIntegerOrInfinity(args[1])
			delCount = math.Min(math.Max(dc, 0), length-start)
		}
		if (length-delCount)+itemCount > MaxSafe { // this association keeps the float arithmetic exact
			r.ThrowType()
		}
		a := r.ArraySpeciesCreate(o, delCount)
		for k := 0.0; k < delCount; k++ {
			from := IdxKey(start + k)
			if r.HasProperty(o, from) {
				r.CreateDataPropertyOrThrow(a, IdxKey(k), r.GetV(o, from))
			}
		}
		r.SetThrow(a, "length", delCount)
		if itemCount < delCount {
			for k := start; k < length-delCount; k++ {
				from, to := IdxKey(k+delCount), IdxKey(k+itemCount)
				if r.HasProperty(o, from) {
					r.SetThrow(o, to, r.GetV(o, from))
				} else {
					r.DeletePropertyOrThrow(o, to)
				}
			}
			for k := length; k > length-delCount+itemCount; k-- {
				r.DeletePropertyOrThrow(o, IdxKey(k-1))
			}
		} else if itemCount > delCount {
			for k := length - delCount; k > start; k-- {
				from, to := IdxKey(k+delCount-1), IdxKey(k+itemCount-1)
				if r.HasProperty(o, from) {
					r.SetThrow(o, to, r.GetV(o, from))
				} else {
					r.DeletePropertyOrThrow(o, to)
				}
			}
		}
		k := start
		if len(args) > 2 {
			for _, e := range args[2:] {
				r.SetThrow(o, IdxKey(k), e)
				k++
			}
		}
		r.SetThrow(o, "length", (length-delCount)+itemCount)
		return a

	case "toReversed":
		length := r.LengthOfArrayLike(o)
		a := r.ArrayCreate(length)
		for k := 0.0; k < length; k++ {
			r.CreateDataPropertyOrThrow(a, IdxKey(k), r.GetV(o, IdxKey(length-k-1)))
		}
		return a

	case "toSorted":
		cmp := arg(args, 0)
		if !IsUndef(cmp) && !IsCallable(cmp) {
			r.ThrowType()
		}
		length := r.LengthOfArrayLike(o)
		a := r.ArrayCreate(length)
		sorted := r.sortIndexedProperties(o, length, cmp, false)
		for j, v := range sorted {
			r.CreateDataPropertyOrThrow(a, IdxKey(float64(j)), v)
		}
		return a

	case "toSpliced":
		length := r.LengthOfArrayLike(o)
		start := relIndex(r.ToIntegerOrInfinity(arg(args, 0)), length)
		insertCount := math.Max(float64(len(args)-2), 0)
		var skip float64
		switch len(args) {
		case 0:
			skip = 0
		case 1:
			skip = length - start
		default:
			skip = math.Min(math.Max(r.ToIntegerOrInfinity(args[1]), 0), length-start)
		}
		newLen := (length - skip) + insertCount
		if newLen > MaxSafe {
			r.ThrowType()
		}
		a := r.ArrayCreate(newLen)
		i := 0.0
		rr := start + skip
		for ; i < start; i++ {
			r.CreateDataPropertyOrThrow(a, IdxKey(i), r.GetV(o, IdxKey(i)))
		}
		if len(args) > 2 {
			for _, e := range args[2:] {
				r.CreateDataPropertyOrThrow(a, IdxKey(i), e)
				i++
			}
		}
		for ; i < newLen; i++ {
			r.CreateDataPropertyOrThrow(a, IdxKey(i), r.GetV(o, IdxKey(rr)))
			rr++
		}
		return a

	case "toString":
		f := r.GetV(o, "join")
		if !IsCallable(f) {
			f = r.objToString
		}
		return r.Call(f, o, nil)

	case "unshift":
		length := r.LengthOfArrayLike(o)
		argCount := float64(len(args))
		if argCount > 0 {
			if length+argCount > MaxSafe {
				r.ThrowType()
			}
			for k := length; k > 0; k-- {
				from, to := IdxKey(k-1), IdxKey(k+argCount-1)
				if r.HasProperty(o, from) {
					r.SetThrow(o, to, r.GetV(o, from))
				} else {
					r.DeletePropertyOrThrow(o, to)
				}
			}
			for j, e := range args {
				r.SetThrow(o, IdxKey(float64(j)), e)
			}
		}
		r.SetThrow(o, "length", length+argCount)
		return length + argCount

	case "with":
		length := r.LengthOfArrayLike(o)
		rel := r.ToIntegerOrInfinity(arg(args, 0))
		actual := rel
		if rel < 0 {
			actual = length + rel
		}
		if actual >= length || actual < 0 {
			r.ThrowError("RangeError")
		}
		a := r.ArrayCreate(length)
		for k := 0.0; k < length; k++ {
			var v Value
			if k == actual {
				v = arg(args, 1)
			} else {
				v = r.GetV(o, IdxKey(k))
			}
			r.CreateDataPropertyOrThrow(a, IdxKey(k), v)
		}
		return a
	}
	panic("arrmodel: unknown method " + name)
}

func (r *Realm) isConcatSpreadable(o *Obj) bool {
	s := r.GetV(o, SymSpreadable)
	if !IsUndef(s) {
		return ToBoolean(s)
	}
	return r.IsArray(o)
}

func (r *Realm) flattenIntoArray(target, source *Obj, sourceLen, start, depth float64, mapper *Obj, thisArg Value) float64 {
	targetIndex := start
	for si := 0.0; si < sourceLen; si++ {
		p := IdxKey(si)
		if !r.HasProperty(source, p) {
			continue
		}
		element := r.GetV(source, p)
		if mapper != nil {
			element = r.Call(mapper, thisArg, []Value{element, si, source})
		}
		if depth > 0 && r.IsArray(element) {
			eo := element.(*Obj)
			nd := depth
			if !math.IsInf(depth, 1) {
				nd = depth - 1
			}
			targetIndex = r.flattenIntoArray(target, eo, r.LengthOfArrayLike(eo), targetIndex, nd, nil, nil)
		} else {
			if targetIndex >= MaxSafe {
				r.ThrowType()
			}
			r.CreateDataPropertyOrThrow(target, IdxKey(targetIndex), element)
			targetIndex++
		}
	}
	return targetIndex
}

// IterNext is %ArrayIteratorPrototype%.next; returns (value, done).
func (r *Realm) IterNext(it *Obj) (Value, bool) {
	if it.IterObj == nil {
		return Undefined, true
	}
	length := r.LengthOfArrayLike(it.IterObj)
	idx := it.IterIdx
	if idx >= length {
		it.IterObj = nil
		return Undefined, true
	}
	it.IterIdx++
	switch it.IterKind {
	case "keys":
		return idx, false
	case "values":
		return r.GetV(it.IterObj, IdxKey(idx)), false
	}
	v := r.GetV(it.IterObj, IdxKey(idx))
	return r.NewArrayFrom([]Value{idx, v}), false
}

// ArrayFrom is Array.from(items, mapfn, thisArg) with this = %Array%. Arrays and Go slice wrappers inherit
// Array.prototype[@@iterator] (live ArrayIterator); plain array-likes take the array-like branch.
func (r *Realm) ArrayFrom(args []Value) Value {
	items := arg(args, 0)
	mapfn := arg(args, 1)
	mapping := !IsUndef(mapfn)
	if mapping && !IsCallable(mapfn) {
		r.ThrowType()
	}
	thisArg := arg(args, 2)
	src := r.toObject(items)
	if r.IsArray(src) { // inherits Array.prototype[@@iterator]: iterator protocol
		a := r.ArrayCreate(0)
		it := r.Method("values", src, nil).(*Obj)
		k := 0.0
		for {
			v, done := r.IterNext(it)
			if done {
				r.SetThrow(a, "length", k)
				return a
			}
			if mapping {
				v = r.Call(mapfn, thisArg, []Value{v, k})
			}
			r.CreateDataPropertyOrThrow(a, IdxKey(k), v)
			k++
		}
	}
	length := r.LengthOfArrayLike(src)
	a := r.ArrayCreate(length)
	for k := 0.0; k < length; k++ {
		v := r.GetV(src, IdxKey(k))
		if mapping {
			v = r.Call(mapfn, thisArg, []Value{v, k})
		}
		r.CreateDataPropertyOrThrow(a, IdxKey(k), v)
	}
	r.SetThrow(a, "length", length)
	return a
}

// ArrayOf is Array.of(...items) with this = %Array%.
func (r *Realm) ArrayOf(args []Value) Value {
	a := r.ArrayCreate(float64(len(args)))
	for k, v := range args {
		r.CreateDataPropertyOrThrow(a, IdxKey(float64(k)), v)
	}
	r.SetThrow(a, "length", float64(len(args)))
	return a
}
