// Package reref is a small backtracking matcher written from ECMA-262 §22.2.2 (Pattern Semantics) in continuation
// style.  It works on an abstract pattern tree (no parser: the C20 generator hands over its own tree) over UTF-16 code
// units, or over code points with the u flag.  It is the third opinion of check C20 (thorough tier): goja's two
// engines decide between themselves, reref tells which side deviates from the specification and catches a defect
// common to both.  It is deliberately plain and slow; a step budget bounds it.
package reref

import "unicode"

type Kind int

const (
	Char   Kind = iota // one character (code unit, or code point with u)
	Any                // .
	Class              // [...]
	Esc                // \d \D \w \W \s \S
	Assert             // ^ $ \b \B
	Group              // (...) (?:...) (?<n>...)
	Seq                // concatenation
	Alt                // disjunction
	Quant              // {min,max} greedy / lazy
)

type ClassItem struct {
	Lo, Hi rune
	Esc    byte // d D w W s S, or 0
}

type Node struct {
	Kind    Kind
	R       rune
	Esc     byte // Esc: d D w W s S; Assert: ^ $ b B
	Neg     bool
	Items   []ClassItem
	Capture bool
	Kids    []*Node
	Min     int
	Max     int // -1 = infinity
	Lazy    bool

	capIdx     int // Group: 1-based capture index, 0 = non-capturing
	parenIndex int // Quant: number of left capturing parentheses to the left of the atom
	parenCount int // Quant: number of capturing parentheses inside the atom
}

type Flags struct{ I, M, S, U bool }

type Prog struct {
	root  *Node
	f     Flags
	NCaps int // number of capture groups
}

// Compile numbers the capture groups (left parenthesis order) and records parenIndex/parenCount of every quantifier.
func Compile(root *Node, f Flags) *Prog {
	p := &Prog{root: root, f: f}
	var walk func(n *Node)
	walk = func(n *Node) {
		before := p.NCaps
		if n.Kind == Group && n.Capture {
			p.NCaps++
			n.capIdx = p.NCaps
		}
		if n.Kind == Quant {
			n.parenIndex = before
		}
		for _, k := range n.Kids {
			walk(k)
		}
		if n.Kind == Quant {
			n.parenCount = p.NCaps - before
		}
	}
	walk(root)
	return p
}

// state is the MatchState: endIndex and captures (start, end; -1 = undefined).
type state struct {
	end  int
	caps []int
}

type cont func(s state) bool

type machine struct {
	p      *Prog
	in     []rune
	budget *int
	dead   bool // budget exhausted
}

func isLineTerminator(r rune) bool { return r == '\n' || r == '\r' || r == 0x2028 || r == 0x2029 }

// WhiteSpace + LineTerminator (§22.2.2.9 CharacterClassEscape :: s)
func isSpace(r rune) bool {
	switch r {
	case 9, 10, 11, 12, 13, 32, 0xA0, 0x1680, 0x2028, 0x2029, 0x202F, 0x205F, 0x3000, 0xFEFF:
		return true
	}
	return r >= 0x2000 && r <= 0x200A
}

func isASCIIWord(r rune) bool {
	return r >= 'a' && r <= 'z' || r >= 'A' && r <= 'Z' || r >= '0' && r <= '9' || r == '_'
}

// canonicalize implements §22.2.2.7.3 Canonicalize(rer, ch).
func (p *Prog) canonicalize(ch rune) rune {
	if !p.f.I {
		return ch
	}
	if p.f.U {
		// simple case folding: the smallest member of the SimpleFold orbit stands for scf(ch) (two characters have
		// the same simple case folding iff they are in the same orbit; Turkic mappings are not in the orbits)
		m := ch
		for r := unicode.SimpleFold(ch); r != ch; r = unicode.SimpleFold(r) {
			if r < m {
				m = r
			}
		}
		return m
	}
	if ch >= 0xD800 && ch <= 0xDFFF {
		return ch
	}
	// toUppercase of a single code unit; a result that is not a single code unit leaves ch unchanged
	if specialUpper[ch] {
		return ch // full upper-casing gives several code units
	}
	u := unicode.ToUpper(ch)
	if u > 0xFFFF {
		return ch
	}
	if ch >= 128 && u < 128 {
		return ch
	}
	return u
}

// characters whose full toUpperCase is longer than one code unit (SpecialCasing.txt, unconditional): Canonicalize keeps them.
var specialUpper = map[rune]bool{0xDF: true, 0x149: true, 0x1F0: true, 0x390: true, 0x3B0: true, 0x587: true, 0x1E96: true, 0x1E97: true,
	0x1E98: true, 0x1E99: true, 0x1E9A: true, 0xFB00: true, 0xFB01: true, 0xFB02: true, 0xFB03: true, 0xFB04: true, 0xFB05: true, 0xFB06: true}

// wordCharacters (§22.2.2.9.2): the basic word characters plus, with u and i, every character whose canonical form is one.
func (p *Prog) isWordChar(r rune) bool {
	if isASCIIWord(r) {
		return true
	}
	if p.f.U && p.f.I {
		c := p.canonicalize(r)
		// extra word characters are those c such that c is not basic but Canonicalize(c) is: U+017F, U+212A
		return isASCIIWord(c) || r == 0x17F || r == 0x212A
	}
	return false
}

func (p *Prog) escMatches(e byte, ch rune) bool {
	switch e {
	case 'd':
		return ch >= '0' && ch <= '9'
	case 'D':
		return !(ch >= '0' && ch <= '9')
	case 's':
		return isSpace(ch)
	case 'S':
		return !isSpace(ch)
	case 'w':
		return p.isWordChar(ch)
	case 'W':
		return !p.isWordChar(ch)
	}
	return false
}

// setHas: does the CharSet of a class escape / item contain a character whose canonical form equals cc?
// (CharacterSetMatcher §22.2.2.7.1: "there exists a member a of A such that Canonicalize(a) is cc")
func (p *Prog) itemMatches(it ClassItem, ch, cc rune) bool {
	if it.Esc != 0 {
		if p.escMatches(it.Esc, ch) {
			return true
		}
		if p.f.I {
			// some other member of the escape's set may canonicalize to cc: check the orbit of ch
			for r := unicode.SimpleFold(ch); r != ch; r = unicode.SimpleFold(r) {
				if p.escMatches(it.Esc, r) && p.canonicalize(r) == cc {
					return true
				}
			}
		}
		return false
	}
	if ch >= it.Lo && ch <= it.Hi {
		return true
	}
	if p.f.I {
		for r := unicode.SimpleFold(ch); r != ch; r = unicode.SimpleFold(r) {
			if r >= it.Lo && r <= it.Hi && p.canonicalize(r) == cc {
				return true
			}
		}
		// toUpperCase relation is not symmetric inside an orbit (non-u): also test canonical form directly
		if cc >= it.Lo && cc <= it.Hi && p.canonicalize(cc) == cc {
			return true
		}
	}
	return false
}

func (m *machine) tick() bool {
	if m.dead {
		return false
	}
	*m.budget--
	if *m.budget <= 0 {
		m.dead = true
		return false
	}
	return true
}

func (m *machine) isWordAt(i int) bool {
	if i < 0 || i >= len(m.in) {
		return false
	}
	return m.p.isWordChar(m.in[i])
}

// match is the Matcher of node n: it tries to match at s and calls c on success.
func (m *machine) match(n *Node, s state, c cont) bool {
	if !m.tick() {
		return false
	}
	p := m.p
	switch n.Kind {
	case Char, Any, Class, Esc:
		if s.end >= len(m.in) {
			return false
		}
		ch := m.in[s.end]
		ok := false
		switch n.Kind {
		case Char:
			ok = p.canonicalize(ch) == p.canonicalize(n.R)
		case Any:
			ok = p.f.S || !isLineTerminator(ch)
		case Esc:
			ok = p.itemMatches(ClassItem{Esc: n.Esc}, ch, p.canonicalize(ch))
		case Class:
			cc := p.canonicalize(ch)
			for _, it := range n.Items {
				if p.itemMatches(it, ch, cc) {
					ok = true
					break
				}
			}
			if n.Neg {
				ok = !ok
			}
		}
		if !ok {
			return false
		}
		return c(state{end: s.end + 1, caps: s.caps})
	case Assert:
		e := s.end
		ok := false
		switch n.Esc {
		case '^':
			ok = e == 0 || (p.f.M && isLineTerminator(m.in[e-1]))
		case '$':
			ok = e == len(m.in) || (p.f.M && isLineTerminator(m.in[e]))
		case 'b':
			ok = m.isWordAt(e-1) != m.isWordAt(e)
		case 'B':
			ok = m.isWordAt(e-1) == m.isWordAt(e)
		}
		if !ok {
			return false
		}
		return c(s)
	case Group:
		if n.capIdx == 0 {
			return m.match(n.Kids[0], s, c)
		}
		start := s.end
		return m.match(n.Kids[0], s, func(y state) bool {
			caps := append([]int(nil), y.caps...)
			caps[2*n.capIdx], caps[2*n.capIdx+1] = start, y.end
			return c(state{end: y.end, caps: caps})
		})
	case Seq:
		return m.seq(n.Kids, s, c)
	case Alt:
		for _, k := range n.Kids {
			if m.match(k, s, c) {
				return true
			}
			if m.dead {
				return false
			}
		}
		return false
	case Quant:
		return m.repeat(n, n.Min, n.Max, s, c)
	}
	return false
}

func (m *machine) seq(kids []*Node, s state, c cont) bool {
	if len(kids) == 0 {
		return c(s)
	}
	return m.match(kids[0], s, func(y state) bool { return m.seq(kids[1:], y, c) })
}

// repeat is RepeatMatcher (§22.2.2.3.1).
func (m *machine) repeat(n *Node, min, max int, x state, c cont) bool {
	if !m.tick() {
		return false
	}
	if max == 0 {
		return c(x)
	}
	d := func(y state) bool {
		if min == 0 && y.end == x.end {
			return false // empty check
		}
		min2 := 0
		if min > 0 {
			min2 = min - 1
		}
		max2 := -1
		if max >= 0 {
			max2 = max - 1
		}
		return m.repeat(n, min2, max2, y, c)
	}
	// captures of the atom are reset at the start of every iteration
	caps := x.caps
	if n.parenCount > 0 {
		caps = append([]int(nil), x.caps...)
		for k := n.parenIndex + 1; k <= n.parenIndex+n.parenCount; k++ {
			caps[2*k], caps[2*k+1] = -1, -1
		}
	}
	xr := state{end: x.end, caps: caps}
	if min > 0 {
		return m.match(n.Kids[0], xr, d)
	}
	if n.Lazy {
		if c(x) {
			return true
		}
		if m.dead {
			return false
		}
		return m.match(n.Kids[0], xr, d)
	}
	if m.match(n.Kids[0], xr, d) {
		return true
	}
	if m.dead {
		return false
	}
	return c(x)
}

// MatchAt runs the pattern matcher at input index idx (§22.2.2.2 CompilePattern).  ok=false: budget exhausted.
func (p *Prog) MatchAt(in []rune, idx int, budget *int) (end int, caps []int, matched, ok bool) {
	m := &machine{p: p, in: in, budget: budget}
	caps0 := make([]int, 2*(p.NCaps+1))
	for i := range caps0 {
		caps0[i] = -1
	}
	var fin state
	matched = m.match(p.root, state{end: idx, caps: caps0}, func(y state) bool { fin = y; return true })
	if m.dead {
		return 0, nil, false, false
	}
	if !matched {
		return 0, nil, false, true
	}
	return fin.end, fin.caps, true, true
}

// Result of RegExpBuiltinExec.
type Result struct {
	Index int      // in UTF-16 code units
	End   int      // in UTF-16 code units
	Caps  [][2]int // per capture group 1..n: start, end in UTF-16 code units; {-1,-1} = undefined
}

// Exec is RegExpBuiltinExec (§22.2.7.2) without the object plumbing: lastIndex is the value already converted by
// ToLength; global/sticky decide whether it is used.  Returns the match (nil = failure), the lastIndex to store
// (-1 = leave untouched) and ok=false when the step budget was exhausted.
// A lastIndex that points inside a surrogate pair under u is outside this model's domain (the spec text there leaves
// the reported index open; see DESIGN Appendix D): callers must not ask.
func (p *Prog) Exec(subj []uint16, lastIndex int, global, sticky bool, budget *int) (res *Result, newLastIndex int, ok bool) {
	if !global && !sticky {
		lastIndex = 0
	}
	n := len(subj)
	var in []rune
	var unitPos []int // input index -> code unit index (len(in)+1 entries)
	if p.f.U {
		for i := 0; i < n; {
			unitPos = append(unitPos, i)
			c := rune(subj[i])
			if c >= 0xD800 && c <= 0xDBFF && i+1 < n && subj[i+1] >= 0xDC00 && subj[i+1] <= 0xDFFF {
				in = append(in, 0x10000+(c-0xD800)<<10+(rune(subj[i+1])-0xDC00))
				i += 2
			} else {
				in = append(in, c)
				i++
			}
		}
		unitPos = append(unitPos, n)
	} else {
		in = make([]rune, n)
		unitPos = make([]int, n+1)
		for i, c := range subj {
			in[i] = rune(c)
			unitPos[i] = i
		}
		unitPos[n] = n
	}
	store := func(v int) int {
		if global || sticky {
			return v
		}
		return -1
	}
	for {
		if lastIndex > n {
			return nil, store(0), true
		}
		// index into input of the character obtained from element lastIndex of S
		inputIndex := 0
		for inputIndex+1 < len(unitPos) && unitPos[inputIndex+1] <= lastIndex {
			inputIndex++
		}
		if lastIndex == n {
			inputIndex = len(in)
		}
		end, caps, matched, okb := p.MatchAt(in, inputIndex, budget)
		if !okb {
			return nil, -1, false
		}
		if !matched {
			if sticky {
				return nil, store(0), true
			}
			// AdvanceStringIndex
			lastIndex = unitPos[inputIndex] + 1
			if p.f.U && inputIndex < len(in) {
				lastIndex = unitPos[inputIndex+1]
			}
			if inputIndex >= len(in) {
				lastIndex = n + 1
			}
			continue
		}
		r := &Result{Index: unitPos[inputIndex], End: unitPos[end]}
		for k := 1; k <= p.NCaps; k++ {
			if caps[2*k] < 0 {
				r.Caps = append(r.Caps, [2]int{-1, -1})
			} else {
				r.Caps = append(r.Caps, [2]int{unitPos[caps[2*k]], unitPos[caps[2*k+1]]})
			}
		}
		return r, store(r.End), true
	}
}
