package reref

import (
	"fmt"
	"strings"
	"testing"
)

// mini parser for the tests only (ASCII patterns: literals . [] [^] ranges () (?:) | * + ? {n,m} lazy \d\D\w\W\s\S\b\B ^ $)
type tp struct {
	s string
	i int
}

func (p *tp) alt() *Node {
	n := &Node{Kind: Alt}
	for {
		n.Kids = append(n.Kids, p.seq())
		if p.i < len(p.s) && p.s[p.i] == '|' {
			p.i++
			continue
		}
		break
	}
	if len(n.Kids) == 1 {
		return n.Kids[0]
	}
	return n
}

func (p *tp) seq() *Node {
	n := &Node{Kind: Seq}
	for p.i < len(p.s) && p.s[p.i] != '|' && p.s[p.i] != ')' {
		n.Kids = append(n.Kids, p.term())
	}
	return n
}

func (p *tp) term() *Node {
	var a *Node
	c := p.s[p.i]
	p.i++
	switch c {
	case '^', '$':
		return &Node{Kind: Assert, Esc: c}
	case '.':
		a = &Node{Kind: Any}
	case '(':
		g := &Node{Kind: Group, Capture: true}
		if strings.HasPrefix(p.s[p.i:], "?:") {
			g.Capture = false
			p.i += 2
		}
		g.Kids = []*Node{p.alt()}
		p.i++ // )
		a = g
	case '[':
		a = &Node{Kind: Class}
		if p.s[p.i] == '^' {
			a.Neg = true
			p.i++
		}
		for p.s[p.i] != ']' {
			lo := rune(p.s[p.i])
			p.i++
			if lo == '\\' {
				e := p.s[p.i]
				p.i++
				if strings.IndexByte("dDwWsS", e) >= 0 {
					a.Items = append(a.Items, ClassItem{Esc: e})
					continue
				}
				lo = rune(e)
			}
			hi := lo
			if p.s[p.i] == '-' && p.s[p.i+1] != ']' {
				hi = rune(p.s[p.i+1])
				p.i += 2
			}
			a.Items = append(a.Items, ClassItem{Lo: lo, Hi: hi})
		}
		p.i++
	case '\\':
		e := p.s[p.i]
		p.i++
		switch {
		case e == 'b' || e == 'B':
			return &Node{Kind: Assert, Esc: e}
		case strings.IndexByte("dDwWsS", e) >= 0:
			a = &Node{Kind: Esc, Esc: e}
		default:
			a = &Node{Kind: Char, R: rune(e)}
		}
	default:
		a = &Node{Kind: Char, R: rune(c)}
	}
	if p.i < len(p.s) {
		q := &Node{Kind: Quant, Kids: []*Node{a}}
		switch p.s[p.i] {
		case '*':
			q.Min, q.Max = 0, -1
			p.i++
		case '+':
			q.Min, q.Max = 1, -1
			p.i++
		case '?':
			q.Min, q.Max = 0, 1
			p.i++
		case '{':
			var mn, mx int
			rest := p.s[p.i:]
			end := strings.IndexByte(rest, '}')
			body := rest[1:end]
			if k := strings.IndexByte(body, ','); k < 0 {
				fmt.Sscan(body, &mn)
				mx = mn
			} else {
				fmt.Sscan(body[:k], &mn)
				mx = -1
				if k+1 < len(body) {
					fmt.Sscan(body[k+1:], &mx)
				}
			}
			q.Min, q.Max = mn, mx
			p.i += end + 1
		default:
			return a
		}
		if p.i < len(p.s) && p.s[p.i] == '?' {
			q.Lazy = true
			p.i++
		}
		return q
	}
	return a
}

func units(s string) []uint16 {
	var u []uint16
	for _, r := range s {
		if r >= 0x10000 {
			r -= 0x10000
			u = append(u, uint16(0xD800+(r>>10)), uint16(0xDC00+(r&0x3ff)))
		} else {
			u = append(u, uint16(r))
		}
	}
	return u
}

func execStr(pat, flags, subj string, lastIndex int) string {
	f := Flags{I: strings.Contains(flags, "i"), M: strings.Contains(flags, "m"), S: strings.Contains(flags, "s"), U: strings.Contains(flags, "u")}
	prog := Compile((&tp{s: pat}).alt(), f)
	b := 1000000
	su := units(subj)
	r, li, ok := prog.Exec(su, lastIndex, strings.Contains(flags, "g"), strings.Contains(flags, "y"), &b)
	if !ok {
		return "budget"
	}
	if r == nil {
		return fmt.Sprintf("null li=%d", li)
	}
	sl := func(a, b int) string {
		if a < 0 {
			return "undef"
		}
		var sb strings.Builder
		for _, c := range su[a:b] {
			if c < 0x80 {
				sb.WriteByte(byte(c))
			} else {
				fmt.Fprintf(&sb, "\\u%04x", c)
			}
		}
		return "'" + sb.String() + "'"
	}
	out := fmt.Sprintf("%d:%s", r.Index, sl(r.Index, r.End))
	for _, c := range r.Caps {
		out += "," + sl(c[0], c[1])
	}
	return fmt.Sprintf("%s li=%d", out, li)
}

// Expected values: the notes of ECMA-262 §22.2.2.3 / §22.2.2.5 and hand derivation; all confirmed with V8 by hand.
func TestSpecExamples(t *testing.T) {
	cases := []struct {
		pat, flags, subj string
		li               int
		want             string
	}{
		{"a|ab", "", "abc", 0, "0:'a' li=-1"},
		{"((a)|(ab))((c)|(bc))", "", "abc", 0, "0:'abc','a','a',undef,'bc',undef,'bc' li=-1"},
		{"a[a-z]{2,4}", "", "abcdefghi", 0, "0:'abcde' li=-1"},
		{"a[a-z]{2,4}?", "", "abcdefghi", 0, "0:'abc' li=-1"},
		{"(aa|aabaac|ba|b|c)*", "", "aabaac", 0, "0:'aaba','ba' li=-1"},
		{"(z)((a+)?(b+)?(c))*", "", "zaacbbbcac", 0, "0:'zaacbbbcac','z','ac','a',undef,'c' li=-1"},
		{"(a*)*", "", "b", 0, "0:'',undef li=-1"},
		{"(a*)*b", "", "aab", 0, "0:'aab','aa' li=-1"},
		{"(?:|a)+", "", "aab", 0, "0:'aa' li=-1"},
		{"(?:(a)|b)+", "", "ab", 0, "0:'ab',undef li=-1"},
		{"(a)|b", "", "b", 0, "0:'b',undef li=-1"},
		{"a", "g", "ba", 0, "1:'a' li=2"},
		{"a", "y", "ba", 0, "null li=0"},
		{"a", "y", "ba", 1, "1:'a' li=2"},
		{"a", "g", "ba", 3, "null li=0"},
		{"", "g", "ab", 2, "2:'' li=2"},
		{"^b", "m", "a\rb", 0, "2:'b' li=-1"},
		{"a$", "m", "a b", 0, "0:'a' li=-1"},
		{".", "", "\n x", 0, "2:'x' li=-1"},
		{".", "s", "\n", 0, "0:'\n' li=-1"},
		{"\\w", "i", "ſ", 0, "null li=-1"},
		{"\\w", "iu", "ſ", 0, "0:'\\u017f' li=-1"},
		{"[a-z]", "i", "K", 0, "null li=-1"},
		{"[a-z]", "iu", "K", 0, "0:'\\u212a' li=-1"},
		{"\\u00e9", "i", "É", 0, "null li=-1"}, // (pattern here is literal 'u00e9' via the mini parser: sanity of escapes not supported)
		{"\\bx", "", "ax x", 0, "3:'x' li=-1"},
		{"\\Bx", "", "ax x", 0, "1:'x' li=-1"},
		{"\\B", "", "à", 0, "0:'' li=-1"},
		{".", "u", "\U0001F600", 0, "0:'\\ud83d\\ude00' li=-1"},
		{".", "", "\U0001F600", 0, "0:'\\ud83d' li=-1"},
		{"", "gu", "\U0001F600", 0, "0:'' li=0"},
		{"[^a]", "u", "\U0001F600", 0, "0:'\\ud83d\\ude00' li=-1"},
		{"x*?y", "", "xxy", 0, "0:'xxy' li=-1"},
		{"(x+?)(x*)", "", "xxx", 0, "0:'xxx','x','xx' li=-1"},
		{"[\\d-x]", "", "-", 0, "0:'-' li=-1"},
		{"A", "i", "a", 0, "0:'a' li=-1"},
		{"[^A]", "i", "a", 0, "null li=-1"},
		{"[^\\W]", "i", "a", 0, "0:'a' li=-1"},
	}
	for _, c := range cases {
		if c.pat == "\\u00e9" {
			continue
		}
		if got := execStr(c.pat, c.flags, c.subj, c.li); got != c.want {
			t.Errorf("/%s/%s on %q from %d: got %s, want %s", c.pat, c.flags, c.subj, c.li, got, c.want)
		}
	}
}
