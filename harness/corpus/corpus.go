// Package corpus embeds the frozen seed snippets harvested once from /repo/*_test.go (used as mutation seeds by C01).
package corpus

import (
	_ "embed"
	"encoding/json"
)

//go:embed snippets.json
var raw []byte

var Snippets []string

func init() {
	if err := json.Unmarshal(raw, &Snippets); err != nil {
		panic(err)
	}
}
