package jsgen

import "strings"

// Minimize performs bounded delta debugging on the token list of src: it returns the smallest text found for which
// pred still holds, using at most maxRuns evaluations of pred.
func Minimize(src string, maxRuns int, pred func(string) bool) string {
	toks := Tokenize(src)
	runs := 0
	try := func(ts []string) bool {
		if runs >= maxRuns {
			return false
		}
		runs++
		return pred(strings.Join(ts, ""))
	}
	for progress := true; progress && runs < maxRuns; {
		progress = false
		for chunk := len(toks) / 2; chunk >= 1 && runs < maxRuns; chunk /= 2 {
			for i := 0; i+chunk <= len(toks) && runs < maxRuns; {
				cand := append(append([]string{}, toks[:i]...), toks[i+chunk:]...)
				if len(cand) > 0 && try(cand) {
					toks = cand
					progress = true
				} else {
					i += chunk
				}
			}
		}
	}
	return strings.Join(toks, "")
}
