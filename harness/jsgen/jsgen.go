// Package jsgen generates syntactically valid (by construction, nearly always) JavaScript over the whole
// syntax goja accepts. Programs are semantically arbitrary; loops carry literal trip bounds but termination
// is ultimately enforced by the VM fuel hook. Used by C01 (crash monitor), C16 (shared programs), C15.
package jsgen

import (
	"fmt"
	"strings"

	"verif/harness/core"
)

type Gen struct {
	R       *core.Rng
	b       strings.Builder
	budget  int // remaining node budget
	depth   int
	MaxDep  int
	names   []string // declared names visible (approximate)
	inFunc  int
	inGen   bool
	inAsync bool
	inLoop  int
	inSwitch int
	inClass int
	inMethod int
	inDerivedCtor bool
	strict  bool
	labels  []string
	privs   []string
	uniq    int
	NoEval  bool // do not generate eval/Function
	NoAsync bool
	Safe    bool // avoid constructs that can legitimately consume unbounded memory/time in natives
}

var namePool = []string{"a", "b", "c", "x", "y", "f", "g", "o", "k", "v"}
var globalsPool = []string{"Object", "Array", "String", "Number", "Boolean", "Symbol", "Math", "JSON", "Reflect", "Proxy", "Map", "Set", "WeakMap", "WeakSet", "Promise", "RegExp", "Date", "Error", "TypeError", "Function", "BigInt", "ArrayBuffer", "Uint8Array", "Int32Array", "Float64Array", "DataView", "globalThis", "undefined", "NaN", "Infinity", "parseInt", "parseFloat", "isNaN", "arguments", "eval"}
var methodPool = []string{"toString", "valueOf", "length", "constructor", "prototype", "__proto__", "push", "pop", "shift", "unshift", "slice", "splice", "concat", "join", "map", "filter", "reduce", "forEach", "sort", "reverse", "indexOf", "includes", "find", "fill", "flat", "flatMap", "keys", "values", "entries", "at", "call", "apply", "bind", "then", "catch", "finally", "next", "return", "throw", "get", "set", "has", "add", "delete", "clear", "size", "charAt", "charCodeAt", "codePointAt", "split", "replace", "replaceAll", "match", "matchAll", "search", "substring", "substr", "trim", "padStart", "repeat", "normalize", "toUpperCase", "toLowerCase", "localeCompare", "exec", "test", "lastIndex", "source", "flags", "name", "message", "stack", "hasOwnProperty", "isPrototypeOf", "propertyIsEnumerable", "toFixed", "toPrecision", "toExponential", "toJSON", "getTime", "toISOString", "description", "byteLength", "buffer", "subarray", "copyWithin", "with", "toSorted", "toReversed", "toSpliced", "findLast", "raw"}
var staticPool = []string{"Object.keys", "Object.values", "Object.entries", "Object.assign", "Object.create", "Object.defineProperty", "Object.getOwnPropertyDescriptor", "Object.getOwnPropertyNames", "Object.getOwnPropertySymbols", "Object.getPrototypeOf", "Object.setPrototypeOf", "Object.freeze", "Object.seal", "Object.preventExtensions", "Object.isFrozen", "Object.is", "Object.fromEntries", "Array.from", "Array.of", "Array.isArray", "JSON.stringify", "JSON.parse", "Math.max", "Math.min", "Math.floor", "Math.abs", "Math.pow", "Math.round", "Math.sign", "Math.trunc", "Math.imul", "Math.clz32", "Math.fround", "Math.hypot", "String.fromCharCode", "String.fromCodePoint", "String.raw", "Number.isInteger", "Number.parseFloat", "Number.isSafeInteger", "Symbol.for", "Symbol.keyFor", "Reflect.ownKeys", "Reflect.get", "Reflect.set", "Reflect.has", "Reflect.defineProperty", "Reflect.deleteProperty", "Reflect.apply", "Reflect.construct", "Reflect.getPrototypeOf", "Reflect.setPrototypeOf", "Promise.resolve", "Promise.reject", "Promise.all", "Promise.race", "Promise.allSettled", "Promise.any", "Proxy.revocable", "BigInt.asIntN", "BigInt.asUintN", "Date.UTC", "Date.parse", "ArrayBuffer.isView", "Uint8Array.from", "Error.captureStackTrace"}
var wellKnown = []string{"Symbol.iterator", "Symbol.toPrimitive", "Symbol.toStringTag", "Symbol.hasInstance", "Symbol.species", "Symbol.isConcatSpreadable", "Symbol.unscopables", "Symbol.match", "Symbol.replace", "Symbol.split", "Symbol.search", "Symbol.matchAll"}
var regexps = []string{"/a+b/", "/(x)|(y)/g", "/^\\d+$/m", "/[a-z]+/gi", "/(?<n>\\w)\\k<n>/u", "/(?=a)b*/y", "/\\u{1F600}/u", "/(?<!a)b/s", "/a{2,3}?/", "/[^]/", "/\\bfoo\\B/i", "/(a*)*b/", "/./su", "/(?:)/"}
var numLits = []string{"0", "1", "2", "3", "7", "-1", "0.5", "1e3", "1e21", "1e-7", "0x10", "0b101", "0o17", "1_000", ".5", "5.", "4294967295", "4294967296", "2147483647", "2147483648", "9007199254740991", "9007199254740992", "9007199254740993", "1e400", "5e-324", "0.1", "-0", "4096", "65535", "65536", "1n", "0n", "123456789012345678901234567890n", "-5n", "0xffn"}
var strLits = []string{`""`, `"a"`, `'b'`, `"abc"`, `"\n"`, `"é"`, `"😀"`, `"\ud800"`, `"\udc00x"`, `"length"`, `"0"`, `"1"`, `"-0"`, `"__proto__"`, `"constructor"`, `"x".repeat(3)`, `"\x41"`, `"\u{1F600}"`, `'\\'`, `"a\
b"`, `"use strict"`, `"1e3"`, `" 12 "`, `"0x1f"`, `"\0"`}
var binOps = []string{"+", "-", "*", "/", "%", "**", "<<", ">>", ">>>", "&", "|", "^", "==", "!=", "===", "!==", "<", ">", "<=", ">=", "in", "instanceof", "&&", "||", "??", ","}
var assignOps = []string{"=", "+=", "-=", "*=", "/=", "%=", "**=", "<<=", ">>=", ">>>=", "&=", "|=", "^=", "&&=", "||=", "??="}
var unOps = []string{"!", "~", "+", "-", "typeof ", "void ", "delete "}

func New(r *core.Rng, budget int) *Gen {
	return &Gen{R: r, budget: budget, MaxDep: 7}
}

func (g *Gen) w(s string)                      { g.b.WriteString(s) }
func (g *Gen) f(format string, a ...any)       { fmt.Fprintf(&g.b, format, a...) }
func (g *Gen) pick(xs []string) string          { return xs[g.R.Intn(len(xs))] }
func (g *Gen) chance(n, d int) bool             { return g.R.Chance(n, d) }
func (g *Gen) fresh(prefix string) string       { g.uniq++; return fmt.Sprintf("%s%d", prefix, g.uniq) }

func (g *Gen) name() string {
	if len(g.names) > 0 && g.chance(3, 4) {
		return g.names[g.R.Intn(len(g.names))]
	}
	return g.pick(namePool)
}

func (g *Gen) declare() string {
	n := g.pick(namePool)
	if g.chance(1, 6) {
		n = g.fresh("v")
	}
	g.names = append(g.names, n)
	return n
}

// Program generates a whole script.
func (g *Gen) Program() string {
	g.b.Reset()
	if g.chance(1, 6) {
		g.w("\"use strict\";\n")
		g.strict = true
	}
	n := g.R.Range(1, 8)
	for i := 0; i < n && g.budget > 0; i++ {
		g.stmt()
	}
	return g.b.String()
}

func (g *Gen) block() {
	g.w("{ ")
	save := len(g.names)
	n := g.R.Range(0, 3)
	for i := 0; i < n && g.budget > 0; i++ {
		g.stmt()
	}
	g.names = g.names[:save]
	g.w("} ")
}

func (g *Gen) stmt() {
	g.budget--
	g.depth++
	defer func() { g.depth-- }()
	if g.depth > g.MaxDep || g.budget <= 0 {
		g.expr()
		g.w(";\n")
		return
	}
	switch g.R.Intn(30) {
	case 0, 1, 2:
		g.varDecl(true)
		g.w(";\n")
	case 3, 4, 5, 6:
		g.expr()
		g.w(";\n")
	case 7:
		g.w("if (")
		g.expr()
		g.w(") ")
		g.stmtOrBlock()
		if g.chance(1, 2) {
			g.w(" else ")
			g.stmtOrBlock()
		}
		g.w("\n")
	case 8:
		g.forLoop()
	case 9:
		g.forInOf()
	case 10:
		c := g.fresh("n")
		g.f("var %s = 0; ", c)
		if g.chance(1, 2) {
			g.f("while (%s++ < %d && (", c, g.R.Range(1, 4))
			g.expr()
			g.w(", true)) ")
			g.loopBody()
		} else {
			g.w("do ")
			g.loopBody()
			g.f(" while (%s++ < %d);", c, g.R.Range(0, 3))
		}
		g.w("\n")
	case 11:
		g.switchStmt()
	case 12, 13:
		g.tryStmt()
	case 14:
		g.w("throw ")
		g.expr()
		g.w(";\n")
	case 15:
		if g.inFunc > 0 {
			g.w("return ")
			if g.chance(3, 4) {
				g.expr()
			}
			g.w(";\n")
		} else {
			g.expr()
			g.w(";\n")
		}
	case 16:
		if g.inLoop > 0 || (g.inSwitch > 0 && g.chance(1, 2)) {
			kw := "break"
			if g.inLoop > 0 && g.chance(1, 2) {
				kw = "continue"
			}
			g.w(kw)
			if len(g.labels) > 0 && g.chance(1, 3) && kw == "break" {
				g.w(" " + g.pick(g.labels))
			}
			g.w(";\n")
		} else {
			g.w(";\n")
		}
	case 17:
		l := g.fresh("L")
		g.labels = append(g.labels, l)
		g.f("%s: ", l)
		if g.chance(1, 2) {
			g.block()
		} else {
			g.forLoop()
		}
		g.labels = g.labels[:len(g.labels)-1]
		g.w("\n")
	case 18:
		g.block()
		g.w("\n")
	case 19, 20:
		g.funcDecl()
	case 21:
		g.classDef(true)
		g.w("\n")
	case 22:
		if !g.strict && g.inClass == 0 {
			g.w("with (")
			g.expr()
			g.w(") ")
			g.stmtOrBlock()
			g.w("\n")
		} else {
			g.expr()
			g.w(";\n")
		}
	case 23:
		g.w("debugger;\n")
	case 24:
		// destructuring assignment statement
		g.w("(")
		g.pattern(false)
		g.w(" = ")
		g.expr()
		g.w(");\n")
	default:
		g.expr()
		g.w(";\n")
	}
}

func (g *Gen) stmtOrBlock() {
	if g.chance(2, 3) {
		g.block()
	} else {
		g.expr()
		g.w(";")
	}
}

func (g *Gen) loopBody() {
	g.inLoop++
	g.block()
	g.inLoop--
}

func (g *Gen) forLoop() {
	i := g.fresh("i")
	kw := g.pick([]string{"var", "let"})
	g.f("for (%s %s = 0", kw, i)
	if g.chance(1, 4) {
		g.w(", ")
		g.w(g.declare())
		g.w(" = ")
		g.expr()
	}
	g.f("; %s < %d; %s++", i, g.R.Range(1, 4), i)
	if g.chance(1, 4) {
		g.w(", ")
		g.expr()
	}
	g.w(") ")
	g.names = append(g.names, i)
	g.loopBody()
	g.w("\n")
}

func (g *Gen) forInOf() {
	g.w("for (")
	save := len(g.names)
	switch g.R.Intn(4) {
	case 0:
		g.w(g.pick([]string{"var ", "let ", "const "}))
		g.w(g.declare())
	case 1:
		g.w(g.pick([]string{"var ", "let ", "const "}))
		g.pattern(true)
	case 2:
		g.w(g.name())
	default:
		g.lhsMember()
	}
	if g.chance(1, 2) {
		g.w(" in ")
		g.expr()
	} else {
		g.w(" of ")
		if g.chance(1, 2) {
			g.arrayLit()
		} else {
			g.assignExpr()
		}
	}
	g.w(") ")
	g.loopBody()
	g.names = g.names[:save]
	g.w("\n")
}

func (g *Gen) switchStmt() {
	g.w("switch (")
	g.expr()
	g.w(") { ")
	g.inSwitch++
	n := g.R.Range(0, 3)
	def := g.R.Intn(n + 2)
	for i := 0; i <= n; i++ {
		if i == def {
			g.w("default: ")
		} else {
			g.w("case ")
			g.expr()
			g.w(": ")
		}
		k := g.R.Range(0, 2)
		for j := 0; j < k && g.budget > 0; j++ {
			g.stmt()
		}
		if g.chance(1, 2) {
			g.w("break; ")
		}
	}
	g.inSwitch--
	g.w("}\n")
}

func (g *Gen) tryStmt() {
	g.w("try ")
	g.block()
	mode := g.R.Intn(3)
	if mode != 1 {
		save := len(g.names)
		switch g.R.Intn(3) {
		case 0:
			g.w("catch ")
		case 1:
			g.f("catch (%s) ", g.declare())
		default:
			g.w("catch (")
			g.pattern(true)
			g.w(") ")
		}
		g.block()
		g.names = g.names[:save]
	}
	if mode != 0 {
		g.w("finally ")
		g.block()
	}
	g.w("\n")
}

func (g *Gen) varDecl(allowPattern bool) {
	kw := g.pick([]string{"var", "let", "const", "var"})
	g.w(kw + " ")
	n := g.R.Range(1, 2)
	for i := 0; i < n; i++ {
		if i > 0 {
			g.w(", ")
		}
		if allowPattern && g.chance(1, 4) {
			g.pattern(true)
			g.w(" = ")
			g.assignExpr()
		} else {
			name := g.declare()
			g.w(name)
			if kw == "const" || g.chance(3, 4) {
				g.w(" = ")
				g.assignExpr()
			}
		}
	}
}

// pattern emits a destructuring pattern; decl=true means binding pattern (identifiers only).
func (g *Gen) pattern(decl bool) {
	g.budget--
	g.depth++
	defer func() { g.depth-- }()
	target := func() {
		if g.depth < g.MaxDep && g.chance(1, 5) {
			g.pattern(decl)
		} else if decl {
			g.w(g.declare())
		} else if g.chance(1, 2) {
			g.w(g.name())
		} else {
			g.lhsMember()
		}
		if g.chance(1, 4) {
			g.w(" = ")
			g.assignExpr()
		}
	}
	if g.chance(1, 2) {
		g.w("[")
		n := g.R.Range(0, 3)
		for i := 0; i < n; i++ {
			if i > 0 {
				g.w(", ")
			}
			if g.chance(1, 6) {
				continue // elision
			}
			if i == n-1 && g.chance(1, 4) {
				g.w("...")
				if decl {
					g.w(g.declare())
				} else {
					g.w(g.name())
				}
			} else {
				target()
			}
		}
		g.w("]")
	} else {
		g.w("{")
		n := g.R.Range(0, 3)
		for i := 0; i < n; i++ {
			if i > 0 {
				g.w(", ")
			}
			if i == n-1 && g.chance(1, 5) {
				g.w("...")
				if decl {
					g.w(g.declare())
				} else {
					g.w(g.name())
				}
				continue
			}
			switch g.R.Intn(3) {
			case 0:
				nm := g.pick(namePool)
				if decl {
					g.names = append(g.names, nm)
				}
				g.w(nm)
				if g.chance(1, 4) {
					g.w(" = ")
					g.assignExpr()
				}
			case 1:
				g.w(g.pick(methodPool) + ": ")
				target()
			default:
				g.w("[")
				g.assignExpr()
				g.w("]: ")
				target()
			}
		}
		g.w("}")
	}
}

func (g *Gen) params() {
	g.w("(")
	n := g.R.Range(0, 3)
	for i := 0; i < n; i++ {
		if i > 0 {
			g.w(", ")
		}
		if i == n-1 && g.chance(1, 5) {
			g.w("...")
			if g.chance(1, 4) {
				g.pattern(true)
			} else {
				g.w(g.declare())
			}
			break
		}
		if g.chance(1, 5) {
			g.pattern(true)
		} else {
			g.w(g.declare())
		}
		if g.chance(1, 5) {
			g.w(" = ")
			g.assignExpr()
		}
	}
	g.w(")")
}

func (g *Gen) funcBody() {
	saveLoop, saveSw, saveLabels := g.inLoop, g.inSwitch, g.labels
	g.inLoop, g.inSwitch, g.labels = 0, 0, nil
	g.inFunc++
	g.w("{ ")
	if g.chance(1, 10) {
		g.w("\"use strict\"; ")
	}
	n := g.R.Range(0, 4)
	for i := 0; i < n && g.budget > 0; i++ {
		g.stmt()
	}
	g.w("}")
	g.inFunc--
	g.inLoop, g.inSwitch, g.labels = saveLoop, saveSw, saveLabels
}

func (g *Gen) funcKind() (prefix string, star bool, async bool) {
	switch g.R.Intn(6) {
	case 0:
		return "function*", true, false
	case 1:
		if !g.NoAsync {
			return "async function", false, true
		}
	}
	return "function", false, false
}

func (g *Gen) withFn(star, async bool, body func()) {
	sg, sa, sd := g.inGen, g.inAsync, g.inDerivedCtor
	g.inGen, g.inAsync, g.inDerivedCtor = star, async, false
	save := len(g.names)
	body()
	g.names = g.names[:save]
	g.inGen, g.inAsync, g.inDerivedCtor = sg, sa, sd
}

func (g *Gen) funcDecl() {
	prefix, star, async := g.funcKind()
	name := g.declare()
	g.f("%s %s", prefix, name)
	g.withFn(star, async, func() {
		g.params()
		g.w(" ")
		g.funcBody()
	})
	g.w("\n")
}

func (g *Gen) funcExpr() {
	if g.chance(1, 2) {
		// arrow
		async := !g.NoAsync && g.chance(1, 6)
		if async {
			g.w("async ")
		}
		sg, sa := g.inGen, g.inAsync
		g.inGen, g.inAsync = false, async
		save := len(g.names)
		if g.chance(1, 3) {
			g.w(g.declare())
		} else {
			g.params()
		}
		g.w(" => ")
		if g.chance(1, 2) {
			g.inFunc++
			sl := g.inLoop
			g.inLoop = 0
			g.w("(")
			g.assignExpr()
			g.w(")")
			g.inLoop = sl
			g.inFunc--
		} else {
			g.funcBody()
		}
		g.names = g.names[:save]
		g.inGen, g.inAsync = sg, sa
		return
	}
	prefix, star, async := g.funcKind()
	g.w(prefix)
	if g.chance(1, 3) {
		g.w(" " + g.pick(namePool))
	}
	g.withFn(star, async, func() {
		g.params()
		g.w(" ")
		g.funcBody()
	})
}

func (g *Gen) classDef(decl bool) {
	g.w("class ")
	if decl {
		g.w(g.declare())
	} else if g.chance(1, 2) {
		g.w(g.pick(namePool))
	}
	derived := g.chance(1, 3)
	if derived {
		g.w(" extends ")
		switch g.R.Intn(4) {
		case 0:
			g.w(g.pick([]string{"Object", "Array", "Error", "Map", "Promise", "Function", "RegExp", "Uint8Array", "null"}))
		case 1:
			g.w(g.name())
		default:
			g.w("(")
			g.assignExpr()
			g.w(")")
		}
	}
	g.w(" { ")
	g.inClass++
	savePriv := len(g.privs)
	np := g.R.Intn(3)
	for i := 0; i < np; i++ {
		g.privs = append(g.privs, g.fresh("#p"))
	}
	n := g.R.Range(0, 5)
	declared := map[string]bool{}
	hasCtor := false
	for i := 0; i < n && g.budget > 0; i++ {
		g.budget--
		static := g.chance(1, 4)
		if static {
			g.w("static ")
		}
		key := func() string {
			switch g.R.Intn(6) {
			case 0:
				if len(g.privs) > savePriv {
					p := g.privs[savePriv+g.R.Intn(len(g.privs)-savePriv)]
					if !declared[p] {
						declared[p] = true
						return p
					}
				}
				return g.pick(methodPool)
			case 1:
				return "[" + g.pick(wellKnown) + "]"
			case 2:
				return g.pick([]string{"0", "1", `"s"`, "1e3"})
			default:
				return g.pick(methodPool)
			}
		}
		switch g.R.Intn(8) {
		case 0:
			if !hasCtor && !static {
				hasCtor = true
				g.w("constructor")
				g.withFn(false, false, func() {
					g.inDerivedCtor = derived
					g.inMethod++
					g.params()
					g.w(" { ")
					if derived && g.chance(4, 5) {
						g.w("super(")
						g.args()
						g.w("); ")
					}
					g.inFunc++
					k := g.R.Range(0, 3)
					for j := 0; j < k && g.budget > 0; j++ {
						g.stmt()
					}
					g.inFunc--
					g.w("} ")
					g.inMethod--
				})
				continue
			}
			fallthrough
		case 1, 2:
			k := key()
			if k == "constructor" || k == "prototype" {
				k = "m"
			}
			pre := ""
			star, async := false, false
			switch g.R.Intn(6) {
			case 0:
				pre, star = "*", true
			case 1:
				if !g.NoAsync {
					pre, async = "async ", true
				}
			}
			g.w(pre + k)
			g.withFn(star, async, func() {
				g.inMethod++
				g.params()
				g.w(" ")
				g.funcBody()
				g.inMethod--
			})
			g.w(" ")
		case 3:
			k := key()
			if k == "constructor" || k == "prototype" {
				k = "m"
			}
			if strings.HasPrefix(k, "#") {
				// getter and setter of the same private name would need pairing; emit a method instead
				g.w(k + "() {} ")
				break
			}
			if g.chance(1, 2) {
				g.w("get " + k + "() ")
				g.withFn(false, false, func() { g.inMethod++; g.funcBody(); g.inMethod-- })
			} else {
				g.w("set " + k + "(" + g.pick(namePool) + ") ")
				g.withFn(false, false, func() { g.inMethod++; g.funcBody(); g.inMethod-- })
			}
			g.w(" ")
		case 4, 5:
			k := key()
			if k == "constructor" || k == "prototype" {
				k = "fld"
			}
			g.w(k)
			if g.chance(2, 3) {
				g.w(" = ")
				g.withFn(false, false, func() { g.inMethod++; g.inFunc++; g.assignExpr(); g.inFunc--; g.inMethod-- })
			}
			g.w("; ")
		case 6:
			if static {
				g.withFn(false, false, func() {
					g.inMethod++
					g.inFunc++
					sl, ss, slb := g.inLoop, g.inSwitch, g.labels
					g.inLoop, g.inSwitch, g.labels = 0, 0, nil
					g.w("{ ")
					k := g.R.Range(0, 2)
					for j := 0; j < k && g.budget > 0; j++ {
						g.stmtNoReturn()
					}
					g.w("} ")
					g.inLoop, g.inSwitch, g.labels = sl, ss, slb
					g.inFunc--
					g.inMethod--
				})
			} else {
				g.w("; ")
			}
		default:
			g.w("; ")
		}
	}
	// declare any private names not yet declared so references are valid
	for _, p := range g.privs[savePriv:] {
		if !declared[p] {
			g.w(p + "; ")
		}
	}
	g.w("}")
	g.privs = g.privs[:savePriv]
	g.inClass--
}

func (g *Gen) stmtNoReturn() {
	sf := g.inFunc
	g.inFunc = 0
	g.stmt()
	g.inFunc = sf
}

func (g *Gen) args() {
	n := g.R.Range(0, 3)
	for i := 0; i < n; i++ {
		if i > 0 {
			g.w(", ")
		}
		if g.chance(1, 8) {
			g.w("...")
		}
		g.assignExpr()
	}
}

func (g *Gen) arrayLit() {
	g.w("[")
	n := g.R.Range(0, 4)
	for i := 0; i < n; i++ {
		if i > 0 {
			g.w(", ")
		}
		switch g.R.Intn(8) {
		case 0:
			// hole
		case 1:
			g.w("...")
			g.assignExpr()
		default:
			g.assignExpr()
		}
	}
	g.w("]")
}

func (g *Gen) objectLit() {
	g.w("{")
	n := g.R.Range(0, 4)
	for i := 0; i < n; i++ {
		if i > 0 {
			g.w(", ")
		}
		g.budget--
		switch g.R.Intn(10) {
		case 0:
			g.w(g.name())
		case 1:
			g.w("...")
			g.assignExpr()
		case 2:
			g.w("[")
			g.assignExpr()
			g.w("]: ")
			g.assignExpr()
		case 3:
			g.w("get " + g.pick(methodPool) + "() ")
			g.withFn(false, false, func() { g.inMethod++; g.funcBody(); g.inMethod-- })
		case 4:
			g.w("set " + g.pick(methodPool) + "(" + g.pick(namePool) + ") ")
			g.withFn(false, false, func() { g.inMethod++; g.funcBody(); g.inMethod-- })
		case 5:
			pre := ""
			star, async := false, false
			switch g.R.Intn(5) {
			case 0:
				pre, star = "*", true
			case 1:
				if !g.NoAsync {
					pre, async = "async ", true
				}
			}
			k := g.pick(methodPool)
			if g.chance(1, 4) {
				k = "[" + g.pick(wellKnown) + "]"
			}
			g.w(pre + k)
			g.withFn(star, async, func() { g.inMethod++; g.params(); g.w(" "); g.funcBody(); g.inMethod-- })
		case 6:
			g.w("__proto__: ")
			g.assignExpr()
		case 7:
			g.w(g.pick([]string{"0", "1", "2", `"a b"`, "1.5", "0x10"}) + ": ")
			g.assignExpr()
		default:
			g.w(g.pick(methodPool) + ": ")
			g.assignExpr()
		}
	}
	g.w("}")
}

func (g *Gen) template() {
	g.w("`")
	n := g.R.Range(0, 3)
	for i := 0; i < n; i++ {
		g.w(g.pick([]string{"a", " ", "\\n", "x${'y'}", "\\u0041", "é", ""}))
		if g.chance(2, 3) {
			g.w("${")
			g.expr()
			g.w("}")
		}
	}
	g.w("`")
}

func (g *Gen) lhsMember() {
	g.primaryNoLit()
	if g.chance(1, 2) {
		g.w("." + g.pick(methodPool))
	} else {
		g.w("[")
		g.expr()
		g.w("]")
	}
}

func (g *Gen) primaryNoLit() {
	switch g.R.Intn(6) {
	case 0:
		g.w("this")
	case 1:
		g.w(g.pick(globalsPool))
	case 2:
		if g.depth < g.MaxDep {
			g.w("(")
			g.expr()
			g.w(")")
		} else {
			g.w(g.name())
		}
	default:
		g.w(g.name())
	}
}

func (g *Gen) expr() {
	if g.chance(1, 12) && g.depth < g.MaxDep {
		g.assignExpr()
		g.w(", ")
		g.assignExpr()
		return
	}
	g.assignExpr()
}

func (g *Gen) assignExpr() {
	g.budget--
	g.depth++
	defer func() { g.depth-- }()
	if g.depth > g.MaxDep || g.budget <= 0 {
		g.leaf()
		return
	}
	switch g.R.Intn(40) {
	case 0, 1, 2:
		// assignment
		if g.chance(1, 6) {
			g.pattern(false)
			g.w(" = ")
			g.assignExpr()
			return
		}
		if g.chance(1, 2) {
			g.w(g.name())
		} else {
			g.lhsMember()
		}
		g.w(" " + g.pick(assignOps) + " ")
		g.assignExpr()
	case 3, 4, 5, 6, 7, 8:
		op := g.pick(binOps)
		g.w("(")
		if op == "in" && len(g.privs) > 0 && g.chance(1, 3) {
			g.w(g.pick(g.privs))
		} else {
			g.assignExpr()
		}
		g.w(" " + op + " ")
		g.assignExpr()
		g.w(")")
	case 9, 10:
		op := g.pick(unOps)
		g.w(op)
		if op == "delete " && g.chance(2, 3) {
			g.lhsMember()
		} else {
			g.w("(")
			g.assignExpr()
			g.w(")")
		}
	case 11:
		if g.chance(1, 2) {
			g.w(g.pick([]string{"++", "--"}))
			if g.chance(1, 2) {
				g.w(g.name())
			} else {
				g.lhsMember()
			}
		} else {
			if g.chance(1, 2) {
				g.w(g.name())
			} else {
				g.lhsMember()
			}
			g.w(g.pick([]string{"++", "--"}))
		}
	case 12:
		g.w("(")
		g.assignExpr()
		g.w(" ? ")
		g.assignExpr()
		g.w(" : ")
		g.assignExpr()
		g.w(")")
	case 13, 14, 15:
		// call
		switch g.R.Intn(5) {
		case 0:
			g.w(g.pick(staticPool))
		case 1:
			g.w(g.name())
		default:
			g.memberChain()
		}
		if g.chance(1, 8) {
			g.w("?.")
		}
		g.w("(")
		g.args()
		g.w(")")
	case 16:
		g.w("new ")
		if g.chance(1, 2) {
			g.w(g.pick([]string{"Object", "Array", "Map", "Set", "WeakMap", "Error", "Date", "RegExp", "Promise", "Proxy", "Uint8Array", "ArrayBuffer", "DataView", "Function", "Boolean", "Number", "String", "Float64Array", "BigInt64Array"}))
		} else {
			g.w(g.name())
		}
		g.w("(")
		if g.Safe {
			g.safeArgs()
		} else {
			g.args()
		}
		g.w(")")
	case 17, 18:
		g.memberChain()
	case 19, 20:
		g.funcExpr0()
	case 21:
		g.w("(")
		g.classDef(false)
		g.w(")")
	case 22, 23:
		g.arrayLit()
	case 24, 25:
		g.w("(")
		g.objectLit()
		g.w(")")
	case 26:
		g.template()
	case 27:
		if g.inGen {
			g.w("(yield")
			if g.chance(1, 4) {
				g.w("* ")
				g.assignExpr()
			} else if g.chance(3, 4) {
				g.w(" ")
				g.assignExpr()
			}
			g.w(")")
		} else if g.inAsync {
			g.w("(await ")
			g.assignExpr()
			g.w(")")
		} else {
			g.leaf()
		}
	case 28:
		// tagged template
		if g.chance(1, 2) {
			g.w("String.raw")
		} else {
			g.w(g.name())
		}
		g.template()
	case 29:
		if !g.NoEval {
			src := g.sub(6)
			if g.chance(1, 3) {
				g.w("(0, eval)(")
			} else {
				g.w("eval(")
			}
			g.w(quote(src))
			g.w(")")
		} else {
			g.leaf()
		}
	case 30:
		if !g.NoEval && g.chance(1, 2) {
			src := g.sub(5)
			g.f("new Function(%s, %s)", quote(g.pick(namePool)), quote(src))
		} else if g.inFunc > 0 && g.chance(1, 2) {
			g.w("new.target")
		} else if g.inMethod > 0 {
			g.w("super." + g.pick(methodPool))
			if g.chance(1, 2) {
				g.w("(")
				g.args()
				g.w(")")
			}
		} else {
			g.leaf()
		}
	case 31:
		if len(g.privs) > 0 {
			g.primaryNoLit()
			g.w("." + g.pick(g.privs))
			if g.chance(1, 3) {
				g.w(" = ")
				g.assignExpr()
			} else if g.chance(1, 3) {
				g.w("(")
				g.args()
				g.w(")")
			}
		} else {
			g.leaf()
		}
	case 32:
		g.w(g.pick(regexps))
		if g.chance(1, 2) {
			g.w("." + g.pick([]string{"exec", "test"}) + "(")
			g.assignExpr()
			g.w(")")
		}
	case 33:
		// promise chain
		g.w("Promise.resolve(")
		g.assignExpr()
		g.w(").then(")
		g.funcExpr0()
		g.w(")")
	case 34:
		g.w(g.pick(wellKnown))
	default:
		g.leaf()
	}
}

func (g *Gen) funcExpr0() {
	g.w("(")
	g.funcExpr()
	g.w(")")
}

func (g *Gen) safeArgs() {
	n := g.R.Range(0, 2)
	for i := 0; i < n; i++ {
		if i > 0 {
			g.w(", ")
		}
		g.w(g.pick([]string{"0", "1", "2", "3", "8", "16", `"a"`, "[1,2,3]", "{}", "null", "undefined"}))
	}
}

func (g *Gen) memberChain() {
	g.primary()
	n := g.R.Range(1, 3)
	for i := 0; i < n; i++ {
		switch g.R.Intn(6) {
		case 0:
			g.w("?." + g.pick(methodPool))
		case 1:
			g.w("[")
			g.assignExpr()
			g.w("]")
		case 2:
			g.w("?.[")
			g.assignExpr()
			g.w("]")
		default:
			g.w("." + g.pick(methodPool))
		}
	}
}

func (g *Gen) primary() {
	switch g.R.Intn(8) {
	case 0:
		g.arrayLit()
	case 1:
		g.w(g.pick(strLits))
	case 2:
		g.w("(")
		g.objectLit()
		g.w(")")
	case 3:
		g.w("(" + g.pick(numLits) + ")")
	default:
		g.primaryNoLit()
	}
}

func (g *Gen) leaf() {
	switch g.R.Intn(10) {
	case 0, 1:
		g.w(g.pick(numLits))
	case 2:
		g.w(g.pick(strLits))
	case 3:
		g.w(g.pick([]string{"null", "undefined", "true", "false", "this", "NaN", "Infinity", "-Infinity", "-0"}))
	case 4:
		g.w(g.pick(globalsPool))
	case 5:
		g.w("[]")
	case 6:
		g.w("({})")
	default:
		g.w(g.name())
	}
}

// sub generates a small nested program text (for eval / Function bodies).
func (g *Gen) sub(budget int) string {
	sg := &Gen{R: g.R, budget: budget, MaxDep: 3, NoEval: g.chance(2, 3), NoAsync: g.NoAsync, Safe: g.Safe, inFunc: 1}
	n := g.R.Range(1, 2)
	for i := 0; i < n; i++ {
		sg.stmt()
	}
	return sg.b.String()
}

func quote(s string) string {
	var b strings.Builder
	b.WriteByte('"')
	for i := 0; i < len(s); i++ {
		c := s[i]
		switch {
		case c == '"' || c == '\\':
			b.WriteByte('\\')
			b.WriteByte(c)
		case c == '\n':
			b.WriteString("\\n")
		case c == '\r':
			b.WriteString("\\r")
		case c < 0x20:
			fmt.Fprintf(&b, "\\x%02x", c)
		default:
			b.WriteByte(c)
		}
	}
	b.WriteByte('"')
	return b.String()
}

// Quote is the exported JS string literal quoting (bytes >= 0x80 passed through as UTF-8).
func Quote(s string) string { return quote(s) }
