package jsgen

import (
	"strings"

	"verif/harness/core"
)

// Tokenize splits JS-like text into coarse tokens (identifiers, numbers, strings, templates, comments, punctuators, whitespace runs).
// It never fails: unknown bytes become single-byte tokens.
func Tokenize(s string) []string {
	var toks []string
	i := 0
	n := len(s)
	isIdStart := func(c byte) bool {
		return c == '_' || c == '$' || c == '#' || (c >= 'a' && c <= 'z') || (c >= 'A' && c <= 'Z') || c >= 0x80
	}
	isDigit := func(c byte) bool { return c >= '0' && c <= '9' }
	for i < n {
		c := s[i]
		j := i + 1
		switch {
		case c == ' ' || c == '\t' || c == '\n' || c == '\r':
			for j < n && (s[j] == ' ' || s[j] == '\t' || s[j] == '\n' || s[j] == '\r') {
				j++
			}
		case isIdStart(c):
			for j < n && (isIdStart(s[j]) || isDigit(s[j])) {
				j++
			}
		case isDigit(c) || (c == '.' && j < n && isDigit(s[j])):
			for j < n && (isDigit(s[j]) || s[j] == '.' || s[j] == '_' || (s[j] >= 'a' && s[j] <= 'z') || (s[j] >= 'A' && s[j] <= 'Z')) {
				if (s[j] == 'e' || s[j] == 'E') && j+1 < n && (s[j+1] == '+' || s[j+1] == '-') {
					j++
				}
				j++
			}
		case c == '"' || c == '\'' || c == '`':
			for j < n && s[j] != c {
				if s[j] == '\\' && j+1 < n {
					j++
				}
				if s[j] == '\n' && c != '`' {
					break
				}
				j++
			}
			if j < n {
				j++
			}
		case c == '/' && j < n && s[j] == '/':
			for j < n && s[j] != '\n' {
				j++
			}
		case c == '/' && j < n && s[j] == '*':
			k := strings.Index(s[j+1:], "*/")
			if k < 0 {
				j = n
			} else {
				j = j + 1 + k + 2
			}
		default:
			for _, p := range puncts {
				if strings.HasPrefix(s[i:], p) {
					j = i + len(p)
					break
				}
			}
		}
		toks = append(toks, s[i:j])
		i = j
	}
	return toks
}

var puncts = []string{">>>=", "...", "===", "!==", "**=", "<<=", ">>=", ">>>", "&&=", "||=", "??=", "=>", "==", "!=", "<=", ">=", "&&", "||", "??", "?.", "++", "--", "+=", "-=", "*=", "/=", "%=", "&=", "|=", "^=", "<<", ">>", "**"}

var dict = []string{"var", "let", "const", "function", "function*", "async", "await", "yield", "yield*", "class", "extends", "super", "static", "get", "set", "new", "new.target", "delete", "typeof", "void", "in", "of", "instanceof", "this", "null", "undefined", "true", "false", "if", "else", "for", "while", "do", "break", "continue", "return", "throw", "try", "catch", "finally", "switch", "case", "default", "with", "debugger", "import", "export", "enum", "arguments", "eval", "constructor", "prototype", "__proto__",
	"(", ")", "[", "]", "{", "}", ";", ",", ".", "?.", "...", "=>", "=", "==", "===", "+", "-", "*", "/", "%", "**", "++", "--", "!", "~", "&", "|", "^", "&&", "||", "??", "?", ":", "<", ">", "<<", ">>", ">>>", "+=", "??=", "&&=", "||=", "**=", ">>>=", "`", "${", "'", "\"", "#", "#x", "@", "\\", "/", "/*", "*/", "//", "<!--", "-->",
	"0", "1", "-1", "1n", "0n", "08", "0.", ".0", "1e", "1e400", "0x", "0xg", "0b2", "1_", "1__0", "9007199254740993", "2147483648", "4294967296", "1.7976931348623157e308", "5e-324", "0.1.2", "1..toString()", "\\u0061", "\\u{61}", "\\u{110000}", "\\ud800", "\u2028", "\u2029", "\ufeff", "\u00a0", "\x00", "\n", "\r\n", "/(?<a>.)\\k<a>/u", "/[/", "/a/gg", "/(?:/", "/\\p{L}/u", "label:", "a:", "async function*", "for await", "=>{}", "({})", "[]", "``", "`${", "}`", "get x(){}", "static{}", "?.[", "?.(", "!!", "=+", "=-", "in in", "of of", "let let", "yield yield", "async async", "await await", "new new", "super()", "super.x", "this.#x", "#x in", "import(", "import.meta", "...[]", "...{}", "0?.1:2", "a?.b`c`"}

// BracketDepth returns the maximal nesting depth of ( [ { in s (strings and comments not excluded — an over-estimate is fine).
func BracketDepth(s string) int {
	d, m := 0, 0
	for i := 0; i < len(s); i++ {
		switch s[i] {
		case '(', '[', '{':
			d++
			if d > m {
				m = d
			}
		case ')', ']', '}':
			if d > 0 {
				d--
			}
		}
	}
	return m
}

// MaxRun returns the length of the longest run of identical non-space tokens separated only by whitespace
// (prefix-operator / keyword chains that nest without brackets).
func MaxRun(toks []string) int {
	best, cur := 0, 0
	prev := ""
	for _, t := range toks {
		if strings.TrimSpace(t) == "" {
			continue
		}
		if t == prev {
			cur++
		} else {
			cur = 1
			prev = t
		}
		if cur > best {
			best = cur
		}
	}
	return best
}

// Mutate applies 1..k token-level mutations to src; other supplies foreign tokens for splices.
func Mutate(r *core.Rng, src, other string) string {
	toks := Tokenize(src)
	oth := Tokenize(other)
	k := 1 + r.Intn(4)
	if r.Chance(1, 10) {
		k += r.Intn(12)
	}
	for m := 0; m < k; m++ {
		if len(toks) == 0 {
			toks = append(toks, Pick2(r, dict))
			continue
		}
		i := r.Intn(len(toks))
		switch r.Intn(14) {
		case 0: // delete
			toks = append(toks[:i], toks[i+1:]...)
		case 1: // duplicate
			toks = append(toks[:i+1], toks[i:]...)
		case 2: // swap
			j := r.Intn(len(toks))
			toks[i], toks[j] = toks[j], toks[i]
		case 3, 4: // insert from dict
			toks = insertTok(toks, i, Pick2(r, dict))
		case 5: // replace from dict
			toks[i] = Pick2(r, dict)
		case 6: // replace by foreign token
			if len(oth) > 0 {
				toks[i] = oth[r.Intn(len(oth))]
			}
		case 7: // splice a foreign range
			if len(oth) > 0 {
				a := r.Intn(len(oth))
				b := a + 1 + r.Intn(12)
				if b > len(oth) {
					b = len(oth)
				}
				nt := append([]string{}, toks[:i]...)
				nt = append(nt, oth[a:b]...)
				toks = append(nt, toks[i:]...)
			}
		case 8: // delete a range
			j := i + 1 + r.Intn(6)
			if j > len(toks) {
				j = len(toks)
			}
			toks = append(toks[:i], toks[j:]...)
		case 9: // truncate
			if r.Chance(1, 3) {
				toks = toks[:i]
			}
		case 10: // move a range elsewhere
			j := i + 1 + r.Intn(5)
			if j > len(toks) {
				j = len(toks)
			}
			seg := append([]string{}, toks[i:j]...)
			rest := append(append([]string{}, toks[:i]...), toks[j:]...)
			p := 0
			if len(rest) > 0 {
				p = r.Intn(len(rest) + 1)
			}
			nt := append([]string{}, rest[:p]...)
			nt = append(nt, seg...)
			toks = append(nt, rest[p:]...)
		case 11: // duplicate a range a few times (bounded)
			j := i + 1 + r.Intn(4)
			if j > len(toks) {
				j = len(toks)
			}
			seg := append([]string{}, toks[i:j]...)
			reps := 1 + r.Intn(3)
			nt := append([]string{}, toks[:j]...)
			for q := 0; q < reps; q++ {
				nt = append(nt, seg...)
			}
			toks = append(nt, toks[j:]...)
		case 12: // byte-level corruption of a token
			t := []byte(toks[i])
			if len(t) > 0 {
				p := r.Intn(len(t))
				switch r.Intn(3) {
				case 0:
					t[p] = byte(r.Intn(256))
				case 1:
					t = append(t[:p], t[p+1:]...)
				default:
					t = append(t[:p], append([]byte{byte(r.Intn(128))}, t[p:]...)...)
				}
			}
			toks[i] = string(t)
		default: // wrap a range in brackets
			j := i + 1 + r.Intn(5)
			if j > len(toks) {
				j = len(toks)
			}
			open, close := "(", ")"
			switch r.Intn(4) {
			case 0:
				open, close = "[", "]"
			case 1:
				open, close = "{", "}"
			case 2:
				open, close = "`${", "}`"
			}
			nt := append([]string{}, toks[:i]...)
			nt = append(nt, open)
			nt = append(nt, toks[i:j]...)
			nt = append(nt, close)
			toks = append(nt, toks[j:]...)
		}
	}
	return strings.Join(toks, "")
}

func insertTok(toks []string, i int, t string) []string {
	nt := append([]string{}, toks[:i]...)
	nt = append(nt, " ", t, " ")
	return append(nt, toks[i:]...)
}

func Pick2(r *core.Rng, xs []string) string { return xs[r.Intn(len(xs))] }

// RawBytes produces an arbitrary byte string (G3): random bytes, JS-ish bytes, invalid UTF-8, NUL, BOM.
func RawBytes(r *core.Rng) string {
	n := r.Range(0, 200)
	b := make([]byte, 0, n+8)
	if r.Chance(1, 6) {
		b = append(b, 0xEF, 0xBB, 0xBF)
	}
	const jsch = "(){}[];,.=+-*/%<>!&|^~?:'\"`\\ \n\tabcxyz0123456789_$#@"
	for i := 0; i < n; i++ {
		switch r.Intn(10) {
		case 0:
			b = append(b, byte(r.Intn(256)))
		case 1:
			b = append(b, []byte(Pick2(r, dict))...)
		case 2:
			b = append(b, 0xED, 0xA0+byte(r.Intn(32)), 0x80+byte(r.Intn(64))) // CESU surrogate
		case 3:
			b = append(b, 0xF0+byte(r.Intn(8)), 0x80+byte(r.Intn(64)))
		default:
			b = append(b, jsch[r.Intn(len(jsch))])
		}
	}
	return string(b)
}
