package mapref

import (
	"math"
	"math/big"
	"testing"
)

func TestSameValueZero(t *testing.T) {
	if !SameValueZero(Num(math.NaN()), Num(math.Float64frombits(0xfff8000000000123))) || !SameValueZero(Num(0), Num(math.Copysign(0, -1))) ||
		SameValueZero(Num(6), StrASCII("6")) || SameValueZero(Num(10), BigV(big.NewInt(10))) || !SameValueZero(BigV(big.NewInt(10)), BigV(new(big.Int).SetInt64(10))) ||
		SameValueZero(Sym(0), Sym(1)) || SameValueZero(Undef(), Nul()) || !SameValueZero(Str([]uint16{233}), Str([]uint16{233})) {
		t.Fatal("SameValueZero")
	}
}

// the delete / clear / refill during iteration examples of ECMA-262 §24.1.3.5 (notes) and §24.1.5
func TestIterationUnderMutation(t *testing.T) {
	m := New()
	for i := 1; i <= 3; i++ {
		m.Set(Int(i), Int(i*10))
	}
	it := m.NewIter()
	k, _, _ := it.Next() // 1
	if k.N != 1 {
		t.Fatal("first")
	}
	m.Delete(Int(1))
	m.Delete(Int(2))
	m.Set(Int(1), Int(11)) // re-added: goes last
	k, _, _ = it.Next()
	if k.N != 3 || it.Crossings != 1 {
		t.Fatalf("after deleting current and next: %v crossings=%d", k.N, it.Crossings)
	}
	k, v, _ := it.Next()
	if k.N != 1 || v.N != 11 {
		t.Fatal("re-added entry is visited at its new position")
	}
	m.Clear()
	m.Set(Num(math.Copysign(0, -1)), Int(5))
	k, _, ok := it.Next()
	if !ok || k.N != 0 || math.Signbit(k.N) {
		t.Fatal("entry added after clear is visited; -0 is stored as +0")
	}
	if _, _, ok := it.Next(); ok {
		t.Fatal("done")
	}
	m.Set(Int(9), Int(9))
	if _, _, ok := it.Next(); ok {
		t.Fatal("a finished iterator stays finished")
	}
	if m.Size() != 2 || m.ListLen() != 6 {
		t.Fatalf("size=%d list=%d", m.Size(), m.ListLen())
	}
	var seen []float64
	m.ForEach(func(k, v Value) {
		seen = append(seen, k.N)
		if k.N == 0 {
			m.Set(Int(7), Int(7)) // appended during forEach: visited
			m.Delete(Int(9))      // deleted before reached: not visited
		}
	})
	if len(seen) != 2 || seen[1] != 7 {
		t.Fatalf("forEach visits %v", seen)
	}
}
