// Package mapref is the reference model of the ECMAScript keyed collections (ES2023 §24.1 Map, §24.2 Set):
// [[MapData]] / [[SetData]] is an append-only List of entries; delete and clear overwrite entries with the
// special value `empty` (a tombstone) and never shrink the List; keys are compared with SameValueZero (§7.2.11);
// an iterator is a pair (List, index) that skips empty entries and, once it has reported done, stays done
// (§24.1.5.1 CreateMapIterator / §24.2.5.1 CreateSetIterator are generator closures).
//
// The model is deliberately literal: no hash table, no links, linear search. It is written from the
// specification text, not from goja's map.go.
package mapref

import (
	"fmt"
	"math"
	"math/big"
	"strings"
)

// Kind of an ECMAScript language value as far as SameValueZero can tell values apart.
type Kind int

const (
	Undefined Kind = iota
	Null
	Bool
	Number
	String
	BigInt
	Symbol
	Object
)

// Value is an abstract ECMAScript value. Symbols and Objects are identified by ID (identity, not structure).
type Value struct {
	Kind  Kind
	B     bool
	N     float64
	Units []uint16 // String: UTF-16 code units
	Big   *big.Int
	ID    int
}

func Undef() Value          { return Value{Kind: Undefined} }
func Nul() Value            { return Value{Kind: Null} }
func Boolean(b bool) Value  { return Value{Kind: Bool, B: b} }
func Num(f float64) Value   { return Value{Kind: Number, N: f} }
func Str(u []uint16) Value  { return Value{Kind: String, Units: u} }
func BigV(i *big.Int) Value { return Value{Kind: BigInt, Big: i} }
func Sym(id int) Value      { return Value{Kind: Symbol, ID: id} }
func Obj(id int) Value      { return Value{Kind: Object, ID: id} }
func Int(i int) Value       { return Value{Kind: Number, N: float64(i)} }
func StrASCII(s string) Value {
	u := make([]uint16, len(s))
	for i := 0; i < len(s); i++ {
		u[i] = uint16(s[i])
	}
	return Str(u)
}

// SameValueZero implements ES §7.2.11.
func SameValueZero(x, y Value) bool {
	if x.Kind != y.Kind {
		return false
	}
	switch x.Kind {
	case Undefined, Null:
		return true
	case Bool:
		return x.B == y.B
	case Number:
		// §6.1.6.1.15 Number::sameValueZero: NaN equals NaN, +0 equals -0
		if math.IsNaN(x.N) && math.IsNaN(y.N) {
			return true
		}
		return x.N == y.N
	case String:
		if len(x.Units) != len(y.Units) {
			return false
		}
		for i := range x.Units {
			if x.Units[i] != y.Units[i] {
				return false
			}
		}
		return true
	case BigInt:
		return x.Big.Cmp(y.Big) == 0
	case Symbol, Object:
		return x.ID == y.ID
	}
	return false
}

// Render is a canonical text form of a value (used to compare observations with the model).
func (v Value) Render() string {
	switch v.Kind {
	case Undefined:
		return "u"
	case Null:
		return "n"
	case Bool:
		if v.B {
			return "b:true"
		}
		return "b:false"
	case Number:
		if math.IsNaN(v.N) {
			return "d:NaN"
		}
		return fmt.Sprintf("d:%016x", math.Float64bits(v.N))
	case String:
		var b strings.Builder
		fmt.Fprintf(&b, "s:%d:", len(v.Units))
		for _, c := range v.Units {
			if c >= 0x20 && c < 0x7f && c != '\\' {
				b.WriteByte(byte(c))
			} else {
				fmt.Fprintf(&b, "\\u%04x", c)
			}
		}
		return b.String()
	case BigInt:
		return "g:" + v.Big.String()
	case Symbol:
		return fmt.Sprintf("y#%d", v.ID)
	case Object:
		return fmt.Sprintf("o#%d", v.ID)
	}
	return "?"
}

type entry struct {
	key, val Value
	empty    bool
}

// Map models [[MapData]]; a Set is a Map whose values are ignored.
type Map struct {
	entries []entry
}

func New() *Map { return &Map{} }

func (m *Map) find(k Value) int {
	for i := range m.entries {
		if !m.entries[i].empty && SameValueZero(m.entries[i].key, k) {
			return i
		}
	}
	return -1
}

// Set implements Map.prototype.set (§24.1.3.9) / Set.prototype.add (§24.2.3.1): an existing entry keeps its
// position (and, for Map, gets the new value); a new key is appended; a -0 key is stored as +0.
func (m *Map) Set(k, v Value) {
	if i := m.find(k); i >= 0 {
		m.entries[i].val = v
		return
	}
	if k.Kind == Number && k.N == 0 {
		k.N = 0 // -0 -> +0
	}
	m.entries = append(m.entries, entry{key: k, val: v})
}

// Get implements Map.prototype.get (§24.1.3.6).
func (m *Map) Get(k Value) (Value, bool) {
	if i := m.find(k); i >= 0 {
		return m.entries[i].val, true
	}
	return Undef(), false
}

func (m *Map) Has(k Value) bool { return m.find(k) >= 0 }

// Delete implements Map.prototype.delete (§24.1.3.3): the entry becomes empty, the List keeps its length.
func (m *Map) Delete(k Value) bool {
	if i := m.find(k); i >= 0 {
		m.entries[i] = entry{empty: true}
		return true
	}
	return false
}

// Clear implements Map.prototype.clear (§24.1.3.1): every entry becomes empty; the List is not truncated,
// so live iterators keep their index and will see entries appended later.
func (m *Map) Clear() {
	for i := range m.entries {
		m.entries[i] = entry{empty: true}
	}
}

// Size counts the non-empty entries (§24.1.3.10).
func (m *Map) Size() int {
	n := 0
	for i := range m.entries {
		if !m.entries[i].empty {
			n++
		}
	}
	return n
}

// Live returns the live entries in List order.
func (m *Map) Live() (keys, vals []Value) {
	for i := range m.entries {
		if !m.entries[i].empty {
			keys = append(keys, m.entries[i].key)
			vals = append(vals, m.entries[i].val)
		}
	}
	return
}

// ListLen is the length of the underlying List including tombstones.
func (m *Map) ListLen() int { return len(m.entries) }

// Iter models CreateMapIterator: (List, index); done is sticky.
type Iter struct {
	m    *Map
	idx  int
	done bool
	// last is the List index of the entry returned by the previous Next (-1 before the first).
	last int
	// Crossings counts Next calls made while the entry returned by the previous Next had meanwhile become
	// empty (deleted or cleared): the situation the C18 non-triviality rule asks for.
	Crossings int
	Steps     int
}

func (m *Map) NewIter() *Iter { return &Iter{m: m, last: -1} }

// Next returns the next non-empty entry at or after the index, or ok=false (and the iterator is done for good).
func (it *Iter) Next() (k, v Value, ok bool) {
	if it.done {
		return Undef(), Undef(), false
	}
	it.Steps++
	if it.last >= 0 && it.m.entries[it.last].empty {
		it.Crossings++
	}
	for it.idx < len(it.m.entries) {
		e := it.m.entries[it.idx]
		it.last = it.idx
		it.idx++
		if !e.empty {
			return e.key, e.val, true
		}
	}
	it.done = true
	it.last = -1
	return Undef(), Undef(), false
}

func (it *Iter) Done() bool { return it.done }

// Current returns the key of the entry the previous Next returned, if that entry is still live.
func (it *Iter) Current() (Value, bool) {
	if it.done || it.last < 0 || it.m.entries[it.last].empty {
		return Undef(), false
	}
	return it.m.entries[it.last].key, true
}

// ForEach models Map.prototype.forEach (§24.1.3.5): the index loop re-reads the List length every round, so
// entries appended by the callback are visited and entries emptied before being reached are not.
// It returns the number of times an entry that had just been visited was empty when the loop moved on.
func (m *Map) ForEach(cb func(k, v Value)) (crossings int) {
	it := m.NewIter()
	for {
		k, v, ok := it.Next()
		if !ok {
			break
		}
		cb(k, v)
	}
	return it.Crossings
}
