// Package proxyref is a small standalone implementation of the invariant checks that ECMA-262 §10.5
// ("Proxy Object Internal Methods and Internal Slots") prescribes *after* a trap has returned.
// It is written from the specification text (ES2023 numbering in the comments) and knows nothing about goja.
//
// Everything is abstract: values are compared by an identity string (SameValue == string equality, the
// caller is responsible for giving NaN one id, +0 and -0 two different ids, every object its own id).
// Each function takes the *facts about the target that the algorithm queries* (its own property descriptor
// for the key, its extensibility, its prototype, its own keys with their configurability — all as they are at the
// moment the algorithm queries them, i.e. after the trap ran) and the (already type-classified) trap result,
// and returns what the internal method must do: throw a TypeError, or complete normally with a result.
package proxyref

// Val is the identity of an ECMAScript value (SameValue(a,b) <=> a == b).
type Val string

const Undefined Val = "und"
const Null Val = "null"

// Desc is a Property Descriptor record (possibly partial).
type Desc struct {
	HasValue, HasWritable, HasGet, HasSet, HasEnumerable, HasConfigurable bool

	Value        Val
	Writable     bool
	Get, Set     Val // Undefined or a function id
	Enumerable   bool
	Configurable bool
}

func (d *Desc) IsAccessor() bool { return d != nil && (d.HasGet || d.HasSet) }
func (d *Desc) IsData() bool     { return d != nil && (d.HasValue || d.HasWritable) }
func (d *Desc) IsGeneric() bool  { return d != nil && !d.IsAccessor() && !d.IsData() }

// Invalid reports the ToPropertyDescriptor step 10 error: both accessor and data fields present.
func (d *Desc) Invalid() bool { return d.IsAccessor() && d.IsData() }

// Complete is CompletePropertyDescriptor (6.2.6.6).
func (d Desc) Complete() Desc {
	if d.IsGeneric() || d.IsData() {
		if !d.HasValue {
			d.HasValue, d.Value = true, Undefined
		}
		if !d.HasWritable {
			d.HasWritable, d.Writable = true, false
		}
	} else {
		if !d.HasGet {
			d.HasGet, d.Get = true, Undefined
		}
		if !d.HasSet {
			d.HasSet, d.Set = true, Undefined
		}
	}
	if !d.HasEnumerable {
		d.HasEnumerable, d.Enumerable = true, false
	}
	if !d.HasConfigurable {
		d.HasConfigurable, d.Configurable = true, false
	}
	return d
}

// Data / Accessor build complete descriptors.
func Data(v Val, w, e, c bool) *Desc {
	return &Desc{HasValue: true, Value: v, HasWritable: true, Writable: w, HasEnumerable: true, Enumerable: e, HasConfigurable: true, Configurable: c}
}
func Accessor(g, s Val, e, c bool) *Desc {
	return &Desc{HasGet: true, Get: g, HasSet: true, Set: s, HasEnumerable: true, Enumerable: e, HasConfigurable: true, Configurable: c}
}

// IsCompatible is IsCompatiblePropertyDescriptor(Extensible, Desc, Current) (10.1.6.2), i.e.
// ValidateAndApplyPropertyDescriptor(undefined, "", Extensible, Desc, Current) (10.1.6.3) — validation only.
func IsCompatible(extensible bool, desc Desc, current *Desc) bool {
	// 2. If current is undefined, then a. If extensible is false, return false. … e. Return true.
	if current == nil {
		return extensible
	}
	// 4. If Desc does not have any fields, return true.
	if !desc.HasValue && !desc.HasWritable && !desc.HasGet && !desc.HasSet && !desc.HasEnumerable && !desc.HasConfigurable {
		return true
	}
	// 5. If current.[[Configurable]] is false, then
	if !current.Configurable {
		// a. If Desc has a [[Configurable]] field and Desc.[[Configurable]] is true, return false.
		if desc.HasConfigurable && desc.Configurable {
			return false
		}
		// b. If Desc has an [[Enumerable]] field and SameValue(Desc.[[Enumerable]], current.[[Enumerable]]) is false, return false.
		if desc.HasEnumerable && desc.Enumerable != current.Enumerable {
			return false
		}
		// c. If IsGenericDescriptor(Desc) is false and SameValue(IsAccessorDescriptor(Desc), IsAccessorDescriptor(current)) is false, return false.
		if !desc.IsGeneric() && desc.IsAccessor() != current.IsAccessor() {
			return false
		}
		// d. If IsAccessorDescriptor(current) is true, then
		if current.IsAccessor() {
			// i. If Desc has a [[Get]] field and SameValue(Desc.[[Get]], current.[[Get]]) is false, return false.
			if desc.HasGet && desc.Get != current.Get {
				return false
			}
			// ii. If Desc has a [[Set]] field and SameValue(Desc.[[Set]], current.[[Set]]) is false, return false.
			if desc.HasSet && desc.Set != current.Set {
				return false
			}
		} else if !current.Writable {
			// e. Else if current.[[Writable]] is false, then
			// i. If Desc has a [[Writable]] field and Desc.[[Writable]] is true, return false.
			if desc.HasWritable && desc.Writable {
				return false
			}
			// ii. If Desc has a [[Value]] field and SameValue(Desc.[[Value]], current.[[Value]]) is false, return false.
			if desc.HasValue && desc.Value != current.Value {
				return false
			}
		}
	}
	return true
}

// Outcome of a proxy internal method after its trap returned.
type Outcome struct {
	TypeError bool
	Why       string // which spec step throws (documentation only, never compared)
}

func te(why string) Outcome { return Outcome{TypeError: true, Why: why} }

var ok = Outcome{}

// ResultKind classifies the type of a trap result where the algorithm type-checks it.
type ResultKind int

const (
	KObject ResultKind = iota
	KNull
	KUndefined
	KOther // any other primitive
)

// GetPrototypeOf: 10.5.1. protoKind/proto is the trap result; on normal completion the result is proto.
func GetPrototypeOf(protoKind ResultKind, proto Val, targetExtensible bool, targetProto Val) Outcome {
	// 8. If handlerProto is not an Object and handlerProto is not null, throw a TypeError exception.
	if protoKind != KObject && protoKind != KNull {
		return te("10.5.1 step 8: trap result neither Object nor null")
	}
	// 9-10. If extensibleTarget is true, return handlerProto.
	if targetExtensible {
		return ok
	}
	// 12. If SameValue(handlerProto, targetProto) is false, throw a TypeError exception.
	if proto != targetProto {
		return te("10.5.1 step 12: non-extensible target, trap result differs from target prototype")
	}
	return ok
}

// SetPrototypeOf: 10.5.2. The internal method's result is trapResult unless TypeError.
func SetPrototypeOf(v Val, trapResult bool, targetExtensible bool, targetProto Val) Outcome {
	// 9. If booleanTrapResult is false, return false.
	if !trapResult {
		return ok
	}
	// 11. If extensibleTarget is true, return true.
	if targetExtensible {
		return ok
	}
	// 13. If SameValue(V, targetProto) is false, throw a TypeError exception.
	if v != targetProto {
		return te("10.5.2 step 13: non-extensible target, V differs from target prototype")
	}
	return ok
}

// IsExtensible: 10.5.3.
func IsExtensible(trapResult, targetExtensible bool) Outcome {
	// 9. If booleanTrapResult is not targetResult, throw a TypeError exception.
	if trapResult != targetExtensible {
		return te("10.5.3 step 9: trap result differs from target extensibility")
	}
	return ok
}

// PreventExtensions: 10.5.4.
func PreventExtensions(trapResult, targetExtensible bool) Outcome {
	// 8. If booleanTrapResult is true, then a. Let extensibleTarget be ? IsExtensible(target). b. If extensibleTarget is true, throw a TypeError exception.
	if trapResult && targetExtensible {
		return te("10.5.4 step 8.b: trap said true but target still extensible")
	}
	return ok
}

// GetOwnProperty: 10.5.5. kind classifies the raw trap result; result is the outcome of ToPropertyDescriptor
// on it (only for KObject). On normal completion with KObject the method returns result.Complete().
func GetOwnProperty(kind ResultKind, result Desc, targetDesc *Desc, targetExtensible bool) Outcome {
	// 8. If trapResultObj is not an Object and trapResultObj is not undefined, throw a TypeError exception.
	if kind != KObject && kind != KUndefined {
		return te("10.5.5 step 8: trap result neither Object nor undefined")
	}
	// 10. If trapResultObj is undefined, then
	if kind == KUndefined {
		// a. If targetDesc is undefined, return undefined.
		if targetDesc == nil {
			return ok
		}
		// b. If targetDesc.[[Configurable]] is false, throw a TypeError exception.
		if !targetDesc.Configurable {
			return te("10.5.5 step 10.b: non-configurable own property reported as absent")
		}
		// d. If extensibleTarget is false, throw a TypeError exception.
		if !targetExtensible {
			return te("10.5.5 step 10.d: own property of non-extensible target reported as absent")
		}
		return ok
	}
	// 12. Let resultDesc be ? ToPropertyDescriptor(trapResultObj).
	if result.Invalid() {
		return te("ToPropertyDescriptor step 10: accessor and data fields")
	}
	// 13. Perform CompletePropertyDescriptor(resultDesc).
	rd := result.Complete()
	// 14-15. If IsCompatiblePropertyDescriptor(extensibleTarget, resultDesc, targetDesc) is false, throw a TypeError exception.
	if !IsCompatible(targetExtensible, rd, targetDesc) {
		return te("10.5.5 step 15: result descriptor incompatible with target")
	}
	// 16. If resultDesc.[[Configurable]] is false, then
	if !rd.Configurable {
		// a. If targetDesc is undefined or targetDesc.[[Configurable]] is true, throw a TypeError exception.
		if targetDesc == nil || targetDesc.Configurable {
			return te("10.5.5 step 16.a: reported non-configurable, target property absent or configurable")
		}
		// b. If resultDesc has a [[Writable]] field and resultDesc.[[Writable]] is false, then
		//    ii. If targetDesc.[[Writable]] is true, throw a TypeError exception.
		if rd.HasWritable && !rd.Writable {
			if targetDesc.HasWritable && targetDesc.Writable {
				return te("10.5.5 step 16.b.ii: reported non-configurable non-writable, target writable")
			}
		}
	}
	return ok
}

// DefineOwnProperty: 10.5.6. desc is the descriptor passed to [[DefineOwnProperty]]; targetDesc/targetExtensible
// are the target's facts after the trap returned. The method's result is trapResult unless TypeError.
func DefineOwnProperty(desc Desc, trapResult bool, targetDesc *Desc, targetExtensible bool) Outcome {
	// 10. If booleanTrapResult is false, return false.
	if !trapResult {
		return ok
	}
	// 13. If Desc has a [[Configurable]] field and Desc.[[Configurable]] is false, let settingConfigFalse be true.
	settingConfigFalse := desc.HasConfigurable && !desc.Configurable
	// 14. If targetDesc is undefined, then
	if targetDesc == nil {
		// a. If extensibleTarget is false, throw a TypeError exception.
		if !targetExtensible {
			return te("10.5.6 step 14.a: property absent on non-extensible target")
		}
		// b. If settingConfigFalse is true, throw a TypeError exception.
		if settingConfigFalse {
			return te("10.5.6 step 14.b: non-configurable define but property absent")
		}
		return ok
	}
	// 15.a. If IsCompatiblePropertyDescriptor(extensibleTarget, Desc, targetDesc) is false, throw a TypeError exception.
	if !IsCompatible(targetExtensible, desc, targetDesc) {
		return te("10.5.6 step 15.a: Desc incompatible with target property")
	}
	// 15.b. If settingConfigFalse is true and targetDesc.[[Configurable]] is true, throw a TypeError exception.
	if settingConfigFalse && targetDesc.Configurable {
		return te("10.5.6 step 15.b: non-configurable define but target property configurable")
	}
	// 15.c. If IsDataDescriptor(targetDesc) is true, targetDesc.[[Configurable]] is false, and targetDesc.[[Writable]] is true, then
	//       i. If Desc has a [[Writable]] field and Desc.[[Writable]] is false, throw a TypeError exception.
	if targetDesc.IsData() && !targetDesc.Configurable && targetDesc.Writable {
		if desc.HasWritable && !desc.Writable {
			return te("10.5.6 step 15.c.i: non-writable define but non-configurable target property writable")
		}
	}
	return ok
}

// HasProperty: 10.5.7. The result is trapResult unless TypeError.
func HasProperty(trapResult bool, targetDesc *Desc, targetExtensible bool) Outcome {
	// 9. If booleanTrapResult is false, then
	if !trapResult {
		// b. If targetDesc is not undefined, then
		if targetDesc != nil {
			// i. If targetDesc.[[Configurable]] is false, throw a TypeError exception.
			if !targetDesc.Configurable {
				return te("10.5.7 step 9.b.i: non-configurable own property reported absent")
			}
			// iii. If extensibleTarget is false, throw a TypeError exception.
			if !targetExtensible {
				return te("10.5.7 step 9.b.iii: own property of non-extensible target reported absent")
			}
		}
	}
	return ok
}

// Get: 10.5.8. The result is trapResult unless TypeError.
func Get(trapResult Val, targetDesc *Desc) Outcome {
	// 10. If targetDesc is not undefined and targetDesc.[[Configurable]] is false, then
	if targetDesc != nil && !targetDesc.Configurable {
		// a. If IsDataDescriptor(targetDesc) is true and targetDesc.[[Writable]] is false, then
		//    i. If SameValue(trapResult, targetDesc.[[Value]]) is false, throw a TypeError exception.
		if targetDesc.IsData() && !targetDesc.Writable {
			if trapResult != targetDesc.Value {
				return te("10.5.8 step 10.a.i: value differs from non-writable non-configurable target value")
			}
		}
		// b. If IsAccessorDescriptor(targetDesc) is true and targetDesc.[[Get]] is undefined, then
		//    i. If trapResult is not undefined, throw a TypeError exception.
		if targetDesc.IsAccessor() && targetDesc.Get == Undefined {
			if trapResult != Undefined {
				return te("10.5.8 step 10.b.i: non-configurable accessor without getter must yield undefined")
			}
		}
	}
	return ok
}

// Set: 10.5.9. The result is trapResult unless TypeError.
func Set(v Val, trapResult bool, targetDesc *Desc) Outcome {
	// 9. If booleanTrapResult is false, return false.
	if !trapResult {
		return ok
	}
	// 11. If targetDesc is not undefined and targetDesc.[[Configurable]] is false, then
	if targetDesc != nil && !targetDesc.Configurable {
		// a. If IsDataDescriptor(targetDesc) is true and targetDesc.[[Writable]] is false, then
		//    i. If SameValue(V, targetDesc.[[Value]]) is false, throw a TypeError exception.
		if targetDesc.IsData() && !targetDesc.Writable {
			if v != targetDesc.Value {
				return te("10.5.9 step 11.a.i: set reported success for different value on non-writable non-configurable")
			}
		}
		// b. If IsAccessorDescriptor(targetDesc) is true, then i. If targetDesc.[[Set]] is undefined, throw a TypeError exception.
		if targetDesc.IsAccessor() && targetDesc.Set == Undefined {
			return te("10.5.9 step 11.b.i: set reported success on non-configurable accessor without setter")
		}
	}
	return ok
}

// Delete: 10.5.10. The result is trapResult unless TypeError.
func Delete(trapResult bool, targetDesc *Desc, targetExtensible bool) Outcome {
	// 9. If booleanTrapResult is false, return false.
	if !trapResult {
		return ok
	}
	// 11. If targetDesc is undefined, return true.
	if targetDesc == nil {
		return ok
	}
	// 12. If targetDesc.[[Configurable]] is false, throw a TypeError exception.
	if !targetDesc.Configurable {
		return te("10.5.10 step 12: delete reported success, property non-configurable and still there")
	}
	// 14. If extensibleTarget is false, throw a TypeError exception.
	if !targetExtensible {
		return te("10.5.10 step 14: delete reported success, property still there on non-extensible target")
	}
	return ok
}

// KeyType classifies one element of the ownKeys trap result.
type KeyType int

const (
	KeyString KeyType = iota
	KeySymbol
	KeyOther
)

type Key struct {
	Type KeyType
	ID   string // identity of the key among keys of the same type
}

type TargetKey struct {
	Key          Key
	Configurable bool
}

// OwnPropertyKeys: 10.5.11. isObject: the trap result is an Object (array-like); elems its elements.
// On normal completion the method returns elems in order.
func OwnPropertyKeys(isObject bool, elems []Key, targetKeys []TargetKey, targetExtensible bool) Outcome {
	// 8. Let trapResult be ? CreateListFromArrayLike(trapResultArray, « String, Symbol »).
	if !isObject {
		return te("CreateListFromArrayLike step 2: not an Object")
	}
	for _, e := range elems {
		if e.Type != KeyString && e.Type != KeySymbol {
			return te("CreateListFromArrayLike step 6.c: element type not String/Symbol")
		}
	}
	// 9. If trapResult contains any duplicate entries, throw a TypeError exception.
	for i := range elems {
		for j := 0; j < i; j++ {
			if elems[i] == elems[j] {
				return te("10.5.11 step 9: duplicate entries")
			}
		}
	}
	// 16-17. partition target keys; 19. uncheckedResultKeys = copy of trapResult
	unchecked := append([]Key(nil), elems...)
	remove := func(k Key) bool {
		for i := range unchecked {
			if unchecked[i] == k {
				unchecked = append(unchecked[:i], unchecked[i+1:]...)
				return true
			}
		}
		return false
	}
	// 20. For each element key of targetNonconfigurableKeys: a. If key is not in uncheckedResultKeys, throw a TypeError exception.
	for _, tk := range targetKeys {
		if !tk.Configurable {
			if !remove(tk.Key) {
				return te("10.5.11 step 20.a: non-configurable target key missing")
			}
		}
	}
	// 21. If extensibleTarget is true, return trapResult.
	if targetExtensible {
		return ok
	}
	// 22. For each element key of targetConfigurableKeys: a. If key is not in uncheckedResultKeys, throw a TypeError exception.
	for _, tk := range targetKeys {
		if tk.Configurable {
			if !remove(tk.Key) {
				return te("10.5.11 step 22.a: key of non-extensible target missing")
			}
		}
	}
	// 23. If uncheckedResultKeys is not empty, throw a TypeError exception.
	if len(unchecked) > 0 {
		return te("10.5.11 step 23: extra key on non-extensible target")
	}
	return ok
}

// Construct: 10.5.13 step 10: If newObj is not an Object, throw a TypeError exception.
func Construct(resultIsObject bool) Outcome {
	if !resultIsObject {
		return te("10.5.13 step 10: construct trap result not an Object")
	}
	return ok
}
