package strref

import "testing"

func a(s string) Str { return FromUTF8(s) }

func eq(t *testing.T, what string, got, want Str) {
	t.Helper()
	if !Equal(got, want) {
		t.Errorf("%s: got %q want %q", what, ToUTF8(got), ToUTF8(want))
	}
}

// expectations are the results documented in ECMA-262 examples / produced by conforming engines
func TestSpecExamples(t *testing.T) {
	eq(t, "slice", Slice(a("abc"), -2, None), a("bc"))
	eq(t, "slice2", Slice(a("abcdef"), 1, Some(-2)), a("bcd"))
	eq(t, "substring swap", Substring(a("abc"), 2, Some(0)), a("ab"))
	eq(t, "substr", Substr(a("abc"), -2, Some(1)), a("b"))
	eq(t, "padStart", PadStart(a("abc"), 6, a("12"), true), a("121abc"))
	eq(t, "padEnd default", PadEnd(a("abc"), 5, nil, false), a("abc  "))
	eq(t, "padStart empty filler", PadStart(a("abc"), 6, a(""), true), a("abc"))
	eq(t, "trim", Trim(Str{0xfeff, ' ', '\t', '\n', 'x', ' ', 'y', ' ', 0x3000, 0x2028, 0xa0}), a("x y"))
	eq(t, "trim keeps 180e/200b/85", Trim(Str{0x180e, 'x', 0x200b, 0x85}), Str{0x180e, 'x', 0x200b, 0x85})
	eq(t, "replace", Replace(a("abc"), a("b"), a("[$&$`$'$$$1$<x>]")), a("a[bac$$1$<x>]c"))
	eq(t, "replace none", Replace(a("abc"), a("x"), a("y")), a("abc"))
	eq(t, "replace empty", Replace(a("abc"), a(""), a("-")), a("-abc"))
	eq(t, "replaceAll", ReplaceAll(a("aaa"), a("a"), a("$&$&")), a("aaaaaa"))
	eq(t, "replaceAll empty", ReplaceAll(a("ab"), a(""), a("-")), a("-a-b-"))
	eq(t, "replaceAll overlapping", ReplaceAll(a("aaaa"), a("aa"), a("b")), a("bb"))
	eq(t, "join split", Join(Split(a("a,b,,c"), a(","), false, Some(3)), a("|"), true), a("a|b|"))
	if n := len(Split(a(""), a(""), false, None)); n != 0 {
		t.Errorf("''.split('') has %d parts", n)
	}
	if p := Split(a(""), a(","), false, None); len(p) != 1 || len(p[0]) != 0 {
		t.Errorf("''.split(',') = %v", p)
	}
	if p := Split(a("ab"), nil, true, None); len(p) != 1 || !Equal(p[0], a("ab")) {
		t.Errorf("'ab'.split() = %v", p)
	}
	if p := Split(a("ab"), a("x"), false, Some(-1)); len(p) != 1 { // ToUint32(-1) = 2^32-1
		t.Errorf("limit -1: %v", p)
	}
	for _, c := range []struct {
		got, want int
		what      string
	}{
		{LastIndexOf(a("canal"), a("a"), None), 3, "lastIndexOf"},
		{LastIndexOf(a("canal"), a("a"), Some(2)), 1, "lastIndexOf pos"},
		{LastIndexOf(a("abc"), a(""), None), 3, "lastIndexOf empty"},
		{LastIndexOf(a("abc"), a("abcd"), None), -1, "lastIndexOf longer"},
		{IndexOf(a("abc"), a(""), Some(5)), 3, "indexOf empty beyond"},
		{IndexOf(a("abcabc"), a("c"), Some(3)), 5, "indexOf pos"},
		{IndexOf(a("abc"), a("c"), Some(-7)), 2, "indexOf negative pos"},
		{Compare(a("a"), a("B")), 1, "compare"},
		{Compare(Str{0xd800}, Str{0xe000}), -1, "compare by code unit, not code point"},
		{Compare(Str{0xff5e}, Str{0xd83d, 0xde00}), 1, "BMP above surrogates sorts after astral"},
	} {
		if c.got != c.want {
			t.Errorf("%s: got %d want %d", c.what, c.got, c.want)
		}
	}
	if !StartsWith(a("abc"), a("bc"), Some(1)) || StartsWith(a("abc"), a("bc"), None) || !EndsWith(a("abc"), a("ab"), Some(2)) || !EndsWith(a("abc"), a(""), Some(-4)) {
		t.Error("startsWith/endsWith")
	}
	if s, ok := At(a("abc"), -1); !ok || !Equal(s, a("c")) {
		t.Error("at(-1)")
	}
	if _, ok := At(a("abc"), 3); ok {
		t.Error("at(3)")
	}
	if cp, ok := CodePointAt(Str{0xd83d, 0xde00}, 0); !ok || cp != 0x1f600 {
		t.Error("codePointAt pair")
	}
	if cp, ok := CodePointAt(Str{0xd83d, 0xde00}, 1); !ok || cp != 0xde00 {
		t.Error("codePointAt trail")
	}
	if ToUTF8(Str{'a', 0xd800, 'b', 0xd83d, 0xde00, 0xdc00}) != "a\ufffdb\U0001F600\ufffd" {
		t.Error("ToUTF8")
	}
	eq(t, "QuoteJSONString", QuoteJSONString(Str{0xd800, '"', 0x08, 0x1f, 0xd83d, 0xde00, '\\', 0x7f, 0x2028}), append(a(`"\ud800\"\b\u001f`), append(Str{0xd83d, 0xde00}, append(a(`\\`), 0x7f, 0x2028, '"')...)...))
	if len(CodePoints(Str{0xd83d, 0xde00, 0xde00, 0xd83d, 'x'})) != 4 {
		t.Error("CodePoints")
	}
	if IsWellFormed(Str{0xde00, 0xd83d}) || !IsWellFormed(Str{0xd83d, 0xde00}) {
		t.Error("IsWellFormed")
	}
	eq(t, "raw", Raw([]Str{a("x"), a(`\n`), a("")}, []Str{a("1"), a("2")}), a(`x1\n2`))
	if s, ok := FromCodePoint(0x1f600, 0xd800, 'a'); !ok || !Equal(s, Str{0xd83d, 0xde00, 0xd800, 'a'}) {
		t.Error("fromCodePoint")
	}
	if _, ok := FromCodePoint(0x110000); ok {
		t.Error("fromCodePoint range")
	}
}
