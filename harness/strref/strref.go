// Package strref is the reference model of ECMAScript String values and of the String.prototype operations that are
// defined purely on UTF-16 code units (ES2023 §6.1.4, §22.1). A string is a []uint16; nothing here goes through Go
// strings or UTF-8 except the explicitly documented export mapping (ToUTF8 / FromUTF8).
//
// Written from the specification text; integer arguments are taken as already converted (ToIntegerOrInfinity is the
// caller's business: the generators only pass integers), "undefined" arguments are expressed by the Opt type.
//
// Not modelled on purpose: case mapping and normalize (Unicode data tables; goja delegates them to golang.org/x/text,
// the same library any Go model would use) and regular expressions (C20).
package strref

import (
	"unicode/utf8"
)

type Str = []uint16

// Opt is an optional integer argument (Set=false means the argument is undefined / absent).
type Opt struct {
	Set bool
	V   int
}

func Some(v int) Opt { return Opt{true, v} }

var None = Opt{}

func clamp(v, lo, hi int) int {
	if v < lo {
		return lo
	}
	if v > hi {
		return hi
	}
	return v
}

func clone(s Str) Str { return append(Str{}, s...) }

func Equal(a, b Str) bool {
	if len(a) != len(b) {
		return false
	}
	for i := range a {
		if a[i] != b[i] {
			return false
		}
	}
	return true
}

// Compare is the order used by the relational operators on strings (§7.2.13 IsLessThan step 3): lexicographic by code unit.
func Compare(a, b Str) int {
	for i := 0; i < len(a) && i < len(b); i++ {
		if a[i] != b[i] {
			if a[i] < b[i] {
				return -1
			}
			return 1
		}
	}
	switch {
	case len(a) < len(b):
		return -1
	case len(a) > len(b):
		return 1
	}
	return 0
}

func Concat(parts ...Str) Str {
	out := Str{}
	for _, p := range parts {
		out = append(out, p...)
	}
	return out
}

// Slice implements String.prototype.slice (§22.1.3.22).
func Slice(s Str, start int, end Opt) Str {
	n := len(s)
	from := start
	if from < 0 {
		from = max(n+from, 0)
	} else {
		from = min(from, n)
	}
	to := n
	if end.Set {
		to = end.V
		if to < 0 {
			to = max(n+to, 0)
		} else {
			to = min(to, n)
		}
	}
	if from >= to {
		return Str{}
	}
	return clone(s[from:to])
}

// Substring implements String.prototype.substring (§22.1.3.25).
func Substring(s Str, start int, end Opt) Str {
	n := len(s)
	a := clamp(start, 0, n)
	b := n
	if end.Set {
		b = clamp(end.V, 0, n)
	}
	if a > b {
		a, b = b, a
	}
	return clone(s[a:b])
}

// Substr implements String.prototype.substr (Annex B §B.2.2.1).
func Substr(s Str, start int, length Opt) Str {
	n := len(s)
	from := start
	if from < 0 {
		from = max(n+from, 0)
	} else {
		from = min(from, n)
	}
	l := n
	if length.Set {
		l = length.V
	}
	l = clamp(l, 0, n)
	to := min(from+l, n)
	if from >= to {
		return Str{}
	}
	return clone(s[from:to])
}

// At implements String.prototype.at (§22.1.3.1); ok=false means undefined.
func At(s Str, i int) (Str, bool) {
	if i < 0 {
		i += len(s)
	}
	if i < 0 || i >= len(s) {
		return nil, false
	}
	return Str{s[i]}, true
}

// CharAt implements String.prototype.charAt (§22.1.3.2) and, for in-range indices, s[i].
func CharAt(s Str, i int) Str {
	if i < 0 || i >= len(s) {
		return Str{}
	}
	return Str{s[i]}
}

// CharCodeAt (§22.1.3.3); ok=false means NaN.
func CharCodeAt(s Str, i int) (uint16, bool) {
	if i < 0 || i >= len(s) {
		return 0, false
	}
	return s[i], true
}

func isLead(c uint16) bool  { return c >= 0xd800 && c <= 0xdbff }
func isTrail(c uint16) bool { return c >= 0xdc00 && c <= 0xdfff }

// CodePointAtIdx is the abstract operation CodePointAt (§11.1.4): the code point at index i, how many code units it
// takes, and whether it is an unpaired surrogate.
func CodePointAtIdx(s Str, i int) (cp rune, size int, unpaired bool) {
	first := s[i]
	if !isLead(first) && !isTrail(first) {
		return rune(first), 1, false
	}
	if isTrail(first) || i+1 == len(s) {
		return rune(first), 1, true
	}
	second := s[i+1]
	if !isTrail(second) {
		return rune(first), 1, true
	}
	return (rune(first)-0xd800)<<10 + (rune(second) - 0xdc00) + 0x10000, 2, false
}

// CodePointAt implements String.prototype.codePointAt (§22.1.3.4); ok=false means undefined.
func CodePointAt(s Str, i int) (rune, bool) {
	if i < 0 || i >= len(s) {
		return 0, false
	}
	cp, _, _ := CodePointAtIdx(s, i)
	return cp, true
}

// CodePoints splits a string the way the String iterator does (§22.1.5.1): by code points, unpaired surrogates alone.
func CodePoints(s Str) []Str {
	var out []Str
	for i := 0; i < len(s); {
		_, n, _ := CodePointAtIdx(s, i)
		out = append(out, clone(s[i:i+n]))
		i += n
	}
	return out
}

// IsWellFormed: no unpaired surrogate (§22.1.3.10 IsStringWellFormedUnicode).
func IsWellFormed(s Str) bool {
	for i := 0; i < len(s); {
		_, n, bad := CodePointAtIdx(s, i)
		if bad {
			return false
		}
		i += n
	}
	return true
}

// pad implements StringPad (§22.1.3.17.1). filler absent = a single space.
func pad(s Str, maxLength int, filler Str, hasFiller bool, atStart bool) Str {
	if maxLength <= len(s) {
		return clone(s)
	}
	if !hasFiller {
		filler = Str{0x20}
	}
	if len(filler) == 0 {
		return clone(s)
	}
	fillLen := maxLength - len(s)
	fill := Str{}
	for len(fill) < fillLen {
		fill = append(fill, filler...)
	}
	fill = fill[:fillLen]
	if atStart {
		return Concat(fill, s)
	}
	return Concat(s, fill)
}

func PadStart(s Str, maxLength int, filler Str, hasFiller bool) Str {
	return pad(s, maxLength, filler, hasFiller, true)
}
func PadEnd(s Str, maxLength int, filler Str, hasFiller bool) Str {
	return pad(s, maxLength, filler, hasFiller, false)
}

// Repeat implements String.prototype.repeat (§22.1.3.18) for n >= 0 (negative n is a RangeError: ok=false).
func Repeat(s Str, n int) (Str, bool) {
	if n < 0 {
		return nil, false
	}
	out := Str{}
	for i := 0; i < n; i++ {
		out = append(out, s...)
	}
	return out, true
}

// IsWhiteSpaceOrLineTerminator: WhiteSpace (§12.2: TAB VT FF SP NBSP ZWNBSP and every Zs code point) and
// LineTerminator (§12.3: LF CR LS PS). All of them are BMP code points, so the test is per code unit.
func IsWhiteSpaceOrLineTerminator(c uint16) bool {
	switch c {
	case 0x0009, 0x000b, 0x000c, 0x0020, 0x00a0, 0xfeff, // WhiteSpace named
		0x1680, 0x2000, 0x2001, 0x2002, 0x2003, 0x2004, 0x2005, 0x2006, 0x2007, 0x2008, 0x2009, 0x200a, 0x202f, 0x205f, 0x3000, // Zs
		0x000a, 0x000d, 0x2028, 0x2029: // LineTerminator
		return true
	}
	return false
}

// TrimString (§22.1.3.32.1) where: 0 start+end, 1 start, 2 end.
func trim(s Str, where int) Str {
	a, b := 0, len(s)
	if where != 2 {
		for a < b && IsWhiteSpaceOrLineTerminator(s[a]) {
			a++
		}
	}
	if where != 1 {
		for b > a && IsWhiteSpaceOrLineTerminator(s[b-1]) {
			b--
		}
	}
	return clone(s[a:b])
}

func Trim(s Str) Str      { return trim(s, 0) }
func TrimStart(s Str) Str { return trim(s, 1) }
func TrimEnd(s Str) Str   { return trim(s, 2) }

// StringIndexOf (§6.1.4.1): first index >= fromIndex at which search occurs; -1 if none. The empty string matches at
// fromIndex when fromIndex <= len.
func StringIndexOf(s, search Str, fromIndex int) int {
	n := len(s)
	if len(search) == 0 && fromIndex <= n {
		return fromIndex
	}
	for i := fromIndex; i+len(search) <= n; i++ {
		if Equal(s[i:i+len(search)], search) {
			return i
		}
	}
	return -1
}

// IndexOf implements String.prototype.indexOf (§22.1.3.9).
func IndexOf(s, search Str, pos Opt) int {
	start := 0
	if pos.Set {
		start = clamp(pos.V, 0, len(s))
	}
	return StringIndexOf(s, search, start)
}

// LastIndexOf implements String.prototype.lastIndexOf (§22.1.3.11); pos absent = +Infinity.
func LastIndexOf(s, search Str, pos Opt) int {
	n := len(s)
	start := n
	if pos.Set {
		start = clamp(pos.V, 0, n)
	}
	start = min(start, n-len(search))
	for i := start; i >= 0; i-- {
		if Equal(s[i:i+len(search)], search) {
			return i
		}
	}
	return -1
}

// Includes (§22.1.3.8).
func Includes(s, search Str, pos Opt) bool { return IndexOf(s, search, pos) != -1 }

// StartsWith (§22.1.3.24).
func StartsWith(s, search Str, pos Opt) bool {
	start := 0
	if pos.Set {
		start = clamp(pos.V, 0, len(s))
	}
	if len(search) == 0 {
		return true
	}
	end := start + len(search)
	if end > len(s) {
		return false
	}
	return Equal(s[start:end], search)
}

// EndsWith (§22.1.3.7).
func EndsWith(s, search Str, endPos Opt) bool {
	end := len(s)
	if endPos.Set {
		end = clamp(endPos.V, 0, len(s))
	}
	if len(search) == 0 {
		return true
	}
	start := end - len(search)
	if start < 0 {
		return false
	}
	return Equal(s[start:end], search)
}

// Split implements String.prototype.split with a string separator (§22.1.3.23). sepUndefined: the separator argument is
// undefined (the result is [s]). limit absent = 2^32-1.
func Split(s, sep Str, sepUndefined bool, limit Opt) []Str {
	lim := int(^uint32(0))
	if limit.Set {
		lim = int(uint32(int64(limit.V))) // ToUint32 of an integer
	}
	if lim == 0 {
		return []Str{}
	}
	if sepUndefined {
		return []Str{clone(s)}
	}
	if len(s) == 0 {
		if len(sep) > 0 {
			return []Str{{}}
		}
		return []Str{}
	}
	if len(sep) == 0 {
		var out []Str
		for i := 0; i < len(s) && len(out) < lim; i++ {
			out = append(out, Str{s[i]})
		}
		return out
	}
	var out []Str
	i := 0
	j := StringIndexOf(s, sep, 0)
	for j != -1 {
		out = append(out, clone(s[i:j]))
		if len(out) >= lim {
			return out
		}
		i = j + len(sep)
		j = StringIndexOf(s, sep, i)
	}
	out = append(out, clone(s[i:]))
	return out
}

// Join implements Array.prototype.join on an array of strings (§23.1.3.18); sep absent = ",".
func Join(parts []Str, sep Str, hasSep bool) Str {
	if !hasSep {
		sep = Str{','}
	}
	out := Str{}
	for i, p := range parts {
		if i > 0 {
			out = append(out, sep...)
		}
		out = append(out, p...)
	}
	return out
}

// GetSubstitution (§22.1.3.19.1) for a match without capture groups and without named groups:
// $$ -> $, $& -> matched, $` -> text before, $' -> text after; $n / $nn with no captures and $< with no named groups
// are copied literally.
func GetSubstitution(matched, str Str, position int, template Str) Str {
	out := Str{}
	tail := min(position+len(matched), len(str))
	for i := 0; i < len(template); {
		c := template[i]
		if c != '$' || i+1 >= len(template) {
			out = append(out, c)
			i++
			continue
		}
		switch template[i+1] {
		case '$':
			out = append(out, '$')
			i += 2
		case '&':
			out = append(out, matched...)
			i += 2
		case '`':
			out = append(out, str[:position]...)
			i += 2
		case '\'':
			out = append(out, str[tail:]...)
			i += 2
		default:
			out = append(out, c)
			i++
		}
	}
	return out
}

// Replace implements String.prototype.replace with a string pattern and a string replacement (§22.1.3.19).
func Replace(s, pat, repl Str) Str {
	pos := StringIndexOf(s, pat, 0)
	if pos == -1 {
		return clone(s)
	}
	return Concat(s[:pos], GetSubstitution(pat, s, pos, repl), s[min(pos+len(pat), len(s)):])
}

// ReplaceAll implements String.prototype.replaceAll with a string pattern and a string replacement (§22.1.3.20).
func ReplaceAll(s, pat, repl Str) Str {
	adv := max(1, len(pat))
	var positions []int
	for p := StringIndexOf(s, pat, 0); p != -1; p = StringIndexOf(s, pat, p+adv) {
		positions = append(positions, p)
		if p+adv > len(s) {
			break
		}
	}
	end := 0
	out := Str{}
	for _, p := range positions {
		out = append(out, s[end:p]...)
		out = append(out, GetSubstitution(pat, s, p, repl)...)
		end = p + len(pat)
	}
	if end < len(s) {
		out = append(out, s[end:]...)
	}
	return out
}

// FromCharCode (§22.1.2.1): arguments already ToUint16-ed.
func FromCharCode(units ...uint16) Str { return append(Str{}, units...) }

// FromCodePoint (§22.1.2.2) for valid code points 0..0x10FFFF (anything else is a RangeError: ok=false).
func FromCodePoint(cps ...rune) (Str, bool) {
	out := Str{}
	for _, cp := range cps {
		switch {
		case cp < 0 || cp > 0x10ffff:
			return nil, false
		case cp < 0x10000:
			out = append(out, uint16(cp))
		default:
			cp -= 0x10000
			out = append(out, uint16(0xd800+(cp>>10)), uint16(0xdc00+(cp&0x3ff)))
		}
	}
	return out, true
}

// ToUTF8 is goja's documented export mapping (Value.Export / String()): code points of well-formed pairs, U+FFFD for every
// unpaired surrogate.
func ToUTF8(s Str) string {
	buf := make([]byte, 0, len(s)*3)
	for i := 0; i < len(s); {
		cp, n, bad := CodePointAtIdx(s, i)
		if bad {
			cp = utf8.RuneError
		}
		buf = utf8.AppendRune(buf, cp)
		i += n
	}
	return string(buf)
}

// FromUTF8 is the import mapping of Runtime.ToValue(goString) for valid UTF-8.
func FromUTF8(g string) Str {
	out := Str{}
	for _, r := range g {
		u, _ := FromCodePoint(r)
		out = append(out, u...)
	}
	return out
}

// ReplaceLoneSurrogates maps every unpaired surrogate to U+FFFD (String.prototype.toWellFormed, §22.1.3.31; also the
// documented behaviour of goja's JSON.parse for escaped unpaired surrogates).
func ReplaceLoneSurrogates(s Str) Str {
	out := Str{}
	for i := 0; i < len(s); {
		_, n, bad := CodePointAtIdx(s, i)
		if bad {
			out = append(out, 0xfffd)
		} else {
			out = append(out, s[i:i+n]...)
		}
		i += n
	}
	return out
}

const hexDigits = "0123456789abcdef"

// QuoteJSONString (§25.5.2.3): JSON.stringify of a string value.
func QuoteJSONString(s Str) Str {
	out := Str{'"'}
	for i := 0; i < len(s); {
		cp, n, bad := CodePointAtIdx(s, i)
		switch {
		case cp == 0x08:
			out = append(out, '\\', 'b')
		case cp == 0x09:
			out = append(out, '\\', 't')
		case cp == 0x0a:
			out = append(out, '\\', 'n')
		case cp == 0x0c:
			out = append(out, '\\', 'f')
		case cp == 0x0d:
			out = append(out, '\\', 'r')
		case cp == 0x22:
			out = append(out, '\\', '"')
		case cp == 0x5c:
			out = append(out, '\\', '\\')
		case cp < 0x20 || bad:
			out = append(out, '\\', 'u', uint16(hexDigits[(cp>>12)&15]), uint16(hexDigits[(cp>>8)&15]), uint16(hexDigits[(cp>>4)&15]), uint16(hexDigits[cp&15]))
		default:
			out = append(out, s[i:i+n]...)
		}
		i += n
	}
	return append(out, '"')
}

// Raw implements String.raw for a template whose raw strings are `raws` and substitutions `subs` (§22.1.2.4).
func Raw(raws []Str, subs []Str) Str {
	out := Str{}
	for i, r := range raws {
		out = append(out, r...)
		if i+1 < len(raws) && i < len(subs) {
			out = append(out, subs[i]...)
		}
	}
	return out
}

// ASCII converts a Go ASCII string.
func ASCII(s string) Str {
	out := make(Str, len(s))
	for i := 0; i < len(s); i++ {
		out[i] = uint16(s[i])
	}
	return out
}
