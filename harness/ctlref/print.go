package ctlref

import (
	"fmt"
	"strings"
)

// Prelude is the JavaScript instrumentation library every printed program starts with. The host provides the
// natives ev(tag, a, ints…), evv(tag, a, int, value), dres(a, id, iterResult), log(k, a) (returns k), sink(…) and
// goForOf(iterable, op, at, a, id, thrower) (drives Runtime.ForOf from Go, see GoForOf).
// The interpreter (interp.go) implements exactly these functions natively; keep the two in step.
// deep(n, f) only adds n call-stack levels (return() runs one level, callbacks two levels deeper than next()), so that
// the call-stack-limit sweep can make exactly those calls overflow; it has no other observable effect.
var Prelude = `var seq = 0;
function mk(a, id, n, throwAt, badAt, retMode, pairs, tdn, tdr, tm) {
  var inst = ++seq, j = 0;
  ev("M", a, id, inst);
  var it = {
    next: function() {
      nest(tdn, tm);
      j++;
      if (j === throwAt) { ev("Nt", a, id, inst, j); throw 30000 + id * 16 + j; }
      if (j === badAt) { ev("Nb", a, id, inst, j); return 5; }
      if (j > n) { ev("Nd", a, id, inst, j); return {value: undefined, done: true}; }
      ev("Nv", a, id, inst, j);
      var v = 10000 + id * 16 + j;
      return {value: pairs ? [v, j] : v, done: false};
    }
  };
  it[Symbol.iterator] = function() { return this; };
  if (retMode) it.return = function() { return deep(1, function() {
    nest(tdr, tm);
    if (retMode === 2) { ev("Rt", a, id, inst); throw 40000 + id; }
    if (retMode === 3) { ev("Rb", a, id, inst); return 7; }
    ev("Ro", a, id, inst);
    return {value: 50000 + id, done: true};
  }); };
  return it;
}
function deep(n, f) { return n > 0 ? deep(n - 1, f) : f(); }
function lg(d, k, a) { return deep(d, function() { return log(k, a); }); }
function gen(a, site, k, gf) { var inst = ++seq; ev("G", a, site, k, inst); return gf(inst); }
function mf(a, id, at) { var c = 0; return function(v) { return deep(2, function() { if (++c === at) { ev("MF", a, id, c); throw 60000 + id; } return v; }); }; }
function thrS(a, id, at) { var c = 0; return class extends Set { add(v) { deep(2, function() { if (++c === at) { ev("AD", a, id, c); throw 61000 + id; } }); return super.add(v); } }; }
function thrM(a, id, at) { var c = 0; return class extends Map { set(k, v) { deep(2, function() { if (++c === at) { ev("AD", a, id, c); throw 61000 + id; } }); return super.set(k, v); } }; }
function thrower(a, id) { return { set p(v) { deep(2, function() { ev("SX", a, id); throw 62000 + id; }); } }; }
function nestR(n, thr) { try { if (n > 1) nestR(n - 1, thr); else if (thr) throw 77; } finally { } }
` + flatNest(9)

// flatNest builds nest(n, m): n nested try statements at the deepest point (the outermost has a catch clause, the others a
// finally block); m bit 0: the innermost level throws (caught by the outermost); m bit 1: nesting by recursion (nestR), else
// written out flat in one function (up to max levels). No events, no result: its only effect is on the engine's try stack.
func flatNest(max int) string {
	var b strings.Builder
	b.WriteString("function nest(n, m) {\n  if (!(n > 0)) return;\n  var thr = (m & 1) === 1;\n  try {\n    if (m & 2) { if (n > 1) nestR(n - 1, thr); else if (thr) throw 77; }\n    else {\n")
	var level func(i int)
	level = func(i int) {
		ind := strings.Repeat("  ", i+2)
		if i >= max {
			b.WriteString(ind + "if (thr) throw 77;\n")
			return
		}
		fmt.Fprintf(&b, "%sif (n > %d) {\n%s  try {\n", ind, i, ind)
		level(i + 1)
		fmt.Fprintf(&b, "%s  } finally { }\n%s} else if (thr) throw 77;\n", ind, ind)
	}
	level(1)
	b.WriteString("    }\n  } catch (e) { }\n}\n")
	return b.String()
}

// Mode of the printed program.
const (
	ModeFunction = 0 // main body inside (function(){…})()
	ModeGlobal   = 1 // main body at script level (illegal if main contains return)
)

type printer struct {
	b   strings.Builder
	ind int
}

func (p *printer) line(s string) {
	for i := 0; i < p.ind; i++ {
		p.b.WriteString("  ")
	}
	p.b.WriteString(s)
	p.b.WriteByte('\n')
}

func (p *printer) linef(f string, a ...any) { p.line(fmt.Sprintf(f, a...)) }

func iterSrc(n *Node) string {
	it := n.Iter
	if it.Gen > 0 {
		return fmt.Sprintf("gen(a, %d, %d, G%d)", n.ID, it.Gen, it.Gen)
	}
	pr := 0
	if it.Pairs {
		pr = 1
	}
	if it.TDN != 0 || it.TDR != 0 {
		return fmt.Sprintf("mk(a, %d, %d, %d, %d, %d, %d, %d, %d, %d)", n.ID, it.N, it.ThrowAt, it.BadAt, it.Ret, pr, it.TDN, it.TDR, it.TM)
	}
	return fmt.Sprintf("mk(a, %d, %d, %d, %d, %d, %d)", n.ID, it.N, it.ThrowAt, it.BadAt, it.Ret, pr)
}

func exprSrc(e Expr) string {
	switch e.Kind {
	case CTrue:
		return "true"
	case CFalse:
		return "false"
	case CCounterEq:
		return fmt.Sprintf("c%d === %d", e.D, e.K)
	case CLit:
		return fmt.Sprint(e.K)
	case CCounter:
		return fmt.Sprintf("c%d", e.D)
	}
	return "false"
}

func (p *printer) list(l []*Node, d int) {
	for _, n := range l {
		p.stmt(n, d, "")
	}
}

// stmt prints one statement; labels is the label prefix ("L1: L2: ") to put directly before the statement proper
// (after hoisted pre-statements).
func (p *printer) stmt(n *Node, d int, labels string) {
	id := n.ID
	switch n.Kind {
	case Labelled:
		p.stmt(n.Stmts[0], d, labels+n.Label+": ")
	case Block:
		p.line(labels + "{")
		p.ind++
		if n.Scoped {
			p.linef("let z%d = function() { return z%d; };", id, id)
		}
		p.list(n.Stmts, d)
		p.ind--
		p.line("}")
	case If:
		p.linef("%sif (%s) {", labels, exprSrc(n.Cond))
		p.ind++
		p.list(n.Stmts, d)
		p.ind--
		if n.HasElse {
			p.line("} else {")
			p.ind++
			p.list(n.Else, d)
			p.ind--
		}
		p.line("}")
	case For, While, DoWhile, ForIn, ForOf:
		switch n.Kind {
		case For:
			p.linef("var c%d = 0;", d)
			if n.Scoped {
				p.linef("%sfor (let j%d = 0; j%d < %d; j%d++) {", labels, d, d, n.Trip, d)
			} else {
				p.linef("%sfor (var i%d = 0; i%d < %d; i%d++) {", labels, d, d, n.Trip, d)
			}
		case While:
			p.linef("var c%d = 0, i%d = 0;", d, d)
			p.linef("%swhile (i%d++ < %d) {", labels, d, n.Trip)
		case DoWhile:
			p.linef("var c%d = 0, i%d = 0;", d, d)
			p.linef("%sdo {", labels)
		case ForIn:
			keys := make([]string, n.Trip)
			for i := range keys {
				keys[i] = fmt.Sprintf("p%d: 1", i)
			}
			p.linef("var c%d = 0;", d)
			p.linef("%sfor (var k%d in {%s}) {", labels, d, strings.Join(keys, ", "))
		case ForOf:
			p.linef("var c%d = 0;", d)
			p.linef("%sfor (var v%d of %s) {", labels, d, iterSrc(n))
		}
		p.ind++
		p.linef(`var _ = ev("I", a, %d, ++c%d);`, id, d)
		if n.Kind == For && n.Scoped {
			p.linef("var _ = function() { return j%d; };", d)
		}
		p.list(n.Stmts, d+1)
		p.ind--
		if n.Kind == DoWhile {
			p.linef("} while (++i%d < %d);", d, n.Trip)
		} else {
			p.line("}")
		}
	case Switch:
		p.linef("%sswitch (%s) {", labels, exprSrc(n.Cond))
		p.ind++
		for _, c := range n.Cases {
			if c.Default {
				p.line("default:")
			} else {
				p.linef("case %d:", c.Val)
			}
			p.ind++
			p.list(c.Body, d)
			p.ind--
		}
		p.ind--
		p.line("}")
	case With:
		p.line(labels + "with ({}) {")
		p.ind++
		p.list(n.Stmts, d)
		p.ind--
		p.line("}")
	case Try:
		p.line(labels + "try {")
		p.ind++
		p.linef(`var _ = ev("T+", a, %d);`, id)
		p.list(n.Stmts, d)
		p.linef(`var _ = ev("T-", a, %d);`, id)
		p.ind--
		if n.HasCatch {
			if n.CatchParam {
				p.line("} catch (ex) {")
				p.ind++
				p.linef(`var _ = evv("C", a, %d, ex);`, id)
			} else {
				p.line("} catch {")
				p.ind++
				p.linef(`var _ = ev("C", a, %d);`, id)
			}
			p.list(n.Catch, d)
			p.linef(`var _ = ev("C-", a, %d);`, id)
			p.ind--
		}
		if n.HasFinally {
			p.line("} finally {")
			p.ind++
			p.linef(`var _ = ev("F", a, %d);`, id)
			p.list(n.Finally, d)
			p.linef(`var _ = ev("F-", a, %d);`, id)
			p.ind--
		}
		p.line("}")
	case Throw:
		p.linef(`var _ = ev("Xt", a, %d);`, id)
		p.linef("%sthrow %d;", labels, 1000+id)
	case Return:
		p.linef(`var _ = ev("Xr", a, %d);`, id)
		p.linef("%sreturn %d;", labels, 2000+id)
	case Break:
		p.linef(`var _ = ev("Xb", a, %d);`, id)
		if n.Label != "" {
			p.linef("%sbreak %s;", labels, n.Label)
		} else {
			p.line(labels + "break;")
		}
	case Continue:
		p.linef(`var _ = ev("Xc", a, %d);`, id)
		if n.Label != "" {
			p.linef("%scontinue %s;", labels, n.Label)
		} else {
			p.line(labels + "continue;")
		}
	case Log:
		if d := id % 3; d != 0 {
			p.linef("%slg(%d, %d, a);", labels, d, id) // same as log(id, a), d call-stack levels deeper
		} else {
			p.linef("%slog(%d, a);", labels, id)
		}
	case Destruct:
		var el []string
		for i := 1; i <= n.NElems; i++ {
			if !n.Decl && n.At == i {
				el = append(el, fmt.Sprintf("thrower(a, %d).p", id))
			} else {
				el = append(el, fmt.Sprintf("e%d", i))
			}
		}
		if n.Rest {
			el = append(el, "...r")
		}
		if n.Decl {
			p.linef("%svar [%s] = %s;", labels, strings.Join(el, ", "), iterSrc(n))
		} else {
			p.linef("%s[%s] = %s;", labels, strings.Join(el, ", "), iterSrc(n))
		}
	case Spread:
		if n.Decl {
			p.linef("%ssink(...%s);", labels, iterSrc(n))
		} else {
			p.linef("%s[...%s];", labels, iterSrc(n))
		}
	case ArrayFrom:
		if n.At != 0 {
			p.linef("%sArray.from(%s, mf(a, %d, %d));", labels, iterSrc(n), id, n.At)
		} else {
			p.linef("%sArray.from(%s);", labels, iterSrc(n))
		}
	case NewMap:
		if n.At != 0 {
			p.linef("%snew (thrM(a, %d, %d))(%s);", labels, id, n.At, iterSrc(n))
		} else {
			p.linef("%snew Map(%s);", labels, iterSrc(n))
		}
	case NewSet:
		if n.At != 0 {
			p.linef("%snew (thrS(a, %d, %d))(%s);", labels, id, n.At, iterSrc(n))
		} else {
			p.linef("%snew Set(%s);", labels, iterSrc(n))
		}
	case PromiseAll:
		p.linef(`%sPromise.all(%s).then(function() { ev("PAo", a, %d); }, function(ex) { evv("PAr", a, %d, ex); });`, labels, iterSrc(n), id, id)
	case GoForOf:
		p.linef("%sgoForOf(%s, %d, %d, a, %d, function(v) { throw %d; });", labels, iterSrc(n), n.Op, n.At, id, 63000+id)
	case YieldStar:
		p.linef(`var _ = ev("Y*", a, %d);`, id)
		p.linef("%syield* %s;", labels, iterSrc(n))
		p.linef(`var _ = ev("Y*-", a, %d);`, id)
	case Yield:
		p.linef(`var _ = ev("Y", a, %d);`, id)
		p.linef("%syield %d;", labels, 20000+id)
		p.linef(`var _ = ev("Y-", a, %d);`, id)
	case Nest:
		p.linef("%svar _ = nest(%d, %d);", labels, n.TD, n.TM)
	case GenNew:
		p.linef("%svar g%d = gen(a, %d, %d, G%d);", labels, n.Var, id, n.Gen, n.Gen)
	case GenOp:
		m := [...]string{"next", "return", "throw"}[n.Op]
		p.linef(`var _ = ev("D>", a, %d, %d);`, id, n.Op)
		p.linef("%svar _ = dres(a, %d, g%d.%s(%d));", labels, id, n.Var, m, 4000+100*n.Op+id)
	}
}

const locals = "var e1, e2, e3, e4, e5, r;"

// HasReturn reports whether the main body contains a return statement (then it cannot be printed at global level).
func (p *Program) HasReturn() bool {
	has := false
	Walk(p.Main, func(n *Node) {
		if n.Kind == Return {
			has = true
		}
	})
	return has
}

// JS prints the program (Number() must have been called).
func (prog *Program) JS(mode int) string {
	p := &printer{}
	p.b.WriteString(Prelude)
	for i, g := range prog.Gens {
		p.linef("function* G%d(a) {", i+1)
		p.ind++
		p.line(locals)
		p.line(`var _ = ev("G+", a);`)
		p.list(g.Body, 0)
		p.line(`var _ = ev("G-", a);`)
		p.ind--
		p.line("}")
	}
	if mode == ModeFunction {
		p.line("(function() {")
		p.ind++
	}
	p.line("var a = 0;")
	p.line(locals)
	p.list(prog.Main, 0)
	if mode == ModeFunction {
		p.ind--
		p.line("})()")
	}
	return p.b.String()
}

// Body prints only the program-specific part (without the prelude), for reports and signatures.
func (prog *Program) Body(mode int) string {
	return strings.TrimPrefix(prog.JS(mode), Prelude)
}
