package ctlref

import (
	"fmt"
	"strings"
)

// Rand is the only randomness source of the sampled enumerator (the harness passes its splitmix64 generator).
type Rand interface{ Intn(n int) int }

// ---- exhaustive chain skeletons: every nesting of region kinds to a given depth ----

// Chain region kinds.
const (
	ckTryF = iota
	ckTryC
	ckTryCF
	ckInCatch
	ckInCatchF
	ckInFinally
	ckInFinallyThrow
	ckFor
	ckWhile
	ckDoWhile
	ckForIn
	ckForOfOK
	ckForOfNoRet
	ckForOfRetThrows
	ckForOfRetBad
	ckForOfGen
	ckSwitch
	ckWith
	ckLabelBlock
	ckScopedBlock
	ckIf
	ckGenForOf
	ckGenDriver
	ckForLet
	NumChainKinds
)

var chainNames = [...]string{"tryF", "tryC", "tryCF", "inCatch", "inCatchF", "inFinally", "inFinallyThrow", "for", "while", "dowhile", "forin",
	"forof", "forof-noret", "forof-retthrows", "forof-retbad", "forofG", "switch", "with", "lblock", "sblock", "if", "genbody-forof", "genbody-driver", "forlet"}

func ChainName(kinds []int) string {
	s := make([]string, len(kinds))
	for i, k := range kinds {
		s[i] = chainNames[k]
	}
	return strings.Join(s, ">")
}

// ChainKinds decodes index into a kind vector of the given depth (mixed radix NumChainKinds).
func ChainKinds(depth, index int) []int {
	k := make([]int, depth)
	for i := depth - 1; i >= 0; i-- {
		k[i] = index % NumChainKinds
		index /= NumChainKinds
	}
	return k
}

func pow(b, e int) int {
	r := 1
	for ; e > 0; e-- {
		r *= b
	}
	return r
}

// NumChains is the number of chain skeletons of exactly the given depth.
func NumChains(depth int) int { return pow(NumChainKinds, depth) }

func lg() *Node { return &Node{Kind: Log} }

type chainBuilder struct {
	p       *Program
	helperG int // index of the fixed helper generator (0 = not yet created)
}

func (cb *chainBuilder) helper() int {
	if cb.helperG == 0 {
		body := []*Node{lg(),
			{Kind: Try, HasFinally: true, Stmts: []*Node{{Kind: Yield}, lg(), {Kind: Yield}, lg()}, Finally: []*Node{lg()}},
			lg()}
		cb.p.Gens = append(cb.p.Gens, &GenDef{Body: body})
		cb.helperG = len(cb.p.Gens)
	}
	return cb.helperG
}

func (cb *chainBuilder) build(kinds []int, level int, inGen bool) []*Node {
	if len(kinds) == 0 {
		if inGen {
			return []*Node{lg(), {Kind: Yield}, lg()}
		}
		return []*Node{lg()}
	}
	k := kinds[0]
	label := fmt.Sprintf("L%d", level)
	inner := func() []*Node {
		l := []*Node{lg()}
		l = append(l, cb.build(kinds[1:], level+1, inGen)...)
		return append(l, lg())
	}
	lab := func(n *Node) *Node { return &Node{Kind: Labelled, Label: label, Stmts: []*Node{n}} }
	var reg *Node
	switch k {
	case ckTryF:
		reg = &Node{Kind: Try, HasFinally: true, Stmts: inner(), Finally: []*Node{lg()}}
	case ckTryC:
		reg = &Node{Kind: Try, HasCatch: true, CatchParam: true, Stmts: inner(), Catch: []*Node{lg()}}
	case ckTryCF:
		reg = &Node{Kind: Try, HasCatch: true, HasFinally: true, Stmts: inner(), Catch: []*Node{lg()}, Finally: []*Node{lg()}}
	case ckInCatch:
		reg = &Node{Kind: Try, HasCatch: true, CatchParam: true, Stmts: []*Node{lg(), {Kind: Throw}}, Catch: inner()}
	case ckInCatchF:
		reg = &Node{Kind: Try, HasCatch: true, HasFinally: true, Stmts: []*Node{{Kind: Throw}}, Catch: inner(), Finally: []*Node{lg()}}
	case ckInFinally:
		reg = &Node{Kind: Try, HasFinally: true, Stmts: []*Node{lg()}, Finally: inner()}
	case ckInFinallyThrow:
		reg = &Node{Kind: Try, HasFinally: true, Stmts: []*Node{lg(), {Kind: Throw}}, Finally: inner()}
	case ckFor:
		reg = lab(&Node{Kind: For, Trip: 2, Stmts: inner()})
	case ckForLet:
		reg = lab(&Node{Kind: For, Trip: 2, Scoped: true, Stmts: inner()})
	case ckWhile:
		reg = lab(&Node{Kind: While, Trip: 2, Stmts: inner()})
	case ckDoWhile:
		reg = lab(&Node{Kind: DoWhile, Trip: 2, Stmts: inner()})
	case ckForIn:
		reg = lab(&Node{Kind: ForIn, Trip: 2, Stmts: inner()})
	case ckForOfOK:
		reg = lab(&Node{Kind: ForOf, Iter: Iter{N: 2, Ret: RetOK}, Stmts: inner()})
	case ckForOfNoRet:
		reg = lab(&Node{Kind: ForOf, Iter: Iter{N: 2, Ret: RetNone}, Stmts: inner()})
	case ckForOfRetThrows:
		reg = lab(&Node{Kind: ForOf, Iter: Iter{N: 2, Ret: RetThrows}, Stmts: inner()})
	case ckForOfRetBad:
		reg = lab(&Node{Kind: ForOf, Iter: Iter{N: 2, Ret: RetBad}, Stmts: inner()})
	case ckForOfGen:
		reg = lab(&Node{Kind: ForOf, Iter: Iter{Gen: cb.helper()}, Stmts: inner()})
	case ckSwitch:
		reg = lab(&Node{Kind: Switch, Cond: Expr{Kind: CLit, K: 1}, Cases: []Case{
			{Val: 0, Body: []*Node{lg()}},
			{Val: 1, Body: inner()},
			{Default: true, Body: []*Node{lg()}},
			{Val: 2, Body: []*Node{lg()}},
		}})
	case ckWith:
		reg = &Node{Kind: With, Stmts: inner()}
	case ckLabelBlock:
		reg = lab(&Node{Kind: Block, Stmts: inner()})
	case ckScopedBlock:
		reg = &Node{Kind: Block, Scoped: true, Stmts: inner()}
	case ckIf:
		reg = &Node{Kind: If, Cond: Expr{Kind: CTrue}, Stmts: inner(), HasElse: true, Else: []*Node{lg()}}
	case ckGenForOf, ckGenDriver:
		g := &GenDef{}
		cb.p.Gens = append(cb.p.Gens, g)
		gi := len(cb.p.Gens)
		body := []*Node{lg()}
		body = append(body, cb.build(kinds[1:], level+1, true)...)
		body = append(body, lg())
		g.Body = body
		if k == ckGenForOf {
			return []*Node{lg(), lab(&Node{Kind: ForOf, Iter: Iter{Gen: gi}, Stmts: []*Node{lg()}}), lg()}
		}
		l := []*Node{{Kind: GenNew, Var: gi, Gen: gi}}
		for i := 0; i < 4; i++ {
			l = append(l, &Node{Kind: GenOp, Var: gi, Op: 0})
		}
		return append(l, lg())
	}
	return []*Node{lg(), reg, lg()}
}

// Chain builds the chain skeleton for a vector of region kinds.
func Chain(kinds []int) *Program {
	p := &Program{}
	cb := &chainBuilder{p: p}
	p.Main = cb.build(kinds, 0, false)
	p.Number()
	return p
}

// ---- sampled tree skeletons ----

type rgen struct {
	r       Rand
	p       *Program
	budget  int
	labelNo int
	maxDep  int
}

func (g *rgen) pick(w ...int) int {
	t := 0
	for _, x := range w {
		t += x
	}
	k := g.r.Intn(t)
	for i, x := range w {
		if k < x {
			return i
		}
		k -= x
	}
	return len(w) - 1
}

type rctx struct {
	fn      int   // 0 main, k generator k
	depth   int   // region nesting depth
	loops   int   // loop depth
	drivers []int // generator variable slots available (main only)
}

func (g *rgen) iter(c rctx, forMap bool) Iter {
	ng := len(g.p.Gens)
	if ng > c.fn && g.r.Intn(3) == 0 && !forMap {
		// a generator with a higher index than the current function (no recursion)
		return Iter{Gen: c.fn + 1 + g.r.Intn(ng-c.fn)}
	}
	it := Iter{N: g.r.Intn(4)}
	it.Ret = []int{RetOK, RetOK, RetOK, RetOK, RetNone, RetNone, RetThrows, RetBad}[g.r.Intn(8)]
	if forMap && g.r.Intn(4) != 0 {
		it.Pairs = true
	}
	return it
}

func (g *rgen) maybeLabel(n *Node) *Node {
	if g.r.Intn(2) == 0 {
		g.labelNo++
		return &Node{Kind: Labelled, Label: fmt.Sprintf("M%d", g.labelNo), Stmts: []*Node{n}}
	}
	return n
}

func (g *rgen) list(c rctx, min int) []*Node {
	n := min + g.r.Intn(3)
	var l []*Node
	for i := 0; i < n; i++ {
		l = append(l, g.stmt(c))
	}
	return l
}

func (g *rgen) leaf(c rctx) *Node {
	g.budget--
	inGen := c.fn > 0
	for {
		switch g.pick(6, 2, 2, 1, 1, 1, 1, 3, 2, 3, 2) {
		case 0:
			return lg()
		case 1:
			n := &Node{Kind: Destruct, Iter: g.iter(c, false), NElems: g.r.Intn(4), Rest: g.r.Intn(5) == 0, Decl: g.r.Intn(2) == 0}
			return n
		case 2:
			return &Node{Kind: Spread, Iter: g.iter(c, false), Decl: g.r.Intn(2) == 0}
		case 3:
			n := &Node{Kind: ArrayFrom, Iter: g.iter(c, false)}
			if g.r.Intn(3) == 0 {
				n.At = -1
			}
			return n
		case 4:
			return &Node{Kind: NewMap, Iter: g.iter(c, true)}
		case 5:
			return &Node{Kind: NewSet, Iter: g.iter(c, false)}
		case 6:
			return &Node{Kind: PromiseAll, Iter: g.iter(c, false)}
		case 7:
			if inGen {
				return &Node{Kind: Yield}
			}
		case 8:
			if inGen {
				return &Node{Kind: YieldStar, Iter: g.iter(c, false)}
			}
		case 10:
			n := &Node{Kind: GoForOf, Iter: g.iter(c, false)}
			if g.r.Intn(2) == 0 {
				n.Op, n.At = 1+g.r.Intn(4), 1+g.r.Intn(3)
			}
			return n
		case 9:
			if len(c.drivers) > 0 {
				return &Node{Kind: GenOp, Var: c.drivers[g.r.Intn(len(c.drivers))], Op: 0}
			}
		}
	}
}

func (g *rgen) stmt(c rctx) *Node {
	if c.depth >= g.maxDep || g.budget <= 0 || g.r.Intn(5) < 2 {
		return g.leaf(c)
	}
	g.budget--
	in := c
	in.depth++
	lp := in
	lp.loops++
	switch g.pick(8, 2, 2, 2, 2, 4, 3, 2, 2, 2, 2) {
	case 0:
		n := &Node{Kind: Try}
		switch g.r.Intn(3) {
		case 0:
			n.HasFinally = true
		case 1:
			n.HasCatch = true
		default:
			n.HasCatch, n.HasFinally = true, true
		}
		n.Stmts = g.list(in, 1)
		if g.r.Intn(3) == 0 {
			n.Stmts = append(n.Stmts, &Node{Kind: Throw})
		}
		if n.HasCatch {
			n.CatchParam = g.r.Intn(3) != 0
			n.Catch = g.list(in, 0)
		}
		if n.HasFinally {
			n.Finally = g.list(in, 0)
		}
		return n
	case 1:
		return g.maybeLabel(&Node{Kind: For, Trip: 1 + g.r.Intn(3), Scoped: g.r.Intn(4) == 0, Stmts: g.list(lp, 1)})
	case 2:
		return g.maybeLabel(&Node{Kind: While, Trip: 1 + g.r.Intn(3), Stmts: g.list(lp, 1)})
	case 3:
		return g.maybeLabel(&Node{Kind: DoWhile, Trip: 1 + g.r.Intn(3), Stmts: g.list(lp, 1)})
	case 4:
		return g.maybeLabel(&Node{Kind: ForIn, Trip: 1 + g.r.Intn(3), Stmts: g.list(lp, 1)})
	case 5:
		return g.maybeLabel(&Node{Kind: ForOf, Iter: g.iter(c, false), Stmts: g.list(lp, 1)})
	case 6:
		n := &Node{Kind: Switch}
		if c.loops > 0 && g.r.Intn(2) == 0 {
			n.Cond = Expr{Kind: CCounter, D: g.r.Intn(c.loops)}
		} else {
			n.Cond = Expr{Kind: CLit, K: g.r.Intn(3)}
		}
		nc := 1 + g.r.Intn(3)
		def := g.r.Intn(nc + 1)
		for i := 0; i < nc; i++ {
			cs := Case{Val: i, Body: g.list(in, 0)}
			if i == def {
				cs.Default = true
			}
			// explicit break at the end of some clauses, fall through otherwise
			if g.r.Intn(2) == 0 {
				cs.Body = append(cs.Body, &Node{Kind: Break})
			}
			n.Cases = append(n.Cases, cs)
		}
		return g.maybeLabel(n)
	case 7:
		return &Node{Kind: With, Stmts: g.list(in, 1)}
	case 8:
		return g.maybeLabel(&Node{Kind: Block, Scoped: g.r.Intn(2) == 0, Stmts: g.list(in, 1)})
	case 9:
		n := &Node{Kind: If, Stmts: g.list(in, 1)}
		switch {
		case c.loops > 0 && g.r.Intn(2) == 0:
			n.Cond = Expr{Kind: CCounterEq, D: g.r.Intn(c.loops), K: 1 + g.r.Intn(2)}
		case g.r.Intn(3) == 0:
			n.Cond = Expr{Kind: CFalse}
		default:
			n.Cond = Expr{Kind: CTrue}
		}
		if g.r.Intn(2) == 0 {
			n.HasElse = true
			n.Else = g.list(in, 0)
		}
		return n
	default:
		// a labelled try (break L out of try/finally)
		n := &Node{Kind: Try, HasFinally: true, Stmts: g.list(in, 1), Finally: g.list(in, 0)}
		g.labelNo++
		return &Node{Kind: Labelled, Label: fmt.Sprintf("M%d", g.labelNo), Stmts: []*Node{n}}
	}
}

// Random samples a tree-shaped skeleton: maxDepth ≤ 5 region nesting, about `budget` statements.
func Random(r Rand, maxDepth, budget int) *Program {
	g := &rgen{r: r, p: &Program{}, budget: budget, maxDep: maxDepth}
	ngen := []int{0, 0, 1, 1, 2}[r.Intn(5)]
	for i := 0; i < ngen; i++ {
		g.p.Gens = append(g.p.Gens, &GenDef{})
	}
	// generator bodies, last first (a generator may only use generators with a higher index)
	for i := ngen; i >= 1; i-- {
		sub := &rgen{r: r, p: g.p, budget: budget / 2, maxDep: maxDepth - 1, labelNo: 100 * i}
		body := sub.list(rctx{fn: i}, 1)
		// make sure there is at least one yield inside a region
		body = append(body, &Node{Kind: Try, HasFinally: true, Stmts: []*Node{{Kind: Yield}, lg()}, Finally: sub.list(rctx{fn: i, depth: 1}, 0)})
		g.p.Gens[i-1].Body = body
	}
	c := rctx{}
	var main []*Node
	for i := 1; i <= ngen; i++ {
		if r.Intn(2) == 0 {
			main = append(main, &Node{Kind: GenNew, Var: i, Gen: i})
			c.drivers = append(c.drivers, i)
		}
	}
	main = append(main, g.list(c, 1)...)
	for _, v := range c.drivers {
		main = append(main, &Node{Kind: GenOp, Var: v, Op: 0})
	}
	g.p.Main = main
	g.p.Number()
	return g.p
}

// ---- variants: one abrupt completion placed at every statement position, every iterator misbehaviour, every driver op ----

type Variant struct {
	What string // "exit" | "iter" | "driver" | "base"
	// exit
	Pos    int    // index into Positions()
	Exit   Kind   // Throw / Return / Break / Continue
	Label  string // break/continue label
	Guard  bool   // wrapped in if (c<D> === 2)
	GuardD int
	// iter / driver: node id (numbering of the base program) and field changes
	NodeID int
	Field  string // "ThrowAt","BadAt","Ret","At","Pairs","Op"
	Value  int
	// static facts (filled by Variants)
	Fn      int
	Crossed []string // region kinds between the exit and its target, innermost first
	Kind    string   // evidence name of the exit kind: break, breakL, continue, continueL, return, throw, next-throws, …
}

func (v Variant) String() string {
	switch v.What {
	case "exit":
		g := ""
		if v.Guard {
			g = fmt.Sprintf(" if c%d===2", v.GuardD)
		}
		return fmt.Sprintf("exit %s %s at pos %d%s", v.Exit, v.Label, v.Pos, g)
	case "base":
		return "base"
	}
	return fmt.Sprintf("%s node %d %s=%d", v.What, v.NodeID, v.Field, v.Value)
}

// PositionsWithChains is Positions() plus the enclosing frames (innermost first) of each list.
func (p *Program) PositionsWithChains() ([]Position, [][]Frame) {
	var r []Position
	var ch [][]Frame
	var rec func(fn int, l *[]*Node, chain []Frame)
	rec = func(fn int, l *[]*Node, chain []Frame) {
		for i := 0; i <= len(*l); i++ {
			r = append(r, Position{fn, l, i})
			ch = append(ch, chain)
		}
		for _, n := range *l {
			m := n
			c := chain
			for m.Kind == Labelled {
				c = append([]Frame{{m, 0}}, c...)
				m = m.Stmts[0]
			}
			push := func(part int) []Frame { return append([]Frame{{m, part}}, c...) }
			switch m.Kind {
			case If:
				rec(fn, &m.Stmts, push(0))
				if m.HasElse {
					rec(fn, &m.Else, push(1))
				}
			case Try:
				rec(fn, &m.Stmts, push(0))
				if m.HasCatch {
					rec(fn, &m.Catch, push(2))
				}
				if m.HasFinally {
					rec(fn, &m.Finally, push(3))
				}
			case Switch:
				for i := range m.Cases {
					rec(fn, &m.Cases[i].Body, push(4+i))
				}
			case Block, For, While, DoWhile, ForIn, ForOf, With:
				rec(fn, &m.Stmts, push(0))
			}
		}
	}
	rec(0, &p.Main, nil)
	for i, g := range p.Gens {
		rec(i+1, &g.Body, nil)
	}
	return r, ch
}

// crossedKinds lists the region kinds of frames[0:upto] (upto exclusive), innermost first, skipping unnamed frames.
func crossedKinds(chain []Frame, upto int) []string {
	var r []string
	for i := 0; i < upto && i < len(chain); i++ {
		if k := chain[i].RegionKind(); k != "" {
			r = append(r, k)
		}
	}
	return r
}

// ThrowTarget returns the index of the frame that catches a throw raised at a site with this chain (a try block
// with a catch clause), or len(chain) if it leaves the function.
func ThrowTarget(chain []Frame) int {
	for i, f := range chain {
		if f.N.Kind == Try && f.Part == 0 && f.N.HasCatch {
			return i
		}
	}
	return len(chain)
}

// CrossedBy computes the region kinds an exit of the given kind crosses from a site with this chain.
func CrossedBy(kind Kind, label string, chain []Frame, inGenerator bool) []string {
	var r []string
	switch kind {
	case Break:
		t := Target(Break, label, chain)
		if t < 0 {
			return nil
		}
		r = crossedKinds(chain, t+1)
	case Continue:
		t := Target(Continue, label, chain)
		if t < 0 {
			return nil
		}
		r = crossedKinds(chain, t)
	case Return:
		r = crossedKinds(chain, len(chain))
		if inGenerator {
			r = append(r, RGenerator)
		}
	case Throw:
		t := ThrowTarget(chain)
		r = crossedKinds(chain, t)
		if t < len(chain) {
			r = append(r, RTryCatch)
		} else if inGenerator {
			r = append(r, RGenerator)
		}
	}
	return r
}

// DistinctKinds counts distinct region kinds ("catch+finally" counts as its own kind).
func DistinctKinds(k []string) int {
	m := map[string]bool{}
	for _, x := range k {
		m[x] = true
	}
	return len(m)
}

// Variants enumerates every single modification of the (numbered) base program.
func Variants(p *Program) []Variant {
	var vs []Variant
	pos, chains := p.PositionsWithChains()
	for i, ps := range pos {
		chain := chains[i]
		inGen := ps.Fn > 0
		loops := 0
		labels := []string{}
		loopLabels := []string{}
		hasBreakTarget, hasLoop := false, false
		for j, f := range chain {
			switch {
			case f.N.Kind.IsLoop():
				loops++
				hasLoop, hasBreakTarget = true, true
			case f.N.Kind == Switch:
				hasBreakTarget = true
			case f.N.Kind == Labelled:
				labels = append(labels, f.N.Label)
				if t := Target(Continue, f.N.Label, chain); t >= 0 && t < j {
					loopLabels = append(loopLabels, f.N.Label)
				}
			}
		}
		add := func(k Kind, label, name string) {
			for g := 0; g < 2; g++ {
				if g == 1 && loops == 0 {
					break
				}
				v := Variant{What: "exit", Pos: i, Exit: k, Label: label, Fn: ps.Fn, Kind: name, Guard: g == 1, GuardD: loops - 1}
				v.Crossed = CrossedBy(k, label, chain, inGen)
				vs = append(vs, v)
			}
		}
		add(Throw, "", "throw")
		add(Return, "", "return")
		if hasBreakTarget {
			add(Break, "", "break")
		}
		if hasLoop {
			add(Continue, "", "continue")
		}
		for _, l := range labels {
			add(Break, l, "breakL")
		}
		for _, l := range loopLabels {
			add(Continue, l, "continueL")
		}
	}
	st := Analyze(p)
	for _, b := range p.Bodies() {
		Walk(b, func(n *Node) {
			chain := st.Chain[n.ID]
			inGen := st.Fn[n.ID] > 0
			iv := func(field string, val int, name string, crossed []string) {
				vs = append(vs, Variant{What: "iter", NodeID: n.ID, Field: field, Value: val, Fn: st.Fn[n.ID], Kind: name, Crossed: crossed})
			}
			thr := CrossedBy(Throw, "", chain, inGen)
			if n.Kind.IsConsumer() && n.Iter.Gen == 0 {
				for j := 1; j <= n.Iter.N+1; j++ {
					iv("ThrowAt", j, "next-throws", thr)
					iv("BadAt", j, "next-nonobject", thr)
				}
				for _, m := range []int{RetNone, RetOK, RetThrows, RetBad} {
					if m != n.Iter.Ret {
						iv("Ret", m, [...]string{"no-return-method", "return-ok", "return-throws", "return-nonobject"}[m], thr)
					}
				}
				switch n.Kind {
				case ArrayFrom, NewSet, NewMap:
					for j := 1; j <= n.Iter.N; j++ {
						iv("At", j, "callback-throws", append([]string{RForOf}, thr...))
					}
					if n.Kind == NewMap {
						pv := 1
						if n.Iter.Pairs {
							pv = 0
						}
						iv("Pairs", pv, "map-entry-kind", append([]string{RForOf}, thr...))
					}
				case GoForOf:
					for j := 1; j <= n.Iter.N; j++ {
						for op := 1; op <= 4; op++ {
							iv("GoOp", op*16+j, [...]string{"", "go-step-stops", "go-step-throws", "go-step-throws", "go-step-throws"}[op], append([]string{RForOf}, thr...))
						}
					}
				case Destruct:
					if !n.Decl {
						for j := 1; j <= n.NElems; j++ {
							iv("At", j, "target-throws", append([]string{RForOf}, thr...))
						}
					}
				}
			}
			if n.Kind == GenOp {
				// crossing: union over the yields of the driven generator, plus the generator boundary
				var gi int
				Walk(p.Main, func(m *Node) {
					if m.Kind == GenNew && m.Var == n.Var {
						gi = m.Gen
					}
				})
				for op := 1; op <= 2; op++ {
					var crossed []string
					if gi > 0 {
						Walk(p.Gens[gi-1].Body, func(m *Node) {
							if m.Kind == Yield || m.Kind == YieldStar {
								k := Return
								if op == 2 {
									k = Throw
								}
								c := CrossedBy(k, "", st.Chain[m.ID], true)
								if len(c) > len(crossed) {
									crossed = c
								}
							}
						})
					}
					vs = append(vs, Variant{What: "driver", NodeID: n.ID, Field: "Op", Value: op, Fn: 0, Crossed: crossed,
						Kind: [...]string{"", "generator-return()", "generator-throw()"}[op]})
				}
			}
		})
	}
	return vs
}

// Apply returns a renumbered clone of the base program with the variant applied, and the inserted exit statement
// (nil for non-exit variants; its ID is valid after the last Number() call).
func Apply(p *Program, v Variant) (*Program, *Node) {
	q := p.Clone()
	q.Number() // same numbering as p (clone preserves order)
	var ins *Node
	switch v.What {
	case "exit":
		pos := q.Positions()
		ps := pos[v.Pos]
		ins = &Node{Kind: v.Exit, Label: v.Label, Synth: true}
		st := ins
		if v.Guard {
			st = &Node{Kind: If, Cond: Expr{Kind: CCounterEq, D: v.GuardD, K: 2}, Stmts: []*Node{ins}, Synth: true}
		}
		l := *ps.List
		nl := make([]*Node, 0, len(l)+1)
		nl = append(nl, l[:ps.Index]...)
		nl = append(nl, st)
		nl = append(nl, l[ps.Index:]...)
		*ps.List = nl
	case "iter", "driver":
		for _, b := range q.Bodies() {
			Walk(b, func(n *Node) {
				if n.ID != v.NodeID {
					return
				}
				switch v.Field {
				case "ThrowAt":
					n.Iter.ThrowAt = v.Value
				case "BadAt":
					n.Iter.BadAt = v.Value
				case "Ret":
					n.Iter.Ret = v.Value
				case "At":
					n.At = v.Value
				case "Pairs":
					n.Iter.Pairs = v.Value != 0
				case "GoOp":
					n.Op, n.At = v.Value/16, v.Value%16
				case "Op":
					n.Op = v.Value
				}
			})
		}
	}
	q.Number()
	return q, ins
}
