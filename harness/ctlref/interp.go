package ctlref

import (
	"fmt"
	"iter"
	"math"
	"strconv"
	"strings"
)

// ---- values, completion records (ECMA-262 6.2.4) ----

type VKind uint8

const (
	VUndef VKind = iota
	VNum
	VObj // opaque object (array, map, promise, iterator result, …)
	VErr // engine-created error object; S = constructor name
)

type Value struct {
	K VKind
	N float64
	S string
}

var Undef = Value{}

func Num(n int) Value { return Value{K: VNum, N: float64(n)} }

func errValue(ctor string) Value { return Value{K: VErr, S: ctor} }

// Render is the canonical value rendering (same format as gj.Render for primitives; objects render as "o",
// engine errors as E:<constructor name>).
func (v Value) Render() string {
	switch v.K {
	case VUndef:
		return "u"
	case VNum:
		return RenderNumber(v.N)
	case VErr:
		return "E:" + v.S
	}
	return "o"
}

func RenderNumber(f float64) string {
	if f != f {
		return "d:NaN"
	}
	return fmt.Sprintf("d:%016x", math.Float64bits(f))
}

// Ev formats an event whose arguments are all integers.  Both the interpreter and the host natives use it.
func Ev(tag string, a int, ints ...int) string {
	var b strings.Builder
	b.WriteString(tag)
	for _, x := range ints {
		b.WriteByte(' ')
		b.WriteString(strconv.Itoa(x))
	}
	b.WriteString(" @")
	b.WriteString(strconv.Itoa(a))
	return b.String()
}

// Evv formats an event with one integer and one rendered value.
func Evv(tag string, a, i int, val string) string {
	return tag + " " + strconv.Itoa(i) + " " + val + " @" + strconv.Itoa(a)
}

// EvD formats the driver-result event.
func EvD(a, id int, val string, done bool) string {
	return "D< " + strconv.Itoa(id) + " " + val + " " + strconv.FormatBool(done) + " @" + strconv.Itoa(a)
}

type CType uint8

const (
	Normal CType = iota
	BreakC
	ContinueC
	ReturnC
	ThrowC
	AbortC // interpreter-internal: unwinding a discarded coroutine / fuel exhausted; never observable
)

type Completion struct {
	T     CType
	V     Value
	Has   bool // [[Value]] is not empty
	Label string
}

func normalEmpty() Completion         { return Completion{} }
func normalV(v Value) Completion      { return Completion{T: Normal, V: v, Has: true} }
func throwV(v Value) Completion       { return Completion{T: ThrowC, V: v, Has: true} }
func throwErr(ctor string) Completion { return throwV(errValue(ctor)) }

// updateEmpty: ECMA-262 6.2.4.3 UpdateEmpty(completionRecord, value); hasV=false models value = empty.
func updateEmpty(c Completion, v Value, hasV bool) Completion {
	if c.Has {
		return c
	}
	c.V, c.Has = v, hasV
	return c
}

// loopContinues: ECMA-262 14.7.1.1
func loopContinues(c Completion, labelSet []string) bool {
	if c.T == Normal {
		return true
	}
	if c.T != ContinueC {
		return false
	}
	if c.Label == "" {
		return true
	}
	for _, l := range labelSet {
		if l == c.Label {
			return true
		}
	}
	return false
}

// breakable: ECMA-262 14.1.1 / 14.13.4 BreakableStatement LabelledEvaluation steps 2-3.
func breakable(c Completion) Completion {
	if c.T == BreakC && c.Label == "" {
		if !c.Has {
			return normalV(Undef)
		}
		return normalV(c.V)
	}
	return c
}

// ---- iterators ----

type stepRes struct {
	IsObj bool
	Done  bool
	Value Value
}

type iterator interface {
	Next(v Value) (stepRes, Completion)
	HasReturn() bool
	Return(v Value) (stepRes, Completion)
	HasThrow() bool
	Throw(v Value) (stepRes, Completion)
}

// mkIter mirrors the prelude function mk().
type mkIter struct {
	in          *interp
	a, id, inst int
	spec        Iter
	j           int
}

func (m *mkIter) Next(Value) (stepRes, Completion) {
	m.j++
	switch {
	case m.j == m.spec.ThrowAt:
		m.in.emit(Ev("Nt", m.a, m.id, m.inst, m.j))
		return stepRes{}, throwV(Num(30000 + m.id*16 + m.j))
	case m.j == m.spec.BadAt:
		m.in.emit(Ev("Nb", m.a, m.id, m.inst, m.j))
		return stepRes{IsObj: false}, normalEmpty()
	case m.j > m.spec.N:
		m.in.emit(Ev("Nd", m.a, m.id, m.inst, m.j))
		return stepRes{IsObj: true, Done: true, Value: Undef}, normalEmpty()
	}
	m.in.emit(Ev("Nv", m.a, m.id, m.inst, m.j))
	v := Num(10000 + m.id*16 + m.j)
	if m.spec.Pairs {
		v = Value{K: VObj, S: "pair"}
	}
	return stepRes{IsObj: true, Value: v}, normalEmpty()
}
func (m *mkIter) HasReturn() bool { return m.spec.Ret != RetNone }
func (m *mkIter) Return(Value) (stepRes, Completion) {
	switch m.spec.Ret {
	case RetThrows:
		m.in.emit(Ev("Rt", m.a, m.id, m.inst))
		return stepRes{}, throwV(Num(40000 + m.id))
	case RetBad:
		m.in.emit(Ev("Rb", m.a, m.id, m.inst))
		return stepRes{IsObj: false}, normalEmpty()
	}
	m.in.emit(Ev("Ro", m.a, m.id, m.inst))
	return stepRes{IsObj: true, Done: true, Value: Num(50000 + m.id)}, normalEmpty()
}
func (m *mkIter) HasThrow() bool                    { return false }
func (m *mkIter) Throw(Value) (stepRes, Completion) { panic("no throw method") }

// ---- generator objects (ECMA-262 27.5) ----

const (
	gsStart = iota
	gsYield
	gsExecuting
	gsDone
)

type genObj struct {
	in     *interp
	def    *GenDef
	inst   int
	state  int
	next   func() (Value, bool)
	stop   func()
	resume Completion
	result Completion
	yield  func(Value) bool
}

// resumeWith implements GeneratorResume (normal) and GeneratorResumeAbrupt (return / throw).
func (g *genObj) resumeWith(c Completion) (stepRes, Completion) {
	in := g.in
	if g.state == gsExecuting {
		return stepRes{}, throwErr("TypeError") // GeneratorValidate
	}
	if c.T != Normal && g.state == gsStart {
		g.state = gsDone
	}
	if g.state == gsDone {
		switch c.T {
		case ReturnC:
			return stepRes{IsObj: true, Done: true, Value: c.V}, normalEmpty()
		case ThrowC:
			return stepRes{}, c
		}
		return stepRes{IsObj: true, Done: true, Value: Undef}, normalEmpty()
	}
	if g.state == gsStart {
		body := func(yield func(Value) bool) {
			g.yield = yield
			a := &act{id: g.inst, gen: g, g: map[int]*genObj{}}
			in.emit(Ev("G+", a.id))
			r := in.list(a, g.def.Body, 0)
			if r.T == Normal {
				in.emit(Ev("G-", a.id))
			}
			g.result = r
		}
		g.next, g.stop = iter.Pull(iter.Seq[Value](body))
	}
	g.state = gsExecuting
	g.resume = c
	v, ok := g.next()
	if ok {
		g.state = gsYield
		return stepRes{IsObj: true, Value: v}, normalEmpty()
	}
	g.state = gsDone
	switch g.result.T {
	case ReturnC:
		return stepRes{IsObj: true, Done: true, Value: g.result.V}, normalEmpty()
	case ThrowC:
		return stepRes{}, g.result
	case AbortC:
		return stepRes{}, g.result
	}
	return stepRes{IsObj: true, Done: true, Value: Undef}, normalEmpty()
}

func (g *genObj) Next(v Value) (stepRes, Completion) { return g.resumeWith(normalV(v)) }
func (g *genObj) HasReturn() bool                    { return true }
func (g *genObj) Return(v Value) (stepRes, Completion) {
	return g.resumeWith(Completion{T: ReturnC, V: v, Has: true})
}
func (g *genObj) HasThrow() bool                      { return true }
func (g *genObj) Throw(v Value) (stepRes, Completion) { return g.resumeWith(throwV(v)) }

// ---- interpreter ----

type act struct {
	id  int // the activation tag 'a' of the printed code
	c   [16]int
	g   map[int]*genObj
	gen *genObj
}

type interp struct {
	p     *Program
	log   []string
	seq   int
	jobs  []func()
	steps int
	dead  bool
	gens  []*genObj
}

// Outcome of a reference run.
type Outcome struct {
	Log     []string
	Final   string // "RET <v>" or "THROW <v>"
	Aborted bool   // fuel exhausted (never happens for generated programs; then the case is inconclusive)
}

const fuel = 200000

func (in *interp) emit(s string) {
	if !in.dead {
		in.log = append(in.log, s)
	}
}

func abort() Completion { return Completion{T: AbortC} }

// Run interprets the program. mode as for JS().
func Run(p *Program, mode int) Outcome {
	in := &interp{p: p}
	main := &act{id: 0, g: map[int]*genObj{}}
	c := in.list(main, p.Main, 0)
	var out Outcome
	if c.T == AbortC {
		out.Aborted = true
	} else {
		// HostEnqueuePromiseJob jobs run after the script / outermost call has finished, whatever its completion
		for len(in.jobs) > 0 && !in.dead {
			j := in.jobs[0]
			in.jobs = in.jobs[1:]
			j()
		}
		switch c.T {
		case ThrowC:
			out.Final = "THROW " + c.V.Render()
		case ReturnC:
			out.Final = "RET " + c.V.Render()
		case Normal:
			if mode == ModeGlobal && c.Has {
				out.Final = "RET " + c.V.Render() // script completion value
			} else {
				out.Final = "RET u"
			}
		default:
			out.Final = "ILLEGAL " + fmt.Sprint(c.T)
		}
	}
	// discard suspended coroutines
	in.dead = true
	for _, g := range in.gens {
		if g.stop != nil {
			g.stop()
		}
	}
	out.Log = in.log
	if in.steps > fuel {
		out.Aborted = true
	}
	return out
}

// list: ECMA-262 14.2.2 StatementList evaluation.
func (in *interp) list(a *act, l []*Node, d int) Completion {
	var V Value
	has := false
	for _, s := range l {
		c := in.stmt(a, s, d, nil)
		if c.T == AbortC {
			return c
		}
		if c.T != Normal {
			return updateEmpty(c, V, has)
		}
		if c.Has {
			V, has = c.V, true
		}
	}
	return Completion{T: Normal, V: V, Has: has}
}

func (in *interp) expr(a *act, e Expr) (b bool, v int) {
	switch e.Kind {
	case CTrue:
		return true, 1
	case CFalse:
		return false, 0
	case CCounterEq:
		return a.c[e.D] == e.K, 0
	case CLit:
		return e.K != 0, e.K
	case CCounter:
		return a.c[e.D] != 0, a.c[e.D]
	}
	return false, 0
}

func (in *interp) body(a *act, n *Node, d int) Completion {
	a.c[d]++
	in.emit(Ev("I", a.id, n.ID, a.c[d]))
	return in.list(a, n.Stmts, d+1)
}

func (in *interp) newIter(a *act, n *Node) iterator {
	in.seq++
	if n.Iter.Gen > 0 {
		in.emit(Ev("G", a.id, n.ID, n.Iter.Gen, in.seq))
		g := &genObj{in: in, def: in.p.Gens[n.Iter.Gen-1], inst: in.seq}
		in.gens = append(in.gens, g)
		return g
	}
	in.emit(Ev("M", a.id, n.ID, in.seq))
	return &mkIter{in: in, a: a.id, id: n.ID, inst: in.seq, spec: n.Iter}
}

// iterStep: ECMA-262 7.4.8 IteratorStepValue (IteratorStep + IteratorValue), next called without argument.
func iterStep(it iterator) (v Value, done bool, c Completion) {
	res, c := it.Next(Undef)
	if c.T != Normal {
		return Undef, false, c
	}
	if !res.IsObj {
		return Undef, false, throwErr("TypeError")
	}
	if res.Done {
		return Undef, true, normalEmpty()
	}
	return res.Value, false, normalEmpty()
}

// iterClose: ECMA-262 7.4.11 IteratorClose(iteratorRecord, completion).
func iterClose(it iterator, completion Completion) Completion {
	if completion.T == AbortC {
		return completion
	}
	if !it.HasReturn() { // GetMethod(iterator, "return") is undefined
		return completion
	}
	res, inner := it.Return(Undef)
	if inner.T == AbortC {
		return inner
	}
	if completion.T == ThrowC {
		return completion
	}
	if inner.T == ThrowC {
		return inner
	}
	if !res.IsObj {
		return throwErr("TypeError")
	}
	return completion
}

func (in *interp) stmt(a *act, n *Node, d int, ls []string) Completion {
	in.steps++
	if in.steps > fuel {
		return abort()
	}
	id := n.ID
	switch n.Kind {
	case Labelled: // 14.13.4 LabelledEvaluation
		nls := append(ls[:len(ls):len(ls)], n.Label)
		item := n.Stmts[0]
		var r Completion
		if item.Kind == Labelled || item.Kind.IsLoop() || item.Kind == Switch {
			r = in.stmt(a, item, d, nls)
		} else {
			r = in.stmt(a, item, d, nil)
		}
		if r.T == BreakC && r.Label == n.Label {
			r = Completion{T: Normal, V: r.V, Has: r.Has}
		}
		return r

	case Block: // 14.2.2
		return in.list(a, n.Stmts, d)

	case If: // 14.6.2
		t, _ := in.expr(a, n.Cond)
		var r Completion
		if t {
			r = in.list(a, n.Stmts, d)
		} else if n.HasElse {
			r = in.list(a, n.Else, d)
		} else {
			return normalV(Undef)
		}
		if r.T == AbortC {
			return r
		}
		return updateEmpty(r, Undef, true)

	case For: // 14.7.4.3 ForBodyEvaluation
		a.c[d] = 0
		V := Undef
		for i := 0; ; i++ {
			if !(i < n.Trip) {
				return normalV(V)
			}
			r := in.body(a, n, d)
			if r.T == AbortC {
				return r
			}
			if !loopContinues(r, ls) {
				return breakable(updateEmpty(r, V, true))
			}
			if r.Has {
				V = r.V
			}
		}

	case While: // 14.7.3.2
		a.c[d] = 0
		V := Undef
		for i := 0; ; i++ {
			if !(i < n.Trip) {
				return normalV(V)
			}
			r := in.body(a, n, d)
			if r.T == AbortC {
				return r
			}
			if !loopContinues(r, ls) {
				return breakable(updateEmpty(r, V, true))
			}
			if r.Has {
				V = r.V
			}
		}

	case DoWhile: // 14.7.2.2
		a.c[d] = 0
		V := Undef
		for i := 0; ; {
			r := in.body(a, n, d)
			if r.T == AbortC {
				return r
			}
			if !loopContinues(r, ls) {
				return breakable(updateEmpty(r, V, true))
			}
			if r.Has {
				V = r.V
			}
			i++
			if !(i < n.Trip) {
				return normalV(V)
			}
		}

	case ForIn: // 14.7.5.7 ForIn/OfBodyEvaluation, iterationKind enumerate
		a.c[d] = 0
		V := Undef
		for i := 0; i < n.Trip; i++ {
			r := in.body(a, n, d)
			if r.T == AbortC {
				return r
			}
			if !loopContinues(r, ls) {
				return breakable(updateEmpty(r, V, true))
			}
			if r.Has {
				V = r.V
			}
		}
		return normalV(V)

	case ForOf: // 14.7.5.6 + 14.7.5.7, iterationKind iterate, iteratorKind sync
		a.c[d] = 0
		it := in.newIter(a, n)
		V := Undef
		for {
			_, done, c := iterStep(it)
			if c.T != Normal {
				return c
			}
			if done {
				return normalV(V)
			}
			r := in.body(a, n, d)
			if r.T == AbortC {
				return r
			}
			if !loopContinues(r, ls) {
				status := updateEmpty(r, V, true)
				return breakable(iterClose(it, status))
			}
			if r.Has {
				V = r.V
			}
		}

	case Switch: // 14.12.4 + 14.12.2 CaseBlockEvaluation
		_, input := in.expr(a, n.Cond)
		return breakable(in.caseBlock(a, n, d, input))

	case With: // 14.11.2
		r := in.list(a, n.Stmts, d)
		if r.T == AbortC {
			return r
		}
		return updateEmpty(r, Undef, true)

	case Try: // 14.15.3
		in.emit(Ev("T+", a.id, id))
		B := in.list(a, n.Stmts, d)
		if B.T == AbortC {
			return B
		}
		if B.T == Normal {
			in.emit(Ev("T-", a.id, id))
		}
		C := B
		if n.HasCatch && B.T == ThrowC {
			if n.CatchParam {
				in.emit(Evv("C", a.id, id, B.V.Render()))
			} else {
				in.emit(Ev("C", a.id, id))
			}
			C = in.list(a, n.Catch, d)
			if C.T == AbortC {
				return C
			}
			if C.T == Normal {
				in.emit(Ev("C-", a.id, id))
			}
		}
		if n.HasFinally {
			in.emit(Ev("F", a.id, id))
			F := in.list(a, n.Finally, d)
			if F.T == AbortC {
				return F
			}
			if F.T == Normal {
				in.emit(Ev("F-", a.id, id))
				F = C
			}
			return updateEmpty(F, Undef, true)
		}
		return updateEmpty(C, Undef, true)

	case Throw:
		in.emit(Ev("Xt", a.id, id))
		return throwV(Num(1000 + id))
	case Return:
		in.emit(Ev("Xr", a.id, id))
		return Completion{T: ReturnC, V: Num(2000 + id), Has: true}
	case Break:
		in.emit(Ev("Xb", a.id, id))
		return Completion{T: BreakC, Label: n.Label}
	case Continue:
		in.emit(Ev("Xc", a.id, id))
		return Completion{T: ContinueC, Label: n.Label}

	case Log:
		in.emit("L " + strconv.Itoa(id) + " @" + strconv.Itoa(a.id))
		return normalV(Num(id))

	case Destruct: // 8.6.2 BindingInitialization / 13.15.5.2 DestructuringAssignmentEvaluation (array patterns)
		it := in.newIter(a, n)
		done := false
		result := normalEmpty()
		for i := 1; i <= n.NElems && result.T == Normal; i++ {
			// (assignment form: the target reference thrower(a,id).p is evaluated first — no event)
			if !done {
				_, dn, c := iterStep(it)
				if c.T != Normal {
					done = true // iteratorRecord.[[Done]] = true
					result = c
					break
				}
				if dn {
					done = true
				}
			}
			if !n.Decl && n.At == i { // PutValue calls the throwing setter
				in.emit(Ev("SX", a.id, id))
				result = throwV(Num(62000 + id))
			}
		}
		if n.Rest && result.T == Normal {
			for !done {
				_, dn, c := iterStep(it)
				if c.T != Normal {
					done = true
					result = c
					break
				}
				if dn {
					done = true
				}
			}
		}
		if result.T == AbortC {
			return result
		}
		if !done {
			result = iterClose(it, result)
		}
		if result.T != Normal {
			return result
		}
		if n.Decl {
			return normalEmpty()
		}
		return normalV(Value{K: VObj})

	case Spread: // 13.2.4.1 ArrayAccumulation / 13.3.8.1 ArgumentListEvaluation
		it := in.newIter(a, n)
		for {
			_, done, c := iterStep(it)
			if c.T != Normal {
				return c
			}
			if done {
				break
			}
		}
		if n.Decl {
			return normalV(Undef)
		}
		return normalV(Value{K: VObj})

	case ArrayFrom: // 23.1.2.1 Array.from, iterable branch
		it := in.newIter(a, n)
		calls := 0
		for {
			_, done, c := iterStep(it)
			if c.T != Normal {
				return c
			}
			if done {
				return normalV(Value{K: VObj})
			}
			if n.At != 0 {
				calls++
				if calls == n.At {
					in.emit(Ev("MF", a.id, id, calls))
					return iterClose(it, throwV(Num(60000+id))) // IfAbruptCloseIterator
				}
			}
		}

	case NewMap, NewSet: // 24.1.1.1 Map / 24.1.1.2 AddEntriesFromIterable; 24.2.1.1 Set
		it := in.newIter(a, n)
		calls := 0
		for {
			v, done, c := iterStep(it)
			if c.T != Normal {
				return c
			}
			if done {
				return normalV(Value{K: VObj})
			}
			if n.Kind == NewMap && v.K != VObj {
				return iterClose(it, throwErr("TypeError"))
			}
			if n.At != 0 {
				calls++
				if calls == n.At {
					in.emit(Ev("AD", a.id, id, calls))
					return iterClose(it, throwV(Num(61000+id)))
				}
			}
		}

	case PromiseAll: // 27.2.4.1 Promise.all + 27.2.4.1.2 PerformPromiseAll, then .then(onF, onR)
		it := in.newIter(a, n)
		st := &pall{remaining: 1}
		aid := a.id
		settle := func(rej bool, v Value) {
			if st.settled {
				return
			}
			st.settled, st.rejected, st.reason = true, rej, v
			if st.handler {
				in.enqueueHandler(st, aid, id)
			}
		}
		for {
			_, done, c := iterStep(it)
			if c.T == AbortC {
				return c
			}
			if c.T == ThrowC { // iteratorRecord.[[Done]] = true; IfAbruptRejectPromise — no IteratorClose
				settle(true, c.V)
				break
			}
			if done {
				st.remaining--
				if st.remaining == 0 {
					settle(false, Undef)
				}
				break
			}
			// nextPromise = Promise.resolve(next) is already fulfilled: its reaction job is enqueued by then()
			st.remaining++
			in.jobs = append(in.jobs, func() {
				st.remaining--
				if st.remaining == 0 {
					settle(false, Undef)
				}
			})
		}
		st.handler = true
		if st.settled {
			in.enqueueHandler(st, aid, id)
		}
		return normalV(Value{K: VObj})

	case GoForOf: // the host API documented as "a Go equivalent of for-of loop": 14.7.5.7 with the Go callback as body
		it := in.newIter(a, n)
		for j := 1; ; j++ {
			_, done, c := iterStep(it)
			if c.T != Normal {
				return c
			}
			if done {
				return normalV(Undef)
			}
			in.emit(Ev("GS", a.id, id, j))
			if n.Op != 0 && j == n.At {
				in.emit(Ev("GX", a.id, id, j))
				var status Completion
				switch n.Op {
				case 1: // the callback returns false: like break
					status = normalEmpty()
				case 3:
					status = throwErr("TypeError")
				default:
					status = throwV(Num(63000 + id))
				}
				if r := iterClose(it, status); r.T != Normal {
					return r
				}
				return normalV(Undef)
			}
		}

	case Yield: // 15.5.5 yield AssignmentExpression; 27.5.3.7 GeneratorYield
		in.emit(Ev("Y", a.id, id))
		rc := in.yield(a, Num(20000+id))
		if rc.T == Normal {
			in.emit(Ev("Y-", a.id, id))
		}
		return rc

	case YieldStar: // 15.5.5 yield* AssignmentExpression
		in.emit(Ev("Y*", a.id, id))
		it := in.newIter(a, n)
		received := normalV(Undef)
		for {
			switch received.T {
			case Normal:
				res, c := it.Next(received.V)
				if c.T != Normal {
					return c
				}
				if !res.IsObj {
					return throwErr("TypeError")
				}
				if res.Done {
					in.emit(Ev("Y*-", a.id, id))
					return normalV(res.Value)
				}
				received = in.yield(a, res.Value)
			case ThrowC:
				if it.HasThrow() {
					res, c := it.Throw(received.V)
					if c.T != Normal {
						return c
					}
					if !res.IsObj {
						return throwErr("TypeError")
					}
					if res.Done {
						in.emit(Ev("Y*-", a.id, id))
						return normalV(res.Value)
					}
					received = in.yield(a, res.Value)
				} else {
					cc := iterClose(it, normalEmpty())
					if cc.T != Normal {
						return cc
					}
					return throwErr("TypeError")
				}
			case ReturnC:
				if !it.HasReturn() {
					return received
				}
				res, c := it.Return(received.V)
				if c.T != Normal {
					return c
				}
				if !res.IsObj {
					return throwErr("TypeError")
				}
				if res.Done {
					return Completion{T: ReturnC, V: res.Value, Has: true}
				}
				received = in.yield(a, res.Value)
			default:
				return received
			}
		}

	case Nest:
		return normalEmpty()

	case GenNew:
		in.seq++
		in.emit(Ev("G", a.id, id, n.Gen, in.seq))
		g := &genObj{in: in, def: in.p.Gens[n.Gen-1], inst: in.seq}
		in.gens = append(in.gens, g)
		a.g[n.Var] = g
		return normalEmpty()

	case GenOp:
		in.emit(Ev("D>", a.id, id, n.Op))
		g := a.g[n.Var]
		if g == nil {
			return throwErr("TypeError")
		}
		arg := Num(4000 + 100*n.Op + id)
		var res stepRes
		var c Completion
		switch n.Op {
		case 0:
			res, c = g.Next(arg)
		case 1:
			res, c = g.Return(arg)
		default:
			res, c = g.Throw(arg)
		}
		if c.T != Normal {
			return c
		}
		in.emit(EvD(a.id, id, res.Value.Render(), res.Done))
		return normalEmpty()
	}
	panic("ctlref: unknown statement kind")
}

type pall struct {
	remaining int
	settled   bool
	rejected  bool
	reason    Value
	handler   bool
}

func (in *interp) enqueueHandler(st *pall, a, id int) {
	in.jobs = append(in.jobs, func() {
		if st.rejected {
			in.emit(Evv("PAr", a, id, st.reason.Render()))
		} else {
			in.emit(Ev("PAo", a, id))
		}
	})
}

func (in *interp) yield(a *act, v Value) Completion {
	g := a.gen
	if g == nil {
		panic("ctlref: yield outside generator")
	}
	if !g.yield(v) {
		return abort()
	}
	return g.resume
}

// caseBlock: ECMA-262 14.12.2 CaseBlockEvaluation.
func (in *interp) caseBlock(a *act, n *Node, d int, input int) Completion {
	V := Undef
	def := -1
	for i, c := range n.Cases {
		if c.Default {
			def = i
		}
	}
	// evaluate one clause; returns (completion to return, true) when abrupt
	clause := func(c Case) (Completion, bool) {
		R := in.list(a, c.Body, d)
		if R.T == AbortC {
			return R, true
		}
		if R.Has {
			V = R.V
		}
		if R.T != Normal {
			return updateEmpty(R, V, true), true
		}
		return R, false
	}
	if def < 0 {
		found := false
		for _, c := range n.Cases {
			if !found {
				found = c.Val == input
			}
			if found {
				if r, ab := clause(c); ab {
					return r
				}
			}
		}
		return normalV(V)
	}
	A, B := n.Cases[:def], n.Cases[def+1:]
	found := false
	for _, c := range A {
		if !found {
			found = c.Val == input
		}
		if found {
			if r, ab := clause(c); ab {
				return r
			}
		}
	}
	foundInB := false
	if !found {
		for _, c := range B {
			if !foundInB {
				foundInB = c.Val == input
			}
			if foundInB {
				if r, ab := clause(c); ab {
					return r
				}
			}
		}
	}
	if foundInB {
		return normalV(V)
	}
	if r, ab := clause(n.Cases[def]); ab {
		return r
	}
	for _, c := range B {
		if r, ab := clause(c); ab {
			return r
		}
	}
	return normalV(V)
}
