package ctlref

import (
	"strings"
	"testing"
)

// Hand-derived expectations (from the ECMA-262 clauses named in interp.go) for the interpreter, independent of any engine.

func lgn() *Node { return &Node{Kind: Log} }

func run(t *testing.T, name string, p *Program, mode int, wantLog, wantFinal string) {
	t.Helper()
	p.Number()
	o := Run(p, mode)
	got := strings.Join(o.Log, " | ")
	if got != wantLog || o.Final != wantFinal {
		t.Errorf("%s:\n%s\n got  %s => %s\n want %s => %s", name, p.Body(mode), got, o.Final, wantLog, wantFinal)
	}
}

func TestFinallyOrderAndIteratorClose(t *testing.T) {
	// for (v of it) { try { break } finally { log } }  : finally first, then return(), exactly once
	p := &Program{Main: []*Node{{Kind: ForOf, Iter: Iter{N: 2, Ret: RetOK}, Stmts: []*Node{
		{Kind: Try, HasFinally: true, Stmts: []*Node{{Kind: Break}}, Finally: []*Node{lgn()}}}}}}
	run(t, "break through finally out of for-of", p, ModeFunction,
		"M 1 1 @0 | Nv 1 1 1 @0 | I 1 1 @0 | T+ 2 @0 | Xb 3 @0 | F 2 @0 | L 4 @0 | F- 2 @0 | Ro 1 1 @0", "RET u")

	// exhausted iterator: no return()
	p = &Program{Main: []*Node{{Kind: ForOf, Iter: Iter{N: 1, Ret: RetOK}, Stmts: []*Node{lgn()}}}}
	run(t, "exhaustion", p, ModeFunction, "M 1 1 @0 | Nv 1 1 1 @0 | I 1 1 @0 | L 2 @0 | Nd 1 1 2 @0", "RET u")

	// next() throws: no return(); the thrown value propagates
	p = &Program{Main: []*Node{{Kind: ForOf, Iter: Iter{N: 2, Ret: RetOK, ThrowAt: 1}, Stmts: []*Node{lgn()}}}}
	run(t, "next throws", p, ModeFunction, "M 1 1 @0 | Nt 1 1 1 @0", "THROW "+Num(30000+16+1).Render())

	// IteratorClose: a throw completion wins over a throwing return(); a break completion loses
	p = &Program{Main: []*Node{{Kind: ForOf, Iter: Iter{N: 2, Ret: RetThrows}, Stmts: []*Node{{Kind: Throw}}}}}
	run(t, "throw + return() throws", p, ModeFunction, "M 1 1 @0 | Nv 1 1 1 @0 | I 1 1 @0 | Xt 2 @0 | Rt 1 1 @0", "THROW "+Num(1002).Render())
	p = &Program{Main: []*Node{{Kind: ForOf, Iter: Iter{N: 2, Ret: RetThrows}, Stmts: []*Node{{Kind: Break}}}}}
	run(t, "break + return() throws", p, ModeFunction, "M 1 1 @0 | Nv 1 1 1 @0 | I 1 1 @0 | Xb 2 @0 | Rt 1 1 @0", "THROW "+Num(40001).Render())
	p = &Program{Main: []*Node{{Kind: ForOf, Iter: Iter{N: 2, Ret: RetBad}, Stmts: []*Node{{Kind: Break}}}}}
	run(t, "break + return() non-object", p, ModeFunction, "M 1 1 @0 | Nv 1 1 1 @0 | I 1 1 @0 | Xb 2 @0 | Rb 1 1 @0", "THROW E:TypeError")

	// destructuring: early end closes, exhaustion does not
	p = &Program{Main: []*Node{{Kind: Destruct, Decl: true, NElems: 1, Iter: Iter{N: 2, Ret: RetOK}}}}
	run(t, "destructuring early end", p, ModeFunction, "M 1 1 @0 | Nv 1 1 1 @0 | Ro 1 1 @0", "RET u")
	p = &Program{Main: []*Node{{Kind: Destruct, Decl: true, NElems: 2, Iter: Iter{N: 1, Ret: RetOK}}}}
	run(t, "destructuring exhausted", p, ModeFunction, "M 1 1 @0 | Nv 1 1 1 @0 | Nd 1 1 2 @0", "RET u")
}

func TestFinallyOverridesAndCompletionValues(t *testing.T) {
	// try { throw } finally { return }  -> the return wins
	p := &Program{Main: []*Node{{Kind: Try, HasFinally: true, Stmts: []*Node{{Kind: Throw}}, Finally: []*Node{{Kind: Return}}}}}
	run(t, "return in finally overrides throw", p, ModeFunction, "T+ 1 @0 | Xt 2 @0 | F 1 @0 | Xr 3 @0", "RET "+Num(2003).Render())
	// try {} catch {} finally { throw } -> the catch clause is not entered
	p = &Program{Main: []*Node{{Kind: Try, HasCatch: true, HasFinally: true, Stmts: []*Node{lgn()}, Catch: []*Node{lgn()}, Finally: []*Node{{Kind: Throw}}}}}
	run(t, "throw in finally not caught by own catch", p, ModeFunction, "T+ 1 @0 | L 2 @0 | T- 1 @0 | F 1 @0 | Xt 4 @0", "THROW "+Num(1004).Render())
	// script level: L: try { 3 } finally { { break L } }  => undefined (UpdateEmpty(F, undefined))
	p = &Program{Main: []*Node{{Kind: Labelled, Label: "L", Stmts: []*Node{
		{Kind: Try, HasFinally: true, Stmts: []*Node{lgn()}, Finally: []*Node{{Kind: Block, Stmts: []*Node{{Kind: Break, Label: "L"}}}}}}}}}
	run(t, "completion value: break from finally", p, ModeGlobal, "T+ 2 @0 | L 3 @0 | T- 2 @0 | F 2 @0 | Xb 5 @0", "RET u")
	// for (k in {p0:1}) { 7; { continue } 8 } => 7   (StatementList: UpdateEmpty(s, sl))
	p = &Program{Main: []*Node{{Kind: ForIn, Trip: 1, Stmts: []*Node{lgn(), {Kind: Block, Stmts: []*Node{{Kind: Continue}}}, lgn()}}}}
	run(t, "completion value: continue carries the list value", p, ModeGlobal, "I 1 1 @0 | L 2 @0 | Xc 4 @0", "RET "+Num(2).Render())
	// switch fall-through and default in the middle
	p = &Program{Main: []*Node{{Kind: Switch, Cond: Expr{Kind: CLit, K: 2}, Cases: []Case{
		{Val: 0, Body: []*Node{lgn()}}, {Default: true, Body: []*Node{lgn()}}, {Val: 1, Body: []*Node{lgn()}}}}}}
	run(t, "switch default in the middle falls through B", p, ModeGlobal, "L 3 @0 | L 4 @0", "RET "+Num(4).Render())
}

func TestGeneratorReturnThroughFinally(t *testing.T) {
	// G1: try { yield } finally { yield; log }   driver: next, return, next
	p := &Program{
		Gens: []*GenDef{{Body: []*Node{{Kind: Try, HasFinally: true, Stmts: []*Node{{Kind: Yield}}, Finally: []*Node{{Kind: Yield}, lgn()}}}}},
		Main: []*Node{{Kind: GenNew, Var: 1, Gen: 1}, {Kind: GenOp, Var: 1, Op: 0}, {Kind: GenOp, Var: 1, Op: 1}, {Kind: GenOp, Var: 1, Op: 0}, {Kind: GenOp, Var: 1, Op: 0}},
	}
	run(t, "return() runs finally, yield inside finally suspends the return", p, ModeFunction,
		"G 1 1 1 @0 | D> 2 0 @0 | G+ @1 | T+ 6 @1 | Y 7 @1 | D< 2 "+Num(20007).Render()+" false @0 | "+
			"D> 3 1 @0 | F 6 @1 | Y 8 @1 | D< 3 "+Num(20008).Render()+" false @0 | "+
			"D> 4 0 @0 | Y- 8 @1 | L 9 @1 | F- 6 @1 | D< 4 "+Num(4103).Render()+" true @0 | "+
			"D> 5 0 @0 | D< 5 u true @0", "RET u")
	// yield* over an iterator without throw method: throw() closes it and raises TypeError
	p = &Program{
		Gens: []*GenDef{{Body: []*Node{{Kind: YieldStar, Iter: Iter{N: 2, Ret: RetOK}}}}},
		Main: []*Node{{Kind: GenNew, Var: 1, Gen: 1}, {Kind: GenOp, Var: 1, Op: 0}, {Kind: GenOp, Var: 1, Op: 2}},
	}
	run(t, "yield*: throw() without throw method", p, ModeFunction,
		"G 1 1 1 @0 | D> 2 0 @0 | G+ @1 | Y* 4 @1 | M 4 2 @1 | Nv 4 2 1 @1 | D< 2 "+Num(10000+4*16+1).Render()+" false @0 | D> 3 2 @0 | Ro 4 2 @1", "THROW E:TypeError")
}

func TestPromiseAllOrder(t *testing.T) {
	// two Promise.all: the empty one settles first
	p := &Program{Main: []*Node{{Kind: PromiseAll, Iter: Iter{N: 2, Ret: RetOK}}, {Kind: PromiseAll, Iter: Iter{N: 0, Ret: RetOK}}, {Kind: PromiseAll, Iter: Iter{N: 1, ThrowAt: 1}}}}
	run(t, "Promise.all job order", p, ModeFunction,
		"M 1 1 @0 | Nv 1 1 1 @0 | Nv 1 1 2 @0 | Nd 1 1 3 @0 | M 2 2 @0 | Nd 2 2 1 @0 | M 3 3 @0 | Nt 3 3 1 @0 | PAo 2 @0 | PAr 3 "+Num(30000+3*16+1).Render()+" @0 | PAo 1 @0", "RET u")
}

func TestVariantsApplyAndPrint(t *testing.T) {
	for d := 1; d <= 2; d++ {
		for i := 0; i < NumChains(d); i += 7 {
			p := Chain(ChainKinds(d, i))
			vs := Variants(p)
			if len(vs) == 0 {
				t.Fatalf("no variants for %s", ChainName(ChainKinds(d, i)))
			}
			for j, v := range vs {
				if j%5 != 0 {
					continue
				}
				q, _ := Apply(p, v)
				if js := q.JS(ModeFunction); !strings.Contains(js, "function mk(") {
					t.Fatal("prelude missing")
				}
				if o := Run(q, ModeFunction); o.Aborted || o.Final == "" || strings.HasPrefix(o.Final, "ILLEGAL") {
					t.Fatalf("%s / %s: reference run aborted or illegal completion %q\n%s", ChainName(ChainKinds(d, i)), v, o.Final, q.Body(0))
				}
			}
		}
	}
}
