// Package ctlref is a small control-flow skeleton language for property C08 ("abrupt exits run each pending
// finally and iterator close exactly once, in order"): its own AST, a printer to JavaScript (with the
// instrumentation prelude), skeleton enumerators and a DEFINITIONAL interpreter written from ECMA-262
// (completion records, UpdateEmpty, LoopContinues, IteratorClose, generator resumption, yield*).
// Nothing here is derived from goja's code.
package ctlref

import (
	"fmt"
	"strings"
)

type Kind uint8

const (
	Block      Kind = iota // { Stmts }           Scoped: a captured let binding forces a real scope
	Labelled               // Label: Stmts[0]
	If                     // if (Cond) {Stmts} else {Else}
	For                    // for (var i=0;i<Trip;i++) {Stmts}
	While                  // while (i++<Trip) {Stmts}
	DoWhile                // do {Stmts} while (++i<Trip)
	ForIn                  // for (var k in {p0:1,…}) {Stmts}      Trip keys
	ForOf                  // for (var v of ITER) {Stmts}
	Switch                 // switch (Disc) { Cases }
	With                   // with ({}) {Stmts}
	Try                    // try {Stmts} catch(e) {Catch} finally {Finally}
	Throw                  // throw 1000+ID
	Return                 // return 2000+ID
	Break                  // break [Label]
	Continue               // continue [Label]
	Log                    // log(ID)
	Destruct               // [e1,…,eN(,...r)] = ITER   /  var [...] = ITER
	Spread                 // [...ITER]   /  sink(...ITER)
	ArrayFrom              // Array.from(ITER[, mapfn throwing at call At])
	NewMap                 // new Map(ITER)   (At: adder throws at call At)
	NewSet                 // new Set(ITER)
	PromiseAll             // Promise.all(ITER).then(log, log)
	GoForOf                // goForOf(ITER, Op, At, …): host native driving Runtime.ForOf; the Go step callback continues / stops (Op 1) / throws (Op 2 value, 3 TypeError, 4 via a throwing JS callback) at item At
	YieldStar              // yield* ITER            (generator bodies only)
	Yield                  // yield 20000+ID         (generator bodies only)
	GenNew                 // var g<Var> = gen(a, Gen, G<Gen>)
	GenOp                  // dres(g<Var>.next|return|throw(v))
	Nest                   // var _ = nest(TD, TM): TD nested try statements (no events, no value): try-stack depth dimension
	numKinds
)

var kindNames = [...]string{"block", "label", "if", "for", "while", "dowhile", "forin", "forof", "switch", "with", "try", "throw", "return", "break", "continue",
	"log", "destruct", "spread", "arrayfrom", "newmap", "newset", "promiseall", "goforof", "yieldstar", "yield", "gennew", "genop", "nest"}

func (k Kind) String() string { return kindNames[k] }

func (k Kind) IsLoop() bool { return k >= For && k <= ForOf }

// IsExit reports the four explicit abrupt statements.
func (k Kind) IsExit() bool { return k >= Throw && k <= Continue }

// IsConsumer reports statements that consume an iterable.
func (k Kind) IsConsumer() bool { return k == ForOf || (k >= Destruct && k <= YieldStar) }

type CondKind uint8

const (
	CTrue      CondKind = iota
	CFalse              // literal false
	CCounterEq          // c<D> === K   (iteration counter of the enclosing loop at loop depth D, 1-based)
	CLit                // literal K (switch discriminant)
	CCounter            // c<D>      (switch discriminant)
)

type Expr struct {
	Kind CondKind
	D, K int
}

// RetMode of an instrumented iterator's return method.
const (
	RetNone   = 0 // no return method
	RetOK     = 1 // returns {value, done:true}
	RetThrows = 2
	RetBad    = 3 // returns a non-object
)

// Iter describes the iterable handed to a consumer.
type Iter struct {
	Gen     int  // 0: instrumented iterator mk(...); k>0: a fresh generator object of generator function G<k>
	N       int  // mk: number of items before done
	ThrowAt int  // mk: next() call number that throws (0 = never)
	BadAt   int  // mk: next() call number that returns a non-object (0 = never)
	Ret     int  // mk: RetMode
	Pairs   bool // mk: items are [k,v] entry arrays (for Map)
	TDN     int  // mk: next() first runs nest(TDN, TM)   (try-stack depth dimension; no observable effect)
	TDR     int  // mk: return() first runs nest(TDR, TM)
	TM      int  // nest mode: bit 0 = a throw inside, caught by the outermost level; bit 1 = by recursion (else flat)
}

type Case struct {
	Default bool
	Val     int
	Body    []*Node
}

type Node struct {
	Kind  Kind
	ID    int // unique per program (Number())
	Label string

	Stmts   []*Node // block / body / try block / labelled item (Stmts[0]) / if-then
	Else    []*Node // If
	HasElse bool
	Cond    Expr // If: condition; Switch: discriminant
	Trip    int  // loops: literal trip bound
	Scoped  bool // Block / For: lexical binding captured by a closure (forces a scope object)

	Cases []Case // Switch

	Catch      []*Node // Try
	Finally    []*Node
	HasCatch   bool
	HasFinally bool
	CatchParam bool

	Iter   Iter // consumers
	NElems int  // Destruct: number of elements
	Rest   bool // Destruct: trailing rest element
	Decl   bool // Destruct: `var [..] =` form;  Spread: call form sink(...ITER)
	At     int  // Destruct (assignment form): element whose target setter throws; ArrayFrom: mapfn call that throws (-1: identity mapfn); NewMap/NewSet: adder call that throws

	Var int // GenNew / GenOp: generator variable slot
	Gen int // GenNew: generator function index (1-based)
	Op  int // GenOp: 0 next, 1 return, 2 throw;  GoForOf: 0 run to exhaustion, 1 stop at item At, 2/3/4 throw at item At

	TD int // Nest: depth;  TM: mode (as Iter.TM)
	TM int

	Synth bool // inserted by the exit placer (for reports only)
}

type GenDef struct {
	Body []*Node
}

type Program struct {
	Gens []*GenDef // G1..Gn
	Main []*Node
}

// ---- cloning / numbering / walking ----

func cloneList(l []*Node) []*Node {
	if l == nil {
		return nil
	}
	r := make([]*Node, len(l))
	for i, n := range l {
		r[i] = n.Clone()
	}
	return r
}

func (n *Node) Clone() *Node {
	c := *n
	c.Stmts = cloneList(n.Stmts)
	c.Else = cloneList(n.Else)
	c.Catch = cloneList(n.Catch)
	c.Finally = cloneList(n.Finally)
	if n.Cases != nil {
		c.Cases = make([]Case, len(n.Cases))
		for i, cs := range n.Cases {
			c.Cases[i] = Case{Default: cs.Default, Val: cs.Val, Body: cloneList(cs.Body)}
		}
	}
	return &c
}

func (p *Program) Clone() *Program {
	q := &Program{Main: cloneList(p.Main)}
	for _, g := range p.Gens {
		q.Gens = append(q.Gens, &GenDef{Body: cloneList(g.Body)})
	}
	return q
}

// ListRef addresses one statement list of a program (for exit placement): Fn = 0 main, k = generator k;
// the list is found by walking Path from the function body.
type ListRef struct {
	Fn   int
	Node *Node // owning node (nil: the function body itself)
	Part int   // 0 Stmts, 1 Else, 2 Catch, 3 Finally, 4+i case i body
}

func (n *Node) lists() []*[]*Node {
	var r []*[]*Node
	switch n.Kind {
	case Block, For, While, DoWhile, ForIn, ForOf, With:
		r = append(r, &n.Stmts)
	case Labelled:
		// the labelled item is a single statement, not a list position
	case If:
		r = append(r, &n.Stmts)
		if n.HasElse {
			r = append(r, &n.Else)
		}
	case Try:
		r = append(r, &n.Stmts)
		if n.HasCatch {
			r = append(r, &n.Catch)
		}
		if n.HasFinally {
			r = append(r, &n.Finally)
		}
	case Switch:
		for i := range n.Cases {
			r = append(r, &n.Cases[i].Body)
		}
	}
	return r
}

// children returns every directly nested statement.
func (n *Node) children() []*Node {
	var r []*Node
	if n.Kind == Labelled {
		return n.Stmts
	}
	for _, l := range n.lists() {
		r = append(r, (*l)...)
	}
	return r
}

// Walk visits every node of a list in preorder.
func Walk(l []*Node, f func(*Node)) {
	for _, n := range l {
		f(n)
		if n.Kind == Labelled {
			Walk(n.Stmts, f)
			continue
		}
		for _, sub := range n.lists() {
			Walk(*sub, f)
		}
	}
}

func (p *Program) Bodies() [][]*Node {
	r := [][]*Node{p.Main}
	for _, g := range p.Gens {
		r = append(r, g.Body)
	}
	return r
}

// Number assigns preorder ids 1.. (main first, then generators) and returns the number of nodes.
func (p *Program) Number() int {
	id := 0
	for _, b := range p.Bodies() {
		Walk(b, func(n *Node) { id++; n.ID = id })
	}
	return id
}

// Size is the number of statements.
func (p *Program) Size() int {
	k := 0
	for _, b := range p.Bodies() {
		Walk(b, func(*Node) { k++ })
	}
	return k
}

// Positions enumerates every statement position (list, index 0..len) of the program in a fixed order.
type Position struct {
	Fn    int // 0 main, k generator k
	List  *[]*Node
	Index int
}

func (p *Program) Positions() []Position {
	r, _ := p.PositionsWithChains()
	return r
}

// Region kinds crossed by an exit (for non-triviality and evidence).
const (
	RTryFinally = "try-finally"
	RCatch      = "catch"
	RTryCatch   = "try-catch"
	RFinallyBlk = "in-finally"
	RForOf      = "for-of-iterator"
	RWith       = "with"
	RSwitch     = "switch"
	RLoop       = "loop"
	RGenerator  = "generator"
	RBlock      = "block"
	RLabel      = "label"
	RIf         = "if"
)

// Frame is one enclosing construct of a site: the node and which of its parts contains the site.
type Frame struct {
	N    *Node
	Part int // as in ListRef.Part (0 Stmts, 1 Else, 2 Catch, 3 Finally, 4+i case body)
}

// Static holds per-function syntactic facts used by the trace specification (no semantics, only nesting).
type Static struct {
	Prog   *Program
	ByID   map[int]*Node
	Fn     map[int]int     // node id -> function (0 main, k gen k)
	Chain  map[int][]Frame // node id -> enclosing frames in the same function, innermost first
	MaxDep int             // max nesting depth of regions
}

func Analyze(p *Program) *Static {
	s := &Static{Prog: p, ByID: map[int]*Node{}, Fn: map[int]int{}, Chain: map[int][]Frame{}}
	var rec func(fn int, l []*Node, chain []Frame)
	rec = func(fn int, l []*Node, chain []Frame) {
		for _, n := range l {
			s.ByID[n.ID] = n
			s.Fn[n.ID] = fn
			s.Chain[n.ID] = chain
			if len(chain) > s.MaxDep {
				s.MaxDep = len(chain)
			}
			push := func(part int) []Frame {
				c := make([]Frame, 0, len(chain)+1)
				c = append(c, Frame{n, part})
				return append(c, chain...)
			}
			switch n.Kind {
			case Labelled:
				rec(fn, n.Stmts, push(0))
			case If:
				rec(fn, n.Stmts, push(0))
				if n.HasElse {
					rec(fn, n.Else, push(1))
				}
			case Try:
				rec(fn, n.Stmts, push(0))
				if n.HasCatch {
					rec(fn, n.Catch, push(2))
				}
				if n.HasFinally {
					rec(fn, n.Finally, push(3))
				}
			case Switch:
				for i := range n.Cases {
					rec(fn, n.Cases[i].Body, push(4+i))
				}
			case Block, For, While, DoWhile, ForIn, ForOf, With:
				rec(fn, n.Stmts, push(0))
			}
		}
	}
	rec(0, p.Main, nil)
	for i, g := range p.Gens {
		rec(i+1, g.Body, nil)
	}
	return s
}

// LabelsOf returns the label set directly attached to the statement n (labels of enclosing Labelled frames
// whose item is n, possibly through further labels), given n's chain.
func labelsOf(chain []Frame) []string {
	var r []string
	for _, f := range chain {
		if f.N.Kind != Labelled {
			break
		}
		r = append(r, f.N.Label)
	}
	return r
}

// Target resolves the target of a break/continue at a site with the given chain: the index into chain of the
// frame that is the target statement (for a labelled non-loop target: the Labelled frame). -1 if none (illegal).
func Target(kind Kind, label string, chain []Frame) int {
	for i, f := range chain {
		k := f.N.Kind
		if label == "" {
			if kind == Break && (k.IsLoop() || k == Switch) {
				return i
			}
			if kind == Continue && k.IsLoop() {
				return i
			}
			continue
		}
		if k == Labelled && f.N.Label == label {
			// the labelled item (possibly under more labels)
			if kind == Break {
				return i
			}
			// continue: the target must be a loop labelled (directly) with label: the loop frame is below i
			j := i - 1
			for j >= 0 && chain[j].N.Kind == Labelled {
				j--
			}
			if j >= 0 && chain[j].N.Kind.IsLoop() {
				return j
			}
			return -1
		}
	}
	return -1
}

// RegionKind names the region kind of a frame for evidence / non-triviality.
func (f Frame) RegionKind() string {
	switch f.N.Kind {
	case Try:
		switch f.Part {
		case 0:
			if f.N.HasFinally {
				return RTryFinally
			}
			return RTryCatch
		case 2:
			if f.N.HasFinally {
				return RCatch + "+finally"
			}
			return RCatch
		default:
			return RFinallyBlk
		}
	case ForOf:
		return RForOf
	case With:
		return RWith
	case Switch:
		return RSwitch
	case For, While, DoWhile, ForIn:
		return RLoop
	case Block:
		if f.N.Scoped {
			return RBlock
		}
		return ""
	case Labelled:
		return RLabel
	case If:
		return ""
	}
	return ""
}

// Shape is a compact nesting signature of a statement list (evidence: skeleton shapes).
func Shape(l []*Node) string {
	var b strings.Builder
	var rec func(l []*Node, d int)
	rec = func(l []*Node, d int) {
		for _, n := range l {
			if n.Synth {
				continue
			}
			switch n.Kind {
			case Log, Nest:
				continue
			case Labelled:
				b.WriteString("L:")
				rec(n.Stmts, d)
				continue
			}
			b.WriteString(shortKind(n))
			subs := n.lists()
			if len(subs) > 0 {
				b.WriteByte('(')
				for i, s := range subs {
					if i > 0 {
						b.WriteByte('|')
					}
					rec(*s, d+1)
				}
				b.WriteByte(')')
			}
			b.WriteByte(' ')
		}
	}
	rec(l, 0)
	return strings.TrimSpace(b.String())
}

func shortKind(n *Node) string {
	switch n.Kind {
	case Try:
		s := "t"
		if n.HasCatch {
			s += "c"
		}
		if n.HasFinally {
			s += "f"
		}
		return s
	case ForOf:
		if n.Iter.Gen > 0 {
			return "forofG"
		}
		return "forof"
	case Block:
		if n.Scoped {
			return "blk!"
		}
		return "blk"
	case GenOp:
		return fmt.Sprintf("op%d", n.Op)
	}
	s := n.Kind.String()
	if n.Kind.IsConsumer() && n.Iter.Gen > 0 {
		s += "G"
	}
	return s
}

// Deepen applies the try-stack depth dimension to a program (in place; call Number() afterwards): the main body (and,
// up to 5 levels, every generator body) is wrapped in k additional try/finally statements, every instrumented iterator's
// next()/return() first runs tdn/tdr nested try statements of its own, and so does every finally block (tdr levels).
// None of this has an observable effect other than T+/T-/F/F- events of the wrappers.
func Deepen(p *Program, k, tdn, tdr, tm int) {
	for _, b := range p.Bodies() {
		Walk(b, func(n *Node) {
			if n.Kind.IsConsumer() && n.Iter.Gen == 0 {
				n.Iter.TDN, n.Iter.TDR, n.Iter.TM = tdn, tdr, tm
			}
			if n.Kind == Try && n.HasFinally && tdr > 0 {
				n.Finally = append([]*Node{{Kind: Nest, TD: tdr, TM: tm, Synth: true}}, n.Finally...)
			}
		})
	}
	wrap := func(l []*Node, k int) []*Node {
		for i := 0; i < k; i++ {
			// leading GenNew statements stay outside (driver variables are function-level anyway)
			l = []*Node{{Kind: Try, HasFinally: true, Stmts: l, Synth: true}}
		}
		return l
	}
	p.Main = wrap(p.Main, k)
	for _, g := range p.Gens {
		kk := k
		if kk > 5 {
			kk = 5
		}
		g.Body = wrap(g.Body, kk)
	}
}
