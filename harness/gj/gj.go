// Package gj holds helpers shared by the checks for driving goja at its API boundary:
// panic classification, error-kind classification, idle-state assertion, canonical value rendering.
package gj

import (
	"errors"
	"fmt"
	"math"
	"reflect"
	"runtime/debug"
	"strings"
	"time"

	"github.com/dop251/goja"
	"github.com/dop251/goja/parser"
)

// Outcome of one call into the goja API.
type Outcome struct {
	Val        goja.Value
	Err        error
	Panic      any    // foreign (non-goja) panic value that escaped the API call
	PanicStack string // Go stack at the recover point
	Fuel       bool   // the fuel sentinel fired (logical-time hang)
	Assertion  *goja.VerifAssertion
}

// Call runs f and classifies what came out of it.
func Call(f func() (goja.Value, error)) (o Outcome) {
	defer func() {
		if x := recover(); x != nil {
			switch p := x.(type) {
			case *goja.VerifFuelExhausted:
				o.Fuel = true
			case *goja.VerifAssertion:
				o.Assertion = p
			default:
				o.Panic = x
				o.PanicStack = string(debug.Stack())
			}
		}
	}()
	o.Val, o.Err = f()
	return
}

// ErrKind classifies an error returned by the goja API into the documented kinds.
// Returns "" for nil; "other:<type>" for an undocumented kind.
func ErrKind(err error) string {
	if err == nil {
		return ""
	}
	switch e := err.(type) {
	case *goja.Exception:
		return "exception"
	case *goja.CompilerSyntaxError:
		return "compile-syntax"
	case *goja.CompilerReferenceError:
		return "compile-reference"
	case *goja.InterruptedError:
		return "interrupted"
	case *goja.StackOverflowError:
		return "stackoverflow"
	case parser.ErrorList:
		return "parse"
	case *parser.Error:
		return "parse"
	default:
		_ = e
		var ex *goja.Exception
		if errors.As(err, &ex) {
			return "exception"
		}
		return "other:" + reflect.TypeOf(err).String()
	}
}

// internal diagnostics that must never reach the host or the script
var diagMarkers = []string{"Compiler bug", "compiler bug", "BUG", "Internal bug", "internal bug", "Runtime bug", "unknown string type", "Unreachable", "unreachable", "runtime error:", "nil pointer", "index out of range", "interface conversion", "slice bounds out of range", "invalid memory address"}

// Diagnostic returns the internal-diagnostic marker found in s, or "".
func Diagnostic(s string) string {
	for _, m := range diagMarkers {
		if strings.Contains(s, m) {
			return m
		}
	}
	return ""
}

// FixedTime is the deterministic time source for all runtimes.
var FixedTime = time.Date(2024, 3, 1, 12, 0, 0, 0, time.UTC)

// NewRuntime returns a Runtime with deterministic time and random sources.
func NewRuntime() *goja.Runtime {
	r := goja.New()
	r.SetTimeSource(func() time.Time { return FixedTime })
	var s uint64 = 0x1234567
	r.SetRandSource(func() float64 {
		s += 0x9e3779b97f4a7c15
		z := s
		z = (z ^ (z >> 30)) * 0xbf58476d1ce4e5b9
		z = (z ^ (z >> 27)) * 0x94d049bb133111eb
		z ^= z >> 31
		return float64(z>>11) / float64(1<<53)
	})
	return r
}

// IdleProblem returns "" when the VM registers are idle (see DESIGN C03), else which register is not.
// allowInterrupted tolerates a set interrupt flag (the harness has an unconsumed Interrupt outstanding).
func IdleProblem(r *goja.Runtime, allowInterrupted bool) string {
	st := goja.VerifState(r)
	ok, why := st.Idle()
	if !ok {
		return why
	}
	if st.Interrupted && !allowInterrupted {
		return "interrupt flag still set"
	}
	return ""
}

// Render produces the canonical, engine-independent rendering of a primitive value; objects are
// rendered through ids handed out by an Ids table (identity, not structure).
type Ids struct {
	m map[*goja.Object]int
	s map[*goja.Symbol]int
}

func NewIds() *Ids { return &Ids{m: map[*goja.Object]int{}, s: map[*goja.Symbol]int{}} }

func (ids *Ids) Render(v goja.Value) string {
	if v == nil {
		return "nil"
	}
	switch {
	case goja.IsUndefined(v):
		return "u"
	case goja.IsNull(v):
		return "n"
	}
	switch x := v.(type) {
	case goja.String:
		return RenderString(x)
	case *goja.Symbol:
		if ids == nil {
			return "y"
		}
		k, ok := ids.s[x]
		if !ok {
			k = len(ids.s) + 1
			ids.s[x] = k
		}
		return fmt.Sprintf("y#%d", k)
	case *goja.Object:
		tag := "o"
		if _, ok := goja.AssertFunction(x); ok {
			tag = "f"
		}
		if ids == nil {
			return tag
		}
		k, ok := ids.m[x]
		if !ok {
			k = len(ids.m) + 1
			ids.m[x] = k
		}
		return fmt.Sprintf("%s#%d", tag, k)
	}
	if goja.IsBigInt(v) {
		return "g:" + v.String()
	}
	if goja.IsNumber(v) {
		return RenderNumber(v.ToFloat())
	}
	if b, ok := v.Export().(bool); ok {
		if b {
			return "b:true"
		}
		return "b:false"
	}
	return fmt.Sprintf("?%T", v)
}

func RenderNumber(f float64) string {
	if f != f {
		return "d:NaN"
	}
	return fmt.Sprintf("d:%016x", math.Float64bits(f))
}

// RenderString renders the UTF-16 code units of a string: ASCII printable as is, everything else as \uXXXX.
func RenderString(s goja.String) string {
	n := s.Length()
	var b strings.Builder
	fmt.Fprintf(&b, "s:%d:", n)
	for i := 0; i < n; i++ {
		c := s.CharAt(i)
		if c >= 0x20 && c < 0x7f && c != '\\' {
			b.WriteByte(byte(c))
		} else {
			fmt.Fprintf(&b, "\\u%04x", c)
		}
	}
	return b.String()
}

// Units returns the UTF-16 code units of a string value.
func Units(s goja.String) []uint16 {
	n := s.Length()
	u := make([]uint16, n)
	for i := range u {
		u[i] = s.CharAt(i)
	}
	return u
}

// ErrorCtorName returns the constructor name of a thrown error object (walking to the nearest
// prototype that has an own "name"), or "" if v is not an object.
func ErrorCtorName(r *goja.Runtime, v goja.Value) string {
	o, ok := v.(*goja.Object)
	if !ok {
		return ""
	}
	var name string
	out := Call(func() (goja.Value, error) {
		c := o.Get("constructor")
		if co, ok := c.(*goja.Object); ok {
			if n := co.Get("name"); n != nil {
				name = n.String()
			}
		}
		return nil, nil
	})
	_ = out
	return name
}
