package objmodel

import (
	"math"
	"sort"
)

var lengthKey = StrKey("length")

// ---------------------------------------------------------------------------------------------------------------
// Array exotic objects (§10.4.2).  "length" is a stored data property whose value is a Number.

// NewArray makes an empty array model (length 0, writable).
func NewArray(name string, proto *Object) *Object {
	o := NewObject(name, proto)
	o.Class = CArray
	o.Load(lengthKey, Prop{Value: Num(0), W: true})
	return o
}

func arrayLen(o *Object) (uint32, *Prop) {
	p := o.props[lengthKey]
	if p == nil || p.Accessor || p.Value.K != KNumber {
		ood("array without a numeric length")
	}
	return uint32(p.Value.N), p
}

func (m *Machine) arrayDefineOwnProperty(a *Object, k Key, d Desc) (bool, *Throw) {
	if k == lengthKey {
		return m.arraySetLength(a, d)
	}
	if index, ok := k.ArrayIndex(); ok {
		length, lengthProp := arrayLen(a)
		if index >= length && !lengthProp.W {
			return false, nil
		}
		if !m.ordinaryDefineOwnProperty(a, k, d) {
			return false, nil
		}
		if index >= length {
			lengthProp.Value = Num(float64(index) + 1)
		}
		return true, nil
	}
	return m.ordinaryDefineOwnProperty(a, k, d), nil
}

// arraySetLength is ArraySetLength (§10.4.2.4).
func (m *Machine) arraySetLength(a *Object, d Desc) (bool, *Throw) {
	if !d.HasValue {
		return m.ordinaryDefineOwnProperty(a, lengthKey, d), nil
	}
	newLenDesc := d
	n1, thr := ToNumber(d.Value) // ToUint32(Desc.[[Value]])
	if thr != nil {
		return false, thr
	}
	newLen := ToUint32(n1)
	numberLen, thr := ToNumber(d.Value)
	if thr != nil {
		return false, thr
	}
	if float64(newLen) != numberLen { // SameValueZero(newLen, numberLen)
		return false, rangeError()
	}
	newLenDesc.Value = Num(float64(newLen))
	oldLen, oldLenProp := arrayLen(a)
	if newLen >= oldLen {
		return m.ordinaryDefineOwnProperty(a, lengthKey, newLenDesc), nil
	}
	if !oldLenProp.W {
		return false, nil
	}
	newWritable := true
	if newLenDesc.HasW && !newLenDesc.W {
		newWritable = false
		newLenDesc.W = true
	}
	if !m.ordinaryDefineOwnProperty(a, lengthKey, newLenDesc) {
		return false, nil
	}
	var idx []uint32
	for _, k := range a.order {
		if i, ok := k.ArrayIndex(); ok && i >= newLen {
			idx = append(idx, i)
		}
	}
	sort.Slice(idx, func(x, y int) bool { return idx[x] > idx[y] })
	for _, i := range idx {
		if !m.Delete(a, IdxKey(i)) {
			nd := Desc{HasValue: true, Value: Num(float64(i) + 1)}
			if !newWritable {
				nd.HasW = true
				nd.W = false
			}
			m.ordinaryDefineOwnProperty(a, lengthKey, nd)
			return false, nil
		}
	}
	if !newWritable {
		m.ordinaryDefineOwnProperty(a, lengthKey, Desc{HasW: true, W: false})
	}
	return true, nil
}

// ---------------------------------------------------------------------------------------------------------------
// String exotic objects (§10.4.3).  "length" is a stored property (loaded from the snapshot / StringCreate).

// NewString makes a String object model for the given value.
func NewString(name string, proto *Object, s string) *Object {
	o := NewObject(name, proto)
	o.Class = CString
	o.StringData = UTF16(s)
	o.Load(lengthKey, Prop{Value: Num(float64(len(o.StringData)))})
	return o
}

// stringOwnIndex is StringGetOwnProperty (§10.4.3.5).
func stringOwnIndex(s *Object, k Key) *Prop {
	n, ok := k.CanonicalNumericIndex()
	if !ok {
		return nil
	}
	if n != math.Trunc(n) || math.IsInf(n, 0) { // IsIntegralNumber
		return nil
	}
	if n == 0 && math.Signbit(n) {
		return nil
	}
	if n < 0 || n >= float64(len(s.StringData)) {
		return nil
	}
	u := s.StringData[int(n)]
	return &Prop{Value: Value{K: KString, S: string(rune(u))}, W: false, E: true, C: false}
}

func (m *Machine) stringGetOwnProperty(s *Object, k Key) *Prop {
	if p := ordinaryGetOwnProperty(s, k); p != nil {
		return p
	}
	return stringOwnIndex(s, k)
}

func (m *Machine) stringDefineOwnProperty(s *Object, k Key, d Desc) bool {
	if sd := stringOwnIndex(s, k); sd != nil {
		return IsCompatiblePropertyDescriptor(s.Extensible, d, sd)
	}
	return m.ordinaryDefineOwnProperty(s, k, d)
}

// ---------------------------------------------------------------------------------------------------------------
// Arguments exotic objects (§10.4.4)

func (m *Machine) argumentsGetOwnProperty(a *Object, k Key) *Prop {
	p := ordinaryGetOwnProperty(a, k)
	if p == nil {
		return nil
	}
	if idx, ok := k.ArrayIndex(); ok {
		if cell := a.ParamMap[idx]; cell != nil {
			p.Value = *cell
		}
	}
	return p
}

func (m *Machine) argumentsDefineOwnProperty(a *Object, k Key, d Desc) bool {
	var cell *Value
	idx, isIdx := k.ArrayIndex()
	if isIdx {
		cell = a.ParamMap[idx]
	}
	newArgDesc := d
	if cell != nil && d.IsData() {
		if !d.HasValue && d.HasW && !d.W {
			newArgDesc.HasValue = true
			newArgDesc.Value = *cell
		}
	}
	// OrdinaryDefineOwnProperty calls args.[[GetOwnProperty]], i.e. the mapped value is the current value
	if !m.ordinaryDefineOwnProperty(a, k, newArgDesc) {
		return false
	}
	if cell != nil {
		if d.IsAccessor() {
			delete(a.ParamMap, idx)
		} else {
			if d.HasValue {
				*cell = d.Value
			}
			if d.HasW && !d.W {
				delete(a.ParamMap, idx)
			}
		}
	}
	return true
}

// ---------------------------------------------------------------------------------------------------------------
// Integer-Indexed exotic objects (§10.4.5)

// NewTypedArray makes a typed-array model of n zeroed elements.
func NewTypedArray(name string, proto *Object, t ElemType, n int) *Object {
	o := NewObject(name, proto)
	o.Class = CTypedArray
	o.Elem = t
	o.Buf = &Buffer{}
	o.Elems = make([]float64, n)
	return o
}

// Detach models DetachArrayBuffer on the viewed buffer.
func (o *Object) Detach() {
	o.Buf.Detached = true
	o.Elems = nil
}

// taValidIndex is IsValidIntegerIndex (§10.4.5.14).
func taValidIndex(o *Object, n float64) bool {
	if o.Buf.Detached {
		return false
	}
	if n != math.Trunc(n) || math.IsInf(n, 0) || n != n {
		return false
	}
	if n == 0 && math.Signbit(n) {
		return false
	}
	return n >= 0 && n < float64(len(o.Elems))
}

func (m *Machine) taGetOwnProperty(o *Object, n float64) *Prop {
	if !taValidIndex(o, n) {
		return nil
	}
	return &Prop{Value: Num(o.Elems[int(n)]), W: true, E: true, C: true}
}

func (m *Machine) taDefineOwnProperty(o *Object, n float64, d Desc) (bool, *Throw) {
	if !taValidIndex(o, n) {
		return false, nil
	}
	if d.HasC && !d.C {
		return false, nil
	}
	if d.HasE && !d.E {
		return false, nil
	}
	if d.IsAccessor() {
		return false, nil
	}
	if d.HasW && !d.W {
		return false, nil
	}
	if d.HasValue {
		if thr := taSetElement(o, n, d.Value); thr != nil {
			return false, thr
		}
	}
	return true, nil
}

// taSetElement is TypedArraySetElement / IntegerIndexedElementSet (§10.4.5.16).
func taSetElement(o *Object, n float64, v Value) *Throw {
	num, thr := ToNumber(v)
	if thr != nil {
		return thr
	}
	if taValidIndex(o, n) {
		o.Elems[int(n)] = ConvertElem(o.Elem, num)
	}
	return nil
}

func modInt(f float64, bits uint, signed bool) float64 {
	if f != f || math.IsInf(f, 0) {
		return 0
	}
	t := math.Trunc(f)
	mod := math.Ldexp(1, int(bits))
	r := math.Mod(t, mod)
	if r < 0 {
		r += mod
	}
	if signed && r >= mod/2 {
		r -= mod
	}
	if r == 0 {
		return 0 // +0
	}
	return r
}

// ConvertElem is the NumericToRawBytes / RawBytesToNumeric round trip for an element type (§25.1.3.15).
func ConvertElem(t ElemType, f float64) float64 {
	switch t {
	case Int8:
		return modInt(f, 8, true)
	case Uint8:
		return modInt(f, 8, false)
	case Uint8Clamped:
		if f != f || f <= 0 {
			return 0
		}
		if f >= 255 {
			return 255
		}
		return math.RoundToEven(f)
	case Int16:
		return modInt(f, 16, true)
	case Uint16:
		return modInt(f, 16, false)
	case Int32:
		return modInt(f, 32, true)
	case Uint32:
		return modInt(f, 32, false)
	case Float32:
		return float64(float32(f))
	}
	return f
}
