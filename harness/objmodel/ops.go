package objmodel

// Abstract operations built on the internal methods (§7.3, §6.2.6).

// ToPropertyDescriptor (§6.2.6.5) applied to a descriptor *object* whose present fields are those of d
// (boolean fields already booleans).  Only the two checks that can fail remain.
func ToPropertyDescriptor(d Desc) (Desc, *Throw) {
	if d.HasGet && !d.Get.IsUndef() && !(d.Get.IsObj() && d.Get.O.Callable) {
		return d, typeError()
	}
	if d.HasSet && !d.Set.IsUndef() && !(d.Set.IsObj() && d.Set.O.Callable) {
		return d, typeError()
	}
	if (d.HasGet || d.HasSet) && (d.HasValue || d.HasW) {
		return d, typeError()
	}
	return d, nil
}

// HasOwnProperty (§7.3.12).
func (m *Machine) HasOwnProperty(o *Object, k Key) bool { return m.GetOwnProperty(o, k) != nil }

// CreateDataProperty (§7.3.5).
func (m *Machine) CreateDataProperty(o *Object, k Key, v Value) (bool, *Throw) {
	return m.DefineOwnProperty(o, k, DataDesc(v, true, true, true))
}

// SetIntegrityLevel (§7.3.15); frozen=false means sealed.
func (m *Machine) SetIntegrityLevel(o *Object, frozen bool) (bool, *Throw) {
	if !m.PreventExtensions(o) {
		return false, nil
	}
	keys := m.OwnPropertyKeys(o)
	for _, k := range keys {
		var d Desc
		if !frozen {
			d = Desc{HasC: true, C: false}
		} else {
			cur := m.GetOwnProperty(o, k)
			if cur == nil {
				continue
			}
			if cur.Accessor {
				d = Desc{HasC: true, C: false}
			} else {
				d = Desc{HasC: true, C: false, HasW: true, W: false}
			}
		}
		ok, thr := m.DefineOwnProperty(o, k, d) // DefinePropertyOrThrow
		if thr != nil {
			return false, thr
		}
		if !ok {
			return false, typeError()
		}
	}
	return true, nil
}

// TestIntegrityLevel (§7.3.16).
func (m *Machine) TestIntegrityLevel(o *Object, frozen bool) bool {
	if m.IsExtensible(o) {
		return false
	}
	for _, k := range m.OwnPropertyKeys(o) {
		cur := m.GetOwnProperty(o, k)
		if cur == nil {
			continue
		}
		if cur.C {
			return false
		}
		if frozen && !cur.Accessor && cur.W {
			return false
		}
	}
	return true
}

// EnumerableOwnKeys is EnumerableOwnProperties(O, key) (§7.3.23): enumerable own string keys.
func (m *Machine) EnumerableOwnKeys(o *Object) []Key {
	var out []Key
	for _, k := range m.OwnPropertyKeys(o) {
		if k.IsSymbol() {
			continue
		}
		if d := m.GetOwnProperty(o, k); d != nil && d.E {
			out = append(out, k)
		}
	}
	return out
}

// Entry is a key/value pair of EnumerableOwnProperties(O, key+value).
type Entry struct {
	K Key
	V Value
}

// EnumerableOwnEntries is EnumerableOwnProperties(O, key+value): values are read with [[Get]] (getters run).
func (m *Machine) EnumerableOwnEntries(o *Object) ([]Entry, *Throw) {
	var out []Entry
	for _, k := range m.OwnPropertyKeys(o) {
		if k.IsSymbol() {
			continue
		}
		if d := m.GetOwnProperty(o, k); d != nil && d.E {
			v, thr := m.Get(o, k, ObjV(o))
			if thr != nil {
				return nil, thr
			}
			out = append(out, Entry{k, v})
		}
	}
	return out, nil
}

// ForInIterator is a For-In Iterator (§14.7.5.10): per object on the prototype chain the own keys are snapshotted
// when the object is first reached; each key is looked up again when it is its turn (a key deleted meanwhile is
// skipped, a key added meanwhile is not visited on that object), a key is visited once along the chain (shadowing
// counts even when the shadowing property is not enumerable), only enumerable string keys are produced.
type ForInIterator struct {
	m         *Machine
	o         *Object
	reached   bool
	visited   map[Key]bool
	remaining []Key
}

func (m *Machine) NewForIn(o *Object) *ForInIterator {
	return &ForInIterator{m: m, o: o, visited: map[Key]bool{}}
}

// Next is %ForInIteratorPrototype%.next (§14.7.5.10.2.1); ok=false when the iteration is done.
func (it *ForInIterator) Next() (Key, bool) {
	for it.o != nil {
		if !it.reached {
			for _, k := range it.m.OwnPropertyKeys(it.o) {
				if !k.IsSymbol() {
					it.remaining = append(it.remaining, k)
				}
			}
			it.reached = true
		}
		for len(it.remaining) > 0 {
			r := it.remaining[0]
			it.remaining = it.remaining[1:]
			if it.visited[r] {
				continue
			}
			d := it.m.GetOwnProperty(it.o, r)
			if d == nil {
				continue
			}
			it.visited[r] = true
			if d.E {
				return r, true
			}
		}
		it.o = it.m.GetPrototypeOf(it.o)
		it.reached = false
	}
	return Key{}, false
}

// ForInKeys is the key sequence of a for-in loop whose body does not mutate anything.
func (m *Machine) ForInKeys(o *Object) []Key {
	var out []Key
	it := m.NewForIn(o)
	for k, ok := it.Next(); ok; k, ok = it.Next() {
		out = append(out, k)
	}
	return out
}

// CopyEnumerableOwn is the common loop of Object.assign (§20.1.2.1 step 3.a), CopyDataProperties (§7.3.26, object
// spread) and EnumerableOwnProperties (§7.3.23): the own keys are snapshotted first, then each key is looked up
// again ([[GetOwnProperty]]) and, when still present and enumerable, read with [[Get]] (getters run and may mutate
// the source).  stringsOnly drops symbol keys (Object.entries).
func (m *Machine) CopyEnumerableOwn(from *Object, stringsOnly bool) ([]Entry, *Throw) {
	var out []Entry
	for _, k := range m.OwnPropertyKeys(from) {
		if stringsOnly && k.IsSymbol() {
			continue
		}
		if d := m.GetOwnProperty(from, k); d != nil && d.E {
			v, thr := m.Get(from, k, ObjV(from))
			if thr != nil {
				return out, thr
			}
			out = append(out, Entry{k, v})
		}
	}
	return out, nil
}
