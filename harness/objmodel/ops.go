package objmodel

// Abstract operations built on the internal methods (§7.3, §6.2.6).

// ToPropertyDescriptor (§6.2.6.5) applied to a descriptor *object* whose present fields are those of d
// (boolean fields already booleans).  Only the two checks that can fail remain.
func ToPropertyDescriptor(d Desc) (Desc, *Throw) {
	if d.HasGet && !d.Get.IsUndef() && !(d.Get.IsObj() && d.Get.O.Callable) {
		return d, typeError()
	}
	if d.HasSet && !d.Set.IsUndef() && !(d.Set.IsObj() && d.Set.O.Callable) {
		return d, typeError()
	}
	if (d.HasGet || d.HasSet) && (d.HasValue || d.HasW) {
		return d, typeError()
	}
	return d, nil
}

// HasOwnProperty (§7.3.12).
func (m *Machine) HasOwnProperty(o *Object, k Key) bool { return m.GetOwnProperty(o, k) != nil }

// CreateDataProperty (§7.3.5).
func (m *Machine) CreateDataProperty(o *Object, k Key, v Value) (bool, *Throw) {
	return m.DefineOwnProperty(o, k, DataDesc(v, true, true, true))
}

// SetIntegrityLevel (§7.3.15); frozen=false means sealed.
func (m *Machine) SetIntegrityLevel(o *Object, frozen bool) (bool, *Throw) {
	if !m.PreventExtensions(o) {
		return false, nil
	}
	keys := m.OwnPropertyKeys(o)
	for _, k := range keys {
		var d Desc
		if !frozen {
			d = Desc{HasC: true, C: false}
		} else {
			cur := m.GetOwnProperty(o, k)
			if cur == nil {
				continue
			}
			if cur.Accessor {
				d = Desc{HasC: true, C: false}
			} else {
				d = Desc{HasC: true, C: false, HasW: true, W: false}
			}
		}
		ok, thr := m.DefineOwnProperty(o, k, d) // DefinePropertyOrThrow
		if thr != nil {
			return false, thr
		}
		if !ok {
			return false, typeError()
		}
	}
	return true, nil
}

// TestIntegrityLevel (§7.3.16).
func (m *Machine) TestIntegrityLevel(o *Object, frozen bool) bool {
	if m.IsExtensible(o) {
		return false
	}
	for _, k := range m.OwnPropertyKeys(o) {
		cur := m.GetOwnProperty(o, k)
		if cur == nil {
			continue
		}
		if cur.C {
			return false
		}
		if frozen && !cur.Accessor && cur.W {
			return false
		}
	}
	return true
}

// EnumerableOwnKeys is EnumerableOwnProperties(O, key) (§7.3.23): enumerable own string keys.
func (m *Machine) EnumerableOwnKeys(o *Object) []Key {
	var out []Key
	for _, k := range m.OwnPropertyKeys(o) {
		if k.IsSymbol() {
			continue
		}
		if d := m.GetOwnProperty(o, k); d != nil && d.E {
			out = append(out, k)
		}
	}
	return out
}

// Entry is a key/value pair of EnumerableOwnProperties(O, key+value).
type Entry struct {
	K Key
	V Value
}

// EnumerableOwnEntries is EnumerableOwnProperties(O, key+value): values are read with [[Get]] (getters run).
func (m *Machine) EnumerableOwnEntries(o *Object) ([]Entry, *Throw) {
	var out []Entry
	for _, k := range m.OwnPropertyKeys(o) {
		if k.IsSymbol() {
			continue
		}
		if d := m.GetOwnProperty(o, k); d != nil && d.E {
			v, thr := m.Get(o, k, ObjV(o))
			if thr != nil {
				return nil, thr
			}
			out = append(out, Entry{k, v})
		}
	}
	return out, nil
}

// ForInKeys is the key sequence of a for-in loop whose body does not mutate anything (§14.7.5.10.2.1
// %ForInIteratorPrototype%.next): per object on the chain its own string keys in [[OwnPropertyKeys]] order, a key
// is visited once (shadowing counts even when the shadowing property is not enumerable), only enumerable ones are
// produced.
func (m *Machine) ForInKeys(o *Object) []Key {
	visited := map[Key]bool{}
	var out []Key
	for ; o != nil; o = o.Proto {
		for _, k := range m.OwnPropertyKeys(o) {
			if k.IsSymbol() || visited[k] {
				continue
			}
			d := m.GetOwnProperty(o, k)
			if d == nil {
				continue
			}
			visited[k] = true
			if d.E {
				out = append(out, k)
			}
		}
	}
	return out
}
