package objmodel

import (
	"math"
	"strings"
)

// Front-ends: how each way of issuing an abstract operation surfaces the result of the internal method
// (DESIGN Appendix B).  Every front-end result is rendered into a canonical string so that it can be compared with
// what a driver observed on a real engine.
//
//	value        u | n | b:true | b:false | d:<Number::toString, -0 kept> | s:<text> | y:<symbol name> | o:<object name>
//	abrupt       !TypeError | !RangeError | !v:<value>         (engine error constructor name, or the thrown user value)
//	key list     [s:a,s:b,y:S1]
//	descriptor   {d <value> w e c} | {a <get> <set> e c} | u   (flags as 0/1)
//	no result    ok

// Issuers.
const (
	JS       = "js"      // syntax in sloppy code:   o[k]   o[k]=v   delete o[k]   k in o   for-in
	JSStrict = "jss"     // the same syntax in strict code
	ObjectFn = "object"  // Object.defineProperty / getOwnPropertyDescriptor / keys / preventExtensions / setPrototypeOf …
	ObjectPl = "objects" // the plural / alternative Object.* form: defineProperties, getOwnPropertyDescriptors, getOwnPropertyNames+Symbols, entries, hasOwnProperty.call
	ReflectF = "reflect" // Reflect.*
	GoAPI    = "go"      // host API: failure surfaces as an error carrying a TypeError
	Field    = "field"   // class field definition on a returned object (CreateDataPropertyOrThrow)
	PropIsEn = "pie"     // Object.prototype.propertyIsEnumerable.call
)

// Op is one abstract operation issued through a front-end.
type Op struct {
	Kind   string // get set delete has hasOwn gopd define ownKeys keys entries preventExtensions seal freeze isSealed isFrozen isExtensible getProto setProto
	Issuer string
	O      *Object
	K      Value  // key argument as passed (string, number or symbol)
	V      Value  // value (set) / prototype (setProto)
	Recv   *Value // explicit receiver of Reflect.get / Reflect.set (nil = omitted)
	D      Desc   // define: fields of the descriptor object
}

func RenderValue(v Value) string {
	switch v.K {
	case KUndefined:
		return "u"
	case KNull:
		return "n"
	case KBool:
		if v.B {
			return "b:true"
		}
		return "b:false"
	case KNumber:
		if v.N == 0 && math.Signbit(v.N) {
			return "d:-0"
		}
		return "d:" + NumberToString(v.N)
	case KString:
		return "s:" + v.S
	case KSymbol:
		return "y:" + v.Y.Name
	}
	return "o:" + v.O.Name
}

func RenderKey(k Key) string {
	if k.Y != nil {
		return "y:" + k.Y.Name
	}
	return "s:" + k.S
}

func RenderKeys(keys []Key) string {
	var b strings.Builder
	b.WriteByte('[')
	for i, k := range keys {
		if i > 0 {
			b.WriteByte(',')
		}
		b.WriteString(RenderKey(k))
	}
	b.WriteByte(']')
	return b.String()
}

func bit(b bool) string {
	if b {
		return "1"
	}
	return "0"
}

func RenderProp(p *Prop) string {
	if p == nil {
		return "u"
	}
	if p.Accessor {
		return "{a " + RenderValue(p.Get) + " " + RenderValue(p.Set) + " " + bit(p.E) + " " + bit(p.C) + "}"
	}
	return "{d " + RenderValue(p.Value) + " " + bit(p.W) + " " + bit(p.E) + " " + bit(p.C) + "}"
}

func RenderThrow(t *Throw) string {
	if t.Class != "" {
		return "!" + t.Class
	}
	return "!v:" + RenderValue(t.Val)
}

func renderBool(b bool) string { return RenderValue(Bool(b)) }

// statusResult renders the result of an internal method returning a Boolean status under the issuer's convention.
//
//	throwing front-ends (strict syntax, Object.*, host API, class field): false → TypeError, true → okResult
//	Reflect.*: the Boolean;   sloppy syntax: okResult either way (delete: the Boolean).
func statusResult(issuer string, ok bool, okResult string) string {
	switch issuer {
	case ReflectF:
		return renderBool(ok)
	case JS:
		return okResult
	}
	if !ok {
		return "!TypeError"
	}
	return okResult
}

// Exec performs the operation and returns the canonical rendering of what the front-end produces.
func (m *Machine) Exec(op Op) string {
	o := op.O
	switch op.Kind {
	case "get":
		k := ToPropertyKey(op.K)
		recv := ObjV(o)
		if op.Recv != nil {
			recv = *op.Recv
		}
		v, thr := m.Get(o, k, recv)
		if thr != nil {
			return RenderThrow(thr)
		}
		return RenderValue(v)

	case "set":
		k := ToPropertyKey(op.K)
		recv := ObjV(o)
		if op.Recv != nil {
			recv = *op.Recv
		}
		ok, thr := m.Set(o, k, op.V, recv)
		if thr != nil {
			return RenderThrow(thr)
		}
		return statusResult(op.Issuer, ok, "ok")

	case "delete":
		k := ToPropertyKey(op.K)
		ok := m.Delete(o, k)
		if op.Issuer == JS {
			return renderBool(ok)
		}
		if op.Issuer == GoAPI {
			return statusResult(op.Issuer, ok, "ok")
		}
		return statusResult(op.Issuer, ok, "b:true")

	case "has":
		return renderBool(m.HasProperty(o, ToPropertyKey(op.K)))

	case "hasOwn":
		k := ToPropertyKey(op.K)
		if op.Issuer == PropIsEn {
			d := m.GetOwnProperty(o, k)
			return renderBool(d != nil && d.E)
		}
		return renderBool(m.HasOwnProperty(o, k))

	case "gopd":
		k := ToPropertyKey(op.K)
		if op.Issuer == ObjectPl {
			// Object.getOwnPropertyDescriptors: every own key is queried; the result for k is picked afterwards
			var res *Prop
			for _, ok := range m.OwnPropertyKeys(o) {
				d := m.GetOwnProperty(o, ok)
				if ok == k {
					res = d
				}
			}
			return RenderProp(res)
		}
		return RenderProp(m.GetOwnProperty(o, k))

	case "define":
		k := ToPropertyKey(op.K)
		if op.Issuer == Field {
			ok, thr := m.CreateDataProperty(o, k, op.D.Value)
			if thr != nil {
				return RenderThrow(thr)
			}
			return statusResult(op.Issuer, ok, "ok")
		}
		d, thr := ToPropertyDescriptor(op.D)
		if thr != nil {
			return RenderThrow(thr)
		}
		ok, thr := m.DefineOwnProperty(o, k, d)
		if thr != nil {
			return RenderThrow(thr)
		}
		return statusResult(op.Issuer, ok, "ok")

	case "ownKeys":
		keys := m.OwnPropertyKeys(o)
		if op.Issuer == GoAPI { // GetOwnPropertyNames: strings only
			var s []Key
			for _, k := range keys {
				if !k.IsSymbol() {
					s = append(s, k)
				}
			}
			keys = s
		}
		return RenderKeys(keys)

	case "keys":
		switch op.Issuer {
		case JS, JSStrict:
			return RenderKeys(m.ForInKeys(o))
		case "gosyms": // host API Symbols(): enumerable own symbol keys
			var s []Key
			for _, k := range m.OwnPropertyKeys(o) {
				if k.IsSymbol() {
					if d := m.GetOwnProperty(o, k); d != nil && d.E {
						s = append(s, k)
					}
				}
			}
			return RenderKeys(s)
		}
		return RenderKeys(m.EnumerableOwnKeys(o))

	case "entries":
		es, thr := m.EnumerableOwnEntries(o)
		if thr != nil {
			return RenderThrow(thr)
		}
		var b strings.Builder
		b.WriteByte('[')
		for i, e := range es {
			if i > 0 {
				b.WriteByte(',')
			}
			b.WriteString(RenderKey(e.K) + "=" + RenderValue(e.V))
		}
		b.WriteByte(']')
		return b.String()

	case "preventExtensions":
		return statusResult(op.Issuer, m.PreventExtensions(o), "ok")

	case "seal", "freeze":
		ok, thr := m.SetIntegrityLevel(o, op.Kind == "freeze")
		if thr != nil {
			return RenderThrow(thr)
		}
		return statusResult(ObjectFn, ok, "ok")

	case "isSealed":
		return renderBool(m.TestIntegrityLevel(o, false))
	case "isFrozen":
		return renderBool(m.TestIntegrityLevel(o, true))
	case "isExtensible":
		return renderBool(m.IsExtensible(o))

	case "getProto":
		return RenderValue(ObjOrNull(m.GetPrototypeOf(o)))

	case "setProto":
		var p *Object
		switch op.V.K {
		case KNull:
		case KObject:
			p = op.V.O
		default:
			return "!TypeError" // Object.setPrototypeOf / Reflect.setPrototypeOf: proto is neither Object nor Null
		}
		return statusResult(op.Issuer, m.SetPrototypeOf(o, p), "ok")
	}
	ood("unknown op kind " + op.Kind)
	return ""
}

// Dump renders the complete observable structure of an object: extensibility, prototype, ordered own keys with
// their descriptors.  Format: "<ext 0/1>|<proto value>|<key>=<descriptor>;<key>=<descriptor>;…"
func (m *Machine) Dump(o *Object) string {
	var b strings.Builder
	b.WriteString(bit(m.IsExtensible(o)))
	b.WriteByte('|')
	b.WriteString(RenderValue(ObjOrNull(m.GetPrototypeOf(o))))
	b.WriteByte('|')
	for i, k := range m.OwnPropertyKeys(o) {
		if i > 0 {
			b.WriteByte(';')
		}
		b.WriteString(RenderKey(k))
		b.WriteByte('=')
		b.WriteString(RenderProp(m.GetOwnProperty(o, k)))
	}
	return b.String()
}
