package objmodel

import (
	"math"
	"testing"
)

func eq(t *testing.T, what, got, want string) {
	t.Helper()
	if got != want {
		t.Errorf("%s: got %s want %s", what, got, want)
	}
}

func define(m *Machine, o *Object, k string, d Desc, issuer string) string {
	return m.Exec(Op{Kind: "define", Issuer: issuer, O: o, K: Str(k), D: d})
}

func TestNumberToString(t *testing.T) {
	for _, c := range []struct {
		f float64
		s string
	}{{0, "0"}, {math.Copysign(0, -1), "0"}, {1, "1"}, {1.5, "1.5"}, {1000, "1000"}, {1e21, "1e+21"}, {1e-7, "1e-7"}, {123456789012345680000, "123456789012345680000"},
		{0.000001, "0.000001"}, {4294967295, "4294967295"}, {-2.5e-9, "-2.5e-9"}, {math.NaN(), "NaN"}, {math.Inf(-1), "-Infinity"}, {5e-324, "5e-324"}, {1.7976931348623157e308, "1.7976931348623157e+308"}} {
		eq(t, "NumberToString", NumberToString(c.f), c.s)
	}
}

func TestKeys(t *testing.T) {
	for _, c := range []struct {
		s  string
		ai bool
		cn bool
	}{{"0", true, true}, {"7", true, true}, {"07", false, false}, {"4294967294", true, true}, {"4294967295", false, true}, {"-0", false, true},
		{"1.5", false, true}, {"1e3", false, false}, {"1000", true, true}, {"NaN", false, true}, {"Infinity", false, true}, {"-Infinity", false, true},
		{"a", false, false}, {"", false, false}, {"1e+21", false, true}, {"-1", false, true}, {"+1", false, false}, {" 1", false, false}} {
		k := StrKey(c.s)
		if _, ok := k.ArrayIndex(); ok != c.ai {
			t.Errorf("ArrayIndex(%q) = %v", c.s, ok)
		}
		if _, ok := k.CanonicalNumericIndex(); ok != c.cn {
			t.Errorf("CanonicalNumericIndex(%q) = %v", c.s, ok)
		}
	}
	eq(t, "ToPropertyKey(-0)", ToPropertyKey(Num(math.Copysign(0, -1))).S, "0")
	eq(t, "ToPropertyKey(1e3)", ToPropertyKey(Num(1e3)).S, "1000")
}

func TestOwnKeyOrder(t *testing.T) {
	m := &Machine{}
	o := NewObject("o", nil)
	s1, s2 := &Symbol{"S1"}, &Symbol{"S2"}
	for _, k := range []Key{StrKey("b"), SymKey(s2), StrKey("4294967295"), StrKey("4294967294"), StrKey("5"), StrKey("a"), SymKey(s1), StrKey("-0"), StrKey("0")} {
		m.CreateDataProperty(o, k, Num(1))
	}
	eq(t, "order", RenderKeys(m.OwnPropertyKeys(o)), "[s:0,s:5,s:4294967294,s:b,s:4294967295,s:a,s:-0,y:S2,y:S1]")
	m.Delete(o, StrKey("b"))
	m.CreateDataProperty(o, StrKey("b"), Num(1))
	eq(t, "re-add goes last", RenderKeys(m.OwnPropertyKeys(o)), "[s:0,s:5,s:4294967294,s:4294967295,s:a,s:-0,s:b,y:S2,y:S1]")
}

func TestValidateAndApply(t *testing.T) {
	m := &Machine{}
	g1 := NewFunction("G1", nil, nil)
	g2 := NewFunction("G2", nil, nil)
	o := NewObject("o", nil)
	// creation defaults
	eq(t, "create generic", define(m, o, "g", Desc{HasE: true, E: true}, ReflectF), "b:true")
	eq(t, "generic default", RenderProp(m.GetOwnProperty(o, StrKey("g"))), "{d u 0 1 0}")
	eq(t, "create accessor", define(m, o, "acc", Desc{HasGet: true, Get: ObjV(g1)}, ReflectF), "b:true")
	eq(t, "accessor default", RenderProp(m.GetOwnProperty(o, StrKey("acc"))), "{a o:G1 u 0 0}")
	// non-configurable accessor: same getter accepted, different rejected, kind change rejected
	eq(t, "same getter", define(m, o, "acc", Desc{HasGet: true, Get: ObjV(g1)}, ReflectF), "b:true")
	eq(t, "other getter", define(m, o, "acc", Desc{HasGet: true, Get: ObjV(g2)}, ReflectF), "b:false")
	eq(t, "set undefined same", define(m, o, "acc", Desc{HasSet: true, Set: Undefined}, ReflectF), "b:true")
	eq(t, "to data", define(m, o, "acc", Desc{HasValue: true, Value: Num(1)}, ObjectFn), "!TypeError")
	eq(t, "generic on nc accessor", define(m, o, "acc", Desc{HasE: true, E: false, HasC: true, C: false}, GoAPI), "ok")
	eq(t, "enumerable flip", define(m, o, "acc", Desc{HasE: true, E: true}, JSStrict), "!TypeError")
	// non-configurable non-writable data
	define(m, o, "ro", Desc{HasValue: true, Value: Num(math.Copysign(0, -1))}, ReflectF)
	eq(t, "same value -0", define(m, o, "ro", Desc{HasValue: true, Value: Num(math.Copysign(0, -1))}, ReflectF), "b:true")
	eq(t, "+0 vs -0", define(m, o, "ro", Desc{HasValue: true, Value: Num(0)}, ReflectF), "b:false")
	eq(t, "writable true", define(m, o, "ro", Desc{HasW: true, W: true}, ReflectF), "b:false")
	eq(t, "writable false", define(m, o, "ro", Desc{HasW: true, W: false}, ReflectF), "b:true")
	// non-configurable writable: value and writable->false may change, not back
	define(m, o, "w", Desc{HasValue: true, Value: Num(1), HasW: true, W: true}, ReflectF)
	eq(t, "nc writable new value", define(m, o, "w", Desc{HasValue: true, Value: Num(2)}, ReflectF), "b:true")
	eq(t, "nc writable -> ro", define(m, o, "w", Desc{HasW: true, W: false}, ReflectF), "b:true")
	eq(t, "after", RenderProp(m.GetOwnProperty(o, StrKey("w"))), "{d d:2 0 0 0}")
	// configurable: conversion keeps E and C, resets the rest
	define(m, o, "c", Desc{HasValue: true, Value: Num(1), HasW: true, W: true, HasE: true, E: true, HasC: true, C: true}, ReflectF)
	eq(t, "data->accessor", define(m, o, "c", Desc{HasSet: true, Set: ObjV(g2)}, ReflectF), "b:true")
	eq(t, "converted", RenderProp(m.GetOwnProperty(o, StrKey("c"))), "{a u o:G2 1 1}")
	eq(t, "accessor->data", define(m, o, "c", Desc{HasW: true, W: false, HasE: true, E: false}, ReflectF), "b:true")
	eq(t, "converted back", RenderProp(m.GetOwnProperty(o, StrKey("c"))), "{d u 0 0 1}")
	// ToPropertyDescriptor failures throw even through Reflect
	eq(t, "mixed", define(m, o, "z", Desc{HasGet: true, Get: ObjV(g1), HasValue: true, Value: Num(1)}, ReflectF), "!TypeError")
	eq(t, "getter not callable", define(m, o, "z", Desc{HasGet: true, Get: Num(1)}, ReflectF), "!TypeError")
	// non-extensible
	m.PreventExtensions(o)
	eq(t, "new on non-extensible", define(m, o, "n", Desc{}, ReflectF), "b:false")
	eq(t, "empty desc on existing", define(m, o, "ro", Desc{}, ReflectF), "b:true")
}

func logger(name string, ret Value) CallFn {
	return func(m *Machine, this Value, args []Value) (Value, *Throw) {
		s := name + "(" + RenderValue(this)
		for _, a := range args {
			s += "," + RenderValue(a)
		}
		m.Log = append(m.Log, s+")")
		return ret, nil
	}
}

func TestOrdinarySetReceivers(t *testing.T) {
	m := &Machine{}
	sym := &Symbol{"S1"}
	base := NewObject("base", nil)
	mid := NewObject("mid", base)
	child := NewObject("child", mid)
	other := NewObject("other", nil)
	set := func(o *Object, k Key, v Value, recv Value) string {
		kv := Str(k.S)
		if k.Y != nil {
			kv = SymV(k.Y)
		}
		return m.Exec(Op{Kind: "set", Issuer: ReflectF, O: o, K: kv, V: v, Recv: &recv})
	}
	for _, k := range []Key{StrKey("p"), StrKey("7"), SymKey(sym)} {
		// receiver = ancestor: the property is created on the receiver, not on the target
		eq(t, "set recv=mid", set(child, k, Num(1), ObjV(mid)), "b:true")
		if m.GetOwnProperty(child, k) != nil || m.GetOwnProperty(mid, k) == nil || m.GetOwnProperty(base, k) != nil {
			t.Errorf("key %v: property landed on the wrong object", k)
		}
		// receiver unrelated
		eq(t, "set recv=other", set(child, k, Num(2), ObjV(other)), "b:true")
		eq(t, "other got it", RenderProp(m.GetOwnProperty(other, k)), "{d d:2 1 1 1}")
		eq(t, "mid unchanged", RenderProp(m.GetOwnProperty(mid, k)), "{d d:1 1 1 1}")
		// primitive receiver
		eq(t, "set recv=prim", set(child, k, Num(3), Num(5)), "b:false")
		// non-extensible receiver
		ne := NewObject("ne", nil)
		m.PreventExtensions(ne)
		eq(t, "set recv=non-extensible", set(child, k, Num(3), ObjV(ne)), "b:false")
		// receiver has accessor / read-only data
		acc := NewObject("acc", nil)
		m.DefineOwnProperty(acc, k, Desc{HasGet: true, Get: Undefined, HasC: true, C: true})
		eq(t, "recv has accessor", set(child, k, Num(3), ObjV(acc)), "b:false")
		// non-writable on the chain blocks
		m.DefineOwnProperty(mid, k, Desc{HasW: true, W: false})
		eq(t, "inherited read-only", set(child, k, Num(9), ObjV(child)), "b:false")
		eq(t, "strict syntax", m.Exec(Op{Kind: "set", Issuer: JSStrict, O: child, K: keyVal(k), V: Num(9)}), "!TypeError")
		eq(t, "sloppy syntax", m.Exec(Op{Kind: "set", Issuer: JS, O: child, K: keyVal(k), V: Num(9)}), "ok")
		eq(t, "host api", m.Exec(Op{Kind: "set", Issuer: GoAPI, O: child, K: keyVal(k), V: Num(9)}), "!TypeError")
	}
	// setter on the chain is called with the receiver
	s := NewFunction("S1", nil, logger("S1", Undefined))
	m.DefineOwnProperty(base, StrKey("acc"), Desc{HasSet: true, Set: ObjV(s)})
	eq(t, "setter", set(child, StrKey("acc"), Num(4), Num(5)), "b:true")
	eq(t, "setter log", m.Log[len(m.Log)-1], "S1(d:5,d:4)")
	eq(t, "no getter", m.Exec(Op{Kind: "get", Issuer: JS, O: child, K: Str("acc")}), "u")
}

func keyVal(k Key) Value {
	if k.Y != nil {
		return SymV(k.Y)
	}
	return Str(k.S)
}

func TestPrototypeCycle(t *testing.T) {
	m := &Machine{}
	a := NewObject("a", nil)
	b := NewObject("b", a)
	c := NewObject("c", b)
	eq(t, "cycle", m.Exec(Op{Kind: "setProto", Issuer: ReflectF, O: a, V: ObjV(c)}), "b:false")
	eq(t, "self", m.Exec(Op{Kind: "setProto", Issuer: ObjectFn, O: a, V: ObjV(a)}), "!TypeError")
	eq(t, "prim", m.Exec(Op{Kind: "setProto", Issuer: ReflectF, O: a, V: Num(1)}), "!TypeError")
	m.PreventExtensions(c)
	eq(t, "same proto on non-extensible", m.Exec(Op{Kind: "setProto", Issuer: ReflectF, O: c, V: ObjV(b)}), "b:true")
	eq(t, "other proto on non-extensible", m.Exec(Op{Kind: "setProto", Issuer: GoAPI, O: c, V: Null}), "!TypeError")
}

func TestArray(t *testing.T) {
	m := &Machine{}
	a := NewArray("a", nil)
	eq(t, "idx 2^32-2", define(m, a, "4294967294", DataDesc(Num(1), true, true, true), ReflectF), "b:true")
	eq(t, "length", RenderProp(m.GetOwnProperty(a, lengthKey)), "{d d:4294967295 1 0 0}")
	eq(t, "2^32-1 is not an index", define(m, a, "4294967295", DataDesc(Num(1), true, true, true), ReflectF), "b:true")
	eq(t, "length unchanged", RenderProp(m.GetOwnProperty(a, lengthKey)), "{d d:4294967295 1 0 0}")
	eq(t, "keys", RenderKeys(m.OwnPropertyKeys(a)), "[s:4294967294,s:length,s:4294967295]")
	eq(t, "length 1.5", define(m, a, "length", Desc{HasValue: true, Value: Num(1.5)}, ReflectF), "!RangeError")
	eq(t, "length sym", define(m, a, "length", Desc{HasValue: true, Value: SymV(&Symbol{"x"})}, ReflectF), "!TypeError")
	eq(t, "length '3'", define(m, a, "length", Desc{HasValue: true, Value: Str("3")}, ReflectF), "b:true")
	eq(t, "keys after truncation", RenderKeys(m.OwnPropertyKeys(a)), "[s:length,s:4294967295]")
	// truncation stops at a non-configurable element
	b := NewArray("b", nil)
	for i := 0; i < 5; i++ {
		m.CreateDataProperty(b, IdxKey(uint32(i)), Num(float64(i)))
	}
	m.DefineOwnProperty(b, StrKey("2"), Desc{HasC: true, C: false})
	eq(t, "truncate over nc", define(m, b, "length", Desc{HasValue: true, Value: Num(0), HasW: true, W: false}, ReflectF), "b:false")
	eq(t, "length after", RenderProp(m.GetOwnProperty(b, lengthKey)), "{d d:3 0 0 0}")
	eq(t, "keys", RenderKeys(m.OwnPropertyKeys(b)), "[s:0,s:1,s:2,s:length]")
	eq(t, "index beyond ro length", define(m, b, "3", DataDesc(Num(1), true, true, true), ObjectFn), "!TypeError")
	eq(t, "index below ro length", m.Exec(Op{Kind: "set", Issuer: JSStrict, O: b, K: Num(1), V: Num(7)}), "ok")
	eq(t, "set beyond ro length sloppy", m.Exec(Op{Kind: "set", Issuer: JS, O: b, K: Num(9), V: Num(7)}), "ok")
	eq(t, "still 3 keys", RenderKeys(m.OwnPropertyKeys(b)), "[s:0,s:1,s:2,s:length]")
	// length accessor conversion is rejected (non-configurable)
	eq(t, "length accessor", define(m, NewArray("c", nil), "length", Desc{HasGet: true, Get: Undefined}, ReflectF), "b:false")
}

func TestStringExotic(t *testing.T) {
	m := &Machine{}
	s := NewString("s", nil, "ab")
	eq(t, "keys", RenderKeys(m.OwnPropertyKeys(s)), "[s:0,s:1,s:length]")
	eq(t, "gopd 0", RenderProp(m.GetOwnProperty(s, StrKey("0"))), "{d s:a 0 1 0}")
	eq(t, "same value accepted", define(m, s, "0", Desc{HasValue: true, Value: Str("a")}, ReflectF), "b:true")
	eq(t, "other value rejected", define(m, s, "0", Desc{HasValue: true, Value: Str("b")}, ReflectF), "b:false")
	eq(t, "index 2 is ordinary", define(m, s, "2", DataDesc(Num(1), true, true, true), ReflectF), "b:true")
	eq(t, "-0 is ordinary", define(m, s, "-0", DataDesc(Num(1), true, true, true), ReflectF), "b:true")
	eq(t, "keys", RenderKeys(m.OwnPropertyKeys(s)), "[s:0,s:1,s:2,s:length,s:-0]")
	eq(t, "delete index", m.Exec(Op{Kind: "delete", Issuer: JS, O: s, K: Num(1)}), "b:false")
	eq(t, "set index strict", m.Exec(Op{Kind: "set", Issuer: JSStrict, O: s, K: Num(1), V: Str("b")}), "!TypeError")
	eq(t, "freeze", m.Exec(Op{Kind: "freeze", Issuer: ObjectFn, O: s}), "ok")
	eq(t, "isFrozen", m.Exec(Op{Kind: "isFrozen", Issuer: ObjectFn, O: s}), "b:true")
}

func TestArguments(t *testing.T) {
	m := &Machine{}
	a := NewObject("args", nil)
	a.Class = CArguments
	c0, c1 := Num(1), Num(2)
	a.ParamMap = map[uint32]*Value{0: &c0, 1: &c1}
	a.Load(StrKey("0"), Prop{Value: Num(1), W: true, E: true, C: true})
	a.Load(StrKey("1"), Prop{Value: Num(2), W: true, E: true, C: true})
	c0 = Num(10) // parameter assigned inside the function
	eq(t, "get mapped", m.Exec(Op{Kind: "get", Issuer: JS, O: a, K: Num(0)}), "d:10")
	eq(t, "gopd mapped", RenderProp(m.GetOwnProperty(a, StrKey("0"))), "{d d:10 1 1 1}")
	m.Exec(Op{Kind: "set", Issuer: JS, O: a, K: Num(0), V: Num(11)})
	eq(t, "param follows", RenderValue(c0), "d:11")
	// {writable:false} without value freezes the current mapped value and unmaps
	eq(t, "define ro", define(m, a, "0", Desc{HasW: true, W: false}, ReflectF), "b:true")
	c0 = Num(99)
	eq(t, "unmapped", m.Exec(Op{Kind: "get", Issuer: JS, O: a, K: Num(0)}), "d:11")
	// accessor define unmaps
	eq(t, "define accessor", define(m, a, "1", Desc{HasGet: true, Get: Undefined}, ReflectF), "b:true")
	if len(a.ParamMap) != 0 {
		t.Errorf("map not broken")
	}
	// Set with a foreign receiver does not touch the map
	b := NewObject("args2", nil)
	b.Class = CArguments
	d0 := Num(1)
	b.ParamMap = map[uint32]*Value{0: &d0}
	b.Load(StrKey("0"), Prop{Value: Num(1), W: true, E: true, C: true})
	other := ObjV(NewObject("other", nil))
	m.Exec(Op{Kind: "set", Issuer: ReflectF, O: b, K: Str("0"), V: Num(5), Recv: &other})
	eq(t, "param untouched", RenderValue(d0), "d:1")
	eq(t, "delete", m.Exec(Op{Kind: "delete", Issuer: JS, O: b, K: Str("0")}), "b:true")
	if len(b.ParamMap) != 0 {
		t.Errorf("delete did not unmap")
	}
}

func TestTypedArray(t *testing.T) {
	m := &Machine{}
	proto := NewObject("proto", nil)
	m.CreateDataProperty(proto, StrKey("1.5"), Num(7))
	m.CreateDataProperty(proto, StrKey("5"), Num(7))
	m.CreateDataProperty(proto, StrKey("1e3"), Num(7))
	ta := NewTypedArray("ta", proto, Uint8, 2)
	for _, k := range []string{"-0", "1.5", "5", "NaN", "Infinity", "-1", "2"} {
		eq(t, "has "+k, m.Exec(Op{Kind: "has", Issuer: JS, O: ta, K: Str(k)}), "b:false")
		eq(t, "get "+k, m.Exec(Op{Kind: "get", Issuer: JS, O: ta, K: Str(k)}), "u")
		eq(t, "set "+k, m.Exec(Op{Kind: "set", Issuer: ReflectF, O: ta, K: Str(k), V: Num(1)}), "b:true")
		eq(t, "define "+k, define(m, ta, k, Desc{HasValue: true, Value: Num(1)}, ReflectF), "b:false")
		eq(t, "delete "+k, m.Exec(Op{Kind: "delete", Issuer: ReflectF, O: ta, K: Str(k)}), "b:true")
	}
	eq(t, "1e3 is a plain string key", m.Exec(Op{Kind: "get", Issuer: JS, O: ta, K: Str("1e3")}), "d:7")
	eq(t, "keys", RenderKeys(m.OwnPropertyKeys(ta)), "[s:0,s:1]")
	eq(t, "set 300", m.Exec(Op{Kind: "set", Issuer: JSStrict, O: ta, K: Num(1), V: Num(300)}), "ok")
	eq(t, "wrapped", RenderProp(m.GetOwnProperty(ta, StrKey("1"))), "{d d:44 1 1 1}")
	eq(t, "set symbol", m.Exec(Op{Kind: "set", Issuer: JS, O: ta, K: Num(9), V: SymV(&Symbol{"x"})}), "!TypeError")
	eq(t, "define nc", define(m, ta, "0", Desc{HasC: true, C: false}, ReflectF), "b:false")
	eq(t, "define accessor", define(m, ta, "0", Desc{HasGet: true, Get: Undefined}, ReflectF), "b:false")
	eq(t, "define full", define(m, ta, "0", DataDesc(Str("7"), true, true, true), ReflectF), "b:true")
	eq(t, "delete valid", m.Exec(Op{Kind: "delete", Issuer: JSStrict, O: ta, K: Num(0)}), "!TypeError")
	eq(t, "seal throws", m.Exec(Op{Kind: "seal", Issuer: ObjectFn, O: ta}), "!TypeError")
	eq(t, "but is non-extensible", m.Exec(Op{Kind: "isExtensible", Issuer: ObjectFn, O: ta}), "b:false")
	eq(t, "isFrozen", m.Exec(Op{Kind: "isFrozen", Issuer: ObjectFn, O: ta}), "b:false")
	// receiver is not the typed array: valid index falls to OrdinarySet on the receiver, invalid is swallowed
	recv := NewObject("r", nil)
	rv := ObjV(recv)
	eq(t, "foreign receiver valid idx", m.Exec(Op{Kind: "set", Issuer: ReflectF, O: ta, K: Str("0"), V: Num(3), Recv: &rv}), "b:true")
	eq(t, "landed on receiver", RenderProp(m.GetOwnProperty(recv, StrKey("0"))), "{d d:3 1 1 1}")
	eq(t, "foreign receiver invalid idx", m.Exec(Op{Kind: "set", Issuer: ReflectF, O: ta, K: Str("9"), V: Num(3), Recv: &rv}), "b:true")
	if m.GetOwnProperty(recv, StrKey("9")) != nil {
		t.Errorf("invalid index reached the receiver")
	}
	ta.Detach()
	eq(t, "detached keys", RenderKeys(m.OwnPropertyKeys(ta)), "[]")
	eq(t, "detached has", m.Exec(Op{Kind: "has", Issuer: JS, O: ta, K: Num(0)}), "b:false")
	eq(t, "detached set", m.Exec(Op{Kind: "set", Issuer: JSStrict, O: ta, K: Num(0), V: Num(1)}), "ok")
	eq(t, "detached define", define(m, ta, "0", Desc{HasValue: true, Value: Num(1)}, ReflectF), "b:false")
	eq(t, "detached isFrozen", m.Exec(Op{Kind: "isFrozen", Issuer: ObjectFn, O: ta}), "b:true")
	eq(t, "clamped", RenderValue(Num(ConvertElem(Uint8Clamped, 2.5))), "d:2")
	eq(t, "int8", RenderValue(Num(ConvertElem(Int8, 200))), "d:-56")
	eq(t, "int16 -0", RenderValue(Num(ConvertElem(Int16, math.Copysign(0, -1)))), "d:0")
	eq(t, "f32", RenderValue(Num(ConvertElem(Float32, 1.1))), "d:1.100000023841858")
}

func TestEnumeration(t *testing.T) {
	m := &Machine{}
	p := NewObject("p", nil)
	o := NewObject("o", p)
	m.CreateDataProperty(p, StrKey("x"), Num(1))
	m.CreateDataProperty(p, StrKey("y"), Num(1))
	m.CreateDataProperty(p, StrKey("1"), Num(1))
	m.DefineOwnProperty(o, StrKey("y"), Desc{HasValue: true, Value: Num(2)}) // non-enumerable, shadows
	m.CreateDataProperty(o, StrKey("z"), Num(3))
	m.CreateDataProperty(o, SymKey(&Symbol{"S"}), Num(3))
	eq(t, "for-in", m.Exec(Op{Kind: "keys", Issuer: JS, O: o}), "[s:z,s:1,s:x]")
	eq(t, "Object.keys", m.Exec(Op{Kind: "keys", Issuer: ObjectFn, O: o}), "[s:z]")
	eq(t, "symbols", m.Exec(Op{Kind: "keys", Issuer: "gosyms", O: o}), "[y:S]")
	eq(t, "entries", m.Exec(Op{Kind: "entries", Issuer: ObjectFn, O: o}), "[s:z=d:3]")
	eq(t, "dump", m.Dump(o), "1|o:p|s:y={d d:2 0 0 0};s:z={d d:3 1 1 1};y:S={d d:3 1 1 1}")
}

type testRes struct {
	objs map[string]*Object
	syms map[string]*Symbol
}

func (r *testRes) Object(n string) *Object { return r.objs[n] }
func (r *testRes) Symbol(n string) *Symbol { return r.syms[n] }

func TestDumpRoundTrip(t *testing.T) {
	m := &Machine{}
	res := &testRes{objs: map[string]*Object{}, syms: map[string]*Symbol{"S": {"S"}}}
	p := NewObject("p", nil)
	g := NewFunction("G", nil, nil)
	res.objs["p"], res.objs["G"] = p, g
	o := NewArray("o", p)
	m.CreateDataProperty(o, StrKey("3"), Str("bound f x"))
	m.DefineOwnProperty(o, SymKey(res.syms["S"]), Desc{HasGet: true, Get: ObjV(g)})
	m.CreateDataProperty(o, StrKey("k"), Num(math.Copysign(0, -1)))
	m.PreventExtensions(o)
	d := m.Dump(o)
	o2 := NewArray("o", nil)
	if err := o2.LoadDump(d, res); err != nil {
		t.Fatal(err)
	}
	eq(t, "round trip", m.Dump(o2), d)
	ta := NewTypedArray("t", p, Float64, 3)
	ta.Elems[1] = math.NaN()
	m.CreateDataProperty(ta, StrKey("x"), Num(1))
	d = m.Dump(ta)
	ta2 := NewTypedArray("t", nil, Float64, 0)
	if err := ta2.LoadDump(d, res); err != nil {
		t.Fatal(err)
	}
	eq(t, "ta round trip", m.Dump(ta2), d)
}

func TestForInWithMutation(t *testing.T) {
	m := &Machine{}
	p := NewObject("p", nil)
	o := NewObject("o", p)
	for _, k := range []string{"a", "b", "c"} {
		m.CreateDataProperty(o, StrKey(k), Num(1))
	}
	m.CreateDataProperty(p, StrKey("c"), Num(1))
	m.CreateDataProperty(p, StrKey("d"), Num(1))
	it := m.NewForIn(o)
	k, _ := it.Next()
	eq(t, "first", k.S, "a")
	m.Delete(o, StrKey("b"))                     // deleted before its turn: skipped
	m.CreateDataProperty(o, StrKey("z"), Num(1)) // added during the iteration: not visited
	m.CreateDataProperty(p, StrKey("e"), Num(1)) // the prototype has not been reached yet: visited
	var rest []Key
	for k, ok := it.Next(); ok; k, ok = it.Next() {
		rest = append(rest, k)
	}
	eq(t, "rest", RenderKeys(rest), "[s:c,s:d,s:e]")
	m.CreateDataProperty(o, StrKey("7"), Num(1))
	eq(t, "order afterwards", RenderKeys(m.OwnPropertyKeys(o)), "[s:7,s:a,s:c,s:z]")
	// a getter that deletes a later key: CopyDataProperties skips it
	src := NewObject("src", nil)
	g := NewFunction("g", nil, func(m *Machine, this Value, _ []Value) (Value, *Throw) {
		m.Delete(this.O, StrKey("y"))
		return Num(5), nil
	})
	m.DefineOwnProperty(src, StrKey("x"), Desc{HasGet: true, Get: ObjV(g), HasE: true, E: true, HasC: true, C: true})
	m.CreateDataProperty(src, StrKey("y"), Num(1))
	m.CreateDataProperty(src, StrKey("w"), Num(2))
	es, _ := m.CopyEnumerableOwn(src, false)
	if len(es) != 2 || es[0].K.S != "x" || es[1].K.S != "w" {
		t.Errorf("CopyEnumerableOwn: %v", es)
	}
}
