// Package objmodel is a small executable model of the ECMAScript object model (ES2023 §6.1.7, §7.3, §10.1, §10.4,
// §20.1.2, §28.1): property keys, partial property descriptors, the ordinary internal methods and the Array / String /
// Arguments / Integer-Indexed exotic variants, integrity levels, and the failure conventions of the front-ends that
// reach those internal methods (syntax sloppy/strict, Object.*, Reflect.*, host API).
//
// It is written from the specification text, not from any engine.  The *initial layout* of engine-created objects
// (which own keys, which attributes, in which order) is not part of the model: it is loaded with Object.Load from a
// snapshot of the engine.  The model judges operations.
//
// Anything the model cannot decide (calling a native function it knows nothing about) raises OutOfDomain by panic;
// Machine.Try converts it into an error so that callers can skip the comparison for that step.
package objmodel

import (
	"math"
	"strconv"
	"strings"
	"unicode/utf16"
)

type VKind uint8

const (
	KUndefined VKind = iota
	KNull
	KBool
	KNumber
	KString
	KSymbol
	KObject
)

// Symbol values are compared by identity (pointer).
type Symbol struct{ Name string }

// Value is an ECMAScript language value (BigInt is outside the model).
type Value struct {
	K VKind
	B bool
	N float64
	S string
	Y *Symbol
	O *Object
}

var (
	Undefined = Value{K: KUndefined}
	Null      = Value{K: KNull}
	True      = Value{K: KBool, B: true}
	False     = Value{K: KBool}
)

func Bool(b bool) Value       { return Value{K: KBool, B: b} }
func Num(f float64) Value     { return Value{K: KNumber, N: f} }
func Str(s string) Value      { return Value{K: KString, S: s} }
func SymV(y *Symbol) Value    { return Value{K: KSymbol, Y: y} }
func ObjV(o *Object) Value    { return Value{K: KObject, O: o} }
func (v Value) IsObj() bool   { return v.K == KObject }
func (v Value) IsUndef() bool { return v.K == KUndefined }

// ObjOrNull converts a prototype slot (nil = null) into a Value.
func ObjOrNull(o *Object) Value {
	if o == nil {
		return Null
	}
	return ObjV(o)
}

// SameValue is §7.2.11.
func SameValue(a, b Value) bool {
	if a.K != b.K {
		return false
	}
	switch a.K {
	case KBool:
		return a.B == b.B
	case KNumber:
		if a.N != a.N && b.N != b.N {
			return true
		}
		return a.N == b.N && math.Signbit(a.N) == math.Signbit(b.N)
	case KString:
		return a.S == b.S
	case KSymbol:
		return a.Y == b.Y
	case KObject:
		return a.O == b.O
	}
	return true
}

// Throw is an abrupt completion.  Class is the constructor name of an engine-created error ("TypeError",
// "RangeError"); for a value thrown by user code Class is "" and Val holds it.
type Throw struct {
	Class string
	Val   Value
}

func typeError() *Throw  { return &Throw{Class: "TypeError"} }
func rangeError() *Throw { return &Throw{Class: "RangeError"} }

// OutOfDomain is raised (by panic) when the model is asked something it deliberately does not know.
type OutOfDomain struct{ Why string }

func (e *OutOfDomain) Error() string { return "objmodel: out of domain: " + e.Why }

func ood(why string) { panic(&OutOfDomain{Why: why}) }

// ---------------------------------------------------------------------------------------------------------------
// Property keys

// Key is a property key: a string, or a symbol when Y != nil.
type Key struct {
	Y *Symbol
	S string
}

func StrKey(s string) Key    { return Key{S: s} }
func SymKey(y *Symbol) Key   { return Key{Y: y} }
func IdxKey(i uint32) Key    { return Key{S: strconv.FormatUint(uint64(i), 10)} }
func (k Key) IsSymbol() bool { return k.Y != nil }
func (k Key) String() string {
	if k.Y != nil {
		return "@" + k.Y.Name
	}
	return strconv.Quote(k.S)
}

// ArrayIndex reports whether the string key is an array index (§6.1.7: canonical numeric string of an integer in
// [0, 2^32-2]).
func (k Key) ArrayIndex() (uint32, bool) {
	if k.Y != nil {
		return 0, false
	}
	s := k.S
	if len(s) == 0 || len(s) > 10 {
		return 0, false
	}
	if s[0] == '0' {
		return 0, len(s) == 1
	}
	var n uint64
	for i := 0; i < len(s); i++ {
		c := s[i]
		if c < '0' || c > '9' {
			return 0, false
		}
		n = n*10 + uint64(c-'0')
	}
	if n > 4294967294 {
		return 0, false
	}
	return uint32(n), true
}

// CanonicalNumericIndex is CanonicalNumericIndexString (§7.1.21) for a string key.
func (k Key) CanonicalNumericIndex() (float64, bool) {
	if k.Y != nil {
		return 0, false
	}
	if k.S == "-0" {
		return math.Copysign(0, -1), true
	}
	n := StringToNumber(k.S)
	if NumberToString(n) == k.S {
		return n, true
	}
	return 0, false
}

// ToPropertyKey (§7.1.19) for primitive arguments.  Objects are outside the model.
func ToPropertyKey(v Value) Key {
	switch v.K {
	case KSymbol:
		return SymKey(v.Y)
	case KObject:
		ood("ToPropertyKey(object)")
	}
	return StrKey(ToStringPrim(v))
}

// ---------------------------------------------------------------------------------------------------------------
// Conversions on primitives

// ToStringPrim is ToString (§7.1.17) for non-symbol primitives.
func ToStringPrim(v Value) string {
	switch v.K {
	case KUndefined:
		return "undefined"
	case KNull:
		return "null"
	case KBool:
		if v.B {
			return "true"
		}
		return "false"
	case KNumber:
		return NumberToString(v.N)
	case KString:
		return v.S
	}
	ood("ToString of a non-primitive")
	return ""
}

// NumberToString is Number::toString(x, 10) (§6.1.6.1.20).
func NumberToString(f float64) string {
	switch {
	case f != f:
		return "NaN"
	case f == 0:
		return "0"
	case math.IsInf(f, 1):
		return "Infinity"
	case math.IsInf(f, -1):
		return "-Infinity"
	}
	if f < 0 {
		return "-" + NumberToString(-f)
	}
	// shortest round-trip digits
	e := strconv.FormatFloat(f, 'e', -1, 64) // d.ddddde±xx
	mant, exps, _ := strings.Cut(e, "e")
	exp, _ := strconv.Atoi(exps)
	digits := strings.Replace(mant, ".", "", 1)
	k := len(digits)
	n := exp + 1 // value = 0.digits × 10^n
	var b strings.Builder
	switch {
	case k <= n && n <= 21:
		b.WriteString(digits)
		b.WriteString(strings.Repeat("0", n-k))
	case 0 < n && n <= 21:
		b.WriteString(digits[:n])
		b.WriteByte('.')
		b.WriteString(digits[n:])
	case -6 < n && n <= 0:
		b.WriteString("0.")
		b.WriteString(strings.Repeat("0", -n))
		b.WriteString(digits)
	default:
		b.WriteString(digits[:1])
		if k > 1 {
			b.WriteByte('.')
			b.WriteString(digits[1:])
		}
		b.WriteByte('e')
		if n-1 >= 0 {
			b.WriteByte('+')
		} else {
			b.WriteByte('-')
		}
		x := n - 1
		if x < 0 {
			x = -x
		}
		b.WriteString(strconv.Itoa(x))
	}
	return b.String()
}

func isJSSpace(r rune) bool {
	switch r {
	case 9, 10, 11, 12, 13, 32, 0xa0, 0x1680, 0x2028, 0x2029, 0x202f, 0x205f, 0x3000, 0xfeff:
		return true
	}
	return r >= 0x2000 && r <= 0x200a
}

// StringToNumber is StringToNumber (§7.1.4.1.1).
func StringToNumber(s string) float64 {
	s = strings.TrimFunc(s, isJSSpace)
	if s == "" {
		return 0
	}
	if len(s) > 2 && s[0] == '0' {
		base := 0
		switch s[1] {
		case 'x', 'X':
			base = 16
		case 'o', 'O':
			base = 8
		case 'b', 'B':
			base = 2
		}
		if base != 0 {
			var f float64
			for _, c := range s[2:] {
				d := -1
				switch {
				case c >= '0' && c <= '9':
					d = int(c - '0')
				case c >= 'a' && c <= 'f':
					d = int(c-'a') + 10
				case c >= 'A' && c <= 'F':
					d = int(c-'A') + 10
				}
				if d < 0 || d >= base {
					return math.NaN()
				}
				f = f*float64(base) + float64(d) // exact only below 2^53; larger literals are outside the model's use
			}
			return f
		}
	}
	t := s
	neg := false
	if t[0] == '+' || t[0] == '-' {
		neg = t[0] == '-'
		t = t[1:]
	}
	if t == "Infinity" {
		if neg {
			return math.Inf(-1)
		}
		return math.Inf(1)
	}
	// StrDecimalLiteral: digits [. digits] [e[+-]digits] | . digits [e…]
	i, nd := 0, 0
	for i < len(t) && t[i] >= '0' && t[i] <= '9' {
		i++
		nd++
	}
	if i < len(t) && t[i] == '.' {
		i++
		for i < len(t) && t[i] >= '0' && t[i] <= '9' {
			i++
			nd++
		}
	}
	if nd == 0 {
		return math.NaN()
	}
	if i < len(t) && (t[i] == 'e' || t[i] == 'E') {
		i++
		if i < len(t) && (t[i] == '+' || t[i] == '-') {
			i++
		}
		ne := 0
		for i < len(t) && t[i] >= '0' && t[i] <= '9' {
			i++
			ne++
		}
		if ne == 0 {
			return math.NaN()
		}
	}
	if i != len(t) {
		return math.NaN()
	}
	f, err := strconv.ParseFloat(t, 64)
	if err != nil && !math.IsInf(f, 0) {
		return math.NaN()
	}
	if neg {
		f = -f
	}
	return f
}

// ToNumber (§7.1.4).  Objects: only "plain" objects without user-defined conversion hooks are inside the domain;
// for those OrdinaryToPrimitive yields a string that is not a numeric literal ("[object Object]", function source
// text), hence NaN.  Objects flagged NumericHint carry the result explicitly (e.g. an empty array converts to +0).
func ToNumber(v Value) (float64, *Throw) {
	switch v.K {
	case KUndefined:
		return math.NaN(), nil
	case KNull:
		return 0, nil
	case KBool:
		if v.B {
			return 1, nil
		}
		return 0, nil
	case KNumber:
		return v.N, nil
	case KString:
		return StringToNumber(v.S), nil
	case KSymbol:
		return 0, typeError()
	}
	if v.O.ToNumberKnown {
		return v.O.ToNumberResult, nil
	}
	ood("ToNumber(object " + v.O.Name + ")")
	return 0, nil
}

// ToUint32 of an already converted number (§7.1.7 steps 2–5).
func ToUint32(f float64) uint32 {
	if f != f || math.IsInf(f, 0) {
		return 0
	}
	t := math.Trunc(f)
	m := math.Mod(t, 4294967296)
	if m < 0 {
		m += 4294967296
	}
	return uint32(m)
}

// UTF16 returns the code units of a Go string.
func UTF16(s string) []uint16 { return utf16.Encode([]rune(s)) }
