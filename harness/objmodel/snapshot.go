package objmodel

import (
	"fmt"
	"strings"
)

// Resolver maps the identity labels used in renderings back to model objects / symbols.
type Resolver interface {
	Object(name string) *Object
	Symbol(name string) *Symbol
}

// ParseValue is the inverse of RenderValue.
func ParseValue(s string, res Resolver) (Value, error) {
	switch {
	case s == "u":
		return Undefined, nil
	case s == "n":
		return Null, nil
	case s == "b:true":
		return True, nil
	case s == "b:false":
		return False, nil
	case strings.HasPrefix(s, "d:"):
		t := s[2:]
		if t == "NaN" {
			return Num(nan()), nil
		}
		f := StringToNumber(t)
		if f != f {
			return Undefined, fmt.Errorf("bad number %q", s)
		}
		return Num(f), nil
	case strings.HasPrefix(s, "s:"):
		return Str(s[2:]), nil
	case strings.HasPrefix(s, "y:"):
		y := res.Symbol(s[2:])
		if y == nil {
			return Undefined, fmt.Errorf("unknown symbol %q", s)
		}
		return SymV(y), nil
	case strings.HasPrefix(s, "o:"):
		o := res.Object(s[2:])
		if o == nil {
			return Undefined, fmt.Errorf("unknown object %q", s)
		}
		return ObjV(o), nil
	}
	return Undefined, fmt.Errorf("bad value rendering %q", s)
}

func ParseKey(s string, res Resolver) (Key, error) {
	if strings.HasPrefix(s, "s:") {
		return StrKey(s[2:]), nil
	}
	if strings.HasPrefix(s, "y:") {
		if y := res.Symbol(s[2:]); y != nil {
			return SymKey(y), nil
		}
	}
	return Key{}, fmt.Errorf("bad key rendering %q", s)
}

// ParseProp is the inverse of RenderProp for a present property.
func ParseProp(s string, res Resolver) (Prop, error) {
	var p Prop
	if len(s) < 4 || s[0] != '{' || s[len(s)-1] != '}' {
		return p, fmt.Errorf("bad descriptor rendering %q", s)
	}
	f := strings.Split(s[1:len(s)-1], " ")
	flag := func(x string) bool { return x == "1" }
	var err error
	switch {
	case f[0] == "d" && len(f) >= 5:
		// the value may contain spaces (strings): everything between the tag and the last three fields
		n := len(f)
		if p.Value, err = ParseValue(strings.Join(f[1:n-3], " "), res); err != nil {
			return p, err
		}
		p.W, p.E, p.C = flag(f[n-3]), flag(f[n-2]), flag(f[n-1])
	case f[0] == "a" && len(f) == 5:
		p.Accessor = true
		if p.Get, err = ParseValue(f[1], res); err != nil {
			return p, err
		}
		if p.Set, err = ParseValue(f[2], res); err != nil {
			return p, err
		}
		p.E, p.C = flag(f[3]), flag(f[4])
	default:
		return p, fmt.Errorf("bad descriptor rendering %q", s)
	}
	return p, nil
}

// LoadDump replaces the state of o (extensibility, prototype, own properties in the given order) by a rendering
// produced by Machine.Dump or by an engine-side observer using the same format.  Class-specific state that is not
// a stored property is recovered from the virtual keys: typed-array elements from the index keys, String indices
// are skipped (StringData must have been set by the caller).
func (o *Object) LoadDump(dump string, res Resolver) error {
	parts := strings.SplitN(dump, "|", 3)
	if len(parts) != 3 {
		return fmt.Errorf("bad dump %q", dump)
	}
	o.Extensible = parts[0] == "1"
	pv, err := ParseValue(parts[1], res)
	if err != nil {
		return err
	}
	switch pv.K {
	case KNull:
		o.Proto = nil
	case KObject:
		o.Proto = pv.O
	default:
		return fmt.Errorf("bad prototype %q", parts[1])
	}
	o.Reset()
	if o.Class == CTypedArray {
		o.Elems = o.Elems[:0]
	}
	if parts[2] == "" {
		return nil
	}
	for _, rec := range strings.Split(parts[2], ";") {
		ks, ds, ok := strings.Cut(rec, "=")
		if !ok {
			return fmt.Errorf("bad record %q", rec)
		}
		k, err := ParseKey(ks, res)
		if err != nil {
			return err
		}
		p, err := ParseProp(ds, res)
		if err != nil {
			return fmt.Errorf("key %s: %v", ks, err)
		}
		switch o.Class {
		case CString:
			if stringOwnIndex(o, k) != nil {
				continue
			}
		case CTypedArray:
			if n, isNum := k.CanonicalNumericIndex(); isNum {
				if p.Accessor || p.Value.K != KNumber || int(n) != len(o.Elems) {
					return fmt.Errorf("unexpected typed array element record %q", rec)
				}
				o.Elems = append(o.Elems, p.Value.N)
				continue
			}
		}
		o.Load(k, p)
	}
	return nil
}
