package objmodel

import (
	"math"
	"sort"
)

// Class selects the set of internal methods of an object.
type Class uint8

const (
	COrdinary   Class = iota // ordinary objects, incl. ordinary / bound / class / arrow functions (§10.2, §10.4.1: no own-property overrides)
	CArray                   // §10.4.2
	CString                  // §10.4.3
	CArguments               // §10.4.4 (mapped; an unmapped arguments object is ordinary)
	CTypedArray              // §10.4.5
)

func (c Class) String() string {
	return [...]string{"ordinary", "array", "string", "arguments", "typedarray"}[c]
}

// Prop is a stored property (a fully populated descriptor).
type Prop struct {
	Accessor bool
	Value    Value // data
	Get, Set Value // accessor: Undefined or a callable object
	W, E, C  bool
}

// Desc is a Property Descriptor with optional fields (§6.2.6).
type Desc struct {
	HasValue, HasW, HasGet, HasSet, HasE, HasC bool
	Value, Get, Set                            Value
	W, E, C                                    bool
}

func (d Desc) IsAccessor() bool { return d.HasGet || d.HasSet }
func (d Desc) IsData() bool     { return d.HasValue || d.HasW }
func (d Desc) IsGeneric() bool  { return !d.IsAccessor() && !d.IsData() }
func (d Desc) Empty() bool {
	return !(d.HasValue || d.HasW || d.HasGet || d.HasSet || d.HasE || d.HasC)
}

// Full converts a stored property to a complete descriptor.
func (p *Prop) Full() Desc {
	if p.Accessor {
		return Desc{HasGet: true, HasSet: true, HasE: true, HasC: true, Get: p.Get, Set: p.Set, E: p.E, C: p.C}
	}
	return Desc{HasValue: true, HasW: true, HasE: true, HasC: true, Value: p.Value, W: p.W, E: p.E, C: p.C}
}

// DataDesc is the descriptor {[[Value]]: v, W, E, C}.
func DataDesc(v Value, w, e, c bool) Desc {
	return Desc{HasValue: true, HasW: true, HasE: true, HasC: true, Value: v, W: w, E: e, C: c}
}

// CallFn is the behaviour of a callable model object.
type CallFn func(m *Machine, this Value, args []Value) (Value, *Throw)

// ElemType is a typed-array element type.
type ElemType uint8

const (
	Int8 ElemType = iota
	Uint8
	Uint8Clamped
	Int16
	Uint16
	Int32
	Uint32
	Float32
	Float64
)

// Buffer is the shared detach state of an ArrayBuffer.
type Buffer struct{ Detached bool }

// Object is a model object.
type Object struct {
	Name       string // identity label used in renderings
	Class      Class
	Callable   bool
	Call       CallFn // nil on a Callable object = native function unknown to the model
	Proto      *Object
	Extensible bool

	props map[Key]*Prop
	order []Key // creation order of all own keys

	// ToNumber result for objects without user conversion hooks (see ToNumber).
	ToNumberKnown  bool
	ToNumberResult float64

	// String exotic
	StringData []uint16
	// Arguments exotic: index → parameter cell ([[ParameterMap]])
	ParamMap map[uint32]*Value
	// Integer-Indexed exotic
	Elem  ElemType
	Buf   *Buffer
	Elems []float64 // element values (already converted); length = [[ArrayLength]]
}

// NewObject makes an empty extensible ordinary object.
func NewObject(name string, proto *Object) *Object {
	return &Object{Name: name, Proto: proto, Extensible: true, props: map[Key]*Prop{}, ToNumberKnown: true, ToNumberResult: nan()}
}

// NewFunction makes an ordinary callable object with the given behaviour (nil = unknown native).
func NewFunction(name string, proto *Object, f CallFn) *Object {
	o := NewObject(name, proto)
	o.Callable = true
	o.Call = f
	return o
}

// Reset drops all own properties (used before loading a snapshot).
func (o *Object) Reset() {
	o.props = map[Key]*Prop{}
	o.order = nil
}

// Load appends an own property exactly as given (snapshot loading; no validation, creation order = call order).
func (o *Object) Load(k Key, p Prop) {
	if _, dup := o.props[k]; !dup {
		o.order = append(o.order, k)
	}
	cp := p
	o.props[k] = &cp
}

// RawProp returns the stored ordinary property (nil if absent) without exotic behaviour.
func (o *Object) RawProp(k Key) *Prop { return o.props[k] }

func (o *Object) removeKey(k Key) {
	delete(o.props, k)
	for i, x := range o.order {
		if x == k {
			o.order = append(o.order[:i:i], o.order[i+1:]...)
			return
		}
	}
}

// Machine carries the execution context of model operations: the log written by logging accessors.
type Machine struct {
	Log []string
}

// Try runs f, converting an OutOfDomain panic into an error.
func (m *Machine) Try(f func()) (err *OutOfDomain) {
	defer func() {
		if x := recover(); x != nil {
			if e, ok := x.(*OutOfDomain); ok {
				err = e
				return
			}
			panic(x)
		}
	}()
	f()
	return nil
}

// Call is §7.3.14 for model functions.
func (m *Machine) Call(f Value, this Value, args ...Value) (Value, *Throw) {
	if !f.IsObj() || !f.O.Callable {
		return Undefined, typeError()
	}
	if f.O.Call == nil {
		ood("call of native function " + f.O.Name)
	}
	return f.O.Call(m, this, args)
}

// ---------------------------------------------------------------------------------------------------------------
// §10.1 ordinary internal methods (with dispatch to the exotic overrides in exotic.go)

func (m *Machine) GetPrototypeOf(o *Object) *Object { return o.Proto }

// SetPrototypeOf is OrdinarySetPrototypeOf (§10.1.2.1).
func (m *Machine) SetPrototypeOf(o *Object, v *Object) bool {
	if v == o.Proto {
		return true
	}
	if !o.Extensible {
		return false
	}
	for p := v; p != nil; p = p.Proto {
		if p == o {
			return false
		}
	}
	o.Proto = v
	return true
}

func (m *Machine) IsExtensible(o *Object) bool { return o.Extensible }

func (m *Machine) PreventExtensions(o *Object) bool {
	o.Extensible = false
	return true
}

// GetOwnProperty is [[GetOwnProperty]]; the result is a copy (nil = undefined).
func (m *Machine) GetOwnProperty(o *Object, k Key) *Prop {
	switch o.Class {
	case CString:
		return m.stringGetOwnProperty(o, k)
	case CArguments:
		return m.argumentsGetOwnProperty(o, k)
	case CTypedArray:
		if n, ok := k.CanonicalNumericIndex(); ok {
			return m.taGetOwnProperty(o, n)
		}
	}
	return ordinaryGetOwnProperty(o, k)
}

func ordinaryGetOwnProperty(o *Object, k Key) *Prop {
	p := o.props[k]
	if p == nil {
		return nil
	}
	cp := *p
	return &cp
}

// DefineOwnProperty is [[DefineOwnProperty]].
func (m *Machine) DefineOwnProperty(o *Object, k Key, d Desc) (bool, *Throw) {
	switch o.Class {
	case CArray:
		return m.arrayDefineOwnProperty(o, k, d)
	case CString:
		return m.stringDefineOwnProperty(o, k, d), nil
	case CArguments:
		return m.argumentsDefineOwnProperty(o, k, d), nil
	case CTypedArray:
		if n, ok := k.CanonicalNumericIndex(); ok {
			return m.taDefineOwnProperty(o, n, d)
		}
	}
	return m.ordinaryDefineOwnProperty(o, k, d), nil
}

// ordinaryDefineOwnProperty is §10.1.6.1.
func (m *Machine) ordinaryDefineOwnProperty(o *Object, k Key, d Desc) bool {
	current := m.GetOwnProperty(o, k)
	return validateAndApply(o, k, o.Extensible, d, current)
}

// IsCompatiblePropertyDescriptor is §10.1.6.2.
func IsCompatiblePropertyDescriptor(extensible bool, d Desc, current *Prop) bool {
	return validateAndApply(nil, Key{}, extensible, d, current)
}

// validateAndApply is ValidateAndApplyPropertyDescriptor (§10.1.6.3); o == nil means "validate only".
// The property written is the *stored* ordinary property named k.
func validateAndApply(o *Object, k Key, extensible bool, d Desc, current *Prop) bool {
	if current == nil {
		if !extensible {
			return false
		}
		if o == nil {
			return true
		}
		var p Prop
		if d.IsAccessor() {
			p.Accessor = true
			p.Get, p.Set = Undefined, Undefined
			if d.HasGet {
				p.Get = d.Get
			}
			if d.HasSet {
				p.Set = d.Set
			}
		} else {
			p.Value = Undefined
			if d.HasValue {
				p.Value = d.Value
			}
			p.W = d.HasW && d.W
		}
		p.E = d.HasE && d.E
		p.C = d.HasC && d.C
		o.props[k] = &p
		o.order = append(o.order, k)
		return true
	}
	if d.Empty() {
		return true
	}
	if !current.C {
		if d.HasC && d.C {
			return false
		}
		if d.HasE && d.E != current.E {
			return false
		}
		if !d.IsGeneric() && d.IsAccessor() != current.Accessor {
			return false
		}
		if current.Accessor {
			if d.HasGet && !SameValue(d.Get, current.Get) {
				return false
			}
			if d.HasSet && !SameValue(d.Set, current.Set) {
				return false
			}
		} else if !current.W {
			if d.HasW && d.W {
				return false
			}
			if d.HasValue && !SameValue(d.Value, current.Value) {
				return false
			}
		}
	}
	if o == nil {
		return true
	}
	p := o.props[k]
	if p == nil {
		// the current descriptor was synthesised by an exotic [[GetOwnProperty]]; exotics handle their own storage
		ood("apply over a virtual property")
	}
	switch {
	case !current.Accessor && d.IsAccessor():
		np := Prop{Accessor: true, Get: Undefined, Set: Undefined, E: current.E, C: current.C}
		if d.HasGet {
			np.Get = d.Get
		}
		if d.HasSet {
			np.Set = d.Set
		}
		if d.HasE {
			np.E = d.E
		}
		if d.HasC {
			np.C = d.C
		}
		*p = np
	case current.Accessor && d.IsData():
		np := Prop{Value: Undefined, E: current.E, C: current.C}
		if d.HasValue {
			np.Value = d.Value
		}
		if d.HasW {
			np.W = d.W
		}
		if d.HasE {
			np.E = d.E
		}
		if d.HasC {
			np.C = d.C
		}
		*p = np
	default:
		if d.HasValue {
			p.Value = d.Value
		}
		if d.HasW {
			p.W = d.W
		}
		if d.HasGet {
			p.Get = d.Get
		}
		if d.HasSet {
			p.Set = d.Set
		}
		if d.HasE {
			p.E = d.E
		}
		if d.HasC {
			p.C = d.C
		}
	}
	return true
}

// HasProperty is [[HasProperty]] (§10.1.7.1 and the Integer-Indexed override).
func (m *Machine) HasProperty(o *Object, k Key) bool {
	for ; o != nil; o = o.Proto {
		if o.Class == CTypedArray {
			if n, ok := k.CanonicalNumericIndex(); ok {
				return taValidIndex(o, n)
			}
		}
		if m.GetOwnProperty(o, k) != nil {
			return true
		}
	}
	return false
}

// Get is [[Get]](P, Receiver).
func (m *Machine) Get(o *Object, k Key, receiver Value) (Value, *Throw) {
	for ; o != nil; o = o.Proto {
		switch o.Class {
		case CArguments:
			if idx, ok := k.ArrayIndex(); ok {
				if cell := o.ParamMap[idx]; cell != nil {
					return *cell, nil
				}
			}
		case CTypedArray:
			if n, ok := k.CanonicalNumericIndex(); ok {
				if taValidIndex(o, n) {
					return Num(o.Elems[int(n)]), nil
				}
				return Undefined, nil
			}
		}
		p := m.GetOwnProperty(o, k)
		if p == nil {
			continue
		}
		if !p.Accessor {
			return p.Value, nil
		}
		if p.Get.IsUndef() {
			return Undefined, nil
		}
		return m.Call(p.Get, receiver)
	}
	return Undefined, nil
}

// Set is [[Set]](P, V, Receiver).
func (m *Machine) Set(o *Object, k Key, v Value, receiver Value) (bool, *Throw) {
	switch o.Class {
	case CArguments:
		if receiver.IsObj() && receiver.O == o {
			if idx, ok := k.ArrayIndex(); ok {
				if cell := o.ParamMap[idx]; cell != nil {
					*cell = v
				}
			}
		}
	case CTypedArray:
		if n, ok := k.CanonicalNumericIndex(); ok {
			if receiver.IsObj() && receiver.O == o {
				if thr := taSetElement(o, n, v); thr != nil {
					return false, thr
				}
				return true, nil
			}
			if !taValidIndex(o, n) {
				return true, nil
			}
		}
	}
	ownDesc := m.GetOwnProperty(o, k)
	return m.ordinarySetWithOwnDescriptor(o, k, v, receiver, ownDesc)
}

// ordinarySetWithOwnDescriptor is §10.1.9.2.
func (m *Machine) ordinarySetWithOwnDescriptor(o *Object, k Key, v Value, receiver Value, ownDesc *Prop) (bool, *Throw) {
	if ownDesc == nil {
		if o.Proto != nil {
			return m.Set(o.Proto, k, v, receiver)
		}
		ownDesc = &Prop{Value: Undefined, W: true, E: true, C: true}
	}
	if !ownDesc.Accessor {
		if !ownDesc.W {
			return false, nil
		}
		if !receiver.IsObj() {
			return false, nil
		}
		existing := m.GetOwnProperty(receiver.O, k)
		if existing != nil {
			if existing.Accessor {
				return false, nil
			}
			if !existing.W {
				return false, nil
			}
			return m.DefineOwnProperty(receiver.O, k, Desc{HasValue: true, Value: v})
		}
		return m.DefineOwnProperty(receiver.O, k, DataDesc(v, true, true, true))
	}
	if ownDesc.Set.IsUndef() {
		return false, nil
	}
	if _, thr := m.Call(ownDesc.Set, receiver, v); thr != nil {
		return false, thr
	}
	return true, nil
}

// Delete is [[Delete]].
func (m *Machine) Delete(o *Object, k Key) bool {
	switch o.Class {
	case CTypedArray:
		if n, ok := k.CanonicalNumericIndex(); ok {
			return !taValidIndex(o, n)
		}
	case CArguments:
		res := ordinaryDelete(m, o, k)
		if res {
			if idx, ok := k.ArrayIndex(); ok {
				delete(o.ParamMap, idx)
			}
		}
		return res
	}
	return ordinaryDelete(m, o, k)
}

func ordinaryDelete(m *Machine, o *Object, k Key) bool {
	d := m.GetOwnProperty(o, k)
	if d == nil {
		return true
	}
	if d.C {
		o.removeKey(k)
		return true
	}
	return false
}

// OwnPropertyKeys is [[OwnPropertyKeys]]: array indices ascending, then strings in creation order, then symbols in
// creation order (§10.1.11.1), preceded by the virtual index keys of String (§10.4.3.3) and Integer-Indexed
// (§10.4.5.7) exotic objects.
func (m *Machine) OwnPropertyKeys(o *Object) []Key {
	var keys []Key
	switch o.Class {
	case CString:
		for i := range o.StringData {
			keys = append(keys, IdxKey(uint32(i)))
		}
	case CTypedArray:
		if !o.Buf.Detached {
			for i := range o.Elems {
				keys = append(keys, IdxKey(uint32(i)))
			}
		}
	}
	var idx []uint32
	for _, k := range o.order {
		if i, ok := k.ArrayIndex(); ok {
			idx = append(idx, i)
		}
	}
	sort.Slice(idx, func(a, b int) bool { return idx[a] < idx[b] })
	for _, i := range idx {
		keys = append(keys, IdxKey(i))
	}
	for _, k := range o.order {
		if _, ok := k.ArrayIndex(); !ok && !k.IsSymbol() {
			keys = append(keys, k)
		}
	}
	for _, k := range o.order {
		if k.IsSymbol() {
			keys = append(keys, k)
		}
	}
	return keys
}

func nan() float64 { return math.NaN() }
