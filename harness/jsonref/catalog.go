package jsonref

import (
	"sort"
	"strings"
)

// Catalogue is the fixed set of user callbacks (toJSON methods, replacer functions, revivers, getters, valueOf/toString
// overrides) that generated cases may use.  Every entry has its JS source (sloppy-mode function expression, may refer to
// the globals F — the catalogue itself — and LOG) and a Go twin with the same behaviour on model values.
var Catalogue = map[string]*Func{}

func def(id, js string, call func(rt *Realm, this V, a []V) (V, error)) {
	Catalogue[id] = &Func{ID: id, JS: js, Call: call}
}

func arg(a []V, i int) V {
	if i < len(a) {
		return a[i]
	}
	return Undefined
}

// thisObj is the this-binding of a sloppy-mode function: primitives are boxed.
func thisObj(this V) *Obj {
	switch this.K {
	case KObject:
		return this.O
	case KBigInt:
		return &Obj{Class: CBigInt, Prim: this}
	case KNumber:
		return &Obj{Class: CNumber, Prim: this}
	case KString:
		return &Obj{Class: CString, Prim: this}
	case KBool:
		return &Obj{Class: CBoolean, Prim: this}
	case KSymbol:
		return &Obj{Class: CSymbol, Prim: this}
	}
	return nil // undefined/null → global object; never used by the catalogue
}

func isStr(v V, s string) bool { return v.K == KString && v.S == s }

func isPlainObject(v V) bool { return v.K == KObject && !v.O.IsCallable() && !v.O.IsArray() }

func (rt *Realm) log(vs ...V) { rt.Log = append(rt.Log, vs...) }

func aOrO(this V) V {
	if this.K == KObject && this.O.IsArray() {
		return Str("A")
	}
	return Str("O")
}

// PreludeJS returns the JS source that defines LOG and F (all catalogue functions).
func PreludeJS() string {
	ids := make([]string, 0, len(Catalogue))
	for id := range Catalogue {
		ids = append(ids, id)
	}
	sort.Strings(ids)
	var b strings.Builder
	b.WriteString("var LOG = [];\nvar F = {};\n")
	for _, id := range ids {
		b.WriteString("F." + id + " = " + Catalogue[id].JS + ";\n")
	}
	return b.String()
}

func init() {
	// ---- plain functions / overrides
	def("F_plain", `function(a, b){}`, func(rt *Realm, this V, a []V) (V, error) { return Undefined, nil })
	def("F_arrow", `(x) => x`, func(rt *Realm, this V, a []V) (V, error) { return arg(a, 0), nil })
	def("F_class", `class K {}`, func(rt *Realm, this V, a []V) (V, error) { return Undefined, typeError() })
	def("F_seven", `function(){ return 7 }`, func(rt *Realm, this V, a []V) (V, error) { return Num(7), nil })
	def("F_three", `function(){ return 3 }`, func(rt *Realm, this V, a []V) (V, error) { return Num(3), nil })
	def("F_nan", `function(){ return NaN }`, func(rt *Realm, this V, a []V) (V, error) { return Num(nan()), nil })
	def("F_ts", `function(){ return "ts" }`, func(rt *Realm, this V, a []V) (V, error) { return Str("ts"), nil })
	// ---- getters
	def("G_42", `function(){ return 42 }`, func(rt *Realm, this V, a []V) (V, error) { return Num(42), nil })
	def("G_undef", `function(){ return undefined }`, func(rt *Realm, this V, a []V) (V, error) { return Undefined, nil })
	def("G_obj", `function(){ return {g: [1]} }`, func(rt *Realm, this V, a []V) (V, error) {
		o := rt.NewObject()
		o.CreateDataProperty("g", ObjV(rt.NewArray(Num(1))))
		return ObjV(o), nil
	})
	// ---- toJSON methods: this = the value, a[0] = key
	def("TJ_const", `function(k){ return "tj" }`, func(rt *Realm, this V, a []V) (V, error) { return Str("tj"), nil })
	def("TJ_key", `function(k){ return "k:" + k + ":" + typeof k }`, func(rt *Realm, this V, a []V) (V, error) {
		k, err := ToStringPrim(arg(a, 0))
		if err != nil {
			return Undefined, err
		}
		return Str("k:" + k + ":" + TypeOf(arg(a, 0))), nil
	})
	def("TJ_undef", `function(k){ return undefined }`, func(rt *Realm, this V, a []V) (V, error) { return Undefined, nil })
	def("TJ_this_a", `function(k){ return this.a }`, func(rt *Realm, this V, a []V) (V, error) {
		if this.K == KUndefined || this.K == KNull {
			return Undefined, nil
		}
		return rt.GetV(this, "a")
	})
	def("TJ_nested", `function(k){ return {toJSON: F.TJ_const, z: 2} }`, func(rt *Realm, this V, a []V) (V, error) {
		o := rt.NewObject()
		o.CreateDataProperty("toJSON", ObjV(rt.FnObj("TJ_const")))
		o.CreateDataProperty("z", Num(2))
		return ObjV(o), nil
	})
	def("TJ_num", `function(k){ return new Number(5) }`, func(rt *Realm, this V, a []V) (V, error) {
		return ObjV(&Obj{Class: CNumber, Prim: Num(5)}), nil
	})
	def("TJ_throw", `function(k){ throw new RangeError("tj") }`, func(rt *Realm, this V, a []V) (V, error) {
		return Undefined, &Throw{Ctor: "RangeError"}
	})
	def("TJ_log", `function(k){ LOG.push("tj", k); return this }`, func(rt *Realm, this V, a []V) (V, error) {
		rt.log(Str("tj"), arg(a, 0))
		if o := thisObj(this); o != nil {
			return ObjV(o), nil
		}
		return Undefined, nil
	})
	// ---- replacer functions: this = holder, a = (key, value)
	def("R_identity", `function(k, v){ return v }`, func(rt *Realm, this V, a []V) (V, error) { return arg(a, 1), nil })
	def("R_drop_b", `function(k, v){ return k === "b" ? undefined : v }`, func(rt *Realm, this V, a []V) (V, error) {
		if isStr(arg(a, 0), "b") {
			return Undefined, nil
		}
		return arg(a, 1), nil
	})
	def("R_double", `function(k, v){ return typeof v === "number" ? v * 2 : v }`, func(rt *Realm, this V, a []V) (V, error) {
		if v := arg(a, 1); v.K == KNumber {
			return Num(v.N * 2), nil
		}
		return arg(a, 1), nil
	})
	def("R_bang", `function(k, v){ return typeof v === "string" ? v + "!" : v }`, func(rt *Realm, this V, a []V) (V, error) {
		if v := arg(a, 1); v.K == KString {
			return Str(v.S + "!"), nil
		}
		return arg(a, 1), nil
	})
	def("R_undef_root", `function(k, v){ return k === "" ? undefined : v }`, func(rt *Realm, this V, a []V) (V, error) {
		if isStr(arg(a, 0), "") {
			return Undefined, nil
		}
		return arg(a, 1), nil
	})
	def("R_wrap_root", `function(k, v){ return k === "" ? {w: v, n: null} : v }`, func(rt *Realm, this V, a []V) (V, error) {
		if isStr(arg(a, 0), "") {
			o := rt.NewObject()
			o.CreateDataProperty("w", arg(a, 1))
			o.CreateDataProperty("n", Null)
			return ObjV(o), nil
		}
		return arg(a, 1), nil
	})
	def("R_holder_len", `function(k, v){ return (typeof v === "boolean" && Array.isArray(this)) ? this.length : v }`, func(rt *Realm, this V, a []V) (V, error) {
		if v := arg(a, 1); v.K == KBool && this.K == KObject && this.O.IsArray() {
			return Num(float64(this.O.Len())), nil
		}
		return arg(a, 1), nil
	})
	def("R_box", `function(k, v){ return typeof v === "boolean" ? new Number(v ? 1 : 0) : v }`, func(rt *Realm, this V, a []V) (V, error) {
		if v := arg(a, 1); v.K == KBool {
			n := 0.0
			if v.B {
				n = 1
			}
			return ObjV(&Obj{Class: CNumber, Prim: Num(n)}), nil
		}
		return arg(a, 1), nil
	})
	def("R_big", `function(k, v){ return typeof v === "bigint" ? "big" : v }`, func(rt *Realm, this V, a []V) (V, error) {
		if arg(a, 1).K == KBigInt {
			return Str("big"), nil
		}
		return arg(a, 1), nil
	})
	def("R_log", `function(k, v){ LOG.push(k, typeof v, Array.isArray(this) ? "A" : "O"); return v }`, func(rt *Realm, this V, a []V) (V, error) {
		rt.log(arg(a, 0), Str(TypeOf(arg(a, 1))), aOrO(this))
		return arg(a, 1), nil
	})
	def("R_fn_sym", `function(k, v){ return typeof v === "function" ? "fn" : typeof v === "symbol" ? "sym" : v }`, func(rt *Realm, this V, a []V) (V, error) {
		switch TypeOf(arg(a, 1)) {
		case "function":
			return Str("fn"), nil
		case "symbol":
			return Str("sym"), nil
		}
		return arg(a, 1), nil
	})
	def("R_undef_to_null", `function(k, v){ return v === undefined ? null : v }`, func(rt *Realm, this V, a []V) (V, error) {
		if arg(a, 1).K == KUndefined {
			return Null, nil
		}
		return arg(a, 1), nil
	})
	def("R_throw", `function(k, v){ if (k === "t") throw new EvalError("r"); return v }`, func(rt *Realm, this V, a []V) (V, error) {
		if isStr(arg(a, 0), "t") {
			return Undefined, &Throw{Ctor: "EvalError"}
		}
		return arg(a, 1), nil
	})
	def("R_drop_obj", `function(k, v){ return (k !== "" && typeof v === "object" && v !== null && !Array.isArray(v)) ? undefined : v }`, func(rt *Realm, this V, a []V) (V, error) {
		if !isStr(arg(a, 0), "") && isPlainObject(arg(a, 1)) {
			return Undefined, nil
		}
		return arg(a, 1), nil
	})
	def("R_dup_x", `function(k, v){ return k === "x" ? [v, v] : v }`, func(rt *Realm, this V, a []V) (V, error) {
		if isStr(arg(a, 0), "x") {
			return ObjV(rt.NewArray(arg(a, 1), arg(a, 1))), nil
		}
		return arg(a, 1), nil
	})
	// ---- revivers: this = holder, a = (key, value)
	def("RV_identity", `function(k, v){ return v }`, func(rt *Realm, this V, a []V) (V, error) { return arg(a, 1), nil })
	def("RV_del_odd", `function(k, v){ return (k.length > 0 && (k.charCodeAt(k.length - 1) & 1) === 1) ? undefined : v }`, func(rt *Realm, this V, a []V) (V, error) {
		if k := arg(a, 0); k.K == KString {
			if u := Units(k.S); len(u) > 0 && u[len(u)-1]&1 == 1 {
				return Undefined, nil
			}
		}
		return arg(a, 1), nil
	})
	def("RV_neg", `function(k, v){ return typeof v === "number" ? -v : v }`, func(rt *Realm, this V, a []V) (V, error) {
		if v := arg(a, 1); v.K == KNumber {
			return Num(-v.N), nil
		}
		return arg(a, 1), nil
	})
	def("RV_inc", `function(k, v){ return typeof v === "number" ? v + 1 : v }`, func(rt *Realm, this V, a []V) (V, error) {
		if v := arg(a, 1); v.K == KNumber {
			return Num(v.N + 1), nil
		}
		return arg(a, 1), nil
	})
	def("RV_del_sibling_b", `function(k, v){ if (k === "a") delete this.b; return v }`, func(rt *Realm, this V, a []V) (V, error) {
		if isStr(arg(a, 0), "a") && this.K == KObject {
			this.O.Delete("b")
		}
		return arg(a, 1), nil
	})
	def("RV_add_z", `function(k, v){ if (k === "a") this.z = [1, {y: 2}]; return v }`, func(rt *Realm, this V, a []V) (V, error) {
		if isStr(arg(a, 0), "a") && this.K == KObject {
			y := rt.NewObject()
			y.CreateDataProperty("y", Num(2))
			this.O.Set("z", ObjV(rt.NewArray(Num(1), ObjV(y))))
		}
		return arg(a, 1), nil
	})
	def("RV_set_next", `function(k, v){ if (k === "0") this[1] = "changed"; return v }`, func(rt *Realm, this V, a []V) (V, error) {
		if isStr(arg(a, 0), "0") && this.K == KObject {
			this.O.Set("1", Str("changed"))
		}
		return arg(a, 1), nil
	})
	def("RV_truncate", `function(k, v){ if (k === "0" && Array.isArray(this)) this.length = 1; return v }`, func(rt *Realm, this V, a []V) (V, error) {
		if isStr(arg(a, 0), "0") && this.K == KObject && this.O.IsArray() {
			this.O.SetLength(1)
		}
		return arg(a, 1), nil
	})
	def("RV_wrap_r", `function(k, v){ return k === "r" ? {n: v} : v }`, func(rt *Realm, this V, a []V) (V, error) {
		if isStr(arg(a, 0), "r") {
			o := rt.NewObject()
			o.CreateDataProperty("n", arg(a, 1))
			return ObjV(o), nil
		}
		return arg(a, 1), nil
	})
	def("RV_wrap_root", `function(k, v){ return k === "" ? [v] : v }`, func(rt *Realm, this V, a []V) (V, error) {
		if isStr(arg(a, 0), "") {
			return ObjV(rt.NewArray(arg(a, 1))), nil
		}
		return arg(a, 1), nil
	})
	def("RV_undef_root", `function(k, v){ return k === "" ? undefined : v }`, func(rt *Realm, this V, a []V) (V, error) {
		if isStr(arg(a, 0), "") {
			return Undefined, nil
		}
		return arg(a, 1), nil
	})
	def("RV_log", `function(k, v){ LOG.push(k, typeof v, Array.isArray(this) ? "A" : "O"); return v }`, func(rt *Realm, this V, a []V) (V, error) {
		rt.log(arg(a, 0), Str(TypeOf(arg(a, 1))), aOrO(this))
		return arg(a, 1), nil
	})
	def("RV_throw", `function(k, v){ if (k === "t") throw new RangeError("rv"); return v }`, func(rt *Realm, this V, a []V) (V, error) {
		if isStr(arg(a, 0), "t") {
			return Undefined, &Throw{Ctor: "RangeError"}
		}
		return arg(a, 1), nil
	})
	def("RV_del_self", `function(k, v){ if (k === "a") delete this[k]; return v }`, func(rt *Realm, this V, a []V) (V, error) {
		if isStr(arg(a, 0), "a") && this.K == KObject {
			this.O.Delete("a")
		}
		return arg(a, 1), nil
	})
	def("RV_drop_prims", `function(k, v){ return (typeof v === "object" && v !== null) ? v : undefined }`, func(rt *Realm, this V, a []V) (V, error) {
		if arg(a, 1).K == KObject {
			return arg(a, 1), nil
		}
		return Undefined, nil
	})
	def("RV_str_len", `function(k, v){ return typeof v === "string" ? v.length : v }`, func(rt *Realm, this V, a []V) (V, error) {
		if v := arg(a, 1); v.K == KString {
			return Num(float64(Len16(v.S))), nil
		}
		return arg(a, 1), nil
	})
	def("RV_keys", `function(k, v){ return (typeof v === "object" && v !== null && !Array.isArray(v)) ? Object.keys(v).join(",") : v }`, func(rt *Realm, this V, a []V) (V, error) {
		if v := arg(a, 1); isPlainObject(v) {
			return Str(strings.Join(v.O.OwnKeys(true), ",")), nil
		}
		return arg(a, 1), nil
	})
}
