package jsonref

import (
	"math"
	"strings"
	"testing"
)

func u(s string) []uint16 { return Units(s) }

func TestRecogniser(t *testing.T) {
	accept := []string{
		`1`, ` 1 `, "\t\r\n 1\n", `-0`, `0`, `0.5`, `-0.0e+0`, `1e5`, `1E5`, `1e+005`, `1e-5`, `123456789012345678901234567890`,
		`"a"`, `""`, `"\"\\\/\b\f\n\r\t"`, `"Aé😀\ud800"`, "\"\u007f é\"",
		`[]`, `[ ]`, `[1,2]`, `[ 1 , 2 ]`, `{}`, `{ }`, `{"a":1}`, `{ "a" : 1 , "b" : [ ] }`, `[[[[[[[[1]]]]]]]]`,
		`true`, `false`, `null`, `1e400`, `-1e400`, `1E400`, `123e1000000`, `1e-400`, `{"__proto__":1,"__proto__":2}`, `{"":""}`,
	}
	reject := []string{
		``, ` `, `01`, `-`, `+1`, `.5`, `1.`, `1.e1`, `1e`, `1e+`, `0x10`, `1_0`, `NaN`, `Infinity`, `-Infinity`, `undefined`,
		`'a'`, `"a`, `"\a"`, `"\u12"`, `"\u12G4"`, "\"\n\"", "\"\t\"", "\"\x00\"", "\"\x1f\"", `"\x41"`, `"\'"`,
		`[1,]`, `[,1]`, `[1 2]`, `[`, `]`, `[1`, `{`, `}`, `{"a"}`, `{"a":}`, `{"a":1,}`, `{a:1}`, `{1:1}`, `{"a":1 "b":2}`, `{"a"::1}`, `[1]]`, `{}{}`,
		`1 2`, `tru`, `True`, `nul`, `nulll`, `truefalse`, "\u00a01", "1\u00a0", "\x0b1", "\x0c1", "\ufeff1", "1\u2028", "[1,\u00a02]", "/*c*/1", `1//c`,
		`"a" "b"`, `-01`, `--1`, `1-`, `1e1.5`, `1.5.5`, `-"a"`, "\x001",
	}
	for _, s := range accept {
		if r := Parse(u(s)); !r.OK {
			t.Errorf("should accept %q: %s", s, r.Err)
		}
	}
	for _, s := range reject {
		if r := Parse(u(s)); r.OK {
			t.Errorf("should reject %q", s)
		}
	}
}

func num(t *testing.T, s string) float64 {
	r := Parse(u(s))
	if !r.OK || r.Val.K != KNumber {
		t.Fatalf("%q did not parse to a number", s)
	}
	return r.Val.N
}

func TestNumbers(t *testing.T) {
	cases := map[string]float64{
		"1e400": math.Inf(1), "-1e400": math.Inf(-1), "1E400": math.Inf(1), "123e1000000": math.Inf(1), "1e-400": 0, "5e-324": 5e-324,
		"2.4703282292062327e-324": 0, "2.4703282292062328e-324": 5e-324, "1.7976931348623157e308": math.MaxFloat64,
		"1.7976931348623158e308": math.MaxFloat64, "1.797693134862315807e308": math.MaxFloat64, "1.797693134862315808e308": math.Inf(1), "1.7976931348623159e308": math.Inf(1),
		"9007199254740993": 9007199254740992, "9007199254740995": 9007199254740996, "0.1": 0.1, "123.456e-2": 1.23456, "0." + strings.Repeat("0", 399) + "1e400": 1,
		"1" + strings.Repeat("0", 400) + "e-400": 1, "1e+00000000000000000000000002": 100,
	}
	for s, want := range cases {
		if got := num(t, s); math.Float64bits(got) != math.Float64bits(want) {
			t.Errorf("%s: got %v want %v", s, got, want)
		}
	}
	for _, s := range []string{"-0", "-0.0", "-0e9", "-1e-400", "-0.0000e-0"} {
		if got := num(t, s); got != 0 || !math.Signbit(got) {
			t.Errorf("%s: want -0 got %v", s, got)
		}
	}
	// more than 20 significant digits: two admissible roundings around a halfway point
	r := Parse(u("9007199254740993.000000000000000000000001")) // just above the midpoint between 2^53 and 2^53+2
	if r.Val.N != 9007199254740994 || !r.Val.HasAlt || r.Val.Alt != 9007199254740992 {
		t.Errorf("RoundMVResult alternatives: %+v", r.Val)
	}
	r = Parse(u("1.00000000000000000000000000000000000001"))
	if r.Val.N != 1 || r.Val.HasAlt {
		t.Errorf("no alternative expected: %+v", r.Val)
	}
}

func TestNumberToString(t *testing.T) {
	cases := map[float64]string{
		0: "0", 1: "1", -1.5: "-1.5", 1e21: "1e+21", 1e20: "100000000000000000000", 123456789012345680000: "123456789012345680000", 1e-6: "0.000001", 1e-7: "1e-7",
		1.5e-7: "1.5e-7", 5e-324: "5e-324", math.MaxFloat64: "1.7976931348623157e+308", 0.1: "0.1", 100: "100", 1234.5678: "1234.5678", 4294967295: "4294967295",
		9007199254740993: "9007199254740992", 0.000001234: "0.000001234", 1.2e22: "1.2e+22",
	}
	for f, want := range cases {
		if got := NumberToString(f); got != want {
			t.Errorf("%v: got %s want %s", f, got, want)
		}
	}
	if NumberToString(math.Copysign(0, -1)) != "0" || NumberToString(math.NaN()) != "NaN" || NumberToString(math.Inf(-1)) != "-Infinity" {
		t.Error("special values")
	}
}

func show(t *testing.T, s string) string {
	r := Parse(u(s))
	if !r.OK {
		t.Fatalf("%q rejected: %s", s, r.Err)
	}
	rt := NewRealm()
	res := rt.Stringify(r.Val, Undefined, Undefined)
	if res.Err != nil || res.Undefined {
		t.Fatalf("%q: stringify failed", s)
	}
	return res.Text
}

func TestParseStructure(t *testing.T) {
	cases := map[string]string{
		`{"b":1,"a":2,"1":3,"0":4,"b":5}`:                     `{"0":4,"1":3,"b":5,"a":2}`,
		`{"__proto__":1,"a":2,"__proto__":{"x":[]}}`:          `{"__proto__":{"x":[]},"a":2}`,
		`{"4294967295":1,"4294967294":2,"01":3,"1":4,"-1":5}`: `{"1":4,"4294967294":2,"4294967295":1,"01":3,"-1":5}`,
		` [ 1 , [ ] , { } , "x" , null , true , false ] `:     `[1,[],{},"x",null,true,false]`,
		`"A😀\ud800\u0000\u001f\u007f\/"`:                      "\"A\U0001F600\\ud800\\u0000\\u001f\u007f/\"",
		`[-0, 1e400, -1e400, 1e21, 1e-7]`:                     `[0,null,null,1e+21,1e-7]`,
	}
	for in, want := range cases {
		if got := show(t, in); got != want {
			t.Errorf("%s\n got  %s\n want %s", in, got, want)
		}
	}
	r := Parse(u(`{"__proto__":null}`))
	o := r.Val.O
	if len(o.Props) != 1 || o.Props[0].Key != "__proto__" || o.NoProto || o.Proto != nil {
		t.Error("__proto__ must be an own data property")
	}
	if !Parse(u(`"\ud800"`)).LoneSurrogate || !Parse(u(`"\ude00\ud83d"`)).LoneSurrogate || !Parse(u(`"\ud83dA"`)).LoneSurrogate || !Parse(u(`"\ud83dx"`)).LoneSurrogate {
		t.Error("lone surrogate escapes must be flagged")
	}
	if Parse(u(`"😀"`)).LoneSurrogate || Parse(u("\"\U0001F600\"")).LoneSurrogate {
		t.Error("pairs must not be flagged")
	}
	if !Parse([]uint16{'"', 0xD800, '"'}).LoneSurrogate || !Parse([]uint16{'"', '\\', 'u', 'd', '8', '3', 'd', 0xDE00, '"'}).LoneSurrogate {
		t.Error("literal lone surrogates must be flagged")
	}
}

func build(rt *Realm, kv ...interface{}) *Obj {
	o := rt.NewObject()
	for i := 0; i < len(kv); i += 2 {
		o.CreateDataProperty(kv[i].(string), kv[i+1].(V))
	}
	return o
}

func str(t *testing.T, rt *Realm, v, repl, space V) string {
	t.Helper()
	r := rt.Stringify(v, repl, space)
	if r.Err != nil {
		return "throw:" + r.Err.(*Throw).Ctor
	}
	if r.Undefined {
		return "undefined"
	}
	return r.Text
}

func TestStringify(t *testing.T) {
	rt := NewRealm()
	boxN := func(f float64) V { return ObjV(&Obj{Class: CNumber, Prim: Num(f)}) }
	boxS := func(s string) V { return ObjV(&Obj{Class: CString, Prim: Str(s)}) }
	arr := rt.NewArray(Num(1), hole, Undefined, ObjV(rt.FnObj("F_plain")), Symbol("s"), Num(math.NaN()), Num(math.Inf(1)), Num(math.Copysign(0, -1)))
	if got := str(t, rt, ObjV(arr), Undefined, Undefined); got != `[1,null,null,null,null,null,null,0]` {
		t.Error(got)
	}
	o := build(rt, "b", Num(1), "a", Undefined, "f", ObjV(rt.FnObj("F_plain")), "s", Symbol("x"), "10", Num(2), "9", boxN(3), "t", boxS("x"), "u", ObjV(&Obj{Class: CBoolean, Prim: True}), "sy", ObjV(&Obj{Class: CSymbol, Prim: Symbol("q")}))
	if got := str(t, rt, ObjV(o), Undefined, Undefined); got != `{"9":3,"10":2,"b":1,"t":"x","u":true,"sy":{}}` {
		t.Error(got)
	}
	if got := str(t, rt, BigInt("1"), Undefined, Undefined); got != "throw:TypeError" {
		t.Error(got)
	}
	if got := str(t, rt, ObjV(&Obj{Class: CBigInt, Prim: BigInt("1")}), Undefined, Undefined); got != "throw:TypeError" {
		t.Error(got)
	}
	if got := str(t, rt, Undefined, Undefined, Undefined); got != "undefined" {
		t.Error(got)
	}
	// cycles
	c := build(rt, "x", Num(1))
	c.CreateDataProperty("self", ObjV(build(rt, "c", ObjV(c))))
	if got := str(t, rt, ObjV(c), Undefined, Undefined); got != "throw:TypeError" {
		t.Error(got)
	}
	// the same object twice is not a cycle
	sh := build(rt, "k", Num(1))
	if got := str(t, rt, ObjV(rt.NewArray(ObjV(sh), ObjV(sh))), Undefined, Undefined); got != `[{"k":1},{"k":1}]` {
		t.Error(got)
	}
	// indentation
	nested := build(rt, "a", ObjV(rt.NewObject()), "b", ObjV(build(rt, "c", ObjV(rt.NewArray(ObjV(rt.NewArray()), Num(1))))))
	if got := str(t, rt, ObjV(nested), Undefined, Num(2)); got != "{\n  \"a\": {},\n  \"b\": {\n    \"c\": [\n      [],\n      1\n    ]\n  }\n}" {
		t.Errorf("%q", got)
	}
	one := ObjV(rt.NewArray(Num(1)))
	gaps := []struct {
		space V
		want  string
	}{
		{Num(0), "[1]"}, {Num(-1), "[1]"}, {Num(0.9), "[1]"}, {Num(1.9), "[\n 1\n]"}, {Num(10), "[\n          1\n]"}, {Num(11), "[\n          1\n]"}, {Num(math.Inf(1)), "[\n          1\n]"},
		{Num(1e300), "[\n          1\n]"}, {Num(math.NaN()), "[1]"}, {Num(math.Inf(-1)), "[1]"}, {Str(""), "[1]"}, {Str("ab"), "[\nab1\n]"}, {Str("0123456789ab"), "[\n01234567891\n]"},
		{Str(strings.Repeat("é", 11)), "[\n" + strings.Repeat("é", 10) + "1\n]"}, {boxN(3), "[\n   1\n]"}, {boxS("-"), "[\n-1\n]"}, {True, "[1]"}, {Null, "[1]"}, {ObjV(rt.NewObject()), "[1]"},
		{ObjV(&Obj{Class: CBoolean, Prim: True}), "[1]"}, {BigInt("5"), "[1]"},
		{Str("a" + strings.Repeat("\U0001F600", 5)), "[\na" + strings.Repeat("\U0001F600", 4) + FromUnits([]uint16{0xD83D}) + "1\n]"},
	}
	for _, g := range gaps {
		if got := str(t, rt, one, Undefined, g.space); got != g.want {
			t.Errorf("space %+v: got %q want %q", g.space, got, g.want)
		}
	}
	// allow-list
	src := build(rt, "a", Num(1), "b", ObjV(build(rt, "a", Num(2), "c", Num(3), "1", Num(4))), "1", Num(5), "c", ObjV(rt.NewArray(ObjV(build(rt, "z", Num(0), "a", Num(9))))))
	list := rt.NewArray(Str("b"), Str("a"), Str("b"), Num(1), boxN(1), boxS("a"), True, Null, Undefined, ObjV(rt.NewObject()), hole, Str("c"))
	if got := str(t, rt, ObjV(src), ObjV(list), Undefined); got != `{"b":{"a":2,"1":4,"c":3},"a":1,"1":5,"c":[{"a":9}]}` {
		t.Error(got)
	}
	if got := str(t, rt, ObjV(src), ObjV(rt.NewArray()), Undefined); got != `{}` {
		t.Error(got)
	}
	if got := str(t, rt, ObjV(src), ObjV(rt.NewArray(Num(math.Copysign(0, -1)), Num(1.5), Num(1e21))), Undefined); got != `{}` {
		t.Error(got)
	}
	// replacer functions
	fn := func(id string) V { return ObjV(rt.FnObj(id)) }
	if got := str(t, rt, ObjV(src), fn("R_undef_root"), Undefined); got != "undefined" {
		t.Error(got)
	}
	if got := str(t, rt, ObjV(build(rt, "a", Num(1), "b", Num(2), "c", ObjV(rt.NewArray(Num(3), True)))), fn("R_double"), Undefined); got != `{"a":2,"b":4,"c":[6,true]}` {
		t.Error(got)
	}
	if got := str(t, rt, ObjV(build(rt, "a", Num(1), "b", Num(2))), fn("R_drop_b"), Undefined); got != `{"a":1}` {
		t.Error(got)
	}
	if got := str(t, rt, Num(1), fn("R_wrap_root"), Undefined); got != `{"w":1,"n":null}` {
		t.Error(got)
	}
	if got := str(t, rt, ObjV(rt.NewArray(True, False, Num(0))), fn("R_holder_len"), Undefined); got != `[3,3,0]` {
		t.Error(got)
	}
	// toJSON: own, inherited, on a prototype of a boxed primitive, for BigInt, not re-invoked on the result
	tj := build(rt, "a", Num(1), "toJSON", fn("TJ_key"))
	if got := str(t, rt, ObjV(build(rt, "p", ObjV(tj), "q", ObjV(rt.NewArray(ObjV(tj))))), Undefined, Undefined); got != `{"p":"k:p:string","q":["k:0:string"]}` {
		t.Error(got)
	}
	proto := build(rt, "toJSON", fn("TJ_this_a"))
	inh := &Obj{Class: CObject, Proto: proto}
	inh.CreateDataProperty("a", Str("own-a"))
	if got := str(t, rt, ObjV(inh), Undefined, Undefined); got != `"own-a"` {
		t.Error(got)
	}
	if got := str(t, rt, ObjV(build(rt, "toJSON", fn("TJ_nested"))), Undefined, Undefined); got != `{"z":2}` {
		t.Error(got)
	}
	if got := str(t, rt, ObjV(build(rt, "toJSON", Num(5))), Undefined, Undefined); got != `{"toJSON":5}` {
		t.Error(got)
	}
	rt2 := NewRealm()
	rt2.BigIntProto.CreateDataProperty("toJSON", ObjV(rt2.FnObj("TJ_const")))
	rt2.NumberProto.CreateDataProperty("toJSON", ObjV(rt2.FnObj("TJ_const")))
	if got := str(t, rt2, ObjV(rt2.NewArray(BigInt("1"), Num(1), ObjV(&Obj{Class: CNumber, Prim: Num(2)}))), Undefined, Undefined); got != `["tj",1,"tj"]` {
		t.Error(got)
	}
	if got := str(t, rt, ObjV(build(rt, "x", ObjV(build(rt, "toJSON", fn("TJ_throw"))))), Undefined, Undefined); got != "throw:RangeError" {
		t.Error(got)
	}
	// proxies, valueOf/toString overrides, getters, hidden properties
	px := &Obj{Class: CProxy, Target: rt.NewArray(Num(1), Num(2))}
	po := &Obj{Class: CProxy, Target: build(rt, "a", Num(1))}
	pf := &Obj{Class: CProxy, Target: rt.FnObj("F_plain")}
	pn := &Obj{Class: CProxy, Target: &Obj{Class: CNumber, Prim: Num(1)}}
	if got := str(t, rt, ObjV(rt.NewArray(ObjV(px), ObjV(po), ObjV(pf), ObjV(pn))), Undefined, Undefined); got != `[[1,2],{"a":1},null,{}]` {
		t.Error(got)
	}
	bn := &Obj{Class: CNumber, Prim: Num(1)}
	bn.CreateDataProperty("valueOf", fn("F_seven"))
	bs := &Obj{Class: CString, Prim: Str("s")}
	bs.CreateDataProperty("toString", fn("F_ts"))
	if got := str(t, rt, ObjV(rt.NewArray(ObjV(bn), ObjV(bs))), Undefined, ObjV(bn)); got != "[\n       7,\n       \"ts\"\n]" {
		t.Errorf("%q", got)
	}
	g := rt.NewObject()
	g.DefineGetter("g", rt.FnObj("G_obj"))
	g.DefineHidden("h", Num(1))
	g.CreateDataProperty("v", Num(2))
	if got := str(t, rt, ObjV(g), Undefined, Undefined); got != `{"g":{"g":[1]},"v":2}` {
		t.Error(got)
	}
	if got := QuoteJSONString(FromUnits([]uint16{'a', 0xD800, 'b', 0xDC00, 0xD83D, 0xDE00, 0x2028, 0x7f, 0x1f, 0, '"', '\\', '/', 8, 9, 10, 12, 13, 11})); got != "\"a\\ud800b\\udc00\U0001F600 \u007f\\u001f\\u0000\\\"\\\\/\\b\\t\\n\\f\\r\\u000b\"" {
		t.Errorf("%q", got)
	}
}

func revive(t *testing.T, text, id string) (string, *Realm) {
	t.Helper()
	rt := NewRealm()
	v, _, err := rt.ParseWithReviver(u(text), ObjV(rt.FnObj(id)))
	if err != nil {
		return "throw:" + err.(*Throw).Ctor, rt
	}
	return str(t, rt, v, Undefined, Undefined), rt
}

func TestReviver(t *testing.T) {
	cases := []struct{ text, id, want string }{
		{`{"a":[1,2,{"b":3}],"c":4}`, "RV_identity", `{"a":[1,2,{"b":3}],"c":4}`},
		{`{"a":1,"b":2,"c":3,"1":4,"2":5}`, "RV_del_odd", `{"2":5,"b":2}`},
		{`[0,1,2,3]`, "RV_del_odd", `[0,null,2,null]`},
		{`[0,{"x":-1.5}]`, "RV_neg", `[0,{"x":1.5}]`},
		{`{"a":1,"b":2}`, "RV_del_sibling_b", `{"a":1}`},
		{`{"b":2,"a":1}`, "RV_del_sibling_b", `{"a":1}`},
		{`{"a":1,"q":2}`, "RV_add_z", `{"a":1,"q":2,"z":[1,{"y":2}]}`},
		{`[5,6,7]`, "RV_set_next", `[5,"changed",7]`},
		{`[5]`, "RV_set_next", `[5,"changed"]`},
		{`{"0":1,"1":2}`, "RV_set_next", `{"0":1,"1":"changed"}`},
		{`{"0":1,"x":2}`, "RV_set_next", `{"0":1,"1":"changed","x":2}`},
		{`[1,2,3]`, "RV_truncate", `[1]`},
		{`{"r":[1],"s":{"r":null}}`, "RV_wrap_r", `{"r":{"n":[1]},"s":{"r":{"n":null}}}`},
		{`7`, "RV_wrap_root", `[7]`},
		{`7`, "RV_undef_root", `undefined`},
		{`{"x":{"t":1}}`, "RV_throw", `throw:RangeError`},
		{`{"a":1,"b":2}`, "RV_del_self", `{"b":2,"a":1}`},
		{`{"a":1,"b":[2,{"c":"x"}]}`, "RV_drop_prims", `{"b":[null,{}]}`},
		{`["ab","😀"]`, "RV_str_len", `[2,2]`},
		{`{"b":{"y":1,"1":2,"x":{}},"a":[{"q":1}]}`, "RV_keys", `"b,a"`},
		{`[`, "RV_identity", `throw:SyntaxError`},
	}
	for _, c := range cases {
		if got, _ := revive(t, c.text, c.id); got != c.want {
			t.Errorf("%s with %s: got %s want %s", c.text, c.id, got, c.want)
		}
	}
	_, rt := revive(t, `{"a":[1,{"b":null}],"c":"s"}`, "RV_log")
	var keys []string
	for _, v := range rt.Log {
		keys = append(keys, v.S)
	}
	if got := strings.Join(keys, " "); got != "0 number A b object O 1 object A a object O c string O  object O" {
		t.Error(got)
	}
	// holes are visible in the dump
	rt = NewRealm()
	v, _, _ := rt.ParseWithReviver(u(`[0,1,{"1":1,"x":-0}]`), ObjV(rt.FnObj("RV_del_odd")))
	var d []string
	for _, tk := range Dump(&v) {
		d = append(d, tk.String())
	}
	if got := strings.Join(d, " "); got != "«[» d:4008000000000000 «n» d:0000000000000000 «hole» «{» «k» «x» «n» d:8000000000000000 «}» «]»" {
		t.Error(got)
	}
}

func TestTokens(t *testing.T) {
	ts := Tokens(u(`{"a\"b": -1.5e+3, "c":[true ,null]}`))
	var parts []string
	src := u(`{"a\"b": -1.5e+3, "c":[true ,null]}`)
	for _, tk := range ts {
		parts = append(parts, FromUnits(src[tk.Start:tk.End]))
	}
	if got := strings.Join(parts, "|"); got != `{|"a\"b"|:| |-1.5e+3|,| |"c"|:|[|true| |,|null|]|}` {
		t.Error(got)
	}
}
