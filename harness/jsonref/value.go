package jsonref

import (
	"math"
	"sort"
	"strconv"
)

// Kind of a model value.
type Kind uint8

const (
	KUndefined Kind = iota
	KNull
	KBool
	KNumber
	KString
	KBigInt
	KSymbol
	KObject
	KHole // absent array element (only inside Obj.Elems)
)

// V is a model ECMAScript value.
type V struct {
	K Kind
	B bool
	N float64
	// Alt/HasAlt: second admissible Number value of a parsed numeric literal with more than 20 significant
	// digits (ECMA-262 RoundMVResult lets the implementation choose between two roundings).
	Alt    float64
	HasAlt bool
	S      string // KString: WTF-8 text; KBigInt: decimal digits with optional '-'; KSymbol: description
	O      *Obj
}

var (
	Undefined = V{K: KUndefined}
	Null      = V{K: KNull}
	True      = V{K: KBool, B: true}
	False     = V{K: KBool}
	hole      = V{K: KHole}
)

func Num(f float64) V     { return V{K: KNumber, N: f} }
func Str(s string) V      { return V{K: KString, S: s} }
func Bool(b bool) V       { return V{K: KBool, B: b} }
func BigInt(s string) V   { return V{K: KBigInt, S: s} }
func Symbol(d string) V   { return V{K: KSymbol, S: d} }
func ObjV(o *Obj) V       { return V{K: KObject, O: o} }
func (v V) IsObj() bool   { return v.K == KObject }
func (v V) IsUndef() bool { return v.K == KUndefined }

// Class of a model object (which internal slots / exotic behaviour it has).
type Class uint8

const (
	CObject Class = iota
	CArray
	CNumber  // [[NumberData]]
	CString  // [[StringData]]
	CBoolean // [[BooleanData]]
	CBigInt  // [[BigIntData]]
	CSymbol  // [[SymbolData]]
	CFunction
	CProxy // forwarding proxy (empty handler)
)

// GoKind marks model objects that stand for Go values wrapped by Runtime.ToValue.
type GoKind uint8

const (
	GoNone   GoKind = iota
	GoMap           // map[string]interface{}: key order is unspecified
	GoSlice         // []interface{}
	GoStruct        // struct: exported fields, then methods (functions)
)

// Prop is an own string-keyed property.
type Prop struct {
	Key    string
	Val    V
	Enum   bool
	Getter *Obj // accessor property with this getter (a CFunction object), no setter
}

// Obj is a model object.
type Obj struct {
	Class   Class
	Props   []*Prop // own properties in creation order (for arrays: everything that is not an element)
	Elems   []V     // CArray: elements, KHole = absent; len(Elems) is the length
	Prim    V       // boxed primitive
	Fn      *Func   // CFunction
	Target  *Obj    // CProxy
	Proto   *Obj    // nil: the realm's default prototype for the class
	NoProto bool    // prototype is null
	Go      GoKind
}

// Throw is an abrupt completion; only the constructor name of the thrown error is modelled.
type Throw struct{ Ctor string }

func (t *Throw) Error() string { return "throw " + t.Ctor }

func typeError() error { return &Throw{Ctor: "TypeError"} }

// Func is a catalogue function: JS source text and its Go twin.
type Func struct {
	ID   string
	JS   string
	Call func(rt *Realm, this V, args []V) (V, error)
}

// Realm holds the intrinsic prototypes (so that toJSON can be patched onto them) and the catalogue function objects.
type Realm struct {
	ObjectProto, ArrayProto, NumberProto, StringProto, BooleanProto, BigIntProto, SymbolProto, FunctionProto *Obj
	fns                                                                                                      map[string]*Obj
	Log                                                                                                      []V // the LOG array of the catalogue functions
	Steps                                                                                                    int
}

func NewRealm() *Realm {
	rt := &Realm{fns: map[string]*Obj{}}
	rt.ObjectProto = &Obj{Class: CObject, NoProto: true}
	mk := func() *Obj { return &Obj{Class: CObject, Proto: rt.ObjectProto} }
	rt.ArrayProto, rt.NumberProto, rt.StringProto, rt.BooleanProto = mk(), mk(), mk(), mk()
	rt.BigIntProto, rt.SymbolProto, rt.FunctionProto = mk(), mk(), mk()
	rt.installBuiltins()
	return rt
}

// builtin makes a native function object.
func builtin(name string, call func(rt *Realm, this V, a []V) (V, error)) *Obj {
	return &Obj{Class: CFunction, Fn: &Func{ID: "builtin:" + name, Call: call}}
}

// installBuiltins defines the inherited standard properties that generated cases can reach by name (allow-list entries
// such as "constructor", "toString", "valueOf", "__proto__", "length"): non-enumerable, function-valued except where
// noted.  Keys that look like identifiers and are not in the generator's fixed pools are never generated, so the other
// standard methods (Array.prototype.map, …) are not modelled.
func (rt *Realm) installBuiltins() {
	nop := func(name string) *Obj {
		return builtin(name, func(rt *Realm, this V, a []V) (V, error) { return Undefined, nil })
	}
	thisPrim := func(this V, cls Class, k Kind) (V, bool) {
		if this.K == k {
			return this, true
		}
		if this.K == KObject && this.O.Class == cls {
			return this.O.Prim, true
		}
		return Undefined, false
	}
	primMethods := func(proto *Obj, ctor string, cls Class, k Kind, toStr func(V) string) {
		proto.DefineHidden("constructor", ObjV(nop(ctor)))
		proto.DefineHidden("valueOf", ObjV(builtin(ctor+".prototype.valueOf", func(rt *Realm, this V, a []V) (V, error) {
			if p, ok := thisPrim(this, cls, k); ok {
				return p, nil
			}
			return Undefined, typeError()
		})))
		proto.DefineHidden("toString", ObjV(builtin(ctor+".prototype.toString", func(rt *Realm, this V, a []V) (V, error) {
			if p, ok := thisPrim(this, cls, k); ok {
				return Str(toStr(p)), nil
			}
			return Undefined, typeError()
		})))
	}
	op := rt.ObjectProto
	op.DefineHidden("constructor", ObjV(nop("Object")))
	op.DefineHidden("toString", ObjV(builtin("Object.prototype.toString", func(rt *Realm, this V, a []V) (V, error) {
		return Str("[object Object]"), nil // only reached for plain objects inside the generator's domain
	})))
	op.DefineHidden("toLocaleString", ObjV(nop("Object.prototype.toLocaleString")))
	op.DefineHidden("valueOf", ObjV(builtin("Object.prototype.valueOf", func(rt *Realm, this V, a []V) (V, error) {
		if o := thisObj(this); o != nil {
			return ObjV(o), nil
		}
		return Undefined, typeError()
	})))
	for _, n := range []string{"hasOwnProperty", "isPrototypeOf", "propertyIsEnumerable", "__defineGetter__", "__defineSetter__", "__lookupGetter__", "__lookupSetter__"} {
		op.DefineHidden(n, ObjV(nop("Object.prototype."+n)))
	}
	// Object.prototype.__proto__ is an accessor returning the receiver's prototype
	op.Props = append(op.Props, &Prop{Key: "__proto__", Getter: builtin("get __proto__", func(rt *Realm, this V, a []V) (V, error) {
		o := thisObj(this)
		if o == nil {
			return Undefined, typeError()
		}
		if p := rt.protoOf(o); p != nil {
			return ObjV(p), nil
		}
		return Null, nil
	})})
	ap := rt.ArrayProto
	ap.DefineHidden("length", Num(0))
	ap.DefineHidden("constructor", ObjV(nop("Array")))
	ap.DefineHidden("toString", ObjV(nop("Array.prototype.toString")))
	primMethods(rt.NumberProto, "Number", CNumber, KNumber, func(p V) string { return NumberToString(p.N) })
	primMethods(rt.StringProto, "String", CString, KString, func(p V) string { return p.S })
	rt.StringProto.DefineHidden("length", Num(0))
	primMethods(rt.BooleanProto, "Boolean", CBoolean, KBool, func(p V) string {
		if p.B {
			return "true"
		}
		return "false"
	})
	primMethods(rt.BigIntProto, "BigInt", CBigInt, KBigInt, func(p V) string { return p.S })
	primMethods(rt.SymbolProto, "Symbol", CSymbol, KSymbol, func(p V) string { return "Symbol(" + p.S + ")" })
	fp := rt.FunctionProto
	fp.DefineHidden("length", Num(0))
	fp.DefineHidden("name", Str(""))
	fp.DefineHidden("constructor", ObjV(nop("Function")))
	fp.DefineHidden("toString", ObjV(nop("Function.prototype.toString")))
}

// ProtoByName returns an intrinsic prototype ("Object", "Array", "Number", "String", "Boolean", "BigInt", "Symbol", "Function").
func (rt *Realm) ProtoByName(n string) *Obj {
	switch n {
	case "Object":
		return rt.ObjectProto
	case "Array":
		return rt.ArrayProto
	case "Number":
		return rt.NumberProto
	case "String":
		return rt.StringProto
	case "Boolean":
		return rt.BooleanProto
	case "BigInt":
		return rt.BigIntProto
	case "Symbol":
		return rt.SymbolProto
	case "Function":
		return rt.FunctionProto
	}
	return nil
}

// FnObj returns the (per realm unique) function object of a catalogue function.
func (rt *Realm) FnObj(id string) *Obj {
	if o, ok := rt.fns[id]; ok {
		return o
	}
	f := Catalogue[id]
	if f == nil {
		panic("jsonref: unknown catalogue function " + id)
	}
	o := &Obj{Class: CFunction, Fn: f}
	rt.fns[id] = o
	return o
}

func (rt *Realm) NewObject() *Obj { return &Obj{Class: CObject} }
func (rt *Realm) NewArray(elems ...V) *Obj {
	return &Obj{Class: CArray, Elems: append([]V(nil), elems...)}
}

func (rt *Realm) protoOf(o *Obj) *Obj {
	if o.NoProto {
		return nil
	}
	if o.Proto != nil {
		return o.Proto
	}
	switch o.Class {
	case CArray:
		return rt.ArrayProto
	case CNumber:
		return rt.NumberProto
	case CString:
		return rt.StringProto
	case CBoolean:
		return rt.BooleanProto
	case CBigInt:
		return rt.BigIntProto
	case CSymbol:
		return rt.SymbolProto
	case CFunction:
		return rt.FunctionProto
	case CProxy:
		return rt.protoOf(o.Target)
	}
	return rt.ObjectProto
}

// ArrayIndex reports whether key is a canonical array index (0 … 2^32−2) and returns it.
func ArrayIndex(key string) (uint32, bool) {
	if key == "" || len(key) > 10 {
		return 0, false
	}
	if key[0] == '0' && len(key) > 1 {
		return 0, false
	}
	var n uint64
	for i := 0; i < len(key); i++ {
		c := key[i]
		if c < '0' || c > '9' {
			return 0, false
		}
		n = n*10 + uint64(c-'0')
	}
	if n >= 1<<32-1 {
		return 0, false
	}
	return uint32(n), true
}

func (o *Obj) real() *Obj {
	for o.Class == CProxy {
		o = o.Target
	}
	return o
}

// IsArray is the abstract operation IsArray (looks through proxies).
func (o *Obj) IsArray() bool { return o.real().Class == CArray }

// IsCallable (looks through proxies).
func (o *Obj) IsCallable() bool { return o.real().Class == CFunction }

func (o *Obj) findProp(key string) (int, *Prop) {
	for i, p := range o.Props {
		if p.Key == key {
			return i, p
		}
	}
	return -1, nil
}

// getOwn returns the own property value; for arrays "length" and elements are synthesised.
func (rt *Realm) getOwn(o *Obj, key string, receiver V) (V, bool, error) {
	o = o.real()
	if o.Class == CArray {
		if key == "length" {
			return Num(float64(len(o.Elems))), true, nil
		}
		if idx, ok := ArrayIndex(key); ok {
			if int(idx) < len(o.Elems) && o.Elems[idx].K != KHole {
				return o.Elems[idx], true, nil
			}
			return Undefined, false, nil
		}
	}
	if _, p := o.findProp(key); p != nil {
		if p.Getter != nil {
			v, err := rt.Call(p.Getter, receiver, nil)
			return v, true, err
		}
		return p.Val, true, nil
	}
	return Undefined, false, nil
}

// Get is [[Get]] with the object itself as receiver.
func (rt *Realm) Get(o *Obj, key string) (V, error) {
	recv := ObjV(o)
	for cur := o; cur != nil; cur = rt.protoOf(cur) {
		v, ok, err := rt.getOwn(cur, key, recv)
		if err != nil || ok {
			return v, err
		}
	}
	return Undefined, nil
}

// GetV is GetV: property lookup on any value (primitives use their prototype).
func (rt *Realm) GetV(v V, key string) (V, error) {
	var start *Obj
	switch v.K {
	case KObject:
		return rt.getFrom(v.O, key, v)
	case KBigInt:
		start = rt.BigIntProto
	case KNumber:
		start = rt.NumberProto
	case KString:
		start = rt.StringProto
	case KBool:
		start = rt.BooleanProto
	case KSymbol:
		start = rt.SymbolProto
	default:
		return Undefined, typeError()
	}
	return rt.getFrom(start, key, v)
}

func (rt *Realm) getFrom(o *Obj, key string, recv V) (V, error) {
	for cur := o; cur != nil; cur = rt.protoOf(cur) {
		v, ok, err := rt.getOwn(cur, key, recv)
		if err != nil || ok {
			return v, err
		}
	}
	return Undefined, nil
}

// Call invokes a function object.
func (rt *Realm) Call(f *Obj, this V, args []V) (V, error) {
	rt.Steps++
	return f.real().Fn.Call(rt, this, args)
}

// CreateDataProperty defines/overwrites an own enumerable data property (an existing key keeps its position).
func (o *Obj) CreateDataProperty(key string, v V) {
	o = o.real()
	if o.Class == CArray {
		if idx, ok := ArrayIndex(key); ok {
			for int(idx) >= len(o.Elems) {
				o.Elems = append(o.Elems, hole)
			}
			o.Elems[idx] = v
			return
		}
		if key == "length" {
			if v.K == KNumber {
				o.SetLength(int(v.N))
			}
			return
		}
	}
	if _, p := o.findProp(key); p != nil {
		p.Val, p.Enum, p.Getter = v, true, nil
		return
	}
	o.Props = append(o.Props, &Prop{Key: key, Val: v, Enum: true})
}

// Set is an ordinary assignment o[key] = v on an object whose prototype chain has no setters/readonly
// properties for key: an existing own data property keeps its attributes, otherwise it is created.
func (o *Obj) Set(key string, v V) {
	r := o.real()
	if r.Class != CArray || !isElemKey(key) {
		if _, p := r.findProp(key); p != nil {
			if p.Getter == nil {
				p.Val = v
			}
			return
		}
	}
	r.CreateDataProperty(key, v)
}

func isElemKey(key string) bool {
	if key == "length" {
		return true
	}
	_, ok := ArrayIndex(key)
	return ok
}

// DefineHidden defines a non-enumerable data property.
func (o *Obj) DefineHidden(key string, v V) {
	o = o.real()
	if _, p := o.findProp(key); p != nil {
		p.Val, p.Enum, p.Getter = v, false, nil
		return
	}
	o.Props = append(o.Props, &Prop{Key: key, Val: v})
}

// DefineGetter defines an enumerable accessor property.
func (o *Obj) DefineGetter(key string, g *Obj) {
	o = o.real()
	if _, p := o.findProp(key); p != nil {
		p.Val, p.Enum, p.Getter = Undefined, true, g
		return
	}
	o.Props = append(o.Props, &Prop{Key: key, Enum: true, Getter: g})
}

// Delete removes an own property (all model properties are configurable).
func (o *Obj) Delete(key string) {
	o = o.real()
	if o.Class == CArray {
		if idx, ok := ArrayIndex(key); ok {
			if int(idx) < len(o.Elems) {
				o.Elems[idx] = hole
			}
			return
		}
	}
	if i, p := o.findProp(key); p != nil {
		o.Props = append(o.Props[:i:i], o.Props[i+1:]...)
	}
}

// SetLength sets the length of an array.
func (o *Obj) SetLength(n int) {
	o = o.real()
	if n < 0 {
		n = 0
	}
	for len(o.Elems) < n {
		o.Elems = append(o.Elems, hole)
	}
	o.Elems = o.Elems[:n]
}

// Len is LengthOfArrayLike for model arrays.
func (o *Obj) Len() int { return len(o.real().Elems) }

// OwnKeys returns the own string keys in [[OwnPropertyKeys]] order: array indices ascending, then the other
// keys in creation order.  enumerableOnly filters like EnumerableOwnProperties.
func (o *Obj) OwnKeys(enumerableOnly bool) []string {
	o = o.real()
	type ik struct {
		idx uint32
		key string
	}
	var idxs []ik
	var rest []string
	if o.Class == CArray {
		for i, e := range o.Elems {
			if e.K != KHole {
				idxs = append(idxs, ik{uint32(i), strconv.Itoa(i)})
			}
		}
		if !enumerableOnly {
			rest = append(rest, "length")
		}
	}
	for _, p := range o.Props {
		if enumerableOnly && !p.Enum {
			continue
		}
		if i, ok := ArrayIndex(p.Key); ok {
			idxs = append(idxs, ik{i, p.Key})
		} else {
			rest = append(rest, p.Key)
		}
	}
	sort.SliceStable(idxs, func(a, b int) bool { return idxs[a].idx < idxs[b].idx })
	keys := make([]string, 0, len(idxs)+len(rest))
	for _, k := range idxs {
		keys = append(keys, k.key)
	}
	return append(keys, rest...)
}

// TypeOf is the typeof operator.
func TypeOf(v V) string {
	switch v.K {
	case KUndefined:
		return "undefined"
	case KNull:
		return "object"
	case KBool:
		return "boolean"
	case KNumber:
		return "number"
	case KString:
		return "string"
	case KBigInt:
		return "bigint"
	case KSymbol:
		return "symbol"
	}
	if v.O.IsCallable() {
		return "function"
	}
	return "object"
}

// ToStringPrim is ToString for primitives that cannot throw here (undefined, null, boolean, number, string, bigint).
func ToStringPrim(v V) (string, error) {
	switch v.K {
	case KUndefined:
		return "undefined", nil
	case KNull:
		return "null", nil
	case KBool:
		if v.B {
			return "true", nil
		}
		return "false", nil
	case KNumber:
		return NumberToString(v.N), nil
	case KString:
		return v.S, nil
	case KBigInt:
		return v.S, nil
	}
	return "", typeError() // symbol
}

// toPrimitive is OrdinaryToPrimitive: "valueOf"/"toString" are looked up like any property (own overrides from the
// catalogue, else the built-in methods installed on the intrinsic prototypes).
func (rt *Realm) toPrimitive(o *Obj, hintString bool) (V, error) {
	order := []string{"valueOf", "toString"}
	if hintString {
		order = []string{"toString", "valueOf"}
	}
	for _, m := range order {
		f, err := rt.Get(o, m)
		if err != nil {
			return Undefined, err
		}
		if f.K == KObject && f.O.IsCallable() {
			r, err := rt.Call(f.O, ObjV(o), nil)
			if err != nil {
				return Undefined, err
			}
			if r.K != KObject {
				return r, nil
			}
		}
	}
	return Undefined, typeError()
}

// ToNumberObj is ToNumber applied to an object.
func (rt *Realm) ToNumberObj(o *Obj) (float64, error) {
	p, err := rt.toPrimitive(o, false)
	if err != nil {
		return 0, err
	}
	switch p.K {
	case KNumber:
		return p.N, nil
	case KBool:
		if p.B {
			return 1, nil
		}
		return 0, nil
	case KNull:
		return 0, nil
	case KUndefined:
		return math.NaN(), nil
	case KString:
		return StringToNumberSimple(p.S), nil
	}
	return 0, typeError() // bigint, symbol
}

// ToStringObj is ToString applied to an object.
func (rt *Realm) ToStringObj(o *Obj) (string, error) {
	p, err := rt.toPrimitive(o, true)
	if err != nil {
		return "", err
	}
	return ToStringPrim(p)
}

// StringToNumberSimple covers the strings the catalogue can produce (decimal literals); anything else is NaN.
func StringToNumberSimple(s string) float64 {
	if s == "" {
		return 0
	}
	r := Parse(Units(s))
	if r.OK && r.Val.K == KNumber {
		return r.Val.N
	}
	return math.NaN()
}
