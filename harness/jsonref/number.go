package jsonref

import (
	"math"
	"math/big"
	"strconv"
	"strings"
)

// NumberToString is Number::toString(x, 10) of ECMA-262 §6.1.6.1.20: the shortest digit string that round-trips
// (taken from strconv, which produces the shortest, closest representation) laid out by the ES rules.
func NumberToString(x float64) string {
	switch {
	case x != x:
		return "NaN"
	case x == 0:
		return "0"
	case x < 0:
		return "-" + NumberToString(-x)
	case math.IsInf(x, 1):
		return "Infinity"
	}
	e := strconv.FormatFloat(x, 'e', -1, 64) // d.ddddde±XX
	mant, exps, _ := strings.Cut(e, "e")
	exp, _ := strconv.Atoi(exps)
	digits := strings.Replace(mant, ".", "", 1)
	k := len(digits)
	n := exp + 1
	switch {
	case k <= n && n <= 21:
		return digits + strings.Repeat("0", n-k)
	case 0 < n && n <= 21:
		return digits[:n] + "." + digits[n:]
	case -6 < n && n <= 0:
		return "0." + strings.Repeat("0", -n) + digits
	}
	sign := "+"
	ee := n - 1
	if ee < 0 {
		sign = "-"
		ee = -ee
	}
	if k == 1 {
		return digits + "e" + sign + strconv.Itoa(ee)
	}
	return digits[:1] + "." + digits[1:] + "e" + sign + strconv.Itoa(ee)
}

// exactDecimal returns the float64 nearest (ties to even; beyond the range: +Inf) to digits × 10^e10, digits being a
// non-negative decimal integer.
func exactDecimal(digits string, e10 int) float64 {
	digits = strings.TrimLeft(digits, "0")
	if digits == "" {
		return 0
	}
	// magnitude is in [10^(len-1+e10), 10^(len+e10))
	if len(digits)+e10 > 400 {
		return math.Inf(1)
	}
	if len(digits)+e10 < -400 {
		return 0
	}
	m, ok := new(big.Int).SetString(digits, 10)
	if !ok {
		panic("jsonref: bad digits")
	}
	r := new(big.Rat)
	if e10 >= 0 {
		m.Mul(m, new(big.Int).Exp(big.NewInt(10), big.NewInt(int64(e10)), nil))
		r.SetInt(m)
	} else {
		r.SetFrac(m, new(big.Int).Exp(big.NewInt(10), big.NewInt(int64(-e10)), nil))
	}
	f, _ := r.Float64()
	return f
}

// DecimalToNumber converts the parts of a JSON number (int digits, fraction digits, exponent) as the ECMAScript
// NumericLiteral evaluation does: MV rounded by RoundMVResult.  f is 𝔽(MV) (exact rounding, what every known engine
// produces).  When the literal has more than 20 significant digits the specification lets an implementation round
// the literal truncated to 20 digits down or up instead; lo/hi are those two admissible values (lo ≤ f ≤ hi).
// expDigits may be arbitrarily long.
func DecimalToNumber(neg bool, intDigits, fracDigits string, expNeg bool, expDigits string) (f, lo, hi float64, sig int) {
	exp := 0
	for _, c := range strings.TrimLeft(expDigits, "0") {
		if exp < 100000000 {
			exp = exp*10 + int(c-'0')
		}
	}
	if expNeg {
		exp = -exp
	}
	digits := intDigits + fracDigits
	e10 := exp - len(fracDigits)
	// strip leading zeros; trailing zeros move into the exponent
	digits = strings.TrimLeft(digits, "0")
	t := strings.TrimRight(digits, "0")
	e10 += len(digits) - len(t)
	digits = t
	sig = len(digits)
	f = exactDecimal(digits, e10)
	lo, hi = f, f
	if sig > 20 {
		head := digits[:20]
		shift := e10 + (sig - 20)
		lo = exactDecimal(head, shift)
		up := new(big.Int)
		up.SetString(head, 10)
		up.Add(up, big.NewInt(1))
		hi = exactDecimal(up.String(), shift)
	}
	if neg {
		f, lo, hi = -f, -hi, -lo
		if f == 0 {
			f = math.Copysign(0, -1)
		}
		if lo == 0 {
			lo = math.Copysign(0, -1)
		}
		if hi == 0 {
			hi = math.Copysign(0, -1)
		}
	}
	return
}
