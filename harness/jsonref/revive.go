package jsonref

import "strconv"

// ParseWithReviver is JSON.parse(text, reviver) of ECMA-262 §25.5.1.  A reviver that is not callable is ignored.
// A text that is not valid JSON yields a SyntaxError throw.
func (rt *Realm) ParseWithReviver(text []uint16, reviver V) (V, *ParseResult, error) {
	pr := Parse(text)
	if !pr.OK {
		return Undefined, pr, &Throw{Ctor: "SyntaxError"}
	}
	if reviver.K == KObject && reviver.O.IsCallable() {
		root := &Obj{Class: CObject}
		root.CreateDataProperty("", pr.Val)
		v, err := rt.internalize(root, "", reviver.O)
		return v, pr, err
	}
	return pr.Val, pr, nil
}

// internalize is InternalizeJSONProperty (§25.5.1.1).
func (rt *Realm) internalize(holder *Obj, name string, reviver *Obj) (V, error) {
	val, err := rt.Get(holder, name)
	if err != nil {
		return Undefined, err
	}
	if val.K == KObject {
		o := val.O
		step := func(p string) error {
			ne, err := rt.internalize(o, p, reviver)
			if err != nil {
				return err
			}
			if ne.K == KUndefined {
				o.Delete(p)
			} else {
				o.CreateDataProperty(p, ne)
			}
			return nil
		}
		if o.IsArray() {
			n := o.Len()
			for i := 0; i < n; i++ {
				if err := step(strconv.Itoa(i)); err != nil {
					return Undefined, err
				}
			}
		} else {
			for _, p := range o.OwnKeys(true) {
				if err := step(p); err != nil {
					return Undefined, err
				}
			}
		}
	}
	return rt.Call(reviver, ObjV(holder), []V{Str(name), val})
}
