// Package jsonref is the reference model of JSON.parse / JSON.stringify used by check C19.
//
// It is written from ECMA-404 (the JSON grammar) and ECMA-262 §25.5 (JSON.parse, InternalizeJSONProperty,
// JSON.stringify, SerializeJSONProperty/Object/Array, QuoteJSONString), deliberately without encoding/json and
// without looking at goja's implementation.  Strings are sequences of UTF-16 code units; inside the model they are
// carried as Go strings in WTF-8 (UTF-8 generalised so that an unpaired surrogate is encoded as a three-byte
// sequence), which keeps ASCII literals readable and lets strings be map keys.
package jsonref

import "strings"

// FromUnits converts UTF-16 code units to the canonical WTF-8 form (a surrogate pair becomes one 4-byte sequence).
func FromUnits(u []uint16) string {
	var b strings.Builder
	b.Grow(len(u))
	for i := 0; i < len(u); i++ {
		c := rune(u[i])
		if c >= 0xD800 && c < 0xDC00 && i+1 < len(u) && u[i+1] >= 0xDC00 && u[i+1] < 0xE000 {
			c = 0x10000 + (c-0xD800)<<10 + (rune(u[i+1]) - 0xDC00)
			i++
		}
		appendWTF8(&b, c)
	}
	return b.String()
}

func appendWTF8(b *strings.Builder, c rune) {
	switch {
	case c < 0x80:
		b.WriteByte(byte(c))
	case c < 0x800:
		b.WriteByte(byte(0xC0 | c>>6))
		b.WriteByte(byte(0x80 | c&0x3F))
	case c < 0x10000:
		b.WriteByte(byte(0xE0 | c>>12))
		b.WriteByte(byte(0x80 | (c>>6)&0x3F))
		b.WriteByte(byte(0x80 | c&0x3F))
	default:
		b.WriteByte(byte(0xF0 | c>>18))
		b.WriteByte(byte(0x80 | (c>>12)&0x3F))
		b.WriteByte(byte(0x80 | (c>>6)&0x3F))
		b.WriteByte(byte(0x80 | c&0x3F))
	}
}

// Units converts a WTF-8 model string (or plain UTF-8) to UTF-16 code units.  Bytes that do not form a
// sequence are passed through as single units (never produced by this package).
func Units(s string) []uint16 {
	u := make([]uint16, 0, len(s))
	for i := 0; i < len(s); {
		c := s[i]
		switch {
		case c < 0x80:
			u = append(u, uint16(c))
			i++
		case c&0xE0 == 0xC0 && i+1 < len(s):
			u = append(u, uint16(c&0x1F)<<6|uint16(s[i+1]&0x3F))
			i += 2
		case c&0xF0 == 0xE0 && i+2 < len(s):
			u = append(u, uint16(c&0x0F)<<12|uint16(s[i+1]&0x3F)<<6|uint16(s[i+2]&0x3F))
			i += 3
		case c&0xF8 == 0xF0 && i+3 < len(s):
			r := rune(c&0x07)<<18 | rune(s[i+1]&0x3F)<<12 | rune(s[i+2]&0x3F)<<6 | rune(s[i+3]&0x3F)
			r -= 0x10000
			u = append(u, uint16(0xD800+(r>>10)), uint16(0xDC00+(r&0x3FF)))
			i += 4
		default:
			u = append(u, uint16(c))
			i++
		}
	}
	return u
}

// Len16 is the length of a model string in UTF-16 code units.
func Len16(s string) int { return len(Units(s)) }

// HasLoneSurrogate reports whether the code-unit sequence contains an unpaired surrogate.
func HasLoneSurrogate(u []uint16) bool {
	for i := 0; i < len(u); i++ {
		c := u[i]
		if c >= 0xD800 && c < 0xDC00 {
			if i+1 < len(u) && u[i+1] >= 0xDC00 && u[i+1] < 0xE000 {
				i++
				continue
			}
			return true
		}
		if c >= 0xDC00 && c < 0xE000 {
			return true
		}
	}
	return false
}

// Show renders a model string for reports: printable ASCII as is, everything else as \uXXXX per code unit.
func Show(s string) string { return ShowUnits(Units(s)) }

func ShowUnits(u []uint16) string {
	const hexd = "0123456789abcdef"
	var b strings.Builder
	for _, c := range u {
		if c >= 0x20 && c < 0x7f && c != '\\' {
			b.WriteByte(byte(c))
		} else {
			b.WriteString(`\u`)
			b.WriteByte(hexd[c>>12])
			b.WriteByte(hexd[(c>>8)&15])
			b.WriteByte(hexd[(c>>4)&15])
			b.WriteByte(hexd[c&15])
		}
	}
	return b.String()
}
