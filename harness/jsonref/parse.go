package jsonref

import (
	"fmt"
	"math"
	"strings"
)

// ParseResult is the outcome of recognising/parsing one text.
type ParseResult struct {
	OK     bool
	Val    V      // the value JSON.parse returns (without reviver)
	ErrPos int    // code-unit offset of the first offending unit (len = unexpected end)
	Err    string // why (for reports only; never compared)
	// LoneSurrogate: the text contains a literal unpaired surrogate code unit or a \uXXXX escape denoting a surrogate
	// that is not half of an escaped pair.  goja documents that it cannot parse such input faithfully, so these
	// texts are judged for acceptance only.
	LoneSurrogate bool
	Depth         int            // maximal nesting of arrays/objects
	Feat          map[string]int // features seen while parsing (escape forms, number shapes, white-space placements …)
	Nodes         int
}

type parser struct {
	u     []uint16
	p     int
	res   *ParseResult
	depth int
}

type parseError struct {
	pos int
	msg string
}

// Parse recognises text (UTF-16 code units) against the ECMA-404 grammar and builds the value tree that
// ECMA-262 §25.5.1 JSON.parse yields: objects keep the position of the first occurrence of a duplicate key and the
// value of the last; "__proto__" is an ordinary own property; −0 is kept.
func Parse(text []uint16) (res *ParseResult) {
	res = &ParseResult{Feat: map[string]int{}}
	ps := &parser{u: text, res: res}
	defer func() {
		if x := recover(); x != nil {
			pe, ok := x.(parseError)
			if !ok {
				panic(x)
			}
			res.OK = false
			res.Val = Undefined
			res.ErrPos = pe.pos
			res.Err = pe.msg
		}
	}()
	res.LoneSurrogate = HasLoneSurrogate(text)
	ps.ws("lead")
	v := ps.value()
	ps.ws("trail")
	if ps.p < len(ps.u) {
		ps.fail("unexpected unit after the top-level value")
	}
	res.OK = true
	res.Val = v
	return res
}

func (ps *parser) fail(msg string) {
	panic(parseError{ps.p, fmt.Sprintf("%s at %d", msg, ps.p)})
}

func (ps *parser) feat(name string) { ps.res.Feat[name]++ }

func (ps *parser) peek() int {
	if ps.p < len(ps.u) {
		return int(ps.u[ps.p])
	}
	return -1
}

// ws skips JSON white space: exactly U+0009, U+000A, U+000D, U+0020.
func (ps *parser) ws(where string) {
	for ps.p < len(ps.u) {
		switch ps.u[ps.p] {
		case 0x20:
			ps.feat("ws:" + where + ":SP")
		case 0x09:
			ps.feat("ws:" + where + ":TAB")
		case 0x0A:
			ps.feat("ws:" + where + ":LF")
		case 0x0D:
			ps.feat("ws:" + where + ":CR")
		default:
			return
		}
		ps.p++
	}
}

func (ps *parser) value() V {
	ps.res.Nodes++
	c := ps.peek()
	switch {
	case c == '{':
		return ps.object()
	case c == '[':
		return ps.array()
	case c == '"':
		return Str(ps.str("value"))
	case c == '-' || (c >= '0' && c <= '9'):
		return ps.number()
	case c == 't':
		ps.lit("true")
		return True
	case c == 'f':
		ps.lit("false")
		return False
	case c == 'n':
		ps.lit("null")
		return Null
	case c < 0:
		ps.fail("unexpected end of text, value expected")
	}
	ps.fail("value expected")
	return Undefined
}

func (ps *parser) lit(word string) {
	for i := 0; i < len(word); i++ {
		if ps.peek() != int(word[i]) {
			ps.fail("bad literal, expected " + word)
		}
		ps.p++
	}
	ps.feat("lit:" + word)
}

func (ps *parser) enter() {
	ps.depth++
	if ps.depth > ps.res.Depth {
		ps.res.Depth = ps.depth
	}
}

func (ps *parser) array() V {
	ps.p++ // [
	ps.enter()
	arr := &Obj{Class: CArray}
	ps.ws("array-open")
	if ps.peek() == ']' {
		ps.p++
		ps.depth--
		ps.feat("array:empty")
		return ObjV(arr)
	}
	for {
		v := ps.value()
		arr.Elems = append(arr.Elems, v)
		ps.ws("after-element")
		c := ps.peek()
		if c == ',' {
			ps.p++
			ps.ws("after-comma")
			continue
		}
		if c == ']' {
			ps.p++
			break
		}
		ps.fail("',' or ']' expected")
	}
	ps.depth--
	ps.feat("array:nonempty")
	return ObjV(arr)
}

func (ps *parser) object() V {
	ps.p++ // {
	ps.enter()
	obj := &Obj{Class: CObject}
	ps.ws("object-open")
	if ps.peek() == '}' {
		ps.p++
		ps.depth--
		ps.feat("object:empty")
		return ObjV(obj)
	}
	for {
		if ps.peek() != '"' {
			ps.fail("string key expected")
		}
		key := ps.str("key")
		ps.ws("after-key")
		if ps.peek() != ':' {
			ps.fail("':' expected")
		}
		ps.p++
		ps.ws("after-colon")
		v := ps.value()
		if _, p := obj.findProp(key); p != nil {
			ps.feat("key:duplicate")
		}
		if key == "__proto__" {
			ps.feat("key:__proto__")
		}
		if _, ok := ArrayIndex(key); ok {
			ps.feat("key:index")
		}
		obj.CreateDataProperty(key, v)
		ps.ws("after-member")
		c := ps.peek()
		if c == ',' {
			ps.p++
			ps.ws("after-comma")
			continue
		}
		if c == '}' {
			ps.p++
			break
		}
		ps.fail("',' or '}' expected")
	}
	ps.depth--
	ps.feat("object:nonempty")
	return ObjV(obj)
}

func hexVal(c int) int {
	switch {
	case c >= '0' && c <= '9':
		return c - '0'
	case c >= 'a' && c <= 'f':
		return c - 'a' + 10
	case c >= 'A' && c <= 'F':
		return c - 'A' + 10
	}
	return -1
}

// str parses a string token and returns its value.
func (ps *parser) str(role string) string {
	ps.p++ // opening quote
	var out []uint16
	lastEscHigh := -1 // index in out of a high surrogate produced by the immediately preceding escape
	for {
		c := ps.peek()
		switch {
		case c < 0:
			ps.fail("unterminated string")
		case c == '"':
			ps.p++
			if lastEscHigh >= 0 {
				ps.res.LoneSurrogate = true
			}
			ps.feat("string:" + role)
			return FromUnits(out)
		case c < 0x20:
			ps.fail("control character in string")
		case c == '\\':
			ps.p++
			e := ps.peek()
			ps.p++
			prevHigh := lastEscHigh
			lastEscHigh = -1
			var unit uint16
			switch e {
			case '"', '\\', '/':
				unit = uint16(e)
				ps.feat("esc:" + string(rune(e)))
			case 'b':
				unit = 8
				ps.feat("esc:b")
			case 'f':
				unit = 12
				ps.feat("esc:f")
			case 'n':
				unit = 10
				ps.feat("esc:n")
			case 'r':
				unit = 13
				ps.feat("esc:r")
			case 't':
				unit = 9
				ps.feat("esc:t")
			case 'u':
				x := 0
				upper, lower := false, false
				for i := 0; i < 4; i++ {
					hc := ps.peek()
					h := hexVal(hc)
					if h < 0 {
						ps.fail("bad \\u escape")
					}
					if hc >= 'a' && hc <= 'f' {
						lower = true
					}
					if hc >= 'A' && hc <= 'F' {
						upper = true
					}
					x = x<<4 | h
					ps.p++
				}
				unit = uint16(x)
				switch {
				case upper && lower:
					ps.feat("esc:u-mixedcase")
				case upper:
					ps.feat("esc:u-upper")
				default:
					ps.feat("esc:u-lower")
				}
				switch {
				case x >= 0xD800 && x < 0xDC00:
					lastEscHigh = len(out)
				case x >= 0xDC00 && x < 0xE000:
					if prevHigh >= 0 {
						ps.feat("esc:u-surrogate-pair")
					} else {
						ps.feat("esc:u-lone-low")
						ps.res.LoneSurrogate = true
					}
					prevHigh = -1
				case x < 0x20:
					ps.feat("esc:u-control")
				}
			default:
				ps.p--
				if e < 0 {
					ps.fail("unterminated escape")
				}
				ps.fail("bad escape")
			}
			if prevHigh >= 0 {
				// the high-surrogate escape before this one was not followed by a low-surrogate escape
				ps.feat("esc:u-lone-high")
				ps.res.LoneSurrogate = true
			}
			out = append(out, unit)
		default:
			if lastEscHigh >= 0 {
				ps.feat("esc:u-lone-high")
				ps.res.LoneSurrogate = true
				lastEscHigh = -1
			}
			switch {
			case c >= 0x80 && c < 0xD800 || c >= 0xE000:
				ps.feat("char:non-ascii-bmp")
			case c >= 0xD800:
				ps.feat("char:surrogate-unit")
			case c == 0x7f:
				ps.feat("char:DEL")
			}
			out = append(out, uint16(c))
			ps.p++
		}
	}
}

func (ps *parser) digits() string {
	st := ps.p
	for c := ps.peek(); c >= '0' && c <= '9'; c = ps.peek() {
		ps.p++
	}
	var b strings.Builder
	for _, c := range ps.u[st:ps.p] {
		b.WriteByte(byte(c))
	}
	return b.String()
}

func (ps *parser) number() V {
	neg := false
	if ps.peek() == '-' {
		neg = true
		ps.p++
	}
	var intD, fracD, expD string
	expNeg := false
	switch c := ps.peek(); {
	case c == '0':
		ps.p++
		intD = "0"
	case c >= '1' && c <= '9':
		intD = ps.digits()
	default:
		ps.fail("digit expected")
	}
	shape := "int"
	if ps.peek() == '.' {
		ps.p++
		fracD = ps.digits()
		if fracD == "" {
			ps.fail("digit expected after '.'")
		}
		shape = "frac"
	}
	if c := ps.peek(); c == 'e' || c == 'E' {
		ps.p++
		es := "e"
		if c == 'E' {
			es = "E"
		}
		switch ps.peek() {
		case '+':
			ps.p++
			es += "+"
		case '-':
			ps.p++
			expNeg = true
			es += "-"
		}
		expD = ps.digits()
		if expD == "" {
			ps.fail("digit expected in exponent")
		}
		if len(expD) > 1 && expD[0] == '0' {
			ps.feat("num:exp-leading-zero")
		}
		shape += "+" + es
	}
	f, lo, hi, sig := DecimalToNumber(neg, intD, fracD, expNeg, expD)
	ps.feat("num:shape:" + shape)
	if neg {
		ps.feat("num:negative")
	}
	switch {
	case math.IsInf(f, 0):
		ps.feat("num:overflow-to-infinity")
	case f == 0 && sig > 0:
		ps.feat("num:underflow-to-zero")
	case f == 0 && neg:
		ps.feat("num:negative-zero")
	case f != 0 && math.Abs(f) < 2.2250738585072014e-308:
		ps.feat("num:subnormal")
	case math.Abs(f) >= 9007199254740992:
		ps.feat("num:beyond-2^53")
	}
	switch {
	case sig > 300:
		ps.feat("num:sig>300")
	case sig > 100:
		ps.feat("num:sig>100")
	case sig > 20:
		ps.feat("num:sig>20")
	case sig > 17:
		ps.feat("num:sig>17")
	}
	v := V{K: KNumber, N: f}
	if lo != hi && sig > 20 {
		ps.feat("num:two-admissible-roundings")
		v.HasAlt = true
		if f == lo {
			v.Alt = hi
		} else {
			v.Alt = lo
		}
	}
	return v
}

// Token is a lexical span [Start,End) of a text, used for token-level corruption.
type Token struct {
	Start, End int
	Kind       byte // 's' string, 'n' number-ish, 'w' word, ' ' white space, 'p' punctuator/other
}

// Tokens splits any text (valid or not) into lexical spans.
func Tokens(u []uint16) []Token {
	var ts []Token
	for i := 0; i < len(u); {
		c := u[i]
		st := i
		switch {
		case c == '"':
			i++
			for i < len(u) && u[i] != '"' {
				if u[i] == '\\' && i+1 < len(u) {
					i++
				}
				i++
			}
			if i < len(u) {
				i++
			}
			ts = append(ts, Token{st, i, 's'})
		case c == '-' || c == '+' || c == '.' || (c >= '0' && c <= '9'):
			for i < len(u) && (u[i] == '-' || u[i] == '+' || u[i] == '.' || u[i] == 'e' || u[i] == 'E' || (u[i] >= '0' && u[i] <= '9')) {
				i++
			}
			ts = append(ts, Token{st, i, 'n'})
		case c >= 'a' && c <= 'z' || c >= 'A' && c <= 'Z':
			for i < len(u) && (u[i] >= 'a' && u[i] <= 'z' || u[i] >= 'A' && u[i] <= 'Z') {
				i++
			}
			ts = append(ts, Token{st, i, 'w'})
		case c == ' ' || c == '\t' || c == '\n' || c == '\r':
			for i < len(u) && (u[i] == ' ' || u[i] == '\t' || u[i] == '\n' || u[i] == '\r') {
				i++
			}
			ts = append(ts, Token{st, i, ' '})
		default:
			i++
			ts = append(ts, Token{st, i, 'p'})
		}
	}
	return ts
}
