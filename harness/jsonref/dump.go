package jsonref

import (
	"fmt"
	"math"
	"strconv"
	"strings"
)

func nan() float64 { return math.NaN() }

// Tok is one token of the canonical structure dump.  The same protocol is produced by the JS walker in check C19
// (checks/c19/walker.go) for engine values and by Dump for model values:
//
//	null | undef | true | false | n <number> | s <string> | other:<typeof>
//	[ <length>  (element | hole)*  (extra <key> value)* ]
//	{ (k <key> [attrs:<wec>] value | k <key> accessor)* }
//
// Numbers are compared by float64 bits (all NaNs equal), strings by UTF-16 code units.
type Tok struct {
	IsNum bool
	N     float64
	S     string // marker or string payload (WTF-8)
	// model side only: a parsed literal with two admissible roundings
	HasAlt bool
	Alt    float64
	Node   *V
}

func (t Tok) String() string {
	if t.IsNum {
		if t.N != t.N {
			return "d:NaN"
		}
		s := fmt.Sprintf("d:%016x", math.Float64bits(t.N))
		if t.HasAlt {
			s += fmt.Sprintf("|%016x", math.Float64bits(t.Alt))
		}
		return s
	}
	return "«" + Show(t.S) + "»"
}

func sameNum(a, b float64) bool {
	if a != a || b != b {
		return a != a && b != b
	}
	return math.Float64bits(a) == math.Float64bits(b)
}

func mark(s string) Tok { return Tok{S: s} }

// Dump renders a model value in the dump protocol.  Only plain data (what JSON.parse and the catalogue revivers can
// produce) is supported: primitives, arrays, ordinary objects with enumerable data properties.
func Dump(v *V) []Tok {
	var out []Tok
	dumpInto(&out, v, 0)
	return out
}

func dumpInto(out *[]Tok, v *V, depth int) {
	switch v.K {
	case KNull:
		*out = append(*out, mark("null"))
	case KUndefined, KHole:
		*out = append(*out, mark("undef"))
	case KBool:
		if v.B {
			*out = append(*out, mark("true"))
		} else {
			*out = append(*out, mark("false"))
		}
	case KNumber:
		*out = append(*out, mark("n"), Tok{IsNum: true, N: v.N, HasAlt: v.HasAlt, Alt: v.Alt, Node: v})
	case KString:
		*out = append(*out, mark("s"), Tok{S: v.S})
	case KBigInt:
		*out = append(*out, mark("other:bigint"))
	case KSymbol:
		*out = append(*out, mark("other:symbol"))
	case KObject:
		o := v.O
		if depth > 64 {
			*out = append(*out, mark("deep"))
			return
		}
		switch {
		case o.IsCallable():
			*out = append(*out, mark("other:function"))
		case o.Class == CArray:
			*out = append(*out, mark("["), Tok{IsNum: true, N: float64(len(o.Elems))})
			for i := range o.Elems {
				if o.Elems[i].K == KHole {
					*out = append(*out, mark("hole"))
				} else {
					dumpInto(out, &o.Elems[i], depth+1)
				}
			}
			for _, k := range o.OwnKeys(false) {
				if k == "length" {
					continue
				}
				if _, isIdx := ArrayIndex(k); isIdx {
					if _, p := o.findProp(k); p == nil {
						continue // element
					}
				}
				_, p := o.findProp(k)
				*out = append(*out, mark("extra"), Tok{S: k})
				dumpInto(out, &p.Val, depth+1)
			}
			*out = append(*out, mark("]"))
		default:
			*out = append(*out, mark("{"))
			for _, k := range o.OwnKeys(false) {
				_, p := o.findProp(k)
				*out = append(*out, mark("k"), Tok{S: k})
				if p.Getter != nil {
					*out = append(*out, mark("accessor"))
					continue
				}
				if !p.Enum {
					*out = append(*out, mark("attrs:w-c"))
				}
				dumpInto(out, &p.Val, depth+1)
			}
			*out = append(*out, mark("}"))
		}
	}
}

// MatchDump compares a model dump with an engine dump.  Where the model allows two roundings of a long numeric
// literal, either is accepted and the engine's choice is written back into the model node (so that later model
// computations — canonical form — continue from the engine's admissible choice).  It returns "" on equality, else a
// description of the first difference.
func MatchDump(model, engine []Tok) string {
	n := len(model)
	if len(engine) < n {
		n = len(engine)
	}
	for i := 0; i < n; i++ {
		m, e := model[i], engine[i]
		ok := false
		switch {
		case m.IsNum != e.IsNum:
		case m.IsNum:
			ok = sameNum(m.N, e.N)
			if !ok && m.HasAlt && sameNum(m.Alt, e.N) {
				ok = true
				if m.Node != nil {
					m.Node.N, m.Node.Alt = m.Node.Alt, m.Node.N
				}
			}
		default:
			ok = m.S == e.S
		}
		if !ok {
			return fmt.Sprintf("dump token %d: model %s, engine %s\n  model : %s\n  engine: %s", i, m, e, ShowToks(model, i), ShowToks(engine, i))
		}
	}
	if len(model) != len(engine) {
		return fmt.Sprintf("dump length: model %d tokens, engine %d tokens\n  model : %s\n  engine: %s", len(model), len(engine), ShowToks(model, n), ShowToks(engine, n))
	}
	return ""
}

// ShowToks renders the neighbourhood of token i.
func ShowToks(t []Tok, i int) string {
	lo, hi := i-12, i+6
	if lo < 0 {
		lo = 0
	}
	if hi > len(t) {
		hi = len(t)
	}
	var b strings.Builder
	if lo > 0 {
		b.WriteString("… ")
	}
	for j := lo; j < hi; j++ {
		if j == i {
			b.WriteString(">>")
		}
		b.WriteString(t[j].String())
		b.WriteByte(' ')
	}
	if hi < len(t) {
		b.WriteString("…(" + strconv.Itoa(len(t)-hi) + " more)")
	}
	return b.String()
}
