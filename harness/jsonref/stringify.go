package jsonref

import (
	"math"
	"strconv"
	"strings"
)

// StringifyResult is the outcome of JSON.stringify in the model.
type StringifyResult struct {
	Undefined bool   // the result is the value undefined
	Text      string // WTF-8
	Err       error  // abrupt completion (*Throw)
}

type sstate struct {
	rt       *Realm
	repl     *Obj
	plist    []string
	hasPlist bool
	stack    []*Obj
	indent   string
	gap      string
}

// Stringify is JSON.stringify(value, replacer, space) of ECMA-262 §25.5.2.
func (rt *Realm) Stringify(value, replacer, space V) (res StringifyResult) {
	st := &sstate{rt: rt}
	// 4. replacer
	if replacer.K == KObject {
		if replacer.O.IsCallable() {
			st.repl = replacer.O
		} else if replacer.O.IsArray() {
			st.hasPlist = true
			st.plist = []string{}
			n := replacer.O.Len()
			for k := 0; k < n; k++ {
				v, err := rt.Get(replacer.O, strconv.Itoa(k))
				if err != nil {
					return StringifyResult{Err: err}
				}
				item, has := "", false
				switch v.K {
				case KString:
					item, has = v.S, true
				case KNumber:
					item, has = NumberToString(v.N), true
				case KObject:
					if v.O.Class == CString || v.O.Class == CNumber {
						s, err := rt.ToStringObj(v.O)
						if err != nil {
							return StringifyResult{Err: err}
						}
						item, has = s, true
					}
				}
				if has {
					dup := false
					for _, x := range st.plist {
						if x == item {
							dup = true
							break
						}
					}
					if !dup {
						st.plist = append(st.plist, item)
					}
				}
			}
		}
	}
	// 5. space
	if space.K == KObject {
		switch space.O.Class {
		case CNumber:
			f, err := rt.ToNumberObj(space.O)
			if err != nil {
				return StringifyResult{Err: err}
			}
			space = Num(f)
		case CString:
			s, err := rt.ToStringObj(space.O)
			if err != nil {
				return StringifyResult{Err: err}
			}
			space = Str(s)
		}
	}
	switch space.K {
	case KNumber:
		// min(10, ToIntegerOrInfinity(space))
		f := space.N
		n := 0
		switch {
		case f != f:
			n = 0
		case f >= 10:
			n = 10
		case f >= 1:
			n = int(math.Trunc(f))
		}
		st.gap = strings.Repeat(" ", n)
	case KString:
		u := Units(space.S)
		if len(u) > 10 {
			u = u[:10]
		}
		st.gap = FromUnits(u)
	}
	wrapper := &Obj{Class: CObject}
	wrapper.CreateDataProperty("", value)
	s, ok, err := st.property("", wrapper)
	if err != nil {
		return StringifyResult{Err: err}
	}
	if !ok {
		return StringifyResult{Undefined: true}
	}
	// a gap ending in a high surrogate followed by … cannot pair up with anything (the next unit is always ASCII), so
	// concatenation of WTF-8 pieces stays canonical except for gap+gap: normalise through code units.
	return StringifyResult{Text: FromUnits(Units(s))}
}

// property is SerializeJSONProperty; ok=false means undefined.
func (st *sstate) property(key string, holder *Obj) (string, bool, error) {
	rt := st.rt
	value, err := rt.Get(holder, key)
	if err != nil {
		return "", false, err
	}
	if value.K == KObject || value.K == KBigInt {
		tj, err := rt.GetV(value, "toJSON")
		if err != nil {
			return "", false, err
		}
		if tj.K == KObject && tj.O.IsCallable() {
			value, err = rt.Call(tj.O, value, []V{Str(key)})
			if err != nil {
				return "", false, err
			}
		}
	}
	if st.repl != nil {
		value, err = rt.Call(st.repl, ObjV(holder), []V{Str(key), value})
		if err != nil {
			return "", false, err
		}
	}
	if value.K == KObject {
		switch value.O.Class {
		case CNumber:
			f, err := rt.ToNumberObj(value.O)
			if err != nil {
				return "", false, err
			}
			value = Num(f)
		case CString:
			s, err := rt.ToStringObj(value.O)
			if err != nil {
				return "", false, err
			}
			value = Str(s)
		case CBoolean, CBigInt:
			value = value.O.Prim
		}
	}
	switch value.K {
	case KNull:
		return "null", true, nil
	case KBool:
		if value.B {
			return "true", true, nil
		}
		return "false", true, nil
	case KString:
		return QuoteJSONString(value.S), true, nil
	case KNumber:
		if math.IsNaN(value.N) || math.IsInf(value.N, 0) {
			return "null", true, nil
		}
		return NumberToString(value.N), true, nil
	case KBigInt:
		return "", false, typeError()
	case KObject:
		if !value.O.IsCallable() {
			if value.O.IsArray() {
				s, err := st.array(value.O)
				return s, err == nil, err
			}
			s, err := st.object(value.O)
			return s, err == nil, err
		}
	}
	return "", false, nil
}

// ErrTooDeep is returned when a serialisation nests deeper than MaxDepth: only callbacks that create a fresh object
// on every level can do that, i.e. the serialisation does not terminate.  Such values are outside the model's domain.
var ErrTooDeep = &Throw{Ctor: "<nesting beyond the model's depth bound: serialisation diverges>"}

const MaxDepth = 96

func (st *sstate) push(o *Obj) error {
	for _, x := range st.stack {
		if x == o {
			return typeError()
		}
	}
	if len(st.stack) >= MaxDepth {
		return ErrTooDeep
	}
	st.stack = append(st.stack, o)
	return nil
}

func (st *sstate) object(o *Obj) (string, error) {
	if err := st.push(o); err != nil {
		return "", err
	}
	stepback := st.indent
	st.indent += st.gap
	var keys []string
	if st.hasPlist {
		keys = st.plist
	} else {
		keys = o.OwnKeys(true)
	}
	var partial []string
	for _, p := range keys {
		s, ok, err := st.property(p, o)
		if err != nil {
			return "", err
		}
		if ok {
			m := QuoteJSONString(p) + ":"
			if st.gap != "" {
				m += " "
			}
			partial = append(partial, m+s)
		}
	}
	var final string
	switch {
	case len(partial) == 0:
		final = "{}"
	case st.gap == "":
		final = "{" + strings.Join(partial, ",") + "}"
	default:
		final = "{\n" + st.indent + strings.Join(partial, ",\n"+st.indent) + "\n" + stepback + "}"
	}
	st.stack = st.stack[:len(st.stack)-1]
	st.indent = stepback
	return final, nil
}

func (st *sstate) array(o *Obj) (string, error) {
	if err := st.push(o); err != nil {
		return "", err
	}
	stepback := st.indent
	st.indent += st.gap
	n := o.Len()
	partial := make([]string, 0, n)
	for i := 0; i < n; i++ {
		s, ok, err := st.property(strconv.Itoa(i), o)
		if err != nil {
			return "", err
		}
		if !ok {
			s = "null"
		}
		partial = append(partial, s)
	}
	var final string
	switch {
	case len(partial) == 0:
		final = "[]"
	case st.gap == "":
		final = "[" + strings.Join(partial, ",") + "]"
	default:
		final = "[\n" + st.indent + strings.Join(partial, ",\n"+st.indent) + "\n" + stepback + "]"
	}
	st.stack = st.stack[:len(st.stack)-1]
	st.indent = stepback
	return final, nil
}

// QuoteJSONString is ECMA-262 §25.5.2.3 (well-formed JSON.stringify): named escapes for BS, HT, LF, FF, CR, '"', '\',
// \u00xx (lower-case hex) for the other control characters, \udxxx for unpaired surrogates, everything else verbatim.
func QuoteJSONString(s string) string {
	const hexd = "0123456789abcdef"
	u := Units(s)
	var b strings.Builder
	b.WriteByte('"')
	var lit []uint16
	flush := func() {
		if len(lit) > 0 {
			b.WriteString(FromUnits(lit))
			lit = lit[:0]
		}
	}
	esc := func(c uint16) {
		flush()
		b.WriteString(`\u`)
		b.WriteByte(hexd[c>>12])
		b.WriteByte(hexd[(c>>8)&15])
		b.WriteByte(hexd[(c>>4)&15])
		b.WriteByte(hexd[c&15])
	}
	for i := 0; i < len(u); i++ {
		c := u[i]
		switch {
		case c == 8:
			flush()
			b.WriteString(`\b`)
		case c == 9:
			flush()
			b.WriteString(`\t`)
		case c == 10:
			flush()
			b.WriteString(`\n`)
		case c == 12:
			flush()
			b.WriteString(`\f`)
		case c == 13:
			flush()
			b.WriteString(`\r`)
		case c == '"':
			flush()
			b.WriteString(`\"`)
		case c == '\\':
			flush()
			b.WriteString(`\\`)
		case c < 0x20:
			esc(c)
		case c >= 0xD800 && c < 0xDC00:
			if i+1 < len(u) && u[i+1] >= 0xDC00 && u[i+1] < 0xE000 {
				lit = append(lit, c, u[i+1])
				i++
			} else {
				esc(c)
			}
		case c >= 0xDC00 && c < 0xE000:
			esc(c)
		default:
			lit = append(lit, c)
		}
	}
	flush()
	b.WriteByte('"')
	return b.String()
}
