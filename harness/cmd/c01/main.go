package main

import (
	"verif/harness/checks/c01"
	"verif/harness/core"
)

func main() { core.Main(c01.Check()) }
