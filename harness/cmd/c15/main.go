package main

import (
	"verif/harness/checks/c15"
	"verif/harness/core"
)

func main() { core.Main(c15.Check()) }
