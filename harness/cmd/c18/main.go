package main

import (
	"verif/harness/checks/c18"
	"verif/harness/core"
)

func main() { core.Main(c18.Check()) }
