package main

import (
	"verif/harness/checks/c11"
	"verif/harness/core"
)

func main() { core.Main(c11.Check()) }
