package main

import (
	"verif/harness/checks/c08"
	"verif/harness/core"
)

func main() { core.Main(c08.Check()) }
