package main

import (
	"verif/harness/checks/c14"
	"verif/harness/core"
)

func main() { core.Main(c14.Check()) }
