package main

import (
	"verif/harness/checks/c05"
	"verif/harness/core"
)

func main() { core.Main(c05.Check()) }
