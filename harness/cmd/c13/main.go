package main

import (
	"verif/harness/checks/c13"
	"verif/harness/core"
)

func main() { core.Main(c13.Check()) }
