package main

import (
	"verif/harness/checks/c07"
	"verif/harness/core"
)

func main() { core.Main(c07.Check()) }
