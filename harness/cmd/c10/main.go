package main

import (
	"verif/harness/checks/c10"
	"verif/harness/core"
)

func main() { core.Main(c10.Check()) }
