package main

import (
	"verif/harness/checks/c03"
	"verif/harness/core"
)

func main() { core.Main(c03.Check()) }
