package main

import (
	"verif/harness/checks/c09"
	"verif/harness/core"
)

func main() { core.Main(c09.Check()) }
