package main

import (
	"verif/harness/checks/c12"
	"verif/harness/core"
)

func main() { core.Main(c12.Check()) }
