package main

import (
	"verif/harness/checks/c06"
	"verif/harness/core"
)

func main() { core.Main(c06.Check()) }
