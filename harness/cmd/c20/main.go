package main

import (
	"verif/harness/checks/c20"
	"verif/harness/core"
)

func main() { core.Main(c20.Check()) }
