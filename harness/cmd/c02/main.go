package main

import (
	"os"

	"verif/harness/checks/c02"
	"verif/harness/core"
)

func main() {
	if len(os.Args) > 1 && os.Args[1] == "dev" {
		c02.Dev(os.Args[2:])
		return
	}
	core.Main(c02.Check())
}
