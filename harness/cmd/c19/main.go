package main

import (
	"verif/harness/checks/c19"
	"verif/harness/core"
)

func main() { core.Main(c19.Check()) }
