package main

import (
	"verif/harness/checks/c17"
	"verif/harness/core"
)

func main() { core.Main(c17.Check()) }
