// c04dev: development sweep for C04 (in-process, no isolation): c04dev <from> <to> [min]
package main

import (
	"fmt"
	"os"
	"sort"
	"strconv"
	"strings"
	"time"

	"verif/harness/checks/c04"
	"verif/harness/core"
)

func main() {
	if os.Args[1] == "show" {
		i, _ := strconv.Atoi(os.Args[2])
		fmt.Println(c04.Show(1, i))
		return
	}
	from, _ := strconv.Atoi(os.Args[1])
	to, _ := strconv.Atoi(os.Args[2])
	c04.Minimise = len(os.Args) > 3
	chk := c04.Check()
	seed := uint64(1)
	if s := os.Getenv("VERIF_SEED"); s != "" {
		v, _ := strconv.Atoi(s)
		seed = uint64(v)
	}
	t0 := time.Now()
	counts := map[string]int{}
	first := map[string]string{}
	nt := 0
	st := core.NewStats()
	for i := from; i < to; i++ {
		if os.Getenv("C04DEV_TRACE") != "" {
			fmt.Fprintf(os.Stderr, "case %d\n", i)
		}
		ctx := &core.Ctx{Property: "C04", Tier: "quick", Seed: seed, Index: i, Rng: core.CaseRng(seed, "C04", i), Stats: st}
		r := chk.Run(ctx)
		if r.NonTrivial {
			nt++
		}
		if r.Verdict != core.Held {
			kind := ""
			if cs, ok := r.Case.(*c04.Case); ok && cs != nil {
				kind = cs.Kind
			}
			k := r.Verdict.String() + " " + r.Monitor + " " + kind
			counts[k]++
			if _, ok := first[k]; !ok {
				first[k] = fmt.Sprintf("idx %d: %s", i, strings.Split(r.Detail, "\n(original")[0])
			}
		}
	}
	keys := make([]string, 0, len(counts))
	for k := range counts {
		keys = append(keys, k)
	}
	sort.Strings(keys)
	for _, k := range keys {
		fmt.Printf("%5d %s\n      %s\n", counts[k], k, strings.ReplaceAll(core.Trunc(first[k], 900), "\n", "\n      "))
	}
	fmt.Printf("cases %d nontrivial %d in %.1fs; ops=%d compared=%d ood=%d\n", to-from, nt, time.Since(t0).Seconds(), st.Counters["ops_executed"], st.Counters["model_results_compared"], st.Counters["model_out_of_domain"])
}
