package main

import (
	"verif/harness/checks/c16"
	"verif/harness/core"
)

func main() { core.Main(c16.Check()) }
