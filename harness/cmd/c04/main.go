package main

import (
	"verif/harness/checks/c04"
	"verif/harness/core"
)

func main() { core.Main(c04.Check()) }
