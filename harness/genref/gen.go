package genref

import "fmt"

// Rand is the deterministic source the generator draws from (core.Rng satisfies it).
type Rand interface {
	Intn(n int) int
}

// Exclusions of the minimal syntactic neighbourhood of listed known findings (set by the check while a finding is
// listed in known-findings.d/C09.json; both false on a tree where the fixes are merged).
var (
	NoLogicalAssignToLocals bool // C09-stack-ref-rebase: ||= &&= ??= only on member targets
	NoThrowingIteratorClose bool // C09-return-iterator-close-throws-state: mkIter return() modes 3/4 -> 1
	SingleReturnPerInstance bool // C09-nested-return-completions: at most one return() per instance, none from drive()
	NoDriveInHelpers        bool // C09-return-completed-before-iterators-closed: helper generators do not call drive()
	NoDashChunk             bool // C09-property-key-minus: template chunk "-" (a possible property key "-" on a string) -> ":"
)

type local struct {
	name string
	role string // any, obj, arr, fn, ctr, exc, iter
	kind string // let const var param
}

type gctx struct {
	r        Rand
	budget   int
	sites    int
	nLocal   int
	nLabel   int
	nIter    int
	scopes   [][]local
	inGen    bool // yield allowed here (false inside arrows)
	loops    int
	labels   []string
	region   []string // try / catch / finally / loop (innermost last)
	helpers  []*Func
	nHelpers int
	reops    []ReOp
	method   bool
	useArgs  bool
	isHelper bool
	twoInst  bool
}

func (g *gctx) chance(num, den int) bool { return g.r.Intn(den) < num }
func (g *gctx) pick(n int) int           { return g.r.Intn(n) }

func (g *gctx) pickW(w ...int) int {
	t := 0
	for _, x := range w {
		t += x
	}
	k := g.r.Intn(t)
	for i, x := range w {
		if k < x {
			return i
		}
		k -= x
	}
	return len(w) - 1
}

func (g *gctx) push()       { g.scopes = append(g.scopes, nil) }
func (g *gctx) pop()        { g.scopes = g.scopes[:len(g.scopes)-1] }
func (g *gctx) add(l local) { g.scopes[len(g.scopes)-1] = append(g.scopes[len(g.scopes)-1], l) }
func (g *gctx) fresh(p string) string {
	g.nLocal++
	return fmt.Sprintf("%s%d", p, g.nLocal)
}

func (g *gctx) visible(role string) []local {
	seen := map[string]bool{}
	var out []local
	for i := len(g.scopes) - 1; i >= 0; i-- {
		sc := g.scopes[i]
		for j := len(sc) - 1; j >= 0; j-- {
			l := sc[j]
			if seen[l.name] {
				continue
			}
			seen[l.name] = true
			if role == "" || l.role == role {
				out = append(out, l)
			}
		}
	}
	return out
}

func (g *gctx) pickLocal(role string) (local, bool) {
	v := g.visible(role)
	if len(v) == 0 {
		return local{}, false
	}
	return v[g.pick(len(v))], true
}

func (g *gctx) ctx() string {
	if len(g.region) == 0 {
		return ""
	}
	return g.region[len(g.region)-1]
}

var strAtoms = []string{"s1", "q", "zz", "", "12"}
var keyPool = []string{"p", "q", "w"}

func num(f float64) *Lit { return &Lit{V: f} }
func str(s string) *Lit  { return &Lit{V: s} }
func id(n string) *Ident { return &Ident{Name: n} }
func call(fn string, args ...Expr) *Call {
	c := &Call{Fn: id(fn)}
	for _, a := range args {
		c.Args = append(c.Args, Arg{E: a})
	}
	return c
}

func (g *gctx) literal() Expr {
	switch g.pickW(6, 3, 1, 1, 1) {
	case 0:
		return num(float64(g.pick(9)))
	case 1:
		return str(strAtoms[g.pick(len(strAtoms))])
	case 2:
		return &Lit{V: undef}
	case 3:
		return &Lit{V: null}
	}
	return &Lit{V: g.chance(1, 2)}
}

func (g *gctx) leaf() Expr {
	if l, ok := g.pickLocal("any"); ok && g.chance(3, 5) {
		return id(l.name)
	}
	if l, ok := g.pickLocal("ctr"); ok && g.chance(1, 4) {
		return id(l.name)
	}
	if g.method && !g.isHelper && g.chance(1, 8) {
		return &Member{O: &This{}, Name: "tag"}
	}
	if g.useArgs && !g.isHelper && g.chance(1, 8) {
		if g.chance(1, 3) {
			return &ArgLen{}
		}
		return &ArgAt{I: g.pick(4)}
	}
	return g.literal()
}

func (g *gctx) mkYield(arg Expr, star bool, pos string) *Yield {
	y := &Yield{Arg: arg, Star: star, Pos: pos, Site: g.sites}
	if c := g.ctx(); c != "" {
		y.Pos = pos + "@" + c
	}
	g.sites++
	return y
}

// iterable: an expression that (mostly) evaluates to something iterable.
func (g *gctx) iterable(depth int) Expr {
	switch g.pickW(3, 4, 4, 2, 1, 1, 1) {
	case 0:
		n := 1 + g.pick(3)
		a := &ArrLit{}
		for i := 0; i < n; i++ {
			a.Elems = append(a.Elems, Arg{E: g.exprD("arr-elem", depth+1)})
		}
		return a
	case 1:
		if g.nHelpers > 0 && !g.isHelper {
			return call(fmt.Sprintf("inn%d", g.pick(g.nHelpers)), id("me"), g.literal())
		}
		return g.mkIterCall()
	case 2:
		return g.mkIterCall()
	case 3:
		if l, ok := g.pickLocal("arr"); ok {
			return id(l.name)
		}
		return &ArrLit{Elems: []Arg{{E: num(1)}, {E: num(2)}}}
	case 4:
		return str("s1")
	case 5:
		if g.inGen {
			return g.mkYield(g.leaf(), false, "iterable-src")
		}
		return g.leaf()
	}
	return g.leaf()
}

func (g *gctx) mkIterCall() Expr {
	g.nIter++
	re := -1
	if len(g.reops) > 0 && g.chance(1, 5) {
		re = g.pick(len(g.reops))
	}
	rm := []int{0, 1, 1, 2, 3, 4, 5}[g.pick(7)]
	if NoThrowingIteratorClose && (rm == 3 || rm == 4) {
		rm = 1
	}
	tm := []int{0, 0, 1, 1, 2, 3, 4}[g.pick(7)]
	loose := 0.0
	if g.chance(1, 4) {
		loose = 1
	}
	return call("mkIter", id("me"), num(float64(g.nIter)), num(float64(1+g.pick(3))), num(float64(rm)), num(float64(tm)), num(float64(re)), num(loose))
}

func (g *gctx) expr(pos string) Expr { return g.exprD(pos, 0) }

func (g *gctx) exprD(pos string, depth int) Expr {
	g.budget--
	if depth >= 3 || g.budget <= 0 {
		if g.inGen && g.chance(1, 3) && g.budget > -20 {
			return g.mkYield(g.leaf(), false, pos)
		}
		return g.leaf()
	}
	yw := 0
	if g.inGen {
		yw = 9
	}
	d := depth + 1
	switch g.pickW(6, yw, yw/4, 4, 2, 1, 3, 3, 3, 2, 3, 4, 1, 1, 2) {
	case 0:
		return g.leaf()
	case 1:
		if g.chance(1, 6) {
			return g.mkYield(nil, false, pos)
		}
		return g.mkYield(g.exprD("yield-arg", d+1), false, pos)
	case 2:
		return g.mkYield(g.iterable(d), true, pos)
	case 3:
		ops := []string{"+", "+", "-", "*", "<", "===", "!==", ","}
		return &Bin{Op: ops[g.pick(len(ops))], L: g.exprD("bin-left", d), R: g.exprD("bin-right", d)}
	case 4:
		ops := []string{"&&", "||", "??"}
		return &Logic{Op: ops[g.pick(3)], L: g.exprD("logic-left", d), R: g.exprD("logic-right", d)}
	case 5:
		return &Cond{C: g.exprD("cond-test", d), A: g.exprD("cond-branch", d), B: g.exprD("cond-branch", d)}
	case 6: // call
		switch g.pickW(3, 3, 2, 2) {
		case 0:
			if l, ok := g.pickLocal("fn"); ok {
				c := &Call{Fn: id(l.name)}
				n := g.pick(3)
				for i := 0; i < n; i++ {
					c.Args = append(c.Args, Arg{E: g.exprD("call-arg", d)})
				}
				if g.chance(1, 4) {
					c.Args = append(c.Args, Arg{E: g.iterable(d), Spread: true})
					if g.inGen && g.chance(1, 2) {
						c.Args[len(c.Args)-1].E = g.mkYield(g.iterable(d+1), false, "call-spread")
					}
				}
				return c
			}
			fallthrough
		case 1: // IIFE arrow using its arguments
			saved := g.inGen
			c := &Call{}
			n := 1 + g.pick(2)
			var ps []Param
			g.push()
			for i := 0; i < n; i++ {
				nm := g.fresh("a")
				ps = append(ps, Param{Name: nm})
				g.add(local{nm, "any", "param"})
			}
			g.inGen = false
			body := g.exprD("arrow-body", d+1)
			g.inGen = saved
			g.pop()
			c.Fn = &FuncExpr{F: &Func{Kind: FArrow, Params: ps, ExprBody: body}}
			for i := 0; i < n; i++ {
				c.Args = append(c.Args, Arg{E: g.exprD("call-arg", d)})
			}
			return c
		case 2:
			if len(g.reops) > 0 && g.inGen {
				return call("drive", id("me"), num(float64(g.pick(len(g.reops)))))
			}
			fallthrough
		default:
			if l, ok := g.pickLocal("iter"); ok {
				kinds := []string{"next", "next", "next", "return", "throw"}
				return &Member{O: &Call{Fn: &Member{O: id(l.name), Name: kinds[g.pick(len(kinds))]}, Args: []Arg{{E: g.exprD("next-arg", d)}}}, Name: "value"}
			}
			return g.leaf()
		}
	case 7: // array literal
		a := &ArrLit{}
		n := 1 + g.pick(3)
		for i := 0; i < n; i++ {
			if g.chance(1, 5) {
				e := g.iterable(d)
				if g.inGen && g.chance(1, 2) {
					e = g.mkYield(e, false, "arr-spread")
				}
				a.Elems = append(a.Elems, Arg{E: e, Spread: true})
			} else {
				a.Elems = append(a.Elems, Arg{E: g.exprD("arr-elem", d)})
			}
		}
		return a
	case 8: // object literal
		o := &ObjLit{}
		n := 1 + g.pick(3)
		for i := 0; i < n; i++ {
			switch g.pickW(4, 3, 1) {
			case 0:
				o.Props = append(o.Props, Prop{Name: keyPool[g.pick(len(keyPool))], Val: g.exprD("obj-val", d)})
			case 1:
				o.Props = append(o.Props, Prop{Computed: g.exprD("obj-key", d), Val: g.exprD("obj-val", d)})
			default:
				o.Props = append(o.Props, Prop{Spread: true, Val: g.exprD("obj-spread", d)})
			}
		}
		return o
	case 9: // template
		t := &Tmpl{}
		n := 1 + g.pick(2)
		chunks := []string{"", "-", ":"}
		if NoDashChunk {
			chunks[1] = ":"
		}
		for i := 0; i < n; i++ {
			t.Strs = append(t.Strs, chunks[g.pick(3)])
			t.Subs = append(t.Subs, g.exprD("tmpl", d))
		}
		t.Strs = append(t.Strs, chunks[g.pick(3)])
		return t
	case 10: // member read
		switch g.pickW(3, 2, 2) {
		case 0:
			if l, ok := g.pickLocal("obj"); ok {
				if g.chance(1, 2) {
					return &Member{O: id(l.name), Name: keyPool[g.pick(len(keyPool))]}
				}
				return &Member{O: id(l.name), Computed: g.exprD("member-key", d)}
			}
			fallthrough
		case 1:
			return &Member{O: g.exprD("member-obj", d), Name: keyPool[g.pick(len(keyPool))]}
		default:
			return &Member{O: g.exprD("member-obj", d), Computed: g.exprD("member-key", d)}
		}
	case 11: // assignment
		switch g.pickW(4, 2, 2) {
		case 0:
			if l, ok := g.pickAssignable(); ok {
				op, p := g.assignOp()
				if NoLogicalAssignToLocals && p == "logic-assign-rhs" {
					op, p = "=", "assign-rhs"
				}
				return &Assign{Op: op, Target: id(l.name), V: g.exprD(p, d)}
			}
			fallthrough
		case 1:
			if l, ok := g.pickLocal("obj"); ok {
				op, p := g.assignOp()
				return &Assign{Op: op, Target: &Member{O: id(l.name), Name: keyPool[g.pick(len(keyPool))]}, V: g.exprD(p, d)}
			}
			fallthrough
		default:
			if l, ok := g.pickLocal("obj"); ok {
				op, p := g.assignOp()
				return &Assign{Op: op, Target: &Member{O: id(l.name), Computed: g.exprD("assign-key", d)}, V: g.exprD(p, d)}
			}
			return g.leaf()
		}
	case 14: // destructuring assignment with identifier / member targets
		if pat := g.assignPattern(0); pat != nil {
			var src Expr
			if _, isArr := pat.(*PArr); isArr {
				src = g.iterable(d)
			} else {
				src = g.exprD("destr-assign-src", d)
			}
			return &AssignPat{Target: pat, V: src}
		}
		return g.leaf()
	case 12:
		ops := []string{"!", "-", "void"}
		return &Unary{Op: ops[g.pick(3)], X: g.exprD("unary", d)}
	default:
		if l, ok := g.pickLocal("exc"); ok {
			return &Bin{Op: "===", L: id(l.name), R: g.leaf()}
		}
		return g.leaf()
	}
}

func (g *gctx) assignOp() (op, pos string) {
	switch g.pickW(5, 2, 1, 1, 1) {
	case 0:
		return "=", "assign-rhs"
	case 1:
		return "+=", "compound-rhs"
	case 2:
		return "||=", "logic-assign-rhs"
	case 3:
		return "&&=", "logic-assign-rhs"
	}
	return "??=", "logic-assign-rhs"
}

// assignTarget: an identifier or member target of a destructuring assignment (nil if nothing is assignable here).
func (g *gctx) assignTarget() Pattern {
	if l, ok := g.pickLocal("obj"); ok && g.chance(3, 5) {
		if g.chance(1, 2) {
			return &PMember{O: l.name, Name: keyPool[g.pick(len(keyPool))]}
		}
		return &PMember{O: l.name, Computed: g.exprD("destr-assign-key", 2)}
	}
	if l, ok := g.pickAssignable(); ok {
		return &PIdent{Name: l.name}
	}
	if l, ok := g.pickLocal("obj"); ok {
		return &PMember{O: l.name, Name: keyPool[g.pick(len(keyPool))]}
	}
	return nil
}

func (g *gctx) assignPattern(depth int) Pattern {
	if g.assignTarget() == nil {
		return nil
	}
	sub := func() Pattern {
		if depth < 1 && g.chance(1, 4) {
			return g.assignPattern(depth + 1)
		}
		return g.assignTarget()
	}
	if g.chance(3, 5) {
		p := &PArr{}
		for k := 1 + g.pick(3); k > 0; k-- {
			el := PElem{Target: sub()}
			if g.chance(1, 2) {
				el.Default = g.exprD("destr-assign-default", 2)
			}
			p.Elems = append(p.Elems, el)
		}
		if g.chance(1, 4) {
			p.Rest = g.assignTarget()
		}
		return p
	}
	p := &PObj{}
	for k := 1 + g.pick(2); k > 0; k-- {
		pp := PProp{Key: keyPool[g.pick(len(keyPool))]}
		if g.chance(1, 3) {
			pp.Computed = g.exprD("destr-key", 2)
		}
		pp.Target = sub()
		if _, isArr := pp.Target.(*PArr); !isArr && g.chance(1, 2) {
			pp.Default = g.exprD("destr-assign-default", 2)
		}
		p.Props = append(p.Props, pp)
	}
	return p
}

func (g *gctx) pickAssignable() (local, bool) {
	var c []local
	for _, l := range g.visible("any") {
		if l.kind == "let" || l.kind == "var" {
			c = append(c, l)
		}
	}
	if len(c) == 0 {
		return local{}, false
	}
	return c[g.pick(len(c))], true
}

// ---------------------------------------------------------------- statements

func (g *gctx) block(n int) *Block {
	g.push()
	b := &Block{Body: g.stmts(n)}
	g.pop()
	return b
}

func (g *gctx) stmts(n int) []Stmt {
	var out []Stmt
	for i := 0; i < n && g.budget > 0; i++ {
		out = append(out, g.stmt()...)
	}
	return out
}

func (g *gctx) logStmt() Stmt {
	c := call("log")
	n := 1 + g.pick(2)
	for i := 0; i < n; i++ {
		if l, ok := g.pickLocal(""); ok && g.chance(1, 3) && l.role != "fn" && l.role != "iter" {
			c.Args = append(c.Args, Arg{E: id(l.name)})
		} else {
			c.Args = append(c.Args, Arg{E: g.expr("call-arg")})
		}
	}
	return &ExprS{E: c}
}

func (g *gctx) declName(kindHint string, taken ...local) (name, kind string) {
	kind = kindHint
	if kind == "" {
		kind = []string{"let", "let", "const", "var"}[g.pick(4)]
	}
	if kind == "var" {
		return g.fresh("v"), kind
	}
	// shadow an outer let/const/param occasionally (never a name of the current block)
	if len(g.scopes) > 1 && g.chance(1, 8) {
		cur := map[string]bool{}
		for _, l := range g.scopes[len(g.scopes)-1] {
			cur[l.name] = true
		}
		for _, l := range taken {
			cur[l.name] = true
		}
		var cands []local
		for _, sc := range g.scopes[:len(g.scopes)-1] {
			for _, l := range sc {
				if !cur[l.name] && l.kind != "var" && l.name != "me" {
					cands = append(cands, l)
				}
			}
		}
		if len(cands) > 0 && len(g.scopes) > 2 { // not directly in the function's top-level block (parameters live there)
			return cands[g.pick(len(cands))].name, kind
		}
	}
	return g.fresh("x"), kind
}

func (g *gctx) pattern(kind string, depth int, out *[]local) Pattern {
	if depth >= 2 || g.chance(1, 2) {
		n, _ := g.declName(kind, *out...)
		*out = append(*out, local{n, "any", kind})
		return &PIdent{Name: n}
	}
	if g.chance(1, 2) {
		p := &PArr{}
		k := 1 + g.pick(3)
		for i := 0; i < k; i++ {
			el := PElem{Target: g.pattern(kind, depth+1, out)}
			if g.chance(1, 2) {
				el.Default = g.exprD("destr-default", 1)
			}
			p.Elems = append(p.Elems, el)
		}
		if g.chance(1, 4) {
			n, _ := g.declName(kind, *out...)
			*out = append(*out, local{n, "arr", kind})
			p.Rest = &PIdent{Name: n}
		}
		return p
	}
	p := &PObj{}
	k := 1 + g.pick(2)
	for i := 0; i < k; i++ {
		pp := PProp{Key: keyPool[g.pick(len(keyPool))]}
		if g.chance(1, 3) {
			pp.Computed = g.exprD("destr-key", 1)
		}
		pp.Target = g.pattern(kind, depth+1, out)
		if g.chance(1, 2) {
			pp.Default = g.exprD("destr-default", 1)
		}
		p.Props = append(p.Props, pp)
	}
	return p
}

func isIdentPattern(p Pattern) bool { _, ok := p.(*PIdent); return ok }

func (g *gctx) stmt() []Stmt {
	g.budget--
	nest := len(g.scopes)
	deep := nest >= 5
	w := []int{8, 7, 5, 3, 3, 4, 3, 8, 1, 1, 2, 3, 2, 2, 2}
	if deep {
		w[3], w[4], w[5], w[6], w[7] = 0, 0, 0, 0, 1
	}
	switch g.pickW(w...) {
	case 0: // declaration
		switch g.pickW(6, 3, 2, 2, 2) {
		case 0:
			n, k := g.declName("")
			init := g.expr("decl-init")
			g.add(local{n, "any", k})
			return []Stmt{&Decl{Kind: k, Target: &PIdent{Name: n}, Init: init}}
		case 1: // destructuring
			k := []string{"let", "const", "var"}[g.pick(3)]
			var src Expr
			var ls []local
			var pat Pattern
			for {
				ls = nil
				pat = g.pattern(k, 0, &ls)
				if !isIdentPattern(pat) {
					break
				}
			}
			if _, isArr := pat.(*PArr); isArr {
				src = g.iterable(1)
			} else if l, ok := g.pickLocal("obj"); ok && g.chance(1, 2) {
				src = id(l.name)
			} else {
				src = g.exprD("destr-src", 1)
			}
			for _, l := range ls {
				g.add(l)
			}
			return []Stmt{&Decl{Kind: k, Target: pat, Init: src}}
		case 2: // const object
			n := g.fresh("o")
			o := &ObjLit{Props: []Prop{{Name: "p", Val: g.exprD("obj-val", 1)}}}
			if g.chance(1, 2) {
				o.Props = append(o.Props, Prop{Computed: g.exprD("obj-key", 1), Val: g.exprD("obj-val", 1)})
			}
			g.add(local{n, "obj", "const"})
			return []Stmt{&Decl{Kind: "const", Target: &PIdent{Name: n}, Init: o}}
		case 3: // const array
			n := g.fresh("r")
			a := &ArrLit{}
			for i := g.pick(3); i > 0; i-- {
				a.Elems = append(a.Elems, Arg{E: g.exprD("arr-elem", 1)})
			}
			g.add(local{n, "arr", "const"})
			return []Stmt{&Decl{Kind: "const", Target: &PIdent{Name: n}, Init: a}}
		default: // closure capturing (and possibly mutating) locals
			return g.closureDecl()
		}
	case 1:
		return []Stmt{g.logStmt()}
	case 2:
		return []Stmt{&ExprS{E: g.expr("stmt")}}
	case 3: // if
		s := &If{C: g.expr("if-cond"), Then: g.block(1 + g.pick(2))}
		if g.chance(1, 2) {
			s.Else = g.block(1 + g.pick(2))
		}
		return []Stmt{s}
	case 4: // while / do-while with a trip counter
		c := g.fresh("c")
		g.add(local{c, "ctr", "let"})
		bound := &Bin{Op: "<", L: &Update{Name: c}, R: num(float64(1 + g.pick(3)))}
		var cond Expr = bound
		doWhile := g.chance(1, 3)
		pos := "while-cond"
		if doWhile {
			pos = "dowhile-cond"
		}
		if g.chance(2, 3) {
			cond = &Logic{Op: "&&", L: bound, R: g.exprD(pos, 1)}
		}
		body := g.loopBody()
		decl := &Decl{Kind: "let", Target: &PIdent{Name: c}, Init: num(0)}
		if doWhile {
			return []Stmt{decl, g.maybeLabel(&DoWhile{Body: body, C: cond})}
		}
		return []Stmt{decl, g.maybeLabel(&While{C: cond, Body: body})}
	case 5: // for with per-iteration let binding
		g.push()
		i := g.fresh("i")
		kind := "let"
		if g.chance(1, 5) {
			kind = "var"
		}
		var init Expr = num(0)
		if g.chance(1, 3) {
			init = g.exprD("for-init", 1)
		}
		g.add(local{i, "ctr", kind})
		var cond Expr = &Bin{Op: "<", L: id(i), R: num(float64(1 + g.pick(3)))}
		if g.chance(1, 2) {
			cond = &Logic{Op: "&&", L: cond, R: g.exprD("for-cond", 1)}
		}
		var upd Expr = &Update{Name: i}
		if g.chance(1, 2) {
			upd = &Bin{Op: ",", L: &Update{Name: i, Prefix: true}, R: g.exprD("for-update", 1)}
		}
		var pre []Stmt
		var fs string
		if g.chance(1, 3) { // closures over the per-iteration binding, read after the loop (and after resumptions)
			fs = g.fresh("r")
			pre = append(pre, &Decl{Kind: "const", Target: &PIdent{Name: fs}, Init: &ArrLit{}})
		}
		body := g.loopBody()
		if fs != "" {
			b := body.(*Block)
			push := &ExprS{E: &Call{Fn: &Member{O: id(fs), Name: "push"}, Args: []Arg{{E: &FuncExpr{F: &Func{Kind: FArrow, ExprBody: id(i)}}}}}}
			if g.chance(1, 2) {
				b.Body = append([]Stmt{push}, b.Body...)
			} else {
				b.Body = append(b.Body, push)
			}
		}
		g.pop()
		f := &For{Init: &Decl{Kind: kind, Target: &PIdent{Name: i}, Init: init}, Cond: cond, Update: upd, Body: body}
		out := append(pre, g.maybeLabel(f))
		if fs != "" {
			fv := g.fresh("f")
			out = append(out, &ForOf{Kind: "const", Target: &PIdent{Name: fv}, Iter: id(fs), Body: &Block{Body: []Stmt{&ExprS{E: call("log", &Call{Fn: id(fv)})}}}})
		}
		return out
	case 6: // for-of
		g.push()
		kind := []string{"let", "const", "var"}[g.pick(3)]
		var ls []local
		pat := g.pattern(kind, 1, &ls)
		var iter Expr
		if !isIdentPattern(pat) {
			// elements must themselves be destructurable
			iter = &ArrLit{Elems: []Arg{{E: &ArrLit{Elems: []Arg{{E: g.exprD("arr-elem", 2)}, {E: num(2)}}}}, {E: g.exprD("arr-elem", 2)}}}
		} else {
			iter = g.iterable(1)
			if g.inGen && g.chance(1, 5) {
				iter = g.mkYield(iter, false, "forof-iter")
			}
		}
		for _, l := range ls {
			g.add(l)
		}
		body := g.loopBody()
		g.pop()
		return []Stmt{g.maybeLabel(&ForOf{Kind: kind, Target: pat, Iter: iter, Body: body})}
	case 7: // try
		t := &Try{}
		g.region = append(g.region, "try")
		t.Block = g.block(1 + g.pick(3))
		g.region = g.region[:len(g.region)-1]
		form := g.pickW(3, 4, 4)
		if form != 1 {
			g.region = append(g.region, "catch")
			g.push()
			if g.chance(4, 5) {
				e := g.fresh("e")
				t.Param = &PIdent{Name: e}
				g.add(local{e, "exc", "let"})
			}
			t.Catch = &Block{Body: g.stmts(1 + g.pick(2))}
			g.pop()
			g.region = g.region[:len(g.region)-1]
		}
		if form != 0 {
			g.region = append(g.region, "finally")
			t.Finally = g.block(1 + g.pick(2))
			g.region = g.region[:len(g.region)-1]
		}
		return []Stmt{t}
	case 8: // throw
		if l, ok := g.pickLocal("exc"); ok && g.chance(1, 2) {
			return []Stmt{&Throw{E: id(l.name)}}
		}
		return []Stmt{&If{C: g.expr("if-cond"), Then: &Block{Body: []Stmt{&Throw{E: g.expr("throw-arg")}}}}}
	case 9: // return
		r := &Return{}
		if g.chance(3, 4) {
			r.E = g.expr("return-arg")
			if g.inGen && !g.isHelper && g.chance(1, 2) {
				r.E = &AwRaw{Arg: g.leaf(), Site: g.sites}
				g.sites++
			}
		}
		if g.chance(2, 3) {
			return []Stmt{&If{C: g.expr("if-cond"), Then: &Block{Body: []Stmt{r}}}}
		}
		return []Stmt{r}
	case 10: // break / continue
		if g.loops == 0 && len(g.labels) == 0 {
			return []Stmt{g.logStmt()}
		}
		var s Stmt
		switch {
		case len(g.labels) > 0 && g.chance(1, 2):
			s = &Break{Label: g.labels[g.pick(len(g.labels))]}
		case g.loops > 0 && g.chance(1, 2):
			s = &Continue{}
		case g.loops > 0:
			s = &Break{}
		default:
			s = &Break{Label: g.labels[g.pick(len(g.labels))]}
		}
		return []Stmt{&If{C: g.expr("if-cond"), Then: &Block{Body: []Stmt{s}}}}
	case 11: // switch
		sw := &Switch{Disc: g.expr("switch-disc")}
		n := 1 + g.pick(3)
		defAt := -1
		if g.chance(2, 3) {
			defAt = g.pick(n + 1)
		}
		g.region = append(g.region, "switch")
		for i := 0; i <= n; i++ {
			var c Case
			if i == defAt {
				c.Test = nil
			} else if i == n {
				break
			} else {
				c.Test = g.exprD("switch-case", 1)
			}
			c.Body = []Stmt{g.block(1 + g.pick(2))}
			if g.chance(2, 3) {
				c.Body = append(c.Body, &Break{})
			}
			sw.Cases = append(sw.Cases, c)
		}
		g.region = g.region[:len(g.region)-1]
		return []Stmt{sw}
	case 12: // labelled block
		g.nLabel++
		l := fmt.Sprintf("L%d", g.nLabel)
		g.labels = append(g.labels, l)
		b := g.block(1 + g.pick(3))
		g.labels = g.labels[:len(g.labels)-1]
		return []Stmt{&Labeled{Label: l, S: b}}
	case 13: // manual iteration of a helper generator / hand-written iterator
		if !g.inGen {
			return []Stmt{g.logStmt()}
		}
		n := g.fresh("t")
		var init Expr
		if g.nHelpers > 0 && !g.isHelper && g.chance(2, 3) {
			init = call(fmt.Sprintf("inn%d", g.pick(g.nHelpers)), id("me"), g.literal())
		} else {
			init = g.mkIterCall()
		}
		g.add(local{n, "iter", "const"})
		return []Stmt{&Decl{Kind: "const", Target: &PIdent{Name: n}, Init: init},
			&ExprS{E: call("log", &Call{Fn: &Member{O: id(n), Name: "next"}, Args: []Arg{{E: g.expr("next-arg")}}})}}
	default: // re-entrant driver call
		if len(g.reops) > 0 && g.inGen {
			return []Stmt{&ExprS{E: call("drive", id("me"), num(float64(g.pick(len(g.reops)))))}}
		}
		if l, ok := g.pickLocal("arr"); ok {
			return []Stmt{&ExprS{E: &Call{Fn: &Member{O: id(l.name), Name: "push"}, Args: []Arg{{E: g.expr("method-arg")}}}}}
		}
		return []Stmt{g.logStmt()}
	}
}

func (g *gctx) maybeLabel(s Stmt) Stmt { return s }

func (g *gctx) loopBody() Stmt {
	g.loops++
	g.region = append(g.region, "loop")
	s := g.block(1 + g.pick(3))
	g.region = g.region[:len(g.region)-1]
	g.loops--
	return s
}

func (g *gctx) closureDecl() []Stmt {
	n := g.fresh("f")
	saved := g.inGen
	savedLoops, savedLabels := g.loops, g.labels
	g.inGen, g.loops, g.labels = false, 0, nil
	var f *Func
	switch g.pickW(3, 3, 2) {
	case 0: // reads a captured local
		var body Expr
		if l, ok := g.pickLocal("any"); ok {
			body = id(l.name)
			if g.chance(1, 2) {
				body = &ArrLit{Elems: []Arg{{E: id(l.name)}, {E: g.leaf()}}}
			}
		} else {
			body = g.leaf()
		}
		f = &Func{Kind: FArrow, ExprBody: body}
	case 1: // mutates a captured local
		p := g.fresh("a")
		if l, ok := g.pickAssignable(); ok {
			f = &Func{Kind: FArrow, Params: []Param{{Name: p}}, ExprBody: &Assign{Op: []string{"=", "+="}[g.pick(2)], Target: id(l.name), V: id(p)}}
		} else {
			f = &Func{Kind: FArrow, Params: []Param{{Name: p}}, ExprBody: &Bin{Op: "+", L: id(p), R: num(1)}}
		}
	default: // block-bodied arrow with its own locals
		g.push()
		p := g.fresh("a")
		g.add(local{p, "any", "param"})
		body := g.stmts(1 + g.pick(2))
		body = append(body, &Return{E: g.exprD("return-arg", 1)})
		g.pop()
		f = &Func{Kind: FArrow, Params: []Param{{Name: p}}, Body: body}
	}
	g.inGen, g.loops, g.labels = saved, savedLoops, savedLabels
	g.add(local{n, "fn", "const"})
	return []Stmt{&Decl{Kind: "const", Target: &PIdent{Name: n}, Init: &FuncExpr{F: f}}}
}

// ---------------------------------------------------------------- programs and histories

func (g *gctx) function(name string, kind FuncKind, params []string, nStmts, budget int) *Func {
	g.budget = budget
	g.scopes = nil
	g.push()
	f := &Func{Kind: kind, Name: name}
	for _, p := range params {
		f.Params = append(f.Params, Param{Name: p})
		role := "any"
		if p == "me" {
			role = "me"
		}
		g.add(local{p, role, "param"})
	}
	g.inGen = true
	g.push()
	f.Body = g.stmts(nStmts)
	g.pop()
	g.pop()
	return f
}

// GenProgram generates a subject generator function with helpers and a re-entrant op table.
func GenProgram(r Rand) *Program {
	g := &gctx{r: r}
	p := &Program{}
	kinds := []string{"next", "next", "throw", "return"}
	for i := g.pick(4); i > 0; i-- {
		op := ReOp{Other: g.chance(1, 3), Kind: kinds[g.pick(4)], Val: g.pick(NumV), Rethrow: g.chance(1, 2), ViaGo: g.chance(1, 3)}
		if SingleReturnPerInstance && op.Kind == "return" {
			op.Kind = "next"
		}
		g.reops = append(g.reops, op)
		if op.Other {
			g.twoInst = true
		}
	}
	p.ReOps = g.reops
	nh := g.pick(3)
	savedReops := g.reops
	if NoDriveInHelpers {
		g.reops = nil
	}
	for i := 0; i < nh; i++ {
		g.isHelper = true
		h := g.function(fmt.Sprintf("inn%d", i), FGenerator, []string{"me", "a"}, 2+g.pick(3), 14+g.pick(10))
		p.Helpers = append(p.Helpers, h)
	}
	g.reops = savedReops
	g.isHelper = false
	g.nHelpers = nh
	g.method = g.chance(1, 4)
	g.useArgs = g.chance(1, 3)
	p.Subject = g.function("gen", FGenerator, []string{"me", "a", "b"}, 3+g.pick(5), 30+g.pick(40))
	if g.chance(1, 3) { // explicit final result (async: the function returns a promise / thenable / plain value)
		p.Subject.Body = append(p.Subject.Body, &Return{E: &AwRaw{Arg: g.literal(), Site: g.sites}})
		g.sites++
	}
	p.Subject.Method = g.method
	p.Subject.Strict = g.chance(1, 4)
	for i := 0; i < g.sites; i++ {
		p.AwModes = append(p.AwModes, []int{0, 1, 1, 2, 2, 2, 3, 4, 5, 6, 7}[g.pick(11)])
	}
	return p
}

// AsAsync returns the same program with the subject turned into an async function (yield -> await AW(site, ·)).
func (p *Program) AsAsync() *Program {
	q := *p
	s := *p.Subject
	s.Kind = FAsync
	q.Subject = &s
	return &q
}

// UsesOther reports whether some re-entrant op targets the other instance.
func (p *Program) UsesOther() bool {
	for _, r := range p.ReOps {
		if r.Other {
			return true
		}
	}
	return false
}

// GenHistory: 1..6 driver ops over {next(v), throw(e), return(v)}.
func GenHistory(r Rand, twoInst bool) []Op {
	n := 1 + r.Intn(6)
	var ops []Op
	var returned [2]bool
	for i := 0; i < n; i++ {
		k := "next"
		switch x := r.Intn(20); {
		case x < 11 || (i == 0 && x < 18):
		case x < 15:
			k = "throw"
		default:
			k = "return"
		}
		slot := 0
		if twoInst && r.Intn(6) == 0 {
			slot = 1
		}
		if SingleReturnPerInstance && k == "return" {
			if returned[slot] {
				k = "next"
			}
			returned[slot] = true
		}
		ops = append(ops, Op{Slot: slot, Kind: k, Val: r.Intn(NumV)})
	}
	return ops
}

// GenAsyncHistory: groups of ops {call, settle, tick}; at most 8 ops in total, first group starts with a call.
func GenAsyncHistory(r Rand) [][]AOp {
	var groups [][]AOp
	total := 0
	ng := 2 + r.Intn(4)
	called := [2]bool{}
	for gi := 0; gi < ng && total < 9; gi++ {
		var grp []AOp
		n := 1 + r.Intn(3)
		for i := 0; i < n && total < 9; i++ {
			var op AOp
			switch x := r.Intn(10); {
			case gi == 0 && i == 0:
				op = AOp{Kind: "call", A: 0, B: r.Intn(NumV), C: r.Intn(NumV)}
				called[0] = true
			case x < 2 && !called[1]:
				op = AOp{Kind: "call", A: 1, B: r.Intn(NumV), C: r.Intn(NumV)}
				called[1] = true
			case x < 4:
				op = AOp{Kind: "tick", A: 1 + r.Intn(5), B: total}
			default:
				op = AOp{Kind: "settle", A: r.Intn(4), B: []int{0, 0, 0, 1, 2, 3}[r.Intn(6)], C: r.Intn(NumV)}
			}
			grp = append(grp, op)
			total++
		}
		groups = append(groups, grp)
	}
	return groups
}
