package genref

import (
	"fmt"
	"strconv"
	"strings"
)

// ---------------------------------------------------------------- AST

type Expr interface{}
type Stmt interface{}

type Lit struct{ V Value } // undefined, null, bool, number, string
type Ident struct{ Name string }
type This struct{}
type ArgAt struct{ I int } // arguments[I]
type ArgLen struct{}       // arguments.length

// Yield: `yield Arg` / `yield* Arg`; in an async function it is printed and evaluated as `await AW(Site, Arg)`.
type Yield struct {
	Arg  Expr // may be nil (plain `yield`)
	Star bool
	Pos  string // expression-position kind of this yield (evidence)
	Site int    // static site number (async: selects the await mode)
}

// AwRaw: in the async subject `AW(Site, Arg)` WITHOUT await (used as a return value: the async function then returns
// a promise / thenable, which costs extra ticks); in a generator it is just Arg.
type AwRaw struct {
	Arg  Expr
	Site int
}
type Bin struct {
	Op   string // + - * < === !== ,
	L, R Expr
}
type Logic struct {
	Op   string // && || ??
	L, R Expr
}
type Unary struct {
	Op string // ! - void typeof(not used)
	X  Expr
}
type Cond struct{ C, A, B Expr }
type Assign struct {
	Op     string // = +=
	Target Expr   // *Ident or *Member
	V      Expr
}

// AssignPat: destructuring assignment expression `([o.p = d, x] = V)` / `({k: o[q] = d} = V)`.
type AssignPat struct {
	Target Pattern // *PArr or *PObj whose leaf targets are *PIdent or *PMember
	V      Expr
}
type Update struct { // x++ / ++x
	Name   string
	Prefix bool
}
type Arg struct {
	E      Expr
	Spread bool
}
type Call struct {
	Fn   Expr
	Args []Arg
}
type ArrLit struct{ Elems []Arg }
type Prop struct {
	Name     string // static key (when Computed == nil and !Spread)
	Computed Expr
	Spread   bool
	Val      Expr
}
type ObjLit struct{ Props []Prop }
type Tmpl struct {
	Strs []string // len(Subs)+1
	Subs []Expr
}
type Member struct {
	O        Expr
	Name     string
	Computed Expr
}
type FuncExpr struct{ F *Func }

type FuncKind int

const (
	FArrow FuncKind = iota
	FNormal
	FGenerator
	FAsync
)

type Param struct {
	Name    string
	Default Expr
}
type Func struct {
	Kind     FuncKind
	Name     string
	Params   []Param
	Body     []Stmt
	ExprBody Expr // arrows: `=> expr`
	Method   bool // printed as a method of the HOLDER object (`this` = HOLDER)
	Strict   bool // body starts with "use strict"
}

// patterns
type PIdent struct{ Name string }

// PMember: member target of a destructuring assignment: O.Name / O[Computed] (O is a local bound to an object)
type PMember struct {
	O        string
	Name     string
	Computed Expr
}
type PElem struct {
	Target  Pattern
	Default Expr
}
type PArr struct {
	Elems []PElem
	Rest  Pattern
}
type PProp struct {
	Key      string
	Computed Expr
	Target   Pattern
	Default  Expr
}
type PObj struct{ Props []PProp }
type Pattern interface{}

// statements
type Decl struct {
	Kind   string // let const var
	Target Pattern
	Init   Expr // may be nil for let/var identifiers
}
type ExprS struct{ E Expr }
type If struct {
	C    Expr
	Then Stmt
	Else Stmt
}
type While struct {
	C    Expr
	Body Stmt
}
type DoWhile struct {
	Body Stmt
	C    Expr
}
type For struct {
	Init   Stmt // *Decl, *ExprS or nil
	Cond   Expr
	Update Expr
	Body   Stmt
}
type ForOf struct {
	Kind   string // let const var
	Target Pattern
	Iter   Expr
	Body   Stmt
}
type Case struct {
	Test Expr // nil = default
	Body []Stmt
}
type Switch struct {
	Disc  Expr
	Cases []Case
}
type Try struct {
	Block   *Block
	Param   Pattern // nil = no binding
	Catch   *Block  // nil = no catch
	Finally *Block  // nil = no finally
}
type Throw struct{ E Expr }
type Return struct{ E Expr }
type Break struct{ Label string }
type Continue struct{ Label string }
type Labeled struct {
	Label string
	S     Stmt
}
type Block struct{ Body []Stmt }

// Program: the subject function (generator, or the same body as an async function), helper generator
// functions, and the table of re-entrant driver operations the body may issue through drive(me, k).
type Program struct {
	Subject *Func
	Helpers []*Func
	ReOps   []ReOp
	AwModes []int // async: await mode per yield site (see AW in the prelude)
}

type ReOp struct {
	Other   bool   // target: the other instance (G[1-me]) instead of the running one
	Kind    string // next throw return
	Val     int    // index into V
	Rethrow bool
	ViaGo   bool // goja side: issued from a Go native through goja.AssertFunction (transparent to the model)
}

// ---------------------------------------------------------------- printer

type printer struct {
	b     strings.Builder
	async bool // inside the async subject: Yield prints as await AW(site, arg)
}

func quoteJS(s string) string { return strconv.Quote(s) }

func litJS(v Value) string {
	switch x := v.(type) {
	case Undef:
		return "undefined"
	case Null:
		return "null"
	case bool:
		if x {
			return "true"
		}
		return "false"
	case float64:
		if x < 0 || (x == 0 && 1/x < 0) {
			return "(" + strconv.FormatFloat(x, 'f', -1, 64) + ")"
		}
		return strconv.FormatFloat(x, 'f', -1, 64)
	case string:
		return quoteJS(x)
	}
	panic("litJS")
}

func (p *printer) w(s string) { p.b.WriteString(s) }

func (p *printer) args(as []Arg) {
	for i, a := range as {
		if i > 0 {
			p.w(", ")
		}
		if a.Spread {
			p.w("...")
		}
		p.expr(a.E)
	}
}

// every compound expression is fully parenthesised: precedence is never an issue.
func (p *printer) expr(e Expr) {
	switch x := e.(type) {
	case *Lit:
		p.w(litJS(x.V))
	case *Ident:
		p.w(x.Name)
	case *This:
		p.w("this")
	case *ArgAt:
		fmt.Fprintf(&p.b, "arguments[%d]", x.I)
	case *ArgLen:
		p.w("arguments.length")
	case *Yield:
		if p.async {
			fmt.Fprintf(&p.b, "(await AW(%d, ", x.Site)
			if x.Arg == nil {
				p.w("undefined")
			} else {
				p.expr(x.Arg)
			}
			p.w("))")
			return
		}
		p.w("(yield")
		if x.Star {
			p.w("*")
		}
		if x.Arg != nil {
			p.w(" ")
			p.expr(x.Arg)
		}
		p.w(")")
	case *AwRaw:
		if p.async {
			fmt.Fprintf(&p.b, "AW(%d, ", x.Site)
			p.expr(x.Arg)
			p.w(")")
		} else {
			p.expr(x.Arg)
		}
	case *Bin:
		p.w("(")
		p.expr(x.L)
		p.w(" " + x.Op + " ")
		p.expr(x.R)
		p.w(")")
	case *Logic:
		p.w("(")
		p.expr(x.L)
		p.w(" " + x.Op + " ")
		p.expr(x.R)
		p.w(")")
	case *Unary:
		p.w("(" + x.Op + " ")
		p.expr(x.X)
		p.w(")")
	case *Cond:
		p.w("(")
		p.expr(x.C)
		p.w(" ? ")
		p.expr(x.A)
		p.w(" : ")
		p.expr(x.B)
		p.w(")")
	case *Assign:
		p.w("(")
		p.expr(x.Target)
		p.w(" " + x.Op + " ")
		p.expr(x.V)
		p.w(")")
	case *AssignPat:
		p.w("(")
		p.pattern(x.Target)
		p.w(" = ")
		p.expr(x.V)
		p.w(")")
	case *Update:
		if x.Prefix {
			p.w("(++" + x.Name + ")")
		} else {
			p.w("(" + x.Name + "++)")
		}
	case *Call:
		p.expr(x.Fn)
		p.w("(")
		p.args(x.Args)
		p.w(")")
	case *ArrLit:
		p.w("[")
		p.args(x.Elems)
		p.w("]")
	case *ObjLit:
		p.w("({")
		for i, pr := range x.Props {
			if i > 0 {
				p.w(", ")
			}
			switch {
			case pr.Spread:
				p.w("...")
				p.expr(pr.Val)
			case pr.Computed != nil:
				p.w("[")
				p.expr(pr.Computed)
				p.w("]: ")
				p.expr(pr.Val)
			default:
				p.w(pr.Name + ": ")
				p.expr(pr.Val)
			}
		}
		p.w("})")
	case *Tmpl:
		p.w("`")
		for i, s := range x.Strs {
			p.w(s)
			if i < len(x.Subs) {
				p.w("${")
				p.expr(x.Subs[i])
				p.w("}")
			}
		}
		p.w("`")
	case *Member:
		if _, isLit := x.O.(*Lit); isLit {
			p.w("(")
			p.expr(x.O)
			p.w(")")
		} else {
			p.expr(x.O)
		}
		if x.Computed != nil {
			p.w("[")
			p.expr(x.Computed)
			p.w("]")
		} else {
			p.w("." + x.Name)
		}
	case *FuncExpr:
		p.w("(")
		p.fn(x.F, false)
		p.w(")")
	default:
		panic(fmt.Sprintf("printer: unknown expr %T", e))
	}
}

func (p *printer) pattern(pt Pattern) {
	switch x := pt.(type) {
	case *PIdent:
		p.w(x.Name)
	case *PMember:
		p.w(x.O)
		if x.Computed != nil {
			p.w("[")
			p.expr(x.Computed)
			p.w("]")
		} else {
			p.w("." + x.Name)
		}
	case *PArr:
		p.w("[")
		for i, el := range x.Elems {
			if i > 0 {
				p.w(", ")
			}
			p.pattern(el.Target)
			if el.Default != nil {
				p.w(" = ")
				p.expr(el.Default)
			}
		}
		if x.Rest != nil {
			if len(x.Elems) > 0 {
				p.w(", ")
			}
			p.w("...")
			p.pattern(x.Rest)
		}
		p.w("]")
	case *PObj:
		p.w("{")
		for i, pr := range x.Props {
			if i > 0 {
				p.w(", ")
			}
			if pr.Computed != nil {
				p.w("[")
				p.expr(pr.Computed)
				p.w("]")
			} else {
				p.w(pr.Key)
			}
			p.w(": ")
			p.pattern(pr.Target)
			if pr.Default != nil {
				p.w(" = ")
				p.expr(pr.Default)
			}
		}
		p.w("}")
	default:
		panic(fmt.Sprintf("printer: unknown pattern %T", pt))
	}
}

func (p *printer) fn(f *Func, decl bool) {
	saved := p.async
	switch f.Kind {
	case FArrow:
		p.async = false
		p.w("(")
		p.params(f.Params)
		p.w(") => ")
		if f.ExprBody != nil {
			p.expr(f.ExprBody)
		} else {
			p.block(f.Body)
		}
		p.async = saved
		return
	case FNormal:
		p.async = false
		if f.Method {
			p.w(f.Name)
		} else {
			p.w("function " + f.Name)
		}
	case FGenerator:
		p.async = false
		if f.Method {
			p.w("*" + f.Name)
		} else {
			p.w("function* " + f.Name)
		}
	case FAsync:
		p.async = true
		if f.Method {
			p.w("async " + f.Name)
		} else {
			p.w("async function " + f.Name)
		}
	}
	p.w("(")
	p.params(f.Params)
	p.w(") ")
	p.fnBody(f)
	p.async = saved
}

func (p *printer) params(ps []Param) {
	for i, pa := range ps {
		if i > 0 {
			p.w(", ")
		}
		p.w(pa.Name)
		if pa.Default != nil {
			p.w(" = ")
			p.expr(pa.Default)
		}
	}
}

func (p *printer) fnBody(f *Func) {
	if f.Strict {
		p.w("{ \"use strict\"; ")
		for _, s := range f.Body {
			p.stmt(s)
			p.w(" ")
		}
		p.w("}")
		return
	}
	p.block(f.Body)
}

func (p *printer) block(body []Stmt) {
	p.w("{ ")
	for _, s := range body {
		p.stmt(s)
		p.w(" ")
	}
	p.w("}")
}

func (p *printer) stmtAsBlock(s Stmt) {
	if b, ok := s.(*Block); ok {
		p.block(b.Body)
		return
	}
	p.block([]Stmt{s})
}

func (p *printer) decl(d *Decl) {
	p.w(d.Kind + " ")
	p.pattern(d.Target)
	if d.Init != nil {
		p.w(" = ")
		p.expr(d.Init)
	}
}

func (p *printer) stmt(s Stmt) {
	switch x := s.(type) {
	case *Decl:
		p.decl(x)
		p.w(";")
	case *ExprS:
		// an expression statement must not start with `{` or `function`; ours start with `(`, an identifier, a literal or `[`
		if _, isArr := x.E.(*ArrLit); isArr {
			p.w("(")
			p.expr(x.E)
			p.w(");")
		} else {
			p.expr(x.E)
			p.w(";")
		}
	case *If:
		p.w("if (")
		p.expr(x.C)
		p.w(") ")
		p.stmtAsBlock(x.Then)
		if x.Else != nil {
			p.w(" else ")
			p.stmtAsBlock(x.Else)
		}
	case *While:
		p.w("while (")
		p.expr(x.C)
		p.w(") ")
		p.stmtAsBlock(x.Body)
	case *DoWhile:
		p.w("do ")
		p.stmtAsBlock(x.Body)
		p.w(" while (")
		p.expr(x.C)
		p.w(");")
	case *For:
		p.w("for (")
		switch i := x.Init.(type) {
		case *Decl:
			p.decl(i)
		case *ExprS:
			p.expr(i.E)
		}
		p.w("; ")
		if x.Cond != nil {
			p.expr(x.Cond)
		}
		p.w("; ")
		if x.Update != nil {
			p.expr(x.Update)
		}
		p.w(") ")
		p.stmtAsBlock(x.Body)
	case *ForOf:
		p.w("for (" + x.Kind + " ")
		p.pattern(x.Target)
		p.w(" of ")
		p.expr(x.Iter)
		p.w(") ")
		p.stmtAsBlock(x.Body)
	case *Switch:
		p.w("switch (")
		p.expr(x.Disc)
		p.w(") { ")
		for _, c := range x.Cases {
			if c.Test == nil {
				p.w("default: ")
			} else {
				p.w("case ")
				p.expr(c.Test)
				p.w(": ")
			}
			for _, st := range c.Body {
				p.stmt(st)
				p.w(" ")
			}
		}
		p.w("}")
	case *Try:
		p.w("try ")
		p.block(x.Block.Body)
		if x.Catch != nil {
			p.w(" catch ")
			if x.Param != nil {
				p.w("(")
				p.pattern(x.Param)
				p.w(") ")
			}
			p.block(x.Catch.Body)
		}
		if x.Finally != nil {
			p.w(" finally ")
			p.block(x.Finally.Body)
		}
	case *Throw:
		p.w("throw ")
		p.expr(x.E)
		p.w(";")
	case *Return:
		p.w("return")
		if x.E != nil {
			p.w(" ")
			p.expr(x.E)
		}
		p.w(";")
	case *Break:
		p.w("break")
		if x.Label != "" {
			p.w(" " + x.Label)
		}
		p.w(";")
	case *Continue:
		p.w("continue")
		if x.Label != "" {
			p.w(" " + x.Label)
		}
		p.w(";")
	case *Labeled:
		p.w(x.Label + ": ")
		p.stmt(x.S)
	case *Block:
		p.block(x.Body)
	default:
		panic(fmt.Sprintf("printer: unknown stmt %T", s))
	}
}

// PrintFunc prints one function declaration (or, for Method functions, the method text without holder).
func PrintFunc(f *Func) string {
	var p printer
	p.fn(f, true)
	return p.b.String()
}

// Source prints the program part of a case: helper generator declarations and the subject
// (as `function* gen` / `async function gen`, or as a method of HOLDER), plus the REOPS / AWMODE tables.
func (pr *Program) Source() string {
	var b strings.Builder
	b.WriteString("var REOPS = [")
	for i, r := range pr.ReOps {
		if i > 0 {
			b.WriteString(", ")
		}
		fmt.Fprintf(&b, "{o:%v, kind:%q, v:%d, rethrow:%v, go:%v}", r.Other, r.Kind, r.Val, r.Rethrow, r.ViaGo)
	}
	b.WriteString("];\n")
	b.WriteString("var AWMODE = [")
	for i, m := range pr.AwModes {
		if i > 0 {
			b.WriteString(",")
		}
		fmt.Fprintf(&b, "%d", m)
	}
	b.WriteString("];\n")
	for _, h := range pr.Helpers {
		b.WriteString(PrintFunc(h))
		b.WriteString("\n")
	}
	if pr.Subject.Method {
		b.WriteString("var HOLDER = { tag: 41, ")
		b.WriteString(PrintFunc(pr.Subject))
		b.WriteString(" };\n")
		fmt.Fprintf(&b, "var gen = function (me, a, b) { return HOLDER.%s(me, a, b); };\n", pr.Subject.Name)
	} else {
		b.WriteString(PrintFunc(pr.Subject))
		b.WriteString("\n")
	}
	return b.String()
}

// StmtLists returns pointers to every statement list of a function body (for minimisation by deletion).
func StmtLists(f *Func) []*[]Stmt {
	var out []*[]Stmt
	var walkList func(l *[]Stmt)
	var walk func(s Stmt)
	walk = func(s Stmt) {
		switch x := s.(type) {
		case *If:
			walk(x.Then)
			if x.Else != nil {
				walk(x.Else)
			}
		case *While:
			walk(x.Body)
		case *DoWhile:
			walk(x.Body)
		case *For:
			walk(x.Body)
		case *ForOf:
			walk(x.Body)
		case *Switch:
			for i := range x.Cases {
				walkList(&x.Cases[i].Body)
			}
		case *Try:
			walkList(&x.Block.Body)
			if x.Catch != nil {
				walkList(&x.Catch.Body)
			}
			if x.Finally != nil {
				walkList(&x.Finally.Body)
			}
		case *Labeled:
			walk(x.S)
		case *Block:
			walkList(&x.Body)
		}
	}
	walkList = func(l *[]Stmt) {
		out = append(out, l)
		for _, s := range *l {
			walk(s)
		}
	}
	walkList(&f.Body)
	return out
}
