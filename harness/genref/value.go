// Package genref is a small definitional reference model for ECMAScript generators and async functions:
// own AST, printer to JS, random generator of bodies, and an interpreter written from the specification's
// generator state machine (ECMA-262 27.5 Generator Objects, 15.5 yield / yield*, 7.4 iterator operations,
// 27.2 Promise objects, 27.7.5 async function start / Await).  Suspension is implemented with strict
// goroutine hand-off (exactly one goroutine runs at any time), so the model is deterministic.
//
// Domain (checked dynamically: leaving it raises a *DomainError and the model is not consulted):
// numbers are integers with |x| < 2^53 (plus NaN, -0), strings are ASCII, objects are compared by identity,
// ToString/ToPrimitive is only defined for primitives, plain objects and arrays.
package genref

import (
	"fmt"
	"math"
	"sort"
	"strconv"
	"strings"
)

type Value interface{}

type Undef struct{}
type Null struct{}

var (
	undef Value = Undef{}
	null  Value = Null{}
)

type ObjKind int

const (
	KPlain ObjKind = iota
	KArray
	KFunc
	KGen
	KError
	KPromise
)

type Obj struct {
	Kind    ObjKind
	keys    []string // insertion order of string-keyed own properties (arrays: non-index props only)
	props   map[string]Value
	Arr     []Value // KArray elements
	SymIter Value   // own [Symbol.iterator] property (nil = absent)

	Fn      *Func // closure code
	Env     *Env  // closure environment
	This    Value // lexical this for arrows
	ThisSet bool  // arrow: captured this
	Native  func(in *Interp, this Value, args []Value) (Value, *Abrupt)
	FnArgs  []Value // arrow: captured arguments of the enclosing function
	ErrName string  // KError
	Gen     *genState
	Prom    *promState
}

func newObj(k ObjKind) *Obj { return &Obj{Kind: k} }

func isArrayIndex(k string) (int, bool) {
	if k == "" || len(k) > 10 {
		return 0, false
	}
	if k == "0" {
		return 0, true
	}
	if k[0] < '1' || k[0] > '9' {
		return 0, false
	}
	n := 0
	for i := 0; i < len(k); i++ {
		if k[i] < '0' || k[i] > '9' {
			return 0, false
		}
		n = n*10 + int(k[i]-'0')
	}
	if n >= 4294967295 {
		return 0, false
	}
	return n, true
}

func (o *Obj) getOwn(k string) (Value, bool) {
	if o.Kind == KArray {
		if i, ok := isArrayIndex(k); ok {
			if i < len(o.Arr) {
				return o.Arr[i], true
			}
			return nil, false
		}
		if k == "length" {
			return float64(len(o.Arr)), true
		}
	}
	v, ok := o.props[k]
	return v, ok
}

func (o *Obj) set(k string, v Value) {
	if o.props == nil {
		o.props = map[string]Value{}
	}
	if _, ok := o.props[k]; !ok {
		o.keys = append(o.keys, k)
	}
	o.props[k] = v
}

// ownKeys: OrdinaryOwnPropertyKeys order — integer indices ascending, then strings in creation order.
func (o *Obj) ownKeys() []string {
	var idx []int
	var rest []string
	if o.Kind == KArray {
		for i := range o.Arr {
			idx = append(idx, i)
		}
	}
	for _, k := range o.keys {
		if i, ok := isArrayIndex(k); ok {
			idx = append(idx, i)
		} else {
			rest = append(rest, k)
		}
	}
	sort.Ints(idx)
	res := make([]string, 0, len(idx)+len(rest))
	for _, i := range idx {
		res = append(res, strconv.Itoa(i))
	}
	return append(res, rest...)
}

func newArray(elems []Value) *Obj {
	return &Obj{Kind: KArray, Arr: elems}
}

func isCallable(v Value) bool {
	o, ok := v.(*Obj)
	return ok && o.Kind == KFunc
}

// DomainError: the program left the model's domain; the model's answer must not be used.
type DomainError struct{ Why string }

func (e *DomainError) Error() string { return "genref: outside model domain: " + e.Why }

func domain(why string) { panic(&DomainError{Why: why}) }

const maxSafe = 9007199254740992.0

func checkNum(f float64) float64 {
	if f != f {
		return f
	}
	if math.IsInf(f, 0) || f >= maxSafe || f <= -maxSafe || f != math.Trunc(f) {
		domain("number outside exact integer range")
	}
	return f
}

func numToString(f float64) string {
	if f != f {
		return "NaN"
	}
	if f == 0 {
		return "0"
	}
	checkNum(f)
	return strconv.FormatInt(int64(f), 10)
}

func truthy(v Value) bool {
	switch x := v.(type) {
	case Undef, Null:
		return false
	case bool:
		return x
	case float64:
		return !(x == 0 || x != x)
	case string:
		return x != ""
	}
	return true
}

// toPrimitive for the object kinds whose conversion is side-effect free and fixed by the spec.
func toPrimitive(v Value) Value {
	o, ok := v.(*Obj)
	if !ok {
		return v
	}
	switch o.Kind {
	case KPlain:
		if _, has := o.props["toString"]; has {
			domain("toString override")
		}
		if _, has := o.props["valueOf"]; has {
			domain("valueOf override")
		}
		if o.SymIter != nil || o.props["next"] != nil || o.props["then"] != nil {
			// still an ordinary object: "[object Object]"
		}
		return "[object Object]"
	case KArray:
		parts := make([]string, len(o.Arr))
		for i, e := range o.Arr {
			switch e.(type) {
			case Undef, Null:
				parts[i] = ""
			default:
				parts[i] = toString(e)
			}
		}
		return strings.Join(parts, ",")
	}
	domain("ToPrimitive of function/generator/error/promise object")
	return nil
}

func toString(v Value) string {
	switch x := v.(type) {
	case Undef:
		return "undefined"
	case Null:
		return "null"
	case bool:
		if x {
			return "true"
		}
		return "false"
	case float64:
		return numToString(x)
	case string:
		return x
	}
	return toString(toPrimitive(v))
}

func stringToNumber(s string) float64 {
	t := strings.Trim(s, " \t\n\r")
	if t == "" {
		return 0
	}
	// only plain decimal integers are inside the domain; anything with other characters is NaN unless it could be
	// some other numeric literal form, which the generator's alphabet cannot spell (no '.', 'e', 'x', 'I').
	neg := false
	u := t
	if u[0] == '-' || u[0] == '+' {
		neg = u[0] == '-'
		u = u[1:]
	}
	if u == "" {
		return math.NaN()
	}
	for i := 0; i < len(u); i++ {
		if u[i] < '0' || u[i] > '9' {
			for _, c := range []byte(u) {
				if c == '.' || c == 'e' || c == 'E' || c == 'x' || c == 'X' || c == 'I' || c == 'o' || c == 'b' || c == 'O' || c == 'B' || c == '_' {
					domain("string to number with non-integer syntax")
				}
			}
			return math.NaN()
		}
	}
	f, err := strconv.ParseFloat(u, 64)
	if err != nil {
		domain("string to number")
	}
	if neg {
		f = -f
	}
	if f == 0 && neg {
		return math.Copysign(0, -1)
	}
	return checkNum(f)
}

func toNumber(v Value) float64 {
	switch x := v.(type) {
	case Undef:
		return math.NaN()
	case Null:
		return 0
	case bool:
		if x {
			return 1
		}
		return 0
	case float64:
		return x
	case string:
		return stringToNumber(x)
	}
	return toNumber(toPrimitive(v))
}

func toPropertyKey(v Value) string { return toString(v) }

func strictEquals(a, b Value) bool {
	switch x := a.(type) {
	case Undef:
		_, ok := b.(Undef)
		return ok
	case Null:
		_, ok := b.(Null)
		return ok
	case bool:
		y, ok := b.(bool)
		return ok && x == y
	case float64:
		y, ok := b.(float64)
		return ok && x == y
	case string:
		y, ok := b.(string)
		return ok && x == y
	case *Obj:
		y, ok := b.(*Obj)
		return ok && x == y
	}
	return false
}

// ---- canonical rendering (the goja side has the same renderer over goja values) ----

// Ids numbers objects by first appearance in the event stream.
type Ids struct{ m map[*Obj]int }

func NewIds() *Ids { return &Ids{m: map[*Obj]int{}} }

func (ids *Ids) id(o *Obj) int {
	k, ok := ids.m[o]
	if !ok {
		k = len(ids.m) + 1
		ids.m[o] = k
	}
	return k
}

func RenderNumber(f float64) string {
	if f != f {
		return "d:NaN"
	}
	return fmt.Sprintf("d:%016x", math.Float64bits(f))
}

func RenderString(s string) string { return fmt.Sprintf("s:%d:%s", len(s), s) }

// Render: primitives typed; functions "f"; errors "E:<name>"; arrays "[#id e,…]"; plain objects "{#id k:v,…}";
// everything else (generator objects, promises) "x#id".  depth limits structural descent.
func (ids *Ids) Render(v Value, depth int) string {
	switch x := v.(type) {
	case Undef:
		return "u"
	case Null:
		return "n"
	case bool:
		if x {
			return "b:true"
		}
		return "b:false"
	case float64:
		return RenderNumber(x)
	case string:
		return RenderString(x)
	case *Obj:
		switch x.Kind {
		case KFunc:
			return "f"
		case KError:
			return "E:" + x.ErrName
		case KArray:
			id := ids.id(x)
			if depth <= 0 {
				return fmt.Sprintf("[#%d]", id)
			}
			var b strings.Builder
			fmt.Fprintf(&b, "[#%d", id)
			for i, e := range x.Arr {
				if i == 0 {
					b.WriteByte(' ')
				} else {
					b.WriteByte(',')
				}
				b.WriteString(ids.Render(e, depth-1))
			}
			b.WriteByte(']')
			return b.String()
		case KPlain:
			id := ids.id(x)
			if depth <= 0 {
				return fmt.Sprintf("{#%d}", id)
			}
			var b strings.Builder
			fmt.Fprintf(&b, "{#%d", id)
			for i, k := range x.ownKeys() {
				if i == 0 {
					b.WriteByte(' ')
				} else {
					b.WriteByte(',')
				}
				b.WriteString(k)
				b.WriteByte(':')
				pv, _ := x.getOwn(k)
				b.WriteString(ids.Render(pv, depth-1))
			}
			b.WriteByte('}')
			return b.String()
		default:
			return fmt.Sprintf("x#%d", ids.id(x))
		}
	}
	return fmt.Sprintf("?%T", v)
}
