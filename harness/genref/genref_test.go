package genref

import (
	"strings"
	"testing"
)

type seqRand struct{ s uint64 }

func (r *seqRand) Intn(n int) int {
	if n <= 1 {
		return 0
	}
	r.s = r.s*6364136223846793005 + 1442695040888963407
	return int((r.s >> 33) % uint64(n))
}

// the generator state machine on a hand-built body: function* gen(me,a,b){ try { log(yield 1) } finally { yield 2 } return 3 }
func handProgram() *Program {
	body := []Stmt{
		&Try{
			Block:   &Block{Body: []Stmt{&ExprS{E: &Call{Fn: &Ident{Name: "log"}, Args: []Arg{{E: &Yield{Arg: &Lit{V: 1.0}}}}}}}},
			Finally: &Block{Body: []Stmt{&ExprS{E: &Yield{Arg: &Lit{V: 2.0}}}}},
		},
		&Return{E: &Lit{V: 3.0}},
	}
	return &Program{Subject: &Func{Kind: FGenerator, Name: "gen", Params: []Param{{Name: "me"}, {Name: "a"}, {Name: "b"}}, Body: body}}
}

func runOps(t *testing.T, ops []Op) []string {
	in := New(handProgram(), 100000)
	defer in.Close()
	if err := in.Create(0, 1, 2); err != nil {
		t.Fatal(err)
	}
	for i, op := range ops {
		if err := in.GenOp(string(rune('0'+i)), op); err != nil {
			t.Fatal(err)
		}
	}
	return in.Events
}

func TestStateMachine(t *testing.T) {
	cases := []struct {
		ops  []Op
		want string
	}{
		// next, next(7) -> logs 7, enters finally, yields 2; next -> return 3; next after completion
		{[]Op{{0, "next", 0}, {0, "next", 2}, {0, "next", 0}, {0, "next", 0}},
			"R0 {#1 value:d:3ff0000000000000,done:b:false}|L d:401c000000000000|R1 {#2 value:d:4000000000000000,done:b:false}|R2 {#3 value:d:4008000000000000,done:b:true}|R3 {#4 value:u,done:b:true}"},
		// return() at suspendedStart completes without running the body; throw() after completion rethrows
		{[]Op{{0, "return", 2}, {0, "next", 0}, {0, "throw", 1}},
			"R0 {#1 value:d:401c000000000000,done:b:true}|R1 {#2 value:u,done:b:true}|T2 d:3ff0000000000000"},
		// return() inside try runs the finally, which yields; then the return completion proceeds
		{[]Op{{0, "next", 0}, {0, "return", 2}, {0, "next", 0}},
			"R0 {#1 value:d:3ff0000000000000,done:b:false}|R1 {#2 value:d:4000000000000000,done:b:false}|R2 {#3 value:d:401c000000000000,done:b:true}"},
		// throw() inside the finally entered by return(): the throw replaces the return completion
		{[]Op{{0, "next", 0}, {0, "return", 2}, {0, "throw", 1}, {0, "next", 0}},
			"R0 {#1 value:d:3ff0000000000000,done:b:false}|R1 {#2 value:d:4000000000000000,done:b:false}|T2 d:3ff0000000000000|R3 {#3 value:u,done:b:true}"},
		// throw() at suspendedStart
		{[]Op{{0, "throw", 3}, {0, "next", 0}}, "T0 s:2:s1|R1 {#1 value:u,done:b:true}"},
	}
	for i, c := range cases {
		got := strings.Join(runOps(t, c.ops), "|")
		if got != c.want {
			t.Errorf("case %d:\n got  %s\n want %s", i, got, c.want)
		}
	}
}

// await ordering: an async function awaiting a plain value resumes after exactly one tick
func TestAwaitTicks(t *testing.T) {
	body := []Stmt{
		&ExprS{E: &Call{Fn: &Ident{Name: "log"}, Args: []Arg{{E: &Lit{V: "a"}}}}},
		&ExprS{E: &Yield{Arg: &Lit{V: 1.0}, Site: 0}},
		&ExprS{E: &Call{Fn: &Ident{Name: "log"}, Args: []Arg{{E: &Lit{V: "b"}}}}},
	}
	p := &Program{Subject: &Func{Kind: FAsync, Name: "gen", Params: []Param{{Name: "me"}, {Name: "a"}, {Name: "b"}}, Body: body}, AwModes: []int{0}}
	in := New(p, 100000)
	defer in.Close()
	if err := in.AsyncGroup([]AOp{{Kind: "call", A: 0, B: 1, C: 2}, {Kind: "tick", A: 3, B: 0}}); err != nil {
		t.Fatal(err)
	}
	got := strings.Join(in.Events, "|")
	// call: a ; jobs: [resume(b) , t0] -> b, t0 ; then F0 (function result) and t1 ; t2
	want := "L s:1:a|L s:1:b|L s:2:t0 d:0000000000000000|L s:2:F0 u|L s:2:t0 d:3ff0000000000000|L s:2:t0 d:4000000000000000"
	if got != want {
		t.Errorf("got  %s\nwant %s", got, want)
	}
}

func TestGeneratorDeterministic(t *testing.T) {
	a := GenProgram(&seqRand{s: 42}).Source()
	b := GenProgram(&seqRand{s: 42}).Source()
	if a != b {
		t.Fatal("program generation is not a pure function of the random stream")
	}
}
