package genref

import (
	"fmt"
	"strings"
)

// Prelude is the JS text run before the program of a case.  It needs these host natives (Go functions on the
// goja side): log(...), __res(tag, r), __thr(tag, e), __goInvoke(target, kind, v), __depth(tag), goCall(f).
// The model implements every function of the prelude natively (below), statement for statement.
const Prelude = `
var G = [undefined, undefined], A = [undefined, undefined];
var V = [undefined, 1, 7, "s1", "q", {p: 3}, [4, 5], null, true, 0];
var PENDING = [];
function drive(me, k) {
  var op = REOPS[k];
  var tgt = G[op.o ? 1 - me : me];
  if (tgt === undefined) { log("drive-none", k); return undefined; }
  var r;
  try { r = op.go ? __goInvoke(tgt, op.kind, V[op.v]) : tgt[op.kind](V[op.v]); }
  catch (e) { __thr("d" + k, e); if (op.rethrow) throw e; return undefined; }
  __res("d" + k, r);
  return r.value;
}
function mkIter(me, id, n, rm, tm, re, loose) {
  var i = 0, rc = 0;
  var it = {};
  it[Symbol.iterator] = function () { log("I" + id); return it; };
  it.next = function (v) {
    log("N" + id, arguments.length, v);
    if (re >= 0) drive(me, re);
    i++;
    if (i > n) return loose ? {value: id * 100 + 50, done: 1} : {value: id * 100 + 50, done: true};
    return loose ? {value: id * 100 + i} : {value: id * 100 + i, done: false};
  };
  if (rm === 5) it["return"] = null;
  else if (rm) it["return"] = function (v) {
    log("R" + id, arguments.length, v);
    rc++;
    if (rm === 2 && rc === 1) return {value: id * 100 + 70, done: false};
    if (rm === 3) return 17;
    if (rm === 4) throw "s" + id;
    return {value: v, done: true};
  };
  if (tm) it["throw"] = function (e) {
    log("T" + id, arguments.length, e);
    if (tm === 1) throw e;
    if (tm === 2) return {value: id * 100 + 80, done: false};
    if (tm === 3) return {value: id * 100 + 90, done: true};
    return 18;
  };
  return it;
}
function AW(site, v) {
  switch (AWMODE[site]) {
  case 1: return Promise.resolve(v);
  case 2: { var d = {site: site}; var p = new Promise(function (res, rej) { d.resolve = res; d.reject = rej; }); PENDING.push(d); log("aw", site, v); return p; }
  case 3: return { then: function (res, rej) { log("th", site); res(v); } };
  case 4: return { then: function (res, rej) { log("th", site); rej(v); } };
  case 5: return { then: function (res, rej) { log("th", site); PENDING.push({site: site, resolve: res, reject: rej}); } };
  case 6: return { then: function (res, rej) { log("th", site); res(v); res(0); throw "zz"; } };
  case 7: return Promise.reject(v);
  }
  return v;
}
function settle(j, how, v) {
  if (PENDING.length === 0) { log("nopending"); return; }
  var d = PENDING.splice(j % PENDING.length, 1)[0];
  log("settle", d.site, how);
  var x = V[v];
  if (how === 0) d.resolve(x);
  else if (how === 1) d.reject(x);
  else if (how === 2) d.resolve(Promise.resolve(x));
  else d.resolve({ then: function (r) { log("sth"); r(x); } });
}
function tick(tag, n) {
  var p = Promise.resolve();
  for (let i = 0; i < n; i++) p = p.then(function () { log("t" + tag, i); });
}
function acall(slot, a, b) {
  var p = gen(slot, V[a], V[b]);
  A[slot] = p;
  p.then(function (v) { log("F" + slot, v); }, function (e) { log("J" + slot, e); });
}
function create(slot, a, b) { G[slot] = gen(slot, V[a], V[b]); }
function rec(tag, th) { var r; __depth(tag); try { r = th(); } catch (e) { __thr(tag, e); return; } __res(tag, r); }
`

// NumV is the size of the shared value pool V.
const NumV = 10

type deferred struct {
	site    int
	resolve func(Value)
	reject  func(Value)
}

// New builds a model instance for a program.
func New(prog *Program, fuel int64) *Interp {
	in := &Interp{Global: newEnv(nil), ids: NewIds(), prog: prog, Fuel: fuel, Stats: map[string]int64{}}
	p3 := newObj(KPlain)
	p3.set("p", 3.0)
	in.V = []Value{undef, 1.0, 7.0, "s1", "q", p3, newArray([]Value{4.0, 5.0}), null, true, 0.0}
	in.G = [2]Value{undef, undef}
	in.A = [2]Value{undef, undef}
	def := func(name string, f func(in *Interp, this Value, args []Value) (Value, *Abrupt)) {
		b := in.Global.declare(name, false)
		b.v, b.init = in.native(f), true
	}
	def("log", func(in *Interp, this Value, args []Value) (Value, *Abrupt) {
		in.log(args...)
		return undef, nil
	})
	def("drive", func(in *Interp, this Value, args []Value) (Value, *Abrupt) {
		return in.drive(int(toNumber(arg(args, 0))), int(toNumber(arg(args, 1))))
	})
	def("mkIter", func(in *Interp, this Value, args []Value) (Value, *Abrupt) {
		n := func(i int) int { return int(toNumber(arg(args, i))) }
		return in.mkIter(n(0), n(1), n(2), n(3), n(4), n(5), truthy(arg(args, 6))), nil
	})
	for _, h := range prog.Helpers {
		b := in.Global.declare(h.Name, false)
		b.v, b.init = &Obj{Kind: KFunc, Fn: h, Env: in.Global}, true
	}
	subj := &Obj{Kind: KFunc, Fn: prog.Subject, Env: in.Global}
	b := in.Global.declare("gen", false)
	if prog.Subject.Method {
		in.holder = newObj(KPlain)
		in.holder.set("tag", 41.0)
		in.holder.set(prog.Subject.Name, subj)
		b.v = in.native(func(in *Interp, this Value, args []Value) (Value, *Abrupt) {
			return in.call(subj, in.holder, []Value{arg(args, 0), arg(args, 1), arg(args, 2)})
		})
	} else {
		b.v = subj
	}
	b.init = true
	return in
}

func (in *Interp) log(args ...Value) {
	parts := make([]string, len(args))
	for i, a := range args {
		parts[i] = in.ids.Render(a, 2)
	}
	in.event("L " + strings.Join(parts, " "))
}

func (in *Interp) logs(s string, rest ...Value) {
	in.log(append([]Value{s}, rest...)...)
}

func (in *Interp) res(tag string, r Value) { in.event("R" + tag + " " + in.ids.Render(r, 2)) }
func (in *Interp) thr(tag string, e Value) { in.event("T" + tag + " " + in.ids.Render(e, 2)) }

// drive: see the prelude.
func (in *Interp) drive(me, k int) (Value, *Abrupt) {
	op := in.prog.ReOps[k]
	slot := me
	if op.Other {
		slot = 1 - me
	}
	tgt := in.G[slot]
	if _, u := tgt.(Undef); u {
		in.logs("drive-none", float64(k))
		return undef, nil
	}
	in.stat("reentrant_drive")
	tag := fmt.Sprintf("d%d", k)
	m, ab := in.getProp(tgt, op.Kind)
	var r Value
	if ab == nil {
		if !isCallable(m) {
			ab = in.throwErr("TypeError")
		} else {
			r, ab = in.call(m, tgt, []Value{in.V[op.Val]})
		}
	}
	if ab != nil {
		in.thr(tag, ab.V)
		if op.Rethrow {
			return nil, &Abrupt{T: cThrow, V: ab.V}
		}
		return undef, nil
	}
	in.res(tag, r)
	return in.getProp(r, "value")
}

// mkIter: see the prelude.
func (in *Interp) mkIter(me, id, n, rm, tm, re int, loose bool) Value {
	i, rc := 0, 0
	it := newObj(KPlain)
	fid := float64(id)
	name := func(p string) string { return fmt.Sprintf("%s%d", p, id) }
	it.SymIter = in.native(func(in *Interp, this Value, args []Value) (Value, *Abrupt) {
		in.logs(name("I"))
		return it, nil
	})
	mk := func(v Value, done Value, withDone bool) *Obj {
		o := newObj(KPlain)
		o.set("value", v)
		if withDone {
			o.set("done", done)
		}
		return o
	}
	it.set("next", in.native(func(in *Interp, this Value, args []Value) (Value, *Abrupt) {
		in.logs(name("N"), float64(len(args)), arg(args, 0))
		if re >= 0 {
			if _, ab := in.drive(me, re); ab != nil {
				return nil, ab
			}
		}
		i++
		if i > n {
			if loose {
				return mk(fid*100+50, 1.0, true), nil
			}
			return mk(fid*100+50, true, true), nil
		}
		if loose {
			return mk(fid*100+float64(i), nil, false), nil
		}
		return mk(fid*100+float64(i), false, true), nil
	}))
	if rm == 5 {
		it.set("return", null)
	} else if rm != 0 {
		it.set("return", in.native(func(in *Interp, this Value, args []Value) (Value, *Abrupt) {
			in.logs(name("R"), float64(len(args)), arg(args, 0))
			rc++
			if rm == 2 && rc == 1 {
				return mk(fid*100+70, false, true), nil
			}
			if rm == 3 {
				return 17.0, nil
			}
			if rm == 4 {
				return nil, &Abrupt{T: cThrow, V: name("s")}
			}
			return mk(arg(args, 0), true, true), nil
		}))
	}
	if tm != 0 {
		it.set("throw", in.native(func(in *Interp, this Value, args []Value) (Value, *Abrupt) {
			in.logs(name("T"), float64(len(args)), arg(args, 0))
			switch tm {
			case 1:
				return nil, &Abrupt{T: cThrow, V: arg(args, 0)}
			case 2:
				return mk(fid*100+80, false, true), nil
			case 3:
				return mk(fid*100+90, true, true), nil
			}
			return 18.0, nil
		}))
	}
	return it
}

// aw: AW(site, v) of the prelude.
func (in *Interp) aw(site int, v Value) Value {
	mode := 0
	if site < len(in.prog.AwModes) {
		mode = in.prog.AwModes[site]
	}
	fsite := float64(site)
	thenable := func(f func(res, rej Value) *Abrupt) Value {
		o := newObj(KPlain)
		o.set("then", in.native(func(in *Interp, this Value, args []Value) (Value, *Abrupt) {
			in.logs("th", fsite)
			if ab := f(arg(args, 0), arg(args, 1)); ab != nil {
				return nil, ab
			}
			return undef, nil
		}))
		return o
	}
	callv := func(f Value, x Value) *Abrupt {
		_, ab := in.call(f, undef, []Value{x})
		return ab
	}
	switch mode {
	case 1:
		return in.promiseResolve(v)
	case 2:
		p := in.newPromise()
		res, rej := in.createResolvingFunctions(p)
		in.pending = append(in.pending, &deferred{site: site, resolve: res, reject: rej})
		in.logs("aw", fsite, v)
		return p
	case 3:
		return thenable(func(res, rej Value) *Abrupt { return callv(res, v) })
	case 4:
		return thenable(func(res, rej Value) *Abrupt { return callv(rej, v) })
	case 5:
		return thenable(func(res, rej Value) *Abrupt {
			in.pending = append(in.pending, &deferred{site: site,
				resolve: func(x Value) { callv(res, x) }, reject: func(x Value) { callv(rej, x) }})
			return nil
		})
	case 6:
		return thenable(func(res, rej Value) *Abrupt {
			if ab := callv(res, v); ab != nil {
				return ab
			}
			if ab := callv(res, 0.0); ab != nil {
				return ab
			}
			return &Abrupt{T: cThrow, V: "zz"}
		})
	case 7:
		p := in.newPromise()
		in.rejectPromise(p, v)
		return p
	}
	return v
}

func (in *Interp) settle(j, how, v int) {
	if len(in.pending) == 0 {
		in.logs("nopending")
		return
	}
	k := j % len(in.pending)
	d := in.pending[k]
	in.pending = append(append([]*deferred{}, in.pending[:k]...), in.pending[k+1:]...)
	in.logs("settle", float64(d.site), float64(how))
	x := in.V[v]
	switch how {
	case 0:
		d.resolve(x)
	case 1:
		d.reject(x)
	case 2:
		d.resolve(in.promiseResolve(x))
	default:
		o := newObj(KPlain)
		o.set("then", in.native(func(in *Interp, this Value, args []Value) (Value, *Abrupt) {
			in.logs("sth")
			_, ab := in.call(arg(args, 0), undef, []Value{x})
			return undef, ab
		}))
		d.resolve(o)
	}
}

func (in *Interp) tickChain(tag string, n int) {
	p := in.promiseResolve(undef)
	for i := 0; i < n; i++ {
		i := i
		h := in.native(func(in *Interp, this Value, args []Value) (Value, *Abrupt) {
			in.logs("t"+tag, float64(i))
			return undef, nil
		})
		np, _ := promiseThenNative(in, p, []Value{h})
		p = np.(*Obj)
	}
}

func (in *Interp) acall(slot, a, b int) *Abrupt {
	gen, _ := in.Global.lookup("gen").v, 0
	p, ab := in.call(gen, undef, []Value{float64(slot), in.V[a], in.V[b]})
	if ab != nil {
		return ab
	}
	in.A[slot] = p
	onF := in.native(func(in *Interp, this Value, args []Value) (Value, *Abrupt) {
		in.logs(fmt.Sprintf("F%d", slot), arg(args, 0))
		return undef, nil
	})
	onR := in.native(func(in *Interp, this Value, args []Value) (Value, *Abrupt) {
		in.logs(fmt.Sprintf("J%d", slot), arg(args, 0))
		return undef, nil
	})
	_, ab = promiseThenNative(in, p, []Value{onF, onR})
	return ab
}

// ---------------------------------------------------------------- API used by the check

// Op is one driver operation of a generator history.
type Op struct {
	Slot int    `json:"slot"`
	Kind string `json:"kind"` // next throw return
	Val  int    `json:"val"`  // index into V
}

// AOp is one driver operation of an async history.
type AOp struct {
	Kind string `json:"kind"` // call settle tick
	A    int    `json:"a"`    // call: slot; settle: j; tick: n
	B    int    `json:"b"`    // call: V index of a; settle: how
	C    int    `json:"c"`    // call: V index of b; settle: V index
}

// outermost runs f as one outermost call (job queue drained afterwards); a *DomainError is returned, not raised.
func (in *Interp) outermost(f func()) (err error) {
	defer func() {
		if x := recover(); x != nil {
			if de, ok := x.(*DomainError); ok {
				err = de
				return
			}
			panic(x)
		}
	}()
	f()
	in.drain()
	return nil
}

// Create: `create(slot, a, b)`; an exception escaping it is recorded as event "TC<slot>".
func (in *Interp) Create(slot, a, b int) error {
	return in.outermost(func() {
		gen := in.Global.lookup("gen").v
		g, ab := in.call(gen, undef, []Value{float64(slot), in.V[a], in.V[b]})
		if ab != nil {
			in.thr(fmt.Sprintf("C%d", slot), ab.V)
			return
		}
		in.G[slot] = g
	})
}

// GenOp: `rec(tag, function(){ return G[slot][kind](V[val]) })` as one outermost call.
func (in *Interp) GenOp(tag string, op Op) error {
	return in.outermost(func() {
		tgt := in.G[op.Slot]
		m, ab := in.getProp(tgt, op.Kind)
		var r Value
		if ab == nil {
			if !isCallable(m) {
				ab = in.throwErr("TypeError")
			} else {
				r, ab = in.call(m, tgt, []Value{in.V[op.Val]})
			}
		}
		if ab != nil {
			in.thr(tag, ab.V)
			return
		}
		in.res(tag, r)
	})
}

// AsyncGroup: the ops of one group executed in one outermost call; an exception escaping an op is recorded as "TA".
func (in *Interp) AsyncGroup(ops []AOp) error {
	return in.outermost(func() {
		for _, op := range ops {
			switch op.Kind {
			case "call":
				if ab := in.acall(op.A, op.B, op.C); ab != nil {
					in.thr("A", ab.V)
				}
			case "settle":
				in.settle(op.A, op.B, op.C)
			case "tick":
				in.tickChain(fmt.Sprint(op.B), op.A)
			}
		}
	})
}

// GenStateOf reports the state of G[slot] ("" if not a generator) — evidence only.
func (in *Interp) GenStateOf(slot int) string {
	if g, ok := in.G[slot].(*Obj); ok && g.Kind == KGen {
		return genStateNames[g.Gen.state]
	}
	return ""
}
