package genref

// Promise objects (27.2), the job queue (9.5 HostEnqueuePromiseJob: one FIFO queue drained when the outermost
// call returns), Await (27.7.5.3) and AsyncFunctionStart (27.7.5.1/2) on top of the coroutine machinery.

type promState struct {
	state            int // 0 pending, 1 fulfilled, 2 rejected
	result           Value
	fulfillReactions []*reaction
	rejectReactions  []*reaction
}

type reaction struct {
	cap      *capability // nil: no result capability (await)
	isReject bool
	handler  Value       // callable or nil
	cont     func(Value) // await continuation (model-internal handler)
}

type capability struct {
	promise *Obj
	resolve func(Value)
	reject  func(Value)
}

func (in *Interp) enqueue(job func()) {
	in.stat("jobs_enqueued")
	in.jobs = append(in.jobs, job)
}

func (in *Interp) drain() {
	for len(in.jobs) > 0 {
		j := in.jobs[0]
		in.jobs = in.jobs[1:]
		in.stat("jobs_run")
		in.tick()
		j()
	}
}

func (in *Interp) newPromise() *Obj {
	return &Obj{Kind: KPromise, Prom: &promState{}}
}

func (in *Interp) triggerReactions(rs []*reaction, arg Value) {
	for _, r := range rs {
		r := r
		in.enqueue(func() { in.reactionJob(r, arg) })
	}
}

func (in *Interp) fulfillPromise(p *Obj, v Value) {
	rs := p.Prom.fulfillReactions
	p.Prom.fulfillReactions, p.Prom.rejectReactions = nil, nil
	p.Prom.state, p.Prom.result = 1, v
	in.triggerReactions(rs, v)
}

func (in *Interp) rejectPromise(p *Obj, v Value) {
	rs := p.Prom.rejectReactions
	p.Prom.fulfillReactions, p.Prom.rejectReactions = nil, nil
	p.Prom.state, p.Prom.result = 2, v
	in.triggerReactions(rs, v)
}

// createResolvingFunctions (27.2.1.3)
func (in *Interp) createResolvingFunctions(p *Obj) (resolve, reject func(Value)) {
	already := false
	resolve = func(resolution Value) {
		if already {
			return
		}
		already = true
		ro, ok := resolution.(*Obj)
		if ok && ro == p {
			in.rejectPromise(p, in.newError("TypeError"))
			return
		}
		if !ok {
			in.fulfillPromise(p, resolution)
			return
		}
		then, ab := in.getProp(ro, "then")
		if ab != nil {
			in.rejectPromise(p, ab.V)
			return
		}
		if !isCallable(then) {
			in.fulfillPromise(p, resolution)
			return
		}
		in.stat("thenable_jobs")
		in.enqueue(func() { // NewPromiseResolveThenableJob
			res2, rej2 := in.createResolvingFunctions(p)
			_, ab := in.call(then, ro, []Value{in.fnOf(res2), in.fnOf(rej2)})
			if ab != nil {
				rej2(ab.V)
			}
		})
	}
	reject = func(reason Value) {
		if already {
			return
		}
		already = true
		in.rejectPromise(p, reason)
	}
	return
}

// fnOf wraps a Go resolving function as a callable function object.
func (in *Interp) fnOf(f func(Value)) *Obj {
	return in.native(func(in *Interp, this Value, args []Value) (Value, *Abrupt) {
		f(arg(args, 0))
		return undef, nil
	})
}

func (in *Interp) newCapability() *capability {
	p := in.newPromise()
	res, rej := in.createResolvingFunctions(p)
	return &capability{promise: p, resolve: res, reject: rej}
}

func (in *Interp) reactionJob(r *reaction, argument Value) {
	var v Value
	var ab *Abrupt
	switch {
	case r.cont != nil:
		r.cont(argument)
		return
	case r.handler == nil:
		if r.isReject {
			ab = &Abrupt{T: cThrow, V: argument}
		} else {
			v = argument
		}
	default:
		v, ab = in.call(r.handler, undef, []Value{argument})
	}
	if r.cap == nil {
		return
	}
	if ab != nil {
		r.cap.reject(ab.V)
	} else {
		r.cap.resolve(v)
	}
}

// performThen (27.2.5.4.1)
func (in *Interp) performThen(p *Obj, fr, rr *reaction) {
	fr.isReject, rr.isReject = false, true
	switch p.Prom.state {
	case 0:
		p.Prom.fulfillReactions = append(p.Prom.fulfillReactions, fr)
		p.Prom.rejectReactions = append(p.Prom.rejectReactions, rr)
	case 1:
		v := p.Prom.result
		in.enqueue(func() { in.reactionJob(fr, v) })
	default:
		v := p.Prom.result
		in.enqueue(func() { in.reactionJob(rr, v) })
	}
}

func promiseThenNative(in *Interp, this Value, args []Value) (Value, *Abrupt) {
	p, ok := this.(*Obj)
	if !ok || p.Kind != KPromise {
		return nil, in.throwErr("TypeError")
	}
	cap := in.newCapability()
	var onF, onR Value
	if isCallable(arg(args, 0)) {
		onF = arg(args, 0)
	}
	if isCallable(arg(args, 1)) {
		onR = arg(args, 1)
	}
	in.performThen(p, &reaction{cap: cap, handler: onF}, &reaction{cap: cap, handler: onR})
	return cap.promise, nil
}

// promiseResolve: PromiseResolve(%Promise%, x) (27.2.4.7.1)
func (in *Interp) promiseResolve(x Value) *Obj {
	if o, ok := x.(*Obj); ok && o.Kind == KPromise {
		return o
	}
	cap := in.newCapability()
	cap.resolve(x)
	return cap.promise
}

// await: 27.7.5.3 Await(value), executed on the coroutine of the running async function.
func (fr *frame) await(v Value) (Value, *Abrupt) {
	in := fr.in
	kind := "non-promise"
	if o, ok := v.(*Obj); ok {
		switch {
		case o.Kind == KPromise:
			kind = "native-" + []string{"pending", "fulfilled", "rejected"}[o.Prom.state]
		case o.Kind == KPlain && o.props["then"] != nil:
			kind = "thenable"
		}
	}
	in.stat("await_operand:" + kind)
	p := in.promiseResolve(v)
	co := fr.co
	capab := fr.asyncCap
	resumeWith := func(mode ctype) func(Value) {
		return func(x Value) {
			in.stat("async_resumes")
			out := co.resume(resumeMsg{mode: mode, v: x})
			in.asyncOut(out, capab)
		}
	}
	in.performThen(p, &reaction{cont: resumeWith(0)}, &reaction{cont: resumeWith(cThrow)})
	m := co.suspend(outMsg{kind: outAwait})
	if m.mode == cThrow {
		return nil, &Abrupt{T: cThrow, V: m.v, Injected: true}
	}
	return m.v, nil
}

func (in *Interp) asyncOut(out outMsg, cap *capability) {
	if out.kind != outDone {
		return
	}
	switch {
	case out.comp == nil:
		cap.resolve(undef)
	case out.comp.T == cReturn:
		cap.resolve(out.comp.V)
	case out.comp.T == cThrow:
		cap.reject(out.comp.V)
	default:
		panic("genref: async body finished with break/continue")
	}
}

func (in *Interp) asyncStart(fr *frame, fn *Func, env *Env) *Obj {
	cap := in.newCapability()
	fr.async = true
	fr.asyncCap = cap
	fr.co = in.newCoroutine(func(first resumeMsg) *Abrupt { return fr.execBody(fn, env) })
	in.stat("async_calls")
	out := fr.co.resume(resumeMsg{})
	in.asyncOut(out, cap)
	return cap.promise
}
