package genref

import (
	"fmt"
	"strings"
)

// ---------------------------------------------------------------- completions, environments

type ctype int

const (
	cThrow ctype = iota + 1
	cReturn
	cBreak
	cContinue
)

// Abrupt is an abrupt completion record (nil = normal completion).
type Abrupt struct {
	T        ctype
	V        Value
	Label    string
	Injected bool // originates from a driver throw()/return() resumption (evidence only)
}

type binding struct {
	v     Value
	init  bool
	konst bool
}

type Env struct {
	vars   map[string]*binding
	parent *Env
}

func newEnv(parent *Env) *Env { return &Env{vars: map[string]*binding{}, parent: parent} }

func (e *Env) lookup(name string) *binding {
	for ; e != nil; e = e.parent {
		if b, ok := e.vars[name]; ok {
			return b
		}
	}
	return nil
}

func (e *Env) declare(name string, konst bool) *binding {
	b := &binding{konst: konst}
	e.vars[name] = b
	return b
}

// frame: one function activation.
type frame struct {
	in       *Interp
	fn       *Func
	this     Value
	args     []Value
	co       *coroutine // generator / async activation
	async    bool
	asyncCap *capability
	// evidence
	tryDepth int
}

// ---------------------------------------------------------------- coroutines (strict hand-off)

type resumeMsg struct {
	mode ctype // 0 normal, cThrow, cReturn
	v    Value
	kill bool
}

type outKind int

const (
	outYield outKind = iota
	outAwait
	outDone
)

type outMsg struct {
	kind outKind
	v    Value
	comp *Abrupt     // outDone: nil (normal), return or throw completion
	pan  interface{} // a Go panic (domain error) to be re-raised in the resumer
}

type killSentinel struct{}

type coroutine struct {
	in      chan resumeMsg
	out     chan outMsg
	started bool
	done    bool
	body    func(first resumeMsg) *Abrupt
}

func (in *Interp) newCoroutine(body func(first resumeMsg) *Abrupt) *coroutine {
	co := &coroutine{in: make(chan resumeMsg), out: make(chan outMsg), body: body}
	in.coros = append(in.coros, co)
	return co
}

// resume transfers control to the coroutine and waits until it yields, awaits or finishes.
func (co *coroutine) resume(m resumeMsg) outMsg {
	if co.done {
		panic("genref: resume of finished coroutine")
	}
	if !co.started {
		co.started = true
		go func() {
			var comp *Abrupt
			var pan interface{}
			func() {
				defer func() {
					if x := recover(); x != nil {
						if _, ok := x.(killSentinel); !ok {
							pan = x
						}
					}
				}()
				first := <-co.in
				if first.kill {
					panic(killSentinel{})
				}
				comp = co.body(first)
			}()
			co.done = true
			co.out <- outMsg{kind: outDone, comp: comp, pan: pan}
		}()
	}
	co.in <- m
	o := <-co.out
	if o.pan != nil {
		panic(o.pan)
	}
	return o
}

// suspend is called on the coroutine's own goroutine.
func (co *coroutine) suspend(o outMsg) resumeMsg {
	co.out <- o
	m := <-co.in
	if m.kill {
		panic(killSentinel{})
	}
	return m
}

// ---------------------------------------------------------------- interpreter state

type Interp struct {
	Global *Env
	Events []string
	ids    *Ids
	prog   *Program

	steps int64
	Fuel  int64

	jobs  []func()
	coros []*coroutine

	V       []Value
	G       [2]Value
	A       [2]Value
	pending []*deferred

	Stats map[string]int64

	holder *Obj
}

func (in *Interp) stat(k string) { in.Stats[k]++ }

func (in *Interp) tick() {
	in.steps++
	if in.steps > in.Fuel {
		domain("model fuel exhausted")
	}
}

func (in *Interp) event(s string) { in.Events = append(in.Events, s) }

func (in *Interp) newError(name string) *Obj {
	return &Obj{Kind: KError, ErrName: name}
}

func (in *Interp) throwErr(name string) *Abrupt {
	return &Abrupt{T: cThrow, V: in.newError(name)}
}

func (in *Interp) iterResult(v Value, done bool) *Obj {
	o := newObj(KPlain)
	o.set("value", v)
	o.set("done", done)
	return o
}

func (in *Interp) native(f func(in *Interp, this Value, args []Value) (Value, *Abrupt)) *Obj {
	return &Obj{Kind: KFunc, Native: f}
}

func arg(args []Value, i int) Value {
	if i < len(args) {
		return args[i]
	}
	return undef
}

// Close kills all suspended coroutines (their goroutines exit without running any model code).
func (in *Interp) Close() {
	for _, co := range in.coros {
		if co.started && !co.done {
			co.in <- resumeMsg{kill: true}
			<-co.out
		}
	}
	in.coros = nil
}

// ---------------------------------------------------------------- property access

func (in *Interp) getProp(base Value, key string) (Value, *Abrupt) {
	switch x := base.(type) {
	case Undef, Null:
		return nil, in.throwErr("TypeError")
	case string:
		if i, ok := isArrayIndex(key); ok {
			if i < len(x) {
				return x[i : i+1], nil
			}
			return undef, nil
		}
		if key == "length" {
			return float64(len(x)), nil
		}
		return undef, nil
	case float64, bool:
		return undef, nil
	case *Obj:
		if v, ok := x.getOwn(key); ok {
			return v, nil
		}
		switch x.Kind {
		case KArray:
			if key == "push" {
				return in.native(func(in *Interp, this Value, args []Value) (Value, *Abrupt) {
					a, ok := this.(*Obj)
					if !ok || a.Kind != KArray {
						domain("push on non-array")
					}
					a.Arr = append(a.Arr, args...)
					return float64(len(a.Arr)), nil
				}), nil
			}
		case KGen:
			switch key {
			case "next", "return", "throw":
				mode := map[string]ctype{"next": 0, "return": cReturn, "throw": cThrow}[key]
				return in.native(func(in *Interp, this Value, args []Value) (Value, *Abrupt) {
					return in.genResume(this, mode, arg(args, 0))
				}), nil
			}
		case KPromise:
			if key == "then" {
				return in.native(promiseThenNative), nil
			}
		case KFunc:
			if key == "length" || key == "name" || key == "prototype" {
				domain("function own property")
			}
		}
		return undef, nil
	}
	panic("getProp")
}

// ---------------------------------------------------------------- iterators (7.4)

type iterRec struct {
	it      Value
	next    Value
	done    bool
	builtin bool // array / string iterator (no return/throw methods; not observable)
	arr     *Obj
	str     string
	idx     int
}

func (fr *frame) getIterator(v Value) (*iterRec, *Abrupt) {
	in := fr.in
	switch x := v.(type) {
	case string:
		return &iterRec{builtin: true, str: x}, nil
	case *Obj:
		switch x.Kind {
		case KArray:
			return &iterRec{builtin: true, arr: x}, nil
		case KGen:
			nx, _ := in.getProp(x, "next")
			return &iterRec{it: x, next: nx}, nil
		case KPlain:
			if x.SymIter == nil {
				return nil, in.throwErr("TypeError")
			}
			if !isCallable(x.SymIter) {
				return nil, in.throwErr("TypeError")
			}
			it, ab := fr.call(x.SymIter, x, nil)
			if ab != nil {
				return nil, ab
			}
			io, ok := it.(*Obj)
			if !ok {
				return nil, in.throwErr("TypeError")
			}
			if io.Kind == KArray || io.Kind == KPromise || io.Kind == KError {
				domain("exotic iterator object")
			}
			nx, ab := in.getProp(io, "next")
			if ab != nil {
				return nil, ab
			}
			return &iterRec{it: io, next: nx}, nil
		}
	}
	return nil, in.throwErr("TypeError")
}

// iterNext: Call(next, iterator, args) and the "is an Object" check.
func (fr *frame) iterNext(r *iterRec, args []Value) (*Obj, *Abrupt) {
	in := fr.in
	if r.builtin {
		if r.arr != nil {
			if r.idx < len(r.arr.Arr) {
				v := r.arr.Arr[r.idx]
				r.idx++
				return in.iterResult(v, false), nil
			}
			r.idx = 1 << 30
			return in.iterResult(undef, true), nil
		}
		if r.idx < len(r.str) {
			v := r.str[r.idx : r.idx+1]
			r.idx++
			return in.iterResult(v, false), nil
		}
		r.idx = 1 << 30
		return in.iterResult(undef, true), nil
	}
	if !isCallable(r.next) {
		return nil, in.throwErr("TypeError")
	}
	res, ab := fr.call(r.next, r.it, args)
	if ab != nil {
		return nil, ab
	}
	ro, ok := res.(*Obj)
	if !ok {
		return nil, in.throwErr("TypeError")
	}
	return ro, nil
}

func (fr *frame) iterComplete(res *Obj) (bool, *Abrupt) {
	d, ab := fr.in.getProp(res, "done")
	if ab != nil {
		return false, ab
	}
	return truthy(d), nil
}

func (fr *frame) iterValue(res *Obj) (Value, *Abrupt) { return fr.in.getProp(res, "value") }

// iterStepValue: IteratorStep + IteratorValue with the [[Done]] bookkeeping of the iterator record.
func (fr *frame) iterStepValue(r *iterRec) (v Value, done bool, ab *Abrupt) {
	res, ab := fr.iterNext(r, nil)
	if ab != nil {
		r.done = true
		return nil, true, ab
	}
	d, ab := fr.iterComplete(res)
	if ab != nil {
		r.done = true
		return nil, true, ab
	}
	if d {
		r.done = true
		return nil, true, nil
	}
	v, ab = fr.iterValue(res)
	if ab != nil {
		r.done = true
		return nil, true, ab
	}
	return v, false, nil
}

// getMethod: GetMethod(V, P): undefined/null -> nil; not callable -> TypeError.
func (fr *frame) getMethod(o Value, name string) (Value, *Abrupt) {
	m, ab := fr.in.getProp(o, name)
	if ab != nil {
		return nil, ab
	}
	switch m.(type) {
	case Undef, Null:
		return nil, nil
	}
	if !isCallable(m) {
		return nil, fr.in.throwErr("TypeError")
	}
	return m, nil
}

// iterClose: IteratorClose(iteratorRecord, completion) (7.4.11); comp == nil is a normal completion.
func (fr *frame) iterClose(r *iterRec, comp *Abrupt) *Abrupt {
	if r.builtin {
		return comp
	}
	fr.in.stat("iterclose")
	ret, ab := fr.getMethod(r.it, "return")
	var inner *Abrupt
	if ab != nil {
		inner = ab
	} else {
		if ret == nil {
			return comp
		}
		var res Value
		res, inner = fr.call(ret, r.it, nil)
		if inner == nil {
			if comp != nil && comp.T == cThrow {
				return comp
			}
			if _, ok := res.(*Obj); !ok {
				return fr.in.throwErr("TypeError")
			}
			return comp
		}
	}
	if comp != nil && comp.T == cThrow {
		return comp
	}
	return inner
}

// ---------------------------------------------------------------- generator objects (27.5)

type genStateKind int

const (
	gSuspendedStart genStateKind = iota
	gSuspendedYield
	gExecuting
	gCompleted
)

var genStateNames = []string{"suspendedStart", "suspendedYield", "executing", "completed"}

type genState struct {
	state genStateKind
	co    *coroutine
	fr    *frame
}

// genResume implements %GeneratorPrototype%.next / return / throw:
// GeneratorValidate, GeneratorResume (27.5.3.3) and GeneratorResumeAbrupt (27.5.3.4).
func (in *Interp) genResume(this Value, mode ctype, v Value) (Value, *Abrupt) {
	g, ok := this.(*Obj)
	if !ok || g.Kind != KGen {
		return nil, in.throwErr("TypeError")
	}
	st := g.Gen
	opName := map[ctype]string{0: "next", cReturn: "return", cThrow: "throw"}[mode]
	in.stat("op:" + opName + "@" + genStateNames[st.state])
	if st.state == gExecuting {
		return nil, in.throwErr("TypeError")
	}
	if mode != 0 && st.state == gSuspendedStart {
		st.state = gCompleted
		// the body never runs; its coroutine is never started
	}
	if st.state == gCompleted {
		switch mode {
		case 0:
			return in.iterResult(undef, true), nil
		case cReturn:
			return in.iterResult(v, true), nil
		default:
			return nil, &Abrupt{T: cThrow, V: v}
		}
	}
	if mode != 0 && st.fr.tryDepth > 0 {
		in.stat("abrupt_resume_inside_try")
		in.stat("abrupt_resume_inside_try:" + opName)
	}
	st.state = gExecuting
	out := st.co.resume(resumeMsg{mode: mode, v: v})
	switch out.kind {
	case outYield:
		st.state = gSuspendedYield
		return out.v, nil
	case outDone:
		st.state = gCompleted
		switch {
		case out.comp == nil:
			return in.iterResult(undef, true), nil
		case out.comp.T == cReturn:
			return in.iterResult(out.comp.V, true), nil
		case out.comp.T == cThrow:
			return nil, &Abrupt{T: cThrow, V: out.comp.V}
		}
		panic("genref: generator body finished with break/continue")
	}
	panic("genref: generator awaited")
}

// generatorYield suspends the running generator body with the given iterator result object and
// returns the resumption as (value, abrupt).
func (fr *frame) generatorYield(result Value) (Value, *Abrupt) {
	m := fr.co.suspend(outMsg{kind: outYield, v: result})
	switch m.mode {
	case 0:
		return m.v, nil
	case cThrow:
		return nil, &Abrupt{T: cThrow, V: m.v, Injected: true}
	default:
		return nil, &Abrupt{T: cReturn, V: m.v, Injected: true}
	}
}

// yieldStar: 15.5.5 `yield* expr`.
func (fr *frame) yieldStar(value Value) (Value, *Abrupt) {
	in := fr.in
	rec, ab := fr.getIterator(value)
	if ab != nil {
		return nil, ab
	}
	kind := "hand-written"
	switch {
	case rec.builtin && rec.arr != nil:
		kind = "array"
	case rec.builtin:
		kind = "string"
	default:
		if o, ok := rec.it.(*Obj); ok && o.Kind == KGen {
			kind = "generator"
		} else {
			hasT, _ := in.getProp(rec.it, "throw")
			hasR, _ := in.getProp(rec.it, "return")
			if _, u := hasT.(Undef); u {
				kind += "-nothrow"
			}
			if _, u := hasR.(Undef); u {
				kind += "-noreturn"
			}
		}
	}
	in.stat("yieldstar_delegate:" + kind)
	var recvV Value = undef
	var recvAb *Abrupt
	for {
		var inner *Obj
		switch {
		case recvAb == nil:
			inner, ab = fr.iterNext(rec, []Value{recvV})
			if ab != nil {
				return nil, ab
			}
			done, ab := fr.iterComplete(inner)
			if ab != nil {
				return nil, ab
			}
			if done {
				return fr.iterValue(inner)
			}
		case recvAb.T == cThrow:
			in.stat("yieldstar_throw_forwarded")
			var thr Value
			if !rec.builtin {
				thr, ab = fr.getMethod(rec.it, "throw")
				if ab != nil {
					return nil, ab
				}
			}
			if thr != nil {
				res, ab := fr.call(thr, rec.it, []Value{recvAb.V})
				if ab != nil {
					return nil, ab
				}
				ro, ok := res.(*Obj)
				if !ok {
					return nil, in.throwErr("TypeError")
				}
				done, ab := fr.iterComplete(ro)
				if ab != nil {
					return nil, ab
				}
				if done {
					return fr.iterValue(ro)
				}
				inner = ro
			} else {
				in.stat("yieldstar_throw_missing")
				if ab := fr.iterClose(rec, nil); ab != nil {
					return nil, ab
				}
				return nil, in.throwErr("TypeError")
			}
		default: // return
			in.stat("yieldstar_return_forwarded")
			var ret Value
			if !rec.builtin {
				ret, ab = fr.getMethod(rec.it, "return")
				if ab != nil {
					return nil, ab
				}
			}
			if ret == nil {
				return nil, recvAb
			}
			res, ab := fr.call(ret, rec.it, []Value{recvAb.V})
			if ab != nil {
				return nil, ab
			}
			ro, ok := res.(*Obj)
			if !ok {
				return nil, in.throwErr("TypeError")
			}
			done, ab := fr.iterComplete(ro)
			if ab != nil {
				return nil, ab
			}
			if done {
				v, ab := fr.iterValue(ro)
				if ab != nil {
					return nil, ab
				}
				return nil, &Abrupt{T: cReturn, V: v, Injected: true}
			}
			inner = ro
		}
		recvV, recvAb = fr.generatorYield(inner)
	}
}

// ---------------------------------------------------------------- function calls

func (fr *frame) call(f Value, this Value, args []Value) (Value, *Abrupt) {
	return fr.in.call(f, this, args)
}

func hoistVars(body []Stmt, out map[string]bool) {
	var walk func(s Stmt)
	walkList := func(l []Stmt) {
		for _, s := range l {
			walk(s)
		}
	}
	var pat func(p Pattern)
	pat = func(p Pattern) {
		switch x := p.(type) {
		case *PIdent:
			out[x.Name] = true
		case *PArr:
			for _, e := range x.Elems {
				pat(e.Target)
			}
			if x.Rest != nil {
				pat(x.Rest)
			}
		case *PObj:
			for _, e := range x.Props {
				pat(e.Target)
			}
		}
	}
	walk = func(s Stmt) {
		switch x := s.(type) {
		case *Decl:
			if x.Kind == "var" {
				pat(x.Target)
			}
		case *If:
			walk(x.Then)
			if x.Else != nil {
				walk(x.Else)
			}
		case *While:
			walk(x.Body)
		case *DoWhile:
			walk(x.Body)
		case *For:
			if x.Init != nil {
				walk(x.Init)
			}
			walk(x.Body)
		case *ForOf:
			if x.Kind == "var" {
				pat(x.Target)
			}
			walk(x.Body)
		case *Switch:
			for _, c := range x.Cases {
				walkList(c.Body)
			}
		case *Try:
			walkList(x.Block.Body)
			if x.Catch != nil {
				walkList(x.Catch.Body)
			}
			if x.Finally != nil {
				walkList(x.Finally.Body)
			}
		case *Labeled:
			walk(x.S)
		case *Block:
			walkList(x.Body)
		}
	}
	walkList(body)
}

// call: [[Call]] of a function object.
func (in *Interp) call(fv Value, this Value, args []Value) (Value, *Abrupt) {
	in.tick()
	f, ok := fv.(*Obj)
	if !ok || f.Kind != KFunc {
		return nil, in.throwErr("TypeError")
	}
	if f.Native != nil {
		return f.Native(in, this, args)
	}
	fn := f.Fn
	fr := &frame{in: in, fn: fn, this: this, args: args}
	if fn.Kind == FArrow {
		fr.this = f.This
		fr.args = f.FnArgs
	}
	env := newEnv(f.Env)
	// FunctionDeclarationInstantiation (simple parameter lists or defaults without yield; no parameter named like a var)
	for i, p := range fn.Params {
		b := env.declare(p.Name, false)
		v := arg(args, i)
		if _, u := v.(Undef); u && p.Default != nil {
			dv, ab := fr.eval(p.Default, env)
			if ab != nil {
				return nil, ab
			}
			v = dv
		}
		b.v, b.init = v, true
	}
	vars := map[string]bool{}
	hoistVars(fn.Body, vars)
	for name := range vars {
		if _, dup := env.vars[name]; !dup {
			b := env.declare(name, false)
			b.v, b.init = undef, true
		}
	}
	switch fn.Kind {
	case FGenerator:
		g := newObj(KGen)
		st := &genState{state: gSuspendedStart, fr: fr}
		g.Gen = st
		st.co = in.newCoroutine(func(first resumeMsg) *Abrupt {
			// the first resumption is always a normal one (abrupt ones complete the generator without starting it)
			return fr.execBody(fn, env)
		})
		fr.co = st.co
		return g, nil
	case FAsync:
		return in.asyncStart(fr, fn, env), nil
	}
	ab := fr.execBody(fn, env)
	if ab == nil {
		return undef, nil
	}
	switch ab.T {
	case cReturn:
		return ab.V, nil
	case cThrow:
		return nil, ab
	}
	panic("genref: break/continue escaped a function")
}

func (fr *frame) execBody(fn *Func, env *Env) *Abrupt {
	if fn.ExprBody != nil {
		v, ab := fr.eval(fn.ExprBody, env)
		if ab != nil {
			return ab
		}
		return &Abrupt{T: cReturn, V: v}
	}
	return fr.execBlock(fn.Body, env, true)
}

func (fr *frame) makeClosure(fn *Func, env *Env) *Obj {
	o := &Obj{Kind: KFunc, Fn: fn, Env: env}
	if fn.Kind == FArrow {
		o.This = fr.this
		o.FnArgs = fr.args
	}
	return o
}

// ---------------------------------------------------------------- expressions

func (fr *frame) evalArgs(as []Arg, env *Env) ([]Value, *Abrupt) {
	var out []Value
	for _, a := range as {
		v, ab := fr.eval(a.E, env)
		if ab != nil {
			return nil, ab
		}
		if !a.Spread {
			out = append(out, v)
			continue
		}
		rec, ab := fr.getIterator(v)
		if ab != nil {
			return nil, ab
		}
		for {
			ev, done, ab := fr.iterStepValue(rec)
			if ab != nil {
				return nil, ab
			}
			if done {
				break
			}
			out = append(out, ev)
			fr.in.tick()
		}
	}
	return out, nil
}

func (fr *frame) binop(op string, l, r Value) Value {
	switch op {
	case "+":
		lp, rp := toPrimitive(l), toPrimitive(r)
		_, ls := lp.(string)
		_, rs := rp.(string)
		if ls || rs {
			s := toString(lp) + toString(rp)
			if len(s) > 4096 {
				domain("string too long")
			}
			return s
		}
		return checkNum(toNumber(lp) + toNumber(rp))
	case "-":
		return checkNum(toNumber(l) - toNumber(r))
	case "*":
		return checkNum(toNumber(l) * toNumber(r))
	case "<":
		lp, rp := toPrimitive(l), toPrimitive(r)
		ls, lok := lp.(string)
		rs, rok := rp.(string)
		if lok && rok {
			return ls < rs
		}
		return toNumber(lp) < toNumber(rp)
	case "===":
		return strictEquals(l, r)
	case "!==":
		return !strictEquals(l, r)
	case ",":
		return r
	}
	panic("binop " + op)
}

func (fr *frame) readIdent(name string, env *Env) (Value, *Abrupt) {
	b := env.lookup(name)
	if b == nil {
		return nil, fr.in.throwErr("ReferenceError")
	}
	if !b.init {
		return nil, fr.in.throwErr("ReferenceError")
	}
	return b.v, nil
}

func (fr *frame) writeIdent(name string, env *Env, v Value) *Abrupt {
	b := env.lookup(name)
	if b == nil {
		domain("assignment to undeclared variable " + name)
	}
	if !b.init {
		return fr.in.throwErr("ReferenceError")
	}
	if b.konst {
		return fr.in.throwErr("TypeError")
	}
	b.v = v
	return nil
}

func (fr *frame) eval(e Expr, env *Env) (Value, *Abrupt) {
	in := fr.in
	in.tick()
	switch x := e.(type) {
	case *Lit:
		return x.V, nil
	case *Ident:
		return fr.readIdent(x.Name, env)
	case *This:
		return fr.this, nil
	case *ArgAt:
		return arg(fr.args, x.I), nil
	case *ArgLen:
		return float64(len(fr.args)), nil
	case *Yield:
		return fr.evalYield(x, env)
	case *AwRaw:
		v, ab := fr.eval(x.Arg, env)
		if ab != nil {
			return nil, ab
		}
		if fr.async {
			in.stat("async_return_of_awaitable")
			return in.aw(x.Site, v), nil
		}
		return v, nil
	case *Bin:
		l, ab := fr.eval(x.L, env)
		if ab != nil {
			return nil, ab
		}
		r, ab := fr.eval(x.R, env)
		if ab != nil {
			return nil, ab
		}
		return fr.binop(x.Op, l, r), nil
	case *Logic:
		l, ab := fr.eval(x.L, env)
		if ab != nil {
			return nil, ab
		}
		switch x.Op {
		case "&&":
			if !truthy(l) {
				return l, nil
			}
		case "||":
			if truthy(l) {
				return l, nil
			}
		case "??":
			switch l.(type) {
			case Undef, Null:
			default:
				return l, nil
			}
		}
		return fr.eval(x.R, env)
	case *Unary:
		v, ab := fr.eval(x.X, env)
		if ab != nil {
			return nil, ab
		}
		switch x.Op {
		case "!":
			return !truthy(v), nil
		case "-":
			return checkNum(-toNumber(v)), nil
		case "void":
			return undef, nil
		}
		panic("unary " + x.Op)
	case *Cond:
		c, ab := fr.eval(x.C, env)
		if ab != nil {
			return nil, ab
		}
		if truthy(c) {
			return fr.eval(x.A, env)
		}
		return fr.eval(x.B, env)
	case *Assign:
		return fr.evalAssign(x, env)
	case *AssignPat:
		v, ab := fr.eval(x.V, env)
		if ab != nil {
			return nil, ab
		}
		if ab := fr.destructAssign(x.Target, v, env); ab != nil {
			return nil, ab
		}
		return v, nil
	case *Update:
		old, ab := fr.readIdent(x.Name, env)
		if ab != nil {
			return nil, ab
		}
		o := toNumber(old)
		n := checkNum(o + 1)
		if ab := fr.writeIdent(x.Name, env, n); ab != nil {
			return nil, ab
		}
		if x.Prefix {
			return n, nil
		}
		return o, nil
	case *Call:
		var f, this Value = nil, undef
		if m, ok := x.Fn.(*Member); ok {
			base, ab := fr.eval(m.O, env)
			if ab != nil {
				return nil, ab
			}
			key := m.Name
			if m.Computed != nil {
				kv, ab := fr.eval(m.Computed, env)
				if ab != nil {
					return nil, ab
				}
				key = toPropertyKey(kv)
			}
			f, ab = in.getProp(base, key)
			if ab != nil {
				return nil, ab
			}
			this = base
		} else {
			var ab *Abrupt
			f, ab = fr.eval(x.Fn, env)
			if ab != nil {
				return nil, ab
			}
		}
		args, ab := fr.evalArgs(x.Args, env)
		if ab != nil {
			return nil, ab
		}
		if !isCallable(f) {
			return nil, in.throwErr("TypeError")
		}
		return in.call(f, this, args)
	case *ArrLit:
		elems, ab := fr.evalArgs(x.Elems, env)
		if ab != nil {
			return nil, ab
		}
		return newArray(elems), nil
	case *ObjLit:
		o := newObj(KPlain)
		for _, p := range x.Props {
			switch {
			case p.Spread:
				v, ab := fr.eval(p.Val, env)
				if ab != nil {
					return nil, ab
				}
				copyDataProperties(o, v)
			case p.Computed != nil:
				kv, ab := fr.eval(p.Computed, env)
				if ab != nil {
					return nil, ab
				}
				key := toPropertyKey(kv)
				v, ab := fr.eval(p.Val, env)
				if ab != nil {
					return nil, ab
				}
				o.set(key, v)
			default:
				v, ab := fr.eval(p.Val, env)
				if ab != nil {
					return nil, ab
				}
				o.set(p.Name, v)
			}
		}
		return o, nil
	case *Tmpl:
		var b strings.Builder
		for i, s := range x.Strs {
			b.WriteString(s)
			if i < len(x.Subs) {
				v, ab := fr.eval(x.Subs[i], env)
				if ab != nil {
					return nil, ab
				}
				b.WriteString(toString(v))
			}
		}
		if b.Len() > 4096 {
			domain("string too long")
		}
		return b.String(), nil
	case *Member:
		base, ab := fr.eval(x.O, env)
		if ab != nil {
			return nil, ab
		}
		key := x.Name
		if x.Computed != nil {
			kv, ab := fr.eval(x.Computed, env)
			if ab != nil {
				return nil, ab
			}
			// RequireObjectCoercible(base) precedes ToPropertyKey, both are side-effect free here
			switch base.(type) {
			case Undef, Null:
				return nil, in.throwErr("TypeError")
			}
			key = toPropertyKey(kv)
		}
		return in.getProp(base, key)
	case *FuncExpr:
		return fr.makeClosure(x.F, env), nil
	}
	panic(fmt.Sprintf("eval: unknown expr %T", e))
}

func copyDataProperties(dst *Obj, src Value) {
	switch s := src.(type) {
	case Undef, Null, bool, float64:
		return
	case string:
		for i := 0; i < len(s); i++ {
			dst.set(fmt.Sprint(i), s[i:i+1])
		}
	case *Obj:
		switch s.Kind {
		case KPlain, KArray:
			for _, k := range s.ownKeys() {
				v, _ := s.getOwn(k)
				dst.set(k, v)
			}
		case KFunc, KGen, KPromise:
			// no own enumerable string-keyed properties
		default:
			domain("spread of error object")
		}
	}
}

func (fr *frame) evalAssign(x *Assign, env *Env) (Value, *Abrupt) {
	in := fr.in
	logical := x.Op == "||=" || x.Op == "&&=" || x.Op == "??="
	skip := func(old Value) bool { // short circuit of a logical assignment
		switch x.Op {
		case "||=":
			return truthy(old)
		case "&&=":
			return !truthy(old)
		}
		switch old.(type) {
		case Undef, Null:
			return false
		}
		return true
	}
	switch t := x.Target.(type) {
	case *Ident:
		var old Value
		if x.Op != "=" {
			var ab *Abrupt
			old, ab = fr.readIdent(t.Name, env)
			if ab != nil {
				return nil, ab
			}
		} else if env.lookup(t.Name) == nil {
			domain("assignment to undeclared variable " + t.Name)
		}
		if logical && skip(old) {
			return old, nil
		}
		v, ab := fr.eval(x.V, env)
		if ab != nil {
			return nil, ab
		}
		if x.Op == "+=" {
			v = fr.binop("+", old, v)
		}
		if ab := fr.writeIdent(t.Name, env, v); ab != nil {
			return nil, ab
		}
		return v, nil
	case *Member:
		base, ab := fr.eval(t.O, env)
		if ab != nil {
			return nil, ab
		}
		bo, ok := base.(*Obj)
		if !ok || bo.Kind != KPlain {
			domain("member assignment to a non-plain object")
		}
		key := t.Name
		if t.Computed != nil {
			kv, ab := fr.eval(t.Computed, env)
			if ab != nil {
				return nil, ab
			}
			key = toPropertyKey(kv)
		}
		var old Value
		if x.Op != "=" {
			old, _ = in.getProp(bo, key)
		}
		if logical && skip(old) {
			return old, nil
		}
		v, ab := fr.eval(x.V, env)
		if ab != nil {
			return nil, ab
		}
		if x.Op == "+=" {
			v = fr.binop("+", old, v)
		}
		bo.set(key, v)
		return v, nil
	}
	panic("assign target")
}

func (fr *frame) evalYield(x *Yield, env *Env) (Value, *Abrupt) {
	in := fr.in
	var v Value = undef
	if x.Arg != nil {
		var ab *Abrupt
		v, ab = fr.eval(x.Arg, env)
		if ab != nil {
			return nil, ab
		}
	}
	if fr.async {
		in.stat("awaitpos:" + x.Pos)
		return fr.await(in.aw(x.Site, v))
	}
	if fr.co == nil {
		panic("genref: yield outside generator")
	}
	if x.Star {
		in.stat("yieldpos*:" + x.Pos)
		return fr.yieldStar(v)
	}
	in.stat("yieldpos:" + x.Pos)
	if fr.tryDepth > 0 {
		in.stat("yield_inside_try")
	}
	return fr.generatorYield(in.iterResult(v, false))
}

// ---------------------------------------------------------------- binding patterns (8.6.2 / 14.3.3)

// bind: initialize == true -> InitializeBinding (let/const/params); false -> PutValue (var).
func (fr *frame) bind(p Pattern, v Value, env *Env, initialize bool) *Abrupt {
	in := fr.in
	in.tick()
	switch x := p.(type) {
	case *PIdent:
		if initialize {
			b := env.vars[x.Name]
			if b == nil {
				b = env.declare(x.Name, false)
			}
			b.v, b.init = v, true
			return nil
		}
		return fr.writeIdent(x.Name, env, v)
	case *PObj:
		switch v.(type) {
		case Undef, Null:
			return in.throwErr("TypeError")
		}
		for _, pr := range x.Props {
			key := pr.Key
			if pr.Computed != nil {
				kv, ab := fr.eval(pr.Computed, env)
				if ab != nil {
					return ab
				}
				key = toPropertyKey(kv)
			}
			pv, ab := in.getProp(v, key)
			if ab != nil {
				return ab
			}
			if _, u := pv.(Undef); u && pr.Default != nil {
				pv, ab = fr.eval(pr.Default, env)
				if ab != nil {
					return ab
				}
			}
			if ab := fr.bind(pr.Target, pv, env, initialize); ab != nil {
				return ab
			}
		}
		return nil
	case *PArr:
		rec, ab := fr.getIterator(v)
		if ab != nil {
			return ab
		}
		res := fr.bindArrayElems(x, rec, env, initialize)
		if !rec.done {
			return fr.iterClose(rec, res)
		}
		return res
	}
	panic("bind")
}

func (fr *frame) bindArrayElems(x *PArr, rec *iterRec, env *Env, initialize bool) *Abrupt {
	for _, el := range x.Elems {
		var v Value = undef
		if !rec.done {
			ev, done, ab := fr.iterStepValue(rec)
			if ab != nil {
				return ab
			}
			if !done {
				v = ev
			}
		}
		if _, u := v.(Undef); u && el.Default != nil {
			dv, ab := fr.eval(el.Default, env)
			if ab != nil {
				return ab
			}
			v = dv
		}
		if ab := fr.bind(el.Target, v, env, initialize); ab != nil {
			return ab
		}
	}
	if x.Rest != nil {
		var rest []Value
		for !rec.done {
			ev, done, ab := fr.iterStepValue(rec)
			if ab != nil {
				return ab
			}
			if done {
				break
			}
			rest = append(rest, ev)
			fr.in.tick()
		}
		return fr.bind(x.Rest, newArray(rest), env, initialize)
	}
	return nil
}

// ---------------------------------------------------------------- destructuring assignment (13.15.5)

type lref struct {
	name string // identifier reference
	obj  *Obj   // property reference
	key  string
}

func isLeafTarget(p Pattern) bool {
	switch p.(type) {
	case *PIdent, *PMember:
		return true
	}
	return false
}

// evalRef: evaluation of a DestructuringAssignmentTarget that is not a pattern (happens BEFORE the value is fetched).
func (fr *frame) evalRef(p Pattern, env *Env) (lref, *Abrupt) {
	switch x := p.(type) {
	case *PIdent:
		if env.lookup(x.Name) == nil {
			domain("assignment to undeclared variable " + x.Name)
		}
		return lref{name: x.Name}, nil
	case *PMember:
		base, ab := fr.readIdent(x.O, env)
		if ab != nil {
			return lref{}, ab
		}
		bo, ok := base.(*Obj)
		if !ok || bo.Kind != KPlain {
			domain("member assignment to a non-plain object")
		}
		key := x.Name
		if x.Computed != nil {
			kv, ab := fr.eval(x.Computed, env)
			if ab != nil {
				return lref{}, ab
			}
			key = toPropertyKey(kv)
		}
		return lref{obj: bo, key: key}, nil
	}
	panic("evalRef")
}

func (fr *frame) putRef(r lref, v Value, env *Env) *Abrupt {
	if r.obj != nil {
		r.obj.set(r.key, v)
		return nil
	}
	return fr.writeIdent(r.name, env, v)
}

func (fr *frame) destructAssign(p Pattern, value Value, env *Env) *Abrupt {
	in := fr.in
	in.tick()
	switch x := p.(type) {
	case *PObj:
		switch value.(type) {
		case Undef, Null:
			return in.throwErr("TypeError")
		}
		for _, pr := range x.Props {
			key := pr.Key
			if pr.Computed != nil {
				kv, ab := fr.eval(pr.Computed, env)
				if ab != nil {
					return ab
				}
				key = toPropertyKey(kv)
			}
			var ref lref
			leaf := isLeafTarget(pr.Target)
			if leaf {
				var ab *Abrupt
				ref, ab = fr.evalRef(pr.Target, env)
				if ab != nil {
					return ab
				}
			}
			v, ab := in.getProp(value, key)
			if ab != nil {
				return ab
			}
			if _, u := v.(Undef); u && pr.Default != nil {
				v, ab = fr.eval(pr.Default, env)
				if ab != nil {
					return ab
				}
			}
			if leaf {
				ab = fr.putRef(ref, v, env)
			} else {
				ab = fr.destructAssign(pr.Target, v, env)
			}
			if ab != nil {
				return ab
			}
		}
		return nil
	case *PArr:
		rec, ab := fr.getIterator(value)
		if ab != nil {
			return ab
		}
		res := fr.destructAssignElems(x, rec, env)
		if !rec.done {
			return fr.iterClose(rec, res)
		}
		return res
	}
	panic("destructAssign")
}

func (fr *frame) destructAssignElems(x *PArr, rec *iterRec, env *Env) *Abrupt {
	for _, el := range x.Elems {
		var ref lref
		leaf := isLeafTarget(el.Target)
		if leaf {
			var ab *Abrupt
			ref, ab = fr.evalRef(el.Target, env)
			if ab != nil {
				return ab
			}
		}
		var v Value = undef
		if !rec.done {
			ev, done, ab := fr.iterStepValue(rec)
			if ab != nil {
				return ab
			}
			if !done {
				v = ev
			}
		}
		if _, u := v.(Undef); u && el.Default != nil {
			dv, ab := fr.eval(el.Default, env)
			if ab != nil {
				return ab
			}
			v = dv
		}
		var ab *Abrupt
		if leaf {
			ab = fr.putRef(ref, v, env)
		} else {
			ab = fr.destructAssign(el.Target, v, env)
		}
		if ab != nil {
			return ab
		}
	}
	if x.Rest != nil {
		ref, ab := fr.evalRef(x.Rest, env)
		if ab != nil {
			return ab
		}
		var rest []Value
		for !rec.done {
			ev, done, ab := fr.iterStepValue(rec)
			if ab != nil {
				return ab
			}
			if done {
				break
			}
			rest = append(rest, ev)
			fr.in.tick()
		}
		return fr.putRef(ref, newArray(rest), env)
	}
	return nil
}

func patternNames(p Pattern, out *[]string) {
	switch x := p.(type) {
	case *PIdent:
		*out = append(*out, x.Name)
	case *PArr:
		for _, e := range x.Elems {
			patternNames(e.Target, out)
		}
		if x.Rest != nil {
			patternNames(x.Rest, out)
		}
	case *PObj:
		for _, e := range x.Props {
			patternNames(e.Target, out)
		}
	}
}

// ---------------------------------------------------------------- statements

// declareLexical creates the uninitialised let/const bindings of a statement list (block scoping, TDZ).
func declareLexical(body []Stmt, env *Env) {
	for _, s := range body {
		if d, ok := s.(*Decl); ok && d.Kind != "var" {
			var names []string
			patternNames(d.Target, &names)
			for _, n := range names {
				env.declare(n, d.Kind == "const")
			}
		}
	}
}

func hasLexical(body []Stmt) bool {
	for _, s := range body {
		if d, ok := s.(*Decl); ok && d.Kind != "var" {
			return true
		}
	}
	return false
}

// execBlock: sameEnv -> the function body shares the function environment for lexical declarations
// (a separate lexical environment is only observable with parameter expressions closing over body names, not generated).
func (fr *frame) execBlock(body []Stmt, env *Env, sameEnv bool) *Abrupt {
	benv := env
	if !sameEnv {
		benv = newEnv(env)
	}
	declareLexical(body, benv)
	for _, s := range body {
		if ab := fr.exec(s, benv); ab != nil {
			return ab
		}
	}
	return nil
}

func loopContinues(ab *Abrupt, labels []string) bool {
	if ab == nil {
		return true
	}
	if ab.T != cContinue {
		return false
	}
	if ab.Label == "" {
		return true
	}
	for _, l := range labels {
		if l == ab.Label {
			return true
		}
	}
	return false
}

func (fr *frame) exec(s Stmt, env *Env) *Abrupt { return fr.execL(s, env, nil) }

// execL: labels = label set of the statement (for `continue L`).
func (fr *frame) execL(s Stmt, env *Env, labels []string) *Abrupt {
	in := fr.in
	in.tick()
	switch x := s.(type) {
	case *Decl:
		if x.Init == nil {
			if x.Kind == "var" {
				return nil
			}
			return fr.bind(x.Target, undef, env, true)
		}
		v, ab := fr.eval(x.Init, env)
		if ab != nil {
			return ab
		}
		return fr.bind(x.Target, v, env, x.Kind != "var")
	case *ExprS:
		_, ab := fr.eval(x.E, env)
		return ab
	case *If:
		c, ab := fr.eval(x.C, env)
		if ab != nil {
			return ab
		}
		if truthy(c) {
			return fr.exec(x.Then, env)
		}
		if x.Else != nil {
			return fr.exec(x.Else, env)
		}
		return nil
	case *While:
		for {
			c, ab := fr.eval(x.C, env)
			if ab != nil {
				return ab
			}
			if !truthy(c) {
				return nil
			}
			ab = fr.exec(x.Body, env)
			if !loopContinues(ab, labels) {
				return breakOut(ab)
			}
		}
	case *DoWhile:
		for {
			ab := fr.exec(x.Body, env)
			if !loopContinues(ab, labels) {
				return breakOut(ab)
			}
			c, ab := fr.eval(x.C, env)
			if ab != nil {
				return ab
			}
			if !truthy(c) {
				return nil
			}
		}
	case *For:
		return fr.execFor(x, env, labels)
	case *ForOf:
		return fr.execForOf(x, env, labels)
	case *Switch:
		return fr.execSwitch(x, env)
	case *Try:
		return fr.execTry(x, env)
	case *Throw:
		v, ab := fr.eval(x.E, env)
		if ab != nil {
			return ab
		}
		return &Abrupt{T: cThrow, V: v}
	case *Return:
		var v Value = undef
		if x.E != nil {
			var ab *Abrupt
			v, ab = fr.eval(x.E, env)
			if ab != nil {
				return ab
			}
		}
		return &Abrupt{T: cReturn, V: v}
	case *Break:
		return &Abrupt{T: cBreak, Label: x.Label}
	case *Continue:
		return &Abrupt{T: cContinue, Label: x.Label}
	case *Labeled:
		ab := fr.execL(x.S, env, append(append([]string{}, labels...), x.Label))
		if ab != nil && ab.T == cBreak && ab.Label == x.Label {
			return nil
		}
		return ab
	case *Block:
		return fr.execBlock(x.Body, env, false)
	}
	panic(fmt.Sprintf("exec: unknown stmt %T", s))
}

// breakOut converts an unlabelled break that ended a loop into a normal completion.
func breakOut(ab *Abrupt) *Abrupt {
	if ab != nil && ab.T == cBreak && ab.Label == "" {
		return nil
	}
	return ab
}

func copyEnv(e *Env, names []string) *Env {
	n := newEnv(e.parent)
	for _, name := range names {
		b := e.vars[name]
		n.vars[name] = &binding{v: b.v, init: b.init, konst: b.konst}
	}
	return n
}

// execFor: 14.7.4 with CreatePerIterationEnvironment for let declarations.
func (fr *frame) execFor(x *For, env *Env, labels []string) *Abrupt {
	loopEnv := env
	var perIter []string
	if d, ok := x.Init.(*Decl); ok && d.Kind != "var" {
		loopEnv = newEnv(env)
		var names []string
		patternNames(d.Target, &names)
		for _, n := range names {
			loopEnv.declare(n, d.Kind == "const")
		}
		if d.Kind == "let" {
			perIter = names
		}
		if ab := fr.exec(d, loopEnv); ab != nil {
			return ab
		}
	} else if x.Init != nil {
		if ab := fr.exec(x.Init, env); ab != nil {
			return ab
		}
	}
	cur := loopEnv
	if perIter != nil {
		cur = copyEnv(cur, perIter)
	}
	for {
		if x.Cond != nil {
			c, ab := fr.eval(x.Cond, cur)
			if ab != nil {
				return ab
			}
			if !truthy(c) {
				return nil
			}
		}
		ab := fr.exec(x.Body, cur)
		if !loopContinues(ab, labels) {
			return breakOut(ab)
		}
		if perIter != nil {
			cur = copyEnv(cur, perIter)
		}
		if x.Update != nil {
			if _, ab := fr.eval(x.Update, cur); ab != nil {
				return ab
			}
		}
	}
}

// execForOf: 14.7.5.6 / 14.7.5.7 ForIn/OfHeadEvaluation + ForIn/OfBodyEvaluation (iterate, sync).
func (fr *frame) execForOf(x *ForOf, env *Env, labels []string) *Abrupt {
	in := fr.in
	var names []string
	patternNames(x.Target, &names)
	headEnv := env
	if x.Kind != "var" && len(names) > 0 {
		headEnv = newEnv(env)
		for _, n := range names {
			headEnv.declare(n, false)
		}
	}
	iv, ab := fr.eval(x.Iter, headEnv)
	if ab != nil {
		return ab
	}
	rec, ab := fr.getIterator(iv)
	if ab != nil {
		return ab
	}
	kind := "hand-written"
	if rec.builtin {
		kind = "builtin"
	} else if o, ok := rec.it.(*Obj); ok && o.Kind == KGen {
		kind = "generator"
	}
	in.stat("forof_over:" + kind)
	for {
		res, ab := fr.iterNext(rec, nil)
		if ab != nil {
			return ab
		}
		done, ab := fr.iterComplete(res)
		if ab != nil {
			return ab
		}
		if done {
			return nil
		}
		v, ab := fr.iterValue(res)
		if ab != nil {
			return ab
		}
		iterEnv := env
		var bab *Abrupt
		if x.Kind != "var" {
			iterEnv = newEnv(env)
			for _, n := range names {
				iterEnv.declare(n, x.Kind == "const")
			}
			bab = fr.bind(x.Target, v, iterEnv, true)
		} else {
			bab = fr.bind(x.Target, v, env, false)
		}
		if bab != nil {
			return fr.iterClose(rec, bab)
		}
		fr.tryDepth++ // a live iterator to be closed behaves like a pending finally for abrupt resumptions
		ab = fr.exec(x.Body, iterEnv)
		fr.tryDepth--
		if !loopContinues(ab, labels) {
			if ab.Injected {
				in.stat("forof_closed_by_injected_" + map[ctype]string{cThrow: "throw", cReturn: "return"}[ab.T])
			}
			// IteratorClose sees the break/continue/return/throw completion; an unlabelled break then ends the loop normally
			return breakOut(fr.iterClose(rec, ab))
		}
	}
}

func (fr *frame) execSwitch(x *Switch, env *Env) *Abrupt {
	d, ab := fr.eval(x.Disc, env)
	if ab != nil {
		return ab
	}
	benv := newEnv(env)
	for _, c := range x.Cases {
		declareLexical(c.Body, benv)
	}
	start := -1
	for i, c := range x.Cases {
		if c.Test == nil {
			continue
		}
		t, ab := fr.eval(c.Test, benv)
		if ab != nil {
			return ab
		}
		if strictEquals(d, t) {
			start = i
			break
		}
	}
	if start < 0 {
		for i, c := range x.Cases {
			if c.Test == nil {
				start = i
			}
		}
	}
	if start < 0 {
		return nil
	}
	for _, c := range x.Cases[start:] {
		for _, s := range c.Body {
			if ab := fr.exec(s, benv); ab != nil {
				return breakOut(ab)
			}
		}
	}
	return nil
}

func (fr *frame) execTry(x *Try, env *Env) *Abrupt {
	in := fr.in
	fr.tryDepth++
	res := fr.execBlock(x.Block.Body, env, false)
	fr.tryDepth--
	if res != nil && res.T == cThrow && x.Catch != nil {
		if res.Injected {
			in.stat("catch_caught_injected_throw")
		}
		cenv := newEnv(env)
		var cab *Abrupt
		if x.Param != nil {
			var names []string
			patternNames(x.Param, &names)
			for _, n := range names {
				cenv.declare(n, false)
			}
			cab = fr.bind(x.Param, res.V, cenv, true)
		}
		if cab == nil {
			if x.Finally != nil {
				fr.tryDepth++
			}
			cab = fr.execBlock(x.Catch.Body, cenv, false)
			if x.Finally != nil {
				fr.tryDepth--
			}
		}
		res = cab
	}
	if x.Finally != nil {
		if res != nil && res.Injected {
			in.stat("finally_crossed_by_injected_" + map[ctype]string{cThrow: "throw", cReturn: "return", cBreak: "break", cContinue: "continue"}[res.T])
		}
		in.stat("finally_run")
		fab := fr.execBlock(x.Finally.Body, env, false)
		if fab != nil {
			return fab
		}
	}
	// breaking out of a loop is resolved by the loop statement; a break here simply propagates
	return res
}
