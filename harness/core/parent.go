package core

import (
	"bufio"
	"bytes"
	"encoding/binary"
	"encoding/json"
	"fmt"
	"io"
	"os"
	"os/exec"
	"path/filepath"
	"runtime"
	"sort"
	"strconv"
	"strings"
	"syscall"
	"time"
)

type workerProc struct {
	w       int
	gen     int // restart generation
	start   int
	cmd     *exec.Cmd
	base    string
	lastPos int64
	lastChg time.Time
	exited  chan error
}

func envSeed() uint64 {
	if s := os.Getenv("VERIF_SEED"); s != "" {
		if v, err := strconv.ParseInt(s, 10, 64); err == nil {
			return uint64(v)
		}
		if v, err := strconv.ParseUint(s, 10, 64); err == nil {
			return v
		}
	}
	return 1
}

func readProgress(base string) int64 {
	b, err := os.ReadFile(base + ".progress")
	if err != nil || len(b) < 8 {
		return -1 << 62
	}
	return int64(binary.LittleEndian.Uint64(b))
}

func tailFile(path string, n int) string {
	b, err := os.ReadFile(path)
	if err != nil {
		return ""
	}
	if len(b) > n {
		b = b[len(b)-n:]
	}
	return string(b)
}

func headFile(path string, n int) string {
	b, err := os.ReadFile(path)
	if err != nil {
		return ""
	}
	if len(b) > n {
		b = b[:n]
	}
	return string(b)
}

// crashSignature reduces a Go crash dump to a stable signature: the first line (panic/fatal message) and
// the first goja frame.
func crashSignature(stderr string) string {
	lines := strings.Split(stderr, "\n")
	first := ""
	frame := ""
	for _, l := range lines {
		t := strings.TrimSpace(l)
		if first == "" && (strings.HasPrefix(t, "panic:") || strings.HasPrefix(t, "fatal error:") || strings.HasPrefix(t, "==") || strings.HasPrefix(t, "SIG") || strings.HasPrefix(t, "runtime:")) {
			first = t
		}
		if first != "" && frame == "" && strings.HasPrefix(t, "github.com/dop251/goja") {
			if i := strings.Index(t, "("); i > 0 {
				t = t[:i]
			}
			frame = t
		}
	}
	return "crash:" + Trunc(first, 120) + "@" + frame
}

// RunParent drives a full check run and returns the process exit code.
func RunParent(chk *Check, tier string) int {
	t0 := time.Now()
	seed := envSeed()
	root := VerifRoot()
	evDir := filepath.Join(root, "evidence")
	if d := os.Getenv("VERIF_EVDIR"); d != "" {
		// mutation trials write their evidence/replay files elsewhere so that the committed evidence stays that of /repo
		evDir = d
	}
	os.MkdirAll(filepath.Join(evDir, "replay"), 0755)
	if old, _ := filepath.Glob(filepath.Join(evDir, "replay", chk.ID+"-*.json")); len(old) > 0 {
		for _, f := range old {
			os.Remove(f)
		}
	}
	workDir := filepath.Join(evDir, "tmp", fmt.Sprintf("%s-%s-%d", chk.ID, tier, os.Getpid()))
	os.RemoveAll(workDir)
	os.MkdirAll(workDir, 0755)
	if os.Getenv("VERIF_KEEP") == "" {
		defer os.RemoveAll(workDir)
	}

	nw := runtime.NumCPU()
	if chk.Workers != nil {
		if k := chk.Workers(tier); k > 0 {
			nw = k
		}
	}
	if s := os.Getenv("VERIF_WORKERS"); s != "" {
		if v, err := strconv.Atoi(s); err == nil && v > 0 {
			nw = v
		}
	}
	total := chk.NumPinned + chk.Cases(tier)
	if nw > total {
		nw = total
	}
	if nw < 1 {
		nw = 1
	}
	self, _ := os.Executable()
	bin := self
	if chk.Binary != "" {
		alt := self + "-" + chk.Binary
		if _, err := os.Stat(alt); err == nil {
			bin = alt
		} else {
			fmt.Printf("INCONCLUSIVE: %s binary %s missing\n", chk.Binary, alt)
			return 3
		}
	}
	timeout := time.Duration(chk.CaseTimeoutS) * time.Second
	if timeout == 0 {
		timeout = 120 * time.Second
	}

	findings := LoadFindings()
	stats := NewStats()
	var viols []violRec
	inconclusiveKills := 0
	crashes := 0

	spawn := func(w, gen, start int) *workerProc {
		tag := ""
		if gen > 0 {
			tag = fmt.Sprintf(".r%d", gen)
		}
		base := filepath.Join(workDir, fmt.Sprintf("w%d%s", w, tag))
		cmd := exec.Command(bin, "worker", "-tier", tier, "-seed", strconv.FormatUint(seed, 10), "-w", strconv.Itoa(w), "-n", strconv.Itoa(nw), "-start", strconv.Itoa(start), "-out", workDir, "-tag", tag)
		errf, _ := os.Create(base + ".stderr")
		cmd.Stdout = errf
		cmd.Stderr = errf
		cmd.Env = append(os.Environ(), "VERIF_WORKER=1")
		if chk.Binary == "race" {
			cmd.Env = append(cmd.Env, "GORACE=halt_on_error=0 exitcode=0 log_path="+filepath.Join(workDir, fmt.Sprintf("race.w%d%s", w, tag)))
		}
		if chk.Binary == "asan" {
			cmd.Env = append(cmd.Env, "ASAN_OPTIONS=detect_leaks=0:abort_on_error=1:halt_on_error=1")
		}
		if os.Getenv("VERIF_MEM_MB") == "" {
			cmd.Env = append(cmd.Env, "VERIF_MEM_MB=3500")
		}
		p := &workerProc{w: w, gen: gen, start: start, cmd: cmd, base: base, lastPos: -1 << 62, lastChg: time.Now(), exited: make(chan error, 1)}
		if err := cmd.Start(); err != nil {
			fmt.Println("cannot start worker:", err)
			p.exited <- err
			return p
		}
		go func() { p.exited <- cmd.Wait(); errf.Close() }()
		return p
	}

	var agg workerDone
	keys := map[uint64]struct{}{}
	collect := func(p *workerProc) (final bool, last int) {
		var d workerDone
		b, err := os.ReadFile(p.base + ".done")
		if err == nil && json.Unmarshal(b, &d) == nil {
			agg.Evaluations += d.Evaluations
			agg.Held += d.Held
			agg.Violated += d.Violated
			agg.Inconclusive += d.Inconclusive
			stats.merge(d.Stats)
			final = d.Final
			last = d.Last
		} else {
			last = p.start - nw
		}
		if kb, err := os.ReadFile(p.base + ".keys"); err == nil {
			for i := 0; i+8 <= len(kb); i += 8 {
				keys[binary.LittleEndian.Uint64(kb[i:])] = struct{}{}
			}
		}
		if vf, err := os.Open(p.base + ".viol"); err == nil {
			sc := bufio.NewScanner(vf)
			sc.Buffer(make([]byte, 1<<20), 1<<28)
			for sc.Scan() {
				var v violRec
				if json.Unmarshal(sc.Bytes(), &v) == nil {
					viols = append(viols, v)
				}
			}
			vf.Close()
		}
		return
	}

	active := map[int]*workerProc{}
	for w := 0; w < nw; w++ {
		active[w] = spawn(w, 0, 0)
	}
	tick := time.NewTicker(500 * time.Millisecond)
	defer tick.Stop()
	for len(active) > 0 {
		<-tick.C
		for w, p := range active {
			select {
			case werr := <-p.exited:
				final, _ := collect(p)
				if final && werr == nil {
					delete(active, w)
					continue
				}
				// abnormal death: attribute to the case in progress
				pos := readProgress(p.base)
				stderr := tailFile(p.base+".stderr", 6000)
				headErr := headFile(p.base+".stderr", 3000)
				if pos < -1<<60 {
					fmt.Printf("worker %d died before its first case: %v\n%s\n", w, werr, stderr)
					crashes++
					delete(active, w)
					viols = append(viols, violRec{Index: -1 << 30, Monitor: "worker-startup", Detail: fmt.Sprintf("%v\n%s", werr, stderr), Signature: "worker-startup"})
					continue
				}
				idx := int(pos) - chk.NumPinned
				crashes++
				oom := strings.Contains(headErr, "out of memory") || strings.Contains(headErr, "cannot allocate memory")
				if oom && strings.Contains(headErr, "goja.(*valueStack).expand") {
					// an absurd operand-stack growth is a corrupted sp/stack size, not memory exhaustion by construction
					oom = false
				}
				if oom {
					inconclusiveKills++
					stats.Inc("inconclusive:oom")
				} else {
					viols = append(viols, violRec{Index: idx, Monitor: "process-death", Detail: fmt.Sprintf("worker died (%v) while executing case %d\n--- head of stderr ---\n%s\n--- tail ---\n%s", werr, idx, headErr, Trunc(stderr, 3000)), Signature: crashSignature(headErr)})
				}
				if int(pos)+nw < total && crashes < 200 {
					active[w] = spawn(w, p.gen+1, int(pos)+nw)
				} else {
					delete(active, w)
				}
			default:
				pos := readProgress(p.base)
				if pos != p.lastPos {
					p.lastPos = pos
					p.lastChg = time.Now()
				} else if time.Since(p.lastChg) > timeout {
					// watchdog: inconclusive
					p.cmd.Process.Signal(syscall.SIGQUIT)
					select {
					case <-p.exited:
					case <-time.After(3 * time.Second):
						p.cmd.Process.Kill()
						<-p.exited
					}
					collect(p)
					inconclusiveKills++
					stats.Inc("inconclusive:watchdog")
					idx := int(pos) - chk.NumPinned
					fmt.Printf("INCONCLUSIVE: watchdog killed worker %d at case %d after %v without progress\n", w, idx, timeout)
					if int(pos)+nw < total && inconclusiveKills < 200 {
						active[w] = spawn(w, p.gen+1, int(pos)+nw)
					} else {
						delete(active, w)
					}
				}
			}
		}
	}

	evidence := map[string]any{}
	if chk.Post != nil {
		pc := &PostCtx{Tier: tier, Seed: seed, Stats: stats, WorkDir: workDir, Evidence: evidence}
		pc.Report = func(r Result, idx int) {
			viols = append(viols, violRec{Index: idx, Monitor: r.Monitor, Detail: r.Detail, Signature: r.Signature, Case: marshalCase(r.Case)})
		}
		chk.Post(pc)
	}

	// classify violations
	sort.SliceStable(viols, func(i, j int) bool { return viols[i].Index < viols[j].Index })
	knownSeen := map[string]bool{}
	newSigs := map[string]bool{}
	exit := 0
	nNew := 0
	for _, v := range viols {
		if kf := findings.Match(chk.ID, v.Signature); kf != nil {
			if !knownSeen[kf.ID] {
				knownSeen[kf.ID] = true
				fmt.Printf("KNOWN-FINDING: property=%s %s [%s]\n", chk.ID, kf.What, kf.ID)
			}
			continue
		}
		exit = 1
		sigKey := v.Signature
		if sigKey == "" {
			sigKey = fmt.Sprintf("idx%d", v.Index)
		}
		if newSigs[sigKey] {
			continue
		}
		newSigs[sigKey] = true
		nNew++
		if nNew > 25 {
			continue
		}
		rp := filepath.Join(evDir, "replay", fmt.Sprintf("%s-%d-%d.json", chk.ID, seed, v.Index))
		rb, _ := json.MarshalIndent(map[string]any{
			"property": chk.ID, "seed": seed, "tier": tier, "index": v.Index, "monitor": v.Monitor,
			"detail": v.Detail, "signature": v.Signature, "case": v.Case,
		}, "", " ")
		os.WriteFile(rp, rb, 0644)
		fmt.Printf("VIOLATION property=%s replay=%s\n", chk.ID, rp)
		fmt.Printf("  monitor=%s index=%d\n  %s\n", v.Monitor, v.Index, strings.ReplaceAll(Trunc(v.Detail, 1500), "\n", "\n  "))
	}

	conclusive := agg.Held + agg.Violated
	distinct := int64(len(keys))
	floor := 2
	if chk.MinConclusive != nil {
		floor = chk.MinConclusive(tier)
	}
	if exit == 0 && (distinct < int64(floor) || distinct < 2) {
		fmt.Printf("INCONCLUSIVE: property=%s observed only %d distinct non-trivial conclusive cases (floor %d) — check is not deciding anything\n", chk.ID, distinct, floor)
		exit = 3
	}

	// evidence
	cov := map[string]any{
		"evaluations":         agg.Evaluations,
		"distinct_nontrivial": distinct,
		"rule":                chk.Rule,
		"samples":             stats.Samples,
		"held":                agg.Held,
		"violated_cases":      agg.Violated,
		"inconclusive":        agg.Inconclusive + int64(inconclusiveKills),
		"conclusive":          conclusive,
		"worker_crashes":      crashes,
		"case_list_length":    total,
		"pinned_witnesses":    chk.NumPinned,
		"counters":            stats.Counters,
		"maxes":               stats.Maxes,
	}
	if chk.Exhaustive {
		cov["exhaustive"] = true
	}
	setSizes := map[string]int{}
	sets := map[string][]string{}
	for k, m := range stats.Sets {
		setSizes[k] = len(m)
		l := make([]string, 0, len(m))
		for x := range m {
			l = append(l, x)
		}
		sort.Strings(l)
		if len(l) > 400 {
			l = l[:400]
		}
		sets[k] = l
	}
	cov["distinct_observed"] = setSizes
	cov["observed_sets"] = sets
	for k, v := range evidence {
		cov[k] = v
	}
	if len(stats.Samples) == 0 {
		cov["samples"] = []any{"(no sample recorded)"}
	}
	ev := map[string]any{
		"property_id": chk.ID,
		"tier":        tier,
		"seed":        int64(seed),
		"level":       chk.Level,
		"coverage":    cov,
		"assumptions": chk.Assumptions,
		"wall_s":      time.Since(t0).Seconds(),
		"violations":  nNew,
	}
	var buf bytes.Buffer
	enc := json.NewEncoder(&buf)
	enc.SetIndent("", " ")
	enc.SetEscapeHTML(false)
	enc.Encode(ev)
	os.WriteFile(filepath.Join(evDir, chk.ID+".json"), buf.Bytes(), 0644)

	fmt.Printf("%s tier=%s seed=%d: evaluations=%d held=%d violated=%d inconclusive=%d distinct_nontrivial=%d new_violations=%d known=%d wall=%.1fs\n",
		chk.ID, tier, seed, agg.Evaluations, agg.Held, agg.Violated, agg.Inconclusive+int64(inconclusiveKills), distinct, nNew, len(knownSeen), time.Since(t0).Seconds())
	return exit
}

// RunReplay re-executes the case recorded in a replay file.
func RunReplay(chk *Check, path string) int {
	b, err := os.ReadFile(path)
	if err != nil {
		fmt.Println(err)
		return 2
	}
	var rf struct {
		Property string `json:"property"`
		Seed     uint64 `json:"seed"`
		Tier     string `json:"tier"`
		Index    int    `json:"index"`
	}
	if err := json.Unmarshal(b, &rf); err != nil {
		fmt.Println(err)
		return 2
	}
	if rf.Property != chk.ID {
		fmt.Printf("replay file is for %s, this binary checks %s\n", rf.Property, chk.ID)
		return 2
	}
	ctx := &Ctx{Property: chk.ID, Tier: rf.Tier, Seed: rf.Seed, Index: rf.Index, Rng: CaseRng(rf.Seed, chk.ID, rf.Index), Stats: NewStats(), Replay: true}
	res := chk.Run(ctx)
	cb, _ := json.MarshalIndent(res.Case, "", " ")
	fmt.Printf("replay %s index=%d seed=%d: %s\nmonitor=%s\n%s\ncase=%s\n", chk.ID, rf.Index, rf.Seed, res.Verdict, res.Monitor, res.Detail, cb)
	if res.Verdict == Violated {
		fmt.Printf("VIOLATION property=%s replay=%s\n", chk.ID, path)
		return 1
	}
	return 0
}

// Main is the entry point of every per-property binary.
func Main(chk *Check) {
	args := os.Args[1:]
	if len(args) == 0 {
		fmt.Println("usage: <bin> run [quick|thorough] | replay <file> | one <index> | worker …")
		os.Exit(2)
	}
	switch args[0] {
	case "run":
		tier := os.Getenv("VERIF_TIER")
		if len(args) > 1 {
			tier = args[1]
		}
		if tier != "thorough" {
			tier = "quick"
		}
		os.Exit(RunParent(chk, tier))
	case "replay":
		os.Exit(RunReplay(chk, args[1]))
	case "one":
		// run a single case in-process: one <index> [tier]
		idx, _ := strconv.Atoi(args[1])
		tier := "quick"
		if len(args) > 2 {
			tier = args[2]
		}
		seed := envSeed()
		ctx := &Ctx{Property: chk.ID, Tier: tier, Seed: seed, Index: idx, Rng: CaseRng(seed, chk.ID, idx), Stats: NewStats(), Replay: true}
		res := chk.Run(ctx)
		cb, _ := json.MarshalIndent(res.Case, "", " ")
		fmt.Printf("%s index=%d: %s nontrivial=%v monitor=%s\n%s\ncase=%s\n", chk.ID, idx, res.Verdict, res.NonTrivial, res.Monitor, res.Detail, cb)
	case "worker":
		var tier, out, tag string
		var seed uint64
		var w, n, start int
		for i := 1; i+1 < len(args); i += 2 {
			switch args[i] {
			case "-tier":
				tier = args[i+1]
			case "-seed":
				seed, _ = strconv.ParseUint(args[i+1], 10, 64)
			case "-w":
				w, _ = strconv.Atoi(args[i+1])
			case "-n":
				n, _ = strconv.Atoi(args[i+1])
			case "-start":
				start, _ = strconv.Atoi(args[i+1])
			case "-out":
				out = args[i+1]
			case "-tag":
				tag = args[i+1]
			}
		}
		workerMain(chk, tier, seed, w, n, start, out, tag)
	default:
		fmt.Println("unknown command", args[0])
		os.Exit(2)
	}
}

var _ = io.EOF
