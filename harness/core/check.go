// Package core is the common machinery of the runtime monitors: deterministic case lists, worker
// isolation (one child process per slice of the case list, crash attribution through a progress file),
// three-valued verdicts, evidence and replay files, known-findings handling.
package core

import (
	"encoding/json"
	"fmt"
	"sort"
)

type Verdict int

const (
	Held Verdict = iota
	Violated
	Inconclusive
)

func (v Verdict) String() string {
	switch v {
	case Held:
		return "held"
	case Violated:
		return "violated"
	}
	return "inconclusive"
}

// Result is the outcome of one case.
type Result struct {
	Verdict    Verdict
	NonTrivial bool   // the case passed the property's non-triviality rule
	Key        string // content key of the case for distinct counting ("" = the case index)
	Monitor    string // which monitor fired (violations) / why inconclusive
	Detail     string // expected vs observed
	Signature  string // canonical form of the (minimised) witness, matched against known-findings.json
	Case       any    // the materialised case (JSON-able), written into the replay file
}

// Ctx is handed to Check.Run for every case.
type Ctx struct {
	Property string
	Tier     string // "quick" | "thorough"
	Seed     uint64
	Index    int
	Rng      *Rng
	Stats    *Stats
	Replay   bool // true when run through `replay` (checks may print more)
}

func (c *Ctx) Thorough() bool { return c.Tier == "thorough" }

// Check describes one property's workload and monitors.
type Check struct {
	ID          string
	Level       string // "exploration" | "fault_enumeration"
	Rule        string // how cases are generated and what makes one non-trivial/distinct
	Assumptions []string
	Exhaustive  bool // the case list enumerates a finite space completely (per tier)

	// Cases returns the length of the case list for a tier.
	Cases func(tier string) int
	// MinConclusive is the floor of conclusive, non-trivial cases below which the run counts as "observed nothing" (exit 3).
	MinConclusive func(tier string) int
	// Run executes one case. Negative indices -1..-NumPinned are the pinned regression witnesses.
	Run func(c *Ctx) Result
	// NumPinned is the number of pinned witnesses (run first, in every tier).
	NumPinned int
	// Binary: "" (normal), "race" (worker binary built with -race), "asan".
	Binary string
	// Workers overrides the number of worker processes (0 = one per core).
	Workers func(tier string) int
	// CaseTimeoutS is the watchdog for one case in seconds (0 = 120). Its firing is inconclusive.
	CaseTimeoutS int
	// Post is called in the parent after all workers finished; it may add evidence keys or report
	// violations computed over the whole run (e.g. race-detector logs).
	Post func(p *PostCtx)
	// Extra lets a check that handles its own driving (e.g. sanitizer sub-builds) add evidence.
}

type PostCtx struct {
	Tier     string
	Seed     uint64
	Stats    *Stats
	WorkDir  string
	Report   func(r Result, idx int) // report a violation found in post-processing
	Evidence map[string]any
}

// Stats are counters/sets merged over all workers and written into the evidence file.
type Stats struct {
	Counters map[string]int64
	Maxes    map[string]int64
	Sets     map[string]map[string]struct{}
	Samples  []any
	maxSamp  int
}

func NewStats() *Stats {
	return &Stats{Counters: map[string]int64{}, Maxes: map[string]int64{}, Sets: map[string]map[string]struct{}{}, maxSamp: 6}
}

func (s *Stats) Count(name string, n int64) { s.Counters[name] += n }
func (s *Stats) Inc(name string)            { s.Counters[name]++ }
func (s *Stats) Max(name string, v int64) {
	if cur, ok := s.Maxes[name]; !ok || v > cur {
		s.Maxes[name] = v
	}
}

// SetAdd records a member of a named set (e.g. instruction kinds executed, cells hit). Sets are capped at 5000 members.
func (s *Stats) SetAdd(name, member string) {
	m := s.Sets[name]
	if m == nil {
		m = map[string]struct{}{}
		s.Sets[name] = m
	}
	if len(m) < 5000 {
		m[member] = struct{}{}
	}
}

// Sample keeps a few materialised cases for the evidence file.
func (s *Stats) Sample(v any) {
	if len(s.Samples) < s.maxSamp {
		s.Samples = append(s.Samples, v)
	}
}

func (s *Stats) WantSample() bool { return len(s.Samples) < s.maxSamp }

type statsJSON struct {
	Counters map[string]int64    `json:"counters"`
	Maxes    map[string]int64    `json:"maxes"`
	Sets     map[string][]string `json:"sets"`
	Samples  []json.RawMessage   `json:"samples"`
}

func (s *Stats) marshal() statsJSON {
	j := statsJSON{Counters: s.Counters, Maxes: s.Maxes, Sets: map[string][]string{}}
	for k, m := range s.Sets {
		l := make([]string, 0, len(m))
		for x := range m {
			l = append(l, x)
		}
		sort.Strings(l)
		j.Sets[k] = l
	}
	for _, x := range s.Samples {
		b, err := json.Marshal(x)
		if err != nil {
			b, _ = json.Marshal(fmt.Sprint(x))
		}
		j.Samples = append(j.Samples, b)
	}
	return j
}

func (s *Stats) merge(j statsJSON) {
	for k, v := range j.Counters {
		s.Counters[k] += v
	}
	for k, v := range j.Maxes {
		s.Max(k, v)
	}
	for k, l := range j.Sets {
		for _, x := range l {
			s.SetAdd(k, x)
		}
	}
	for _, x := range j.Samples {
		if len(s.Samples) < s.maxSamp {
			s.Samples = append(s.Samples, x)
		}
	}
}

// Trunc shortens a string for reports.
func Trunc(s string, n int) string {
	if len(s) <= n {
		return s
	}
	return s[:n] + fmt.Sprintf("…(+%d bytes)", len(s)-n)
}
