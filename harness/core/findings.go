package core

import (
	"encoding/json"
	"os"
	"path/filepath"
)

// KnownFinding is one pinned, genuine defect of the code under test that was recorded rather than repaired.
// A violation is suppressed (printed as KNOWN-FINDING) only if its signature equals a listed one.
type KnownFinding struct {
	Property    string `json:"property"`
	ID          string `json:"id"`
	Signature   string `json:"signature"`
	What        string `json:"what"`
	WhyNotFixed string `json:"why_not_fixed,omitempty"`
	Witness     any    `json:"witness,omitempty"`
}

type FindingsFile struct {
	Findings []KnownFinding `json:"findings"`
	Fixed    []string       `json:"fixed"`
}

func VerifRoot() string {
	if r := os.Getenv("VERIF_ROOT"); r != "" {
		return r
	}
	return "/verif"
}

// LoadFindings reads known-findings.json and every known-findings.d/*.json (same format) under the verif root.
func LoadFindings() FindingsFile {
	var f FindingsFile
	files := []string{filepath.Join(VerifRoot(), "known-findings.json")}
	more, _ := filepath.Glob(filepath.Join(VerifRoot(), "known-findings.d", "*.json"))
	files = append(files, more...)
	for _, p := range files {
		b, err := os.ReadFile(p)
		if err != nil {
			continue
		}
		var g FindingsFile
		if json.Unmarshal(b, &g) == nil {
			f.Findings = append(f.Findings, g.Findings...)
			f.Fixed = append(f.Fixed, g.Fixed...)
		}
	}
	return f
}

func (f *FindingsFile) Match(property, signature string) *KnownFinding {
	if signature == "" {
		return nil
	}
	for i := range f.Findings {
		if f.Findings[i].Property == property && f.Findings[i].Signature == signature {
			return &f.Findings[i]
		}
	}
	return nil
}
