package core

import "math"

// Rng is a splitmix64 PRNG. Every case is a pure function of (seed, property, case index).
type Rng struct{ s uint64 }

func mix(z uint64) uint64 {
	z += 0x9e3779b97f4a7c15
	z = (z ^ (z >> 30)) * 0xbf58476d1ce4e5b9
	z = (z ^ (z >> 27)) * 0x94d049bb133111eb
	return z ^ (z >> 31)
}

func HashString(s string) uint64 {
	h := uint64(1469598103934665603)
	for i := 0; i < len(s); i++ {
		h ^= uint64(s[i])
		h *= 1099511628211
	}
	return mix(h)
}

func NewRng(seed uint64) *Rng { return &Rng{s: mix(seed)} }

// CaseRng derives the generator for one case.
func CaseRng(seed uint64, property string, idx int) *Rng {
	return &Rng{s: mix(mix(seed) ^ HashString(property) ^ mix(uint64(int64(idx))*0x2545F4914F6CDD1D+1))}
}

func (r *Rng) U64() uint64 {
	r.s += 0x9e3779b97f4a7c15
	z := r.s
	z = (z ^ (z >> 30)) * 0xbf58476d1ce4e5b9
	z = (z ^ (z >> 27)) * 0x94d049bb133111eb
	return z ^ (z >> 31)
}

// Intn returns a value in [0,n). n<=0 returns 0.
func (r *Rng) Intn(n int) int {
	if n <= 1 {
		return 0
	}
	return int(r.U64() % uint64(n))
}

// Range returns a value in [lo,hi] inclusive.
func (r *Rng) Range(lo, hi int) int {
	if hi <= lo {
		return lo
	}
	return lo + r.Intn(hi-lo+1)
}

func (r *Rng) Bool() bool { return r.U64()&1 == 1 }

// Chance returns true with probability num/den.
func (r *Rng) Chance(num, den int) bool { return r.Intn(den) < num }

func (r *Rng) Float() float64 { return float64(r.U64()>>11) / float64(1<<53) }

// Bits64 returns a float64 with uniformly random bit pattern.
func (r *Rng) Bits64() float64 { return math.Float64frombits(r.U64()) }

// Fork returns an independent generator.
func (r *Rng) Fork() *Rng { return &Rng{s: mix(r.U64())} }

func Pick[T any](r *Rng, xs []T) T { return xs[r.Intn(len(xs))] }

// PickW picks an index according to integer weights.
func (r *Rng) PickW(w []int) int {
	t := 0
	for _, x := range w {
		t += x
	}
	k := r.Intn(t)
	for i, x := range w {
		if k < x {
			return i
		}
		k -= x
	}
	return len(w) - 1
}

func (r *Rng) Shuffle(n int, swap func(i, j int)) {
	for i := n - 1; i > 0; i-- {
		j := r.Intn(i + 1)
		swap(i, j)
	}
}
