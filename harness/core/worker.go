package core

import (
	"bufio"
	"encoding/binary"
	"encoding/json"
	"fmt"
	"os"
	"path/filepath"
	"runtime/debug"
	"syscall"
	"time"
)

// violation record as written by workers and by the parent (process death).
type violRec struct {
	Index     int             `json:"index"`
	Monitor   string          `json:"monitor"`
	Detail    string          `json:"detail"`
	Signature string          `json:"signature"`
	Case      json.RawMessage `json:"case"`
}

type workerDone struct {
	Start        int       `json:"start"` // first list position handled
	Last         int       `json:"last"`  // last list position completed
	Final        bool      `json:"final"`
	Evaluations  int64     `json:"evaluations"`
	Held         int64     `json:"held"`
	Violated     int64     `json:"violated"`
	Inconclusive int64     `json:"inconclusive"`
	NonTrivial   int64     `json:"nontrivial"`
	Stats        statsJSON `json:"stats"`
}

func marshalCase(c any) json.RawMessage {
	if c == nil {
		return json.RawMessage("null")
	}
	b, err := json.Marshal(c)
	if err != nil {
		b, _ = json.Marshal(fmt.Sprintf("%+v", c))
	}
	return b
}

// workerMain runs positions p ≡ w (mod n), p >= start of the list [-NumPinned .. Cases).
func workerMain(chk *Check, tier string, seed uint64, w, n, start int, outDir, tag string) {
	if mb := os.Getenv("VERIF_MEM_MB"); mb != "" && chk.Binary == "" {
		var v uint64
		fmt.Sscan(mb, &v)
		if v > 0 {
			lim := syscall.Rlimit{Cur: v << 20, Max: v << 20}
			syscall.Setrlimit(syscall.RLIMIT_AS, &lim)
		}
	}
	debug.SetTraceback("all")
	total := chk.NumPinned + chk.Cases(tier)
	base := filepath.Join(outDir, fmt.Sprintf("w%d%s", w, tag))
	prog, err := os.OpenFile(base+".progress", os.O_CREATE|os.O_RDWR|os.O_TRUNC, 0644)
	if err != nil {
		panic(err)
	}
	violF, err := os.OpenFile(base+".viol", os.O_CREATE|os.O_WRONLY|os.O_APPEND, 0644)
	if err != nil {
		panic(err)
	}
	keysF, err := os.OpenFile(base+".keys", os.O_CREATE|os.O_WRONLY|os.O_TRUNC, 0644)
	if err != nil {
		panic(err)
	}
	keysW := bufio.NewWriterSize(keysF, 1<<16)
	stats := NewStats()
	done := workerDone{Start: start, Last: start - n}
	seen := map[uint64]struct{}{}
	var pbuf [8]byte
	lastCkpt := time.Now()
	writeDone := func(final bool) {
		done.Final = final
		done.Stats = stats.marshal()
		keysW.Flush()
		b, _ := json.Marshal(&done)
		tmp := base + ".done.tmp"
		os.WriteFile(tmp, b, 0644)
		os.Rename(tmp, base+".done")
	}
	first := start
	for first%n != w {
		first++
	}
	for p := first; p < total; p += n {
		idx := p - chk.NumPinned
		binary.LittleEndian.PutUint64(pbuf[:], uint64(int64(p)))
		prog.WriteAt(pbuf[:], 0)
		ctx := &Ctx{Property: chk.ID, Tier: tier, Seed: seed, Index: idx, Rng: CaseRng(seed, chk.ID, idx), Stats: stats}
		res := chk.Run(ctx)
		done.Evaluations++
		switch res.Verdict {
		case Held:
			done.Held++
		case Violated:
			done.Violated++
			rec := violRec{Index: idx, Monitor: res.Monitor, Detail: res.Detail, Signature: res.Signature, Case: marshalCase(res.Case)}
			b, _ := json.Marshal(&rec)
			violF.Write(append(b, '\n'))
			violF.Sync()
		case Inconclusive:
			done.Inconclusive++
			stats.Inc("inconclusive:" + res.Monitor)
		}
		if res.NonTrivial && res.Verdict != Inconclusive {
			var h uint64
			if res.Key == "" {
				h = mix(uint64(int64(idx)))
			} else {
				h = HashString(res.Key)
			}
			if _, ok := seen[h]; !ok {
				seen[h] = struct{}{}
				done.NonTrivial++
				binary.LittleEndian.PutUint64(pbuf[:], h)
				keysW.Write(pbuf[:])
			}
		}
		done.Last = p
		if time.Since(lastCkpt) > 2*time.Second {
			writeDone(false)
			lastCkpt = time.Now()
		}
	}
	writeDone(true)
}
