// Package promref is the reference promise scheduler of check C10, written from ECMA-262 (sections 27.2 Promise
// Objects, 27.7 AsyncFunction Objects, 9.5 Jobs and Host Operations). It interprets a small OP LANGUAGE (not
// JavaScript): programs of promise operations over a few promise variables; a printer (print.go) turns the same
// program into JavaScript source for the engine under test. Nothing here is derived from goja's implementation.
package promref

// ---- values as written in a program ----

type VKind int

const (
	VNum   VKind = iota // the number N
	VUndef              // undefined
	VProm               // the promise variable P (may be the promise being resolved: self-resolution)
	VThen               // a fresh thenable object of behaviour T with payload (N, or promise variable P when P >= 0)
	VAsync              // the promise returned by an immediately invoked inline async arrow with body Body
)

// ThenKind is the behaviour of a thenable's `then`.
type ThenKind int

const (
	TGood        ThenKind = iota // then(res,rej){ log; res(x) }
	TRejects                     // then(res,rej){ log; rej(x) }
	TBoth                        // res(x); rej(x+1)
	TTwice                       // res(x); res(x+1)
	TThrowAfter                  // res(x); throw x+1
	TThrows                      // throw x   (before resolving)
	TGetterThrow                 // get then(){ log; throw x }
	TNonCallable                 // then: 5   (not a thenable after all)
	TRejectFirst                 // rej(x); res(x+1)
	NThenKinds
)

var ThenKindNames = [...]string{"good", "rejects", "both", "twice", "throwAfter", "throws", "getterThrows", "nonCallable", "rejectFirst"}

type Val struct {
	K    VKind    `json:"k"`
	N    int      `json:"n,omitempty"`
	P    int      `json:"p"` // promise variable; -1 = none (VThen payload is N)
	T    ThenKind `json:"t,omitempty"`
	ID   int      `json:"id,omitempty"` // tag of the thenable / inline async function
	Body []AStep  `json:"body,omitempty"`
}

// ---- async function bodies ----

type AKind int

const (
	ALog    AKind = iota // log("a<ID>.<i>")
	AAwait               // log("a<ID>.<i>", await V)            (Catch: wrapped in try/catch logging "a<ID>.<i>c", e)
	AReturn              // return V
	AThrow               // throw V
	ADo                  // a simple operation (OpCall / OpGoCall)
)

type AStep struct {
	K     AKind `json:"k"`
	V     Val   `json:"v"`
	Catch bool  `json:"catch,omitempty"`
	Do    *Op   `json:"do,omitempty"`
}

// ---- handlers ----

type HKind int

const (
	HReturn      HKind = iota // log; return V   (V: number / undefined / promise / thenable / inline async call)
	HThrow                    // log; throw V
	HNonCallable              // the handler position holds the number 5 (ignored by then)
)

type Handler struct {
	ID     int   `json:"id"`
	K      HKind `json:"k"`
	V      Val   `json:"v"`
	Do     *Op   `json:"do,omitempty"`     // one side operation executed after the log
	Native bool  `json:"native,omitempty"` // wrapped as a Go native that calls the JS function through a Callable
}

// ---- operations ----

type OpKind int

const (
	OpNew     OpKind = iota // p<Dst> = new <Cls>(function(res,rej){ [R<Dst>=res; J<Dst>=rej;] acts… })
	OpCall                  // R<K>(V) or J<K>(V): a stashed resolving function called later
	OpThen                  // [p<Dst> =] p<Src>.then(F, R)
	OpCatch                 // [p<Dst> =] p<Src>.catch(R)
	OpFinally               // [p<Dst> =] p<Src>.finally(F)
	OpStatic                // [p<Dst> =] <Cls>.resolve(V) / reject(V) / all(Items) / allSettled / race / any
	OpAsync                 // [p<Dst> =] (async function a<ID>(){ body })()   (Arrow: async arrow)
	OpGoCall                // gores(G, V) / gorej(G, V): the Go-side resolver of a NewPromise() promise called from a native
	OpLog                   // log("s<ID>")
	OpSetCtor               // give p<Src> an OWN "constructor" property (data or logging accessor), see CtorSpec
	NOpKinds
)

var OpKindNames = [...]string{"new", "call", "then", "catch", "finally", "static", "async", "gocall", "log", "setctor"}

type Cls int

const (
	ClsPromise Cls = iota
	ClsP           // class MyP extends Promise { constructor(e){ log("ctorP"); super(e) } }   species = MyP
	ClsQ           // class MyQ extends Promise { …log("ctorQ")…; static get [Symbol.species](){ return Promise } }
)

var ClsNames = [...]string{"Promise", "MyP", "MyQ"}

// CtorVal is what an own "constructor" property of a promise evaluates to.
type CtorVal int

const (
	CvUndef CtorVal = iota
	CvObject
	CvPromise
	CvMyP
	CvMyQ
	NCtorVals
)

var CtorValNames = [...]string{"undefined", "Object", "Promise", "MyP", "MyQ"}

// CtorSpec: p.constructor = <Val>   or   Object.defineProperty(p, "constructor", {get(){ log("gc<ID>"); return <Val> }, configurable: true})
// or, with Throws, a getter that logs and then throws the number N.
type CtorSpec struct {
	Getter bool    `json:"getter,omitempty"`
	Throws bool    `json:"throws,omitempty"`
	N      int     `json:"n,omitempty"`
	Val    CtorVal `json:"val"`
	ID     int     `json:"id,omitempty"`
}

type ActKind int

const (
	ActResolve ActKind = iota
	ActReject
	ActThrow
	ActLog
)

type Act struct {
	K  ActKind `json:"k"`
	V  Val     `json:"v"`
	ID int     `json:"id,omitempty"`
}

type StaticKind int

const (
	StResolve StaticKind = iota
	StReject
	StAll
	StAllSettled
	StRace
	StAny
)

var StaticNames = [...]string{"resolve", "reject", "all", "allSettled", "race", "any"}

type Op struct {
	K      OpKind     `json:"k"`
	Dst    int        `json:"dst"` // variable assigned, -1 = result discarded
	Src    int        `json:"src,omitempty"`
	Cls    Cls        `json:"cls,omitempty"`
	Stash  bool       `json:"stash,omitempty"`
	Acts   []Act      `json:"acts,omitempty"`
	Reject bool       `json:"reject,omitempty"` // OpCall / OpGoCall: the reject function
	V      Val        `json:"v"`
	F      *Handler   `json:"f,omitempty"`
	R      *Handler   `json:"r,omitempty"`
	St     StaticKind `json:"st,omitempty"`
	Items  []Val      `json:"items,omitempty"`
	ID     int        `json:"id,omitempty"`
	Arrow  bool       `json:"arrow,omitempty"`
	Body   []AStep    `json:"body,omitempty"`
	Ctor   *CtorSpec  `json:"ctor,omitempty"`
}

// GoStep is a call of a NewPromise() resolver made by Go between runs.
type GoStep struct {
	G      int  `json:"g"` // promise variable (must be in Program.GoVars)
	Reject bool `json:"reject,omitempty"`
	V      Val  `json:"v"` // VNum, VUndef or VProm
}

const MaxVars = 5

// Program: up to 12 operations over up to 5 promise variables, cut into up to 3 segments (one outermost run each),
// plus up to 3 Go-side steps; a Schedule interleaves the two sequences.
type Program struct {
	Segs    [][]Op   `json:"segs"`
	GoVars  []int    `json:"govars,omitempty"` // variables that hold promises created by Runtime.NewPromise() before the first run
	GoSteps []GoStep `json:"gosteps,omitempty"`
}

// Step of a schedule: Run >= 0 runs that segment; otherwise Go is the index of the Go-side step.
type Step struct {
	Run int `json:"run"`
	Go  int `json:"go"`
}

// Interleavings returns every merge of the segment sequence with the Go-step sequence (each keeps its own order).
func (p *Program) Interleavings() [][]Step {
	var out [][]Step
	var rec func(i, j int, cur []Step)
	rec = func(i, j int, cur []Step) {
		if i == len(p.Segs) && j == len(p.GoSteps) {
			out = append(out, append([]Step(nil), cur...))
			return
		}
		if i < len(p.Segs) {
			rec(i+1, j, append(cur, Step{Run: i, Go: -1}))
		}
		if j < len(p.GoSteps) {
			rec(i, j+1, append(cur, Step{Run: -1, Go: j}))
		}
	}
	rec(0, 0, nil)
	return out
}

func (p *Program) NumOps() int {
	n := 0
	for _, s := range p.Segs {
		n += len(s)
	}
	return n
}
