package promref

import (
	"fmt"
	"strings"
)

func (m *M) varValue(k int) Value {
	if k < 0 || k >= MaxVars || m.Vars[k] == nil {
		return Undefined
	}
	return m.Vars[k]
}

// eval evaluates a program value (creating thenables / calling inline async arrows as a side effect).
func (m *M) eval(v Val) Value {
	switch v.K {
	case VNum:
		return Num(v.N)
	case VUndef:
		return Undefined
	case VProm:
		return m.varValue(v.P)
	case VThen:
		var payload Value = Num(v.N)
		if v.P >= 0 {
			payload = m.varValue(v.P)
		}
		return &Thenable{ID: v.ID, Kind: v.T, Payload: payload}
	case VAsync:
		return m.asyncCall(v.ID, v.Body)
	}
	return Undefined
}

// handlerFunc turns a handler description into a callable (nil handler => undefined => pass-through).
func (m *M) handlerFunc(h *Handler, isFinally bool) Value {
	if h == nil {
		return Undefined
	}
	if h.K == HNonCallable {
		return Num(5)
	}
	return &Func{Call: func(this Value, args []Value) (Value, bool) {
		tag := fmt.Sprintf("h%d", h.ID)
		if isFinally {
			m.log(tag, Num(len(args)))
		} else {
			m.log(tag, arg(args, 0))
		}
		if h.Do != nil {
			if thrown, ok := m.exec(h.Do); !ok {
				return thrown, false
			}
		}
		v := m.eval(h.V)
		return v, h.K != HThrow
	}}
}

func (m *M) assign(dst int, v Value) {
	if dst < 0 {
		return
	}
	if p, ok := v.(*Promise); ok {
		m.Vars[dst] = p
	}
}

// exec executes one operation; ok=false: it completed abruptly (thrown is the exception) and assigned nothing.
func (m *M) exec(op *Op) (thrown Value, ok bool) {
	switch op.K {
	case OpNew:
		executor := &Func{Call: func(this Value, args []Value) (Value, bool) {
			res, _ := arg(args, 0).(*Func)
			rej, _ := arg(args, 1).(*Func)
			if op.Stash {
				m.stashR[op.Dst], m.stashJ[op.Dst] = res, rej
			}
			for _, a := range op.Acts {
				switch a.K {
				case ActLog:
					m.log(fmt.Sprintf("x%d", a.ID))
				case ActResolve:
					res.Call(Undefined, []Value{m.eval(a.V)})
				case ActReject:
					rej.Call(Undefined, []Value{m.eval(a.V)})
				case ActThrow:
					return m.eval(a.V), false
				}
			}
			return Undefined, true
		}}
		p, _ := m.construct(op.Cls, executor)
		m.assign(op.Dst, p)
	case OpCall:
		f := m.stashR[op.Src]
		if op.Reject {
			f = m.stashJ[op.Src]
		}
		v := m.eval(op.V)
		if f != nil {
			f.Call(Undefined, []Value{v})
		}
	case OpGoCall:
		f := m.goR[op.Src]
		if op.Reject {
			f = m.goJ[op.Src]
		}
		v := m.eval(op.V)
		if f != nil {
			f.Call(Undefined, []Value{v})
		}
	case OpThen:
		v, ok := m.invokeThen(m.varValue(op.Src), m.handlerFunc(op.F, false), m.handlerFunc(op.R, false))
		if !ok {
			return v, false
		}
		m.assign(op.Dst, v)
	case OpCatch:
		v, ok := m.Catch(m.varValue(op.Src), m.handlerFunc(op.R, false))
		if !ok {
			return v, false
		}
		m.assign(op.Dst, v)
	case OpFinally:
		src := m.varValue(op.Src)
		if !isObject(src) {
			return &ErrObj{Ctor: "TypeError"}, false
		}
		v, ok := m.Finally(src, m.handlerFunc(op.F, true))
		if !ok {
			return v, false
		}
		m.assign(op.Dst, v)
	case OpStatic:
		var v Value
		switch op.St {
		case StResolve:
			var ok bool
			if v, ok = m.promiseResolve(op.Cls, m.eval(op.V)); !ok {
				return v, false
			}
		case StReject:
			v = m.promiseReject(op.Cls, m.eval(op.V))
		default:
			items := make([]Value, len(op.Items))
			for i, it := range op.Items {
				items[i] = m.eval(it)
			}
			v = m.combinator(op.St, op.Cls, items)
		}
		m.assign(op.Dst, v)
	case OpAsync:
		m.assign(op.Dst, m.asyncCall(op.ID, op.Body))
	case OpLog:
		m.log(fmt.Sprintf("s%d", op.ID))
	case OpSetCtor:
		p, isP := m.varValue(op.Src).(*Promise)
		if !isP {
			// the variable was never assigned (the operation that should have assigned it threw): property access on undefined
			return &ErrObj{Ctor: "TypeError"}, false
		}
		if op.Ctor != nil {
			if p.ctorOv != nil && p.ctorOv.Getter && !op.Ctor.Getter {
				// sloppy-mode assignment to an accessor property without a setter: silently ignored (OrdinarySet returns false)
				break
			}
			c := *op.Ctor
			p.ctorOv = &c
		}
	}
	return nil, true
}

// StepResult is what the model predicts to be observable after one step of the schedule.
type StepResult struct {
	Log     []string // handler log entries appended during this step (promise names unresolved: P@seq;)
	Tracker []string
	States  [MaxVars]string // "-" (variable unassigned) or "<state> <result>"
}

type Trace struct {
	Steps []StepResult
	M     *M
}

func New(p *Program) *M {
	m := &M{prog: p}
	for _, g := range p.GoVars {
		// Runtime.NewPromise(): an ordinary promise whose resolving functions are held by the host
		pr := m.newPromise(ClsPromise)
		m.Vars[g] = pr
		m.goR[g], m.goJ[g] = m.createResolvingFunctions(pr)
	}
	return m
}

func stateName(s int) string {
	switch s {
	case Pending:
		return "pending"
	case Fulfilled:
		return "fulfilled"
	}
	return "rejected"
}

func (m *M) snapshot() (st [MaxVars]string) {
	for i, p := range m.Vars {
		if p == nil {
			st[i] = "-"
			continue
		}
		st[i] = stateName(p.State)
		if p.State != Pending {
			st[i] += " " + Render(p.Result)
		}
	}
	return
}

// RunSegment executes the operations of one segment as one outermost call, then drains the queue.
func (m *M) RunSegment(seg int) {
	for i := range m.prog.Segs[seg] {
		m.origin = seg*100 + i + 1
		if thrown, ok := m.exec(&m.prog.Segs[seg][i]); !ok {
			// the printer guards every statement that can throw: try { … } catch (e) { log("thrown", e) }
			m.log("thrown", thrown)
		}
	}
	m.origin = 0
	m.Drain()
}

// RunGoStep is an outermost call of a host-held resolving function, then the drain.
func (m *M) RunGoStep(i int) {
	gs := &m.prog.GoSteps[i]
	f := m.goR[gs.G]
	if gs.Reject {
		f = m.goJ[gs.G]
	}
	m.origin = 1000 + i
	if f != nil {
		f.Call(Undefined, []Value{m.eval(gs.V)})
	}
	m.origin = 0
	m.Drain()
}

// Run executes the program under a schedule.
func Run(p *Program, sched []Step) *Trace {
	m := New(p)
	t := &Trace{M: m}
	for _, s := range sched {
		l0, t0 := len(m.Log), len(m.Tracker)
		if s.Run >= 0 {
			m.RunSegment(s.Run)
		} else {
			m.RunGoStep(s.Go)
		}
		t.Steps = append(t.Steps, StepResult{
			Log:     append([]string(nil), m.Log[l0:]...),
			Tracker: append([]string(nil), m.Tracker[t0:]...),
			States:  m.snapshot(),
		})
	}
	return t
}

// Name replaces the P@<seq>; placeholders of a rendered line by the variable name of that promise (final assignment) or "P?".
func (m *M) Name(line string) string {
	if !strings.Contains(line, "P@") {
		return line
	}
	var b strings.Builder
	for {
		i := strings.Index(line, "P@")
		if i < 0 {
			b.WriteString(line)
			break
		}
		j := strings.IndexByte(line[i:], ';')
		var seq int
		fmt.Sscanf(line[i+2:i+j], "%d", &seq)
		b.WriteString(line[:i])
		name := "P?"
		for k, p := range m.Vars {
			if p != nil && p.Seq == seq {
				name = fmt.Sprintf("P%d", k)
			}
		}
		b.WriteString(name)
		line = line[i+j+1:]
	}
	return b.String()
}

// Interleaved reports the property's non-triviality rule: at least 3 reaction jobs from at least 2 chains
// (a chain = the operation that registered the reaction) ran, and they interleaved (some chain ran, another ran, the first ran again).
func (m *M) Interleaved() bool {
	if len(m.RunOrigins) < 3 {
		return false
	}
	seen := map[int]bool{}
	last := -1
	for _, o := range m.RunOrigins {
		if o != last {
			if seen[o] {
				return len(seen) >= 2
			}
			seen[o] = true
			last = o
		}
	}
	return false
}
