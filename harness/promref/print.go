package promref

import (
	"fmt"
	"strings"
)

// Prelude is run once (one outermost call that queues no job) before a program; the host provides
// log(tag[, value]), probe(), gonative(f), gores(k, v), gorej(k, v).
const PreludeVars = `var p0, p1, p2, p3, p4, R0, R1, R2, R3, R4, J0, J1, J2, J3, J4;
`

const PreludeClasses = `class MyP extends Promise { constructor(e) { log("ctorP"); super(e); } }
class MyQ extends Promise { constructor(e) { log("ctorQ"); super(e); } static get [Symbol.species]() { return Promise; } }
`

const PreludeThenables = `function mkT(id, kind, x) {
  var y = (typeof x === "number") ? x + 1 : x;
  var t = {__t: id};
  if (kind === "getterThrows") { Object.defineProperty(t, "then", {get: function() { log("tg" + id); probe(); throw x; }}); return t; }
  if (kind === "nonCallable") { t.then = 5; return t; }
  t.then = function(res, rej) {
    log("t" + id); probe();
    switch (kind) {
    case "good": res(x); break;
    case "rejects": rej(x); break;
    case "both": res(x); rej(y); break;
    case "twice": res(x); res(y); break;
    case "throwAfter": res(x); throw y;
    case "throws": throw x;
    case "rejectFirst": rej(x); res(y); break;
    }
  };
  return t;
}
`

// Prelude is the whole prelude (the check runs only the parts a program uses).
const Prelude = PreludeVars + PreludeClasses + PreludeThenables

// Printer options.
type PrintOpts struct {
	NoNative bool // print Native handlers as plain functions
	Guard    bool // wrap every top-level statement that can throw in try { … } catch (e) { log("thrown", e); } (programs with a throwing "constructor" getter)
}

// canThrow: then/catch/finally read "constructor" (SpeciesConstructor), Promise.resolve does (PromiseResolve), and all of
// them as well as a constructor assignment fail on a variable left unassigned by an earlier throwing statement.
func canThrow(op *Op) bool {
	switch op.K {
	case OpThen, OpCatch, OpFinally, OpSetCtor:
		return true
	case OpStatic:
		return op.St == StResolve
	}
	return false
}

type printer struct {
	b    strings.Builder
	opts PrintOpts
}

func (pr *printer) val(v Val) string {
	switch v.K {
	case VNum:
		return fmt.Sprint(v.N)
	case VUndef:
		return "undefined"
	case VProm:
		return fmt.Sprintf("p%d", v.P)
	case VThen:
		payload := fmt.Sprint(v.N)
		if v.P >= 0 {
			payload = fmt.Sprintf("p%d", v.P)
		}
		return fmt.Sprintf("mkT(%d, %q, %s)", v.ID, ThenKindNames[v.T], payload)
	case VAsync:
		return "(async () => { " + pr.body(v.ID, v.Body) + "})()"
	}
	return "undefined"
}

func (pr *printer) body(id int, body []AStep) string {
	var b strings.Builder
	for i, s := range body {
		tag := fmt.Sprintf("a%d.%d", id, i)
		switch s.K {
		case ALog:
			fmt.Fprintf(&b, "log(%q); probe(); ", tag)
		case AAwait:
			if s.Catch {
				fmt.Fprintf(&b, "try { log(%q, await %s); probe(); } catch (e) { log(%q, e); probe(); } ", tag, pr.val(s.V), tag+"c")
			} else {
				fmt.Fprintf(&b, "log(%q, await %s); probe(); ", tag, pr.val(s.V))
			}
		case AReturn:
			fmt.Fprintf(&b, "return %s; ", pr.val(s.V))
		case AThrow:
			fmt.Fprintf(&b, "throw %s; ", pr.val(s.V))
		case ADo:
			b.WriteString(pr.op(s.Do) + " ")
		}
	}
	return b.String()
}

func (pr *printer) handler(h *Handler, isFinally bool) string {
	if h == nil {
		return "undefined"
	}
	if h.K == HNonCallable {
		return "5"
	}
	var b strings.Builder
	if isFinally {
		fmt.Fprintf(&b, "function() { log(\"h%d\", arguments.length); probe(); ", h.ID)
	} else {
		fmt.Fprintf(&b, "function(v) { log(\"h%d\", v); probe(); ", h.ID)
	}
	if h.Do != nil {
		b.WriteString(pr.op(h.Do) + " ")
	}
	if h.K == HThrow {
		fmt.Fprintf(&b, "throw %s; }", pr.val(h.V))
	} else {
		fmt.Fprintf(&b, "return %s; }", pr.val(h.V))
	}
	if h.Native && !pr.opts.NoNative {
		return "gonative(" + b.String() + ")"
	}
	return b.String()
}

// op prints one operation as a statement.
func (pr *printer) op(op *Op) string {
	dst := ""
	if op.Dst >= 0 {
		dst = fmt.Sprintf("p%d = ", op.Dst)
	}
	switch op.K {
	case OpNew:
		var b strings.Builder
		fmt.Fprintf(&b, "%snew %s(function(res, rej) { ", dst, ClsNames[op.Cls])
		if op.Stash {
			fmt.Fprintf(&b, "R%d = res; J%d = rej; ", op.Dst, op.Dst)
		}
		for _, a := range op.Acts {
			switch a.K {
			case ActLog:
				fmt.Fprintf(&b, "log(\"x%d\"); probe(); ", a.ID)
			case ActResolve:
				fmt.Fprintf(&b, "res(%s); ", pr.val(a.V))
			case ActReject:
				fmt.Fprintf(&b, "rej(%s); ", pr.val(a.V))
			case ActThrow:
				fmt.Fprintf(&b, "throw %s; ", pr.val(a.V))
			}
		}
		b.WriteString("});")
		return b.String()
	case OpCall:
		f := "R"
		if op.Reject {
			f = "J"
		}
		return fmt.Sprintf("%s%d(%s);", f, op.Src, pr.val(op.V))
	case OpGoCall:
		f := "gores"
		if op.Reject {
			f = "gorej"
		}
		return fmt.Sprintf("%s(%d, %s);", f, op.Src, pr.val(op.V))
	case OpThen:
		return fmt.Sprintf("%sp%d.then(%s, %s);", dst, op.Src, pr.handler(op.F, false), pr.handler(op.R, false))
	case OpCatch:
		return fmt.Sprintf("%sp%d.catch(%s);", dst, op.Src, pr.handler(op.R, false))
	case OpFinally:
		return fmt.Sprintf("%sp%d.finally(%s);", dst, op.Src, pr.handler(op.F, true))
	case OpStatic:
		switch op.St {
		case StResolve, StReject:
			return fmt.Sprintf("%s%s.%s(%s);", dst, ClsNames[op.Cls], StaticNames[op.St], pr.val(op.V))
		}
		items := make([]string, len(op.Items))
		for i, it := range op.Items {
			items[i] = pr.val(it)
		}
		return fmt.Sprintf("%s%s.%s([%s]);", dst, ClsNames[op.Cls], StaticNames[op.St], strings.Join(items, ", "))
	case OpAsync:
		if op.Arrow {
			return fmt.Sprintf("%s(async () => { %s})();", dst, pr.body(op.ID, op.Body))
		}
		return fmt.Sprintf("%s(async function a%d() { %s})();", dst, op.ID, pr.body(op.ID, op.Body))
	case OpLog:
		return fmt.Sprintf("log(\"s%d\");", op.ID)
	case OpSetCtor:
		if op.Ctor.Getter && op.Ctor.Throws {
			return fmt.Sprintf("Object.defineProperty(p%d, \"constructor\", {get: function() { log(\"gc%d\"); throw %d; }, configurable: true});", op.Src, op.Ctor.ID, op.Ctor.N)
		}
		if op.Ctor.Getter {
			return fmt.Sprintf("Object.defineProperty(p%d, \"constructor\", {get: function() { log(\"gc%d\"); return %s; }, configurable: true});", op.Src, op.Ctor.ID, CtorValNames[op.Ctor.Val])
		}
		return fmt.Sprintf("p%d.constructor = %s;", op.Src, CtorValNames[op.Ctor.Val])
	}
	return ";"
}

// PrintOps prints a list of operations as statements separated by probe() calls.
func PrintOps(ops []Op, opts PrintOpts) string {
	pr := &printer{opts: opts}
	var b strings.Builder
	for i := range ops {
		if opts.Guard && canThrow(&ops[i]) {
			b.WriteString("try { " + pr.op(&ops[i]) + " } catch (e) { log(\"thrown\", e); }")
		} else {
			b.WriteString(pr.op(&ops[i]))
		}
		b.WriteString("\nprobe();\n")
	}
	return b.String()
}

// PrintSegment prints segment i of a program.
func PrintSegment(p *Program, i int, opts PrintOpts) string { return PrintOps(p.Segs[i], opts) }

// HasThrowingCtor reports whether some operation installs a throwing "constructor" getter (then statements are guarded).
func (p *Program) HasThrowingCtor() bool {
	for _, s := range p.Segs {
		for i := range s {
			if s[i].K == OpSetCtor && s[i].Ctor != nil && s[i].Ctor.Getter && s[i].Ctor.Throws {
				return true
			}
		}
	}
	return false
}
