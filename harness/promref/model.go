package promref

import (
	"fmt"
	"strings"
)

// ---- model values ----

type Value interface{}

type undef struct{}

var Undefined Value = undef{}

type Num int

const (
	Pending = iota
	Fulfilled
	Rejected
)

// Promise is a promise record (27.2.6): [[PromiseState]], [[PromiseResult]], the two reaction lists, [[PromiseIsHandled]].
type Promise struct {
	Seq      int
	State    int
	Result   Value
	fulfillR []*reaction
	rejectR  []*reaction
	Handled  bool
	Cls      Cls       // the class whose prototype the promise inherits from (what an inherited `constructor` evaluates to)
	ctorOv   *CtorSpec // own "constructor" property shadowing the inherited one
}

// ctorKind is the value of Get(promise, "constructor") in this model: one of the three promise classes, Object, or undefined.
type ctorKind int

const (
	ckPromise ctorKind = iota
	ckP
	ckQ
	ckObject
	ckUndef
)

// getCtor is Get(p, "constructor"): an own property (data, or an accessor whose getter logs) shadows %Promise.prototype%.constructor.
// ok=false: the getter threw; thrown is the value.
func (m *M) getCtor(p *Promise) (k ctorKind, thrown Value, ok bool) {
	ov := p.ctorOv
	if ov == nil {
		return ctorKind(p.Cls), nil, true
	}
	if ov.Getter {
		m.log(fmt.Sprintf("gc%d", ov.ID))
		if ov.Throws {
			return ckUndef, Num(ov.N), false
		}
	}
	switch ov.Val {
	case CvObject:
		return ckObject, nil, true
	case CvPromise:
		return ckPromise, nil, true
	case CvMyP:
		return ckP, nil, true
	case CvMyQ:
		return ckQ, nil, true
	}
	return ckUndef, nil, true
}

// speciesConstructor is 7.3.22 SpeciesConstructor(p, %Promise%): Get constructor; undefined -> default; Get @@species
// (Object has none -> default; Promise and MyP inherit the getter returning `this`; MyQ's own getter returns Promise).
func (m *M) speciesConstructor(p *Promise) (c Cls, thrown Value, ok bool) {
	k, thrown, ok := m.getCtor(p)
	if !ok {
		return ClsPromise, thrown, false
	}
	if k == ckP {
		return ClsP, nil, true
	}
	return ClsPromise, nil, true
}

type Thenable struct {
	ID      int
	Kind    ThenKind
	Payload Value
}

type Arr struct{ Elems []Value }

type Settled struct {
	Status string // "fulfilled" | "rejected"
	V      Value
}

type ErrObj struct {
	Ctor   string
	Errors *Arr // AggregateError only
}

// Func is a callable value. ok=false means the call completed abruptly and v is the thrown value.
type Func struct {
	Call func(this Value, args []Value) (v Value, ok bool)
}

type capability struct {
	promise Value
	resolve *Func
	reject  *Func
}

type reaction struct {
	cap     *capability // nil: await
	fulfill bool
	handler *Func // nil: pass through
	origin  int
}

type job struct {
	run    func()
	origin int
	id     int
}

// M is the abstract machine: one FIFO job queue, the handler log, the rejection-tracker log.
type M struct {
	queue   []job
	Log     []string
	Tracker []string
	seq     int
	Vars    [MaxVars]*Promise
	stashR  [MaxVars]*Func
	stashJ  [MaxVars]*Func
	goR     [MaxVars]*Func
	goJ     [MaxVars]*Func
	origin  int

	// evidence
	Enqueued, Ran  int
	MaxQueue       int
	RunOrigins     []int // origin of each job in execution order
	prog           *Program
	promisesBySeq  []*Promise
	jobSeq         int
	ReactionJobs   int
	ThenableJobs   int
	TrackerRejects int
	TrackerHandles int
}

func arg(args []Value, i int) Value {
	if i < len(args) {
		return args[i]
	}
	return Undefined
}

func isObject(v Value) bool {
	switch v.(type) {
	case *Promise, *Thenable, *Arr, *Settled, *ErrObj, *Func:
		return true
	}
	return false
}

func (m *M) newPromise(cls Cls) *Promise {
	m.seq++
	p := &Promise{Seq: m.seq, Cls: cls}
	m.promisesBySeq = append(m.promisesBySeq, p)
	return p
}

func (m *M) log(tag string, v ...Value) {
	if len(v) == 0 {
		m.Log = append(m.Log, tag)
		return
	}
	m.Log = append(m.Log, tag+" "+Render(v[0]))
}

// Render is the canonical rendering of a value; promises are rendered as P@<seq> and named at the end (see Name).
func Render(v Value) string {
	switch x := v.(type) {
	case undef:
		return "u"
	case Num:
		return fmt.Sprintf("n:%d", int(x))
	case *Promise:
		return fmt.Sprintf("P@%d;", x.Seq)
	case *Thenable:
		return fmt.Sprintf("T%d", x.ID)
	case *Arr:
		parts := make([]string, len(x.Elems))
		for i, e := range x.Elems {
			parts[i] = Render(e)
		}
		return "[" + strings.Join(parts, ",") + "]"
	case *Settled:
		return "{" + x.Status + ":" + Render(x.V) + "}"
	case *ErrObj:
		if x.Errors != nil {
			return "E:" + x.Ctor + Render(x.Errors)
		}
		return "E:" + x.Ctor
	case *Func:
		return "f"
	case nil:
		return "u"
	}
	return fmt.Sprintf("?%T", v)
}

// ---- 9.5.4 HostEnqueuePromiseJob: one FIFO queue ----

func (m *M) enqueue(run func()) {
	m.jobSeq++
	m.queue = append(m.queue, job{run: run, origin: m.origin, id: m.jobSeq})
	m.Enqueued++
	if len(m.queue) > m.MaxQueue {
		m.MaxQueue = len(m.queue)
	}
}

// Drain runs jobs until the queue is empty (the execution context stack is empty: the outermost call has returned).
func (m *M) Drain() {
	for len(m.queue) > 0 {
		j := m.queue[0]
		m.queue = m.queue[1:]
		saved := m.origin
		m.origin = j.origin
		m.Ran++
		m.RunOrigins = append(m.RunOrigins, j.origin)
		j.run()
		m.origin = saved
	}
}

// ---- 27.2.1.3 CreateResolvingFunctions ----

func (m *M) createResolvingFunctions(p *Promise) (resolve, reject *Func) {
	alreadyResolved := false
	resolve = &Func{Call: func(this Value, args []Value) (Value, bool) {
		// 27.2.1.3.2 Promise Resolve Functions
		if alreadyResolved {
			return Undefined, true
		}
		alreadyResolved = true
		resolution := arg(args, 0)
		if rp, ok := resolution.(*Promise); ok && rp == p {
			m.rejectPromise(p, &ErrObj{Ctor: "TypeError"})
			return Undefined, true
		}
		if !isObject(resolution) {
			m.fulfillPromise(p, resolution)
			return Undefined, true
		}
		then, ok := m.get(resolution, "then")
		if !ok {
			m.rejectPromise(p, then)
			return Undefined, true
		}
		thenF, callable := then.(*Func)
		if !callable {
			m.fulfillPromise(p, resolution)
			return Undefined, true
		}
		// 27.2.2.2 NewPromiseResolveThenableJob
		m.ThenableJobs++
		m.enqueue(func() {
			res, rej := m.createResolvingFunctions(p)
			v, ok := thenF.Call(resolution, []Value{res, rej})
			if !ok {
				rej.Call(Undefined, []Value{v})
			}
		})
		return Undefined, true
	}}
	reject = &Func{Call: func(this Value, args []Value) (Value, bool) {
		// 27.2.1.3.1 Promise Reject Functions
		if alreadyResolved {
			return Undefined, true
		}
		alreadyResolved = true
		m.rejectPromise(p, arg(args, 0))
		return Undefined, true
	}}
	return
}

// 27.2.1.4 FulfillPromise
func (m *M) fulfillPromise(p *Promise, v Value) {
	reactions := p.fulfillR
	p.Result = v
	p.fulfillR, p.rejectR = nil, nil
	p.State = Fulfilled
	m.triggerPromiseReactions(reactions, v)
}

// 27.2.1.7 RejectPromise
func (m *M) rejectPromise(p *Promise, reason Value) {
	reactions := p.rejectR
	p.Result = reason
	p.fulfillR, p.rejectR = nil, nil
	p.State = Rejected
	if !p.Handled {
		m.track(p, "reject")
	}
	m.triggerPromiseReactions(reactions, reason)
}

// 27.2.1.9 HostPromiseRejectionTracker
func (m *M) track(p *Promise, op string) {
	if op == "reject" {
		m.TrackerRejects++
	} else {
		m.TrackerHandles++
	}
	m.Tracker = append(m.Tracker, op+" "+Render(p))
}

// 27.2.1.8 TriggerPromiseReactions
func (m *M) triggerPromiseReactions(reactions []*reaction, argument Value) {
	for _, r := range reactions {
		m.enqueueReactionJob(r, argument)
	}
}

// 27.2.2.1 NewPromiseReactionJob
func (m *M) enqueueReactionJob(r *reaction, argument Value) {
	saved := m.origin
	m.origin = r.origin
	m.ReactionJobs++
	m.enqueue(func() {
		var result Value
		ok := true
		if r.handler == nil {
			result = argument
			ok = r.fulfill
		} else {
			result, ok = r.handler.Call(Undefined, []Value{argument})
		}
		if r.cap == nil {
			return
		}
		if ok {
			r.cap.resolve.Call(Undefined, []Value{result})
		} else {
			r.cap.reject.Call(Undefined, []Value{result})
		}
	})
	m.origin = saved
}

// get is [[Get]] restricted to the property "then" of the object kinds of this model.
func (m *M) get(o Value, key string) (Value, bool) {
	if key != "then" {
		return Undefined, true
	}
	switch x := o.(type) {
	case *Promise:
		return m.builtinThen(), true
	case *Thenable:
		return m.thenableThen(x)
	}
	return Undefined, true
}

func (m *M) thenableThen(t *Thenable) (Value, bool) {
	switch t.Kind {
	case TGetterThrow:
		m.log(fmt.Sprintf("tg%d", t.ID))
		return t.Payload, false
	case TNonCallable:
		return Num(5), true
	}
	next := func() Value {
		if n, ok := t.Payload.(Num); ok {
			return n + 1
		}
		return t.Payload
	}
	return &Func{Call: func(this Value, args []Value) (Value, bool) {
		m.log(fmt.Sprintf("t%d", t.ID))
		res, _ := arg(args, 0).(*Func)
		rej, _ := arg(args, 1).(*Func)
		call := func(f *Func, v Value) {
			if f != nil {
				f.Call(Undefined, []Value{v})
			}
		}
		switch t.Kind {
		case TGood:
			call(res, t.Payload)
		case TRejects:
			call(rej, t.Payload)
		case TBoth:
			call(res, t.Payload)
			call(rej, next())
		case TTwice:
			call(res, t.Payload)
			call(res, next())
		case TThrowAfter:
			call(res, t.Payload)
			return next(), false
		case TThrows:
			return t.Payload, false
		case TRejectFirst:
			call(rej, t.Payload)
			call(res, next())
		}
		return Undefined, true
	}}, true
}

// ---- 27.2.1.5 NewPromiseCapability, 27.2.3.1 Promise ( executor ) ----

func (m *M) construct(cls Cls, executor *Func) (Value, bool) {
	switch cls {
	case ClsP:
		m.log("ctorP")
	case ClsQ:
		m.log("ctorQ")
	}
	// Promise(executor) with NewTarget = cls
	p := m.newPromise(cls)
	res, rej := m.createResolvingFunctions(p)
	v, ok := executor.Call(Undefined, []Value{res, rej})
	if !ok {
		rej.Call(Undefined, []Value{v})
	}
	return p, true
}

func (m *M) newPromiseCapability(cls Cls) *capability {
	c := &capability{}
	var resolve, reject Value = Undefined, Undefined
	executor := &Func{Call: func(this Value, args []Value) (Value, bool) {
		// 27.2.1.5.1 GetCapabilitiesExecutor Functions
		if resolve != Undefined || reject != Undefined {
			return &ErrObj{Ctor: "TypeError"}, false
		}
		resolve, reject = arg(args, 0), arg(args, 1)
		return Undefined, true
	}}
	p, _ := m.construct(cls, executor)
	c.promise = p
	c.resolve, _ = resolve.(*Func)
	c.reject, _ = reject.(*Func)
	return c
}

// ---- 27.2.5.4 Promise.prototype.then, 27.2.5.4.1 PerformPromiseThen ----

func (m *M) builtinThen() *Func {
	return &Func{Call: func(this Value, args []Value) (Value, bool) {
		p, ok := this.(*Promise)
		if !ok {
			return &ErrObj{Ctor: "TypeError"}, false
		}
		c, thrown, ok := m.speciesConstructor(p)
		if !ok {
			return thrown, false
		}
		cap := m.newPromiseCapability(c)
		return m.performPromiseThen(p, arg(args, 0), arg(args, 1), cap), true
	}}
}

func (m *M) performPromiseThen(p *Promise, onFulfilled, onRejected Value, cap *capability) Value {
	f, _ := onFulfilled.(*Func)
	r, _ := onRejected.(*Func)
	fr := &reaction{cap: cap, fulfill: true, handler: f, origin: m.origin}
	rr := &reaction{cap: cap, fulfill: false, handler: r, origin: m.origin}
	switch p.State {
	case Pending:
		p.fulfillR = append(p.fulfillR, fr)
		p.rejectR = append(p.rejectR, rr)
	case Fulfilled:
		m.enqueueReactionJob(fr, p.Result)
	default:
		if !p.Handled {
			m.track(p, "handle")
		}
		m.enqueueReactionJob(rr, p.Result)
	}
	p.Handled = true
	if cap == nil {
		return Undefined
	}
	return cap.promise
}

// invokeThen is Invoke(v, "then", args…).
func (m *M) invokeThen(v Value, args ...Value) (Value, bool) {
	if !isObject(v) {
		return &ErrObj{Ctor: "TypeError"}, false
	}
	then, ok := m.get(v, "then")
	if !ok {
		return then, false
	}
	f, callable := then.(*Func)
	if !callable {
		return &ErrObj{Ctor: "TypeError"}, false
	}
	return f.Call(v, args)
}

// 27.2.5.1 Promise.prototype.catch
func (m *M) Catch(this Value, onRejected Value) (Value, bool) {
	return m.invokeThen(this, Undefined, onRejected)
}

// 27.2.5.3 Promise.prototype.finally
func (m *M) Finally(this Value, onFinally Value) (Value, bool) {
	p, ok := this.(*Promise)
	if !ok {
		return &ErrObj{Ctor: "TypeError"}, false
	}
	c, thrown, ok := m.speciesConstructor(p)
	if !ok {
		return thrown, false
	}
	fin, callable := onFinally.(*Func)
	var thenFinally, catchFinally Value
	if !callable {
		thenFinally, catchFinally = onFinally, onFinally
	} else {
		thenFinally = &Func{Call: func(this Value, args []Value) (Value, bool) {
			value := arg(args, 0)
			result, ok := fin.Call(Undefined, nil)
			if !ok {
				return result, false
			}
			promise, ok := m.promiseResolve(c, result)
			if !ok {
				return promise, false
			}
			valueThunk := &Func{Call: func(Value, []Value) (Value, bool) { return value, true }}
			return m.invokeThen(promise, valueThunk)
		}}
		catchFinally = &Func{Call: func(this Value, args []Value) (Value, bool) {
			reason := arg(args, 0)
			result, ok := fin.Call(Undefined, nil)
			if !ok {
				return result, false
			}
			promise, ok := m.promiseResolve(c, result)
			if !ok {
				return promise, false
			}
			thrower := &Func{Call: func(Value, []Value) (Value, bool) { return reason, false }}
			return m.invokeThen(promise, thrower)
		}}
	}
	return m.invokeThen(p, thenFinally, catchFinally)
}

// 27.2.4.7.1 PromiseResolve ( C, x )
// ok=false: abrupt completion (the "constructor" getter threw), the first result is the thrown value.
func (m *M) promiseResolve(c Cls, x Value) (Value, bool) {
	// 1. If IsPromise(x): xConstructor = ? Get(x, "constructor"); if SameValue(xConstructor, C) return x
	if xp, ok := x.(*Promise); ok {
		k, thrown, ok := m.getCtor(xp)
		if !ok {
			return thrown, false
		}
		if k == ctorKind(c) {
			return xp, true
		}
	}
	cap := m.newPromiseCapability(c)
	cap.resolve.Call(Undefined, []Value{x})
	return cap.promise, true
}

// 27.2.4.6 Promise.reject
func (m *M) promiseReject(c Cls, r Value) Value {
	cap := m.newPromiseCapability(c)
	cap.reject.Call(Undefined, []Value{r})
	return cap.promise
}

// ---- 27.2.4.1 Promise.all, .2 allSettled, .3 any, .5 race (iterable = array of values) ----

func (m *M) combinator(kind StaticKind, c Cls, items []Value) Value {
	cap := m.newPromiseCapability(c)
	// GetPromiseResolve(C) = the built-in C.resolve; iteration of an array never fails
	values := &Arr{}
	remaining := 1
	aggregate := func() Value {
		return &ErrObj{Ctor: "AggregateError", Errors: &Arr{Elems: append([]Value(nil), values.Elems...)}}
	}
	for _, next := range items {
		index := len(values.Elems)
		if kind != StRace {
			values.Elems = append(values.Elems, Undefined)
		}
		// nextPromise = ? Call(promiseResolve, C, next); an abrupt completion ends the iteration and rejects the capability (IfAbruptRejectPromise)
		nextPromise, ok := m.promiseResolve(c, next)
		if !ok {
			cap.reject.Call(Undefined, []Value{nextPromise})
			return cap.promise
		}
		alreadyCalled := false
		element := func(store func(v Value) Value, done func()) *Func {
			return &Func{Call: func(this Value, args []Value) (Value, bool) {
				if alreadyCalled {
					return Undefined, true
				}
				alreadyCalled = true
				values.Elems[index] = store(arg(args, 0))
				remaining--
				if remaining == 0 {
					done()
				}
				return Undefined, true
			}}
		}
		resolveAll := func() {
			cap.resolve.Call(Undefined, []Value{&Arr{Elems: append([]Value(nil), values.Elems...)}})
		}
		var onF, onR Value
		switch kind {
		case StAll:
			onF = element(func(v Value) Value { return v }, resolveAll)
			onR = cap.reject
		case StAllSettled:
			onF = element(func(v Value) Value { return &Settled{"fulfilled", v} }, resolveAll)
			onR = element(func(v Value) Value { return &Settled{"rejected", v} }, resolveAll)
		case StAny:
			onF = cap.resolve
			onR = element(func(v Value) Value { return v }, func() { cap.reject.Call(Undefined, []Value{aggregate()}) })
		case StRace:
			onF, onR = cap.resolve, cap.reject
		}
		if kind != StRace {
			remaining++
		}
		if thrown, ok := m.invokeThen(nextPromise, onF, onR); !ok {
			cap.reject.Call(Undefined, []Value{thrown})
			return cap.promise
		}
	}
	if kind != StRace {
		remaining--
		if remaining == 0 {
			if kind == StAny {
				cap.reject.Call(Undefined, []Value{aggregate()})
			} else {
				cap.resolve.Call(Undefined, []Value{&Arr{Elems: append([]Value(nil), values.Elems...)}})
			}
		}
	}
	return cap.promise
}

// ---- 27.7.5.3 Await, 27.7.5.1 AsyncFunctionStart: async functions as explicit state machines ----

type asyncState struct {
	id   int
	body []AStep
	pc   int
	cap  *capability
}

const (
	resumeNone = iota
	resumeValue
	resumeThrow
)

func (m *M) asyncCall(id int, body []AStep) Value {
	st := &asyncState{id: id, body: body, cap: m.newPromiseCapability(ClsPromise)}
	m.asyncRun(st, resumeNone, nil)
	return st.cap.promise
}

func (m *M) asyncRun(st *asyncState, mode int, val Value) {
	for {
		if st.pc >= len(st.body) {
			st.cap.resolve.Call(Undefined, []Value{Undefined})
			return
		}
		s := &st.body[st.pc]
		tag := fmt.Sprintf("a%d.%d", st.id, st.pc)
		switch s.K {
		case ALog:
			m.log(tag)
			st.pc++
		case AAwait:
			switch mode {
			case resumeNone:
				v := m.eval(s.V)
				pv, ok := m.promiseResolve(ClsPromise, v)
				if !ok {
					// Await step 2: ? PromiseResolve - the abrupt completion is thrown at the await expression
					mode, val = resumeThrow, pv
					continue
				}
				promise := pv.(*Promise)
				onF := &Func{Call: func(this Value, args []Value) (Value, bool) {
					m.asyncRun(st, resumeValue, arg(args, 0))
					return Undefined, true
				}}
				onR := &Func{Call: func(this Value, args []Value) (Value, bool) {
					m.asyncRun(st, resumeThrow, arg(args, 0))
					return Undefined, true
				}}
				m.performPromiseThen(promise, onF, onR, nil)
				return
			case resumeValue:
				m.log(tag, val)
				st.pc++
			case resumeThrow:
				if !s.Catch {
					st.cap.reject.Call(Undefined, []Value{val})
					return
				}
				m.log(tag+"c", val)
				st.pc++
			}
			mode = resumeNone
		case AReturn:
			st.cap.resolve.Call(Undefined, []Value{m.eval(s.V)})
			return
		case AThrow:
			st.cap.reject.Call(Undefined, []Value{m.eval(s.V)})
			return
		case ADo:
			m.exec(s.Do) // OpCall / OpGoCall only: cannot throw
			st.pc++
		}
	}
}
