package promref

// Valid reports whether a program is inside the model's domain: every then/catch/finally source variable holds a
// promise by the time the operation's text is reached (program order), every stashed resolving function called was
// stashed earlier, every Go-resolver variable is a Go variable, variables are assigned at most once, sizes are within bounds.
func (p *Program) Valid() bool {
	defined := map[int]bool{}
	stashed := map[int]bool{}
	goVar := map[int]bool{}
	for _, g := range p.GoVars {
		if g < 0 || g >= MaxVars || defined[g] {
			return false
		}
		defined[g] = true
		goVar[g] = true
	}
	if len(p.Segs) == 0 || len(p.Segs) > 3 || len(p.GoSteps) > 3 || p.NumOps() > 12 {
		return false
	}
	ok := true
	var opv func(op *Op, top bool)
	var valv func(v *Val)
	var bodyv func(b []AStep)
	hv := func(h *Handler) {
		if h == nil || h.K == HNonCallable {
			return
		}
		valv(&h.V)
		if h.Do != nil {
			opv(h.Do, false)
		}
	}
	valv = func(v *Val) {
		if v.K == VAsync {
			bodyv(v.Body)
		}
		if v.K == VProm && (v.P < 0 || v.P >= MaxVars) {
			ok = false
		}
		if v.K == VThen && v.P >= MaxVars {
			ok = false
		}
	}
	bodyv = func(b []AStep) {
		for i := range b {
			switch b[i].K {
			case AAwait, AReturn, AThrow:
				valv(&b[i].V)
			case ADo:
				if b[i].Do == nil {
					ok = false
				} else {
					opv(b[i].Do, false)
				}
			}
		}
	}
	opv = func(op *Op, top bool) {
		if !top && op.Dst >= 0 {
			ok = false
		}
		if op.Dst >= MaxVars || (op.Dst >= 0 && defined[op.Dst]) {
			ok = false
		}
		switch op.K {
		case OpNew:
			if op.Dst < 0 {
				ok = false
			}
			for i := range op.Acts {
				valv(&op.Acts[i].V)
			}
			if op.Stash && op.Dst >= 0 {
				stashed[op.Dst] = true
			}
		case OpCall:
			if !stashed[op.Src] {
				ok = false
			}
			valv(&op.V)
		case OpGoCall:
			if !goVar[op.Src] {
				ok = false
			}
			valv(&op.V)
		case OpThen, OpCatch, OpFinally:
			if !defined[op.Src] {
				ok = false
			}
			hv(op.F)
			hv(op.R)
		case OpSetCtor:
			if !defined[op.Src] || op.Ctor == nil || !top {
				ok = false
			}
		case OpStatic:
			valv(&op.V)
			for i := range op.Items {
				valv(&op.Items[i])
			}
		case OpAsync:
			bodyv(op.Body)
		}
		if op.Dst >= 0 {
			defined[op.Dst] = true
		}
	}
	for _, s := range p.Segs {
		if len(s) == 0 {
			return false
		}
		for i := range s {
			opv(&s[i], true)
		}
	}
	for _, gs := range p.GoSteps {
		if !goVar[gs.G] {
			return false
		}
	}
	return ok
}
