package promref

// Rand is the source of choices (core.Rng satisfies it).
type Rand interface{ Intn(n int) int }

type gen struct {
	r       Rand
	defined []int // variables holding a promise at this point of the program text
	stashed []int // variables whose resolving functions were stashed in R<k>/J<k>
	goVars  []int
	nextVar int
	id      int
	num     int
}

func (g *gen) chance(num, den int) bool { return g.r.Intn(den) < num }

func (g *gen) pickW(w ...int) int {
	t := 0
	for _, x := range w {
		t += x
	}
	k := g.r.Intn(t)
	for i, x := range w {
		if k < x {
			return i
		}
		k -= x
	}
	return len(w) - 1
}

func (g *gen) newID() int { g.id++; return g.id }

func (g *gen) newNum() int { g.num++; return g.num }

func (g *gen) pickVar() int { return g.defined[g.r.Intn(len(g.defined))] }

func (g *gen) val(depth int) Val {
	w := []int{40, 5, 25, 20, 10}
	if len(g.defined) == 0 {
		w[2] = 0
	}
	if depth > 0 {
		w[4] = 0
	}
	switch g.pickW(w...) {
	case 0:
		return Val{K: VNum, N: g.newNum(), P: -1}
	case 1:
		return Val{K: VUndef, P: -1}
	case 2:
		return Val{K: VProm, P: g.pickVar()}
	case 3:
		v := Val{K: VThen, T: ThenKind(g.r.Intn(int(NThenKinds))), ID: g.newID(), N: g.newNum(), P: -1}
		if len(g.defined) > 0 && g.chance(1, 4) {
			v.P = g.pickVar()
		}
		return v
	default:
		return Val{K: VAsync, ID: g.newID(), P: -1, Body: g.body(depth + 1)}
	}
}

func (g *gen) simpleOp() *Op {
	// a side operation for handlers / async bodies: call a stashed or Go-held resolving function, or attach a leaf handler
	w := []int{0, 0, 0}
	if len(g.stashed) > 0 {
		w[0] = 5
	}
	if len(g.goVars) > 0 {
		w[1] = 2
	}
	if len(g.defined) > 0 {
		w[2] = 4
	}
	if w[0]+w[1]+w[2] == 0 {
		return nil
	}
	switch g.pickW(w...) {
	case 0:
		k := g.stashed[g.r.Intn(len(g.stashed))]
		op := &Op{K: OpCall, Dst: -1, Src: k, Reject: g.chance(1, 3), V: g.val(1)}
		if g.chance(1, 8) {
			op.V = Val{K: VProm, P: k}
		}
		return op
	case 1:
		k := g.goVars[g.r.Intn(len(g.goVars))]
		return &Op{K: OpGoCall, Dst: -1, Src: k, Reject: g.chance(1, 3), V: g.val(1)}
	default:
		op := &Op{K: OpThen, Dst: -1, Src: g.pickVar()}
		op.F = g.handler(false, 1)
		if g.chance(1, 2) {
			op.R = g.handler(false, 1)
		}
		return op
	}
}

func (g *gen) handler(allowNil bool, depth int) *Handler {
	if allowNil && g.chance(1, 5) {
		return nil
	}
	h := &Handler{ID: g.newID()}
	switch g.pickW(70, 22, 8) {
	case 0:
		h.K = HReturn
	case 1:
		h.K = HThrow
	default:
		h.K = HNonCallable
		return h
	}
	h.V = g.val(depth)
	if depth == 0 && g.chance(1, 4) {
		h.Do = g.simpleOp()
	}
	h.Native = g.chance(3, 20)
	return h
}

func (g *gen) body(depth int) []AStep {
	n := 1 + g.r.Intn(4)
	if depth > 1 {
		n = 1 + g.r.Intn(2)
	}
	var body []AStep
	for i := 0; i < n; i++ {
		switch g.pickW(20, 55, 10) {
		case 0:
			body = append(body, AStep{K: ALog})
		case 1:
			body = append(body, AStep{K: AAwait, V: g.val(depth), Catch: g.chance(2, 5)})
		default:
			if op := g.simpleOp(); op != nil && op.K != OpThen {
				body = append(body, AStep{K: ADo, Do: op})
			} else {
				body = append(body, AStep{K: ALog})
			}
		}
	}
	switch g.pickW(40, 20, 40) {
	case 0:
		body = append(body, AStep{K: AReturn, V: g.val(depth)})
	case 1:
		body = append(body, AStep{K: AThrow, V: g.val(depth)})
	}
	return body
}

func (g *gen) dst() int {
	if g.nextVar < MaxVars && g.chance(7, 10) {
		g.nextVar++
		return g.nextVar - 1
	}
	return -1
}

func (g *gen) cls() Cls {
	switch g.pickW(70, 20, 10) {
	case 0:
		return ClsPromise
	case 1:
		return ClsP
	}
	return ClsQ
}

func (g *gen) op() Op {
	for {
		k := g.pickW(20, 10, 25, 8, 10, 10, 10, 12, 4, 4, 9)
		switch k {
		case 0: // new
			if g.nextVar >= MaxVars {
				continue
			}
			op := Op{K: OpNew, Cls: g.cls(), Stash: g.chance(1, 2)}
			n := g.r.Intn(4)
			for i := 0; i < n; i++ {
				switch g.pickW(50, 30, 20) {
				case 0:
					op.Acts = append(op.Acts, Act{K: ActResolve, V: g.val(0)})
				case 1:
					op.Acts = append(op.Acts, Act{K: ActReject, V: g.val(0)})
				default:
					op.Acts = append(op.Acts, Act{K: ActLog, ID: g.newID()})
				}
			}
			if g.chance(1, 4) {
				op.Acts = append(op.Acts, Act{K: ActThrow, V: g.val(0)})
			}
			op.Dst = g.nextVar
			g.nextVar++
			g.defined = append(g.defined, op.Dst)
			if op.Stash {
				g.stashed = append(g.stashed, op.Dst)
			}
			return op
		case 1: // call a stashed resolving function
			if len(g.stashed) == 0 {
				continue
			}
			s := g.stashed[g.r.Intn(len(g.stashed))]
			op := Op{K: OpCall, Dst: -1, Src: s, Reject: g.chance(1, 3), V: g.val(0)}
			if g.chance(3, 20) {
				op.V = Val{K: VProm, P: s} // self-resolution
			}
			return op
		case 2, 3, 4: // then / catch / finally
			if len(g.defined) == 0 {
				continue
			}
			op := Op{Src: g.pickVar()}
			switch k {
			case 2:
				op.K = OpThen
				op.F = g.handler(true, 0)
				if g.chance(3, 5) {
					op.R = g.handler(true, 0)
				}
			case 3:
				op.K = OpCatch
				op.R = g.handler(true, 0)
			default:
				op.K = OpFinally
				op.F = g.handler(true, 0)
			}
			op.Dst = g.dst()
			if op.Dst >= 0 {
				// a handler returning the promise derived by this very then(): self-resolution TypeError
				for _, h := range []*Handler{op.F, op.R} {
					if h != nil && h.K == HReturn && g.chance(1, 12) {
						h.V = Val{K: VProm, P: op.Dst}
					}
				}
				g.defined = append(g.defined, op.Dst)
			}
			return op
		case 5: // Promise.resolve / reject
			op := Op{K: OpStatic, Cls: g.cls(), St: StResolve, V: g.val(0)}
			if g.chance(2, 5) {
				op.St = StReject
			}
			op.Dst = g.dst()
			if op.Dst >= 0 {
				g.defined = append(g.defined, op.Dst)
			}
			return op
		case 6: // combinators over mixed inputs
			op := Op{K: OpStatic, Cls: g.cls(), St: StaticKind(int(StAll) + g.r.Intn(4))}
			n := g.r.Intn(4)
			for i := 0; i < n; i++ {
				op.Items = append(op.Items, g.val(0))
			}
			op.Dst = g.dst()
			if op.Dst >= 0 {
				g.defined = append(g.defined, op.Dst)
			}
			return op
		case 7: // async function / arrow
			op := Op{K: OpAsync, ID: g.newID(), Arrow: g.chance(1, 3), Body: g.body(0)}
			op.Dst = g.dst()
			if op.Dst >= 0 {
				g.defined = append(g.defined, op.Dst)
			}
			return op
		case 8:
			if len(g.goVars) == 0 {
				continue
			}
			return Op{K: OpGoCall, Dst: -1, Src: g.goVars[g.r.Intn(len(g.goVars))], Reject: g.chance(1, 3), V: g.val(0)}
		case 9:
			return Op{K: OpLog, Dst: -1, ID: g.newID()}
		default: // an own "constructor" property on an existing promise
			if len(g.defined) == 0 {
				continue
			}
			cs := &CtorSpec{Getter: g.chance(2, 5), Val: CtorVal(g.r.Intn(int(NCtorVals)))}
			if cs.Getter {
				cs.ID = g.newID()
				if g.chance(3, 10) {
					cs.Throws, cs.N = true, g.newNum()
				}
			}
			return Op{K: OpSetCtor, Dst: -1, Src: g.pickVar(), Ctor: cs}
		}
	}
}

// Generate produces a random program: 3..12 operations, <= 5 promise variables, 1..3 segments, 0..2 Go-created
// promises with 0..3 Go-side resolver steps.
func Generate(r Rand) *Program {
	g := &gen{r: r}
	p := &Program{}
	nGo := g.pickW(35, 40, 25)
	for i := 0; i < nGo; i++ {
		p.GoVars = append(p.GoVars, i)
	}
	g.goVars = p.GoVars
	g.defined = append(g.defined, p.GoVars...)
	g.nextVar = nGo
	nOps := 3 + g.r.Intn(10)
	nSegs := 1 + g.pickW(40, 35, 25)
	if nSegs > nOps {
		nSegs = nOps
	}
	ops := make([]Op, nOps)
	for i := range ops {
		ops[i] = g.op()
	}
	// cut points
	cuts := map[int]bool{}
	for len(cuts) < nSegs-1 {
		cuts[1+g.r.Intn(nOps-1)] = true
	}
	start := 0
	for i := 1; i <= nOps; i++ {
		if i == nOps || cuts[i] {
			p.Segs = append(p.Segs, ops[start:i:i])
			start = i
		}
	}
	if nGo > 0 {
		nSteps := 1 + g.r.Intn(3)
		for i := 0; i < nSteps; i++ {
			gs := GoStep{G: p.GoVars[g.r.Intn(nGo)], Reject: g.chance(1, 3)}
			switch g.pickW(55, 10, 35) {
			case 0:
				gs.V = Val{K: VNum, N: g.newNum(), P: -1}
			case 1:
				gs.V = Val{K: VUndef, P: -1}
			default:
				gs.V = Val{K: VProm, P: g.r.Intn(MaxVars)} // any variable, possibly itself or one not assigned yet
			}
			p.GoSteps = append(p.GoSteps, gs)
		}
	}
	return p
}

// Walk calls f for every handler of the program (including those of nested side operations).
func (p *Program) WalkHandlers(f func(h *Handler)) {
	var opw func(op *Op)
	var valw func(v *Val)
	var bodyw func(b []AStep)
	hw := func(h *Handler) {
		if h == nil {
			return
		}
		f(h)
		valw(&h.V)
		if h.Do != nil {
			opw(h.Do)
		}
	}
	valw = func(v *Val) {
		if v.K == VAsync {
			bodyw(v.Body)
		}
	}
	bodyw = func(b []AStep) {
		for i := range b {
			valw(&b[i].V)
			if b[i].Do != nil {
				opw(b[i].Do)
			}
		}
	}
	opw = func(op *Op) {
		hw(op.F)
		hw(op.R)
		valw(&op.V)
		for i := range op.Items {
			valw(&op.Items[i])
		}
		for i := range op.Acts {
			valw(&op.Acts[i].V)
		}
		bodyw(op.Body)
	}
	for _, s := range p.Segs {
		for i := range s {
			opw(&s[i])
		}
	}
}

// Uses reports which prelude parts a program needs.
func (p *Program) Uses() (classes, thenables bool) {
	var opw func(op *Op)
	var valw func(v *Val)
	var bodyw func(b []AStep)
	valw = func(v *Val) {
		if v.K == VThen {
			thenables = true
		}
		if v.K == VAsync {
			bodyw(v.Body)
		}
	}
	bodyw = func(b []AStep) {
		for i := range b {
			valw(&b[i].V)
			if b[i].Do != nil {
				opw(b[i].Do)
			}
		}
	}
	hw := func(h *Handler) {
		if h == nil {
			return
		}
		valw(&h.V)
		if h.Do != nil {
			opw(h.Do)
		}
	}
	opw = func(op *Op) {
		if op.Cls != ClsPromise || (op.Ctor != nil && (op.Ctor.Val == CvMyP || op.Ctor.Val == CvMyQ)) {
			classes = true
		}
		hw(op.F)
		hw(op.R)
		valw(&op.V)
		for i := range op.Items {
			valw(&op.Items[i])
		}
		for i := range op.Acts {
			valw(&op.Acts[i].V)
		}
		bodyw(op.Body)
	}
	for _, s := range p.Segs {
		for i := range s {
			opw(&s[i])
		}
	}
	return
}

// WalkVals calls f for every value expression of the program.
func (p *Program) WalkVals(f func(v *Val)) {
	var opw func(op *Op)
	var valw func(v *Val)
	var bodyw func(b []AStep)
	valw = func(v *Val) {
		f(v)
		if v.K == VAsync {
			bodyw(v.Body)
		}
	}
	bodyw = func(b []AStep) {
		for i := range b {
			if b[i].K == AAwait || b[i].K == AReturn || b[i].K == AThrow {
				valw(&b[i].V)
			}
			if b[i].Do != nil {
				opw(b[i].Do)
			}
		}
	}
	hw := func(h *Handler) {
		if h == nil || h.K == HNonCallable {
			return
		}
		valw(&h.V)
		if h.Do != nil {
			opw(h.Do)
		}
	}
	opw = func(op *Op) {
		hw(op.F)
		hw(op.R)
		switch op.K {
		case OpCall, OpGoCall:
			valw(&op.V)
		case OpStatic:
			if op.St == StResolve || op.St == StReject {
				valw(&op.V)
			}
		}
		for i := range op.Items {
			valw(&op.Items[i])
		}
		for i := range op.Acts {
			if op.Acts[i].K != ActLog {
				valw(&op.Acts[i].V)
			}
		}
		bodyw(op.Body)
	}
	for _, s := range p.Segs {
		for i := range s {
			opw(&s[i])
		}
	}
}
