package taref

import (
	"math/big"
)

// ---- ArrayBuffer (25.1) ----

// NewArrayBuffer is `new ArrayBuffer(length)`.
func (w *World) NewArrayBuffer(length Value) *Buffer {
	n := w.ToIndex(length)
	return NewBuffer(n)
}

// BufByteLength is the byteLength accessor (25.1.6.1): +0 when detached.
func (w *World) BufByteLength(b *Buffer) Value {
	if b.Detached {
		return float64(0)
	}
	return float64(len(b.Data))
}

func (w *World) callSpeciesBuf(fn *SpeciesFn, recv *Buffer, n int) Value {
	w.log("s"+itoa(fn.ID), float64(n))
	w.runEffects(fn.Effects)
	switch fn.Result {
	case "newbuf":
		l := n + fn.Delta
		if l < 0 {
			l = 0
		}
		return NewBuffer(l)
	case "samebuf":
		return recv
	case "existingbuf":
		if b := w.Bufs[fn.Buf]; b != nil {
			return b
		}
		return &Opaque{}
	case "detachedbuf":
		b := NewBuffer(n)
		b.Detach()
		return b
	case "plain":
		return &Opaque{}
	}
	panic("bad buffer species result " + fn.Result)
}

// BufSlice is ArrayBuffer.prototype.slice (25.1.6.4).
func (w *World) BufSlice(o *Buffer, args []Value) Value {
	if o.Detached {
		throw("TypeError")
	}
	n := len(o.Data)
	first := relIndex(w.ToIntegerOrInfinity(arg(args, 0)), n)
	final := n
	if e := arg(args, 1); !IsUndef(e) {
		final = relIndex(w.ToIntegerOrInfinity(e), n)
	}
	newLen := final - first
	if newLen < 0 {
		newLen = 0
	}
	fn := w.speciesConstructor(o.Ctor)
	var nb *Buffer
	if fn == nil {
		nb = NewBuffer(newLen)
	} else {
		r, ok := w.callSpeciesBuf(fn, o, newLen).(*Buffer)
		if !ok {
			throw("TypeError")
		}
		nb = r
	}
	if nb.Detached {
		throw("TypeError")
	}
	if nb == o {
		throw("TypeError")
	}
	if len(nb.Data) < newLen {
		throw("TypeError")
	}
	if o.Detached {
		throw("TypeError")
	}
	copyBytes(nb, 0, o, first, newLen, true)
	return nb
}

// ---- DataView (25.3) ----

// NewDataView is `new DataView(buffer, byteOffset, byteLength)`.
func (w *World) NewDataView(b *Buffer, byteOffset, byteLength Value) *DataView {
	off := w.ToIndex(byteOffset)
	if b.Detached {
		throw("TypeError")
	}
	bl := len(b.Data)
	if off > bl {
		throw("RangeError")
	}
	var vl int
	if IsUndef(byteLength) {
		vl = bl - off
	} else {
		vl = w.ToIndex(byteLength)
		if off+vl > bl {
			throw("RangeError")
		}
	}
	if b.Detached {
		throw("TypeError")
	}
	return &DataView{ID: -1, Buf: b, ByteOffset: off, ByteLength: vl}
}

func (w *World) DVByteLength(d *DataView) Value {
	if d.Buf.Detached {
		throw("TypeError")
	}
	return float64(d.ByteLength)
}

func (w *World) DVByteOffset(d *DataView) Value {
	if d.Buf.Detached {
		throw("TypeError")
	}
	return float64(d.ByteOffset)
}

// DVGet is GetViewValue (25.3.1.5): args = (requestIndex [, littleEndian]).
func (w *World) DVGet(d *DataView, t ElemType, args []Value) Value {
	idx := w.ToIndex(arg(args, 0))
	little := ToBoolean(arg(args, 1))
	if d.Buf.Detached {
		throw("TypeError")
	}
	if idx+t.Size() > d.ByteLength {
		throw("RangeError")
	}
	return w.GetValueFromBuffer(d.Buf, idx+d.ByteOffset, t, little)
}

// DVSet is SetViewValue (25.3.1.6): args = (requestIndex, value [, littleEndian]).
func (w *World) DVSet(d *DataView, t ElemType, args []Value) Value {
	idx := w.ToIndex(arg(args, 0))
	var nv Value
	if t.IsBigInt() {
		nv = w.ToBigInt(arg(args, 1))
	} else {
		nv = w.ToNumber(arg(args, 1))
	}
	little := ToBoolean(arg(args, 2))
	if d.Buf.Detached {
		throw("TypeError")
	}
	if idx+t.Size() > d.ByteLength {
		throw("RangeError")
	}
	w.SetValueInBuffer(d.Buf, idx+d.ByteOffset, t, nv, little)
	return Undefined
}

// ---- Uint8Array hex (proposal-arraybuffer-base64, in ECMA-262 2026 draft 23.3) ----

func hexVal(c rune) int {
	switch {
	case c >= '0' && c <= '9':
		return int(c - '0')
	case c >= 'a' && c <= 'f':
		return int(c-'a') + 10
	case c >= 'A' && c <= 'F':
		return int(c-'A') + 10
	}
	return -1
}

// fromHex implements FromHex(string, maxLength) over UTF-16 code units; max < 0 means no limit.
func fromHex(u []uint16, max int) (read int, bytes []byte, syntaxErr bool) {
	n := len(u)
	if n%2 != 0 {
		return 0, nil, true
	}
	for read < n && (max < 0 || len(bytes) < max) {
		h, l := hexVal(rune(u[read])), hexVal(rune(u[read+1]))
		if h < 0 || l < 0 {
			return read, bytes, true
		}
		read += 2
		bytes = append(bytes, byte(h<<4|l))
	}
	return read, bytes, false
}

func units(s string) []uint16 {
	var u []uint16
	for _, r := range s {
		if r >= 0x10000 {
			r -= 0x10000
			u = append(u, uint16(0xd800+(r>>10)), uint16(0xdc00+(r&0x3ff)))
		} else {
			u = append(u, uint16(r))
		}
	}
	return u
}

// FromHexStatic is Uint8Array.fromHex(string).
func (w *World) FromHexStatic(s Value) Value {
	str, ok := s.(string)
	if !ok {
		throw("TypeError")
	}
	_, b, bad := fromHex(units(str), -1)
	if bad {
		throw("SyntaxError")
	}
	a := allocate(Uint8, len(b))
	a.Buf.StoreBytes(0, b)
	return a
}

// ToHex is Uint8Array.prototype.toHex.
func (w *World) ToHex(o *TypedArray) Value {
	if o.Type != Uint8 {
		throw("TypeError")
	}
	if o.Buf.Detached {
		throw("TypeError")
	}
	const hx = "0123456789abcdef"
	out := make([]byte, 0, o.Length*2)
	w.noteFlexRead(o.Buf, o.ByteOffset, o.Length, Uint8, true)
	for i := 0; i < o.Length; i++ {
		c := o.Buf.Data[o.ByteOffset+i]
		out = append(out, hx[c>>4], hx[c&15])
	}
	return string(out)
}

// SetFromHex is Uint8Array.prototype.setFromHex(string): returns [read, written].
func (w *World) SetFromHex(o *TypedArray, s Value) Value {
	if o.Type != Uint8 {
		throw("TypeError")
	}
	str, ok := s.(string)
	if !ok {
		throw("TypeError")
	}
	if o.Buf.Detached {
		throw("TypeError")
	}
	read, b, bad := fromHex(units(str), o.Length)
	o.Buf.StoreBytes(o.ByteOffset, b)
	if bad {
		throw("SyntaxError")
	}
	return &Array{IsArray: true, Elems: []Value{float64(read), float64(len(b))}}
}

var _ = big.NewInt
