package taref

import (
	"math"
	"math/big"
)

// ---- raw buffer access (25.1.3.13 - 25.1.3.16) ----

// GetValueFromBuffer reads one element of type t at byte index idx.
func (w *World) GetValueFromBuffer(b *Buffer, idx int, t ElemType, little bool) Value {
	n := t.Size()
	w.noteFlexRead(b, idx, n, t, little)
	var raw [8]byte
	for i := 0; i < n; i++ {
		if little {
			raw[i] = b.Data[idx+i]
		} else {
			raw[i] = b.Data[idx+n-1-i]
		}
	}
	return RawToValue(t, raw[:n])
}

// noteFlexRead counts reads of bytes whose value is implementation-chosen: a NaN stored earlier in the same operation (its encoding
// is adopted from the implementation only after the operation) read back other than as exactly that float element.
func (w *World) noteFlexRead(b *Buffer, idx, n int, t ElemType, little bool) {
	any := false
	for i := idx; i < idx+n; i++ {
		if b.Flex[i] {
			any = true
			break
		}
	}
	if !any {
		return
	}
	if t.IsFloat() {
		for _, c := range b.NaNs {
			if c.Off == idx && c.Size == n && c.Little == little {
				all := true
				for i := idx; i < idx+n; i++ {
					all = all && b.Flex[i]
				}
				if all {
					return // reads back as NaN whatever the payload
				}
			}
		}
	}
	w.FlexReads++
}

// SetValueInBuffer writes a Number / BigInt (already converted to the right numeric kind) at byte index idx.
func (w *World) SetValueInBuffer(b *Buffer, idx int, t ElemType, v Value, little bool) {
	var r Raw
	if t.IsBigInt() {
		r = BigIntToRaw(t, v.(*big.Int))
	} else {
		f := v.(float64)
		if a := math.Abs(f); !t.IsFloat() && a >= 9223372036854775808 && a < 38685626227668133590597632 {
			// 2^63 <= |x| < 2^85 converted to an integer element type (from 2^85 on every double is a multiple of 2^32: the result is 0)
			w.HugeIntConversions++
		}
		r = NumberToRaw(t, f)
	}
	for i := 0; i < r.N; i++ {
		var c byte
		if little {
			c = r.B[i]
		} else {
			c = r.B[r.N-1-i]
		}
		b.Data[idx+i] = c
		b.Flex[idx+i] = r.NaN
	}
	if r.NaN {
		b.NaNs = append(b.NaNs, NaNClaim{Off: idx, Size: r.N, Little: little})
	}
}

// copyBytes copies n bytes like a sequence of single byte reads/writes in ascending order (used where the spec loops
// byte by byte) or, when move is true, with memmove semantics.
func copyBytes(dst *Buffer, di int, src *Buffer, si int, n int, move bool) {
	if move && dst == src && si < di && di < si+n {
		for i := n - 1; i >= 0; i-- {
			dst.Data[di+i] = src.Data[si+i]
			dst.Flex[di+i] = src.Flex[si+i]
		}
		return
	}
	for i := 0; i < n; i++ {
		dst.Data[di+i] = src.Data[si+i]
		dst.Flex[di+i] = src.Flex[si+i]
	}
}

// StoreBytes is a deterministic host-side write (Go writing into the backing store).
func (b *Buffer) StoreBytes(off int, p []byte) {
	for i, c := range p {
		b.Data[off+i] = c
		b.Flex[off+i] = false
	}
}

// ---- typed array core ----

func (w *World) IsValidIntegerIndex(o *TypedArray, index float64) bool {
	if o.Buf.Detached {
		return false
	}
	if index != index || math.IsInf(index, 0) || math.Trunc(index) != index { // not an integral Number
		return false
	}
	if index == 0 && 1/index < 0 { // -0
		return false
	}
	if index < 0 || index >= float64(o.Length) {
		return false
	}
	return true
}

// taLength is TypedArrayLength with out-of-bounds (detached) arrays reporting 0 (used by the accessors).
func taLength(o *TypedArray) int {
	if o.Buf.Detached {
		return 0
	}
	return o.Length
}

func (w *World) taGetElement(o *TypedArray, index float64) Value {
	if !w.IsValidIntegerIndex(o, index) {
		return Undefined
	}
	i := int(index)
	return w.GetValueFromBuffer(o.Buf, o.ByteOffset+i*o.Type.Size(), o.Type, w.LittleEndian)
}

// taSetElement is TypedArraySetElement (10.4.5.16): convert first, then write if the index is (still) valid.
func (w *World) taSetElement(o *TypedArray, index float64, v Value) {
	var nv Value
	if o.Type.IsBigInt() {
		nv = w.ToBigInt(v)
	} else {
		nv = w.ToNumber(v)
	}
	if w.IsValidIntegerIndex(o, index) {
		w.SetValueInBuffer(o.Buf, o.ByteOffset+int(index)*o.Type.Size(), o.Type, nv, w.LittleEndian)
	}
}

// Get(O, index) / Set(O, index, v, true) with integer index keys.
func (w *World) get(o *TypedArray, k int) Value    { return w.taGetElement(o, float64(k)) }
func (w *World) set(o *TypedArray, k int, v Value) { w.taSetElement(o, float64(k), v) }

// ValidateTypedArray (23.2.4.4) for a value known to be a typed array: TypeError if detached.
func (w *World) validate(o *TypedArray) {
	if o.Buf.Detached {
		throw("TypeError")
	}
}

// allocate is AllocateTypedArray with a length: fresh zero-filled buffer.
func allocate(t ElemType, length int) *TypedArray {
	return &TypedArray{ID: -1, Type: t, Buf: NewBuffer(length * t.Size()), Length: length}
}

// ---- constructors (23.2.5) ----

// NewFromLength is `new T(length)` where length is not an object.
func (w *World) NewFromLength(t ElemType, length Value) *TypedArray {
	n := w.ToIndex(length)
	return allocate(t, n)
}

// NewFromTypedArray is InitializeTypedArrayFromTypedArray.
func (w *World) NewFromTypedArray(t ElemType, src *TypedArray) *TypedArray {
	if src.Buf.Detached {
		throw("TypeError")
	}
	n := src.Length
	o := allocate(t, n)
	if src.Type == t {
		copyBytes(o.Buf, 0, src.Buf, src.ByteOffset, n*t.Size(), false)
		return o
	}
	if src.Type.IsBigInt() != t.IsBigInt() {
		throw("TypeError")
	}
	for i := 0; i < n; i++ {
		v := w.GetValueFromBuffer(src.Buf, src.ByteOffset+i*src.Type.Size(), src.Type, w.LittleEndian)
		w.SetValueInBuffer(o.Buf, i*t.Size(), t, v, w.LittleEndian)
	}
	return o
}

// NewFromBuffer is InitializeTypedArrayFromArrayBuffer; byteOffset / length may be absent (Undefined).
func (w *World) NewFromBuffer(t ElemType, b *Buffer, byteOffset, length Value) *TypedArray {
	es := t.Size()
	off := w.ToIndex(byteOffset)
	if off%es != 0 {
		throw("RangeError")
	}
	newLength := 0
	if !IsUndef(length) {
		newLength = w.ToIndex(length)
	}
	if b.Detached {
		throw("TypeError")
	}
	bl := len(b.Data)
	var nbytes int
	if IsUndef(length) {
		if bl%es != 0 {
			throw("RangeError")
		}
		nbytes = bl - off
		if nbytes < 0 {
			throw("RangeError")
		}
	} else {
		nbytes = newLength * es
		if off+nbytes > bl {
			throw("RangeError")
		}
	}
	return &TypedArray{ID: -1, Type: t, Buf: b, ByteOffset: off, Length: nbytes / es}
}

// NewFromObject is `new T(obj)` for an Array (iterated through %Array.prototype%[@@iterator]) or an array-like object.
func (w *World) NewFromObject(t ElemType, src *Array) *TypedArray {
	var vals []Value
	if src.IsArray {
		vals = append(vals, src.Elems...) // IterableToList: no user code runs
		o := allocate(t, len(vals))
		for k, v := range vals {
			w.set(o, k, v)
		}
		return o
	}
	n := w.ToLength(src.LengthVal)
	o := allocate(t, n)
	for k := 0; k < n; k++ {
		w.set(o, k, arrGet(src, k))
	}
	return o
}

func arrGet(a *Array, k int) Value {
	if k < len(a.Elems) && a.Elems[k] != nil {
		return a.Elems[k]
	}
	return Undefined
}

// ---- species (7.3.22, 23.2.4.1 - 23.2.4.3) ----

// speciesDefault reports whether SpeciesConstructor yields the default constructor; otherwise returns the function.
func (w *World) speciesConstructor(c *CtorSpec) (fn *SpeciesFn) {
	if c == nil {
		return nil
	}
	switch c.Kind {
	case "undefined", "species-undefined", "species-null":
		return nil
	case "nonobject", "species-notctor":
		throw("TypeError")
	case "species-fn":
		return c.Fn
	}
	panic("bad ctor spec " + c.Kind)
}

// callSpeciesTA runs a typed-array species function as a constructor. args is either [count] or [buffer, byteOffset, length].
func (w *World) callSpeciesTA(fn *SpeciesFn, args []Value) Value {
	w.log("s" + itoa(fn.ID))
	n := 0
	if c, ok := args[0].(float64); ok {
		w.log(c)
		n = int(c)
	} else {
		b := args[0].(*Buffer)
		if b.Detached {
			w.log("det")
		} else {
			w.log(b, args[1], args[2])
			n = int(args[2].(float64))
		}
	}
	w.runEffects(fn.Effects)
	switch fn.Result {
	case "new":
		l := n + fn.Delta
		if l < 0 {
			l = 0
		}
		return allocate(fn.Type, l)
	case "view":
		b := w.Bufs[fn.Buf]
		if b == nil {
			return &Opaque{}
		}
		return w.NewFromBuffer(fn.Type, b, float64(fn.Off), float64(fn.Len))
	case "existing":
		if v := w.Views[fn.View]; v != nil {
			return v
		}
		return &Opaque{}
	case "detached":
		o := allocate(fn.Type, n)
		o.Buf.Detach()
		return o
	case "plain":
		return &Opaque{}
	}
	panic("bad species result " + fn.Result)
}

// typedArrayCreateFromCtor (23.2.4.2) with a species function.
func (w *World) createFromSpecies(fn *SpeciesFn, args []Value) *TypedArray {
	r := w.callSpeciesTA(fn, args)
	ta, ok := r.(*TypedArray)
	if !ok {
		throw("TypeError")
	}
	w.validate(ta)
	if len(args) == 1 {
		if c, ok := args[0].(float64); ok && float64(ta.Length) < c {
			throw("TypeError")
		}
	}
	return ta
}

// speciesCreate is TypedArraySpeciesCreate.
func (w *World) speciesCreate(ex *TypedArray, args []Value) *TypedArray {
	fn := w.speciesConstructor(ex.Ctor)
	var r *TypedArray
	if fn == nil {
		if len(args) == 1 {
			r = w.NewFromLength(ex.Type, args[0])
		} else {
			r = w.NewFromBuffer(ex.Type, args[0].(*Buffer), args[1], args[2])
		}
		// ValidateTypedArray of a freshly built array cannot fail
	} else {
		r = w.createFromSpecies(fn, args)
	}
	if r.Type.IsBigInt() != ex.Type.IsBigInt() {
		throw("TypeError")
	}
	return r
}

func itoa(i int) string {
	if i == 0 {
		return "0"
	}
	neg := i < 0
	if neg {
		i = -i
	}
	var b [20]byte
	p := len(b)
	for i > 0 {
		p--
		b[p] = byte('0' + i%10)
		i /= 10
	}
	if neg {
		p--
		b[p] = '-'
	}
	return string(b[p:])
}

// ---- callbacks ----

func (w *World) call(cb *Callback, args ...Value) Value {
	i := cb.calls
	cb.calls++
	w.log("c" + itoa(cb.ID))
	w.log(args...)
	if i == cb.At {
		w.runEffects(cb.Effects)
	}
	if len(cb.Rets) == 0 {
		return Undefined
	}
	return cb.Rets[i%len(cb.Rets)]
}

// relIndex implements the common "relative index clamped to [0,len]" computation.
func relIndex(rel float64, n int) int {
	if rel < 0 {
		if rel+float64(n) < 0 { // includes -Inf
			return 0
		}
		return int(rel + float64(n))
	}
	if rel > float64(n) {
		return n
	}
	return int(rel)
}
