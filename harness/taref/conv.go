// Package taref is a byte-array reference model of ECMAScript ArrayBuffer / TypedArray / DataView
// semantics, written from ECMA-262 (fixed-length, non-shared buffers only: "out of bounds" == detached).
// It is deliberately independent of goja: conversions are done with exact integer / math/big arithmetic.
package taref

import (
	"math"
	"math/big"
	"strconv"
	"strings"
)

// ElemType enumerates the 11 TypedArray element types.
type ElemType int

const (
	Int8 ElemType = iota
	Uint8
	Uint8C
	Int16
	Uint16
	Int32
	Uint32
	Float32
	Float64
	BigInt64
	BigUint64
	NumTypes
)

var typeNames = [...]string{"Int8Array", "Uint8Array", "Uint8ClampedArray", "Int16Array", "Uint16Array", "Int32Array", "Uint32Array", "Float32Array", "Float64Array", "BigInt64Array", "BigUint64Array"}
var typeSizes = [...]int{1, 1, 1, 2, 2, 4, 4, 4, 8, 8, 8}

// DataView accessor suffixes (Uint8C has none).
var dvNames = [...]string{"Int8", "Uint8", "", "Int16", "Uint16", "Int32", "Uint32", "Float32", "Float64", "BigInt64", "BigUint64"}

func (t ElemType) Name() string   { return typeNames[t] }
func (t ElemType) DVName() string { return dvNames[t] }
func (t ElemType) Size() int      { return typeSizes[t] }
func (t ElemType) IsBigInt() bool { return t == BigInt64 || t == BigUint64 }
func (t ElemType) IsFloat() bool  { return t == Float32 || t == Float64 }

// ToIntegerOrInfinity of an already-converted Number (7.1.5).
func ToIntegerOrInfinity(f float64) float64 {
	if f != f {
		return 0
	}
	if math.IsInf(f, 0) {
		return f
	}
	t := math.Trunc(f)
	if t == 0 {
		return 0 // -0 -> +0
	}
	return t
}

// truncToBig returns the mathematical value of truncate(f) for finite f.
func truncToBig(f float64) *big.Int {
	bf := new(big.Float).SetFloat64(math.Trunc(f)) // exact
	i, _ := bf.Int(nil)
	return i
}

var one = big.NewInt(1)

// modBits implements "int modulo 2^bits" (7.1.6 .. 7.1.11) and returns the non-negative residue.
func modBits(f float64, bits uint) uint64 {
	if f != f || math.IsInf(f, 0) || f == 0 {
		return 0
	}
	i := truncToBig(f)
	m := new(big.Int).Lsh(one, bits)
	i.Mod(i, m) // Euclidean: 0 <= i < m
	return i.Uint64()
}

func ToInt8(f float64) int8     { return int8(uint8(modBits(f, 8))) }
func ToUint8(f float64) uint8   { return uint8(modBits(f, 8)) }
func ToInt16(f float64) int16   { return int16(uint16(modBits(f, 16))) }
func ToUint16(f float64) uint16 { return uint16(modBits(f, 16)) }
func ToInt32(f float64) int32   { return int32(uint32(modBits(f, 32))) }
func ToUint32(f float64) uint32 { return uint32(modBits(f, 32)) }

// ToUint8Clamp (7.1.12): clamp to [0,255], round half to even.
func ToUint8Clamp(f float64) uint8 {
	if f != f {
		return 0
	}
	if f <= 0 {
		return 0
	}
	if f >= 255 {
		return 255
	}
	fl := math.Floor(f)
	d := f - fl // exact for 0 < f < 255
	switch {
	case d < 0.5:
		return uint8(fl)
	case d > 0.5:
		return uint8(fl) + 1
	}
	if uint8(fl)%2 == 0 {
		return uint8(fl)
	}
	return uint8(fl) + 1
}

// BigIntMod64 implements ToBigUint64's "int modulo 2^64" on a mathematical integer.
func BigIntMod64(i *big.Int) uint64 {
	m := new(big.Int).Lsh(one, 64)
	r := new(big.Int).Mod(i, m)
	return r.Uint64()
}

// F64ToF32Bits converts a double to the IEEE-754 binary32 encoding using roundTiesToEven,
// with integer arithmetic only (no reliance on the Go float32 conversion).
func F64ToF32Bits(f float64) uint32 {
	b := math.Float64bits(f)
	sign := uint32(b>>63) << 31
	exp := int((b >> 52) & 0x7ff)
	man := b & (1<<52 - 1)
	if exp == 0x7ff {
		if man != 0 {
			return 0x7fc00000 // canonical NaN (any NaN encoding is allowed; callers mark it flexible)
		}
		return sign | 0x7f800000
	}
	if exp == 0 {
		// zero or a binary64 subnormal (< 2^-1022), far below half of the smallest binary32 subnormal
		return sign
	}
	m := man | 1<<52 // value = m * 2^(exp-1075), msb of m is bit 52
	E := exp - 1023  // unbiased exponent of the value
	var shift int    // number of low bits of m to drop
	if E >= -126 {
		shift = 52 - 23
	} else {
		// quantum 2^-149: q = round(m * 2^(exp-1075+149))
		shift = -(exp - 1075 + 149)
	}
	var q uint64
	if shift >= 64 {
		q = 0
	} else {
		q = m >> uint(shift)
		rem := m & (uint64(1)<<uint(shift) - 1)
		half := uint64(1) << uint(shift-1)
		if rem > half || (rem == half && q&1 == 1) {
			q++
		}
	}
	if E >= -126 {
		if q == 1<<24 {
			q = 1 << 23
			E++
		}
		if E > 127 {
			return sign | 0x7f800000
		}
		return sign | uint32(E+127)<<23 | uint32(q&0x7fffff)
	}
	// subnormal result (q == 2^23 becomes the smallest normal by construction)
	return sign | uint32(q)
}

// F32BitsToF64 decodes a binary32 encoding exactly.
func F32BitsToF64(b uint32) float64 {
	sign := 1.0
	if b>>31 == 1 {
		sign = -1
	}
	exp := int((b >> 23) & 0xff)
	man := b & 0x7fffff
	switch {
	case exp == 0xff:
		if man != 0 {
			return math.NaN()
		}
		return math.Inf(int(sign))
	case exp == 0:
		return sign * math.Ldexp(float64(man), -149)
	}
	return sign * math.Ldexp(float64(man|1<<23), exp-150)
}

// Raw is the result of NumericToRawBytes in little-endian order plus a flag telling that the value was a
// floating point NaN (for which the spec allows any NaN encoding).
type Raw struct {
	B   [8]byte
	N   int
	NaN bool
}

// NumberToRaw implements NumericToRawBytes (25.1.3.15) for the Number element types; little-endian byte order.
func NumberToRaw(t ElemType, f float64) Raw {
	var u uint64
	r := Raw{N: t.Size()}
	switch t {
	case Int8, Uint8:
		u = modBits(f, 8)
	case Uint8C:
		u = uint64(ToUint8Clamp(f))
	case Int16, Uint16:
		u = modBits(f, 16)
	case Int32, Uint32:
		u = modBits(f, 32)
	case Float32:
		u = uint64(F64ToF32Bits(f))
		r.NaN = f != f
	case Float64:
		u = math.Float64bits(f)
		if f != f {
			u = 0x7ff8000000000000
			r.NaN = true
		}
	default:
		panic("NumberToRaw: BigInt type")
	}
	for i := 0; i < r.N; i++ {
		r.B[i] = byte(u >> (8 * uint(i)))
	}
	return r
}

// BigIntToRaw implements NumericToRawBytes for BigInt64/BigUint64.
func BigIntToRaw(t ElemType, v *big.Int) Raw {
	u := BigIntMod64(v)
	r := Raw{N: 8}
	for i := 0; i < 8; i++ {
		r.B[i] = byte(u >> (8 * uint(i)))
	}
	return r
}

// RawToValue implements RawBytesToNumeric (25.1.3.13); b holds t.Size() bytes in little-endian order.
func RawToValue(t ElemType, b []byte) Value {
	var u uint64
	for i := 0; i < t.Size(); i++ {
		u |= uint64(b[i]) << (8 * uint(i))
	}
	switch t {
	case Int8:
		return float64(int8(u))
	case Uint8, Uint8C:
		return float64(uint8(u))
	case Int16:
		return float64(int16(u))
	case Uint16:
		return float64(uint16(u))
	case Int32:
		return float64(int32(u))
	case Uint32:
		return float64(uint32(u))
	case Float32:
		return F32BitsToF64(uint32(u))
	case Float64:
		f := math.Float64frombits(u)
		if f != f {
			return math.NaN()
		}
		return f
	case BigInt64:
		return big.NewInt(int64(u))
	case BigUint64:
		return new(big.Int).SetUint64(u)
	}
	panic("bad type")
}

// NumberToString implements Number::toString(x, 10) (6.1.6.1.20) on top of strconv's shortest digits.
func NumberToString(f float64) string {
	switch {
	case f != f:
		return "NaN"
	case f == 0:
		return "0"
	case math.IsInf(f, 1):
		return "Infinity"
	case math.IsInf(f, -1):
		return "-Infinity"
	case f < 0:
		return "-" + NumberToString(-f)
	}
	s := strconv.FormatFloat(f, 'e', -1, 64) // d.ddddde±XX
	ePos := strings.IndexByte(s, 'e')
	e10, _ := strconv.Atoi(s[ePos+1:])
	digits := strings.Replace(s[:ePos], ".", "", 1)
	k := len(digits)
	n := e10 + 1
	switch {
	case k <= n && n <= 21:
		return digits + strings.Repeat("0", n-k)
	case 0 < n && n <= 21:
		return digits[:n] + "." + digits[n:]
	case -6 < n && n <= 0:
		return "0." + strings.Repeat("0", -n) + digits
	}
	e := n - 1
	sign := "+"
	if e < 0 {
		sign = "-"
		e = -e
	}
	if k == 1 {
		return digits + "e" + sign + strconv.Itoa(e)
	}
	return digits[:1] + "." + digits[1:] + "e" + sign + strconv.Itoa(e)
}

func isWS(c byte) bool {
	return c == ' ' || c == '\t' || c == '\n' || c == '\r' || c == '\v' || c == '\f'
}

func trimWS(s string) string {
	for len(s) > 0 && isWS(s[0]) {
		s = s[1:]
	}
	for len(s) > 0 && isWS(s[len(s)-1]) {
		s = s[:len(s)-1]
	}
	return s
}

// StringToNumber (7.1.4.1.1) for ASCII strings (the generator only produces ASCII numeric text).
func StringToNumber(s string) float64 {
	s = trimWS(s)
	if s == "" {
		return 0
	}
	switch s {
	case "Infinity", "+Infinity":
		return math.Inf(1)
	case "-Infinity":
		return math.Inf(-1)
	}
	if len(s) > 2 && s[0] == '0' {
		base := 0
		switch s[1] {
		case 'x', 'X':
			base = 16
		case 'o', 'O':
			base = 8
		case 'b', 'B':
			base = 2
		}
		if base != 0 {
			i, ok := new(big.Int).SetString(s[2:], base)
			if !ok || strings.ContainsAny(s[2:], "+-_") {
				return math.NaN()
			}
			f, _ := new(big.Float).SetInt(i).Float64()
			return f
		}
	}
	// StrDecimalLiteral: [+-] (digits [. digits?] | . digits) ([eE] [+-] digits)?
	i := 0
	if s[i] == '+' || s[i] == '-' {
		i++
	}
	nd := 0
	for i < len(s) && s[i] >= '0' && s[i] <= '9' {
		i++
		nd++
	}
	if i < len(s) && s[i] == '.' {
		i++
		for i < len(s) && s[i] >= '0' && s[i] <= '9' {
			i++
			nd++
		}
	}
	if nd == 0 {
		return math.NaN()
	}
	if i < len(s) && (s[i] == 'e' || s[i] == 'E') {
		i++
		if i < len(s) && (s[i] == '+' || s[i] == '-') {
			i++
		}
		ne := 0
		for i < len(s) && s[i] >= '0' && s[i] <= '9' {
			i++
			ne++
		}
		if ne == 0 {
			return math.NaN()
		}
	}
	if i != len(s) {
		return math.NaN()
	}
	f, err := strconv.ParseFloat(s, 64)
	if err != nil && !math.IsInf(f, 0) {
		return math.NaN()
	}
	return f
}

// StringToBigInt (7.1.14): returns nil when the text is not a valid StringIntegerLiteral.
func StringToBigInt(s string) *big.Int {
	s = trimWS(s)
	if s == "" {
		return new(big.Int)
	}
	if len(s) > 2 && s[0] == '0' {
		base := 0
		switch s[1] {
		case 'x', 'X':
			base = 16
		case 'o', 'O':
			base = 8
		case 'b', 'B':
			base = 2
		}
		if base != 0 {
			if strings.ContainsAny(s[2:], "+-_") {
				return nil
			}
			i, ok := new(big.Int).SetString(s[2:], base)
			if !ok {
				return nil
			}
			return i
		}
	}
	t := s
	if t[0] == '+' || t[0] == '-' {
		t = t[1:]
	}
	if t == "" {
		return nil
	}
	for i := 0; i < len(t); i++ {
		if t[i] < '0' || t[i] > '9' {
			return nil
		}
	}
	i, ok := new(big.Int).SetString(s, 10)
	if !ok {
		return nil
	}
	return i
}
