package taref

import (
	"fmt"
	"math"
	"math/big"
	"strings"
	"unicode/utf16"
)

// Value is a model ECMAScript value: Undefined, Null, bool, float64 (Number), *big.Int (BigInt), string,
// *Tricky, *TypedArray, *Buffer, *DataView, *Array, *Callback, *Opaque.
type Value any

type undefType struct{}
type nullType struct{}

var Undefined = undefType{}
var Null = nullType{}

func IsUndef(v Value) bool { _, ok := v.(undefType); return ok || v == nil }

// Throw is an abrupt completion carrying the constructor name of the thrown error.
type Throw struct{ Name string }

func (t *Throw) Error() string { return t.Name }

func throw(name string) { panic(&Throw{Name: name}) }

// Effect is one side effect performed by a user-supplied callback (valueOf, species constructor, callbackfn, comparator).
type Effect struct {
	Kind  string `json:"k"`           // "detach" | "store" | "throw" | "shrink"
	Buf   int    `json:"b,omitempty"` // detach: buffer id
	View  int    `json:"v,omitempty"` // store: view id
	Index int    `json:"i,omitempty"` // store: element index
	Val   Value  `json:"-"`           // store: primitive value stored
	Err   string `json:"e,omitempty"` // throw: error constructor name
	N     int    `json:"n,omitempty"` // shrink: new length of the current source array
}

// Tricky is an object whose valueOf/toString run effects and return a primitive.
type Tricky struct {
	ID      int
	Effects []Effect
	Ret     Value // primitive
}

// Opaque is an ordinary object without interesting behaviour ({}).
type Opaque struct{ Tag string }

// Array is an ordinary Array (IsArray) or an array-like object {length: LengthVal, 0:..,1:..}.
type Array struct {
	Elems     []Value
	IsArray   bool
	LengthVal Value // array-likes only
}

// Callback is a user function passed to every/some/map/... : it logs "c<ID>" and its arguments, runs Effects on
// call number At (0-based), and returns Rets[call % len(Rets)].
type Callback struct {
	ID      int
	At      int
	Effects []Effect
	Rets    []Value
	calls   int
}

// Comparator for sort/toSorted. Kind: "asc", "desc", "sign" (order by class negative<zero<positive<NaN), "const0".
// Effects run on the first call only.
type Comparator struct {
	ID      int
	Kind    string
	Effects []Effect
	calls   int
}

// Buffer models an ArrayBuffer.
type Buffer struct {
	ID       int
	Data     []byte
	Flex     []bool // bytes written by a NaN store whose encoding is implementation-chosen (adopted at compare time)
	Detached bool
	Ctor     *CtorSpec
	NaNs     []NaNClaim
}

// NaNClaim records that a floating point NaN was stored at [Off, Off+Size).
type NaNClaim struct {
	Off, Size int
	Little    bool
}

// CtorSpec describes an own "constructor" property installed on a typed array / array buffer.
type CtorSpec struct {
	// Kind: "undefined" (constructor is undefined -> default), "nonobject" (constructor = 5 -> TypeError),
	// "species-undefined", "species-null" (-> default), "species-notctor" (-> TypeError), "species-fn".
	Kind string
	Fn   *SpeciesFn
}

// SpeciesFn is a constructor function installed as constructor[Symbol.species].
type SpeciesFn struct {
	ID      int
	Effects []Effect
	// Result: "new" fresh array of Type with length requested+Delta; "view" fresh view of Type over buffer Buf at Off with Len
	// elements; "existing" the registered view View; "detached" fresh array of Type (requested length) whose buffer is detached
	// before returning; "plain" an ordinary object; for array buffers: "newbuf" (length requested+Delta), "samebuf" (the receiver),
	// "existingbuf" (Buf), "detachedbuf", "plain".
	Result string
	Type   ElemType
	Delta  int
	Buf    int
	Off    int
	Len    int
	View   int
}

// TypedArray models an Integer-Indexed exotic object.
type TypedArray struct {
	ID         int
	Type       ElemType
	Buf        *Buffer
	ByteOffset int
	Length     int
	Ctor       *CtorSpec
	Props      map[string]Value
}

// DataView models a DataView object.
type DataView struct {
	ID         int
	Buf        *Buffer
	ByteOffset int
	ByteLength int
}

// World is the model heap: registered buffers / views / data views, and the observable callback log.
type World struct {
	Bufs  map[int]*Buffer
	Views map[int]*TypedArray
	DVs   map[int]*DataView
	Log   []Value
	// SideEffects counts effects actually executed during coercions / callbacks.
	SideEffects int
	// DetachInCoercion counts detach effects executed.
	DetachInCoercion int
	// FlexReads counts reads of implementation-chosen NaN encodings within the operation that stored them (see noteFlexRead).
	FlexReads int
	// HugeIntConversions counts integer element conversions of Numbers with 2^63 <= |x| < 2^85.
	HugeIntConversions int
	CurSrc             *Array
	LittleEndian       bool // platform endianness used by typed array element access
}

func NewWorld() *World {
	return &World{Bufs: map[int]*Buffer{}, Views: map[int]*TypedArray{}, DVs: map[int]*DataView{}, LittleEndian: true}
}

func (w *World) log(vs ...Value) { w.Log = append(w.Log, vs...) }

// Do runs f and converts a model throw into a returned *Throw.
func (w *World) Do(f func() Value) (v Value, thr *Throw) {
	defer func() {
		if x := recover(); x != nil {
			if t, ok := x.(*Throw); ok {
				thr = t
				v = nil
				return
			}
			panic(x)
		}
	}()
	v = f()
	return
}

// NewBuffer allocates a zero-filled unregistered buffer.
func NewBuffer(n int) *Buffer {
	return &Buffer{ID: -1, Data: make([]byte, n), Flex: make([]bool, n)}
}

// Detach implements DetachArrayBuffer.
func (b *Buffer) Detach() {
	b.Data = nil
	b.Flex = nil
	b.NaNs = nil
	b.Detached = true
}

func (w *World) runEffects(effs []Effect) {
	for i := range effs {
		e := &effs[i]
		switch e.Kind {
		case "detach":
			if b := w.Bufs[e.Buf]; b != nil {
				w.SideEffects++
				if !b.Detached {
					w.DetachInCoercion++
					b.Detach()
				}
			}
		case "store":
			if v := w.Views[e.View]; v != nil {
				w.SideEffects++
				w.taSetElement(v, float64(e.Index), e.Val)
			}
		case "shrink":
			if w.CurSrc != nil && w.CurSrc.IsArray {
				w.SideEffects++
				if e.N < len(w.CurSrc.Elems) {
					w.CurSrc.Elems = w.CurSrc.Elems[:e.N]
				}
			}
		case "throw":
			w.SideEffects++
			throw(e.Err)
		}
	}
}

// ToPrimitive for the value kinds the generator passes where a primitive is required.
func (w *World) ToPrimitive(v Value) Value {
	switch x := v.(type) {
	case *Tricky:
		w.log("t" + fmt.Sprint(x.ID))
		w.runEffects(x.Effects)
		return x.Ret
	case *TypedArray, *Buffer, *DataView, *Array, *Opaque, *Callback:
		panic("taref: ToPrimitive outside the model domain")
	}
	return v
}

func (w *World) ToNumber(v Value) float64 {
	v = w.ToPrimitive(v)
	switch x := v.(type) {
	case nil, undefType:
		return math.NaN()
	case nullType:
		return 0
	case bool:
		if x {
			return 1
		}
		return 0
	case float64:
		return x
	case *big.Int:
		throw("TypeError")
	case string:
		return StringToNumber(x)
	}
	panic(fmt.Sprintf("taref: ToNumber(%T)", v))
}

func (w *World) ToBigInt(v Value) *big.Int {
	v = w.ToPrimitive(v)
	switch x := v.(type) {
	case nil, undefType, nullType, float64:
		throw("TypeError")
	case bool:
		if x {
			return big.NewInt(1)
		}
		return new(big.Int)
	case *big.Int:
		return x
	case string:
		i := StringToBigInt(x)
		if i == nil {
			throw("SyntaxError")
		}
		return i
	}
	panic(fmt.Sprintf("taref: ToBigInt(%T)", v))
}

func (w *World) ToIntegerOrInfinity(v Value) float64 { return ToIntegerOrInfinity(w.ToNumber(v)) }

// ToIndex (7.1.22).
func (w *World) ToIndex(v Value) int {
	if IsUndef(v) {
		return 0
	}
	i := w.ToIntegerOrInfinity(v)
	if i < 0 || i > 9007199254740991 {
		throw("RangeError")
	}
	return int(i)
}

func ToBoolean(v Value) bool {
	switch x := v.(type) {
	case nil, undefType, nullType:
		return false
	case bool:
		return x
	case float64:
		return !(x == 0 || x != x)
	case *big.Int:
		return x.Sign() != 0
	case string:
		return x != ""
	}
	return true
}

func (w *World) ToString(v Value) string {
	v = w.ToPrimitive(v)
	switch x := v.(type) {
	case nil, undefType:
		return "undefined"
	case nullType:
		return "null"
	case bool:
		if x {
			return "true"
		}
		return "false"
	case float64:
		return NumberToString(x)
	case *big.Int:
		return x.String()
	case string:
		return x
	}
	panic(fmt.Sprintf("taref: ToString(%T)", v))
}

// ToLength (7.1.20).
func (w *World) ToLength(v Value) int {
	l := w.ToIntegerOrInfinity(v)
	if l <= 0 {
		return 0
	}
	if l > 9007199254740991 {
		return 9007199254740991
	}
	return int(l)
}

// SameValueZero / IsStrictlyEqual over model values.
func sameNumeric(a, b Value, nanEqual bool) bool {
	switch x := a.(type) {
	case float64:
		y, ok := b.(float64)
		if !ok {
			return false
		}
		if x != x && y != y {
			return nanEqual
		}
		return x == y
	case *big.Int:
		y, ok := b.(*big.Int)
		return ok && x.Cmp(y) == 0
	}
	return false
}

func looseIdentity(a, b Value) bool {
	switch x := a.(type) {
	case nil, undefType:
		return IsUndef(b)
	case nullType:
		_, ok := b.(nullType)
		return ok
	case bool:
		y, ok := b.(bool)
		return ok && x == y
	case string:
		y, ok := b.(string)
		return ok && x == y
	case float64, *big.Int:
		return false
	}
	return a == b // object identity
}

func SameValueZero(a, b Value) bool {
	return sameNumeric(a, b, true) || looseIdentity(a, b)
}

func StrictEquals(a, b Value) bool {
	return sameNumeric(a, b, false) || looseIdentity(a, b)
}

// RenderStr renders a string as its UTF-16 code units, in the format of gj.RenderString.
func RenderStr(s string) string {
	u := utf16.Encode([]rune(s))
	var b strings.Builder
	fmt.Fprintf(&b, "s:%d:", len(u))
	for _, c := range u {
		if c >= 0x20 && c < 0x7f && c != '\\' {
			b.WriteByte(byte(c))
		} else {
			fmt.Fprintf(&b, "\\u%04x", c)
		}
	}
	return b.String()
}

// Render is the canonical rendering of a model value (compared with the harness' rendering of goja values).
func Render(v Value) string {
	switch x := v.(type) {
	case nil, undefType:
		return "u"
	case nullType:
		return "n"
	case bool:
		if x {
			return "b:true"
		}
		return "b:false"
	case float64:
		if x != x {
			return "d:NaN"
		}
		return fmt.Sprintf("d:%016x", math.Float64bits(x))
	case *big.Int:
		return "g:" + x.String()
	case string:
		return RenderStr(x)
	case *TypedArray:
		if x.ID >= 0 {
			return fmt.Sprintf("V%d", x.ID)
		}
		return "newobj"
	case *Buffer:
		if x.ID >= 0 {
			return fmt.Sprintf("B%d", x.ID)
		}
		return "newobj"
	case *DataView:
		if x.ID >= 0 {
			return fmt.Sprintf("D%d", x.ID)
		}
		return "newobj"
	case *Array:
		var b strings.Builder
		b.WriteByte('[')
		for i, e := range x.Elems {
			if i > 0 {
				b.WriteByte(',')
			}
			b.WriteString(Render(e))
		}
		b.WriteByte(']')
		return b.String()
	case *Opaque, *Tricky, *Callback:
		return "newobj"
	}
	return fmt.Sprintf("?%T", v)
}
